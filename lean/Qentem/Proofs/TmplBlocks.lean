import Qentem.Proofs.TmplBlockIf
/-!
# C02 stage 5 — block templates as trees: `<if>` / `<elseif>` / `<else>` chains, nested

`BT` is the fragment of `Tpl` made of segment runs and if-chains whose bodies are again block
templates.  Parse, render and the reference expansion are followed by mutual recursion over the
tree; the parse lemmas are parametric in the stack of open containers.
-/
set_option linter.unusedSectionVars false
set_option linter.unusedVariables false
namespace Qentem.Tmpl
open Qentem.Expr (Fault rd ScanCfg VarRef Item Num Val Env RealLike)
open Qentem.Generated.Tmpl

variable {R : Type}

/-! ### the attribute scan `case="e"`, in general position -/

/-- the units of ` case="e"` + `k` units + `>` at `s` -/
structure CaseText (c : List Nat) (s : Nat) (e : List Nat) (k : Nat) : Prop where
  sp : c[s]? = some 32
  w1 : c[s + 1]? = some 99
  w2 : c[s + 2]? = some 97
  w3 : c[s + 3]? = some 115
  w4 : c[s + 4]? = some 101
  eq : c[s + 5]? = some 61
  q1 : c[s + 6]? = some 34
  expr : ∀ i (hi : i < e.length), c[s + 7 + i]? = some e[i]
  q2 : c[s + 7 + e.length]? = some 34
  fill : ∀ j, j < k → ∃ x, c[s + 8 + e.length + j]? = some x ∧ x ≠ 62
  gt : c[s + 8 + e.length + k]? = some 62

theorem parseIfCase_at (c : List Nat) (s : Nat) (e : List Nat) (k : Nat) (ht : CaseText c s e k)
    (he : ∀ x ∈ e, x ≠ 34) :
    parseIfCase c s c.length = .ok (s + 9 + e.length + k, s + 7, s + 7 + e.length) := by
  have hlen : s + 8 + e.length + k < c.length := (List.getElem?_eq_some_iff.mp ht.gt).1
  have hcl4 : W1.caseLength = 4 := by decide
  have s1 : skipW c c.length (· == W1.spaceChar) s = .ok (s + 1) := by
    apply skipW_run c c.length _ 1 s
    · intro i hi
      have : i = 0 := by omega
      subst this
      exact ⟨32, by simpa using ht.sp, by decide⟩
    · omega
    · right; exact ⟨99, ht.w1, by decide⟩
  have s2 : andEqualAt (decide (s + 1 < c.length) && decide (c.length - (s + 1) > W1.caseLength))
      c (s + 1) W1.caseStr = .ok true := by
    have : (decide (s + 1 < c.length) && decide (c.length - (s + 1) > W1.caseLength)) = true := by
      simp only [hcl4, Bool.and_eq_true, decide_eq_true_eq]; omega
    simp only [andEqualAt, this, if_true]
    apply isEqualAt_true
    intro i hi
    have hi4 : i < 4 := by simpa [show W1.caseStr = [99, 97, 115, 101] by decide] using hi
    have : i = 0 ∨ i = 1 ∨ i = 2 ∨ i = 3 := by omega
    rcases this with h | h | h | h <;> subst h
    · rw [show s + 1 + 0 = s + 1 by omega, ht.w1]; rfl
    · rw [show s + 1 + 1 = s + 2 by omega, ht.w2]; rfl
    · rw [show s + 1 + 2 = s + 3 by omega, ht.w3]; rfl
    · rw [show s + 1 + 3 = s + 4 by omega, ht.w4]; rfl
  have s3 : skipW c c.length (· != W1.equalChar) (s + 1 + W1.caseLength) = .ok (s + 5) := by
    rw [show s + 1 + W1.caseLength = s + 5 by omega]
    exact skipW_run c c.length _ 0 (s + 5) (by intro i hi; omega) (by omega) (Or.inr ⟨61, by simpa using ht.eq, by decide⟩)
  have s4 : skipW c c.length (· == W1.spaceChar) (s + 5 + 1) = .ok (s + 6) := by
    exact skipW_run c c.length _ 0 (s + 6) (by intro i hi; omega) (by omega) (Or.inr ⟨34, by simpa using ht.q1, by decide⟩)
  have s5 : skipW c c.length (· != 34) (s + 6 + 1) = .ok (s + 7 + e.length) := by
    rw [show s + 6 + 1 = s + 7 by omega]
    apply skipW_run
    · intro i hi
      refine ⟨e[i], ht.expr i hi, ?_⟩
      have := he e[i] (List.getElem_mem hi)
      simpa using this
    · omega
    · right; exact ⟨34, ht.q2, by decide⟩
  have s6 : skipW c c.length (· != W1.multiLineLastChar) (s + 7 + e.length) = .ok (s + 7 + e.length + (1 + k)) := by
    apply skipW_run
    · intro i hi
      by_cases h0 : i = 0
      · subst h0; exact ⟨34, by simpa using ht.q2, by decide⟩
      · obtain ⟨x, hx, hne⟩ := ht.fill (i - 1) (by omega)
        refine ⟨x, by rw [show s + 7 + e.length + i = s + 8 + e.length + (i - 1) by omega]; exact hx, ?_⟩
        simp only [show W1.multiLineLastChar = 62 by decide]; simpa using hne
    · omega
    · right; exact ⟨62, by rw [show s + 7 + e.length + (1 + k) = s + 8 + e.length + k by omega]; exact ht.gt, by decide⟩
  simp only [parseIfCase, s1, bind, Except.bind, s2, if_true, s3, doSkipW, s4]
  have hlt : s + 6 < c.length := by omega
  simp only [hlt, if_true, rd_some c (s + 6) 34 ht.q1, s5, s6]
  congr 2 <;> omega

/-- a quoted expression text inside the content, as a relocation of `e"` -/
theorem reloc_quoted (c A0 e post : List Nat) (hc : c = (A0 ++ [34]) ++ (e ++ [34]) ++ post) :
    Qentem.Expr.Reloc (e ++ [34]) c (A0.length + 1) := by
  have hbefore := isExpression_after_quote A0 ((e ++ [34]) ++ post)
  rw [← List.append_assoc] at hbefore
  have hrel := Qentem.Expr.Reloc.of_append (A0 ++ [34]) (e ++ [34]) post hbefore
  have hl : (A0 ++ [34]).length = A0.length + 1 := by simp
  rw [← hc, hl] at hrel
  exact hrel

theorem exprs_quoted (cfg : ScanCfg R) (c A0 e post : List Nat)
    (hc : c = (A0 ++ [34]) ++ (e ++ [34]) ++ post) (items : List (Item R))
    (hs : Qentem.Expr.parseTop ({ readNum := cfg.readNum } : ScanCfg R) (e ++ [34]) 0 e.length = .ok items) :
    ∃ items', exprs cfg c [] (A0.length + 1) (A0.length + 1 + e.length) = .ok items' ∧
      Qentem.Expr.RelItems (PvTop (A0.length + 1) (e.length + 1)) (A0.length + 1) (e.length + 1) items items' := by
  have hrel := reloc_quoted c A0 e post hc
  obtain ⟨items', h1, h2⟩ := Qentem.Expr.parseTop_relocV ({ readNum := cfg.readNum } : ScanCfg R)
    { cfg with loopVar := loopVarPure c [] } rfl hrel (PvTop (A0.length + 1) (e.length + 1))
    (by
      intro off en h1 h2 h3
      have hen : en < (e ++ [34]).length := (List.getElem?_eq_some_iff.mp h3).1
      simp only [List.length_append, List.length_cons, List.length_nil] at hen
      have hm := Nat.mod_le (en - (off + 5)) (2 ^ Qentem.Generated.Expr.variableLengthBits)
      refine ⟨?_, ?_⟩
      · simp only [Qentem.Expr.scanVar, loopVarPure, checkLoopVariable]
        rw [show A0.length + 1 + en - (A0.length + 1 + off + 5) = en - (off + 5) by omega,
          show A0.length + 1 + off + 5 = A0.length + 1 + (off + 5) by omega]
      · simp only [Qentem.Expr.scanVar]; omega)
    0 e.length (by simp) items hs
  exact ⟨items', by simpa [exprs] using h1, by simpa using h2⟩

/-- `<elseif case="e" />` handled by `stepElse` -/
theorem stepElif_print (cfg : ScanCfg R) (c : List Nat) (stk : List (Frame R)) (pre0 : List (Tag R))
    (done : List (IfCase R)) (cur : List (Item R)) (curOff off : Nat) (sub : List (Tag R)) (q : Nat) (e : List Nat)
    (h5 : c[q + 5]? = some 105) (ht : CaseText c (q + 7) e 2) (he : ∀ x ∈ e, x ≠ 34)
    (hlt : q + 18 + e.length < c.length) (items2 : List (Item R))
    (hex : exprs cfg c [] (q + 14) (q + 14 + e.length) = .ok items2) (o3 m3 : Nat)
    (hnext : next c (q + 18 + e.length) = .ok (o3, m3)) :
    stepElse cfg c (stAt (.ifT pre0 done cur curOff off :: stk) sub (q + 5) 11) =
      .ok (stAt (.ifT pre0 (done ++ [.mk cur sub curOff q]) items2 (q + 18 + e.length) off :: stk) [] o3 m3) := by
  have hpl : W1.elsePrefixLength = 5 := by decide
  have hscan : elseScan c (c.length + 1) (q + 5) = .ok (q + 7, true) := by
    have hl5 : q + 5 < c.length := (List.getElem?_eq_some_iff.mp h5).1
    simp [elseScan, rd_some c (q + 5) 105 h5, bind, Except.bind, hl5,
      show W1.multiLineLastChar = 62 by decide, show W1.ifPrefixFirst = 105 by decide,
      show W1.ifAfterElseLength = 2 by decide]
  have hpc := parseIfCase_at c (q + 7) e 2 ht he
  rw [show q + 7 + 9 + e.length + 2 = q + 18 + e.length by omega, show q + 7 + 7 = q + 14 by omega] at hpc
  have hcond : (q + 18 + e.length < c.length ∧ q + 14 + e.length ≠ 0) := ⟨hlt, by omega⟩
  have hne : q + 14 + e.length ≠ 0 := by omega
  simp only [stepElse, stAt, hscan, bind, Except.bind, if_true, hpc, finderNext, hnext, hlt, hne, true_and, ne_eq,
    not_false_eq_true, hex, hpl, Nat.add_sub_cancel]

/-! ### block trees -/

mutual
inductive BT where
  | segs (l : List Seg)
  | ifc (e : List Nat) (body : BTs) (tail : BTail)
inductive BTs where
  | nil
  | cons (b : BT) (r : BTs)
inductive BTail where
  | fin
  | els (body : BTs)
  | elif (e : List Nat) (body : BTs) (tail : BTail)
end

/-- `<elseif case="` -/
def ELIF : List Nat := [60, 101, 108, 115, 101, 105, 102, 32, 99, 97, 115, 101, 61, 34]
/-- `" />` -/
def ELIFEND : List Nat := [34, 32, 47, 62]

mutual
def printBT : BT → List Nat
  | .segs l => printSegs l
  | .ifc e body tail => IFOPEN ++ e ++ [34, 62] ++ printBTs body ++ printTail tail
def printBTs : BTs → List Nat
  | .nil => []
  | .cons b r => printBT b ++ printBTs r
def printTail : BTail → List Nat
  | .fin => IFEND
  | .els body => ELSE ++ printBTs body ++ IFEND
  | .elif e body tail => ELIF ++ e ++ ELIFEND ++ printBTs body ++ printTail tail
end

mutual
def BT.toTpls : BT → List Tpl
  | .segs l => segsTpl l
  | .ifc e body tail => [.ifc ((some e, btsTpl body) :: tailBr tail)]
def btsTpl : BTs → List Tpl
  | .nil => []
  | .cons b r => b.toTpls ++ btsTpl r
def tailBr : BTail → List (Option (List Nat) × List Tpl)
  | .fin => []
  | .els body => [(none, btsTpl body)]
  | .elif e body tail => (some e, btsTpl body) :: tailBr tail
end

mutual
theorem printBT_eq : ∀ (b : BT), printList b.toTpls = printBT b
  | .segs l => by simp only [BT.toTpls, printBT]; exact printSegs_eq l
  | .ifc e body tail => by
    have h1 : str "<if case=\"" = IFOPEN := by rfl
    have h2 : str "\">" = [34, 62] := by rfl
    simp only [BT.toTpls, printBT, printList, printTpl, printBranches, if_true, h1, h2, printBTs_eq body,
      printTail_eq tail, List.append_nil, List.append_assoc]
theorem printBTs_eq : ∀ (bs : BTs), printList (btsTpl bs) = printBTs bs
  | .nil => rfl
  | .cons b r => by simp only [btsTpl, printBTs, printList_append, printBT_eq b, printBTs_eq r]
theorem printTail_eq : ∀ (t : BTail), printBranches false (tailBr t) ++ str "</if>" = printTail t
  | .fin => by rfl
  | .els body => by
    have h4 : str "<else />" = ELSE := by rfl
    have h3 : str "</if>" = IFEND := by rfl
    simp only [tailBr, printBranches, printTail, h4, h3, printBTs_eq body, List.append_nil, List.append_assoc]
  | .elif e body tail => by
    have h1 : str "<elseif case=\"" = ELIF := by rfl
    have h2 : str "\" />" = ELIFEND := by rfl
    simp only [tailBr, printBranches, printTail, Bool.false_eq_true, if_false, h1, h2, printBTs_eq body,
      List.append_assoc, printTail_eq tail]
end

mutual
def BT.ok : BT → Prop
  | .segs l => ∀ s ∈ l, s.ok
  | .ifc e body tail => (∀ x ∈ e, x ≠ 34) ∧ BTs.ok body ∧ BTail.ok tail
def BTs.ok : BTs → Prop
  | .nil => True
  | .cons b r => BT.ok b ∧ BTs.ok r
def BTail.ok : BTail → Prop
  | .fin => True
  | .els body => BTs.ok body
  | .elif e body tail => (∀ x ∈ e, x ≠ 34) ∧ BTs.ok body ∧ BTail.ok tail
end

mutual
/-- number of `step`s of the main loop -/
def costBT : BT → Nat
  | .segs l => nTags l
  | .ifc _ body tail => 1 + costBTs body + costTail tail
def costBTs : BTs → Nat
  | .nil => 0
  | .cons b r => costBT b + costBTs r
def costTail : BTail → Nat
  | .fin => 1
  | .els body => 1 + costBTs body + 1
  | .elif _ body tail => 1 + costBTs body + costTail tail
end

mutual
def tagsBT (cfg : ScanCfg R) (c : List Nat) (p : Nat) : BT → List (Tag R)
  | .segs l => tagsOf cfg c p l
  | .ifc e body tail =>
    [.ifT (.mk (itemsAt cfg c (p + 10) (p + 10 + e.length)) (tagsBTs cfg c (p + 12 + e.length) body)
        (p + 12 + e.length) (p + 12 + e.length + (printBTs body).length) ::
      casesT cfg c (p + 12 + e.length + (printBTs body).length) tail) p
      (p + 12 + e.length + (printBTs body).length + (printTail tail).length)]
def tagsBTs (cfg : ScanCfg R) (c : List Nat) (p : Nat) : BTs → List (Tag R)
  | .nil => []
  | .cons b r => tagsBT cfg c p b ++ tagsBTs cfg c (p + (printBT b).length) r
def casesT (cfg : ScanCfg R) (c : List Nat) (q : Nat) : BTail → List (IfCase R)
  | .fin => []
  | .els body => [.mk [] (tagsBTs cfg c (q + 8) body) (q + 8) (q + 8 + (printBTs body).length)]
  | .elif e body tail =>
    .mk (itemsAt cfg c (q + 14) (q + 14 + e.length)) (tagsBTs cfg c (q + 18 + e.length) body)
      (q + 18 + e.length) (q + 18 + e.length + (printBTs body).length) ::
    casesT cfg c (q + 18 + e.length + (printBTs body).length) tail
end

theorem printTail_pos (t : BTail) : 5 ≤ (printTail t).length := by
  cases t <;> simp [printTail, IFEND, ELSE, ELIF, ELIFEND] <;> omega

theorem parseMain_step (cfg : ScanCfg R) (c : List Nat) (f : Nat) (st st' : PState R) (hm : st.mtch ≠ 0)
    (h : step cfg c st = .ok st') : parseMain cfg c (f + 1) st = parseMain cfg c f st' := by
  simp only [parseMain, hm, ne_eq, not_false_eq_true, if_true, h, bind, Except.bind]

/-- the units of a printed `<elseif case="e" />` at `q` -/
theorem elifText_of (c pre e rest : List Nat) (hc : c = pre ++ (ELIF ++ e ++ ELIFEND ++ rest)) :
    (∀ i (hi : i < 14), c[pre.length + i]? = some (ELIF[i]'(by simp [ELIF]; exact hi))) ∧
    CaseText c (pre.length + 7) e 2 := by
  have hc1 : c = pre ++ (ELIF ++ (e ++ ELIFEND ++ rest)) := by rw [hc]; simp [List.append_assoc]
  have hc2 : c = (pre ++ ELIF) ++ (e ++ (ELIFEND ++ rest)) := by rw [hc]; simp [List.append_assoc]
  have hc3 : c = (pre ++ ELIF ++ e) ++ (ELIFEND ++ rest) := by rw [hc]; simp [List.append_assoc]
  have hl : (pre ++ ELIF).length = pre.length + 14 := by simp [ELIF]
  have hl3 : (pre ++ ELIF ++ e).length = pre.length + 14 + e.length := by simp [ELIF]; omega
  have g : ∀ i (hi : i < 14), c[pre.length + i]? = some (ELIF[i]'(by simp [ELIF]; exact hi)) := by
    intro i hi; rw [hc1]; exact get_at pre ELIF _ i (by simp [ELIF]; exact hi)
  have ge : ∀ i (hi : i < e.length), c[pre.length + 14 + i]? = some e[i] := by
    intro i hi
    have := get_at (pre ++ ELIF) e (ELIFEND ++ rest) i hi
    rw [hl] at this; rw [hc2]; exact this
  have gz : ∀ i (hi : i < 4), c[pre.length + 14 + e.length + i]? = some (ELIFEND[i]'(by simp [ELIFEND]; exact hi)) := by
    intro i hi
    have := get_at (pre ++ ELIF ++ e) ELIFEND rest i (by simp [ELIFEND]; exact hi)
    rw [hl3] at this; rw [hc3]; exact this
  refine ⟨g, ?_⟩
  have k := fun (j : Nat) (hj : j < 7) => g (7 + j) (by omega)
  refine ⟨by have := k 0 (by omega); exact this,
    by have := k 1 (by omega); rw [show pre.length + 7 + 1 = pre.length + (7 + 1) by omega]; exact this,
    by have := k 2 (by omega); rw [show pre.length + 7 + 2 = pre.length + (7 + 2) by omega]; exact this,
    by have := k 3 (by omega); rw [show pre.length + 7 + 3 = pre.length + (7 + 3) by omega]; exact this,
    by have := k 4 (by omega); rw [show pre.length + 7 + 4 = pre.length + (7 + 4) by omega]; exact this,
    by have := k 5 (by omega); rw [show pre.length + 7 + 5 = pre.length + (7 + 5) by omega]; exact this,
    by have := k 6 (by omega); rw [show pre.length + 7 + 6 = pre.length + (7 + 6) by omega]; exact this, ?_, ?_, ?_, ?_⟩
  · intro i hi
    have := ge i hi
    rw [show pre.length + 7 + 7 + i = pre.length + 14 + i by omega]; exact this
  · have := gz 0 (by omega)
    rw [show pre.length + 7 + 7 + e.length = pre.length + 14 + e.length + 0 by omega]; exact this
  · intro j hj
    have hj2 : j = 0 ∨ j = 1 := by omega
    rcases hj2 with h | h <;> subst h
    · exact ⟨32, by have := gz 1 (by omega); rw [show pre.length + 7 + 8 + e.length + 0 = pre.length + 14 + e.length + 1 by omega]; exact this, by decide⟩
    · exact ⟨47, by have := gz 2 (by omega); rw [show pre.length + 7 + 8 + e.length + 1 = pre.length + 14 + e.length + 2 by omega]; exact this, by decide⟩
  · have := gz 3 (by omega)
    rw [show pre.length + 7 + 8 + e.length + 2 = pre.length + 14 + e.length + 3 by omega]; exact this

/-! ### parse of a block tree (any stack of open block containers) -/

mutual
theorem parse_bt (cfg : ScanCfg R) (c : List Nat) (hn : c.length + 16 < 4294967296) :
    ∀ (b : BT) (stk : List (Frame R)) (pre post : List Nat) (acc : List (Tag R)) (fuel o m o' m' : Nat),
      c = pre ++ (printBT b ++ post) → b.ok →
      next c pre.length = .ok (o, m) → next c (pre.length + (printBT b).length) = .ok (o', m') →
      parseMain cfg c (fuel + costBT b) (stAt stk acc o m) =
        parseMain cfg c fuel (stAt stk (acc ++ tagsBT cfg c pre.length b) o' m')
  | .segs l, stk, pre, post, acc, fuel, o, m, o', m', hc, hok, hnext, hfin => by
    simp only [printBT] at hc hfin
    simp only [BT.ok] at hok
    simp only [costBT, tagsBT]
    exact parseMain_segs cfg c hn stk post l pre acc fuel o m o' m' hc hok (fun s _ => Seg.scanOk_all _ s) hnext hfin
  | .ifc e body tail, stk, pre, post, acc, fuel, o, m, o', m', hc, hok, hnext, hfin => by
    simp only [BT.ok] at hok
    obtain ⟨hq34, hbody, htail⟩ := hok
    simp only [printBT] at hc hfin
    have htp := printTail_pos tail
    have hc1 : c = pre ++ (IFOPEN ++ e ++ [34, 62] ++ (printBTs body ++ printTail tail ++ post)) := by
      rw [hc]; simp [List.append_assoc]
    have ht := ifText_of c pre e _ hc1
    have g := fun i (hi : i < 10) => ht.open_ i hi
    have hat : next c pre.length = .ok (pre.length + 3, 9) :=
      next_at_if c pre.length hn (g 0 (by omega)) (g 1 (by omega)) (g 2 (by omega)) (g 4 (by omega)) (g 6 (by omega))
    rw [hat] at hnext
    simp only [Except.ok.injEq, Prod.mk.injEq] at hnext
    obtain ⟨rfl, rfl⟩ := hnext
    obtain ⟨items0, hitems0⟩ := Qentem.Expr.parseTop_total ({ readNum := cfg.readNum } : ScanCfg R) (e ++ [34]) 0 e.length (by simp)
    have hcq0 : c = ((pre ++ [60, 105, 102, 32, 99, 97, 115, 101, 61]) ++ [34]) ++ (e ++ [34]) ++
        ([62] ++ (printBTs body ++ printTail tail ++ post)) := by
      rw [hc1]; simp [IFOPEN, List.append_assoc]
    obtain ⟨items', hex, _⟩ := exprs_quoted cfg c (pre ++ [60, 105, 102, 32, 99, 97, 115, 101, 61]) e _ hcq0 items0 hitems0
    have hA0 : (pre ++ [60, 105, 102, 32, 99, 97, 115, 101, 61]).length + 1 = pre.length + 10 := by simp
    rw [hA0] at hex
    obtain ⟨o1, m1, hn1, _⟩ := next_safe_total c (pre.length + 12 + e.length) ht.len
    have hstep := stepIf_print cfg c pre e _ hc1 hq34 (by simp only [List.length_append]; omega) stk acc items' hex o1 m1 hn1
    have hl2 : (pre ++ (IFOPEN ++ e ++ [34, 62])).length = pre.length + 12 + e.length := by simp [IFOPEN]; omega
    have hc2 : c = (pre ++ (IFOPEN ++ e ++ [34, 62])) ++ (printBTs body ++ (printTail tail ++ post)) := by
      rw [hc1]; simp [List.append_assoc]
    have hq_le : pre.length + 12 + e.length + (printBTs body).length ≤ c.length := by
      rw [hc1]; simp [IFOPEN]; omega
    obtain ⟨o2, m2, hn2, _⟩ := next_safe_total c _ hq_le
    have hbody_run := parse_bts cfg c hn body (.ifT acc [] items' (pre.length + 12 + e.length) pre.length :: stk)
      (pre ++ (IFOPEN ++ e ++ [34, 62])) (printTail tail ++ post) [] (fuel + costTail tail) o1 m1 o2 m2
      hc2 hbody (by rw [hl2]; exact hn1) (by rw [hl2]; exact hn2)
    rw [hl2] at hbody_run
    simp only [List.nil_append] at hbody_run
    have hc3 : c = (pre ++ (IFOPEN ++ e ++ [34, 62]) ++ printBTs body) ++ (printTail tail ++ post) := by
      rw [hc1]; simp [List.append_assoc]
    have hl3 : (pre ++ (IFOPEN ++ e ++ [34, 62]) ++ printBTs body).length = pre.length + 12 + e.length + (printBTs body).length := by
      rw [List.length_append, hl2]
    have htail_run := parse_tail cfg c hn tail stk acc [] items' (pre.length + 12 + e.length) pre.length
      (tagsBTs cfg c (pre.length + 12 + e.length) body) (pre ++ (IFOPEN ++ e ++ [34, 62]) ++ printBTs body) post
      fuel o2 m2 o' m' hc3 htail (by rw [hl3]; exact hn2)
      (by rw [hl3, ← hfin]; congr 1; simp [IFOPEN, List.length_append]; omega)
    rw [hl3] at htail_run
    rw [show fuel + costBT (.ifc e body tail) = (fuel + costTail tail + costBTs body) + 1 by simp only [costBT]; omega]
    have hd9 : step cfg c (stAt stk acc (pre.length + 3) 9) = stepIf cfg c (stAt stk acc (pre.length + 3) 9) := by
      simp only [step, stAt]; rfl
    rw [parseMain_step cfg c _ _ _ (by simp [stAt]) (hd9.trans hstep), hbody_run, htail_run]
    have hia : itemsAt cfg c (pre.length + 10) (pre.length + 10 + e.length) = items' := by simp only [itemsAt, hex]
    simp only [tagsBT, hia, List.nil_append]
theorem parse_bts (cfg : ScanCfg R) (c : List Nat) (hn : c.length + 16 < 4294967296) :
    ∀ (bs : BTs) (stk : List (Frame R)) (pre post : List Nat) (acc : List (Tag R)) (fuel o m o' m' : Nat),
      c = pre ++ (printBTs bs ++ post) → bs.ok →
      next c pre.length = .ok (o, m) → next c (pre.length + (printBTs bs).length) = .ok (o', m') →
      parseMain cfg c (fuel + costBTs bs) (stAt stk acc o m) =
        parseMain cfg c fuel (stAt stk (acc ++ tagsBTs cfg c pre.length bs) o' m')
  | .nil, stk, pre, post, acc, fuel, o, m, o', m', hc, hok, hnext, hfin => by
    simp only [printBTs, List.length_nil, Nat.add_zero] at hfin
    rw [hnext] at hfin
    simp only [Except.ok.injEq, Prod.mk.injEq] at hfin
    obtain ⟨rfl, rfl⟩ := hfin
    simp [costBTs, tagsBTs]
  | .cons b r, stk, pre, post, acc, fuel, o, m, o', m', hc, hok, hnext, hfin => by
    simp only [BTs.ok] at hok
    simp only [printBTs] at hc hfin
    have hmid_le : pre.length + (printBT b).length ≤ c.length := by rw [hc]; simp [Nat.add_assoc]
    obtain ⟨o1, m1, hn1, _⟩ := next_safe_total c _ hmid_le
    have h1 := parse_bt cfg c hn b stk pre (printBTs r ++ post) acc (fuel + costBTs r) o m o1 m1
      (by rw [hc]; simp [List.append_assoc]) hok.1 hnext hn1
    have h2 := parse_bts cfg c hn r stk (pre ++ printBT b) post (acc ++ tagsBT cfg c pre.length b) fuel o1 m1 o' m'
      (by rw [hc]; simp [List.append_assoc]) hok.2 (by rw [List.length_append]; exact hn1)
      (by rw [← hfin]; congr 1; simp only [List.length_append]; omega)
    rw [show fuel + costBTs (.cons b r) = fuel + costBTs r + costBT b by simp only [costBTs]; omega, h1, h2]
    simp [tagsBTs, List.length_append, List.append_assoc]
theorem parse_tail (cfg : ScanCfg R) (c : List Nat) (hn : c.length + 16 < 4294967296) :
    ∀ (t : BTail) (stk : List (Frame R)) (accO : List (Tag R)) (done : List (IfCase R)) (cur : List (Item R))
      (curOff p : Nat) (sub : List (Tag R)) (pre post : List Nat) (fuel o m o' m' : Nat),
      c = pre ++ (printTail t ++ post) → t.ok →
      next c pre.length = .ok (o, m) → next c (pre.length + (printTail t).length) = .ok (o', m') →
      parseMain cfg c (fuel + costTail t) (stAt (.ifT accO done cur curOff p :: stk) sub o m) =
        parseMain cfg c fuel (stAt stk (accO ++ [.ifT (done ++ .mk cur sub curOff pre.length ::
          casesT cfg c pre.length t) p (pre.length + (printTail t).length)]) o' m')
  | .fin, stk, accO, done, cur, curOff, p, sub, pre, post, fuel, o, m, o', m', hc, hok, hnext, hfin => by
    simp only [printTail] at hc hfin
    have hq : ∀ i (hi : i < 5), c[pre.length + i]? = some (IFEND[i]'(by simp [IFEND]; exact hi)) := by
      intro i hi; rw [hc]; exact get_at pre IFEND post i (by simp [IFEND]; exact hi)
    have hend : next c pre.length = .ok (pre.length + 5, 10) :=
      next_at_ifend c _ hn (hq 0 (by omega)) (hq 1 (by omega)) (hq 2 (by omega)) (hq 3 (by omega)) (hq 4 (by omega))
    rw [hend] at hnext
    simp only [Except.ok.injEq, Prod.mk.injEq] at hnext
    obtain ⟨rfl, rfl⟩ := hnext
    have hfin' : next c (pre.length + 5) = .ok (o', m') := by simpa [IFEND] using hfin
    have hclose := stepIfEnd_print c stk accO done cur curOff p sub pre.length o' m' hfin'
    have hd10 : step cfg c (stAt (.ifT accO done cur curOff p :: stk) sub (pre.length + 5) 10) =
        stepIfEnd c (stAt (.ifT accO done cur curOff p :: stk) sub (pre.length + 5) 10) := by
      simp only [step, stAt]; rfl
    simp only [costTail]
    rw [parseMain_step cfg c _ _ _ (by simp [stAt]) (hd10.trans hclose)]
    simp [casesT, printTail, IFEND]
  | .els body, stk, accO, done, cur, curOff, p, sub, pre, post, fuel, o, m, o', m', hc, hok, hnext, hfin => by
    simp only [BTail.ok] at hok
    simp only [printTail] at hc hfin
    have hc1 : c = pre ++ (ELSE ++ (printBTs body ++ IFEND ++ post)) := by rw [hc]; simp [List.append_assoc]
    have hel : ∀ i (hi : i < 8), c[pre.length + i]? = some (ELSE[i]'(by simp [ELSE]; exact hi)) := by
      intro i hi; rw [hc1]; exact get_at pre ELSE _ i (by simp [ELSE]; exact hi)
    have helse : next c pre.length = .ok (pre.length + 5, 11) :=
      next_at_else c _ hn (hel 0 (by omega)) (hel 1 (by omega)) (hel 2 (by omega)) (hel 3 (by omega)) (hel 4 (by omega))
        (hel 6 (by omega))
    rw [helse] at hnext
    simp only [Except.ok.injEq, Prod.mk.injEq] at hnext
    obtain ⟨rfl, rfl⟩ := hnext
    have hb_le : pre.length + 8 ≤ c.length := by rw [hc1]; simp [ELSE] <;> omega
    obtain ⟨o3, m3, hn3, _⟩ := next_safe_total c (pre.length + 8) hb_le
    have hels := stepElse_print cfg c stk accO done cur curOff p sub pre.length o3 m3
      (hel 5 (by omega)) (hel 6 (by omega)) (hel 7 (by omega)) hn3
    have hl4 : (pre ++ ELSE).length = pre.length + 8 := by simp [ELSE]
    have hc4 : c = (pre ++ ELSE) ++ (printBTs body ++ (IFEND ++ post)) := by rw [hc1]; simp [List.append_assoc]
    have hq : ∀ i (hi : i < 5), c[pre.length + 8 + (printBTs body).length + i]? = some (IFEND[i]'(by simp [IFEND]; exact hi)) := by
      intro i hi
      have hc5 : c = (pre ++ ELSE ++ printBTs body) ++ (IFEND ++ post) := by rw [hc1]; simp [List.append_assoc]
      have := get_at (pre ++ ELSE ++ printBTs body) IFEND post i (by simp [IFEND]; exact hi)
      have hl5 : (pre ++ ELSE ++ printBTs body).length = pre.length + 8 + (printBTs body).length := by
        rw [List.length_append, hl4]
      rw [hl5] at this; rw [hc5]; exact this
    have hend : next c (pre.length + 8 + (printBTs body).length) = .ok (pre.length + 8 + (printBTs body).length + 5, 10) :=
      next_at_ifend c _ hn (hq 0 (by omega)) (hq 1 (by omega)) (hq 2 (by omega)) (hq 3 (by omega)) (hq 4 (by omega))
    have hrun := parse_bts cfg c hn body (.ifT accO (done ++ [.mk cur sub curOff pre.length]) [] (pre.length + 8) p :: stk)
      (pre ++ ELSE) (IFEND ++ post) [] (fuel + 1) o3 m3 _ _ hc4 hok (by rw [hl4]; exact hn3) (by rw [hl4]; exact hend)
    rw [hl4] at hrun
    simp only [List.nil_append] at hrun
    have hlen8 : (ELSE ++ printBTs body ++ IFEND).length = 8 + (printBTs body).length + 5 := by
      simp [ELSE, IFEND] <;> omega
    have hfin' : next c (pre.length + 8 + (printBTs body).length + 5) = .ok (o', m') := by
      rw [← hfin, hlen8]; congr 1; omega
    have hclose := stepIfEnd_print c stk accO (done ++ [.mk cur sub curOff pre.length]) [] (pre.length + 8) p
      (tagsBTs cfg c (pre.length + 8) body) (pre.length + 8 + (printBTs body).length) o' m' hfin'
    have hd11 : step cfg c (stAt (.ifT accO done cur curOff p :: stk) sub (pre.length + 5) 11) =
        stepElse cfg c (stAt (.ifT accO done cur curOff p :: stk) sub (pre.length + 5) 11) := by
      simp only [step, stAt]; rfl
    have hd10 : ∀ st : PState R, st.mtch = 10 → step cfg c st = stepIfEnd c st := by
      intro st h; simp only [step, h]; rfl
    rw [show fuel + costTail (.els body) = (fuel + 1 + costBTs body) + 1 by simp only [costTail]; omega]
    rw [parseMain_step cfg c _ _ _ (by simp [stAt]) (hd11.trans hels), hrun,
      parseMain_step cfg c _ _ _ (by simp [stAt]) ((hd10 _ rfl).trans hclose)]
    have hendp : pre.length + 8 + (printBTs body).length + 5 = pre.length + (printTail (BTail.els body)).length := by
      simp only [printTail, hlen8]; omega
    rw [hendp]
    simp only [casesT, List.append_assoc, List.singleton_append]
  | .elif e body tail, stk, accO, done, cur, curOff, p, sub, pre, post, fuel, o, m, o', m', hc, hok, hnext, hfin => by
    simp only [BTail.ok] at hok
    obtain ⟨hq34, hbody, htail⟩ := hok
    simp only [printTail] at hc hfin
    have htp := printTail_pos tail
    have hc1 : c = pre ++ (ELIF ++ e ++ ELIFEND ++ (printBTs body ++ printTail tail ++ post)) := by
      rw [hc]; simp [List.append_assoc]
    obtain ⟨g, hct⟩ := elifText_of c pre e _ hc1
    have helse : next c pre.length = .ok (pre.length + 5, 11) :=
      next_at_else' c _ hn (g 0 (by omega)) (g 1 (by omega)) (g 2 (by omega)) (g 3 (by omega)) (g 4 (by omega))
        (by intro x hx; rw [g 6 (by omega)] at hx; cases hx; simp [ELIF])
    rw [helse] at hnext
    simp only [Except.ok.injEq, Prod.mk.injEq] at hnext
    obtain ⟨rfl, rfl⟩ := hnext
    -- the case expression
    obtain ⟨items0, hitems0⟩ := Qentem.Expr.parseTop_total ({ readNum := cfg.readNum } : ScanCfg R) (e ++ [34]) 0 e.length (by simp)
    have hcq : c = ((pre ++ [60, 101, 108, 115, 101, 105, 102, 32, 99, 97, 115, 101, 61]) ++ [34]) ++ (e ++ [34]) ++
        ([32, 47, 62] ++ (printBTs body ++ printTail tail ++ post)) := by
      rw [hc1]; simp [ELIF, ELIFEND, List.append_assoc]
    obtain ⟨items2, hex0, _⟩ := exprs_quoted cfg c (pre ++ [60, 101, 108, 115, 101, 105, 102, 32, 99, 97, 115, 101, 61]) e _ hcq items0 hitems0
    have hA : (pre ++ [60, 101, 108, 115, 101, 105, 102, 32, 99, 97, 115, 101, 61]).length + 1 = pre.length + 14 := by simp
    rw [hA] at hex0
    have hlt : pre.length + 18 + e.length < c.length := by
      rw [hc1]; simp [ELIF, ELIFEND, List.length_append]; omega
    obtain ⟨o3, m3, hn3, _⟩ := next_safe_total c (pre.length + 18 + e.length) (by omega)
    have hels := stepElif_print cfg c stk accO done cur curOff p sub pre.length e (g 5 (by omega)) hct hq34 hlt items2 hex0 o3 m3 hn3
    -- the body
    have hl4 : (pre ++ (ELIF ++ e ++ ELIFEND)).length = pre.length + 18 + e.length := by simp [ELIF, ELIFEND]; omega
    have hc4 : c = (pre ++ (ELIF ++ e ++ ELIFEND)) ++ (printBTs body ++ (printTail tail ++ post)) := by
      rw [hc1]; simp [List.append_assoc]
    have hq_le : pre.length + 18 + e.length + (printBTs body).length ≤ c.length := by
      rw [hc1]; simp [ELIF, ELIFEND, List.length_append]; omega
    obtain ⟨o2, m2, hn2, _⟩ := next_safe_total c _ hq_le
    have hrun := parse_bts cfg c hn body
      (.ifT accO (done ++ [.mk cur sub curOff pre.length]) items2 (pre.length + 18 + e.length) p :: stk)
      (pre ++ (ELIF ++ e ++ ELIFEND)) (printTail tail ++ post) [] (fuel + costTail tail) o3 m3 o2 m2 hc4 hbody
      (by rw [hl4]; exact hn3) (by rw [hl4]; exact hn2)
    rw [hl4] at hrun
    simp only [List.nil_append] at hrun
    have hc5 : c = (pre ++ (ELIF ++ e ++ ELIFEND) ++ printBTs body) ++ (printTail tail ++ post) := by
      rw [hc1]; simp [List.append_assoc]
    have hl5 : (pre ++ (ELIF ++ e ++ ELIFEND) ++ printBTs body).length = pre.length + 18 + e.length + (printBTs body).length := by
      rw [List.length_append, hl4]
    have htail_run := parse_tail cfg c hn tail stk accO (done ++ [.mk cur sub curOff pre.length]) items2
      (pre.length + 18 + e.length) p (tagsBTs cfg c (pre.length + 18 + e.length) body)
      (pre ++ (ELIF ++ e ++ ELIFEND) ++ printBTs body) post fuel o2 m2 o' m' hc5 htail (by rw [hl5]; exact hn2)
      (by rw [hl5, ← hfin]; congr 1; simp [ELIF, ELIFEND, List.length_append]; omega)
    rw [hl5] at htail_run
    have hd11 : step cfg c (stAt (.ifT accO done cur curOff p :: stk) sub (pre.length + 5) 11) =
        stepElse cfg c (stAt (.ifT accO done cur curOff p :: stk) sub (pre.length + 5) 11) := by
      simp only [step, stAt]; rfl
    rw [show fuel + costTail (.elif e body tail) = (fuel + costTail tail + costBTs body) + 1 by simp only [costTail]; omega]
    rw [parseMain_step cfg c _ _ _ (by simp [stAt]) (hd11.trans hels), hrun, htail_run]
    have hia : itemsAt cfg c (pre.length + 14) (pre.length + 14 + e.length) = items2 := by simp only [itemsAt, hex0]
    have hendp : pre.length + 18 + e.length + (printBTs body).length + (printTail tail).length =
        pre.length + (printTail (BTail.elif e body tail)).length := by
      simp [printTail, ELIF, ELIFEND, List.length_append]; omega
    rw [hendp]
    simp only [casesT, hia, List.append_assoc, List.singleton_append]
end

section
variable [RealLike R]

/-- the decision of a quoted case text scanned in place equals the reference `isTrue (evalText e)` -/
theorem case_hit_quoted (cx : RCtx R) (cfg : ScanCfg R) (hg : cx.guardIndexRead = true)
    (hrn : cfg.readNum = cx.readNum) (st : RState)
    (A0 e post : List Nat) (hc : cx.content = (A0 ++ [34]) ++ (e ++ [34]) ++ post) (hvo : varsOk cx.readNum e 34) :
    ((itemsAt cfg cx.content (A0.length + 1) (A0.length + 1 + e.length)).isEmpty =
      (match Qentem.Expr.parseTop ({ readNum := cx.readNum } : ScanCfg R) (e ++ [34]) 0 e.length with
       | .ok l => l.isEmpty | .error _ => true)) ∧
    ((itemsAt cfg cx.content (A0.length + 1) (A0.length + 1 + e.length)).isEmpty = true →
      (isTrue (evalText (specOf cx) [] e 34) == some true) = false) ∧
    ((itemsAt cfg cx.content (A0.length + 1) (A0.length + 1 + e.length)).isEmpty = false →
      ∃ v, evalExprs cx st (itemsAt cfg cx.content (A0.length + 1) (A0.length + 1 + e.length)) = .ok v ∧
        (truth v == some true) = (isTrue (evalText (specOf cx) [] e 34) == some true)) := by
  obtain ⟨items0, hitems0⟩ := Qentem.Expr.parseTop_total ({ readNum := cfg.readNum } : ScanCfg R) (e ++ [34]) 0 e.length (by simp)
  obtain ⟨items', hex, hrel⟩ := exprs_quoted cfg cx.content A0 e post hc items0 hitems0
  have hreloc := reloc_quoted cx.content A0 e post hc
  have hitems : itemsAt cfg cx.content (A0.length + 1) (A0.length + 1 + e.length) = items' := by
    simp only [itemsAt, hex]
  rw [hitems]
  rw [hrn] at hitems0
  have hspec := evalText_eqT cx e 34 items0 hitems0
  have hemp := hrel.isEmpty
  refine ⟨by rw [hitems0]; exact hemp.symm, ?_, ?_⟩
  · intro h
    rw [← hemp] at h
    simp only [hspec, h, if_true, isTrue]
    rfl
  · intro h
    have h0 := h
    rw [← hemp] at h0
    simp only [h0, Bool.false_eq_true, if_false] at hspec
    have hre : ∀ lk, Qentem.Expr.RelEnv (specEnvT cx e 34)
        ({ content := cx.content, lookup := lk, readNum := cx.readNum } : Env R) (A0.length + 1) :=
      fun lk => ⟨rfl, hreloc.slice⟩
    have hlen : (specEnvT cx e 34).content.length = e.length + 1 := by simp [specEnvT]
    have hev := evalExprs_reloc cx hg st (specEnvT cx e 34) (A0.length + 1) items0 items' hre (fun _ => rfl)
      (by rw [hlen]; exact hrel) (hvo items0 hitems0)
      (by rw [hlen, hc]; simp only [List.length_append, List.length_cons, List.length_nil]; omega) h
    refine ⟨Qentem.Expr.evaluateTop (specEnvT cx e 34) true items0, hev.1, ?_⟩
    rw [hspec]
    cases hv : Qentem.Expr.evaluateTop (specEnvT cx e 34) true items0 with
    | none => rfl
    | some v => cases v <;> rfl


/-! ### what the document says a block tree prints -/

def hitOf (cx : RCtx R) (e : List Nat) : Bool := isTrue (evalText (specOf cx) [] e 34) == some true

mutual
def expBT (cx : RCtx R) : BT → List Nat
  | .segs l => expSegs cx l
  | .ifc e body tail => if hitOf cx e = true then expBTs cx body else expTail cx tail
def expBTs (cx : RCtx R) : BTs → List Nat
  | .nil => []
  | .cons b r => expBT cx b ++ expBTs cx r
def expTail (cx : RCtx R) : BTail → List Nat
  | .fin => []
  | .els body => expBTs cx body
  | .elif e body tail => if hitOf cx e = true then expBTs cx body else expTail cx tail
end

/-- the case text scans to a non-empty list -/
def exprOk (rn : List Nat → Option (Num R)) (e : List Nat) : Prop :=
  ∀ items : List (Item R),
    Qentem.Expr.parseTop ({ readNum := rn } : ScanCfg R) (e ++ [34]) 0 e.length = .ok items → items ≠ []

mutual
def BT.caseOk (rn : List Nat → Option (Num R)) : BT → Prop
  | .segs _ => True
  | .ifc e body tail => (tail = .fin ∨ exprOk rn e) ∧ varsOk rn e 34 ∧ BTs.caseOk rn body ∧ BTail.caseOk rn tail
def BTs.caseOk (rn : List Nat → Option (Num R)) : BTs → Prop
  | .nil => True
  | .cons b r => BT.caseOk rn b ∧ BTs.caseOk rn r
def BTail.caseOk (rn : List Nat → Option (Num R)) : BTail → Prop
  | .fin => True
  | .els body => BTs.caseOk rn body
  | .elif e body tail => exprOk rn e ∧ varsOk rn e 34 ∧ BTs.caseOk rn body ∧ BTail.caseOk rn tail
end

mutual
def BT.pathOk (rn : List Nat → Option (Num R)) : BT → Prop
  | .segs l => ∀ s ∈ l, s.pathOk rn
  | .ifc _ body tail => BTs.pathOk rn body ∧ BTail.pathOk rn tail
def BTs.pathOk (rn : List Nat → Option (Num R)) : BTs → Prop
  | .nil => True
  | .cons b r => BT.pathOk rn b ∧ BTs.pathOk rn r
def BTail.pathOk (rn : List Nat → Option (Num R)) : BTail → Prop
  | .fin => True
  | .els body => BTs.pathOk rn body
  | .elif _ body tail => BTs.pathOk rn body ∧ BTail.pathOk rn tail
end

mutual
def rcostBT : BT → Nat
  | .segs l => nTags l
  | .ifc _ _ _ => 1
def rcostBTs : BTs → Nat
  | .nil => 0
  | .cons b r => rcostBT b + rcostBTs r
end

mutual
def rneedBT : BT → Nat
  | .segs _ => 1
  | .ifc _ body tail => rneedBTs body + rcostBTs body + rneedTail tail + 3
def rneedBTs : BTs → Nat
  | .nil => 1
  | .cons b r => rneedBT b + rneedBTs r
def rneedTail : BTail → Nat
  | .fin => 1
  | .els body => rneedBTs body + rcostBTs body + 1
  | .elif _ body tail => rneedBTs body + rcostBTs body + rneedTail tail + 1
end

theorem rneedBTs_pos : ∀ (bs : BTs), 1 ≤ rneedBTs bs
  | .nil => by simp [rneedBTs]
  | .cons b r => by have := rneedBTs_pos r; simp only [rneedBTs]; omega

theorem rneedTail_pos (t : BTail) : 1 ≤ rneedTail t := by
  cases t <;> simp [rneedTail] <;> omega

/-- the decision of one quoted case that is an expression -/
theorem one_case (cx : RCtx R) (cfg : ScanCfg R) (hg : cx.guardIndexRead = true)
    (hrn : cfg.readNum = cx.readNum) (st : RState)
    (A0 e post : List Nat) (hc : cx.content = (A0 ++ [34]) ++ (e ++ [34]) ++ post) (hp : varsOk cx.readNum e 34)
    (hex : exprOk cfg.readNum e) :
    (itemsAt cfg cx.content (A0.length + 1) (A0.length + 1 + e.length)).isEmpty = false ∧
    ∃ v, evalExprs cx st (itemsAt cfg cx.content (A0.length + 1) (A0.length + 1 + e.length)) = .ok v ∧
      (truth v == some true) = hitOf cx e := by
  obtain ⟨h1, _, h3⟩ := case_hit_quoted cx cfg hg hrn st A0 e post hc hp
  have hne : (itemsAt cfg cx.content (A0.length + 1) (A0.length + 1 + e.length)).isEmpty = false := by
    rw [h1]
    obtain ⟨items0, hitems0⟩ := Qentem.Expr.parseTop_total ({ readNum := cx.readNum } : ScanCfg R) (e ++ [34]) 0 e.length (by simp)
    rw [hitems0]
    have := hex items0 (by rw [hrn]; exact hitems0)
    cases items0 with
    | nil => exact absurd rfl this
    | cons x xs => rfl
  exact ⟨hne, h3 hne⟩

theorem ifCases_cons (cx : RCtx R) (f : Nat) (cs : List (Item R)) (sub : List (Tag R)) (o e : Nat)
    (rest : List (IfCase R)) (st : RState) (v : Option (Val R)) (hne : cs.isEmpty = false)
    (hv : evalExprs cx st cs = .ok v) :
    ifCases cx (f + 1) (.mk cs sub o e :: rest) st =
      if (truth v == some true) = true then render cx f sub o e st else ifCases cx f rest st := by
  simp only [ifCases, hne, Bool.false_eq_true, if_false, hv, bind, Except.bind, pure, Except.pure]

/-- from "render up to the end, then nothing more" to the emitted text -/
theorem render_finish (cx : RCtx R) (tags : List (Tag R)) (post X : List Nat) (Bl E : Nat) (st : RState)
    (fuel rc : Nat) (hf : 1 ≤ fuel)
    (h : ∃ (B2 txt2 : List Nat) (st2 : RState), cx.content = B2 ++ (txt2 ++ post) ∧ (B2 ++ txt2).length = E ∧
      st2.out ++ txt2 = st.out ++ X ∧ st2.items = st.items ∧
      render cx (fuel + rc) tags Bl E st = render cx fuel [] B2.length E st2) :
    render cx (fuel + rc) tags Bl E st = .ok (emit st X) := by
  obtain ⟨B2, txt2, st2, h1, h2, h3, h4, h5⟩ := h
  rw [h5]
  cases fuel with
  | zero => omega
  | succ f =>
    have hsl : slice cx.content B2.length E = .ok txt2 := by
      rw [← h2, h1]; exact slice_from B2 txt2 post
    simp only [render, hsl, bind, Except.bind]
    congr 1
    apply RState.ext'
    · simp only [emit]; exact h3
    · simp only [emit]; exact h4


theorem emit_nil (st : RState) : emit st [] = st := by
  apply RState.ext' <;> simp [emit]

theorem emit_emit (st : RState) (a b : List Nat) : emit (emit st a) b = emit st (a ++ b) := by
  apply RState.ext' <;> simp [emit, List.append_assoc]

mutual
theorem render_bt (cx : RCtx R) (cfg : ScanCfg R) (hg : cx.guardIndexRead = true) (hrn : cfg.readNum = cx.readNum) :
    ∀ (b : BT) (more : List (Tag R)) (endO : Nat) (post B txt : List Nat) (st : RState) (fuel : Nat),
      cx.content = B ++ (txt ++ (printBT b ++ post)) → b.ok → b.pathOk cfg.readNum → b.caseOk cfg.readNum → rneedBT b ≤ fuel →
      ∃ (B2 txt2 : List Nat) (st2 : RState), cx.content = B2 ++ (txt2 ++ post) ∧
        (B2 ++ txt2).length = (B ++ txt).length + (printBT b).length ∧
        st2.out ++ txt2 = st.out ++ (txt ++ expBT cx b) ∧ st2.items = st.items ∧
        render cx (fuel + rcostBT b) (tagsBT cfg cx.content (B ++ txt).length b ++ more) B.length endO st =
          render cx fuel more B2.length endO st2
  | .segs l, more, endO, post, B, txt, st, fuel, hc, hok, hpath, _, hf => by
    simp only [printBT] at hc
    simp only [BT.ok] at hok
    simp only [BT.pathOk] at hpath
    simp only [rneedBT] at hf
    simpa [printBT, expBT, rcostBT, tagsBT] using
      render_segs_more cx cfg hg hrn more endO post l B txt st fuel hc hpath hok hf
  | .ifc e body tail, more, endO, post, B, txt, st, fuel, hc, hok, hpath, hcase, hf => by
    simp only [BT.ok] at hok
    obtain ⟨hq34, hbody, htail⟩ := hok
    simp only [BT.pathOk] at hpath
    simp only [BT.caseOk] at hcase
    obtain ⟨hfirst, hvo, hcb, hct⟩ := hcase
    have hpe : varsOk cx.readNum e 34 := hrn ▸ hvo
    simp only [rneedBT] at hf
    simp only [printBT] at hc
    have htp := printTail_pos tail
    -- the content around the case text
    have hcq : cx.content = ((B ++ txt ++ [60, 105, 102, 32, 99, 97, 115, 101, 61]) ++ [34]) ++ (e ++ [34]) ++
        ([62] ++ (printBTs body ++ printTail tail ++ post)) := by
      rw [hc]; simp [IFOPEN, List.append_assoc]
    have hA : (B ++ txt ++ [60, 105, 102, 32, 99, 97, 115, 101, 61]).length + 1 = (B ++ txt).length + 10 := by
      simp only [List.length_append, List.length_cons, List.length_nil]
    obtain ⟨hemp, hh1, hh2⟩ := case_hit_quoted cx cfg hg hrn (emit st txt) _ e _ hcq hpe
    rw [hA] at hemp hh1 hh2
    have hsl : slice cx.content B.length (B ++ txt).length = .ok txt := by rw [hc]; exact slice_from B txt _
    have hl2 : (B ++ txt ++ (IFOPEN ++ e ++ [34, 62])).length = (B ++ txt).length + 12 + e.length := by
      simp [IFOPEN]; omega
    have hlb : (printBT (.ifc e body tail)).length = 12 + e.length + (printBTs body).length + (printTail tail).length := by
      simp [printBT, IFOPEN]; omega
    -- the tag renders to the documented text
    have hrt : renderTag cx fuel
        (Tag.ifT (IfCase.mk (itemsAt cfg cx.content ((B ++ txt).length + 10) ((B ++ txt).length + 10 + e.length))
            (tagsBTs cfg cx.content ((B ++ txt).length + 12 + e.length) body) ((B ++ txt).length + 12 + e.length)
            ((B ++ txt).length + 12 + e.length + (printBTs body).length) ::
          casesT cfg cx.content ((B ++ txt).length + 12 + e.length + (printBTs body).length) tail) (B ++ txt).length
          ((B ++ txt).length + 12 + e.length + (printBTs body).length + (printTail tail).length)) B.length st =
        .ok (emit (emit st txt) (expBT cx (.ifc e body tail)),
          (B ++ txt).length + 12 + e.length + (printBTs body).length + (printTail tail).length) := by
      obtain ⟨F, rfl⟩ : ∃ F, fuel = F + 2 := ⟨fuel - 2, by omega⟩
      simp only [renderTag, hsl, bind, Except.bind]
      cases hie : (itemsAt cfg cx.content ((B ++ txt).length + 10) ((B ++ txt).length + 10 + e.length)).isEmpty with
      | true =>
        simp only [if_true]
        have htf : tail = .fin := by
          rcases hfirst with h | h
          · exact h
          · have := (one_case cx cfg hg hrn (emit st txt) _ e _ hcq hpe h).1
            rw [hA] at this; rw [this] at hie; cases hie
        have hhit : hitOf cx e = false := hh1 hie
        simp only [expBT, hhit, Bool.false_eq_true, if_false, htf, expTail, emit_nil]
      | false =>
        obtain ⟨v, hv, hvt⟩ := hh2 hie
        simp only [Bool.false_eq_true, if_false]
        rw [ifCases_cons cx F _ _ _ _ _ _ v hie hv]
        have hvt' : (truth v == some true) = hitOf cx e := hvt
        rw [hvt']
        cases hhit : hitOf cx e with
        | true =>
          simp only [if_true, expBT, hhit]
          have hc2 : cx.content = (B ++ txt ++ (IFOPEN ++ e ++ [34, 62])) ++ ([] ++ (printBTs body ++ (printTail tail ++ post))) := by
            rw [hc]; simp [List.append_assoc]
          have hr := render_bts cx cfg hg hrn body [] ((B ++ txt).length + 12 + e.length + (printBTs body).length)
            (printTail tail ++ post) (B ++ txt ++ (IFOPEN ++ e ++ [34, 62])) [] (emit st txt) (F - rcostBTs body)
            hc2 hbody hpath.1 hcb (by omega)
          simp only [List.append_nil, List.nil_append, hl2] at hr
          have := render_finish cx (tagsBTs cfg cx.content ((B ++ txt).length + 12 + e.length) body) (printTail tail ++ post)
            (expBTs cx body) ((B ++ txt).length + 12 + e.length)
            ((B ++ txt).length + 12 + e.length + (printBTs body).length) (emit st txt) (F - rcostBTs body) (rcostBTs body)
            (by have := rneedBTs_pos body; omega) hr
          rw [show F - rcostBTs body + rcostBTs body = F by omega] at this
          rw [this]
        | false =>
          simp only [Bool.false_eq_true, if_false, expBT, hhit]
          have hc3 : cx.content = (B ++ txt ++ (IFOPEN ++ e ++ [34, 62]) ++ printBTs body) ++ (printTail tail ++ post) := by
            rw [hc]; simp [List.append_assoc]
          have hl3 : (B ++ txt ++ (IFOPEN ++ e ++ [34, 62]) ++ printBTs body).length =
              (B ++ txt).length + 12 + e.length + (printBTs body).length := by
            rw [List.length_append, hl2]
          have := render_tail cx cfg hg hrn tail (B ++ txt ++ (IFOPEN ++ e ++ [34, 62]) ++ printBTs body) post
            (emit st txt) F hc3 htail hpath.2 hct (by omega)
          rw [hl3] at this
          rw [this]
    refine ⟨B ++ txt ++ printBT (.ifc e body tail), [], emit (emit st txt) (expBT cx (.ifc e body tail)),
      by rw [hc]; simp [printBT, List.append_assoc], by simp [List.length_append]; omega,
      by simp [emit, List.append_assoc], by simp [emit], ?_⟩
    simp only [tagsBT, rcostBT, List.cons_append, List.nil_append, render, hrt, bind, Except.bind]
    congr 1
    simp only [List.length_append, hlb]; omega
theorem render_bts (cx : RCtx R) (cfg : ScanCfg R) (hg : cx.guardIndexRead = true) (hrn : cfg.readNum = cx.readNum) :
    ∀ (bs : BTs) (more : List (Tag R)) (endO : Nat) (post B txt : List Nat) (st : RState) (fuel : Nat),
      cx.content = B ++ (txt ++ (printBTs bs ++ post)) → bs.ok → bs.pathOk cfg.readNum → bs.caseOk cfg.readNum → rneedBTs bs ≤ fuel →
      ∃ (B2 txt2 : List Nat) (st2 : RState), cx.content = B2 ++ (txt2 ++ post) ∧
        (B2 ++ txt2).length = (B ++ txt).length + (printBTs bs).length ∧
        st2.out ++ txt2 = st.out ++ (txt ++ expBTs cx bs) ∧ st2.items = st.items ∧
        render cx (fuel + rcostBTs bs) (tagsBTs cfg cx.content (B ++ txt).length bs ++ more) B.length endO st =
          render cx fuel more B2.length endO st2
  | .nil, more, endO, post, B, txt, st, fuel, hc, _, _, _, _ =>
    ⟨B, txt, st, by simpa [printBTs] using hc, by simp [printBTs], by simp [expBTs], rfl, by simp [tagsBTs, rcostBTs]⟩
  | .cons b r, more, endO, post, B, txt, st, fuel, hc, hok, hpath, hcase, hf => by
    simp only [BTs.ok] at hok
    simp only [BTs.pathOk] at hpath
    simp only [BTs.caseOk] at hcase
    simp only [rneedBTs] at hf
    simp only [printBTs] at hc
    have hp1 := rneedBTs_pos r
    obtain ⟨B1, txt1, st1, g1, g2, g3, g4, g5⟩ := render_bt cx cfg hg hrn b
      (tagsBTs cfg cx.content ((B ++ txt).length + (printBT b).length) r ++ more) endO (printBTs r ++ post) B txt st
      (fuel + rcostBTs r) (by rw [hc]; simp [List.append_assoc]) hok.1 hpath.1 hcase.1 (by omega)
    obtain ⟨B2, txt2, st2, h1, h2, h3, h4, h5⟩ := render_bts cx cfg hg hrn r more endO post B1 txt1 st1 fuel g1
      hok.2 hpath.2 hcase.2 (by omega)
    refine ⟨B2, txt2, st2, h1, ?_, ?_, by rw [h4, g4], ?_⟩
    · rw [h2, g2]; simp [printBTs, List.length_append]; omega
    · rw [h3, ← List.append_assoc, g3]; simp [expBTs, List.append_assoc]
    · simp only [tagsBTs, rcostBTs, List.append_assoc]
      rw [show fuel + (rcostBT b + rcostBTs r) = fuel + rcostBTs r + rcostBT b by omega, g5, ← g2, h5]
theorem render_tail (cx : RCtx R) (cfg : ScanCfg R) (hg : cx.guardIndexRead = true) (hrn : cfg.readNum = cx.readNum) :
    ∀ (t : BTail) (Pre post : List Nat) (st : RState) (fuel : Nat),
      cx.content = Pre ++ (printTail t ++ post) → t.ok → t.pathOk cfg.readNum → t.caseOk cfg.readNum → rneedTail t ≤ fuel →
      ifCases cx fuel (casesT cfg cx.content Pre.length t) st = .ok (emit st (expTail cx t))
  | .fin, Pre, post, st, fuel, hc, _, _, _, hf => by
    simp only [rneedTail] at hf
    obtain ⟨f, rfl⟩ : ∃ f, fuel = f + 1 := ⟨fuel - 1, by omega⟩
    simp only [casesT, ifCases, expTail, emit_nil]
  | .els body, Pre, post, st, fuel, hc, hok, hpath, hcase, hf => by
    simp only [BTail.ok] at hok
    simp only [BTail.pathOk] at hpath
    simp only [BTail.caseOk] at hcase
    simp only [rneedTail] at hf
    simp only [printTail] at hc
    obtain ⟨f, rfl⟩ : ∃ f, fuel = f + 1 := ⟨fuel - 1, by omega⟩
    simp only [casesT, ifCases, List.isEmpty_nil, if_true, pure, Except.pure, bind, Except.bind, expTail]
    have hl : (Pre ++ ELSE).length = Pre.length + 8 := by simp [ELSE]
    have hc2 : cx.content = (Pre ++ ELSE) ++ ([] ++ (printBTs body ++ (IFEND ++ post))) := by
      rw [hc]; simp [List.append_assoc]
    have hr := render_bts cx cfg hg hrn body [] (Pre.length + 8 + (printBTs body).length) (IFEND ++ post)
      (Pre ++ ELSE) [] st (f - rcostBTs body) hc2 hok hpath hcase (by omega)
    simp only [List.append_nil, List.nil_append, hl] at hr
    have := render_finish cx (tagsBTs cfg cx.content (Pre.length + 8) body) (IFEND ++ post) (expBTs cx body)
      (Pre.length + 8) (Pre.length + 8 + (printBTs body).length) st (f - rcostBTs body) (rcostBTs body)
      (by have := rneedBTs_pos body; omega) hr
    rw [show f - rcostBTs body + rcostBTs body = f by omega] at this
    rw [this]
  | .elif e body tail, Pre, post, st, fuel, hc, hok, hpath, hcase, hf => by
    simp only [BTail.ok] at hok
    obtain ⟨hq34, hbody, htail⟩ := hok
    simp only [BTail.pathOk] at hpath
    simp only [BTail.caseOk] at hcase
    obtain ⟨hex, hvo, hcb, hct⟩ := hcase
    have hpe : varsOk cx.readNum e 34 := hrn ▸ hvo
    simp only [rneedTail] at hf
    simp only [printTail] at hc
    obtain ⟨f, rfl⟩ : ∃ f, fuel = f + 1 := ⟨fuel - 1, by omega⟩
    have hcq : cx.content = ((Pre ++ [60, 101, 108, 115, 101, 105, 102, 32, 99, 97, 115, 101, 61]) ++ [34]) ++ (e ++ [34]) ++
        ([32, 47, 62] ++ (printBTs body ++ printTail tail ++ post)) := by
      rw [hc]; simp [ELIF, ELIFEND, List.append_assoc]
    have hA : (Pre ++ [60, 101, 108, 115, 101, 105, 102, 32, 99, 97, 115, 101, 61]).length + 1 = Pre.length + 14 := by simp
    obtain ⟨hie, v, hv, hvt⟩ := one_case cx cfg hg hrn st _ e _ hcq hpe hex
    rw [hA] at hie hv
    simp only [casesT]
    rw [ifCases_cons cx f _ _ _ _ _ _ v hie hv, hvt]
    have hl4 : (Pre ++ (ELIF ++ e ++ ELIFEND)).length = Pre.length + 18 + e.length := by simp [ELIF, ELIFEND]; omega
    cases hhit : hitOf cx e with
    | true =>
      simp only [if_true, expTail, hhit]
      have hc2 : cx.content = (Pre ++ (ELIF ++ e ++ ELIFEND)) ++ ([] ++ (printBTs body ++ (printTail tail ++ post))) := by
        rw [hc]; simp [List.append_assoc]
      have hr := render_bts cx cfg hg hrn body [] (Pre.length + 18 + e.length + (printBTs body).length)
        (printTail tail ++ post) (Pre ++ (ELIF ++ e ++ ELIFEND)) [] st (f - rcostBTs body) hc2 hbody hpath.1 hcb (by omega)
      simp only [List.append_nil, List.nil_append, hl4] at hr
      have := render_finish cx (tagsBTs cfg cx.content (Pre.length + 18 + e.length) body) (printTail tail ++ post)
        (expBTs cx body) (Pre.length + 18 + e.length) (Pre.length + 18 + e.length + (printBTs body).length)
        st (f - rcostBTs body) (rcostBTs body) (by have := rneedBTs_pos body; omega) hr
      rw [show f - rcostBTs body + rcostBTs body = f by omega] at this
      rw [this]
    | false =>
      simp only [Bool.false_eq_true, if_false, expTail, hhit]
      have hc3 : cx.content = (Pre ++ (ELIF ++ e ++ ELIFEND) ++ printBTs body) ++ (printTail tail ++ post) := by
        rw [hc]; simp [List.append_assoc]
      have hl5 : (Pre ++ (ELIF ++ e ++ ELIFEND) ++ printBTs body).length = Pre.length + 18 + e.length + (printBTs body).length := by
        rw [List.length_append, hl4]
      have := render_tail cx cfg hg hrn tail (Pre ++ (ELIF ++ e ++ ELIFEND) ++ printBTs body) post st f hc3 htail
        hpath.2 hct (by omega)
      rw [hl5] at this
      exact this
end


/-! ### the reference interpreter on block trees -/

theorem expandList_append (sx : SpecCtx R) (sc : List Binding) : ∀ (a b : List Tpl) (f : Nat),
    expandList sx f sc (a ++ b) = expandList sx f sc a ++ expandList sx (f - a.length) sc b := by
  intro a
  induction a with
  | nil => intro b f; simp [expandList_nil]
  | cons t a ih =>
    intro b f
    cases f with
    | zero => simp [expandList]
    | succ f =>
      simp only [List.cons_append, expandList, ih b f, List.length_cons, List.append_assoc]
      rw [show f + 1 - (a.length + 1) = f - a.length by omega]

theorem expandBranches_nil (sx : SpecCtx R) (f : Nat) (sc : List Binding) : expandBranches sx f sc [] = [] := by
  cases f <;> simp [expandBranches]

mutual
def eneedBT : BT → Nat
  | .segs l => l.length + 1
  | .ifc _ body tail => eneedBTs body + eneedTail tail + 3
def eneedBTs : BTs → Nat
  | .nil => 1
  | .cons b r => eneedBT b + (BT.toTpls b).length + eneedBTs r
def eneedTail : BTail → Nat
  | .fin => 0
  | .els body => eneedBTs body + 1
  | .elif _ body tail => eneedBTs body + eneedTail tail + 1
end

mutual
theorem expand_bt (cx : RCtx R) : ∀ (b : BT) (fuel : Nat), eneedBT b ≤ fuel →
    expandList (specOf cx) fuel [] b.toTpls = expBT cx b
  | .segs l, fuel, hf => by
    simp only [eneedBT] at hf
    simp only [BT.toTpls, expBT]
    exact expandList_segs cx (specOf cx) ⟨rfl, rfl, rfl, rfl, rfl, rfl⟩ l fuel hf
  | .ifc e body tail, fuel, hf => by
    simp only [eneedBT] at hf
    obtain ⟨f, rfl⟩ : ∃ f, fuel = f + 3 := ⟨fuel - 3, by omega⟩
    simp only [BT.toTpls, expandList, expandTpl, expandBranches, expandList_nil, List.append_nil, expBT, hitOf]
    rw [expand_bts cx body f (by omega), expand_tail cx tail f (by omega)]
    by_cases hh : isTrue (evalText (specOf cx) [] e 34) = some true <;> simp [hh]
theorem expand_bts (cx : RCtx R) : ∀ (bs : BTs) (fuel : Nat), eneedBTs bs ≤ fuel →
    expandList (specOf cx) fuel [] (btsTpl bs) = expBTs cx bs
  | .nil, fuel, _ => by simp [btsTpl, expBTs, expandList_nil]
  | .cons b r, fuel, hf => by
    simp only [eneedBTs] at hf
    simp only [btsTpl, expBTs]
    rw [expandList_append, expand_bt cx b fuel (by omega), expand_bts cx r _ (by omega)]
theorem expand_tail (cx : RCtx R) : ∀ (t : BTail) (fuel : Nat), eneedTail t ≤ fuel →
    expandBranches (specOf cx) fuel [] (tailBr t) = expTail cx t
  | .fin, fuel, _ => by simp [tailBr, expTail, expandBranches_nil]
  | .els body, fuel, hf => by
    simp only [eneedTail] at hf
    obtain ⟨f, rfl⟩ : ∃ f, fuel = f + 1 := ⟨fuel - 1, by omega⟩
    simp only [tailBr, expandBranches, if_true, expTail]
    exact expand_bts cx body f (by omega)
  | .elif e body tail, fuel, hf => by
    simp only [eneedTail] at hf
    obtain ⟨f, rfl⟩ : ∃ f, fuel = f + 1 := ⟨fuel - 1, by omega⟩
    simp only [tailBr, expandBranches, expTail, hitOf]
    rw [expand_bts cx body f (by omega), expand_tail cx tail f (by omega)]
    by_cases hh : isTrue (evalText (specOf cx) [] e 34) = some true <;> simp [hh]
end

end

/-! ### top level -/

mutual
theorem costBT_le : ∀ (b : BT), costBT b ≤ (printBT b).length
  | .segs l => by simp only [costBT, printBT]; exact nTags_le l
  | .ifc e body tail => by
    have := costBTs_le body; have := costTail_le tail
    simp [costBT, printBT, IFOPEN]; omega
theorem costBTs_le : ∀ (bs : BTs), costBTs bs ≤ (printBTs bs).length
  | .nil => by simp [costBTs]
  | .cons b r => by
    have := costBT_le b; have := costBTs_le r
    simp [costBTs, printBTs]; omega
theorem costTail_le : ∀ (t : BTail), costTail t ≤ (printTail t).length
  | .fin => by simp [costTail, printTail, IFEND]
  | .els body => by have := costBTs_le body; simp [costTail, printTail, ELSE, IFEND]; omega
  | .elif e body tail => by
    have := costBTs_le body; have := costTail_le tail
    simp [costTail, printTail, ELIF, ELIFEND]; omega
end

/-- `parse_tree`: the printed block tree parses to exactly the implied tags -/
theorem parse_tree (cfg : ScanCfg R) (bs : BTs) (hok : bs.ok)
    (hn : (printBTs bs).length + 16 < 4294967296) :
    parse cfg (printBTs bs) = .ok (tagsBTs cfg (printBTs bs) 0 bs) := by
  obtain ⟨o, m, hnx, _⟩ := next_safe_total (printBTs bs) 0 (Nat.zero_le _)
  have h0 : finderNext (printBTs bs) ({} : PState R) = .ok (stAt [] [] o m) := by
    simp [finderNext, hnx, bind, Except.bind, stAt]
  have hend : next (printBTs bs) (([] : List Nat).length + (printBTs bs).length) = .ok ((printBTs bs).length, 0) := by
    rw [List.length_nil, Nat.zero_add]
    apply next_plain_end _ _ (Nat.le_refl _)
    intro i h1 h2; omega
  have hcost := costBTs_le bs
  have hm := parse_bts cfg (printBTs bs) hn bs [] [] [] ([] : List (Tag R))
    (2 * (printBTs bs).length + 4 - costBTs bs) o m _ _ (by simp) hok hnx hend
  rw [show 2 * (printBTs bs).length + 4 - costBTs bs + costBTs bs = 2 * (printBTs bs).length + 4 by omega] at hm
  have hlast : parseMain cfg (printBTs bs) (2 * (printBTs bs).length + 4 - costBTs bs)
      (stAt [] ([] ++ tagsBTs cfg (printBTs bs) ([] : List Nat).length bs) (printBTs bs).length 0) =
      .ok (stAt [] ([] ++ tagsBTs cfg (printBTs bs) ([] : List Nat).length bs) (printBTs bs).length 0) := by
    rw [show 2 * (printBTs bs).length + 4 - costBTs bs = (2 * (printBTs bs).length + 3 - costBTs bs) + 1 by omega]
    simp [parseMain, stAt]
  rw [hlast] at hm
  simp only [stAt] at h0 hm
  simp only [parse, h0, bind, Except.bind, hm, cleanup, List.nil_append, List.length_nil]

/-- rendering the implied tags of a block tree prints the documented expansion -/
theorem renderTop_tree [RealLike R] (cx : RCtx R) (cfg : ScanCfg R) (hg : cx.guardIndexRead = true)
    (hrn : cfg.readNum = cx.readNum) (bs : BTs) (hc : cx.content = printBTs bs)
    (hok : bs.ok) (hpath : bs.pathOk cfg.readNum) (hcase : bs.caseOk cfg.readNum) (fuel : Nat) (hf : rneedBTs bs ≤ fuel) :
    renderTop cx (tagsBTs cfg cx.content 0 bs) (fuel + rcostBTs bs) = .ok (expBTs cx bs) := by
  have hr := render_bts cx cfg hg hrn bs [] cx.content.length [] [] [] {} fuel (by simpa using hc) hok hpath hcase hf
  simp only [List.append_nil, List.nil_append, List.length_nil, Nat.zero_add] at hr
  have := render_finish cx (tagsBTs cfg cx.content 0 bs) [] (expBTs cx bs) 0 cx.content.length {} fuel (rcostBTs bs)
    (by have := rneedBTs_pos bs; omega) (by
      obtain ⟨B2, txt2, st2, h1, h2, h3, h4, h5⟩ := hr
      exact ⟨B2, txt2, st2, by simpa using h1, by rw [h2, hc], by simpa using h3, h4, h5⟩)
  simp only [renderTop, this, bind, Except.bind, emit]
  simp

end Qentem.Tmpl
