import Qentem.Proofs.TmplBlockIf
/-!
# C02 stage 5 — block templates as trees: `<if>` / `<elseif>` / `<else>` chains, nested

`BT` is the fragment of `Tpl` made of segment runs and if-chains whose bodies are again block
templates.  Parse, render and the reference expansion are followed by mutual recursion over the
tree; the parse lemmas are parametric in the stack of open containers.
-/
set_option linter.unusedSectionVars false
set_option linter.unusedVariables false
namespace Qentem.Tmpl
open Qentem.Expr (Fault rd ScanCfg VarRef Item Num Val Env RealLike)
open Qentem.Generated.Tmpl

variable {R : Type}

/-! ### the attribute scan `case="e"`, in general position -/

/-- the units of ` case="e"` + `k` units + `>` at `s` -/
structure CaseText (c : List Nat) (s : Nat) (e : List Nat) (k : Nat) : Prop where
  sp : c[s]? = some 32
  w1 : c[s + 1]? = some 99
  w2 : c[s + 2]? = some 97
  w3 : c[s + 3]? = some 115
  w4 : c[s + 4]? = some 101
  eq : c[s + 5]? = some 61
  q1 : c[s + 6]? = some 34
  expr : ∀ i (hi : i < e.length), c[s + 7 + i]? = some e[i]
  q2 : c[s + 7 + e.length]? = some 34
  fill : ∀ j, j < k → ∃ x, c[s + 8 + e.length + j]? = some x ∧ x ≠ 62
  gt : c[s + 8 + e.length + k]? = some 62

theorem parseIfCase_at (c : List Nat) (s : Nat) (e : List Nat) (k : Nat) (ht : CaseText c s e k)
    (he : ∀ x ∈ e, x ≠ 34) :
    parseIfCase c s c.length = .ok (s + 9 + e.length + k, s + 7, s + 7 + e.length) := by
  have hlen : s + 8 + e.length + k < c.length := (List.getElem?_eq_some_iff.mp ht.gt).1
  have hcl4 : W1.caseLength = 4 := by decide
  have s1 : skipW c c.length (· == W1.spaceChar) s = .ok (s + 1) := by
    apply skipW_run c c.length _ 1 s
    · intro i hi
      have : i = 0 := by omega
      subst this
      exact ⟨32, by simpa using ht.sp, by decide⟩
    · omega
    · right; exact ⟨99, ht.w1, by decide⟩
  have s2 : andEqualAt (decide (s + 1 < c.length) && decide (c.length - (s + 1) > W1.caseLength))
      c (s + 1) W1.caseStr = .ok true := by
    have : (decide (s + 1 < c.length) && decide (c.length - (s + 1) > W1.caseLength)) = true := by
      simp only [hcl4, Bool.and_eq_true, decide_eq_true_eq]; omega
    simp only [andEqualAt, this, if_true]
    apply isEqualAt_true
    intro i hi
    have hi4 : i < 4 := by simpa [show W1.caseStr = [99, 97, 115, 101] by decide] using hi
    have : i = 0 ∨ i = 1 ∨ i = 2 ∨ i = 3 := by omega
    rcases this with h | h | h | h <;> subst h
    · rw [show s + 1 + 0 = s + 1 by omega, ht.w1]; rfl
    · rw [show s + 1 + 1 = s + 2 by omega, ht.w2]; rfl
    · rw [show s + 1 + 2 = s + 3 by omega, ht.w3]; rfl
    · rw [show s + 1 + 3 = s + 4 by omega, ht.w4]; rfl
  have s3 : skipW c c.length (· != W1.equalChar) (s + 1 + W1.caseLength) = .ok (s + 5) := by
    rw [show s + 1 + W1.caseLength = s + 5 by omega]
    exact skipW_run c c.length _ 0 (s + 5) (by intro i hi; omega) (by omega) (Or.inr ⟨61, by simpa using ht.eq, by decide⟩)
  have s4 : skipW c c.length (· == W1.spaceChar) (s + 5 + 1) = .ok (s + 6) := by
    exact skipW_run c c.length _ 0 (s + 6) (by intro i hi; omega) (by omega) (Or.inr ⟨34, by simpa using ht.q1, by decide⟩)
  have s5 : skipW c c.length (· != 34) (s + 6 + 1) = .ok (s + 7 + e.length) := by
    rw [show s + 6 + 1 = s + 7 by omega]
    apply skipW_run
    · intro i hi
      refine ⟨e[i], ht.expr i hi, ?_⟩
      have := he e[i] (List.getElem_mem hi)
      simpa using this
    · omega
    · right; exact ⟨34, ht.q2, by decide⟩
  have s6 : skipW c c.length (· != W1.multiLineLastChar) (s + 7 + e.length) = .ok (s + 7 + e.length + (1 + k)) := by
    apply skipW_run
    · intro i hi
      by_cases h0 : i = 0
      · subst h0; exact ⟨34, by simpa using ht.q2, by decide⟩
      · obtain ⟨x, hx, hne⟩ := ht.fill (i - 1) (by omega)
        refine ⟨x, by rw [show s + 7 + e.length + i = s + 8 + e.length + (i - 1) by omega]; exact hx, ?_⟩
        simp only [show W1.multiLineLastChar = 62 by decide]; simpa using hne
    · omega
    · right; exact ⟨62, by rw [show s + 7 + e.length + (1 + k) = s + 8 + e.length + k by omega]; exact ht.gt, by decide⟩
  simp only [parseIfCase, s1, bind, Except.bind, s2, if_true, s3, doSkipW, s4]
  have hlt : s + 6 < c.length := by omega
  simp only [hlt, if_true, rd_some c (s + 6) 34 ht.q1, s5, s6]
  congr 2 <;> omega

/-- a quoted expression text inside the content, as a relocation of `e"` -/
theorem reloc_quoted (c A0 e post : List Nat) (hc : c = (A0 ++ [34]) ++ (e ++ [34]) ++ post) :
    Qentem.Expr.Reloc (e ++ [34]) c (A0.length + 1) := by
  have hbefore := isExpression_after_quote A0 ((e ++ [34]) ++ post)
  rw [← List.append_assoc] at hbefore
  have hrel := Qentem.Expr.Reloc.of_append (A0 ++ [34]) (e ++ [34]) post hbefore
  have hl : (A0 ++ [34]).length = A0.length + 1 := by simp
  rw [← hc, hl] at hrel
  exact hrel

theorem exprs_quoted (cfg : ScanCfg R) (c A0 e post : List Nat)
    (hc : c = (A0 ++ [34]) ++ (e ++ [34]) ++ post) (hp : plainL e) (items : List (Item R))
    (hs : Qentem.Expr.parseTop ({ readNum := cfg.readNum } : ScanCfg R) (e ++ [34]) 0 e.length = .ok items) :
    ∃ items', exprs cfg c [] (A0.length + 1) (A0.length + 1 + e.length) = .ok items' ∧
      Qentem.Expr.RelItems (A0.length + 1) (e.length + 1) items items' := by
  have hrel := reloc_quoted c A0 e post hc
  have hno : ∀ (i x : Nat), (e ++ [34])[i]? = some x → x ≠ Qentem.Expr.cBOpen := by
    intro i x hx
    have hmem : x ∈ e ++ [34] := List.mem_of_getElem? hx
    rcases List.mem_append.mp hmem with h | h
    · exact (hp x h).1
    · simp at h; subst h; decide
  obtain ⟨items', h1, h2⟩ := Qentem.Expr.parseTop_reloc ({ readNum := cfg.readNum } : ScanCfg R)
    { cfg with loopVar := loopVarPure c [] } rfl hrel hno 0 e.length (by simp) items hs
  exact ⟨items', by simpa [exprs] using h1, by simpa using h2⟩

/-- `<elseif case="e" />` handled by `stepElse` -/
theorem stepElif_print (cfg : ScanCfg R) (c : List Nat) (stk : List (Frame R)) (pre0 : List (Tag R))
    (done : List (IfCase R)) (cur : List (Item R)) (curOff off : Nat) (sub : List (Tag R)) (q : Nat) (e : List Nat)
    (h5 : c[q + 5]? = some 105) (ht : CaseText c (q + 7) e 2) (he : ∀ x ∈ e, x ≠ 34)
    (hlt : q + 18 + e.length < c.length) (items2 : List (Item R))
    (hex : exprs cfg c [] (q + 14) (q + 14 + e.length) = .ok items2) (o3 m3 : Nat)
    (hnext : next c (q + 18 + e.length) = .ok (o3, m3)) :
    stepElse cfg c (stAt (.ifT pre0 done cur curOff off :: stk) sub (q + 5) 11) =
      .ok (stAt (.ifT pre0 (done ++ [.mk cur sub curOff q]) items2 (q + 18 + e.length) off :: stk) [] o3 m3) := by
  have hpl : W1.elsePrefixLength = 5 := by decide
  have hscan : elseScan c (c.length + 1) (q + 5) = .ok (q + 7, true) := by
    have hl5 : q + 5 < c.length := (List.getElem?_eq_some_iff.mp h5).1
    simp [elseScan, rd_some c (q + 5) 105 h5, bind, Except.bind, hl5,
      show W1.multiLineLastChar = 62 by decide, show W1.ifPrefixFirst = 105 by decide,
      show W1.ifAfterElseLength = 2 by decide]
  have hpc := parseIfCase_at c (q + 7) e 2 ht he
  rw [show q + 7 + 9 + e.length + 2 = q + 18 + e.length by omega, show q + 7 + 7 = q + 14 by omega] at hpc
  have hcond : (q + 18 + e.length < c.length ∧ q + 14 + e.length ≠ 0) := ⟨hlt, by omega⟩
  have hne : q + 14 + e.length ≠ 0 := by omega
  simp only [stepElse, stAt, hscan, bind, Except.bind, if_true, hpc, finderNext, hnext, hlt, hne, true_and, ne_eq,
    not_false_eq_true, hex, hpl, Nat.add_sub_cancel]

/-! ### block trees -/

mutual
inductive BT where
  | segs (l : List Seg)
  | ifc (e : List Nat) (body : BTs) (tail : BTail)
inductive BTs where
  | nil
  | cons (b : BT) (r : BTs)
inductive BTail where
  | fin
  | els (body : BTs)
  | elif (e : List Nat) (body : BTs) (tail : BTail)
end

/-- `<elseif case="` -/
def ELIF : List Nat := [60, 101, 108, 115, 101, 105, 102, 32, 99, 97, 115, 101, 61, 34]
/-- `" />` -/
def ELIFEND : List Nat := [34, 32, 47, 62]

mutual
def printBT : BT → List Nat
  | .segs l => printSegs l
  | .ifc e body tail => IFOPEN ++ e ++ [34, 62] ++ printBTs body ++ printTail tail
def printBTs : BTs → List Nat
  | .nil => []
  | .cons b r => printBT b ++ printBTs r
def printTail : BTail → List Nat
  | .fin => IFEND
  | .els body => ELSE ++ printBTs body ++ IFEND
  | .elif e body tail => ELIF ++ e ++ ELIFEND ++ printBTs body ++ printTail tail
end

mutual
def BT.toTpls : BT → List Tpl
  | .segs l => segsTpl l
  | .ifc e body tail => [.ifc ((some e, btsTpl body) :: tailBr tail)]
def btsTpl : BTs → List Tpl
  | .nil => []
  | .cons b r => b.toTpls ++ btsTpl r
def tailBr : BTail → List (Option (List Nat) × List Tpl)
  | .fin => []
  | .els body => [(none, btsTpl body)]
  | .elif e body tail => (some e, btsTpl body) :: tailBr tail
end

mutual
theorem printBT_eq : ∀ (b : BT), printList b.toTpls = printBT b
  | .segs l => by simp only [BT.toTpls, printBT]; exact printSegs_eq l
  | .ifc e body tail => by
    have h1 : str "<if case=\"" = IFOPEN := by rfl
    have h2 : str "\">" = [34, 62] := by rfl
    simp only [BT.toTpls, printBT, printList, printTpl, printBranches, if_true, h1, h2, printBTs_eq body,
      printTail_eq tail, List.append_nil, List.append_assoc]
theorem printBTs_eq : ∀ (bs : BTs), printList (btsTpl bs) = printBTs bs
  | .nil => rfl
  | .cons b r => by simp only [btsTpl, printBTs, printList_append, printBT_eq b, printBTs_eq r]
theorem printTail_eq : ∀ (t : BTail), printBranches false (tailBr t) ++ str "</if>" = printTail t
  | .fin => by rfl
  | .els body => by
    have h4 : str "<else />" = ELSE := by rfl
    have h3 : str "</if>" = IFEND := by rfl
    simp only [tailBr, printBranches, printTail, h4, h3, printBTs_eq body, List.append_nil, List.append_assoc]
  | .elif e body tail => by
    have h1 : str "<elseif case=\"" = ELIF := by rfl
    have h2 : str "\" />" = ELIFEND := by rfl
    simp only [tailBr, printBranches, printTail, Bool.false_eq_true, if_false, h1, h2, printBTs_eq body,
      List.append_assoc, printTail_eq tail]
end

mutual
def BT.ok : BT → Prop
  | .segs l => ∀ s ∈ l, s.ok
  | .ifc e body tail => plainL e ∧ (∀ x ∈ e, x ≠ 34) ∧ BTs.ok body ∧ BTail.ok tail
def BTs.ok : BTs → Prop
  | .nil => True
  | .cons b r => BT.ok b ∧ BTs.ok r
def BTail.ok : BTail → Prop
  | .fin => True
  | .els body => BTs.ok body
  | .elif e body tail => plainL e ∧ (∀ x ∈ e, x ≠ 34) ∧ BTs.ok body ∧ BTail.ok tail
end

mutual
/-- number of `step`s of the main loop -/
def costBT : BT → Nat
  | .segs l => nTags l
  | .ifc _ body tail => 1 + costBTs body + costTail tail
def costBTs : BTs → Nat
  | .nil => 0
  | .cons b r => costBT b + costBTs r
def costTail : BTail → Nat
  | .fin => 1
  | .els body => 1 + costBTs body + 1
  | .elif _ body tail => 1 + costBTs body + costTail tail
end

mutual
def tagsBT (cfg : ScanCfg R) (c : List Nat) (p : Nat) : BT → List (Tag R)
  | .segs l => tagsOf cfg c p l
  | .ifc e body tail =>
    [.ifT (.mk (itemsAt cfg c (p + 10) (p + 10 + e.length)) (tagsBTs cfg c (p + 12 + e.length) body)
        (p + 12 + e.length) (p + 12 + e.length + (printBTs body).length) ::
      casesT cfg c (p + 12 + e.length + (printBTs body).length) tail) p
      (p + 12 + e.length + (printBTs body).length + (printTail tail).length)]
def tagsBTs (cfg : ScanCfg R) (c : List Nat) (p : Nat) : BTs → List (Tag R)
  | .nil => []
  | .cons b r => tagsBT cfg c p b ++ tagsBTs cfg c (p + (printBT b).length) r
def casesT (cfg : ScanCfg R) (c : List Nat) (q : Nat) : BTail → List (IfCase R)
  | .fin => []
  | .els body => [.mk [] (tagsBTs cfg c (q + 8) body) (q + 8) (q + 8 + (printBTs body).length)]
  | .elif e body tail =>
    .mk (itemsAt cfg c (q + 14) (q + 14 + e.length)) (tagsBTs cfg c (q + 18 + e.length) body)
      (q + 18 + e.length) (q + 18 + e.length + (printBTs body).length) ::
    casesT cfg c (q + 18 + e.length + (printBTs body).length) tail
end

theorem printTail_pos (t : BTail) : 5 ≤ (printTail t).length := by
  cases t <;> simp [printTail, IFEND, ELSE, ELIF, ELIFEND] <;> omega

theorem parseMain_step (cfg : ScanCfg R) (c : List Nat) (f : Nat) (st st' : PState R) (hm : st.mtch ≠ 0)
    (h : step cfg c st = .ok st') : parseMain cfg c (f + 1) st = parseMain cfg c f st' := by
  simp only [parseMain, hm, ne_eq, not_false_eq_true, if_true, h, bind, Except.bind]

/-- the units of a printed `<elseif case="e" />` at `q` -/
theorem elifText_of (c pre e rest : List Nat) (hc : c = pre ++ (ELIF ++ e ++ ELIFEND ++ rest)) :
    (∀ i (hi : i < 14), c[pre.length + i]? = some (ELIF[i]'(by simp [ELIF]; exact hi))) ∧
    CaseText c (pre.length + 7) e 2 := by
  have hc1 : c = pre ++ (ELIF ++ (e ++ ELIFEND ++ rest)) := by rw [hc]; simp [List.append_assoc]
  have hc2 : c = (pre ++ ELIF) ++ (e ++ (ELIFEND ++ rest)) := by rw [hc]; simp [List.append_assoc]
  have hc3 : c = (pre ++ ELIF ++ e) ++ (ELIFEND ++ rest) := by rw [hc]; simp [List.append_assoc]
  have hl : (pre ++ ELIF).length = pre.length + 14 := by simp [ELIF]
  have hl3 : (pre ++ ELIF ++ e).length = pre.length + 14 + e.length := by simp [ELIF]; omega
  have g : ∀ i (hi : i < 14), c[pre.length + i]? = some (ELIF[i]'(by simp [ELIF]; exact hi)) := by
    intro i hi; rw [hc1]; exact get_at pre ELIF _ i (by simp [ELIF]; exact hi)
  have ge : ∀ i (hi : i < e.length), c[pre.length + 14 + i]? = some e[i] := by
    intro i hi
    have := get_at (pre ++ ELIF) e (ELIFEND ++ rest) i hi
    rw [hl] at this; rw [hc2]; exact this
  have gz : ∀ i (hi : i < 4), c[pre.length + 14 + e.length + i]? = some (ELIFEND[i]'(by simp [ELIFEND]; exact hi)) := by
    intro i hi
    have := get_at (pre ++ ELIF ++ e) ELIFEND rest i (by simp [ELIFEND]; exact hi)
    rw [hl3] at this; rw [hc3]; exact this
  refine ⟨g, ?_⟩
  have k := fun (j : Nat) (hj : j < 7) => g (7 + j) (by omega)
  refine ⟨by have := k 0 (by omega); exact this,
    by have := k 1 (by omega); rw [show pre.length + 7 + 1 = pre.length + (7 + 1) by omega]; exact this,
    by have := k 2 (by omega); rw [show pre.length + 7 + 2 = pre.length + (7 + 2) by omega]; exact this,
    by have := k 3 (by omega); rw [show pre.length + 7 + 3 = pre.length + (7 + 3) by omega]; exact this,
    by have := k 4 (by omega); rw [show pre.length + 7 + 4 = pre.length + (7 + 4) by omega]; exact this,
    by have := k 5 (by omega); rw [show pre.length + 7 + 5 = pre.length + (7 + 5) by omega]; exact this,
    by have := k 6 (by omega); rw [show pre.length + 7 + 6 = pre.length + (7 + 6) by omega]; exact this, ?_, ?_, ?_, ?_⟩
  · intro i hi
    have := ge i hi
    rw [show pre.length + 7 + 7 + i = pre.length + 14 + i by omega]; exact this
  · have := gz 0 (by omega)
    rw [show pre.length + 7 + 7 + e.length = pre.length + 14 + e.length + 0 by omega]; exact this
  · intro j hj
    have hj2 : j = 0 ∨ j = 1 := by omega
    rcases hj2 with h | h <;> subst h
    · exact ⟨32, by have := gz 1 (by omega); rw [show pre.length + 7 + 8 + e.length + 0 = pre.length + 14 + e.length + 1 by omega]; exact this, by decide⟩
    · exact ⟨47, by have := gz 2 (by omega); rw [show pre.length + 7 + 8 + e.length + 1 = pre.length + 14 + e.length + 2 by omega]; exact this, by decide⟩
  · have := gz 3 (by omega)
    rw [show pre.length + 7 + 8 + e.length + 2 = pre.length + 14 + e.length + 3 by omega]; exact this

/-! ### parse of a block tree (any stack of open block containers) -/

mutual
theorem parse_bt (cfg : ScanCfg R) (c : List Nat) (hn : c.length + 16 < 4294967296) :
    ∀ (b : BT) (stk : List (Frame R)) (pre post : List Nat) (acc : List (Tag R)) (fuel o m o' m' : Nat),
      c = pre ++ (printBT b ++ post) → b.ok →
      next c pre.length = .ok (o, m) → next c (pre.length + (printBT b).length) = .ok (o', m') →
      parseMain cfg c (fuel + costBT b) (stAt stk acc o m) =
        parseMain cfg c fuel (stAt stk (acc ++ tagsBT cfg c pre.length b) o' m')
  | .segs l, stk, pre, post, acc, fuel, o, m, o', m', hc, hok, hnext, hfin => by
    simp only [printBT] at hc hfin
    simp only [BT.ok] at hok
    simp only [costBT, tagsBT]
    exact parseMain_segs cfg c hn stk post l pre acc fuel o m o' m' hc hok (fun s _ => Seg.scanOk_all _ s) hnext hfin
  | .ifc e body tail, stk, pre, post, acc, fuel, o, m, o', m', hc, hok, hnext, hfin => by
    simp only [BT.ok] at hok
    obtain ⟨hpe, hq34, hbody, htail⟩ := hok
    simp only [printBT] at hc hfin
    have htp := printTail_pos tail
    have hc1 : c = pre ++ (IFOPEN ++ e ++ [34, 62] ++ (printBTs body ++ printTail tail ++ post)) := by
      rw [hc]; simp [List.append_assoc]
    have ht := ifText_of c pre e _ hc1
    have g := fun i (hi : i < 10) => ht.open_ i hi
    have hat : next c pre.length = .ok (pre.length + 3, 9) :=
      next_at_if c pre.length hn (g 0 (by omega)) (g 1 (by omega)) (g 2 (by omega)) (g 4 (by omega)) (g 6 (by omega))
    rw [hat] at hnext
    simp only [Except.ok.injEq, Prod.mk.injEq] at hnext
    obtain ⟨rfl, rfl⟩ := hnext
    obtain ⟨items0, hitems0⟩ := Qentem.Expr.parseTop_total ({ readNum := cfg.readNum } : ScanCfg R) (e ++ [34]) 0 e.length (by simp)
    obtain ⟨items', hex, _⟩ := exprs_case cfg c pre e _ hc1 hpe items0 hitems0
    obtain ⟨o1, m1, hn1, _⟩ := next_safe_total c (pre.length + 12 + e.length) ht.len
    have hstep := stepIf_print cfg c pre e _ hc1 hq34 (by simp only [List.length_append]; omega) stk acc items' hex o1 m1 hn1
    have hl2 : (pre ++ (IFOPEN ++ e ++ [34, 62])).length = pre.length + 12 + e.length := by simp [IFOPEN]; omega
    have hc2 : c = (pre ++ (IFOPEN ++ e ++ [34, 62])) ++ (printBTs body ++ (printTail tail ++ post)) := by
      rw [hc1]; simp [List.append_assoc]
    have hq_le : pre.length + 12 + e.length + (printBTs body).length ≤ c.length := by
      rw [hc1]; simp [IFOPEN]; omega
    obtain ⟨o2, m2, hn2, _⟩ := next_safe_total c _ hq_le
    have hbody_run := parse_bts cfg c hn body (.ifT acc [] items' (pre.length + 12 + e.length) pre.length :: stk)
      (pre ++ (IFOPEN ++ e ++ [34, 62])) (printTail tail ++ post) [] (fuel + costTail tail) o1 m1 o2 m2
      hc2 hbody (by rw [hl2]; exact hn1) (by rw [hl2]; exact hn2)
    rw [hl2] at hbody_run
    simp only [List.nil_append] at hbody_run
    have hc3 : c = (pre ++ (IFOPEN ++ e ++ [34, 62]) ++ printBTs body) ++ (printTail tail ++ post) := by
      rw [hc1]; simp [List.append_assoc]
    have hl3 : (pre ++ (IFOPEN ++ e ++ [34, 62]) ++ printBTs body).length = pre.length + 12 + e.length + (printBTs body).length := by
      rw [List.length_append, hl2]
    have htail_run := parse_tail cfg c hn tail stk acc [] items' (pre.length + 12 + e.length) pre.length
      (tagsBTs cfg c (pre.length + 12 + e.length) body) (pre ++ (IFOPEN ++ e ++ [34, 62]) ++ printBTs body) post
      fuel o2 m2 o' m' hc3 htail (by rw [hl3]; exact hn2)
      (by rw [hl3, ← hfin]; congr 1; simp [IFOPEN, List.length_append]; omega)
    rw [hl3] at htail_run
    rw [show fuel + costBT (.ifc e body tail) = (fuel + costTail tail + costBTs body) + 1 by simp only [costBT]; omega]
    have hd9 : step cfg c (stAt stk acc (pre.length + 3) 9) = stepIf cfg c (stAt stk acc (pre.length + 3) 9) := by
      simp only [step, stAt]; rfl
    rw [parseMain_step cfg c _ _ _ (by simp [stAt]) (hd9.trans hstep), hbody_run, htail_run]
    have hia : itemsAt cfg c (pre.length + 10) (pre.length + 10 + e.length) = items' := by simp only [itemsAt, hex]
    simp only [tagsBT, hia, List.nil_append]
theorem parse_bts (cfg : ScanCfg R) (c : List Nat) (hn : c.length + 16 < 4294967296) :
    ∀ (bs : BTs) (stk : List (Frame R)) (pre post : List Nat) (acc : List (Tag R)) (fuel o m o' m' : Nat),
      c = pre ++ (printBTs bs ++ post) → bs.ok →
      next c pre.length = .ok (o, m) → next c (pre.length + (printBTs bs).length) = .ok (o', m') →
      parseMain cfg c (fuel + costBTs bs) (stAt stk acc o m) =
        parseMain cfg c fuel (stAt stk (acc ++ tagsBTs cfg c pre.length bs) o' m')
  | .nil, stk, pre, post, acc, fuel, o, m, o', m', hc, hok, hnext, hfin => by
    simp only [printBTs, List.length_nil, Nat.add_zero] at hfin
    rw [hnext] at hfin
    simp only [Except.ok.injEq, Prod.mk.injEq] at hfin
    obtain ⟨rfl, rfl⟩ := hfin
    simp [costBTs, tagsBTs]
  | .cons b r, stk, pre, post, acc, fuel, o, m, o', m', hc, hok, hnext, hfin => by
    simp only [BTs.ok] at hok
    simp only [printBTs] at hc hfin
    have hmid_le : pre.length + (printBT b).length ≤ c.length := by rw [hc]; simp [Nat.add_assoc]
    obtain ⟨o1, m1, hn1, _⟩ := next_safe_total c _ hmid_le
    have h1 := parse_bt cfg c hn b stk pre (printBTs r ++ post) acc (fuel + costBTs r) o m o1 m1
      (by rw [hc]; simp [List.append_assoc]) hok.1 hnext hn1
    have h2 := parse_bts cfg c hn r stk (pre ++ printBT b) post (acc ++ tagsBT cfg c pre.length b) fuel o1 m1 o' m'
      (by rw [hc]; simp [List.append_assoc]) hok.2 (by rw [List.length_append]; exact hn1)
      (by rw [← hfin]; congr 1; simp only [List.length_append]; omega)
    rw [show fuel + costBTs (.cons b r) = fuel + costBTs r + costBT b by simp only [costBTs]; omega, h1, h2]
    simp [tagsBTs, List.length_append, List.append_assoc]
theorem parse_tail (cfg : ScanCfg R) (c : List Nat) (hn : c.length + 16 < 4294967296) :
    ∀ (t : BTail) (stk : List (Frame R)) (accO : List (Tag R)) (done : List (IfCase R)) (cur : List (Item R))
      (curOff p : Nat) (sub : List (Tag R)) (pre post : List Nat) (fuel o m o' m' : Nat),
      c = pre ++ (printTail t ++ post) → t.ok →
      next c pre.length = .ok (o, m) → next c (pre.length + (printTail t).length) = .ok (o', m') →
      parseMain cfg c (fuel + costTail t) (stAt (.ifT accO done cur curOff p :: stk) sub o m) =
        parseMain cfg c fuel (stAt stk (accO ++ [.ifT (done ++ .mk cur sub curOff pre.length ::
          casesT cfg c pre.length t) p (pre.length + (printTail t).length)]) o' m')
  | .fin, stk, accO, done, cur, curOff, p, sub, pre, post, fuel, o, m, o', m', hc, hok, hnext, hfin => by
    simp only [printTail] at hc hfin
    have hq : ∀ i (hi : i < 5), c[pre.length + i]? = some (IFEND[i]'(by simp [IFEND]; exact hi)) := by
      intro i hi; rw [hc]; exact get_at pre IFEND post i (by simp [IFEND]; exact hi)
    have hend : next c pre.length = .ok (pre.length + 5, 10) :=
      next_at_ifend c _ hn (hq 0 (by omega)) (hq 1 (by omega)) (hq 2 (by omega)) (hq 3 (by omega)) (hq 4 (by omega))
    rw [hend] at hnext
    simp only [Except.ok.injEq, Prod.mk.injEq] at hnext
    obtain ⟨rfl, rfl⟩ := hnext
    have hfin' : next c (pre.length + 5) = .ok (o', m') := by simpa [IFEND] using hfin
    have hclose := stepIfEnd_print c stk accO done cur curOff p sub pre.length o' m' hfin'
    have hd10 : step cfg c (stAt (.ifT accO done cur curOff p :: stk) sub (pre.length + 5) 10) =
        stepIfEnd c (stAt (.ifT accO done cur curOff p :: stk) sub (pre.length + 5) 10) := by
      simp only [step, stAt]; rfl
    simp only [costTail]
    rw [parseMain_step cfg c _ _ _ (by simp [stAt]) (hd10.trans hclose)]
    simp [casesT, printTail, IFEND]
  | .els body, stk, accO, done, cur, curOff, p, sub, pre, post, fuel, o, m, o', m', hc, hok, hnext, hfin => by
    simp only [BTail.ok] at hok
    simp only [printTail] at hc hfin
    have hc1 : c = pre ++ (ELSE ++ (printBTs body ++ IFEND ++ post)) := by rw [hc]; simp [List.append_assoc]
    have hel : ∀ i (hi : i < 8), c[pre.length + i]? = some (ELSE[i]'(by simp [ELSE]; exact hi)) := by
      intro i hi; rw [hc1]; exact get_at pre ELSE _ i (by simp [ELSE]; exact hi)
    have helse : next c pre.length = .ok (pre.length + 5, 11) :=
      next_at_else c _ hn (hel 0 (by omega)) (hel 1 (by omega)) (hel 2 (by omega)) (hel 3 (by omega)) (hel 4 (by omega))
        (hel 6 (by omega))
    rw [helse] at hnext
    simp only [Except.ok.injEq, Prod.mk.injEq] at hnext
    obtain ⟨rfl, rfl⟩ := hnext
    have hb_le : pre.length + 8 ≤ c.length := by rw [hc1]; simp [ELSE] <;> omega
    obtain ⟨o3, m3, hn3, _⟩ := next_safe_total c (pre.length + 8) hb_le
    have hels := stepElse_print cfg c stk accO done cur curOff p sub pre.length o3 m3
      (hel 5 (by omega)) (hel 6 (by omega)) (hel 7 (by omega)) hn3
    have hl4 : (pre ++ ELSE).length = pre.length + 8 := by simp [ELSE]
    have hc4 : c = (pre ++ ELSE) ++ (printBTs body ++ (IFEND ++ post)) := by rw [hc1]; simp [List.append_assoc]
    have hq : ∀ i (hi : i < 5), c[pre.length + 8 + (printBTs body).length + i]? = some (IFEND[i]'(by simp [IFEND]; exact hi)) := by
      intro i hi
      have hc5 : c = (pre ++ ELSE ++ printBTs body) ++ (IFEND ++ post) := by rw [hc1]; simp [List.append_assoc]
      have := get_at (pre ++ ELSE ++ printBTs body) IFEND post i (by simp [IFEND]; exact hi)
      have hl5 : (pre ++ ELSE ++ printBTs body).length = pre.length + 8 + (printBTs body).length := by
        rw [List.length_append, hl4]
      rw [hl5] at this; rw [hc5]; exact this
    have hend : next c (pre.length + 8 + (printBTs body).length) = .ok (pre.length + 8 + (printBTs body).length + 5, 10) :=
      next_at_ifend c _ hn (hq 0 (by omega)) (hq 1 (by omega)) (hq 2 (by omega)) (hq 3 (by omega)) (hq 4 (by omega))
    have hrun := parse_bts cfg c hn body (.ifT accO (done ++ [.mk cur sub curOff pre.length]) [] (pre.length + 8) p :: stk)
      (pre ++ ELSE) (IFEND ++ post) [] (fuel + 1) o3 m3 _ _ hc4 hok (by rw [hl4]; exact hn3) (by rw [hl4]; exact hend)
    rw [hl4] at hrun
    simp only [List.nil_append] at hrun
    have hlen8 : (ELSE ++ printBTs body ++ IFEND).length = 8 + (printBTs body).length + 5 := by
      simp [ELSE, IFEND] <;> omega
    have hfin' : next c (pre.length + 8 + (printBTs body).length + 5) = .ok (o', m') := by
      rw [← hfin, hlen8]; congr 1; omega
    have hclose := stepIfEnd_print c stk accO (done ++ [.mk cur sub curOff pre.length]) [] (pre.length + 8) p
      (tagsBTs cfg c (pre.length + 8) body) (pre.length + 8 + (printBTs body).length) o' m' hfin'
    have hd11 : step cfg c (stAt (.ifT accO done cur curOff p :: stk) sub (pre.length + 5) 11) =
        stepElse cfg c (stAt (.ifT accO done cur curOff p :: stk) sub (pre.length + 5) 11) := by
      simp only [step, stAt]; rfl
    have hd10 : ∀ st : PState R, st.mtch = 10 → step cfg c st = stepIfEnd c st := by
      intro st h; simp only [step, h]; rfl
    rw [show fuel + costTail (.els body) = (fuel + 1 + costBTs body) + 1 by simp only [costTail]; omega]
    rw [parseMain_step cfg c _ _ _ (by simp [stAt]) (hd11.trans hels), hrun,
      parseMain_step cfg c _ _ _ (by simp [stAt]) ((hd10 _ rfl).trans hclose)]
    have hendp : pre.length + 8 + (printBTs body).length + 5 = pre.length + (printTail (BTail.els body)).length := by
      simp only [printTail, hlen8]; omega
    rw [hendp]
    simp only [casesT, List.append_assoc, List.singleton_append]
  | .elif e body tail, stk, accO, done, cur, curOff, p, sub, pre, post, fuel, o, m, o', m', hc, hok, hnext, hfin => by
    simp only [BTail.ok] at hok
    obtain ⟨hpe, hq34, hbody, htail⟩ := hok
    simp only [printTail] at hc hfin
    have htp := printTail_pos tail
    have hc1 : c = pre ++ (ELIF ++ e ++ ELIFEND ++ (printBTs body ++ printTail tail ++ post)) := by
      rw [hc]; simp [List.append_assoc]
    obtain ⟨g, hct⟩ := elifText_of c pre e _ hc1
    have helse : next c pre.length = .ok (pre.length + 5, 11) :=
      next_at_else' c _ hn (g 0 (by omega)) (g 1 (by omega)) (g 2 (by omega)) (g 3 (by omega)) (g 4 (by omega))
        (by intro x hx; rw [g 6 (by omega)] at hx; cases hx; simp [ELIF])
    rw [helse] at hnext
    simp only [Except.ok.injEq, Prod.mk.injEq] at hnext
    obtain ⟨rfl, rfl⟩ := hnext
    -- the case expression
    obtain ⟨items0, hitems0⟩ := Qentem.Expr.parseTop_total ({ readNum := cfg.readNum } : ScanCfg R) (e ++ [34]) 0 e.length (by simp)
    have hcq : c = ((pre ++ [60, 101, 108, 115, 101, 105, 102, 32, 99, 97, 115, 101, 61]) ++ [34]) ++ (e ++ [34]) ++
        ([32, 47, 62] ++ (printBTs body ++ printTail tail ++ post)) := by
      rw [hc1]; simp [ELIF, ELIFEND, List.append_assoc]
    obtain ⟨items2, hex0, _⟩ := exprs_quoted cfg c (pre ++ [60, 101, 108, 115, 101, 105, 102, 32, 99, 97, 115, 101, 61]) e _ hcq hpe items0 hitems0
    have hA : (pre ++ [60, 101, 108, 115, 101, 105, 102, 32, 99, 97, 115, 101, 61]).length + 1 = pre.length + 14 := by simp
    rw [hA] at hex0
    have hlt : pre.length + 18 + e.length < c.length := by
      rw [hc1]; simp [ELIF, ELIFEND, List.length_append]; omega
    obtain ⟨o3, m3, hn3, _⟩ := next_safe_total c (pre.length + 18 + e.length) (by omega)
    have hels := stepElif_print cfg c stk accO done cur curOff p sub pre.length e (g 5 (by omega)) hct hq34 hlt items2 hex0 o3 m3 hn3
    -- the body
    have hl4 : (pre ++ (ELIF ++ e ++ ELIFEND)).length = pre.length + 18 + e.length := by simp [ELIF, ELIFEND]; omega
    have hc4 : c = (pre ++ (ELIF ++ e ++ ELIFEND)) ++ (printBTs body ++ (printTail tail ++ post)) := by
      rw [hc1]; simp [List.append_assoc]
    have hq_le : pre.length + 18 + e.length + (printBTs body).length ≤ c.length := by
      rw [hc1]; simp [ELIF, ELIFEND, List.length_append]; omega
    obtain ⟨o2, m2, hn2, _⟩ := next_safe_total c _ hq_le
    have hrun := parse_bts cfg c hn body
      (.ifT accO (done ++ [.mk cur sub curOff pre.length]) items2 (pre.length + 18 + e.length) p :: stk)
      (pre ++ (ELIF ++ e ++ ELIFEND)) (printTail tail ++ post) [] (fuel + costTail tail) o3 m3 o2 m2 hc4 hbody
      (by rw [hl4]; exact hn3) (by rw [hl4]; exact hn2)
    rw [hl4] at hrun
    simp only [List.nil_append] at hrun
    have hc5 : c = (pre ++ (ELIF ++ e ++ ELIFEND) ++ printBTs body) ++ (printTail tail ++ post) := by
      rw [hc1]; simp [List.append_assoc]
    have hl5 : (pre ++ (ELIF ++ e ++ ELIFEND) ++ printBTs body).length = pre.length + 18 + e.length + (printBTs body).length := by
      rw [List.length_append, hl4]
    have htail_run := parse_tail cfg c hn tail stk accO (done ++ [.mk cur sub curOff pre.length]) items2
      (pre.length + 18 + e.length) p (tagsBTs cfg c (pre.length + 18 + e.length) body)
      (pre ++ (ELIF ++ e ++ ELIFEND) ++ printBTs body) post fuel o2 m2 o' m' hc5 htail (by rw [hl5]; exact hn2)
      (by rw [hl5, ← hfin]; congr 1; simp [ELIF, ELIFEND, List.length_append]; omega)
    rw [hl5] at htail_run
    have hd11 : step cfg c (stAt (.ifT accO done cur curOff p :: stk) sub (pre.length + 5) 11) =
        stepElse cfg c (stAt (.ifT accO done cur curOff p :: stk) sub (pre.length + 5) 11) := by
      simp only [step, stAt]; rfl
    rw [show fuel + costTail (.elif e body tail) = (fuel + costTail tail + costBTs body) + 1 by simp only [costTail]; omega]
    rw [parseMain_step cfg c _ _ _ (by simp [stAt]) (hd11.trans hels), hrun, htail_run]
    have hia : itemsAt cfg c (pre.length + 14) (pre.length + 14 + e.length) = items2 := by simp only [itemsAt, hex0]
    have hendp : pre.length + 18 + e.length + (printBTs body).length + (printTail tail).length =
        pre.length + (printTail (BTail.elif e body tail)).length := by
      simp [printTail, ELIF, ELIFEND, List.length_append]; omega
    rw [hendp]
    simp only [casesT, hia, List.append_assoc, List.singleton_append]
end

section
variable [RealLike R]

/-- the decision of a quoted case text scanned in place equals the reference `isTrue (evalText e)` -/
theorem case_hit_quoted (cx : RCtx R) (cfg : ScanCfg R) (hrn : cfg.readNum = cx.readNum) (st : RState)
    (A0 e post : List Nat) (hc : cx.content = (A0 ++ [34]) ++ (e ++ [34]) ++ post) (hp : plainL e) :
    ((itemsAt cfg cx.content (A0.length + 1) (A0.length + 1 + e.length)).isEmpty =
      (match Qentem.Expr.parseTop ({ readNum := cx.readNum } : ScanCfg R) (e ++ [34]) 0 e.length with
       | .ok l => l.isEmpty | .error _ => true)) ∧
    ((itemsAt cfg cx.content (A0.length + 1) (A0.length + 1 + e.length)).isEmpty = true →
      (isTrue (evalText (specOf cx) [] e 34) == some true) = false) ∧
    ((itemsAt cfg cx.content (A0.length + 1) (A0.length + 1 + e.length)).isEmpty = false →
      ∃ v, evalExprs cx st (itemsAt cfg cx.content (A0.length + 1) (A0.length + 1 + e.length)) = .ok v ∧
        (truth v == some true) = (isTrue (evalText (specOf cx) [] e 34) == some true)) := by
  obtain ⟨items0, hitems0⟩ := Qentem.Expr.parseTop_total ({ readNum := cfg.readNum } : ScanCfg R) (e ++ [34]) 0 e.length (by simp)
  obtain ⟨items', hex, hrel⟩ := exprs_quoted cfg cx.content A0 e post hc hp items0 hitems0
  have hreloc := reloc_quoted cx.content A0 e post hc
  have hitems : itemsAt cfg cx.content (A0.length + 1) (A0.length + 1 + e.length) = items' := by
    simp only [itemsAt, hex]
  rw [hitems]
  rw [hrn] at hitems0
  have hspec := evalText_eqT cx e 34 items0 hitems0
  have hemp := hrel.isEmpty
  refine ⟨by rw [hitems0]; exact hemp.symm, ?_, ?_⟩
  · intro h
    rw [← hemp] at h
    simp only [hspec, h, if_true, isTrue]
    rfl
  · intro h
    rw [← hemp] at h
    simp only [h, Bool.false_eq_true, if_false] at hspec
    have hvars : itemsVars items' = [] := (vars_reloc _).1 _ _ (Nat.le_refl _) hrel
    have hre : ∀ lk, Qentem.Expr.RelEnv (specEnvT cx e 34)
        ({ content := cx.content, lookup := lk, readNum := cx.readNum } : Env R) (A0.length + 1) :=
      fun lk => ⟨rfl, hreloc.slice⟩
    have hlen : (specEnvT cx e 34).content.length = e.length + 1 := by simp [specEnvT]
    have hev := fun lk => Qentem.Expr.evaluateTop_reloc (hre lk) true items0 items' (by rw [hlen]; exact hrel)
    refine ⟨Qentem.Expr.evaluateTop (specEnvT cx e 34) true items0, ?_, ?_⟩
    · simp only [evalExprs, ← hemp, h, Bool.false_eq_true, if_false, hvars, resolveVars, bind, Except.bind,
        (hev _).1]
    · rw [hspec]
      cases hv : Qentem.Expr.evaluateTop (specEnvT cx e 34) true items0 with
      | none => rfl
      | some v => cases v <;> rfl

end

end Qentem.Tmpl
