import Qentem.Proofs.JsonGrammar
/-! C07, the "in particular" clause: a well-formed container document followed by a non-whitespace
unit is rejected (`trailing_rejected`), and every proper prefix of a well-formed container document
is rejected (`prefix_rejected`).  Same style as `Proofs/JsonGrammar.lean`: partial-correctness
statements about a run that returned `.ok r`, combined with `all_good` for existence. -/
namespace Qentem.Json

set_option linter.unusedSimpArgs false
set_option linter.unusedVariables false

def JDoc.isContainer : JDoc → Bool
  | .arr _ _ => true
  | .obj _ _ => true
  | _ => false

/-- string or numeral: the two documents whose reading is delegated to a sub-routine -/
def JDoc.isToken : JDoc → Bool
  | .num _ _ _ => true
  | .str _ _ => true
  | _ => false

theorem JDoc.isToken_of_container {doc : JDoc} (h : doc.isContainer = true) : doc.isToken = false := by
  cases doc <;> simp_all [JDoc.isContainer, JDoc.isToken]

def JDoc.isNum : JDoc → Bool
  | .num _ _ _ => true
  | _ => false

/-! ## Part 1: what follows a value that is not a numeral does not matter -/

/-- `parseValue_print` without the `FollowOK` hypothesis: only a numeral token looks at the unit
that follows it (a digit would extend it); keywords, strings and containers end at their own last
unit whatever comes next. -/
theorem parseValue_print_nf (d : Deps) (doc : JDoc) (c : Array Nat) (fuel o : Nat) (r : JVal × Nat)
    (hsz : c.size < 2 ^ 32) (hwf : WF d doc) (hat : At c o doc.print)
    (hf : doc.isNum = true → FollowOK c (o + doc.print.length)) (h : parseValue d c fuel o = .ok r) :
    r = (doc.denote, o + doc.print.length) := by
  cases doc with
  | num tok kind bits => exact parseValue_print d _ c fuel o r hsz hwf hat (hf rfl) h
  | arr ws0 items =>
    obtain ⟨hws0, hitems⟩ := hwf
    simp only [JDoc.print] at hat
    obtain ⟨hlt, hc, hat1⟩ := At.cons (by simpa using hat)
    cases fuel with
    | zero => simp [parseValue] at h
    | succ fuel =>
      unfold parseValue at h
      simp only [show ¬ o ≥ c.size by omega, ↓reduceIte, rd_ok c o hlt, bind, Except.bind, hc, cSCurly, cSSquare,
        Nat.reduceEqDiff] at h
      cases fuel with
      | zero => simp [parseArray, throw, throwThe, MonadExceptOf.throw] at h
      | succ fuel =>
        unfold parseArray at h
        simp only [] at h
        cases items with
        | nil =>
          simp only [printItems, List.append_nil] at hat1
          obtain ⟨ht, hat2⟩ := trim_then hws0 (by decide) (x := 93) (t := []) (by simpa using hat1)
          obtain ⟨hlt2, hc2, _⟩ := At.cons hat2
          rw [ht] at h
          simp only [show ¬ o + 1 + ws0.length ≥ c.size by omega, ↓reduceIte, rd_ok c _ hlt2, bind, Except.bind, hc2] at h
          simp only [cESquare, ne_eq, not_true_eq_false, ↓reduceIte] at h
          rw [← ok_inj h]
          simp [JDoc.denote, denoteItems, JDoc.print, printItems]; omega
        | cons i rest =>
          obtain ⟨wsB, doc, wsA⟩ := i
          obtain ⟨x, xs, hx, hxd⟩ := print_head d doc hitems.2.1
          have hat1' : At c (o + 1) (ws0 ++ x :: (xs ++ wsA ++ printItems rest false ++ [93])) := by
            simpa [printItems, hx] using hat1
          obtain ⟨ht, hat2⟩ := trim_then hws0 (isDelim_ws hxd) hat1'
          obtain ⟨hlt2, hc2, _⟩ := At.cons hat2
          rw [ht] at h
          have hx93 : ¬ x = 93 := by intro e; subst e; revert hxd; decide
          simp only [show ¬ o + 1 + ws0.length ≥ c.size by omega, ↓reduceIte, rd_ok c _ hlt2, bind, Except.bind, hc2] at h
          simp only [cESquare, ne_eq, hx93, not_false_eq_true, ↓reduceIte] at h
          have hat3 : At c (o + 1 + ws0.length) (printItems ((wsB, doc, wsA) :: rest) true ++ [93]) := by
            simpa [printItems, hx] using hat2
          have := arrLoop_print d ((wsB, doc, wsA) :: rest) c fuel (o + 1 + ws0.length) [] r hsz (by simp) hitems hat3 h
          rw [this]
          simp [JDoc.denote, JDoc.print]; omega
  | obj ws0 ms =>
    obtain ⟨hws0, hms⟩ := hwf
    simp only [JDoc.print] at hat
    obtain ⟨hlt, hc, hat1⟩ := At.cons (by simpa using hat)
    cases fuel with
    | zero => simp [parseValue, throw, throwThe, MonadExceptOf.throw] at h
    | succ fuel =>
      unfold parseValue at h
      simp only [show ¬ o ≥ c.size by omega, ↓reduceIte, rd_ok c o hlt, bind, Except.bind, hc, cSCurly, cSSquare,
        Nat.reduceEqDiff] at h
      cases fuel with
      | zero => simp [parseObject, throw, throwThe, MonadExceptOf.throw] at h
      | succ fuel =>
        unfold parseObject at h
        simp only [] at h
        cases ms with
        | nil =>
          simp only [printMembers] at hat1
          obtain ⟨ht, hat2⟩ := trim_then hws0 (by decide) (x := 125) (t := []) (by simpa using hat1)
          obtain ⟨hlt2, hc2, _⟩ := At.cons hat2
          rw [ht] at h
          simp only [show ¬ o + 1 + ws0.length ≥ c.size by omega, ↓reduceIte, rd_ok c _ hlt2, bind, Except.bind, hc2] at h
          simp only [cECurly, ne_eq, not_true_eq_false, ↓reduceIte] at h
          rw [← ok_inj h]
          simp [JDoc.denote, denoteMembers, JDoc.print, printMembers]; omega
        | cons m rest =>
          obtain ⟨wsB, kbody, ktext, ws1, ws2, doc, wsA⟩ := m
          have hat1' : At c (o + 1) (ws0 ++ 34 :: (kbody ++ [34] ++ ws1 ++ [58] ++ ws2 ++ doc.print ++ wsA ++ printMembers rest false ++ [125])) := by
            simpa [printMembers] using hat1
          obtain ⟨ht, hat2⟩ := trim_then hws0 (by decide) hat1'
          obtain ⟨hlt2, hc2, _⟩ := At.cons hat2
          rw [ht] at h
          simp only [show ¬ o + 1 + ws0.length ≥ c.size by omega, ↓reduceIte, rd_ok c _ hlt2, bind, Except.bind, hc2] at h
          simp only [cECurly, ne_eq, Nat.reduceEqDiff, not_false_eq_true, ↓reduceIte] at h
          have hat3 : At c (o + 1 + ws0.length) (printMembers ((wsB, kbody, ktext, ws1, ws2, doc, wsA) :: rest) true ++ [125]) := by
            simpa [printMembers] using hat2
          have := objLoop_print d ((wsB, kbody, ktext, ws1, ws2, doc, wsA) :: rest) c fuel (o + 1 + ws0.length) [] r hsz (by simp) hms hat3 h
          rw [this]
          simp [JDoc.denote, JDoc.print]; omega
  | null =>
    simp only [JDoc.print] at hat
    obtain ⟨hlt, hc, hat1⟩ := At.cons hat
    cases fuel with
    | zero => simp [parseValue, throw, throwThe, MonadExceptOf.throw] at h
    | succ fuel =>
      unfold parseValue at h
      simp only [show ¬ o ≥ c.size by omega, ↓reduceIte, rd_ok c o hlt, bind, Except.bind, hc, cSCurly, cSSquare, cQuote,
        Nat.reduceEqDiff] at h
      rw [matchKeyword_at c nullTail (o + 1) hat1] at h
      simp only [List.isEmpty_nil, ↓reduceIte] at h
      rw [← ok_inj h]
      simp [JDoc.denote, JDoc.print, nullTail]
  | tru =>
    simp only [JDoc.print] at hat
    obtain ⟨hlt, hc, hat1⟩ := At.cons hat
    cases fuel with
    | zero => simp [parseValue, throw, throwThe, MonadExceptOf.throw] at h
    | succ fuel =>
      unfold parseValue at h
      simp only [show ¬ o ≥ c.size by omega, ↓reduceIte, rd_ok c o hlt, bind, Except.bind, hc, cSCurly, cSSquare, cQuote,
        Nat.reduceEqDiff] at h
      rw [matchKeyword_at c trueTail (o + 1) hat1] at h
      simp only [List.isEmpty_nil, ↓reduceIte] at h
      rw [← ok_inj h]
      simp [JDoc.denote, JDoc.print, trueTail]
  | fals =>
    simp only [JDoc.print] at hat
    obtain ⟨hlt, hc, hat1⟩ := At.cons hat
    cases fuel with
    | zero => simp [parseValue, throw, throwThe, MonadExceptOf.throw] at h
    | succ fuel =>
      unfold parseValue at h
      simp only [show ¬ o ≥ c.size by omega, ↓reduceIte, rd_ok c o hlt, bind, Except.bind, hc, cSCurly, cSSquare, cQuote,
        Nat.reduceEqDiff] at h
      rw [matchKeyword_at c falseTail (o + 1) hat1] at h
      simp only [List.isEmpty_nil, ↓reduceIte] at h
      rw [← ok_inj h]
      simp [JDoc.denote, JDoc.print, falseTail]
  | str body text =>
    simp only [JDoc.print] at hat
    obtain ⟨hlt, hc, hat1⟩ := At.cons (by simpa using hat)
    obtain ⟨stream, hu, hs⟩ := hwf c (o + 1) hat1
    cases fuel with
    | zero => simp [parseValue, throw, throwThe, MonadExceptOf.throw] at h
    | succ fuel =>
      unfold parseValue at h
      simp only [show ¬ o ≥ c.size by omega, ↓reduceIte, rd_ok c o hlt, bind, Except.bind, hc, cSCurly, cSSquare, cQuote,
        Nat.reduceEqDiff, hu] at h
      simp only [show body.length + 1 ≠ 0 by omega, ne_eq, not_false_eq_true, ↓reduceIte, hs] at h
      rw [← ok_inj h]
      simp [JDoc.denote, JDoc.print]; omega

/-- C07, trailing garbage: a well-formed document — surrounded by any whitespace — followed by a
unit `x` that is not whitespace (and then anything) is rejected.  For a numeral at top level the
following unit must not be able to extend the token (`12` + `3` is the document `123`): there must
be whitespace in between or `x` must be a delimiter; for every other document — all containers,
strings, keywords — there is no side condition. -/
theorem trailing_rejected (d : Deps) (hd : DepsSafe d) (doc : JDoc) (hwf : WF d doc) (wsL wsR : Ws)
    (hL : AllWs wsL) (hR : AllWs wsR) (x : Nat) (t : List Nat) (hx : isWs x = false)
    (hok : doc.isNum = false ∨ wsR ≠ [] ∨ isDelim x = true)
    (hsz0 : (wsL ++ doc.print ++ wsR ++ x :: t).length < 2 ^ 32) :
    parse d (wsL ++ doc.print ++ wsR ++ x :: t).toArray = .ok .undef := by
  obtain ⟨y, ys, hy, hyd⟩ := print_head d doc hwf
  generalize hc : (wsL ++ doc.print ++ wsR ++ x :: t).toArray = c
  have hsz : c.size = wsL.length + doc.print.length + wsR.length + (t.length + 1) := by
    rw [← hc]; simp; omega
  have hsz' : c.size < 2 ^ 32 := by rw [← hc, List.size_toArray]; exact hsz0
  have hat0 : At c 0 (wsL ++ y :: (ys ++ wsR ++ x :: t)) := by
    rw [← hc]; unfold At; simp [hy]
  obtain ⟨ht, hat1⟩ := trim_then hL (isDelim_ws hyd) hat0
  have hat2 : At c (0 + wsL.length) (doc.print ++ (wsR ++ x :: t)) := by simpa [hy] using hat1
  obtain ⟨hatd, hatR⟩ := At.append hat2
  have hfollow : doc.isNum = true → FollowOK c (0 + wsL.length + doc.print.length) := by
    intro hn
    rcases hok with h1 | h2 | h3
    · rw [hn] at h1; cases h1
    · cases wsR with
      | nil => exact absurd rfl h2
      | cons w ws => exact followOK_of_at hatR (by simp [isDelim, hR w (by simp)])
    · exact followOK_ws_or hR h3 hatR
  unfold parse
  have hne : ¬ c.size = 0 := by rw [hsz]; omega
  simp only [hne, ↓reduceIte, ht]
  obtain ⟨v, o', hv, _, _, _⟩ := (all_good d hd c hsz' (fuelFor c)).1 (0 + wsL.length)
    (by rw [hsz]; omega) (by unfold needV fuelFor; omega)
  have := parseValue_print_nf d doc c _ _ _ hsz' hwf hatd hfollow hv
  rw [hv]
  simp only [bind, Except.bind]
  injection this with hv1 ho1
  subst hv1; subst ho1
  obtain ⟨ht2, hat3⟩ := trim_then hR hx hatR
  rw [ht2]
  have : ¬ (0 + wsL.length + doc.print.length + wsR.length = c.size) := by rw [hsz]; omega
  rw [if_neg this]
  rfl

/-! ## Part 2: proper prefixes -/

/-- What is left of the buffer from `o` on is a proper prefix of `l` (the text `l` was cut by the
end of the buffer). -/
def Cut (c : Array Nat) (o : Nat) (l : List Nat) : Prop :=
  o ≤ c.size ∧ c.toList.drop o <+: l ∧ c.size - o < l.length

theorem Cut.nil {c : Array Nat} {o : Nat} : ¬ Cut c o [] := by
  intro h; have := h.2.2; simp at this

theorem Cut.of_end {c : Array Nat} {o : Nat} {l : List Nat} (ho : o = c.size) (hl : l ≠ []) : Cut c o l := by
  subst ho
  refine ⟨Nat.le_refl _, ?_, ?_⟩
  · rw [List.drop_eq_nil_of_le (by simp)]; exact List.nil_prefix
  · have := List.length_pos_iff.mpr hl; omega

theorem Cut.cons {c : Array Nat} {o x : Nat} {l : List Nat} (h : Cut c o (x :: l)) :
    o = c.size ∨ ∃ hlt : o < c.size, c[o] = x ∧ Cut c (o + 1) l := by
  obtain ⟨hle, hp, hlen⟩ := h
  rcases Nat.lt_or_ge o c.size with hlt | hge
  · right
    refine ⟨hlt, ?_⟩
    have e : c.toList.drop o = c[o] :: c.toList.drop (o + 1) := by
      rw [List.drop_eq_getElem_cons (by simpa using hlt)]; simp
    rw [e] at hp
    have := List.cons_prefix_cons.1 hp
    refine ⟨this.1, by omega, this.2, ?_⟩
    simp at hlen ⊢; omega
  · left; omega

theorem Cut.append {c : Array Nat} {o : Nat} {a b : List Nat} (h : Cut c o (a ++ b)) :
    Cut c o a ∨ (At c o a ∧ Cut c (o + a.length) b) := by
  obtain ⟨hle, hp, hlen⟩ := h
  have hsl : (c.toList.drop o).length = c.size - o := by simp
  rcases Nat.lt_or_ge (c.size - o) a.length with hlt | hge
  · left
    refine ⟨hle, ?_, hlt⟩
    exact List.prefix_of_prefix_length_le hp (List.prefix_append a b) (by rw [hsl]; omega)
  · right
    have hpa : a <+: c.toList.drop o :=
      List.prefix_of_prefix_length_le (List.prefix_append a b) hp (by rw [hsl]; omega)
    refine ⟨hpa, by omega, ?_, ?_⟩
    · obtain ⟨s', hs'⟩ := hpa
      have e : c.toList.drop (o + a.length) = s' := by
        have : c.toList.drop (o + a.length) = (c.toList.drop o).drop a.length := by simp [List.drop_drop]
        rw [this, ← hs']; simp
      rw [e]
      rw [← hs'] at hp
      exact (List.prefix_append_right_inj a).1 hp
    · simp at hlen; omega

theorem trimLeft_end' (c : Array Nat) (o : Nat) (h : o ≥ c.size) : trimLeft c o = o := by
  unfold trimLeft; simp [show ¬ o < c.size by omega]

theorem trimLeft_size (c : Array Nat) : trimLeft c c.size = c.size := trimLeft_end' c c.size (Nat.le_refl _)

/-- `TrimLeft` over a whitespace run that may be cut by the end of the buffer: it stops at the end
of the buffer or at the first unit after the run; either way what is left is a cut of the rest. -/
theorem trimLeft_cut (c : Array Nat) : ∀ (ws : List Nat) (o x : Nat) (t : List Nat), AllWs ws → isWs x = false →
    Cut c o (ws ++ x :: t) → Cut c (trimLeft c o) (x :: t)
  | [], o, x, t, _, hx, h => by
    rcases Cut.cons (by simpa using h) with he | ⟨hlt, hc, h'⟩
    · rw [trimLeft_end' c o (by omega)]; exact Cut.of_end he (by simp)
    · have : trimLeft c o = o := by unfold trimLeft; simp [hlt, hc, hx]
      rw [this]; simpa using h
  | w :: ws, o, x, t, hws, hx, h => by
    rcases Cut.cons (by simpa using h) with he | ⟨hlt, hc, h'⟩
    · rw [trimLeft_end' c o (by omega)]; exact Cut.of_end he (by simp)
    · have hw : isWs w = true := hws w (by simp)
      have : trimLeft c o = trimLeft c (o + 1) := by
        rw [trimLeft]; simp only [hlt, hc, hw, ↓reduceDIte, ↓reduceIte]
      rw [this]
      exact trimLeft_cut c ws (o + 1) x t (fun y hy => hws y (by simp [hy])) hx h'

/-- What follows a value whose continuation was cut: the end of the buffer, whitespace or the
delimiter that the continuation starts with. -/
theorem followOK_cut {c : Array Nat} {p : Nat} {ws : Ws} {x : Nat} {t : List Nat} (hws : AllWs ws) (hx : isDelim x = true)
    (h : Cut c p (ws ++ x :: t)) : FollowOK c p := by
  cases ws with
  | nil =>
    rcases Cut.cons (by simpa using h) with he | ⟨hlt, hc, _⟩
    · exact Or.inl he
    · exact Or.inr ⟨hlt, by rw [hc]; exact hx⟩
  | cons w ws =>
    rcases Cut.cons (by simpa using h) with he | ⟨hlt, hc, _⟩
    · exact Or.inl he
    · exact Or.inr ⟨hlt, by rw [hc]; simp [isDelim, hws w (by simp)]⟩

theorem matchKeyword_cut (c : Array Nat) : ∀ (ks : List Nat) (o : Nat), Cut c o ks → (matchKeyword c o ks).2.isEmpty = false
  | [], o, h => absurd h Cut.nil
  | k :: ks, o, h => by
    unfold matchKeyword
    rcases Cut.cons h with he | ⟨hlt, hc, h'⟩
    · simp [show ¬ o < c.size by omega]
    · simp only [hlt, hc, ↓reduceDIte, ↓reduceIte]
      exact matchKeyword_cut c ks (o + 1) h'

/-! ### runs that start at the end of the buffer -/

theorem parseValue_end (d : Deps) (c : Array Nat) (fuel o : Nat) (r : JVal × Nat) (ho : o ≥ c.size)
    (h : parseValue d c fuel o = .ok r) : r = (.undef, c.size) := by
  cases fuel with
  | zero => simp [parseValue, throw, throwThe, MonadExceptOf.throw] at h
  | succ fuel =>
    unfold parseValue at h
    simp only [ho, ↓reduceIte] at h
    exact (ok_inj h).symm

theorem arrLoop_end (d : Deps) (c : Array Nat) (fuel o : Nat) (acc : List JVal) (r : JVal × Nat) (ho : o ≥ c.size)
    (h : arrLoop d c fuel o acc = .ok r) : r = (.undef, c.size) := by
  cases fuel with
  | zero => simp [arrLoop, throw, throwThe, MonadExceptOf.throw] at h
  | succ fuel =>
    unfold arrLoop at h
    simp only [ho, ↓reduceIte] at h
    exact (ok_inj h).symm

theorem objLoop_end (d : Deps) (c : Array Nat) (fuel o : Nat) (acc : List (List Nat × JVal)) (r : JVal × Nat) (ho : o ≥ c.size)
    (h : objLoop d c fuel o acc = .ok r) : r = (.undef, c.size) := by
  cases fuel with
  | zero => simp [objLoop, throw, throwThe, MonadExceptOf.throw] at h
  | succ fuel =>
    unfold objLoop at h
    simp only [ho, ↓reduceIte] at h
    exact (ok_inj h).symm

/-! ### truncation contracts of the two sub-routines -/

/-- Contract of `UnEscape` for a string body cut by the end of the buffer (any proper prefix of
`body ++ "`, the empty one included): the routine rejects it (returns 0) or consumes everything
up to the end of the buffer — the caller then stands at the end of the input and fails. -/
def StrTrunc (d : Deps) (body : List Nat) : Prop :=
  ∀ (c : Array Nat) (o : Nat), Cut c o (body ++ [34]) →
    ∃ r s, d.unEscape c o (c.size - o) = .ok (r, s) ∧ (r = 0 ∨ r = c.size - o)

/-- Contract of `StringToNumber` for a numeral cut by the end of the buffer (a non-empty proper
prefix): not a number, or a number that ends at the end of the buffer. -/
def NumTrunc (d : Deps) (tok : List Nat) : Prop :=
  ∀ (c : Array Nat) (o : Nat), c.size < 2 ^ 32 → o < c.size → Cut c o tok →
    ∃ r, d.strToNum c o c.size = .ok r ∧ (r.kind = .notANumber ∨ r.newOffset = c.size)

mutual
/-- Truncation-safe document: every string body (member names too) and every numeral meets the
truncation contract of the sub-routine that reads it. -/
def TS (d : Deps) : JDoc → Prop
  | .num tok _ _ => NumTrunc d tok
  | .str body _ => StrTrunc d body
  | .arr _ items => TSItems d items
  | .obj _ ms => TSMembers d ms
  | _ => True
def TSItems (d : Deps) : List (Ws × JDoc × Ws) → Prop
  | [] => True
  | (_, doc, _) :: rest => TS d doc ∧ TSItems d rest
def TSMembers (d : Deps) : List (Ws × List Nat × List Nat × Ws × Ws × JDoc × Ws) → Prop
  | [] => True
  | (_, kbody, _, _, _, doc, _) :: rest => StrTrunc d kbody ∧ TS d doc ∧ TSMembers d rest
end

/-- Well-formed and truncation-safe. -/
def WFT (d : Deps) (doc : JDoc) : Prop := WF d doc ∧ TS d doc

/-! ### the mutual induction -/

theorem printItems_cons_true (wsB : Ws) (doc : JDoc) (wsA : Ws) (rest : List (Ws × JDoc × Ws)) :
    printItems ((wsB, doc, wsA) :: rest) true ++ [93] = doc.print ++ (wsA ++ (printItems rest false ++ [93])) := by
  simp [printItems]

theorem printMembers_cons_true (wsB : Ws) (kbody ktext : List Nat) (ws1 ws2 : Ws) (doc : JDoc) (wsA : Ws)
    (rest : List (Ws × List Nat × List Nat × Ws × Ws × JDoc × Ws)) :
    printMembers ((wsB, kbody, ktext, ws1, ws2, doc, wsA) :: rest) true ++ [125] =
      34 :: ((kbody ++ [34]) ++ (ws1 ++ 58 :: (ws2 ++ (doc.print ++ (wsA ++ (printMembers rest false ++ [125])))))) := by
  simp [printMembers]

theorem print_arr (ws0 : Ws) (items : List (Ws × JDoc × Ws)) :
    (JDoc.arr ws0 items).print = 91 :: (ws0 ++ (printItems items true ++ [93])) := by
  simp [JDoc.print]

theorem print_obj (ws0 : Ws) (ms : List (Ws × List Nat × List Nat × Ws × Ws × JDoc × Ws)) :
    (JDoc.obj ws0 ms).print = 123 :: (ws0 ++ (printMembers ms true ++ [125])) := by
  simp [JDoc.print]

theorem undef_end {n : Nat} {r : JVal × Nat} (h : (pure (JVal.undef, n) : M (JVal × Nat)) = .ok r) : r = (.undef, n) :=
  (ok_inj h).symm

mutual
/-- A value whose text was cut by the end of the buffer: the sub-parse ends at the end of the
buffer (so the enclosing loop fails), and a container (or keyword) is Undefined. -/
theorem parseValue_cut (d : Deps) : ∀ (doc : JDoc) (c : Array Nat) (fuel o : Nat) (r : JVal × Nat), c.size < 2 ^ 32 →
    WF d doc → TS d doc → Cut c o doc.print → parseValue d c fuel o = .ok r →
    r.2 = c.size ∧ (doc.isToken = false → r.1 = .undef)
  | .arr ws0 items, c, fuel, o, r, hsz, hwf, hts, hcut, h => by
    obtain ⟨hws0, hitems⟩ := hwf
    rw [print_arr] at hcut
    rcases Cut.cons hcut with he | ⟨hlt, hc, hcut1⟩
    · rw [parseValue_end d c fuel o r (by omega) h]; simp
    cases fuel with
    | zero => simp [parseValue] at h
    | succ fuel =>
      unfold parseValue at h
      simp only [show ¬ o ≥ c.size by omega, ↓reduceIte, rd_ok c o hlt, bind, Except.bind, hc, cSCurly, cSSquare,
        Nat.reduceEqDiff] at h
      cases fuel with
      | zero => simp [parseArray, throw, throwThe, MonadExceptOf.throw] at h
      | succ fuel =>
        unfold parseArray at h
        simp only [] at h
        cases items with
        | nil =>
          have hcut2 : Cut c (trimLeft c (o + 1)) [93] :=
            trimLeft_cut c ws0 (o + 1) 93 [] hws0 (by decide) (by simpa [printItems] using hcut1)
          generalize trimLeft c (o + 1) = T at h hcut2
          rcases Cut.cons hcut2 with he | ⟨hlt2, hc2, hcut3⟩
          · simp only [show T ≥ c.size by omega, ↓reduceIte] at h
            rw [arrLoop_end d c fuel T [] r (by omega) h]; simp
          · exact absurd hcut3 Cut.nil
        | cons i rest =>
          obtain ⟨wsB, doc, wsA⟩ := i
          obtain ⟨x, xs, hx, hxd⟩ := print_head d doc hitems.2.1
          have e : printItems ((wsB, doc, wsA) :: rest) true ++ [93] = x :: (xs ++ (wsA ++ (printItems rest false ++ [93]))) := by
            rw [printItems_cons_true, hx]; simp
          rw [e] at hcut1
          have hcut2 := trimLeft_cut c ws0 (o + 1) x _ hws0 (isDelim_ws hxd) hcut1
          generalize trimLeft c (o + 1) = T at h hcut2
          have key : arrLoop d c fuel T [] = .ok r → r = (.undef, c.size) := fun h' =>
            arrLoop_cut d ((wsB, doc, wsA) :: rest) c fuel T [] r hsz (by simp) hitems hts (by rw [e]; exact hcut2) h'
          rcases Cut.cons hcut2 with he | ⟨hlt2, hc2, _⟩
          · simp only [show T ≥ c.size by omega, ↓reduceIte] at h
            rw [key h]; simp
          · have hx93 : ¬ x = 93 := by intro e; subst e; revert hxd; decide
            simp only [show ¬ T ≥ c.size by omega, ↓reduceIte, rd_ok c _ hlt2, bind, Except.bind, hc2] at h
            simp only [cESquare, ne_eq, hx93, not_false_eq_true, ↓reduceIte] at h
            rw [key h]; simp
  | .obj ws0 ms, c, fuel, o, r, hsz, hwf, hts, hcut, h => by
    obtain ⟨hws0, hms⟩ := hwf
    rw [print_obj] at hcut
    rcases Cut.cons hcut with he | ⟨hlt, hc, hcut1⟩
    · rw [parseValue_end d c fuel o r (by omega) h]; simp
    cases fuel with
    | zero => simp [parseValue] at h
    | succ fuel =>
      unfold parseValue at h
      simp only [show ¬ o ≥ c.size by omega, ↓reduceIte, rd_ok c o hlt, bind, Except.bind, hc, cSCurly, cSSquare,
        Nat.reduceEqDiff] at h
      cases fuel with
      | zero => simp [parseObject, throw, throwThe, MonadExceptOf.throw] at h
      | succ fuel =>
        unfold parseObject at h
        simp only [] at h
        cases ms with
        | nil =>
          have hcut2 : Cut c (trimLeft c (o + 1)) [125] :=
            trimLeft_cut c ws0 (o + 1) 125 [] hws0 (by decide) (by simpa [printMembers] using hcut1)
          generalize trimLeft c (o + 1) = T at h hcut2
          rcases Cut.cons hcut2 with he | ⟨hlt2, hc2, hcut3⟩
          · simp only [show T ≥ c.size by omega, ↓reduceIte] at h
            rw [objLoop_end d c fuel T [] r (by omega) h]; simp
          · exact absurd hcut3 Cut.nil
        | cons m rest =>
          obtain ⟨wsB, kbody, ktext, ws1, ws2, doc, wsA⟩ := m
          have e := printMembers_cons_true wsB kbody ktext ws1 ws2 doc wsA rest
          rw [e] at hcut1
          have hcut2 := trimLeft_cut c ws0 (o + 1) 34 _ hws0 (by decide) hcut1
          generalize trimLeft c (o + 1) = T at h hcut2
          have key : objLoop d c fuel T [] = .ok r → r = (.undef, c.size) := fun h' =>
            objLoop_cut d ((wsB, kbody, ktext, ws1, ws2, doc, wsA) :: rest) c fuel T [] r hsz (by simp) hms hts (by rw [e]; exact hcut2) h'
          rcases Cut.cons hcut2 with he | ⟨hlt2, hc2, _⟩
          · simp only [show T ≥ c.size by omega, ↓reduceIte] at h
            rw [key h]; simp
          · simp only [show ¬ T ≥ c.size by omega, ↓reduceIte, rd_ok c _ hlt2, bind, Except.bind, hc2] at h
            simp only [cECurly, ne_eq, Nat.reduceEqDiff, not_false_eq_true, ↓reduceIte] at h
            rw [key h]; simp
  | .null, c, fuel, o, r, _, _, _, hcut, h => by
    simp only [JDoc.print] at hcut
    rcases Cut.cons hcut with he | ⟨hlt, hc, hcut1⟩
    · rw [parseValue_end d c fuel o r (by omega) h]; simp
    cases fuel with
    | zero => simp [parseValue] at h
    | succ fuel =>
      unfold parseValue at h
      simp only [show ¬ o ≥ c.size by omega, ↓reduceIte, rd_ok c o hlt, bind, Except.bind, hc, cSCurly, cSSquare, cQuote,
        Nat.reduceEqDiff] at h
      have := matchKeyword_cut c nullTail (o + 1) hcut1
      simp only [this, Bool.false_eq_true, ↓reduceIte] at h
      rw [undef_end h]; simp [JDoc.isToken]
  | .tru, c, fuel, o, r, _, _, _, hcut, h => by
    simp only [JDoc.print] at hcut
    rcases Cut.cons hcut with he | ⟨hlt, hc, hcut1⟩
    · rw [parseValue_end d c fuel o r (by omega) h]; simp
    cases fuel with
    | zero => simp [parseValue] at h
    | succ fuel =>
      unfold parseValue at h
      simp only [show ¬ o ≥ c.size by omega, ↓reduceIte, rd_ok c o hlt, bind, Except.bind, hc, cSCurly, cSSquare, cQuote,
        Nat.reduceEqDiff] at h
      have := matchKeyword_cut c trueTail (o + 1) hcut1
      simp only [this, Bool.false_eq_true, ↓reduceIte] at h
      rw [undef_end h]; simp [JDoc.isToken]
  | .fals, c, fuel, o, r, _, _, _, hcut, h => by
    simp only [JDoc.print] at hcut
    rcases Cut.cons hcut with he | ⟨hlt, hc, hcut1⟩
    · rw [parseValue_end d c fuel o r (by omega) h]; simp
    cases fuel with
    | zero => simp [parseValue] at h
    | succ fuel =>
      unfold parseValue at h
      simp only [show ¬ o ≥ c.size by omega, ↓reduceIte, rd_ok c o hlt, bind, Except.bind, hc, cSCurly, cSSquare, cQuote,
        Nat.reduceEqDiff] at h
      have := matchKeyword_cut c falseTail (o + 1) hcut1
      simp only [this, Bool.false_eq_true, ↓reduceIte] at h
      rw [undef_end h]; simp [JDoc.isToken]
  | .num tok kind bits, c, fuel, o, r, hsz, hwf, hts, hcut, h => by
    obtain ⟨hk, ⟨x, xs, htok, h1, h2, h3, h4, h5, h6, _⟩, _⟩ := hwf
    simp only [JDoc.print] at hcut
    by_cases ho : o ≥ c.size
    · rw [parseValue_end d c fuel o r ho h]; simp
    have hlt : o < c.size := by omega
    obtain ⟨nr, hnr, hnr2⟩ := hts c o hsz hlt hcut
    rcases Cut.cons (by rw [htok] at hcut; exact hcut) with he | ⟨_, hc, _⟩
    · omega
    cases fuel with
    | zero => simp [parseValue] at h
    | succ fuel =>
      unfold parseValue at h
      simp only [ho, ↓reduceIte, rd_ok c o hlt, bind, Except.bind, hc, cSCurly, cSSquare, cQuote,
        h1, h2, h3, h4, h5, h6, hnr] at h
      refine ⟨?_, by simp [JDoc.isToken]⟩
      cases hkind : nr.kind with
      | notANumber => rw [hkind] at h; simp only [] at h; rw [undef_end h]
      | natural => rw [hkind] at h hnr2; simp only [] at h; rw [← ok_inj h]; simpa using hnr2
      | integer => rw [hkind] at h hnr2; simp only [] at h; rw [← ok_inj h]; simpa using hnr2
      | real => rw [hkind] at h hnr2; simp only [] at h; rw [← ok_inj h]; simpa using hnr2
  | .str body text, c, fuel, o, r, _, hwf, hts, hcut, h => by
    simp only [JDoc.print] at hcut
    rcases Cut.cons (by simpa using hcut) with he | ⟨hlt, hc, hcut1⟩
    · rw [parseValue_end d c fuel o r (by omega) h]; simp
    obtain ⟨len, stream, hu, hlen⟩ := hts c (o + 1) hcut1
    cases fuel with
    | zero => simp [parseValue] at h
    | succ fuel =>
      unfold parseValue at h
      simp only [show ¬ o ≥ c.size by omega, ↓reduceIte, rd_ok c o hlt, bind, Except.bind, hc, cSCurly, cSSquare, cQuote,
        Nat.reduceEqDiff, hu] at h
      refine ⟨?_, by simp [JDoc.isToken]⟩
      by_cases hl0 : len = 0
      · simp only [hl0, ne_eq, not_true_eq_false, ↓reduceIte] at h
        rw [undef_end h]
      · simp only [hl0, ne_eq, not_false_eq_true, ↓reduceIte] at h
        rw [← ok_inj h]
        simp only []
        omega
/-- The array loop on items whose text was cut: Undefined, cursor at the end. -/
theorem arrLoop_cut (d : Deps) : ∀ (items : List (Ws × JDoc × Ws)) (c : Array Nat) (fuel o : Nat) (acc : List JVal) (r : JVal × Nat),
    c.size < 2 ^ 32 → items ≠ [] → WFItems d items → TSItems d items → Cut c o (printItems items true ++ [93]) →
    arrLoop d c fuel o acc = .ok r → r = (.undef, c.size)
  | [], c, fuel, o, acc, r, _, hne, _, _, _, h => absurd rfl hne
  | (wsB, doc, wsA) :: rest, c, fuel, o, acc, r, hsz, _, hwf, hts, hcut, h => by
    obtain ⟨_, hdoc, hwsA, hrest⟩ := hwf
    obtain ⟨htsd, htsr⟩ := hts
    by_cases ho : o ≥ c.size
    · exact arrLoop_end d c fuel o acc r ho h
    rw [printItems_cons_true] at hcut
    obtain ⟨y, t, hy, hyd, hyw, hyn, hyc⟩ := tail_head_items rest 93 rfl
    rw [hy] at hcut
    cases fuel with
    | zero => simp [arrLoop, throw, throwThe, MonadExceptOf.throw] at h
    | succ fuel =>
      unfold arrLoop at h
      simp only [ho, ↓reduceIte] at h
      cases hv : parseValue d c fuel o with
      | error e => rw [hv] at h; simp [bind, Except.bind] at h
      | ok r1 =>
        rw [hv] at h
        simp only [bind, Except.bind] at h
        rcases Cut.append hcut with hc1 | ⟨hatd, hc2⟩
        · have hend := (parseValue_cut d doc c fuel o r1 hsz hdoc htsd hc1 hv).1
          rw [hend, trimLeft_size] at h
          simp only [ge_iff_le, Nat.le_refl, ↓reduceIte] at h
          exact undef_end h
        · have hfollow := followOK_cut hwsA hyd hc2
          have hr1 := parseValue_print d doc c fuel o r1 hsz hdoc hatd hfollow hv
          subst hr1
          simp only [] at h
          have hc3 := trimLeft_cut c wsA _ y t hwsA hyw hc2
          generalize trimLeft c (o + doc.print.length) = T at h hc3
          rcases Cut.cons hc3 with he | ⟨hlt2, hcy, hc4⟩
          · simp only [show T ≥ c.size by omega, ↓reduceIte] at h
            exact undef_end h
          · simp only [show ¬ T ≥ c.size by omega, ↓reduceIte, rd_ok c _ hlt2, hcy] at h
            cases rest with
            | nil =>
              have ht : t = [] := by simp [printItems] at hy; exact hy.2
              subst ht; exact absurd hc4 Cut.nil
            | cons i2 rest2 =>
              obtain ⟨wsB2, doc2, wsA2⟩ := i2
              have hy44 : y = 44 := hyc (by simp)
              subst hy44
              simp only [cComma, ↓reduceIte] at h
              rw [printItems_false] at hy
              have ht2 : t = wsB2 ++ (printItems ((wsB2, doc2, wsA2) :: rest2) true ++ [93]) := by
                simpa using hy.symm
              obtain ⟨x2, xs2, hx2, hxd2⟩ := print_head d doc2 hrest.2.1
              have e2 : printItems ((wsB2, doc2, wsA2) :: rest2) true ++ [93] =
                  x2 :: (xs2 ++ (wsA2 ++ (printItems rest2 false ++ [93]))) := by
                rw [printItems_cons_true, hx2]; simp
              rw [ht2, e2] at hc4
              have hc5 := trimLeft_cut c wsB2 _ x2 _ hrest.1 (isDelim_ws hxd2) hc4
              rw [← e2] at hc5
              exact arrLoop_cut d ((wsB2, doc2, wsA2) :: rest2) c fuel _ _ r hsz (by simp) hrest htsr hc5 h
/-- The object loop on members whose text was cut: Undefined, cursor at the end. -/
theorem objLoop_cut (d : Deps) : ∀ (ms : List (Ws × List Nat × List Nat × Ws × Ws × JDoc × Ws)) (c : Array Nat) (fuel o : Nat)
    (acc : List (List Nat × JVal)) (r : JVal × Nat),
    c.size < 2 ^ 32 → ms ≠ [] → WFMembers d ms → TSMembers d ms → Cut c o (printMembers ms true ++ [125]) →
    objLoop d c fuel o acc = .ok r → r = (.undef, c.size)
  | [], c, fuel, o, acc, r, _, hne, _, _, _, h => absurd rfl hne
  | (wsB, kbody, ktext, ws1, ws2, doc, wsA) :: rest, c, fuel, o, acc, r, hsz, _, hwf, hts, hcut, h => by
    obtain ⟨_, hkey, hws1, hws2, hdoc, hwsA, hrest⟩ := hwf
    obtain ⟨htsk, htsd, htsr⟩ := hts
    by_cases ho : o ≥ c.size
    · exact objLoop_end d c fuel o acc r ho h
    rw [printMembers_cons_true] at hcut
    rcases Cut.cons hcut with he | ⟨hlt, hc, hcutk⟩
    · omega
    obtain ⟨x, xs, hx, hxd⟩ := print_head d doc hdoc
    obtain ⟨y, t, hy, hyd, hyw, hyn, hyc⟩ := tail_head_members rest
    cases fuel with
    | zero => simp [objLoop, throw, throwThe, MonadExceptOf.throw] at h
    | succ fuel =>
      unfold objLoop at h
      simp only [ho, ↓reduceIte, rd_ok c o hlt, hc, bind, Except.bind, cQuote, ne_eq, not_true_eq_false] at h
      rcases Cut.append hcutk with hck | ⟨hatk, hcut1⟩
      · -- the member name was cut
        obtain ⟨len, stream, hu, hlen⟩ := htsk c (o + 1) hck
        rw [hu] at h
        simp only [] at h
        by_cases hl0 : len = 0
        · simp only [hl0, ↓reduceIte] at h
          exact undef_end h
        · have e1 : o + 1 + len = c.size := by omega
          simp only [hl0, ↓reduceIte, e1, trimLeft_size, ge_iff_le, Nat.le_refl] at h
          exact undef_end h
      · obtain ⟨stream, hu, hs⟩ := hkey c (o + 1) hatk
        rw [hu] at h
        simp only [show ¬ (kbody.length + 1 = 0) by omega, ↓reduceIte, hs] at h
        have e1 : o + 1 + (kbody.length + 1) = o + 1 + (kbody ++ [34]).length := by simp
        rw [e1] at h
        have hcut2 := trimLeft_cut c ws1 _ 58 _ hws1 (by decide) hcut1
        generalize trimLeft c (o + 1 + (kbody ++ [34]).length) = T1 at h hcut2
        rcases Cut.cons hcut2 with he | ⟨hlt1, hc1, hcut3⟩
        · simp only [show T1 ≥ c.size by omega, ↓reduceIte] at h
          exact undef_end h
        simp only [show ¬ T1 ≥ c.size by omega, ↓reduceIte, rd_ok c _ hlt1, hc1, cColon, not_true_eq_false] at h
        have hcut3' : Cut c (T1 + 1) (ws2 ++ x :: (xs ++ (wsA ++ (printMembers rest false ++ [125])))) := by
          rw [hx] at hcut3; simpa using hcut3
        have hcut4 := trimLeft_cut c ws2 _ x _ hws2 (isDelim_ws hxd) hcut3'
        generalize trimLeft c (T1 + 1) = T2 at h hcut4
        have hcut4' : Cut c T2 (doc.print ++ (wsA ++ (y :: t))) := by
          rw [hx, ← hy]; simpa using hcut4
        cases hv : parseValue d c fuel T2 with
        | error e => rw [hv] at h; simp at h
        | ok r1 =>
          rw [hv] at h
          simp only [] at h
          rcases Cut.append hcut4' with hcd | ⟨hatd, hcut5⟩
          · have hend := (parseValue_cut d doc c fuel T2 r1 hsz hdoc htsd hcd hv).1
            rw [hend, trimLeft_size] at h
            simp only [ge_iff_le, Nat.le_refl, ↓reduceIte] at h
            exact undef_end h
          · have hfollow := followOK_cut hwsA hyd hcut5
            have hr1 := parseValue_print d doc c fuel T2 r1 hsz hdoc hatd hfollow hv
            subst hr1
            simp only [] at h
            have hcut6 := trimLeft_cut c wsA _ y t hwsA hyw hcut5
            generalize trimLeft c (T2 + doc.print.length) = T3 at h hcut6
            rcases Cut.cons hcut6 with he | ⟨hlt3, hc3, hcut7⟩
            · simp only [show T3 ≥ c.size by omega, ↓reduceIte] at h
              exact undef_end h
            simp only [show ¬ T3 ≥ c.size by omega, ↓reduceIte, rd_ok c _ hlt3, hc3] at h
            cases rest with
            | nil =>
              have ht : t = [] := by simp [printMembers] at hy; exact hy.2
              subst ht; exact absurd hcut7 Cut.nil
            | cons m2 rest2 =>
              obtain ⟨wsB2, kbody2, ktext2, ws12, ws22, doc2, wsA2⟩ := m2
              have hy44 : y = 44 := hyc (by simp)
              subst hy44
              simp only [cComma, ↓reduceIte] at h
              rw [printMembers_false] at hy
              have ht2 : t = wsB2 ++ (printMembers ((wsB2, kbody2, ktext2, ws12, ws22, doc2, wsA2) :: rest2) true ++ [125]) := by
                simpa using hy.symm
              have e2 := printMembers_cons_true wsB2 kbody2 ktext2 ws12 ws22 doc2 wsA2 rest2
              rw [ht2, e2] at hcut7
              have hcut8 := trimLeft_cut c wsB2 _ 34 _ hrest.1 (by decide) hcut7
              rw [← e2] at hcut8
              exact objLoop_cut d ((wsB2, kbody2, ktext2, ws12, ws22, doc2, wsA2) :: rest2) c fuel _ _ r hsz (by simp) hrest htsr hcut8 h
end

/-- C07, truncation: every proper prefix of the text of a well-formed, truncation-safe document
that is not a bare string or numeral — every array, every object, the three keywords — is
rejected, with or without leading whitespace.  (A bare top-level string without its closing quote
is the recorded finding `toplevel-unterminated-string`; a proper prefix of a numeral can be a
numeral.) -/
theorem prefix_rejected (d : Deps) (hd : DepsSafe d) (doc : JDoc) (hwf : WF d doc) (hts : TS d doc)
    (hnt : doc.isToken = false) (wsL : Ws) (hL : AllWs wsL) (k : Nat) (hk : k < doc.print.length)
    (hsz0 : (wsL ++ doc.print.take k).length < 2 ^ 32) :
    parse d (wsL ++ doc.print.take k).toArray = .ok .undef := by
  obtain ⟨x, xs, hx, hxd⟩ := print_head d doc hwf
  generalize hc : (wsL ++ doc.print.take k).toArray = c
  have hsz : c.size = wsL.length + k := by
    rw [← hc]; simp; omega
  have hsz' : c.size < 2 ^ 32 := by rw [← hc, List.size_toArray]; exact hsz0
  have hcut0 : Cut c 0 (wsL ++ x :: xs) := by
    refine ⟨Nat.zero_le _, ?_, ?_⟩
    · rw [← hc, ← hx]; simp
      exact List.take_prefix _ _
    · rw [hsz, ← hx]; simp; omega
  have hcut1 := trimLeft_cut c wsL 0 x xs hL (isDelim_ws hxd) hcut0
  rw [← hx] at hcut1
  unfold parse
  simp only []
  split
  · rfl
  · generalize trimLeft c 0 = T at hcut1
    obtain ⟨v, o', hv, _, _, _⟩ := (all_good d hd c hsz' (fuelFor c)).1 T hcut1.1 (by unfold needV fuelFor; omega)
    obtain ⟨h1, h2⟩ := parseValue_cut d doc c _ T _ hsz' hwf hts hcut1 hv
    rw [hv]
    simp only [bind, Except.bind]
    simp only [] at h2
    rw [h2 hnt]
    split <;> rfl

/-- The headline form: proper prefixes of array and object documents. -/
theorem prefix_rejected_container (d : Deps) (hd : DepsSafe d) (doc : JDoc) (hwf : WF d doc) (hts : TS d doc)
    (hcont : doc.isContainer = true) (wsL : Ws) (hL : AllWs wsL) (k : Nat) (hk : k < doc.print.length)
    (hsz0 : (wsL ++ doc.print.take k).length < 2 ^ 32) :
    parse d (wsL ++ doc.print.take k).toArray = .ok .undef :=
  prefix_rejected d hd doc hwf hts (JDoc.isToken_of_container hcont) wsL hL k hk hsz0

end Qentem.Json
