import Qentem.Proofs.JsonGrammar
/-! C07, the "in particular" clause: a well-formed container document followed by a non-whitespace
unit is rejected (`trailing_rejected`), and every proper prefix of a well-formed container document
is rejected (`prefix_rejected`).  Same style as `Proofs/JsonGrammar.lean`: partial-correctness
statements about a run that returned `.ok r`, combined with `all_good` for existence. -/
namespace Qentem.Json

set_option linter.unusedSimpArgs false
set_option linter.unusedVariables false

def JDoc.isContainer : JDoc → Bool
  | .arr _ _ => true
  | .obj _ _ => true
  | _ => false

def JDoc.isNum : JDoc → Bool
  | .num _ _ _ => true
  | _ => false

/-! ## Part 1: what follows a value that is not a numeral does not matter -/

/-- `parseValue_print` without the `FollowOK` hypothesis: only a numeral token looks at the unit
that follows it (a digit would extend it); keywords, strings and containers end at their own last
unit whatever comes next. -/
theorem parseValue_print_nf (d : Deps) (doc : JDoc) (c : Array Nat) (fuel o : Nat) (r : JVal × Nat)
    (hsz : c.size < 2 ^ 32) (hwf : WF d doc) (hat : At c o doc.print)
    (hf : doc.isNum = true → FollowOK c (o + doc.print.length)) (h : parseValue d c fuel o = .ok r) :
    r = (doc.denote, o + doc.print.length) := by
  cases doc with
  | num tok kind bits => exact parseValue_print d _ c fuel o r hsz hwf hat (hf rfl) h
  | arr ws0 items =>
    obtain ⟨hws0, hitems⟩ := hwf
    simp only [JDoc.print] at hat
    obtain ⟨hlt, hc, hat1⟩ := At.cons (by simpa using hat)
    cases fuel with
    | zero => simp [parseValue] at h
    | succ fuel =>
      unfold parseValue at h
      simp only [show ¬ o ≥ c.size by omega, ↓reduceIte, rd_ok c o hlt, bind, Except.bind, hc, cSCurly, cSSquare,
        Nat.reduceEqDiff] at h
      cases fuel with
      | zero => simp [parseArray, throw, throwThe, MonadExceptOf.throw] at h
      | succ fuel =>
        unfold parseArray at h
        simp only [] at h
        cases items with
        | nil =>
          simp only [printItems, List.append_nil] at hat1
          obtain ⟨ht, hat2⟩ := trim_then hws0 (by decide) (x := 93) (t := []) (by simpa using hat1)
          obtain ⟨hlt2, hc2, _⟩ := At.cons hat2
          rw [ht] at h
          simp only [show ¬ o + 1 + ws0.length ≥ c.size by omega, ↓reduceIte, rd_ok c _ hlt2, bind, Except.bind, hc2] at h
          simp only [cESquare, ne_eq, not_true_eq_false, ↓reduceIte] at h
          rw [← ok_inj h]
          simp [JDoc.denote, denoteItems, JDoc.print, printItems]; omega
        | cons i rest =>
          obtain ⟨wsB, doc, wsA⟩ := i
          obtain ⟨x, xs, hx, hxd⟩ := print_head d doc hitems.2.1
          have hat1' : At c (o + 1) (ws0 ++ x :: (xs ++ wsA ++ printItems rest false ++ [93])) := by
            simpa [printItems, hx] using hat1
          obtain ⟨ht, hat2⟩ := trim_then hws0 (isDelim_ws hxd) hat1'
          obtain ⟨hlt2, hc2, _⟩ := At.cons hat2
          rw [ht] at h
          have hx93 : ¬ x = 93 := by intro e; subst e; revert hxd; decide
          simp only [show ¬ o + 1 + ws0.length ≥ c.size by omega, ↓reduceIte, rd_ok c _ hlt2, bind, Except.bind, hc2] at h
          simp only [cESquare, ne_eq, hx93, not_false_eq_true, ↓reduceIte] at h
          have hat3 : At c (o + 1 + ws0.length) (printItems ((wsB, doc, wsA) :: rest) true ++ [93]) := by
            simpa [printItems, hx] using hat2
          have := arrLoop_print d ((wsB, doc, wsA) :: rest) c fuel (o + 1 + ws0.length) [] r hsz (by simp) hitems hat3 h
          rw [this]
          simp [JDoc.denote, JDoc.print]; omega
  | obj ws0 ms =>
    obtain ⟨hws0, hms⟩ := hwf
    simp only [JDoc.print] at hat
    obtain ⟨hlt, hc, hat1⟩ := At.cons (by simpa using hat)
    cases fuel with
    | zero => simp [parseValue, throw, throwThe, MonadExceptOf.throw] at h
    | succ fuel =>
      unfold parseValue at h
      simp only [show ¬ o ≥ c.size by omega, ↓reduceIte, rd_ok c o hlt, bind, Except.bind, hc, cSCurly, cSSquare,
        Nat.reduceEqDiff] at h
      cases fuel with
      | zero => simp [parseObject, throw, throwThe, MonadExceptOf.throw] at h
      | succ fuel =>
        unfold parseObject at h
        simp only [] at h
        cases ms with
        | nil =>
          simp only [printMembers] at hat1
          obtain ⟨ht, hat2⟩ := trim_then hws0 (by decide) (x := 125) (t := []) (by simpa using hat1)
          obtain ⟨hlt2, hc2, _⟩ := At.cons hat2
          rw [ht] at h
          simp only [show ¬ o + 1 + ws0.length ≥ c.size by omega, ↓reduceIte, rd_ok c _ hlt2, bind, Except.bind, hc2] at h
          simp only [cECurly, ne_eq, not_true_eq_false, ↓reduceIte] at h
          rw [← ok_inj h]
          simp [JDoc.denote, denoteMembers, JDoc.print, printMembers]; omega
        | cons m rest =>
          obtain ⟨wsB, kbody, ktext, ws1, ws2, doc, wsA⟩ := m
          have hat1' : At c (o + 1) (ws0 ++ 34 :: (kbody ++ [34] ++ ws1 ++ [58] ++ ws2 ++ doc.print ++ wsA ++ printMembers rest false ++ [125])) := by
            simpa [printMembers] using hat1
          obtain ⟨ht, hat2⟩ := trim_then hws0 (by decide) hat1'
          obtain ⟨hlt2, hc2, _⟩ := At.cons hat2
          rw [ht] at h
          simp only [show ¬ o + 1 + ws0.length ≥ c.size by omega, ↓reduceIte, rd_ok c _ hlt2, bind, Except.bind, hc2] at h
          simp only [cECurly, ne_eq, Nat.reduceEqDiff, not_false_eq_true, ↓reduceIte] at h
          have hat3 : At c (o + 1 + ws0.length) (printMembers ((wsB, kbody, ktext, ws1, ws2, doc, wsA) :: rest) true ++ [125]) := by
            simpa [printMembers] using hat2
          have := objLoop_print d ((wsB, kbody, ktext, ws1, ws2, doc, wsA) :: rest) c fuel (o + 1 + ws0.length) [] r hsz (by simp) hms hat3 h
          rw [this]
          simp [JDoc.denote, JDoc.print]; omega
  | null =>
    simp only [JDoc.print] at hat
    obtain ⟨hlt, hc, hat1⟩ := At.cons hat
    cases fuel with
    | zero => simp [parseValue, throw, throwThe, MonadExceptOf.throw] at h
    | succ fuel =>
      unfold parseValue at h
      simp only [show ¬ o ≥ c.size by omega, ↓reduceIte, rd_ok c o hlt, bind, Except.bind, hc, cSCurly, cSSquare, cQuote,
        Nat.reduceEqDiff] at h
      rw [matchKeyword_at c nullTail (o + 1) hat1] at h
      simp only [List.isEmpty_nil, ↓reduceIte] at h
      rw [← ok_inj h]
      simp [JDoc.denote, JDoc.print, nullTail]
  | tru =>
    simp only [JDoc.print] at hat
    obtain ⟨hlt, hc, hat1⟩ := At.cons hat
    cases fuel with
    | zero => simp [parseValue, throw, throwThe, MonadExceptOf.throw] at h
    | succ fuel =>
      unfold parseValue at h
      simp only [show ¬ o ≥ c.size by omega, ↓reduceIte, rd_ok c o hlt, bind, Except.bind, hc, cSCurly, cSSquare, cQuote,
        Nat.reduceEqDiff] at h
      rw [matchKeyword_at c trueTail (o + 1) hat1] at h
      simp only [List.isEmpty_nil, ↓reduceIte] at h
      rw [← ok_inj h]
      simp [JDoc.denote, JDoc.print, trueTail]
  | fals =>
    simp only [JDoc.print] at hat
    obtain ⟨hlt, hc, hat1⟩ := At.cons hat
    cases fuel with
    | zero => simp [parseValue, throw, throwThe, MonadExceptOf.throw] at h
    | succ fuel =>
      unfold parseValue at h
      simp only [show ¬ o ≥ c.size by omega, ↓reduceIte, rd_ok c o hlt, bind, Except.bind, hc, cSCurly, cSSquare, cQuote,
        Nat.reduceEqDiff] at h
      rw [matchKeyword_at c falseTail (o + 1) hat1] at h
      simp only [List.isEmpty_nil, ↓reduceIte] at h
      rw [← ok_inj h]
      simp [JDoc.denote, JDoc.print, falseTail]
  | str body text =>
    simp only [JDoc.print] at hat
    obtain ⟨hlt, hc, hat1⟩ := At.cons (by simpa using hat)
    obtain ⟨stream, hu, hs⟩ := hwf c (o + 1) hat1
    cases fuel with
    | zero => simp [parseValue, throw, throwThe, MonadExceptOf.throw] at h
    | succ fuel =>
      unfold parseValue at h
      simp only [show ¬ o ≥ c.size by omega, ↓reduceIte, rd_ok c o hlt, bind, Except.bind, hc, cSCurly, cSSquare, cQuote,
        Nat.reduceEqDiff, hu] at h
      simp only [show body.length + 1 ≠ 0 by omega, ne_eq, not_false_eq_true, ↓reduceIte, hs] at h
      rw [← ok_inj h]
      simp [JDoc.denote, JDoc.print]; omega

/-- C07, trailing garbage: a well-formed document — surrounded by any whitespace — followed by a
unit `x` that is not whitespace (and then anything) is rejected.  For a numeral at top level the
following unit must not be able to extend the token (`12` + `3` is the document `123`): there must
be whitespace in between or `x` must be a delimiter; for every other document — all containers,
strings, keywords — there is no side condition. -/
theorem trailing_rejected (d : Deps) (hd : DepsSafe d) (doc : JDoc) (hwf : WF d doc) (wsL wsR : Ws)
    (hL : AllWs wsL) (hR : AllWs wsR) (x : Nat) (t : List Nat) (hx : isWs x = false)
    (hok : doc.isNum = false ∨ wsR ≠ [] ∨ isDelim x = true)
    (hsz0 : (wsL ++ doc.print ++ wsR ++ x :: t).length < 2 ^ 32) :
    parse d (wsL ++ doc.print ++ wsR ++ x :: t).toArray = .ok .undef := by
  obtain ⟨y, ys, hy, hyd⟩ := print_head d doc hwf
  generalize hc : (wsL ++ doc.print ++ wsR ++ x :: t).toArray = c
  have hsz : c.size = wsL.length + doc.print.length + wsR.length + (t.length + 1) := by
    rw [← hc]; simp; omega
  have hsz' : c.size < 2 ^ 32 := by rw [← hc, List.size_toArray]; exact hsz0
  have hat0 : At c 0 (wsL ++ y :: (ys ++ wsR ++ x :: t)) := by
    rw [← hc]; unfold At; simp [hy]
  obtain ⟨ht, hat1⟩ := trim_then hL (isDelim_ws hyd) hat0
  have hat2 : At c (0 + wsL.length) (doc.print ++ (wsR ++ x :: t)) := by simpa [hy] using hat1
  obtain ⟨hatd, hatR⟩ := At.append hat2
  have hfollow : doc.isNum = true → FollowOK c (0 + wsL.length + doc.print.length) := by
    intro hn
    rcases hok with h1 | h2 | h3
    · rw [hn] at h1; cases h1
    · cases wsR with
      | nil => exact absurd rfl h2
      | cons w ws => exact followOK_of_at hatR (by simp [isDelim, hR w (by simp)])
    · exact followOK_ws_or hR h3 hatR
  unfold parse
  have hne : ¬ c.size = 0 := by rw [hsz]; omega
  simp only [hne, ↓reduceIte, ht]
  obtain ⟨v, o', hv, _, _, _⟩ := (all_good d hd c hsz' (fuelFor c)).1 (0 + wsL.length)
    (by rw [hsz]; omega) (by unfold needV fuelFor; omega)
  have := parseValue_print_nf d doc c _ _ _ hsz' hwf hatd hfollow hv
  rw [hv]
  simp only [bind, Except.bind]
  injection this with hv1 ho1
  subst hv1; subst ho1
  obtain ⟨ht2, hat3⟩ := trim_then hR hx hatR
  rw [ht2]
  have : ¬ (0 + wsL.length + doc.print.length + wsR.length = c.size) := by rw [hsz]; omega
  rw [if_neg this]
  rfl

end Qentem.Json
