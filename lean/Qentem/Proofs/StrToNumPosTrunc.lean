import Qentem.Proofs.StrToNumPosUlp
import Qentem.Proofs.StrToNumRatClose
/-! C09: the positive-exponent path on a **truncated mantissa with an integer exact value** — the scan keeps the first
19 or 20 digits `v ≥ 10^18` and counts the ignored integer digits into the exponent `x`; the exact value `Vt` is an
integer with `v·10^x ≤ Vt < (v+1)·10^x`. The result is within one ulp of the correctly rounded `Vt`: the pipeline is
short by less than 1/16 of the 54-bit unit (`inv_to_close`), the truncation by less than 15/16
(`16·(2^54 + 1) ≤ 15·10^18`). -/
namespace Qentem.StrToNum
open Qentem.Round Qentem.Generated.StrToNum

theorem cap_ge_maxFinite (c : Nat) (h : maxFiniteBits ≤ c) : maxFiniteBits ≤ cap c := by
  unfold cap maxFiniteBits infBits at *
  split <;> omega

theorem powerOfPositiveTen_close_trunc_int (v x Vt : Nat) (hv18 : 10 ^ 18 ≤ v) (hv : v < 2 ^ 64) (hx : x ≤ 2 ^ 20)
    (ht1 : v * 10 ^ x ≤ Vt) (ht2 : Vt < (v + 1) * 10 ^ x) :
    ∃ p, powerOfPositiveTen v x = some p ∧ ulpDist p (nearestMag Vt 1) ≤ 1 ∧
      ((2 ^ 53 - 1) * 2 ^ 971 ≤ Vt → maxFiniteBits ≤ p) := by
  have hn0 : 0 < v := Nat.lt_of_lt_of_le (Nat.pow_pos (by decide)) hv18
  obtain ⟨p27, hp27e, hcases⟩ := posScale_closed v x hv
  have hp27 : p27 = 5 ^ 27 := by
    have := pow5_get 27 (by decide); rw [hp27e] at this; exact Option.some.inj this
  have hp27pos : 0 < p27 := by rw [hp27]; decide
  have hp27lt : p27 < 2 ^ 63 := by rw [hp27]; decide
  have hinit : PosInv v v 0 := by
    refine ⟨by simp, ?_, Or.inl rfl⟩
    rw [Nat.mul_zero, Nat.pow_zero, Nat.mul_one, Nat.add_zero, Nat.mul_comm]
  obtain ⟨j, hinv, _, hjn, hs⟩ := posIter_inv p27 hp27pos hp27lt (x / 27) v x v 0 hinit
    (by have := Nat.div_le_self x 27; omega) (by have := Nat.div_le_self x 27; omega)
    (Nat.lt_of_lt_of_le hv (by decide))
  obtain ⟨_, hlt192⟩ := posLoop_closed p27 hp27lt (x / 27) v x (Nat.lt_of_lt_of_le hv (by decide))
  have hj20 : j ≤ 2 ^ 20 := by have := Nat.div_le_self x 27; omega
  have hV : v * 10 ^ x = v * 5 ^ x * 2 ^ x := by
    rw [show (10 : Nat) = 5 * 2 by decide, Nat.mul_pow]; ring
  have hx27 : x = 27 * (x / 27) + x % 27 := (Nat.div_add_mod x 27).symm
  have final : ∃ b s, posScale v x = some (b, s) ∧ b < 2 ^ 256 ∧ s = x + 64 * j ∧ PosInv b (v * 5 ^ x) j := by
    rcases hcases with ⟨h0, hps⟩ | ⟨h0, pj, hpje, hps, hlt⟩
    · refine ⟨_, _, hps, Nat.lt_of_lt_of_le hlt192 (by decide), by simpa using hs, ?_⟩
      have : v * p27 ^ (x / 27) = v * 5 ^ x := by
        rw [hp27, ← Nat.pow_mul]; congr 2; omega
      rw [← this]; exact hinv
    · have hpj : pj = 5 ^ (x % 27) := by
        have := pow5_get (x % 27) (by omega); rw [hpje] at this; exact Option.some.inj this
      refine ⟨_, _, hps, Nat.lt_of_lt_of_le hlt (by decide), by simpa using hs, ?_⟩
      have : v * p27 ^ (x / 27) * pj = v * 5 ^ x := by
        rw [hp27, hpj, ← Nat.pow_mul, Nat.mul_assoc, ← Nat.pow_add]; congr 2; omega
      rw [← this]
      exact hinv.mul pj (by rw [hpj]; exact Nat.pow_pos (by decide))
  obtain ⟨b, s, hps, hb256, hsx, hfin⟩ := final
  have hNpos : 0 < v * 5 ^ x := Nat.mul_pos hn0 (Nat.pow_pos (by decide))
  obtain ⟨hb, k1, k2, k3, k4⟩ := inv_to_close b (v * 5 ^ x) j x hNpos hfin hj20
  have hb0 : b ≠ 0 := by omega
  obtain ⟨hlo, hhi⟩ := log2_bounds b hb0
  -- the big integer has more than 53 bits
  have hbit : 52 < Nat.log2 b := by
    by_contra hc
    have hle : Nat.log2 b ≤ 52 := by omega
    have hb53 : b < 2 ^ 53 := Nat.lt_of_lt_of_le hhi (Nat.pow_le_pow_right (by decide) (by omega))
    obtain ⟨h1, h2, h3⟩ := hfin
    have hj0 : j = 0 := by
      rcases h3 with h | h
      · exact h
      · exfalso
        have : (2 : Nat) ^ 53 ≤ 2 ^ 128 := by decide
        omega
    subst hj0
    have heq := k2 hle
    rw [Nat.mul_zero, Nat.add_zero] at heq
    have hNb : v * 5 ^ x = b := Nat.eq_of_mul_eq_mul_right (Nat.pow_pos (by decide)) heq
    have h5 : 1 ≤ 5 ^ x := Nat.pow_pos (by decide)
    have : v ≤ v * 5 ^ x := Nat.le_mul_of_pos_right _ h5
    have : (2 : Nat) ^ 53 ≤ 10 ^ 18 := by decide
    omega
  refine ⟨cap (codeRaw b s), by simp [powerOfPositiveTen, hps, posFinish_eq b s hb hb256 (by omega)], ?_⟩
  have hk4 := k4 hbit
  rw [← hV] at k1 hk4
  rw [hsx]
  generalize hu : 2 ^ (Nat.log2 b - 53) * 2 ^ (x + 64 * j) = u at *
  -- b·2^s < 2^54·u
  have hbu : b * 2 ^ (x + 64 * j) < 2 ^ 54 * u := by
    rw [← hu]
    calc b * 2 ^ (x + 64 * j) < 2 ^ (Nat.log2 b + 1) * 2 ^ (x + 64 * j) :=
          Nat.mul_lt_mul_of_pos_right hhi (Nat.pow_pos (by decide))
      _ = 2 ^ 54 * (2 ^ (Nat.log2 b - 53) * 2 ^ (x + 64 * j)) := by
          rw [show Nat.log2 b + 1 = 54 + (Nat.log2 b - 53) by omega, Nat.pow_add, Nat.mul_assoc]
  generalize hB : b * 2 ^ (x + 64 * j) = B at *
  generalize h10 : 10 ^ x = T at *
  -- truncation: 16·T < 15·u
  have htr : 16 * T < 15 * u := by
    have h1 : 10 ^ 18 * T ≤ v * T := Nat.mul_le_mul_right _ hv18
    have h2 : 16 * (v * T) < 16 * B + u := hk4
    have h3 : 10 ^ 18 * (16 * T) < 10 ^ 18 * (15 * u) := by
      calc 10 ^ 18 * (16 * T) = 16 * (10 ^ 18 * T) := by ring
        _ ≤ 16 * (v * T) := Nat.mul_le_mul_left _ h1
        _ < 16 * B + u := h2
        _ ≤ 16 * (2 ^ 54 * u) + u := by omega
        _ = (16 * 2 ^ 54 + 1) * u := by ring
        _ ≤ 15 * 10 ^ 18 * u := Nat.mul_le_mul_right _ (by decide)
        _ = 10 ^ 18 * (15 * u) := by ring
    exact Nat.lt_of_mul_lt_mul_left h3
  have hVt2 : Vt < B + u := by
    have : Vt < v * T + T := by rw [Nat.add_mul, Nat.one_mul] at ht2; exact ht2
    omega
  obtain ⟨r1, r2, r3, _⟩ := raw_close b (x + 64 * j) Vt hb (by rw [hB]; omega)
    (fun h => absurd h (by omega)) (fun _ => by rw [hu, hB]; exact hVt2)
  have hVt0 : 0 < Vt := Nat.lt_of_lt_of_le (Nat.mul_pos hn0 (by rw [← h10]; exact Nat.pow_pos (by decide))) ht1
  rw [nearestMag_nat _ hVt0]
  exact ⟨cap_close _ _ r2 r1, fun hov => cap_ge_maxFinite _ (Nat.le_trans (floorRaw_ge_maxFinite _ hov) r3)⟩

/-- the big integer of the positive path for a mantissa `v ≥ 10^16`: more than 53 bits, never above `v·10^x`, short
of it by less than 1/16 of the 54-bit unit `u = 2^(bit−53)·2^s` -/
theorem posScale_trunc_facts (v x : Nat) (hv16 : 10 ^ 16 ≤ v) (hv : v < 2 ^ 64) (hx : x ≤ 2 ^ 20) :
    ∃ b s, posScale v x = some (b, s) ∧ 0 < b ∧ b < 2 ^ 256 ∧ s + 1 < 2 ^ 32 ∧ 52 < Nat.log2 b ∧
      b * 2 ^ s ≤ v * 10 ^ x ∧ 16 * (v * 10 ^ x) < 16 * (b * 2 ^ s) + 2 ^ (Nat.log2 b - 53) * 2 ^ s := by
  have hn0 : 0 < v := Nat.lt_of_lt_of_le (Nat.pow_pos (by decide)) hv16
  obtain ⟨p27, hp27e, hcases⟩ := posScale_closed v x hv
  have hp27 : p27 = 5 ^ 27 := by
    have := pow5_get 27 (by decide); rw [hp27e] at this; exact Option.some.inj this
  have hp27pos : 0 < p27 := by rw [hp27]; decide
  have hp27lt : p27 < 2 ^ 63 := by rw [hp27]; decide
  have hinit : PosInv v v 0 := by
    refine ⟨by simp, ?_, Or.inl rfl⟩
    rw [Nat.mul_zero, Nat.pow_zero, Nat.mul_one, Nat.add_zero, Nat.mul_comm]
  obtain ⟨j, hinv, _, hjn, hs⟩ := posIter_inv p27 hp27pos hp27lt (x / 27) v x v 0 hinit
    (by have := Nat.div_le_self x 27; omega) (by have := Nat.div_le_self x 27; omega)
    (Nat.lt_of_lt_of_le hv (by decide))
  obtain ⟨_, hlt192⟩ := posLoop_closed p27 hp27lt (x / 27) v x (Nat.lt_of_lt_of_le hv (by decide))
  have hj20 : j ≤ 2 ^ 20 := by have := Nat.div_le_self x 27; omega
  have hV : v * 10 ^ x = v * 5 ^ x * 2 ^ x := by
    rw [show (10 : Nat) = 5 * 2 by decide, Nat.mul_pow]; ring
  have hx27 : x = 27 * (x / 27) + x % 27 := (Nat.div_add_mod x 27).symm
  have final : ∃ b s, posScale v x = some (b, s) ∧ b < 2 ^ 256 ∧ s = x + 64 * j ∧ PosInv b (v * 5 ^ x) j := by
    rcases hcases with ⟨h0, hps⟩ | ⟨h0, pj, hpje, hps, hlt⟩
    · refine ⟨_, _, hps, Nat.lt_of_lt_of_le hlt192 (by decide), by simpa using hs, ?_⟩
      have : v * p27 ^ (x / 27) = v * 5 ^ x := by
        rw [hp27, ← Nat.pow_mul]; congr 2; omega
      rw [← this]; exact hinv
    · have hpj : pj = 5 ^ (x % 27) := by
        have := pow5_get (x % 27) (by omega); rw [hpje] at this; exact Option.some.inj this
      refine ⟨_, _, hps, Nat.lt_of_lt_of_le hlt (by decide), by simpa using hs, ?_⟩
      have : v * p27 ^ (x / 27) * pj = v * 5 ^ x := by
        rw [hp27, hpj, ← Nat.pow_mul, Nat.mul_assoc, ← Nat.pow_add]; congr 2; omega
      rw [← this]
      exact hinv.mul pj (by rw [hpj]; exact Nat.pow_pos (by decide))
  obtain ⟨b, s, hps, hb256, hsx, hfin⟩ := final
  have hNpos : 0 < v * 5 ^ x := Nat.mul_pos hn0 (Nat.pow_pos (by decide))
  obtain ⟨hb, k1, k2, k3, k4⟩ := inv_to_close b (v * 5 ^ x) j x hNpos hfin hj20
  have hb0 : b ≠ 0 := by omega
  obtain ⟨hlo, hhi⟩ := log2_bounds b hb0
  -- the big integer has more than 53 bits
  have hbit : 52 < Nat.log2 b := by
    by_contra hc
    have hle : Nat.log2 b ≤ 52 := by omega
    have hb53 : b < 2 ^ 53 := Nat.lt_of_lt_of_le hhi (Nat.pow_le_pow_right (by decide) (by omega))
    obtain ⟨h1, h2, h3⟩ := hfin
    have hj0 : j = 0 := by
      rcases h3 with h | h
      · exact h
      · exfalso
        have : (2 : Nat) ^ 53 ≤ 2 ^ 128 := by decide
        omega
    subst hj0
    have heq := k2 hle
    rw [Nat.mul_zero, Nat.add_zero] at heq
    have hNb : v * 5 ^ x = b := Nat.eq_of_mul_eq_mul_right (Nat.pow_pos (by decide)) heq
    have h5 : 1 ≤ 5 ^ x := Nat.pow_pos (by decide)
    have : v ≤ v * 5 ^ x := Nat.le_mul_of_pos_right _ h5
    have : (2 : Nat) ^ 53 ≤ 10 ^ 16 := by decide
    omega
  have hk4 := k4 hbit
  rw [← hV] at k1 hk4
  exact ⟨b, s, hps, hb, hb256, by omega, hbit, by rw [hsx]; exact k1, by rw [hsx]; exact hk4⟩

theorem codeRawNeg_zero (b s : Nat) (hb : b ≠ 0) (hbit : 52 < Nat.log2 b) : codeRawNeg (b * 2 ^ s) 0 = codeRaw b s := by
  unfold codeRawNeg codeRaw
  rw [log2_mul_pow b s hb, if_neg (by omega)]
  have hm : max (Nat.log2 b + s) (0 - 1022) = Nat.log2 b + s := by omega
  rw [hm, show Nat.log2 b + s - 53 = (Nat.log2 b - 53) + s by omega, Nat.pow_add, halfUp_scale _ _ _ (Nat.pow_pos (by decide))]
  congr 1

theorem codeRawNeg_shift2 (b s : Nat) (hb : b ≠ 0) (hbit : 52 < Nat.log2 b) : codeRawNeg (b * 2 ^ (s + 2)) 2 = codeRaw b s := by
  unfold codeRawNeg codeRaw
  rw [log2_mul_pow b (s + 2) hb, if_neg (by omega)]
  have hm : max (Nat.log2 b + (s + 2)) (2 - 1022) = Nat.log2 b + (s + 2) := by omega
  have h1 : 2 ^ (Nat.log2 b + (s + 2) - 53) = 2 ^ (Nat.log2 b - 53) * 2 ^ (s + 2) := by
    rw [← Nat.pow_add]; congr 1; omega
  rw [hm, h1, halfUp_scale _ _ _ (Nat.pow_pos (by decide))]
  congr 1

/-- **the positive path on a truncated mantissa with a rational exact value** `N/D`: `v·10^x ≤ N/D`, relative excess
below `10^-17`, `v ≥ 10^16`: within one ulp of the correctly rounded `N/D` (pipeline short by `< u/16`, truncation
`< 7u/16`, together below the quarter ulp `u/2` that `raw_close_rat` needs; `16·2^54 + 1 ≤ 7·10^17`), and never below
the largest finite double when `N/D` reaches it -/
theorem powerOfPositiveTen_close_trunc_rat (v x N D : Nat) (hv16 : 10 ^ 16 ≤ v) (hv : v < 2 ^ 64) (hx : x ≤ 2 ^ 20)
    (hD : 0 < D) (ht1 : v * 10 ^ x * D ≤ N) (ht2 : 10 ^ 17 * N < (10 ^ 17 + 1) * (v * 10 ^ x * D)) :
    ∃ p, powerOfPositiveTen v x = some p ∧ ulpDist p (nearestMag N D) ≤ 1 ∧
      ((2 ^ 53 - 1) * 2 ^ 971 * D ≤ N → maxFiniteBits ≤ p) := by
  obtain ⟨b, s, hps, hb, hb256, hs32, hbit, k1, k4⟩ := posScale_trunc_facts v x hv16 hv hx
  have hb0 : b ≠ 0 := by omega
  obtain ⟨hlo, hhi⟩ := log2_bounds b hb0
  refine ⟨cap (codeRaw b s), by simp [powerOfPositiveTen, hps, posFinish_eq b s hb hb256 hs32], ?_⟩
  -- B < 2^54·u with u = 2^(bit−53)·2^s
  have hBu : b * 2 ^ s < 2 ^ 54 * (2 ^ (Nat.log2 b - 53) * 2 ^ s) := by
    calc b * 2 ^ s < 2 ^ (Nat.log2 b + 1) * 2 ^ s := Nat.mul_lt_mul_of_pos_right hhi (Nat.pow_pos (by decide))
      _ = 2 ^ 54 * (2 ^ (Nat.log2 b - 53) * 2 ^ s) := by
          rw [show Nat.log2 b + 1 = 54 + (Nat.log2 b - 53) by omega, Nat.pow_add, Nat.mul_assoc]
  have hB53 : 2 ^ 53 ≤ b * 2 ^ s := by
    have h1 : 2 ^ 53 ≤ b := Nat.le_trans (Nat.pow_le_pow_right (by decide) (by omega)) hlo
    exact Nat.le_trans h1 (Nat.le_mul_of_pos_right _ (Nat.pow_pos (by decide)))
  -- the shifted big integer B' = 4B and its quarter ulp G' = 2u
  have hlogB' : Nat.log2 (b * 2 ^ (s + 2)) = Nat.log2 b + (s + 2) := log2_mul_pow b (s + 2) hb0
  have hG' : 2 ^ (Nat.log2 (b * 2 ^ (s + 2)) - 54) = 2 * (2 ^ (Nat.log2 b - 53) * 2 ^ s) := by
    rw [hlogB', ← Nat.pow_add, show Nat.log2 b + (s + 2) - 54 = (Nat.log2 b - 53 + s) + 1 by omega, Nat.pow_succ]; ring
  have hB' : b * 2 ^ (s + 2) = 4 * (b * 2 ^ s) := by rw [Nat.pow_add]; ring
  have hc : codeRawNeg (b * 2 ^ (s + 2)) 2 = codeRaw b s := codeRawNeg_shift2 b s hb0 hbit
  generalize hu : 2 ^ (Nat.log2 b - 53) * 2 ^ s = u at *
  generalize hBd : b * 2 ^ s = B at *
  generalize h10 : 10 ^ x = T at *
  have hu0 : 0 < u := by rw [← hu]; exact Nat.mul_pos (Nat.pow_pos (by decide)) (Nat.pow_pos (by decide))
  have hG'' : 2 ^ (Nat.log2 (4 * B) - 54) = 2 * u := by rw [← hB']; exact hG'
  have hc' : codeRawNeg (4 * B) 2 = codeRaw b s := by rw [← hB']; exact hc
  -- N < (B + u/2)·D, i.e. 2N < (2B + u)·D
  have hq : 2 * N < (2 * B + u) * D := by
    have hA : 16 * B + u ≤ 7 * 10 ^ 17 * u := by
      have h1 : 16 * B ≤ 16 * (2 ^ 54 * u) := Nat.mul_le_mul_left _ (Nat.le_of_lt hBu)
      have h2 : 16 * (2 ^ 54 * u) + u = (16 * 2 ^ 54 + 1) * u := by ring
      have h3 : (16 * 2 ^ 54 + 1) * u ≤ 7 * 10 ^ 17 * u := Nat.mul_le_mul_right _ (by decide)
      omega
    have hC : (10 ^ 17 + 1) * (16 * B + u) ≤ 10 ^ 17 * (16 * B + 8 * u) := by
      have e1 : (10 ^ 17 + 1) * (16 * B + u) = 10 ^ 17 * (16 * B + u) + (16 * B + u) := by ring
      have e2 : 10 ^ 17 * (16 * B + 8 * u) = 10 ^ 17 * (16 * B + u) + 7 * 10 ^ 17 * u := by ring
      omega
    have hF : 10 ^ 17 * (16 * N) < 10 ^ 17 * ((16 * B + 8 * u) * D) := by
      calc 10 ^ 17 * (16 * N) = 16 * (10 ^ 17 * N) := by ring
        _ < 16 * ((10 ^ 17 + 1) * (v * T * D)) := Nat.mul_lt_mul_of_pos_left ht2 (by decide)
        _ = (10 ^ 17 + 1) * (16 * (v * T)) * D := by ring
        _ ≤ (10 ^ 17 + 1) * (16 * B + u) * D :=
            Nat.mul_le_mul_right _ (Nat.mul_le_mul_left _ (Nat.le_of_lt k4))
        _ ≤ 10 ^ 17 * (16 * B + 8 * u) * D := Nat.mul_le_mul_right _ hC
        _ = 10 ^ 17 * ((16 * B + 8 * u) * D) := by ring
    have h1 := Nat.lt_of_mul_lt_mul_left hF
    have e : (16 * B + 8 * u) * D = 8 * ((2 * B + u) * D) := by ring
    omega
  have hBD : B * D ≤ N := by
    have : B * D ≤ v * T * D := Nat.mul_le_mul_right _ k1
    omega
  have q1 : 4 * B * D ≤ 4 * N + 2 * u * D := by
    have e2 : 4 * B * D = 4 * (B * D) := by ring
    omega
  have q2 : 4 * N ≤ 4 * B * D + 2 * u * D := by
    have e : (2 * B + u) * D = 2 * (B * D) + u * D := by ring
    have e2 : 4 * B * D = 4 * (B * D) := by ring
    have e3 : 2 * u * D = 2 * (u * D) := by ring
    omega
  -- L = ⌊log₂(4N/D)⌋
  have hNlow : 2 ^ 55 * D ≤ 4 * N := by
    have h1 : 2 ^ 53 * D ≤ B * D := Nat.mul_le_mul_right _ hB53
    have e : (2 : Nat) ^ 55 * D = 4 * (2 ^ 53 * D) := by rw [show (2 : Nat) ^ 55 = 4 * 2 ^ 53 by decide]; ring
    omega
  have hq0 : 4 * N / D ≠ 0 := by
    intro h
    rcases (Nat.div_eq_zero_iff).1 h with h | h
    · omega
    · have : 1 * D ≤ 2 ^ 55 * D := Nat.mul_le_mul_right _ (by decide)
      omega
  obtain ⟨l1, l2⟩ := log2_bounds (4 * N / D) hq0
  generalize hL : Nat.log2 (4 * N / D) = L at *
  have hL1 : D * 2 ^ L ≤ 4 * N := Nat.le_trans (Nat.mul_le_mul_left _ l1) (Nat.mul_div_le _ _)
  have hL2 : 4 * N < D * 2 ^ (L + 1) := by
    have := (Nat.div_lt_iff_lt_mul hD).1 l2
    rw [Nat.mul_comm D]; exact this
  have hL52 : 52 ≤ L := by
    by_contra hcn
    have : 2 ^ (L + 1) ≤ 2 ^ 55 := Nat.pow_le_pow_right (by decide) (by omega)
    have : D * 2 ^ (L + 1) ≤ D * 2 ^ 55 := Nat.mul_le_mul_left _ this
    rw [Nat.mul_comm D (2 ^ 55)] at this
    omega
  have hN0 : 0 < N := by
    rcases Nat.eq_zero_or_pos N with h | h
    · subst h; have : 0 < 2 ^ 55 * D := Nat.mul_pos (Nat.pow_pos (by decide)) hD; omega
    · exact h
  have hB54 : 2 ^ 54 ≤ 4 * B := by
    have : (2 : Nat) ^ 54 = 2 * 2 ^ 53 := by decide
    omega
  obtain ⟨c1, c2⟩ := raw_close_rat (4 * B) 2 (4 * N) D L hD hB54
    (by rw [hG'']; exact q1) (by rw [hG'']; exact q2) hL1 hL2
  rw [hc'] at c1 c2
  have hspec : nearestMag N D = cap (ratRaw (4 * N) D 2 L) := by
    have := nearestMag_bunits N D 0 2 L hN0 hD (by decide) hL52
      (by rw [show N * 2 ^ (2 - 0) = 4 * N by rw [Nat.sub_zero]; ring]; exact hL1)
      (by rw [show N * 2 ^ (2 - 0) = 4 * N by rw [Nat.sub_zero]; ring]; exact hL2)
    rw [show N * 2 ^ (2 - 0) = 4 * N by rw [Nat.sub_zero]; ring] at this
    simpa using this
  refine ⟨by rw [hspec]; exact cap_close _ _ c2 c1, ?_⟩
  intro hov
  have hVf1 : B ≤ N / D := (Nat.le_div_iff_mul_le hD).2 hBD
  have hVf2 : N / D < B + u := by
    rw [Nat.div_lt_iff_lt_mul hD]
    have e : (B + u) * D = B * D + u * D := by ring
    have e2 : (2 * B + u) * D = 2 * (B * D) + u * D := by ring
    have : 0 < u * D := Nat.mul_pos hu0 hD
    omega
  obtain ⟨_, _, r3, _⟩ := raw_close b s (N / D) hb (by rw [hBd]; exact hVf1) (fun h => absurd h (by omega))
    (fun _ => by rw [hu, hBd]; exact hVf2)
  have hmax : (2 ^ 53 - 1) * 2 ^ 971 ≤ N / D := (Nat.le_div_iff_mul_le hD).2 hov
  exact cap_ge_maxFinite _ (Nat.le_trans (floorRaw_ge_maxFinite _ hmax) r3)

end Qentem.StrToNum
