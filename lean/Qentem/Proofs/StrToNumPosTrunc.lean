import Qentem.Proofs.StrToNumPosUlp
/-! C09: the positive-exponent path on a **truncated mantissa with an integer exact value** — the scan keeps the first
19 or 20 digits `v ≥ 10^18` and counts the ignored integer digits into the exponent `x`; the exact value `Vt` is an
integer with `v·10^x ≤ Vt < (v+1)·10^x`. The result is within one ulp of the correctly rounded `Vt`: the pipeline is
short by less than 1/16 of the 54-bit unit (`inv_to_close`), the truncation by less than 15/16
(`16·(2^54 + 1) ≤ 15·10^18`). -/
namespace Qentem.StrToNum
open Qentem.Round Qentem.Generated.StrToNum

theorem powerOfPositiveTen_close_trunc_int (v x Vt : Nat) (hv18 : 10 ^ 18 ≤ v) (hv : v < 2 ^ 64) (hx : x ≤ 2 ^ 20)
    (ht1 : v * 10 ^ x ≤ Vt) (ht2 : Vt < (v + 1) * 10 ^ x) :
    ∃ p, powerOfPositiveTen v x = some p ∧ ulpDist p (nearestMag Vt 1) ≤ 1 := by
  have hn0 : 0 < v := Nat.lt_of_lt_of_le (Nat.pow_pos (by decide)) hv18
  obtain ⟨p27, hp27e, hcases⟩ := posScale_closed v x hv
  have hp27 : p27 = 5 ^ 27 := by
    have := pow5_get 27 (by decide); rw [hp27e] at this; exact Option.some.inj this
  have hp27pos : 0 < p27 := by rw [hp27]; decide
  have hp27lt : p27 < 2 ^ 63 := by rw [hp27]; decide
  have hinit : PosInv v v 0 := by
    refine ⟨by simp, ?_, Or.inl rfl⟩
    rw [Nat.mul_zero, Nat.pow_zero, Nat.mul_one, Nat.add_zero, Nat.mul_comm]
  obtain ⟨j, hinv, _, hjn, hs⟩ := posIter_inv p27 hp27pos hp27lt (x / 27) v x v 0 hinit
    (by have := Nat.div_le_self x 27; omega) (by have := Nat.div_le_self x 27; omega)
    (Nat.lt_of_lt_of_le hv (by decide))
  obtain ⟨_, hlt192⟩ := posLoop_closed p27 hp27lt (x / 27) v x (Nat.lt_of_lt_of_le hv (by decide))
  have hj20 : j ≤ 2 ^ 20 := by have := Nat.div_le_self x 27; omega
  have hV : v * 10 ^ x = v * 5 ^ x * 2 ^ x := by
    rw [show (10 : Nat) = 5 * 2 by decide, Nat.mul_pow]; ring
  have hx27 : x = 27 * (x / 27) + x % 27 := (Nat.div_add_mod x 27).symm
  have final : ∃ b s, posScale v x = some (b, s) ∧ b < 2 ^ 256 ∧ s = x + 64 * j ∧ PosInv b (v * 5 ^ x) j := by
    rcases hcases with ⟨h0, hps⟩ | ⟨h0, pj, hpje, hps, hlt⟩
    · refine ⟨_, _, hps, Nat.lt_of_lt_of_le hlt192 (by decide), by simpa using hs, ?_⟩
      have : v * p27 ^ (x / 27) = v * 5 ^ x := by
        rw [hp27, ← Nat.pow_mul]; congr 2; omega
      rw [← this]; exact hinv
    · have hpj : pj = 5 ^ (x % 27) := by
        have := pow5_get (x % 27) (by omega); rw [hpje] at this; exact Option.some.inj this
      refine ⟨_, _, hps, Nat.lt_of_lt_of_le hlt (by decide), by simpa using hs, ?_⟩
      have : v * p27 ^ (x / 27) * pj = v * 5 ^ x := by
        rw [hp27, hpj, ← Nat.pow_mul, Nat.mul_assoc, ← Nat.pow_add]; congr 2; omega
      rw [← this]
      exact hinv.mul pj (by rw [hpj]; exact Nat.pow_pos (by decide))
  obtain ⟨b, s, hps, hb256, hsx, hfin⟩ := final
  have hNpos : 0 < v * 5 ^ x := Nat.mul_pos hn0 (Nat.pow_pos (by decide))
  obtain ⟨hb, k1, k2, k3, k4⟩ := inv_to_close b (v * 5 ^ x) j x hNpos hfin hj20
  have hb0 : b ≠ 0 := by omega
  obtain ⟨hlo, hhi⟩ := log2_bounds b hb0
  -- the big integer has more than 53 bits
  have hbit : 52 < Nat.log2 b := by
    by_contra hc
    have hle : Nat.log2 b ≤ 52 := by omega
    have hb53 : b < 2 ^ 53 := Nat.lt_of_lt_of_le hhi (Nat.pow_le_pow_right (by decide) (by omega))
    obtain ⟨h1, h2, h3⟩ := hfin
    have hj0 : j = 0 := by
      rcases h3 with h | h
      · exact h
      · exfalso
        have : (2 : Nat) ^ 53 ≤ 2 ^ 128 := by decide
        omega
    subst hj0
    have heq := k2 hle
    rw [Nat.mul_zero, Nat.add_zero] at heq
    have hNb : v * 5 ^ x = b := Nat.eq_of_mul_eq_mul_right (Nat.pow_pos (by decide)) heq
    have h5 : 1 ≤ 5 ^ x := Nat.pow_pos (by decide)
    have : v ≤ v * 5 ^ x := Nat.le_mul_of_pos_right _ h5
    have : (2 : Nat) ^ 53 ≤ 10 ^ 18 := by decide
    omega
  refine ⟨cap (codeRaw b s), by simp [powerOfPositiveTen, hps, posFinish_eq b s hb hb256 (by omega)], ?_⟩
  have hk4 := k4 hbit
  rw [← hV] at k1 hk4
  rw [hsx]
  generalize hu : 2 ^ (Nat.log2 b - 53) * 2 ^ (x + 64 * j) = u at *
  -- b·2^s < 2^54·u
  have hbu : b * 2 ^ (x + 64 * j) < 2 ^ 54 * u := by
    rw [← hu]
    calc b * 2 ^ (x + 64 * j) < 2 ^ (Nat.log2 b + 1) * 2 ^ (x + 64 * j) :=
          Nat.mul_lt_mul_of_pos_right hhi (Nat.pow_pos (by decide))
      _ = 2 ^ 54 * (2 ^ (Nat.log2 b - 53) * 2 ^ (x + 64 * j)) := by
          rw [show Nat.log2 b + 1 = 54 + (Nat.log2 b - 53) by omega, Nat.pow_add, Nat.mul_assoc]
  generalize hB : b * 2 ^ (x + 64 * j) = B at *
  generalize h10 : 10 ^ x = T at *
  -- truncation: 16·T < 15·u
  have htr : 16 * T < 15 * u := by
    have h1 : 10 ^ 18 * T ≤ v * T := Nat.mul_le_mul_right _ hv18
    have h2 : 16 * (v * T) < 16 * B + u := hk4
    have h3 : 10 ^ 18 * (16 * T) < 10 ^ 18 * (15 * u) := by
      calc 10 ^ 18 * (16 * T) = 16 * (10 ^ 18 * T) := by ring
        _ ≤ 16 * (v * T) := Nat.mul_le_mul_left _ h1
        _ < 16 * B + u := h2
        _ ≤ 16 * (2 ^ 54 * u) + u := by omega
        _ = (16 * 2 ^ 54 + 1) * u := by ring
        _ ≤ 15 * 10 ^ 18 * u := Nat.mul_le_mul_right _ (by decide)
        _ = 10 ^ 18 * (15 * u) := by ring
    exact Nat.lt_of_mul_lt_mul_left h3
  have hVt2 : Vt < B + u := by
    have : Vt < v * T + T := by rw [Nat.add_mul, Nat.one_mul] at ht2; exact ht2
    omega
  obtain ⟨r1, r2, _, _⟩ := raw_close b (x + 64 * j) Vt hb (by rw [hB]; omega)
    (fun h => absurd h (by omega)) (fun _ => by rw [hu, hB]; exact hVt2)
  have hVt0 : 0 < Vt := Nat.lt_of_lt_of_le (Nat.mul_pos hn0 (by rw [← h10]; exact Nat.pow_pos (by decide))) ht1
  rw [nearestMag_nat _ hVt0]
  exact cap_close _ _ r2 r1

end Qentem.StrToNum
