import Qentem.Proofs.NumToStrDefaultLt1
import Qentem.Proofs.NumToStrIntClass32
/-! C10 helper, floats: the class theorems of the double proofs restated for `binary32` (23 mantissa bits, bias 127,
8 exponent bits).  The generic lemmas (digit run, exactness, reduction, string formatters, reference lemmas) are shared;
the theorems below are the double ones with the format constants replaced (produced by textual substitution and
checked like any other proof).  Result: `fixed_finite_32`, `default_finite_32`. -/
set_option linter.unusedSimpArgs false
set_option linter.unusedVariables false
namespace Qentem.Proofs.NumToStr
open Qentem.NumToStr Qentem.Generated.NumToStr Qentem

theorem realToString_finite32 (pre : List Nat) (bits p f : Nat)
    (hfin : (bits / 2 ^ 23) % 2 ^ 8 ≠ 2 ^ 8 - 1)
    (hnz : (bits / 2 ^ 23) % 2 ^ 8 ≠ 0 ∨ bits % 2 ^ 23 ≠ 0) :
    realToString f32 pre bits p f =
      realFinite f32 (if bits / 2 ^ 31 % 2 = 1 then pre ++ [45] else pre) (bits % 2 ^ 23)
        ((bits / 2 ^ 23) % 2 ^ 8 * 2 ^ 23) (if f = fmtDefault ∧ p = 0 then 1 else p) f := by
  obtain ⟨h1, h2, h3⟩ := fields32 bits
  have hx : f32.exponentMask = 2139095040 := rfl
  have hy : f32.mantissaMask = 8388607 := rfl
  have hz : f32.signMask = 2147483648 := rfl
  have hpw : (2:Nat) ^ 23 = 8388608 := by norm_num
  have hlt : (bits / 2 ^ 23) % 2 ^ 8 < 2 ^ 8 := Nat.mod_lt _ (by norm_num)
  have hne : ¬ ((bits / 2 ^ 23) % 2 ^ 8 * 2 ^ 23 = 2139095040) := by
    generalize (bits / 2 ^ 23) % 2 ^ 8 = E at *
    rw [hpw]; omega
  have hnz' : bits % 2 ^ 23 ≠ 0 ∨ (bits / 2 ^ 23) % 2 ^ 8 * 2 ^ 23 ≠ 0 := by
    rcases hnz with h | h
    · right; generalize (bits / 2 ^ 23) % 2 ^ 8 = E at *; rw [hpw]; omega
    · left; exact h
  unfold realToString
  simp only [hx, hy, hz, h1, h2, h3, hne, hnz', ne_eq, not_false_eq_true, if_true]
  by_cases hs : bits / 2 ^ 31 % 2 = 1
  · have hs' : ¬ (bits / 2 ^ 31 % 2 * 2 ^ 31 = 0) := by rw [hs]; norm_num
    simp only [hs, if_true, Ch.negative]
    norm_num
  · have hs0 : bits / 2 ^ 31 % 2 = 0 := by omega
    simp only [hs0, Nat.zero_mul, not_true_eq_false, if_false, show ¬ ((0:Nat) = 1) by decide]

theorem format32_finite (bits p : Nat) (fmt : FmtSpec.Fmt) {neg : Bool} {num den : Nat}
    (h : FmtSpec.decode32 bits = .fin neg num den) :
    FmtSpec.format32 bits p fmt = FmtSpec.signed neg (match fmt with
      | .default => FmtSpec.generalBody num den p
      | .fixed => FmtSpec.fixedBody num den p
      | .semiFixed => FmtSpec.stripFraction (FmtSpec.fixedBody num den p)) := by
  unfold FmtSpec.format32 FmtSpec.formatVal; rw [h]
  cases fmt <;> rfl

/-- **short binary fractions, Fixed and SemiFixed** (floats): when the value has `k` binary fraction digits,
`0 < k ≤ p`, its decimal expansion is finite with `k` digits, nothing is rounded, and the model prints
exactly the reference text. -/
theorem short_fraction32 (pre : List Nat) (bits p f : Nat) (hf12 : f = 1 ∨ f = 2) (hp : p ≤ 40)
    (hfin : (bits / 2 ^ 23) % 2 ^ 8 ≠ 2 ^ 8 - 1)
    (h0 : 0 < fracBits 23 127 (bits % 2 ^ 23) ((bits / 2 ^ 23) % 2 ^ 8))
    (hle : fracBits 23 127 (bits % 2 ^ 23) ((bits / 2 ^ 23) % 2 ^ 8) ≤ p) :
    realToString f32 pre bits p f = .ok (pre ++ FmtSpec.format32 bits p (fmtOf f)) := by
  have hnz : (bits / 2 ^ 23) % 2 ^ 8 ≠ 0 ∨ bits % 2 ^ 23 ≠ 0 := by
    by_contra hcon
    simp only [not_or, ne_eq, not_not] at hcon
    rw [hcon.1, hcon.2] at hle
    have : fracBits 23 127 0 0 = 127 := by decide
    omega
  have hfl : bits % 2 ^ 23 < 2 ^ 23 := Nat.mod_lt _ (by norm_num)
  have hel : (bits / 2 ^ 23) % 2 ^ 8 ≤ 2 * 127 := by
    have := Nat.mod_lt (bits / 2 ^ 23) (show 0 < 2 ^ 8 by norm_num); omega
  have hf0 : ¬ (f = fmtDefault ∧ p = 0) := by rcases hf12 with rfl | rfl <;> simp [fmtDefault]
  obtain ⟨num, den, hden, hdec, hex⟩ := runSpec_exact_decode (M := 23) (X := 8) (by decide) (by decide) (by decide)
    bits p f hfin hnz
  obtain ⟨hrs, hrd⟩ := runSpec_short (M := 23) (B := 127) (p := p) hf12 h0 hle
  have hB : (2:Nat) ^ (8 - 1) - 1 = 127 := by norm_num
  rw [hB] at hex
  simp only [hrs, hrd, Nat.pow_zero, Nat.mul_one, Bool.false_eq_true, false_iff, ne_eq, not_not] at hex
  obtain ⟨hb, hrem⟩ := hex
  generalize hfb : fracBits 23 127 (bits % 2 ^ 23) ((bits / 2 ^ 23) % 2 ^ 8) = fl at *
  have hmm := findFirstBit_mant (M := 23) (by decide) (mant_pos (M := 23) hnz) (mant_lt (e := (bits / 2 ^ 23) % 2 ^ 8) hfl)
  generalize hmo : mant 23 (bits % 2 ^ 23) ((bits / 2 ^ 23) % 2 ^ 8) /
      2 ^ findFirstBit (mant 23 (bits % 2 ^ 23) ((bits / 2 ^ 23) % 2 ^ 8)) = mo at *
  have hbpos : 0 < mo * 5 ^ fl := Nat.mul_pos (by omega) (Nat.pow_pos (by decide))
  have hexact : num * 10 ^ fl = mo * 5 ^ fl * den := by
    rw [hb]; exact (Nat.div_mul_cancel (Nat.dvd_of_mod_eq_zero hrem)).symm
  have hb10 : (mo * 5 ^ fl) % 10 = 5 := by
    apply odd5_mod10 (odd_mul_odd hmm.2.2 (pow5_odd fl))
    obtain ⟨k, rfl⟩ := Nat.exists_eq_succ_of_ne_zero (by omega : fl ≠ 0)
    rw [Nat.pow_succ, ← Nat.mul_assoc]; exact Nat.mul_mod_left _ _
  rw [realToString_finite32 pre bits p f hfin hnz, if_neg hf0,
    realFinite_reduce shape32 _ hfl hel hnz hp, hrs]
  have hR : R (mo * 5 ^ fl) = (D (mo * 5 ^ fl)).reverse := by simp [R]; omega
  unfold layout
  simp only [hR]
  have hdec32 : FmtSpec.decode32 bits = .fin (decide (bits / 2 ^ 31 % 2 = 1)) num den := hdec
  have hbody := fixedBody_exact (p := p) hden hexact hle (by omega)
  obtain ⟨k, hk⟩ := Nat.exists_eq_succ_of_ne_zero (by omega : fl ≠ 0)
  have hxm : (mo * 5 ^ fl % 10 ^ fl) % 10 ≠ 0 := by
    rw [Nat.mod_mod_of_dvd _ (by rw [hk, Nat.pow_succ]; exact Nat.dvd_mul_left _ _), hb10]; decide
  rcases hf12 with rfl | rfl
  · have e1 : ¬ (1 = fmtSemiFixed) := by decide
    have e2 : (1 = fmtFixed) := by decide
    have e3 : fmtOf 1 = .fixed := by decide
    rw [if_neg e1, if_pos e2, formatFixed_exact true _ hbpos h0 hle (by omega), e3, format32_finite bits p _ hdec32]
    simp only [hbody, if_true]
    by_cases hs : bits / 2147483648 % 2 = 1 <;> simp [hs, FmtSpec.signed, FmtSpec.cMinus]
  · have e1 : (2 = fmtSemiFixed) := by decide
    have e3 : fmtOf 2 = .semiFixed := by decide
    rw [if_pos e1, formatFixed_exact false _ hbpos h0 hle (by omega), e3, format32_finite bits p _ hdec32]
    simp only [hbody, hk, stripFraction_exact _ _ _ _ (hk ▸ hxm)]
    by_cases hs : bits / 2147483648 % 2 = 1 <;> simp [hs, FmtSpec.signed, FmtSpec.cMinus]

theorem decode32_ge1 {bits num den : Nat} {neg : Bool} (h : FmtSpec.decode32 bits = .fin neg num den)
    (he : 127 ≤ (bits / 2 ^ 23) % 2 ^ 8) : den ≤ num := by
  unfold FmtSpec.decode32 FmtSpec.decode at h
  have hlt : (bits / 2 ^ 23) % 2 ^ 8 < 2 ^ 8 := Nat.mod_lt _ (by norm_num)
  generalize (bits / 2 ^ 23) % 2 ^ 8 = e at *
  generalize hf : bits % 2 ^ 23 = f at *
  have hfl : f < 2 ^ 23 := by rw [← hf]; exact Nat.mod_lt _ (by norm_num)
  simp only [show (2:Nat) ^ (8 - 1) - 1 = 127 by norm_num, show ¬ (e = 0) by omega, if_false] at h
  by_cases hinf : e = 2 ^ 8 - 1
  · rw [if_pos hinf] at h; split at h <;> cases h
  · rw [if_neg hinf] at h
    by_cases hbig : 127 + 23 ≤ e
    · rw [if_pos hbig] at h
      injection h with _ hn hd
      rw [← hn, ← hd]
      exact Nat.mul_pos (Nat.add_pos_left (Nat.two_pow_pos 23) f) (Nat.two_pow_pos _)
    · rw [if_neg hbig] at h
      injection h with _ hn hd
      rw [← hn, ← hd]
      calc 2 ^ (127 + 23 - e) ≤ 2 ^ 23 := Nat.pow_le_pow_right (by decide) (by omega)
        _ ≤ 2 ^ 23 + f := Nat.le_add_right _ _

/-- **Fixed and SemiFixed for every float of magnitude ≥ 1 whose binary fraction is longer than the
precision**: one digit more than the precision is produced exactly (`⌊v·10^(p+1)⌋` plus the sticky flag), it is
rounded half-even with all its carries, and the text is exactly `%.{p}f` / its stripped form. -/
theorem long_fraction_ge1_32 (pre : List Nat) (bits p f : Nat) (hf12 : f = 1 ∨ f = 2) (hp : p ≤ 40)
    (hfin : (bits / 2 ^ 23) % 2 ^ 8 ≠ 2 ^ 8 - 1) (hge1 : 127 ≤ (bits / 2 ^ 23) % 2 ^ 8)
    (hlt : p < fracBits 23 127 (bits % 2 ^ 23) ((bits / 2 ^ 23) % 2 ^ 8)) :
    realToString f32 pre bits p f = .ok (pre ++ FmtSpec.format32 bits p (fmtOf f)) := by
  have hnz : (bits / 2 ^ 23) % 2 ^ 8 ≠ 0 ∨ bits % 2 ^ 23 ≠ 0 := Or.inl (by omega)
  have hfl : bits % 2 ^ 23 < 2 ^ 23 := Nat.mod_lt _ (by norm_num)
  have hel : (bits / 2 ^ 23) % 2 ^ 8 ≤ 2 * 127 := by
    have := Nat.mod_lt (bits / 2 ^ 23) (show 0 < 2 ^ 8 by norm_num); omega
  have hf0 : ¬ (f = fmtDefault ∧ p = 0) := by rcases hf12 with rfl | rfl <;> simp [fmtDefault]
  obtain ⟨num, den, hden, hdec, hex⟩ := runSpec_exact_decode (M := 23) (X := 8) (by decide) (by decide) (by decide)
    bits p f hfin hnz
  have hB : (2:Nat) ^ (8 - 1) - 1 = 127 := by norm_num
  rw [hB] at hex
  obtain ⟨hfl1, hdrop⟩ := runSpec_ge1 (M := 23) (B := 127) (p := p) hf12 hge1 hlt
  have hdec32 : FmtSpec.decode32 bits = .fin (decide (bits / 2 ^ 31 % 2 = 1)) num den := hdec
  have hnd : den ≤ num := decode32_ge1 hdec32 hge1
  generalize hr : runSpec 23 127 (bits % 2 ^ 23) ((bits / 2 ^ 23) % 2 ^ 8) p f = r at *
  obtain ⟨b, dg, fl, pos, ru⟩ := r
  simp only at hfl1 hex
  subst hfl1
  rw [hdrop, Nat.pow_zero, Nat.mul_one] at hex
  obtain ⟨hb, hru⟩ := hex
  -- the run has at least p + 2 digits
  have hbge : 10 ^ (p + 1) ≤ b := by
    rw [hb, Nat.le_div_iff_mul_le hden, Nat.mul_comm]
    exact Nat.mul_le_mul_right _ hnd
  have hbpos : 0 < b := lt_of_lt_of_le (Nat.pow_pos (by decide)) hbge
  have hL : p + 1 < (D b).length := D_length_gt hbge
  -- model
  rw [realToString_finite32 pre bits p f hfin hnz, if_neg hf0, realFinite_reduce shape32 _ hfl hel hnz hp, hr]
  have hR : R b = Rl b := by simp [R, Rl]; omega
  unfold layout
  simp only [hR]
  -- reference: the kept value is the reference's rounded integer
  have hkept : keptUp b 0 ru = FmtSpec.roundHalfEven (num * 10 ^ p) den := by
    have h1 := roundHalfEven_digits (N := num * 10 ^ (p + 1)) (den := den) (b := b) (i := 0) (ru := ru) hden hb hru
    rw [show den * 10 ^ (0 + 1) = den * 10 by norm_num, show num * 10 ^ (p + 1) = num * 10 ^ p * 10 by rw [Nat.pow_succ]; ring,
      roundHalfEven_scale _ _ 10 (by decide)] at h1
    unfold keptUp; rw [h1]
  rcases hf12 with rfl | rfl
  · have e1 : ¬ (1 = fmtSemiFixed) := by decide
    have e2 : (1 = fmtFixed) := by decide
    have e3 : fmtOf 1 = .fixed := by decide
    rw [if_neg e1, if_pos e2, formatFixed_ge1 true _ ru hbpos hL (by omega), e3, format32_finite bits p _ hdec32]
    simp only [if_true, fixedBody_eq_text, hkept]
    by_cases hs : bits / 2147483648 % 2 = 1 <;> simp [hs, FmtSpec.signed, FmtSpec.cMinus]
  · have e1 : (2 = fmtSemiFixed) := by decide
    have e3 : fmtOf 2 = .semiFixed := by decide
    rw [if_pos e1, formatFixed_ge1 false _ ru hbpos hL (by omega), e3, format32_finite bits p _ hdec32]
    simp only [Bool.false_eq_true, if_false, fixedBody_eq_text, hkept]
    by_cases hs : bits / 2147483648 % 2 = 1 <;> simp [hs, FmtSpec.signed, FmtSpec.cMinus]

/-- `fracBits = 0` for a normal float of magnitude ≥ 1 means it is integer-valued -/
theorem intValued_of_fracBits_zero32 {bits : Nat} (hfin : (bits / 2 ^ 23) % 2 ^ 8 ≠ 2 ^ 8 - 1)
    (hge1 : 127 ≤ (bits / 2 ^ 23) % 2 ^ 8)
    (h0 : fracBits 23 127 (bits % 2 ^ 23) ((bits / 2 ^ 23) % 2 ^ 8) = 0) :
    ∃ j, F32.IntValued32 ((bits / 2 ^ 23) % 2 ^ 8) (bits % 2 ^ 23) j := by
  have hfl : bits % 2 ^ 23 < 2 ^ 23 := Nat.mod_lt _ (by norm_num)
  have hlt : (bits / 2 ^ 23) % 2 ^ 8 < 2 ^ 8 := Nat.mod_lt _ (by norm_num)
  have hnz : (bits / 2 ^ 23) % 2 ^ 8 ≠ 0 ∨ bits % 2 ^ 23 ≠ 0 := Or.inl (by omega)
  have hmm := findFirstBit_mant (M := 23) (by decide) (mant_pos (M := 23) hnz) (mant_lt (e := (bits / 2 ^ 23) % 2 ^ 8) hfl)
  have hmant : mant 23 (bits % 2 ^ 23) ((bits / 2 ^ 23) % 2 ^ 8) = 2 ^ 23 + bits % 2 ^ 23 := by
    unfold mant; rw [if_neg (by omega)]
  rw [hmant] at hmm
  simp only [fracBits, hmant, hge1, if_true] at h0
  exact ⟨findFirstBit (2 ^ 23 + bits % 2 ^ 23), ⟨hge1, by omega, hfl, hmm.1, hmm.2.1, hmm.2.2, by omega⟩⟩

/-- **Fixed and SemiFixed for every float of magnitude ≥ 1** (precision ≤ 40) -/
theorem fixed_ge1_32 (pre : List Nat) (bits p f : Nat) (hf12 : f = 1 ∨ f = 2) (hp : p ≤ 40)
    (hfin : (bits / 2 ^ 23) % 2 ^ 8 ≠ 2 ^ 8 - 1) (hge1 : 127 ≤ (bits / 2 ^ 23) % 2 ^ 8) :
    realToString f32 pre bits p f = .ok (pre ++ FmtSpec.format32 bits p (fmtOf f)) := by
  by_cases h0 : fracBits 23 127 (bits % 2 ^ 23) ((bits / 2 ^ 23) % 2 ^ 8) = 0
  · obtain ⟨j, hj⟩ := intValued_of_fracBits_zero32 hfin hge1 h0
    exact F32.int_class32 pre bits p f j hf12 (by omega) hj
  · by_cases hle : fracBits 23 127 (bits % 2 ^ 23) ((bits / 2 ^ 23) % 2 ^ 8) ≤ p
    · exact short_fraction32 pre bits p f hf12 hp hfin (by omega) hle
    · exact long_fraction_ge1_32 pre bits p f hf12 hp hfin hge1 (by omega)

theorem decode32_ge_pow {bits num den : Nat} {neg : Bool} (h : FmtSpec.decode32 bits = .fin neg num den)
    (he : 127 ≤ (bits / 2 ^ 23) % 2 ^ 8) : 2 ^ ((bits / 2 ^ 23) % 2 ^ 8 - 127) * den ≤ num := by
  unfold FmtSpec.decode32 FmtSpec.decode at h
  have hlt : (bits / 2 ^ 23) % 2 ^ 8 < 2 ^ 8 := Nat.mod_lt _ (by norm_num)
  generalize (bits / 2 ^ 23) % 2 ^ 8 = e at *
  generalize hf : bits % 2 ^ 23 = f at *
  simp only [show (2:Nat) ^ (8 - 1) - 1 = 127 by norm_num, show ¬ (e = 0) by omega, if_false] at h
  by_cases hinf : e = 2 ^ 8 - 1
  · rw [if_pos hinf] at h; split at h <;> cases h
  · rw [if_neg hinf] at h
    by_cases hbig : 127 + 23 ≤ e
    · rw [if_pos hbig] at h
      injection h with _ hn hd
      rw [← hn, ← hd, Nat.mul_one, show e - 127 = 23 + (e - (127 + 23)) by omega, Nat.pow_add]
      exact Nat.mul_le_mul_right _ (Nat.le_add_right _ _)
    · rw [if_neg hbig] at h
      injection h with _ hn hd
      rw [← hn, ← hd, ← Nat.pow_add, show e - 127 + (127 + 23 - e) = 23 by omega]
      exact Nat.le_add_right _ _

/-- the closed-form digit run in the Default format when the digit estimate exceeds the precision (value ≥ 1) -/
theorem runSpec_default_extra32 {f e P : Nat} (hpos : 127 ≤ e) (he0 : e ≠ 0)
    (hx : P < (e - 127) * 30103 / 100000 + 1) :
    (runSpec 23 127 f e P 0).2.1 = (e - 127) * 30103 / 100000 + 1 ∧
    (runSpec 23 127 f e P 0).2.2.1 = 0 ∧ (runSpec 23 127 f e P 0).2.2.2.1 = true ∧
    runDrop 23 127 f e P 0 = (e - 127) * 30103 / 100000 + 1 - (P + 1) := by
  have hfix : (decide ((0:Nat) = fmtSemiFixed) || decide ((0:Nat) = fmtFixed)) = false := by decide
  have hest : ∀ j, estDigits 23 j (e - 127) e = (e - 127) * 30103 / 100000 + 1 := by
    intro j; unfold estDigits; rw [if_neg he0]; simp
  simp only [runSpec, runDrop, hpos, if_true, decide_true, Bool.true_and, hfix, Bool.not_false, Bool.and_true, hest, hx,
    Bool.or_true]
  exact ⟨trivial, trivial, trivial, trivial⟩

/-- **Default format, every float ≥ 1 whose digit estimate exceeds the precision** (so it has more integer digits
than `P`): the integer part is cut `d` digits short, the fraction and the dropped digits go into the sticky flag,
and the text is `%.{p}g` in the `e+XX` style. -/
theorem default_extra32 (pre : List Nat) (bits p : Nat) (hp : p ≤ 40)
    (hfin : (bits / 2 ^ 23) % 2 ^ 8 ≠ 2 ^ 8 - 1) (hge1 : 127 ≤ (bits / 2 ^ 23) % 2 ^ 8)
    (hx : (if p = 0 then 1 else p) < ((bits / 2 ^ 23) % 2 ^ 8 - 127) * 30103 / 100000 + 1) :
    realToString f32 pre bits p 0 = .ok (pre ++ FmtSpec.format32 bits p .default) := by
  have hnz : (bits / 2 ^ 23) % 2 ^ 8 ≠ 0 ∨ bits % 2 ^ 23 ≠ 0 := Or.inl (by omega)
  have hfl : bits % 2 ^ 23 < 2 ^ 23 := Nat.mod_lt _ (by norm_num)
  have hlt : (bits / 2 ^ 23) % 2 ^ 8 < 2 ^ 8 := Nat.mod_lt _ (by norm_num)
  have hel : (bits / 2 ^ 23) % 2 ^ 8 ≤ 2 * 127 := by omega
  have hpp : (if (0:Nat) = fmtDefault ∧ p = 0 then 1 else p) = (if p = 0 then 1 else p) := by simp [fmtDefault]
  generalize hP : (if p = 0 then 1 else p) = P at *
  have hPpos : 0 < P := by rw [← hP]; split <;> omega
  have hP40 : P ≤ 40 := by rw [← hP]; split <;> omega
  obtain ⟨num, den, hden, hdec, hex⟩ := runSpec_exact_decode (M := 23) (X := 8) (by decide) (by decide) (by decide)
    bits P 0 hfin hnz
  have hB : (2:Nat) ^ (8 - 1) - 1 = 127 := by norm_num
  rw [hB] at hex
  have hdec32 : FmtSpec.decode32 bits = .fin (decide (bits / 2 ^ 31 % 2 = 1)) num den := hdec
  have hpow := decode32_ge_pow hdec32 hge1
  obtain ⟨hdg, hfl0, hpos, hdrop⟩ := runSpec_default_extra32 (f := bits % 2 ^ 23) (P := P) hge1 (by omega) hx
  generalize hpe : (bits / 2 ^ 23) % 2 ^ 8 - 127 = pe at *
  have hpe1130 : pe ≤ 1130 := by omega
  obtain ⟨ht1, ht2⟩ := est_table pe hpe1130
  generalize hr : runSpec 23 127 (bits % 2 ^ 23) ((bits / 2 ^ 23) % 2 ^ 8) P 0 = r at *
  obtain ⟨b, dg, fl, pos, ru⟩ := r
  simp only at hdg hfl0 hpos hex
  subst hfl0; subst hpos
  generalize hd : runDrop 23 127 (bits % 2 ^ 23) ((bits / 2 ^ 23) % 2 ^ 8) P 0 = d at *
  obtain ⟨hb, hru⟩ := hex
  rw [Nat.pow_zero, Nat.mul_one] at hb hru
  -- the integer part
  generalize hn : num / den = n at *
  have hn2 : 2 ^ pe ≤ n := by
    rw [← hn, Nat.le_div_iff_mul_le hden]; exact hpow
  have hnge : 10 ^ (pe * 30103 / 100000) ≤ n := le_trans ht1 hn2
  have hLn : pe * 30103 / 100000 < (D n).length := D_length_gt hnge
  have hnpos : 0 < n := lt_of_lt_of_le (Nat.pow_pos (by decide)) hnge
  have hdenle : den ≤ num := decode32_ge1 hdec32 hge1
  have hbn : b = n / 10 ^ d := by rw [hb, ← Nat.div_div_eq_div_mul, hn]
  have hrun : ru = true ↔ (decide (num % den ≠ 0) = true ∨ n % 10 ^ d ≠ 0) := by
    rw [hru, ← mod_mul_ne_zero_iff num den (10 ^ d) hden, hn]; simp
  have hdd : d + P + 1 ≤ (D n).length := by omega
  have hge : 10 ^ d ≤ n := by
    by_cases hd0 : d = 0
    · subst hd0; rw [Nat.pow_zero]; exact hnpos
    · exact pow_le_of_len (by omega) (by omega)
  have hLnb : (D n).length = (D b).length + d := by rw [hbn]; exact D_length_div hge
  have hbpos : 0 < b := by rw [hbn]; exact Nat.div_pos hge (Nat.pow_pos (by decide))
  have hLb : P < (D b).length := by omega
  have hblen : (D b).length ≤ 320 := by
    have hb1344 := runSpec_lt shape32 (fmt := 0) hfl hel hnz hP40
    rw [hr] at hb1344
    exact D_length_le _ 320 (by decide) (lt_of_lt_of_le hb1344 (Nat.pow_le_pow_left (by decide) 320))
  -- model side
  rw [realToString_finite32 pre bits p 0 hfin hnz, hpp, realFinite_reduce shape32 _ hfl hel hnz hP40, hr]
  have hR : R b = Rl b := by simp [R, Rl]; omega
  unfold layout
  have e1 : ¬ ((0:Nat) = fmtSemiFixed) := by decide
  have e2 : ¬ ((0:Nat) = fmtFixed) := by decide
  simp only [e1, e2, if_false, hR]
  obtain ⟨T, z, pi, hfmt, hT0, hT10, hk, hpi, hpi2⟩ :=
    formatDefault_round_int (if bits / 2 ^ 31 % 2 = 1 then pre ++ [45] else pre) (dg := dg) ru hbpos hPpos hLb (by omega)
  rw [hfmt]
  -- reference side
  have hshift : keptUp n ((D n).length - P - 1) (decide (num % den ≠ 0)) = keptUp b ((D b).length - P - 1) ru := by
    rw [show (D n).length - P - 1 = ((D b).length - P - 1) + d by omega, hbn]
    exact keptUp_shift' hrun
  have hle : keptUp n ((D n).length - P - 1) (decide (num % den ≠ 0)) ≤ 10 ^ P := by
    rw [hshift]
    cases hpi' : pi
    · exact Nat.le_of_lt (hpi2 hpi')
    · exact Nat.le_of_eq (hpi.mp hpi')
  have hbody := generalBody_sci' (p := p) hden hdenle (by rw [hP, hn]; omega) hT0 hT10
    (by rw [hP, hn, hshift]; exact hk) (by rw [hP, hn]; exact hle)
  rw [format32_finite bits p _ hdec32]
  simp only []
  rw [hbody, hP, hn, hshift]
  have hX : (D b).length + (if dg ≤ P then 0 else dg - (P + 1)) - (if pi = true then 0 else 1) =
      (D n).length - 1 + (if keptUp b ((D b).length - P - 1) ru = 10 ^ P then 1 else 0) := by
    have hdd2 : (if dg ≤ P then 0 else dg - (P + 1)) = d := by rw [hdrop, hdg]; split <;> omega
    rw [hdd2]
    cases hpi' : pi
    · have : ¬ (keptUp b ((D b).length - P - 1) ru = 10 ^ P) := fun hc => by have := hpi.mpr hc; rw [hpi'] at this; cases this
      simp [this]; omega
    · have : keptUp b ((D b).length - P - 1) ru = 10 ^ P := hpi.mp hpi'
      simp [this]; omega
  rw [hX]
  by_cases hs : bits / 2147483648 % 2 = 1 <;> simp [hs, FmtSpec.signed, FmtSpec.cMinus]

/-- the closed-form digit run in the Default format for a float ≥ 1 with a fraction whose digit estimate fits the
precision -/
theorem runSpec_default_frac32 {f e P : Nat} (hpos : 127 ≤ e) (he0 : e ≠ 0)
    (hx : (e - 127) * 30103 / 100000 + 1 ≤ P) (hfb : 0 < fracBits 23 127 f e) :
    runSpec 23 127 f e P 0 =
      (mant 23 f e / 2 ^ findFirstBit (mant 23 f e) *
          5 ^ fracLen (fracBits 23 127 f e) (P - ((e - 127) * 30103 / 100000 + 1)) /
          2 ^ fracShift (fracBits 23 127 f e) (P - ((e - 127) * 30103 / 100000 + 1)),
        (e - 127) * 30103 / 100000 + 1,
        fracLen (fracBits 23 127 f e) (P - ((e - 127) * 30103 / 100000 + 1)), true,
        decide (P - ((e - 127) * 30103 / 100000 + 1) + 1 < fracBits 23 127 f e)) ∧
    runDrop 23 127 f e P 0 = 0 := by
  have hfix : (decide ((0:Nat) = fmtSemiFixed) || decide ((0:Nat) = fmtFixed)) = false := by decide
  have hest : ∀ j, estDigits 23 j (e - 127) e = (e - 127) * 30103 / 100000 + 1 := by
    intro j; unfold estDigits; rw [if_neg he0]; simp
  have hnx : ¬ (P < (e - 127) * 30103 / 100000 + 1) := by omega
  simp only [fracBits, hpos, if_true] at hfb
  have hnb : ¬ (23 - findFirstBit (mant 23 f e) ≤ e - 127) := by omega
  simp only [runSpec, runDrop, fracBits, hpos, if_true, decide_true, Bool.true_and, hfix, Bool.not_false, Bool.and_true,
    hest, hnx, hnb, decide_false, Bool.or_false, Bool.false_eq_true, if_false]
  exact ⟨trivial, trivial⟩

/-- **Default format, every float ≥ 1 with a fraction whose digit estimate fits the precision**: the fraction block
produces `min(fracBits, P - estimate + 1)` fractional digits exactly, the run is rounded half-even at the `P`-th
significant digit (or not at all when it is short), and the text is `%.{p}g` — plain, with the point, or in the
`e+XX` style when the rounding carries into a new leading digit. -/
theorem default_frac32 (pre : List Nat) (bits p : Nat) (hp : p ≤ 40)
    (hfin : (bits / 2 ^ 23) % 2 ^ 8 ≠ 2 ^ 8 - 1) (hge1 : 127 ≤ (bits / 2 ^ 23) % 2 ^ 8)
    (hx : ((bits / 2 ^ 23) % 2 ^ 8 - 127) * 30103 / 100000 + 1 ≤ (if p = 0 then 1 else p))
    (hfb : 0 < fracBits 23 127 (bits % 2 ^ 23) ((bits / 2 ^ 23) % 2 ^ 8)) :
    realToString f32 pre bits p 0 = .ok (pre ++ FmtSpec.format32 bits p .default) := by
  have hnz : (bits / 2 ^ 23) % 2 ^ 8 ≠ 0 ∨ bits % 2 ^ 23 ≠ 0 := Or.inl (by omega)
  have hfl : bits % 2 ^ 23 < 2 ^ 23 := Nat.mod_lt _ (by norm_num)
  have hlt : (bits / 2 ^ 23) % 2 ^ 8 < 2 ^ 8 := Nat.mod_lt _ (by norm_num)
  have hel : (bits / 2 ^ 23) % 2 ^ 8 ≤ 2 * 127 := by omega
  have hpp : (if (0:Nat) = fmtDefault ∧ p = 0 then 1 else p) = (if p = 0 then 1 else p) := by simp [fmtDefault]
  generalize hP : (if p = 0 then 1 else p) = P at *
  have hPpos : 0 < P := by rw [← hP]; split <;> omega
  have hP40 : P ≤ 40 := by rw [← hP]; split <;> omega
  obtain ⟨num, den, hden, hdec, hex⟩ := runSpec_exact_decode (M := 23) (X := 8) (by decide) (by decide) (by decide)
    bits P 0 hfin hnz
  have hB : (2:Nat) ^ (8 - 1) - 1 = 127 := by norm_num
  rw [hB] at hex
  have hdec32 : FmtSpec.decode32 bits = .fin (decide (bits / 2 ^ 31 % 2 = 1)) num den := hdec
  have hpow := decode32_ge_pow hdec32 hge1
  have hdenle : den ≤ num := decode32_ge1 hdec32 hge1
  obtain ⟨hrs, hrd⟩ := runSpec_default_frac32 (f := bits % 2 ^ 23) (P := P) hge1 (by omega) hx hfb
  have hmm := findFirstBit_mant (M := 23) (by decide) (mant_pos (M := 23) hnz) (mant_lt (e := (bits / 2 ^ 23) % 2 ^ 8) hfl)
  have hb1344 := runSpec_lt shape32 (fmt := 0) hfl hel hnz hP40
  rw [hrs] at hb1344
  simp only at hb1344
  rw [hrs, hrd] at hex
  simp only [Nat.pow_zero, Nat.mul_one] at hex
  generalize hpe : (bits / 2 ^ 23) % 2 ^ 8 - 127 = pe at *
  have hpe1130 : pe ≤ 1130 := by omega
  obtain ⟨ht1, ht2⟩ := est_table pe hpe1130
  generalize hfbd : fracBits 23 127 (bits % 2 ^ 23) ((bits / 2 ^ 23) % 2 ^ 8) = fb at *
  generalize hmo : mant 23 (bits % 2 ^ 23) ((bits / 2 ^ 23) % 2 ^ 8) /
      2 ^ findFirstBit (mant 23 (bits % 2 ^ 23) ((bits / 2 ^ 23) % 2 ^ 8)) = mo at *
  generalize hdgd : pe * 30103 / 100000 = dg1 at *
  -- the exact case: an odd multiple of a power of five
  have hodd : ¬ (P - (dg1 + 1) + 1 < fb) →
      (mo * 5 ^ fracLen fb (P - (dg1 + 1)) / 2 ^ fracShift fb (P - (dg1 + 1))) % 10 = 5 := by
    intro hno
    have e1 : fracLen fb (P - (dg1 + 1)) = fb := by unfold fracLen; rw [if_neg hno]
    have e2 : fracShift fb (P - (dg1 + 1)) = 0 := by unfold fracShift; rw [if_neg hno]
    rw [e1, e2, Nat.pow_zero, Nat.div_one]
    apply odd5_mod10 (odd_mul_odd hmm.2.2 (pow5_odd fb))
    obtain ⟨k, rfl⟩ := Nat.exists_eq_succ_of_ne_zero (by omega : fb ≠ 0)
    rw [Nat.pow_succ, ← Nat.mul_assoc]; exact Nat.mul_mod_left _ _
  have hfl0 : 0 < fracLen fb (P - (dg1 + 1)) := by unfold fracLen; split <;> omega
  have hflle : fracLen fb (P - (dg1 + 1)) ≤ P - (dg1 + 1) + 1 := by unfold fracLen; split <;> omega
  have hfleq : ¬ (P - (dg1 + 1) + 1 < fb) ∨ fracLen fb (P - (dg1 + 1)) = P - (dg1 + 1) + 1 := by
    unfold fracLen; by_cases h : P - (dg1 + 1) + 1 < fb
    · right; rw [if_pos h]
    · left; exact h
  generalize hfld : fracLen fb (P - (dg1 + 1)) = fl at *
  generalize hbd : mo * 5 ^ fl / 2 ^ fracShift fb (P - (dg1 + 1)) = b at *
  generalize hrud : decide (P - (dg1 + 1) + 1 < fb) = ru at *
  obtain ⟨hb, hru⟩ := hex
  -- the integer part
  generalize hn : num / den = n at *
  have hn2 : 2 ^ pe ≤ n := by
    rw [← hn, Nat.le_div_iff_mul_le hden]; exact hpow
  have hnge : 10 ^ dg1 ≤ n := le_trans ht1 hn2
  have hLn : dg1 < (D n).length := D_length_gt hnge
  have hnpos : 0 < n := lt_of_lt_of_le (Nat.pow_pos (by decide)) hnge
  have hbn : b / 10 ^ fl = n := by
    rw [hb, Nat.div_div_eq_div_mul, Nat.mul_div_mul_right _ _ (Nat.pow_pos (by decide)), hn]
  have hbge : 10 ^ fl ≤ b := by
    have h10 : 0 < 10 ^ fl := Nat.pow_pos (by decide)
    have : 1 ≤ b / 10 ^ fl := by omega
    rw [Nat.le_div_iff_mul_le h10] at this; omega
  have hLb : (D b).length = (D n).length + fl := by rw [D_length_div hbge, hbn]
  have hbpos : 0 < b := lt_of_lt_of_le (Nat.pow_pos (by decide)) hbge
  have hblen : (D b).length ≤ 320 :=
    D_length_le _ 320 (by decide) (lt_of_lt_of_le hb1344 (Nat.pow_le_pow_left (by decide) 320))
  have hb10 : (D b).length ≤ P → b % 10 ≠ 0 := by
    intro hLP
    rcases hfleq with h | h
    · rw [hodd h]; decide
    · omega
  -- model side
  rw [realToString_finite32 pre bits p 0 hfin hnz, hpp, realFinite_reduce shape32 _ hfl hel hnz hP40, hrs]
  have hR : R b = Rl b := by simp [R, Rl]; omega
  unfold layout
  have e1 : ¬ ((0:Nat) = fmtSemiFixed) := by decide
  have e2 : ¬ ((0:Nat) = fmtFixed) := by decide
  simp only [e1, e2, if_false, hR]
  have hmodel := formatDefault_frac_ge1 (if bits / 2 ^ 31 % 2 = 1 then pre ++ [45] else pre) (b := b) (P := P)
    (dg := dg1 + 1) (fl := fl) ru hbpos hPpos hx hfl0 (by omega) hb10 (by omega)
  rw [format32_finite bits p _ hdec32]
  simp only []
  have hsign : ∀ body : List Nat, (if bits / 2 ^ 31 % 2 = 1 then pre ++ [45] else pre) ++ body =
      pre ++ FmtSpec.signed (decide (bits / 2 ^ 31 % 2 = 1)) body := by
    intro body
    by_cases hs : bits / 2147483648 % 2 = 1 <;> simp [hs, FmtSpec.signed, FmtSpec.cMinus]
  by_cases hLP : (D b).length ≤ P
  · -- short run: nothing is rounded
    rw [if_pos hLP] at hmodel
    rw [hmodel, List.append_assoc, hsign]
    refine congrArg (fun x => Except.ok (pre ++ FmtSpec.signed _ x)) ?_
    have hnof : ¬ (P - (dg1 + 1) + 1 < fb) := by
      rcases hfleq with h | h
      · exact h
      · omega
    have hruf : ru = false := by rw [← hrud]; simp [hnof]
    have hrem : num * 10 ^ fl % den = 0 := by
      by_contra hcon
      have := hru.mpr hcon
      rw [hruf] at this; cases this
    have hexact : num * 10 ^ fl = b * den := by
      rw [hb]; exact (Nat.div_mul_cancel (Nat.dvd_of_mod_eq_zero hrem)).symm
    have hmid := generalBody_mid (p := p) hden hdenle (by rw [hP, hn]; omega)
    rw [hP, hn] at hmid
    rw [hmid, if_neg (by intro h; omega), ← fixedBody_eq_text,
      fixedBody_exact hden hexact (by omega) (by omega)]
    obtain ⟨k, hk⟩ := Nat.exists_eq_succ_of_ne_zero (by omega : fl ≠ 0)
    have hxm : (b % 10 ^ fl) % 10 ≠ 0 := by
      rw [Nat.mod_mod_of_dvd _ (by rw [hk, Nat.pow_succ]; exact Nat.dvd_mul_left _ _)]; exact hb10 hLP
    rw [hk] at hxm ⊢
    rw [stripFraction_exact _ _ _ _ hxm]
  · rw [if_neg hLP] at hmodel
    obtain ⟨T, z, pi, hT0, hT10, hk, hpiff, hpilt, hfmt⟩ := hmodel
    rw [hfmt, hsign]
    refine congrArg (fun x => Except.ok (pre ++ FmtSpec.signed _ x)) ?_
    rw [show (D b).length - fl = (D n).length by omega]
    by_cases hLnP : (D n).length ≤ P
    · have hmid := generalBody_mid (p := p) hden hdenle (by rw [hP, hn]; exact hLnP)
      rw [hP, hn] at hmid
      have hKk : FmtSpec.roundHalfEven (num * 10 ^ (P - (D n).length)) den = keptUp b ((D b).length - P - 1) ru := by
        have h1 := roundHalfEven_digits (N := num * 10 ^ fl) (den := den) (b := b) (i := (D b).length - P - 1) (ru := ru)
          hden hb hru
        have efl : fl = (P - (D n).length) + ((D b).length - P - 1 + 1) := by omega
        rw [show num * 10 ^ fl = num * 10 ^ (P - (D n).length) * 10 ^ ((D b).length - P - 1 + 1) by
          rw [Nat.mul_assoc, ← Nat.pow_add, ← efl], roundHalfEven_scale _ _ _ (Nat.pow_pos (by decide))] at h1
        unfold keptUp; exact h1
      rw [hmid, hKk]
      by_cases hcond : keptUp b ((D b).length - P - 1) ru = 10 ^ P ∧ (D n).length = P
      · have hpiv : pi = true := hpiff.mpr hcond.1
        obtain ⟨rfl, rfl⟩ := pow10_factor hT10 (by rw [← hk, hcond.1])
        rw [if_pos hcond, hpiv]
        simp only [if_true, Nat.sub_zero]
        rw [if_pos (by omega), hcond.2]
      · rw [if_neg hcond, if_neg]
        intro hc
        apply hcond
        cases hpiv : pi
        · rw [hpiv] at hc; simp at hc; omega
        · rw [hpiv] at hc; simp at hc
          exact ⟨hpiff.mp hpiv, by omega⟩
    · have hshift : keptUp n ((D n).length - P - 1) (decide (num % den ≠ 0)) = keptUp b ((D b).length - P - 1) ru := by
        rw [show (D b).length - P - 1 = ((D n).length - P - 1) + fl by omega, ← hbn]
        refine (keptUp_shift' ?_).symm
        have h1 := mod_mul_ne_zero_iff (num * 10 ^ fl) den (10 ^ fl) hden
        rw [← hb, Nat.mul_mod_mul_right] at h1
        have h10 : 0 < 10 ^ fl := Nat.pow_pos (by decide)
        simp only [decide_eq_true_eq]
        rw [hru]
        constructor
        · intro h
          apply h1.mpr
          intro h0
          rcases Nat.mul_eq_zero.mp h0 with h0 | h0 <;> omega
        · intro h
          have := h1.mp h
          intro h0; rw [h0, Nat.zero_mul] at this; exact this rfl
      have hle : keptUp n ((D n).length - P - 1) (decide (num % den ≠ 0)) ≤ 10 ^ P := by
        rw [hshift]
        cases hpi' : pi
        · exact Nat.le_of_lt (hpilt hpi')
        · exact Nat.le_of_eq (hpiff.mp hpi')
      have hbody := generalBody_sci' (p := p) hden hdenle (by rw [hP, hn]; omega) hT0 hT10
        (by rw [hP, hn, hshift]; exact hk) (by rw [hP, hn]; exact hle)
      rw [hbody, hP, hn, hshift]
      have hX : (D n).length - (if pi = true then 0 else 1) =
          (D n).length - 1 + (if keptUp b ((D b).length - P - 1) ru = 10 ^ P then 1 else 0) := by
        cases hpi' : pi
        · have : ¬ (keptUp b ((D b).length - P - 1) ru = 10 ^ P) := fun hc => by have := hpiff.mpr hc; rw [hpi'] at this; cases this
          simp [this]
        · have : keptUp b ((D b).length - P - 1) ru = 10 ^ P := hpiff.mp hpi'
          simp [this]; omega
      rw [if_pos (by split <;> omega), hX]

/-- the closed-form digit run of an integer-valued float whose digit estimate fits the precision: the integer
itself, nothing dropped, nothing sticky -/
theorem runSpec_default_int32 {f e P : Nat} (hpos : 127 ≤ e) (he0 : e ≠ 0)
    (hx : (e - 127) * 30103 / 100000 + 1 ≤ P) (hfb : fracBits 23 127 f e = 0) :
    (runSpec 23 127 f e P 0).2.1 = (e - 127) * 30103 / 100000 + 1 ∧
    (runSpec 23 127 f e P 0).2.2.1 = 0 ∧ (runSpec 23 127 f e P 0).2.2.2.1 = true ∧
    (runSpec 23 127 f e P 0).2.2.2.2 = false ∧ runDrop 23 127 f e P 0 = 0 := by
  have hfix : (decide ((0:Nat) = fmtSemiFixed) || decide ((0:Nat) = fmtFixed)) = false := by decide
  have hest : ∀ j, estDigits 23 j (e - 127) e = (e - 127) * 30103 / 100000 + 1 := by
    intro j; unfold estDigits; rw [if_neg he0]; simp
  have hnx : ¬ (P < (e - 127) * 30103 / 100000 + 1) := by omega
  simp only [fracBits, hpos, if_true] at hfb
  have hnb : (23 - findFirstBit (mant 23 f e) ≤ e - 127) := by omega
  have hj : ¬ (findFirstBit (mant 23 f e) < 23 + 0 - (e - 127)) := by omega
  simp only [runSpec, runDrop, hpos, if_true, decide_true, Bool.true_and, hfix, Bool.not_false, Bool.and_true,
    hest, hnx, hnb, decide_false, Bool.or_false, Bool.false_eq_true, if_false, Bool.true_or, hj, Bool.and_false,
    Nat.pow_zero, Nat.mod_one, ne_eq, not_true_eq_false, Bool.false_or]
  exact ⟨trivial, trivial, trivial, trivial, trivial⟩

/-- **Default format, integer-valued floats whose digit estimate fits the precision** (so at most `P + 1`
digits): the plain numeral, or `d.ddde+XX` after rounding when there is one digit too many -/
theorem default_int_fit32 (pre : List Nat) (bits p : Nat) (hp : p ≤ 40)
    (hfin : (bits / 2 ^ 23) % 2 ^ 8 ≠ 2 ^ 8 - 1) (hge1 : 127 ≤ (bits / 2 ^ 23) % 2 ^ 8)
    (hx : ((bits / 2 ^ 23) % 2 ^ 8 - 127) * 30103 / 100000 + 1 ≤ (if p = 0 then 1 else p))
    (hfb : fracBits 23 127 (bits % 2 ^ 23) ((bits / 2 ^ 23) % 2 ^ 8) = 0) :
    realToString f32 pre bits p 0 = .ok (pre ++ FmtSpec.format32 bits p .default) := by
  have hnz : (bits / 2 ^ 23) % 2 ^ 8 ≠ 0 ∨ bits % 2 ^ 23 ≠ 0 := Or.inl (by omega)
  have hfl : bits % 2 ^ 23 < 2 ^ 23 := Nat.mod_lt _ (by norm_num)
  have hlt : (bits / 2 ^ 23) % 2 ^ 8 < 2 ^ 8 := Nat.mod_lt _ (by norm_num)
  have hel : (bits / 2 ^ 23) % 2 ^ 8 ≤ 2 * 127 := by omega
  have hpp : (if (0:Nat) = fmtDefault ∧ p = 0 then 1 else p) = (if p = 0 then 1 else p) := by simp [fmtDefault]
  generalize hP : (if p = 0 then 1 else p) = P at *
  have hPpos : 0 < P := by rw [← hP]; split <;> omega
  have hP40 : P ≤ 40 := by rw [← hP]; split <;> omega
  obtain ⟨num, den, hden, hdec, hex⟩ := runSpec_exact_decode (M := 23) (X := 8) (by decide) (by decide) (by decide)
    bits P 0 hfin hnz
  have hB : (2:Nat) ^ (8 - 1) - 1 = 127 := by norm_num
  rw [hB] at hex
  have hdec32 : FmtSpec.decode32 bits = .fin (decide (bits / 2 ^ 31 % 2 = 1)) num den := hdec
  have hpow := decode32_ge_pow hdec32 hge1
  have hdenle : den ≤ num := decode32_ge1 hdec32 hge1
  obtain ⟨hdg, hfl0, hpos, hruf, hdrop⟩ := runSpec_default_int32 (f := bits % 2 ^ 23) (P := P) hge1 (by omega) hx hfb
  have hb1344 := runSpec_lt shape32 (fmt := 0) hfl hel hnz hP40
  generalize hpe : (bits / 2 ^ 23) % 2 ^ 8 - 127 = pe at *
  have hpe1130 : pe ≤ 1130 := by omega
  obtain ⟨ht1, ht2⟩ := est_table pe hpe1130
  generalize hr : runSpec 23 127 (bits % 2 ^ 23) ((bits / 2 ^ 23) % 2 ^ 8) P 0 = r at *
  obtain ⟨b, dg, fl, pos, ru⟩ := r
  simp only at hdg hfl0 hpos hruf hex hb1344
  subst hfl0; subst hpos; subst hruf
  rw [hdrop] at hex
  obtain ⟨hb, hru⟩ := hex
  rw [Nat.pow_zero, Nat.mul_one, Nat.mul_one] at hb hru
  have hrem : num % den = 0 := by
    by_contra hcon
    have := hru.mpr hcon; cases this
  have hnum : num = b * den := by rw [hb]; exact (Nat.div_mul_cancel (Nat.dvd_of_mod_eq_zero hrem)).symm
  have hn2 : 2 ^ pe ≤ b := by rw [hb, Nat.le_div_iff_mul_le hden]; exact hpow
  have hnge : 10 ^ (pe * 30103 / 100000) ≤ b := le_trans ht1 hn2
  have hLn : pe * 30103 / 100000 < (D b).length := D_length_gt hnge
  have hbpos : 0 < b := lt_of_lt_of_le (Nat.pow_pos (by decide)) hnge
  have hblen : (D b).length ≤ 320 :=
    D_length_le _ 320 (by decide) (lt_of_lt_of_le hb1344 (Nat.pow_le_pow_left (by decide) 320))
  rw [realToString_finite32 pre bits p 0 hfin hnz, hpp, realFinite_reduce shape32 _ hfl hel hnz hP40, hr]
  have hR : R b = Rl b := by simp [R, Rl]; omega
  unfold layout
  have e1 : ¬ ((0:Nat) = fmtSemiFixed) := by decide
  have e2 : ¬ ((0:Nat) = fmtFixed) := by decide
  simp only [e1, e2, if_false, hR]
  rw [format32_finite bits p _ hdec32]
  simp only []
  have hsign : ∀ body : List Nat, (if bits / 2 ^ 31 % 2 = 1 then pre ++ [45] else pre) ++ body =
      pre ++ FmtSpec.signed (decide (bits / 2 ^ 31 % 2 = 1)) body := by
    intro body
    by_cases hs : bits / 2147483648 % 2 = 1 <;> simp [hs, FmtSpec.signed, FmtSpec.cMinus]
  by_cases hLP : (D b).length ≤ P
  · rw [formatDefault_integer _ (Rl b) P dg (by rw [Rl_length]; exact hLP), hsign]
    refine congrArg (fun x => Except.ok (pre ++ FmtSpec.signed _ x)) ?_
    rw [hnum, generalBody_int b hden hbpos p (by rw [hP]; exact hLP)]
    simp [Rl]
  · obtain ⟨T, z, pi, hfmt, hT0, hT10, hk, hpi, hpi2⟩ :=
      formatDefault_round_int (if bits / 2 ^ 31 % 2 = 1 then pre ++ [45] else pre) (dg := dg) (p := P) false hbpos hPpos
        (by omega) (by omega)
    rw [hfmt, hsign]
    refine congrArg (fun x => Except.ok (pre ++ FmtSpec.signed _ x)) ?_
    have hle : keptUp b ((D b).length - P - 1) false ≤ 10 ^ P := by
      cases hpi' : pi
      · exact Nat.le_of_lt (hpi2 hpi')
      · exact Nat.le_of_eq (hpi.mp hpi')
    have hbody := generalBody_sci (p := p) hden hbpos (by rw [hP]; omega) hT0 hT10 (by rw [hP]; exact hk)
      (by rw [hP]; exact hle)
    rw [hnum, hbody, hP]
    have hX : (D b).length + (if dg ≤ P then 0 else dg - (P + 1)) - (if pi = true then 0 else 1) =
        (D b).length - 1 + (if keptUp b ((D b).length - P - 1) false = 10 ^ P then 1 else 0) := by
      rw [if_pos (by omega)]
      cases hpi' : pi
      · have : ¬ (keptUp b ((D b).length - P - 1) false = 10 ^ P) := fun hc => by have := hpi.mpr hc; rw [hpi'] at this; cases this
        simp [this]
      · have : keptUp b ((D b).length - P - 1) false = 10 ^ P := hpi.mp hpi'
        simp [this]; omega
    rw [hX]

/-- a float with biased exponent below the bias is below one, and at least `2^-lowExp` -/
theorem decode32_lt1 {bits num den : Nat} {neg : Bool} (h : FmtSpec.decode32 bits = .fin neg num den)
    (he : (bits / 2 ^ 23) % 2 ^ 8 < 127) (hnz : (bits / 2 ^ 23) % 2 ^ 8 ≠ 0 ∨ bits % 2 ^ 23 ≠ 0) :
    num < den ∧ den ≤ num * 2 ^ lowExp 23 127 (bits % 2 ^ 23) ((bits / 2 ^ 23) % 2 ^ 8) := by
  unfold FmtSpec.decode32 FmtSpec.decode at h
  have hfl : bits % 2 ^ 23 < 2 ^ 23 := Nat.mod_lt _ (by norm_num)
  have hmm := findFirstBit_mant (M := 23) (by decide) (mant_pos (M := 23) hnz) (mant_lt (e := (bits / 2 ^ 23) % 2 ^ 8) hfl)
  unfold lowExp
  generalize (bits / 2 ^ 23) % 2 ^ 8 = e at *
  generalize hf : bits % 2 ^ 23 = f at *
  simp only [show (2:Nat) ^ (8 - 1) - 1 = 127 by norm_num, show ¬ (e = 2 ^ 8 - 1) by omega, if_false] at h
  by_cases he0 : e = 0
  · subst he0
    have hf0 : f ≠ 0 := by omega
    simp only [if_true, show ¬ (127 + 23 ≤ 1) by omega, if_false] at h
    injection h with _ hn hd
    subst hn; subst hd
    have hmant : mant 23 f 0 = 2 * f := by unfold mant; simp
    rw [hmant] at hmm ⊢
    generalize findFirstBit (2 * f) = j at *
    obtain ⟨hj, hdiv, hoddq⟩ := hmm
    have hj1 : 1 ≤ j := by
      by_contra hc
      have : j = 0 := by omega
      subst this; simp at hoddq
    have h2j : 2 ^ j ≤ 2 * f := Nat.le_of_dvd (by omega) (Nat.dvd_of_mod_eq_zero hdiv)
    have hfj : 2 ^ (j - 1) ≤ f := by
      have : 2 ^ j = 2 * 2 ^ (j - 1) := by rw [show j = (j - 1) + 1 by omega, Nat.pow_succ]; simp; ring
      omega
    refine ⟨?_, ?_⟩
    · calc f < 2 ^ 23 := hfl
        _ ≤ 2 ^ (127 + 23 - 1) := Nat.pow_le_pow_right (by decide) (by omega)
    · simp only [if_true]
      calc 2 ^ (127 + 23 - 1) = 2 ^ (j - 1) * 2 ^ (127 - 0 + (23 - j)) := by rw [← Nat.pow_add]; congr 1; omega
        _ ≤ f * 2 ^ (127 - 0 + (23 - j)) := Nat.mul_le_mul_right _ hfj
  · simp only [he0, if_false, show ¬ (127 + 23 ≤ e) by omega] at h
    injection h with _ hn hd
    subst hn; subst hd
    refine ⟨?_, ?_⟩
    · calc 2 ^ 23 + f < 2 ^ 23 + 2 ^ 23 := by omega
        _ = 2 ^ 24 := by norm_num
        _ ≤ 2 ^ (127 + 23 - e) := Nat.pow_le_pow_right (by decide) (by omega)
    · rw [if_neg he0, Nat.add_zero]
      calc 2 ^ (127 + 23 - e) = 2 ^ 23 * 2 ^ (127 - e) := by rw [← Nat.pow_add]; congr 1; omega
        _ ≤ (2 ^ 23 + f) * 2 ^ (127 - e) := Nat.mul_le_mul_right _ (Nat.le_add_right _ _)

/-- the closed-form digit run of a float below one (any format): `estimate + p + 1` fractional digits, or all of
them when the binary fraction is shorter -/
theorem runSpec_lt1_32 {f e p fmt : Nat} (hneg : e < 127) :
    runSpec 23 127 f e p fmt =
      (mant 23 f e / 2 ^ findFirstBit (mant 23 f e) *
          5 ^ fracLen (fracBits 23 127 f e) (lowExp 23 127 f e * 30103 / 100000 + 1 + p) /
          2 ^ fracShift (fracBits 23 127 f e) (lowExp 23 127 f e * 30103 / 100000 + 1 + p),
        lowExp 23 127 f e * 30103 / 100000 + 1,
        fracLen (fracBits 23 127 f e) (lowExp 23 127 f e * 30103 / 100000 + 1 + p), false,
        decide (lowExp 23 127 f e * 30103 / 100000 + 1 + p + 1 < fracBits 23 127 f e)) ∧
    runDrop 23 127 f e p fmt = 0 := by
  have hpos : ¬ (127 ≤ e) := by omega
  simp only [runSpec, runDrop, fracBits, lowExp, estDigits, hpos, if_false, decide_false, Bool.false_and,
    Bool.false_eq_true]
  exact ⟨trivial, trivial⟩

/-- everything the layout proofs need about the digit run of a float below one -/
theorem run_lt1_32 (bits P fmt : Nat) (hP40 : P ≤ 40)
    (hlt1 : (bits / 2 ^ 23) % 2 ^ 8 < 127) (hnz : (bits / 2 ^ 23) % 2 ^ 8 ≠ 0 ∨ bits % 2 ^ 23 ≠ 0) :
    ∃ num den b fl dg ru, 0 < den ∧
      FmtSpec.decode32 bits = .fin (decide (bits / 2 ^ 31 % 2 = 1)) num den ∧ num < den ∧ 0 < num ∧
      runSpec 23 127 (bits % 2 ^ 23) ((bits / 2 ^ 23) % 2 ^ 8) P fmt = (b, dg, fl, false, ru) ∧
      b = num * 10 ^ fl / den ∧ (ru = true ↔ num * 10 ^ fl % den ≠ 0) ∧
      0 < b ∧ (D b).length ≤ fl ∧ 0 < dg ∧ dg ≤ fl ∧ fl ≤ dg + P + 1 ∧
      (fl < dg + P + 1 → ru = false ∧ b % 10 = 5) ∧ (D b).length ≤ 320 ∧
      fl = min (fracBits 23 127 (bits % 2 ^ 23) ((bits / 2 ^ 23) % 2 ^ 8)) (dg + P + 1) ∧
      fl < (D b).length + dg := by
  have hfin : (bits / 2 ^ 23) % 2 ^ 8 ≠ 2 ^ 8 - 1 := by omega
  have hfl : bits % 2 ^ 23 < 2 ^ 23 := Nat.mod_lt _ (by norm_num)
  have hel : (bits / 2 ^ 23) % 2 ^ 8 ≤ 2 * 127 := by omega
  obtain ⟨num, den, hden, hdec, hex⟩ := runSpec_exact_decode (M := 23) (X := 8) (by decide) (by decide) (by decide)
    bits P fmt hfin hnz
  have hB : (2:Nat) ^ (8 - 1) - 1 = 127 := by norm_num
  rw [hB] at hex
  have hdec32 : FmtSpec.decode32 bits = .fin (decide (bits / 2 ^ 31 % 2 = 1)) num den := hdec
  obtain ⟨hnumlt, hlow⟩ := decode32_lt1 hdec32 hlt1 hnz
  obtain ⟨hrs, hrd⟩ := runSpec_lt1_32 (f := bits % 2 ^ 23) (e := (bits / 2 ^ 23) % 2 ^ 8) (p := P) (fmt := fmt) hlt1
  have hmm := findFirstBit_mant (M := 23) (by decide) (mant_pos (M := 23) hnz) (mant_lt (e := (bits / 2 ^ 23) % 2 ^ 8) hfl)
  have hb1344 := runSpec_lt shape32 (fmt := fmt) hfl hel hnz hP40
  rw [hrs] at hb1344
  simp only at hb1344
  rw [hrs, hrd] at hex
  simp only [Nat.pow_zero, Nat.mul_one] at hex
  -- the exponents
  have hE1 : 1 ≤ lowExp 23 127 (bits % 2 ^ 23) ((bits / 2 ^ 23) % 2 ^ 8) := by unfold lowExp; omega
  have hEfb : lowExp 23 127 (bits % 2 ^ 23) ((bits / 2 ^ 23) % 2 ^ 8) ≤
      fracBits 23 127 (bits % 2 ^ 23) ((bits / 2 ^ 23) % 2 ^ 8) := by
    unfold lowExp fracBits
    simp only [show ¬ (127 ≤ (bits / 2 ^ 23) % 2 ^ 8) by omega, if_false]
    split <;> omega
  have hE1130 : lowExp 23 127 (bits % 2 ^ 23) ((bits / 2 ^ 23) % 2 ^ 8) ≤ 1130 := by
    unfold lowExp; split <;> omega
  generalize lowExp 23 127 (bits % 2 ^ 23) ((bits / 2 ^ 23) % 2 ^ 8) = E at *
  obtain ⟨ht1, ht2⟩ := est_table E hE1130
  generalize hfbd : fracBits 23 127 (bits % 2 ^ 23) ((bits / 2 ^ 23) % 2 ^ 8) = fb at *
  generalize hmo : mant 23 (bits % 2 ^ 23) ((bits / 2 ^ 23) % 2 ^ 8) /
      2 ^ findFirstBit (mant 23 (bits % 2 ^ 23) ((bits / 2 ^ 23) % 2 ^ 8)) = mo at *
  generalize hdgd : E * 30103 / 100000 = dg1 at *
  have hdgE : dg1 + 1 ≤ E := by omega
  have hodd : ¬ (dg1 + 1 + P + 1 < fb) →
      (mo * 5 ^ fracLen fb (dg1 + 1 + P) / 2 ^ fracShift fb (dg1 + 1 + P)) % 10 = 5 := by
    intro hno
    have e1 : fracLen fb (dg1 + 1 + P) = fb := by unfold fracLen; rw [if_neg hno]
    have e2 : fracShift fb (dg1 + 1 + P) = 0 := by unfold fracShift; rw [if_neg hno]
    rw [e1, e2, Nat.pow_zero, Nat.div_one]
    apply odd5_mod10 (odd_mul_odd hmm.2.2 (pow5_odd fb))
    obtain ⟨k, rfl⟩ := Nat.exists_eq_succ_of_ne_zero (by omega : fb ≠ 0)
    rw [Nat.pow_succ, ← Nat.mul_assoc]; exact Nat.mul_mod_left _ _
  have hflmin : fracLen fb (dg1 + 1 + P) = min fb (dg1 + 1 + P + 1) := by unfold fracLen; split <;> omega
  have hfleq : ¬ (dg1 + 1 + P + 1 < fb) ∨ fracLen fb (dg1 + 1 + P) = dg1 + 1 + P + 1 := by
    unfold fracLen; by_cases h : dg1 + 1 + P + 1 < fb
    · right; rw [if_pos h]
    · left; exact h
  generalize hfld : fracLen fb (dg1 + 1 + P) = fl at *
  generalize hbd : mo * 5 ^ fl / 2 ^ fracShift fb (dg1 + 1 + P) = b at *
  generalize hrud : decide (dg1 + 1 + P + 1 < fb) = ru at *
  obtain ⟨hb, hru⟩ := hex
  have hnumpos : 0 < num := by
    by_contra hc
    have : num = 0 := by omega
    rw [this, Nat.zero_mul] at hlow; omega
  have hdgfl : dg1 + 1 ≤ fl := by omega
  -- 1 ≤ v · 10^fl
  have hge1 : den ≤ num * 10 ^ fl := by
    calc den ≤ num * 2 ^ E := hlow
      _ ≤ num * 10 ^ (dg1 + 1) := Nat.mul_le_mul_left _ (Nat.le_of_lt ht2)
      _ ≤ num * 10 ^ fl := Nat.mul_le_mul_left _ (Nat.pow_le_pow_right (by decide) hdgfl)
  have hbpos : 0 < b := by rw [hb]; exact Nat.div_pos hge1 hden
  have hblt : b < 10 ^ fl := by
    rw [hb, Nat.div_lt_iff_lt_mul hden]
    calc num * 10 ^ fl < den * 10 ^ fl := Nat.mul_lt_mul_of_pos_right hnumlt (Nat.pow_pos (by decide))
      _ = 10 ^ fl * den := Nat.mul_comm _ _
  refine ⟨num, den, b, fl, dg1 + 1, ru, hden, hdec32, hnumlt, hnumpos, hrs, hb, hru, hbpos,
    (D_length_le_iff (by omega)).mpr hblt, by omega, hdgfl, by omega, ?_, ?_, by omega, ?_⟩
  · intro hlt
    rcases hfleq with h | h
    · refine ⟨?_, hodd h⟩
      rw [← hrud]; simp [h]
    · omega
  · exact D_length_le _ 320 (by decide) (lt_of_lt_of_le hb1344 (Nat.pow_le_pow_left (by decide) 320))
  · have hbge : 10 ^ (fl - (dg1 + 1)) ≤ b := by
      rw [hb, Nat.le_div_iff_mul_le hden]
      calc 10 ^ (fl - (dg1 + 1)) * den ≤ 10 ^ (fl - (dg1 + 1)) * (num * 10 ^ (dg1 + 1)) :=
            Nat.mul_le_mul_left _ (le_trans hlow (Nat.mul_le_mul_left _ (Nat.le_of_lt ht2)))
        _ = num * 10 ^ fl := by
            rw [Nat.mul_comm, Nat.mul_assoc, ← Nat.pow_add, show dg1 + 1 + (fl - (dg1 + 1)) = fl by omega]
    have := D_length_gt hbge
    omega

/-- **Fixed and SemiFixed for every float below one whose binary fraction is longer than the precision**:
`estimate + p + 1` fractional digits are produced exactly (`⌊v·10^fl⌋` plus the sticky flag), rounded half-even at
the `p`-th fractional digit, and laid out as `0.0…0ddd`, `0`, or `1` — exactly `%.{p}f` / its stripped form. -/
theorem long_fraction_lt1_32 (pre : List Nat) (bits p f : Nat) (hf12 : f = 1 ∨ f = 2) (hp : p ≤ 40)
    (hlt1 : (bits / 2 ^ 23) % 2 ^ 8 < 127) (hnz : (bits / 2 ^ 23) % 2 ^ 8 ≠ 0 ∨ bits % 2 ^ 23 ≠ 0)
    (hlt : p < fracBits 23 127 (bits % 2 ^ 23) ((bits / 2 ^ 23) % 2 ^ 8)) :
    realToString f32 pre bits p f = .ok (pre ++ FmtSpec.format32 bits p (fmtOf f)) := by
  have hfin : (bits / 2 ^ 23) % 2 ^ 8 ≠ 2 ^ 8 - 1 := by omega
  have hfl : bits % 2 ^ 23 < 2 ^ 23 := Nat.mod_lt _ (by norm_num)
  have hel : (bits / 2 ^ 23) % 2 ^ 8 ≤ 2 * 127 := by omega
  have hf0 : ¬ (f = fmtDefault ∧ p = 0) := by rcases hf12 with rfl | rfl <;> simp [fmtDefault]
  obtain ⟨num, den, b, fl, dg, ru, hden, hdec32, hnumlt, hnumpos, hrs, hb, hru, hbpos, hLfl, hdg0, hdgfl, hflle, _, hblen,
    hflmin, _⟩ := run_lt1_32 bits p f hp hlt1 hnz
  have hpf : p < fl := by omega
  rw [realToString_finite32 pre bits p f hfin hnz, if_neg hf0, realFinite_reduce shape32 _ hfl hel hnz hp, hrs]
  have hR : R b = Rl b := by simp [R, Rl]; omega
  unfold layout
  simp only [hR]
  have hkept : keptUp b (fl - (p + 1)) ru = FmtSpec.roundHalfEven (num * 10 ^ p) den := by
    have h1 := roundHalfEven_digits (N := num * 10 ^ fl) (den := den) (b := b) (i := fl - (p + 1)) (ru := ru) hden hb hru
    have efl : fl = p + (fl - (p + 1) + 1) := by omega
    rw [show num * 10 ^ fl = num * 10 ^ p * 10 ^ (fl - (p + 1) + 1) by
      rw [Nat.mul_assoc, ← Nat.pow_add, ← efl], roundHalfEven_scale _ _ _ (Nat.pow_pos (by decide))] at h1
    unfold keptUp; rw [h1]
  rcases hf12 with rfl | rfl
  · have e1 : ¬ (1 = fmtSemiFixed) := by decide
    have e2 : (1 = fmtFixed) := by decide
    have e3 : fmtOf 1 = .fixed := by decide
    rw [if_neg e1, if_pos e2, formatFixed_lt1 true _ ru hbpos hLfl hpf (by omega), e3, format32_finite bits p _ hdec32]
    simp only [if_true, fixedBody_eq_text, hkept]
    by_cases hs : bits / 2147483648 % 2 = 1 <;> simp [hs, FmtSpec.signed, FmtSpec.cMinus]
  · have e1 : (2 = fmtSemiFixed) := by decide
    have e3 : fmtOf 2 = .semiFixed := by decide
    rw [if_pos e1, formatFixed_lt1 false _ ru hbpos hLfl hpf (by omega), e3, format32_finite bits p _ hdec32]
    simp only [Bool.false_eq_true, if_false, fixedBody_eq_text, hkept]
    by_cases hs : bits / 2147483648 % 2 = 1 <;> simp [hs, FmtSpec.signed, FmtSpec.cMinus]

/-- **Fixed and SemiFixed for every finite non-zero float** (precision ≤ 40) -/
theorem fixed_finite_32 (pre : List Nat) (bits p f : Nat) (hf12 : f = 1 ∨ f = 2) (hp : p ≤ 40)
    (hfin : (bits / 2 ^ 23) % 2 ^ 8 ≠ 2 ^ 8 - 1) (hnz : (bits / 2 ^ 23) % 2 ^ 8 ≠ 0 ∨ bits % 2 ^ 23 ≠ 0) :
    realToString f32 pre bits p f = .ok (pre ++ FmtSpec.format32 bits p (fmtOf f)) := by
  by_cases hge1 : 127 ≤ (bits / 2 ^ 23) % 2 ^ 8
  · exact fixed_ge1_32 pre bits p f hf12 hp hfin hge1
  · have h0 : 0 < fracBits 23 127 (bits % 2 ^ 23) ((bits / 2 ^ 23) % 2 ^ 8) := by
      unfold fracBits; simp only [hge1, if_false]; omega
    by_cases hle : fracBits 23 127 (bits % 2 ^ 23) ((bits / 2 ^ 23) % 2 ^ 8) ≤ p
    · exact short_fraction32 pre bits p f hf12 hp hfin h0 hle
    · exact long_fraction_lt1_32 pre bits p f hf12 hp (by omega) hnz (by omega)

/-- **Default format (`%.{p}g`) for every non-zero float below one** (subnormals included): the fraction block
produces `estimate + P + 1` fractional digits exactly (or the whole finite expansion), the run is rounded half-even
at its `P`-th significant digit, and the text is `0.000ddd` for up to three (after a carry: four) zeros behind the
point, `d.ddde-XX` otherwise — the reference `%g`, including the re-evaluated exponent after a carry. -/
theorem default_lt1_32 (pre : List Nat) (bits p : Nat) (hp : p ≤ 40)
    (hlt1 : (bits / 2 ^ 23) % 2 ^ 8 < 127) (hnz : (bits / 2 ^ 23) % 2 ^ 8 ≠ 0 ∨ bits % 2 ^ 23 ≠ 0) :
    realToString f32 pre bits p 0 = .ok (pre ++ FmtSpec.format32 bits p .default) := by
  have hfin : (bits / 2 ^ 23) % 2 ^ 8 ≠ 2 ^ 8 - 1 := by omega
  have hfl : bits % 2 ^ 23 < 2 ^ 23 := Nat.mod_lt _ (by norm_num)
  have hel : (bits / 2 ^ 23) % 2 ^ 8 ≤ 2 * 127 := by omega
  have hpp : (if (0:Nat) = fmtDefault ∧ p = 0 then 1 else p) = (if p = 0 then 1 else p) := by simp [fmtDefault]
  generalize hP : (if p = 0 then 1 else p) = P at *
  have hPpos : 0 < P := by rw [← hP]; split <;> omega
  have hP40 : P ≤ 40 := by rw [← hP]; split <;> omega
  obtain ⟨num, den, b, fl, dg, ru, hden, hdec32, hnumlt, hnumpos, hrs, hb, hru, hbpos, hLfl, hdg0, hdgfl, hflle, hexh, hblen,
    hflmin, hLdg⟩ := run_lt1_32 bits P 0 hP40 hlt1 hnz
  have hLpos : 0 < (D b).length := List.length_pos_iff.mpr (D_ne_nil b)
  have hb10 : (D b).length ≤ P → b % 10 ≠ 0 := by
    intro hLP
    rw [(hexh (by omega)).2]; decide
  have hfl400 : fl ≤ 1130 := by
    have h1 : fracBits 23 127 (bits % 2 ^ 23) ((bits / 2 ^ 23) % 2 ^ 8) ≤ 1130 := by
      unfold fracBits; simp only [show ¬ (127 ≤ (bits / 2 ^ 23) % 2 ^ 8) by omega, if_false]; omega
    omega
  obtain ⟨hlow, hhigh⟩ := frac_bounds hden hb hbpos hLfl
  -- model side
  rw [realToString_finite32 pre bits p 0 hfin hnz, hpp, realFinite_reduce shape32 _ hfl hel hnz hP40, hrs]
  have hR : R b = Rl b := by simp [R, Rl]; omega
  unfold layout
  have e1 : ¬ ((0:Nat) = fmtSemiFixed) := by decide
  have e2 : ¬ ((0:Nat) = fmtFixed) := by decide
  simp only [e1, e2, if_false, hR]
  have hmodel := formatDefault_lt1 (if bits / 2 ^ 31 % 2 = 1 then pre ++ [45] else pre) (b := b) (P := P)
    (dg := dg) (fl := fl) ru hbpos hPpos hLfl hb10 (by omega)
  rw [format32_finite bits p _ hdec32]
  simp only []
  have hsign : ∀ body : List Nat, (if bits / 2 ^ 31 % 2 = 1 then pre ++ [45] else pre) ++ body =
      pre ++ FmtSpec.signed (decide (bits / 2 ^ 31 % 2 = 1)) body := by
    intro body
    by_cases hs : bits / 2147483648 % 2 = 1 <;> simp [hs, FmtSpec.signed, FmtSpec.cMinus]
  have href := generalBody_lt1 (p := p) hden hnumpos hlow hhigh (by omega)
  rw [hP] at href
  generalize hdf : fl - (D b).length = df at *
  by_cases hLP : (D b).length ≤ P
  · -- the whole expansion fits: nothing is rounded
    rw [if_pos hLP] at hmodel
    rw [hmodel, hsign]
    refine congrArg (fun x => Except.ok (pre ++ FmtSpec.signed _ x)) ?_
    obtain ⟨hruf, _⟩ := hexh (by omega)
    have hrem : num * 10 ^ fl % den = 0 := by
      by_contra hcon
      have := hru.mpr hcon
      rw [hruf] at this; cases this
    have hexact : num * 10 ^ fl = b * den := by
      rw [hb]; exact (Nat.div_mul_cancel (Nat.dvd_of_mod_eq_zero hrem)).symm
    have hK : FmtSpec.roundHalfEven (num * 10 ^ (P + df)) den = b * 10 ^ (P - (D b).length) := by
      have e : P + df = fl + (P - (D b).length) := by omega
      rw [e, Nat.pow_add, ← Nat.mul_assoc, hexact,
        show b * den * 10 ^ (P - (D b).length) = (b * 10 ^ (P - (D b).length)) * den by ring, roundHalfEven_mul _ hden]
    have hKlt : b * 10 ^ (P - (D b).length) < 10 ^ P := by
      have h1 : b < 10 ^ (D b).length := (D_length_le_iff hLpos).mp (Nat.le_refl _)
      calc b * 10 ^ (P - (D b).length) < 10 ^ (D b).length * 10 ^ (P - (D b).length) :=
            Nat.mul_lt_mul_of_pos_right h1 (Nat.pow_pos (by decide))
        _ = 10 ^ P := by rw [← Nat.pow_add]; congr 1; omega
    rw [href, hK]
    simp only [Nat.ne_of_lt hKlt, if_false]
    by_cases h4 : df + 1 ≤ 4
    · rw [if_pos h4, if_pos h4, show P - 1 + (df + 1) = df + (D b).length + (P - (D b).length) by omega,
        strip_low hbpos (hb10 hLP)]
    · rw [if_neg h4, if_neg h4, strip_sci_pad hbpos (hb10 hLP) (by omega), expText_neg _ (by omega)]
      simp [sciNeg, List.append_assoc]
  · rw [if_neg hLP] at hmodel
    obtain ⟨T, z, pi, hT0, hT10, hk, hpiff, hpilt, hfmt⟩ := hmodel
    rw [hfmt, hsign]
    refine congrArg (fun x => Except.ok (pre ++ FmtSpec.signed _ x)) ?_
    have hKk : FmtSpec.roundHalfEven (num * 10 ^ (P + df)) den = keptUp b ((D b).length - P - 1) ru := by
      have h1 := roundHalfEven_digits (N := num * 10 ^ fl) (den := den) (b := b) (i := (D b).length - P - 1) (ru := ru)
        hden hb hru
      have efl : fl = (P + df) + ((D b).length - P - 1 + 1) := by omega
      rw [show num * 10 ^ fl = num * 10 ^ (P + df) * 10 ^ ((D b).length - P - 1 + 1) by
        rw [Nat.mul_assoc, ← Nat.pow_add, ← efl], roundHalfEven_scale _ _ _ (Nat.pow_pos (by decide))] at h1
      unfold keptUp; exact h1
    rw [href, hKk]
    generalize hKd : keptUp b ((D b).length - P - 1) ru = K at *
    cases hpiv : pi
    · -- no carry out of the top digit
      have hKlt : K < 10 ^ P := hpilt hpiv
      have hKge : 10 ^ (P - 1) ≤ K := by
        rw [← hKd]; unfold keptUp
        have hn1 : 10 ^ ((D b).length - 1) ≤ b := pow_le_of_len (by omega) (by omega)
        have h1 : 10 ^ (P - 1) = 10 ^ ((D b).length - 1) / 10 ^ ((D b).length - P) := by
          rw [Nat.pow_div (by omega) (by decide)]; congr 1; omega
        have h2 : 10 ^ ((D b).length - 1) / 10 ^ ((D b).length - P) ≤ b / 10 ^ ((D b).length - P) := Nat.div_le_div_right hn1
        rw [show (D b).length - P - 1 + 1 = (D b).length - P by omega]
        omega
      have hlenK : (D T).length + z = P := by
        have h1 : (D K).length = (D T).length + z := by rw [hk, D_mul_pow T z hT0]; simp
        have h2 : (D K).length ≤ P := (D_length_le_iff hPpos).mpr hKlt
        have h3 := D_length_gt hKge
        omega
      simp only [Nat.ne_of_lt hKlt, if_false, Bool.false_eq_true]
      by_cases h4 : df + 1 ≤ 4
      · rw [if_pos h4, if_pos h4, hk, show P - 1 + (df + 1) = df + (D T).length + z by omega, strip_low hT0 hT10]
      · rw [if_neg h4, if_neg h4, hk, strip_sci_pad hT0 hT10 (by omega), expText_neg _ (by omega)]
        simp [sciNeg, List.append_assoc]
    · -- the carry produced a new leading digit
      have hK10 : K = 10 ^ P := hpiff.mp hpiv
      obtain ⟨rfl, rfl⟩ := pow10_factor hT10 (by rw [← hk, hK10])
      simp only [hK10, if_true, Nat.add_zero]
      by_cases h4 : df ≤ 4
      · rw [if_pos h4, if_pos h4]
        by_cases h0 : df = 0
        · subst h0
          rw [Nat.add_zero, fixedText_pow _ _ (Nat.le_refl _), Nat.sub_self]
          simp [lowText]
        · have h1 := strip_low (T := 1) (d := df - 1) (w := z - 1) (by decide) (by decide)
          rw [Nat.one_mul, show (D 1).length = 1 by decide, show df - 1 + 1 + (z - 1) = z - 1 + df by omega,
            show df - 1 + 1 = df by omega] at h1
          rw [h1]
      · rw [if_neg h4, if_neg h4]
        have h1 := strip_sci_pad (T := 1) (z := z - 1) (P := z) (by decide) (by decide)
          (by rw [show (D 1).length = 1 by decide]; omega)
        rw [Nat.one_mul] at h1
        rw [h1, expText_neg _ (by omega)]
        simp [sciNeg, List.append_assoc]

/-- **Default (`%.{p}g`) for every finite float of magnitude ≥ 1** -/
theorem default_ge1_32 (pre : List Nat) (bits p : Nat) (hp : p ≤ 40)
    (hfin : (bits / 2 ^ 23) % 2 ^ 8 ≠ 2 ^ 8 - 1) (hge1 : 127 ≤ (bits / 2 ^ 23) % 2 ^ 8) :
    realToString f32 pre bits p 0 = .ok (pre ++ FmtSpec.format32 bits p .default) := by
  by_cases hx : (if p = 0 then 1 else p) < ((bits / 2 ^ 23) % 2 ^ 8 - 127) * 30103 / 100000 + 1
  · exact default_extra32 pre bits p hp hfin hge1 hx
  · by_cases h0 : fracBits 23 127 (bits % 2 ^ 23) ((bits / 2 ^ 23) % 2 ^ 8) = 0
    · exact default_int_fit32 pre bits p hp hfin hge1 (by omega) h0
    · exact default_frac32 pre bits p hp hfin hge1 (by omega) (by omega)

/-- **Default (`%.{p}g`) for every finite non-zero float** (precision ≤ 40) -/
theorem default_finite_32 (pre : List Nat) (bits p : Nat) (hp : p ≤ 40)
    (hfin : (bits / 2 ^ 23) % 2 ^ 8 ≠ 2 ^ 8 - 1) (hnz : (bits / 2 ^ 23) % 2 ^ 8 ≠ 0 ∨ bits % 2 ^ 23 ≠ 0) :
    realToString f32 pre bits p 0 = .ok (pre ++ FmtSpec.format32 bits p .default) := by
  by_cases hge1 : 127 ≤ (bits / 2 ^ 23) % 2 ^ 8
  · exact default_ge1_32 pre bits p hp hfin hge1
  · exact default_lt1_32 pre bits p hp (by omega) hnz

end Qentem.Proofs.NumToStr
