import Qentem.Model.Value
/-! Lemmas about the item storage of an object (`slotFind`, `slotUpd`, `slotRemove`, `liveSlots`). -/
namespace Qentem.Value
open Doc

/-- The value a subscript hands to its caller: the member's value, `undef` for a new member. -/
def foundOrUndef (o : Option Doc) : Doc :=
  match o with
  | some v => v
  | none => undef

theorem slotFind_slotUpd_same (k : Key) (f : Doc → Doc) (s : List Slot) :
    slotFind k (slotUpd k f s) = some (f (foundOrUndef (slotFind k s))) := by
  induction s with
  | nil => simp [slotUpd, slotFind, foundOrUndef]
  | cons a t ih =>
    cases a with
    | none => simp [slotUpd, slotFind, ih]
    | some e =>
      obtain ⟨k2, v⟩ := e
      by_cases h : k2 = k <;> simp [slotUpd, slotFind, h, ih, foundOrUndef]

theorem slotFind_slotUpd_other (k k' : Key) (f : Doc → Doc) (s : List Slot) (h : k' ≠ k) :
    slotFind k' (slotUpd k f s) = slotFind k' s := by
  induction s with
  | nil => simp [slotUpd, slotFind, Ne.symm h]
  | cons a t ih =>
    cases a with
    | none => simp [slotUpd, slotFind, ih]
    | some e =>
      obtain ⟨k2, v⟩ := e
      by_cases h1 : k2 = k
      · subst h1; simp [slotUpd, slotFind, Ne.symm h]
      · by_cases h2 : k2 = k'
        · subst h2; simp [slotUpd, slotFind, h1]
        · simp [slotUpd, slotFind, h1, h2, ih]

theorem slotFind_liveSlots (k : Key) (s : List Slot) : slotFind k (liveSlots s) = slotFind k s := by
  induction s with
  | nil => rfl
  | cons a t ih =>
    cases a with
    | none => simp [liveSlots, slotFind, ih]
    | some e => obtain ⟨k2, v⟩ := e; simp [liveSlots, slotFind, ih]

end Qentem.Value

namespace Qentem.Value
open Doc

/-- All live items in slot order (the value may be `undef`: a member that was never assigned). -/
def liveEntries : List Slot → List (Key × Doc)
  | [] => []
  | none :: r => liveEntries r
  | some e :: r => e :: liveEntries r

def keysOf (s : List Slot) : List Key := (liveEntries s).map (·.1)

/-- no removed items. -/
def noTombstones : List Slot → Bool
  | [] => true
  | none :: _ => false
  | some _ :: r => noTombstones r

theorem liveEntries_liveSlots (s : List Slot) : liveEntries (liveSlots s) = liveEntries s := by
  induction s with
  | nil => rfl
  | cons a t ih => cases a <;> simp [liveSlots, liveEntries, ih]

theorem noTombstones_liveSlots (s : List Slot) : noTombstones (liveSlots s) = true := by
  induction s with
  | nil => rfl
  | cons a t ih => cases a <;> simp [liveSlots, noTombstones, ih]

theorem liveSlots_of_noTombstones (s : List Slot) (h : noTombstones s = true) : liveSlots s = s := by
  induction s with
  | nil => rfl
  | cons a t ih => cases a <;> simp_all [liveSlots, noTombstones]

theorem liveCount_eq (s : List Slot) : liveCount s = (liveEntries s).length := by
  induction s with
  | nil => rfl
  | cons a t ih => cases a <;> simp [liveCount, liveEntries, ih]

theorem slotFind_none_iff (k : Key) (s : List Slot) : slotFind k s = none ↔ k ∉ keysOf s := by
  induction s with
  | nil => simp [slotFind, keysOf, liveEntries]
  | cons a t ih =>
    cases a with
    | none => simpa [slotFind, keysOf, liveEntries] using ih
    | some e =>
      obtain ⟨k2, v⟩ := e
      by_cases h : k2 = k
      · simp [slotFind, keysOf, liveEntries, h]
      · have : ¬ k = k2 := fun h' => h h'.symm
        simp only [slotFind, h, if_false, keysOf, liveEntries, List.map_cons, List.mem_cons, this, false_or]
        simpa [keysOf] using ih

theorem liveEntries_slotUpd_absent (k : Key) (f : Doc → Doc) (s : List Slot) (h : slotFind k s = none) :
    liveEntries (slotUpd k f s) = liveEntries s ++ [(k, f undef)] := by
  induction s with
  | nil => simp [slotUpd, liveEntries]
  | cons a t ih =>
    cases a with
    | none => simp_all [slotUpd, liveEntries, slotFind]
    | some e =>
      obtain ⟨k2, v⟩ := e
      by_cases h1 : k2 = k
      · simp [slotFind, h1] at h
      · simp_all [slotUpd, liveEntries, slotFind]

theorem keysOf_slotUpd_present (k : Key) (f : Doc → Doc) (s : List Slot) (h : slotFind k s ≠ none) :
    keysOf (slotUpd k f s) = keysOf s := by
  induction s with
  | nil => simp [slotFind] at h
  | cons a t ih =>
    cases a with
    | none => simp_all [slotUpd, liveEntries, slotFind, keysOf]
    | some e =>
      obtain ⟨k2, v⟩ := e
      by_cases h1 : k2 = k
      · simp [slotUpd, liveEntries, keysOf, h1]
      · simp_all [slotUpd, liveEntries, slotFind, keysOf]

theorem length_slotUpd_absent (k : Key) (f : Doc → Doc) (s : List Slot) (h : slotFind k s = none) :
    (slotUpd k f s).length = s.length + 1 := by
  induction s with
  | nil => simp [slotUpd]
  | cons a t ih =>
    cases a with
    | none => simp_all [slotUpd, slotFind]
    | some e =>
      obtain ⟨k2, v⟩ := e
      by_cases h1 : k2 = k
      · simp [slotFind, h1] at h
      · simp_all [slotUpd, slotFind]

theorem length_slotUpd_present (k : Key) (f : Doc → Doc) (s : List Slot) (h : slotFind k s ≠ none) :
    (slotUpd k f s).length = s.length := by
  induction s with
  | nil => simp [slotFind] at h
  | cons a t ih =>
    cases a with
    | none => simp_all [slotUpd, slotFind]
    | some e =>
      obtain ⟨k2, v⟩ := e
      by_cases h1 : k2 = k
      · simp [slotUpd, h1]
      · simp_all [slotUpd, slotFind]

theorem length_slotRemove (k : Key) (s : List Slot) : (slotRemove k s).length = s.length := by
  induction s with
  | nil => rfl
  | cons a t ih =>
    cases a with
    | none => simp [slotRemove, ih]
    | some e =>
      obtain ⟨k2, v⟩ := e
      by_cases h1 : k2 = k <;> simp [slotRemove, h1, ih]

/-- removal drops exactly the first (the only, see `keysNodup`) live item with that key; the others keep
their order. -/
theorem liveEntries_slotRemove (k : Key) (s : List Slot) :
    liveEntries (slotRemove k s) = (liveEntries s).eraseP (fun e => e.1 = k) := by
  induction s with
  | nil => rfl
  | cons a t ih =>
    cases a with
    | none => simp [slotRemove, liveEntries, ih]
    | some e =>
      obtain ⟨k2, v⟩ := e
      by_cases h1 : k2 = k <;> simp [slotRemove, liveEntries, h1, ih]

theorem slotFind_slotRemove_other (k k' : Key) (s : List Slot) (h : k' ≠ k) :
    slotFind k' (slotRemove k s) = slotFind k' s := by
  induction s with
  | nil => rfl
  | cons a t ih =>
    cases a with
    | none => simp [slotRemove, slotFind, ih]
    | some e =>
      obtain ⟨k2, v⟩ := e
      by_cases h1 : k2 = k
      · subst h1; simp [slotRemove, slotFind, Ne.symm h]
      · by_cases h2 : k2 = k'
        · subst h2; simp [slotRemove, slotFind, h1]
        · simp [slotRemove, slotFind, h1, h2, ih]

/-- the live keys of an object are pairwise distinct. -/
def keysNodup (s : List Slot) : Prop := (keysOf s).Nodup

theorem slotFind_slotRemove_same (k : Key) (s : List Slot) (h : keysNodup s) :
    slotFind k (slotRemove k s) = none := by
  induction s with
  | nil => rfl
  | cons a t ih =>
    cases a with
    | none => simpa [slotRemove, slotFind] using ih (by simpa [keysNodup, keysOf, liveEntries] using h)
    | some e =>
      obtain ⟨k2, v⟩ := e
      have hn : k2 ∉ keysOf t ∧ keysNodup t := by
        simpa [keysNodup, keysOf, liveEntries, List.nodup_cons] using h
      by_cases h1 : k2 = k
      · subst h1
        simp only [slotRemove, if_true, slotFind]
        exact (slotFind_none_iff _ _).2 hn.1
      · simp [slotRemove, slotFind, h1, ih hn.2]

theorem keysNodup_liveSlots (s : List Slot) (h : keysNodup s) : keysNodup (liveSlots s) := by
  simpa [keysNodup, keysOf, liveEntries_liveSlots] using h

theorem keysNodup_slotUpd (k : Key) (f : Doc → Doc) (s : List Slot) (h : keysNodup s) :
    keysNodup (slotUpd k f s) := by
  by_cases hf : slotFind k s = none
  · have hk := (slotFind_none_iff k s).1 hf
    simp only [keysNodup, keysOf, liveEntries_slotUpd_absent k f s hf, List.map_append, List.map_cons, List.map_nil]
    rw [List.nodup_append]
    refine ⟨h, by simp, ?_⟩
    intro a ha b hb
    simp at hb
    subst hb
    intro hab; subst hab; exact hk ha
  · simpa [keysNodup, keysOf_slotUpd_present k f s hf] using h

theorem keysNodup_slotRemove (k : Key) (s : List Slot) (h : keysNodup s) : keysNodup (slotRemove k s) := by
  simp only [keysNodup, keysOf, liveEntries_slotRemove]
  exact (List.Sublist.map _ (List.eraseP_sublist)).nodup h

end Qentem.Value
