import Qentem.Model.Value
/-! Lemmas about the item storage of an object (`slotFind`, `slotUpd`, `slotRemove`, `liveSlots`). -/
namespace Qentem.Value
open Doc

/-- The value a subscript hands to its caller: the member's value, `undef` for a new member. -/
def foundOrUndef (o : Option Doc) : Doc :=
  match o with
  | some v => v
  | none => undef

theorem slotFind_slotUpd_same (k : Key) (f : Doc → Doc) (s : List Slot) :
    slotFind k (slotUpd k f s) = some (f (foundOrUndef (slotFind k s))) := by
  induction s with
  | nil => simp [slotUpd, slotFind, foundOrUndef]
  | cons a t ih =>
    cases a with
    | none => simp [slotUpd, slotFind, ih]
    | some e =>
      obtain ⟨k2, v⟩ := e
      by_cases h : k2 = k <;> simp [slotUpd, slotFind, h, ih, foundOrUndef]

theorem slotFind_slotUpd_other (k k' : Key) (f : Doc → Doc) (s : List Slot) (h : k' ≠ k) :
    slotFind k' (slotUpd k f s) = slotFind k' s := by
  induction s with
  | nil => simp [slotUpd, slotFind, Ne.symm h]
  | cons a t ih =>
    cases a with
    | none => simp [slotUpd, slotFind, ih]
    | some e =>
      obtain ⟨k2, v⟩ := e
      by_cases h1 : k2 = k
      · subst h1; simp [slotUpd, slotFind, Ne.symm h]
      · by_cases h2 : k2 = k'
        · subst h2; simp [slotUpd, slotFind, h1]
        · simp [slotUpd, slotFind, h1, h2, ih]

theorem slotFind_liveSlots (k : Key) (s : List Slot) : slotFind k (liveSlots s) = slotFind k s := by
  induction s with
  | nil => rfl
  | cons a t ih =>
    cases a with
    | none => simp [liveSlots, slotFind, ih]
    | some e => obtain ⟨k2, v⟩ := e; simp [liveSlots, slotFind, ih]

end Qentem.Value
