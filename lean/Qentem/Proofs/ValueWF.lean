import Qentem.Model.Value
import Qentem.Model.ValueOps
import Qentem.Proofs.ValueSlots
import Qentem.Proofs.ValueDoc
import Qentem.Model.Group
/-!
The invariant of every document the operations can build: in every object, at every depth, the live
keys are pairwise distinct.  `WF` is preserved by every per-value operation and by `step`.
-/
namespace Qentem.Value
open Doc

mutual
def WF : Doc → Prop
  | arr items => WFItems items
  | obj _ s => keysNodup s ∧ WFSlots s
  | _ => True
def WFItems : List Doc → Prop
  | [] => True
  | d :: r => WF d ∧ WFItems r
def WFSlots : List Slot → Prop
  | [] => True
  | none :: r => WFSlots r
  | some (_, v) :: r => WF v ∧ WFSlots r
end

theorem WF_undef : WF undef := by simp [WF]

theorem WFItems_iff (l : List Doc) : WFItems l ↔ ∀ d ∈ l, WF d := by
  induction l with
  | nil => simp [WFItems]
  | cons a t ih => simp [WFItems, ih]

theorem WFSlots_iff (s : List Slot) : WFSlots s ↔ ∀ e ∈ liveEntries s, WF e.2 := by
  induction s with
  | nil => simp [WFSlots, liveEntries]
  | cons a t ih =>
    cases a with
    | none => simp [WFSlots, liveEntries, ih]
    | some e => obtain ⟨k, v⟩ := e; simp [WFSlots, liveEntries, ih]

theorem WFSlots_liveSlots (s : List Slot) (h : WFSlots s) : WFSlots (liveSlots s) := by
  rw [WFSlots_iff] at *; simpa [liveEntries_liveSlots] using h

theorem WFSlots_slotUpd (k : Key) (f : Doc → Doc) (s : List Slot) (h : WFSlots s) (hf : ∀ v, WF v → WF (f v)) :
    WFSlots (slotUpd k f s) := by
  induction s with
  | nil => simp [slotUpd, WFSlots, hf undef WF_undef]
  | cons a t ih =>
    cases a with
    | none => simpa [slotUpd, WFSlots] using ih (by simpa [WFSlots] using h)
    | some e =>
      obtain ⟨k2, v⟩ := e
      have h' : WF v ∧ WFSlots t := by simpa [WFSlots] using h
      by_cases h1 : k2 = k
      · simp [slotUpd, h1, WFSlots, hf v h'.1, h'.2]
      · simp [slotUpd, h1, WFSlots, h'.1, ih h'.2]

theorem WFSlots_slotRemove (k : Key) (s : List Slot) (h : WFSlots s) : WFSlots (slotRemove k s) := by
  induction s with
  | nil => simp [slotRemove, WFSlots]
  | cons a t ih =>
    cases a with
    | none => simpa [slotRemove, WFSlots] using ih (by simpa [WFSlots] using h)
    | some e =>
      obtain ⟨k2, v⟩ := e
      have h' : WF v ∧ WFSlots t := by simpa [WFSlots] using h
      by_cases h1 : k2 = k
      · simp [slotRemove, h1, WFSlots, h'.2]
      · simp [slotRemove, h1, WFSlots, h'.1, ih h'.2]

theorem WF_slotFind (k : Key) (s : List Slot) (v : Doc) (h : WFSlots s) (hf : slotFind k s = some v) : WF v := by
  induction s with
  | nil => simp [slotFind] at hf
  | cons a t ih =>
    cases a with
    | none => exact ih (by simpa [WFSlots] using h) (by simpa [slotFind] using hf)
    | some e =>
      obtain ⟨k2, v2⟩ := e
      have h' : WF v2 ∧ WFSlots t := by simpa [WFSlots] using h
      by_cases h1 : k2 = k
      · simp [slotFind, h1] at hf; subst hf; exact h'.1
      · exact ih h'.2 (by simpa [slotFind, h1] using hf)

/-! ### copy and compress -/

theorem keysOf_copySlots (s : List Slot) : keysOf (copySlots s) = keysOf s := by
  simp [keysOf, liveEntries_copySlots]

theorem keysOf_compressSlots (s : List Slot) : keysOf (compressSlots s) = keysOf s := by
  simp [keysOf, liveEntries_compressSlots]

mutual
theorem WF_copyDoc : ∀ d, WF d → WF (copyDoc d)
  | arr items, h => by
    simp only [copyDoc, WF] at *
    exact WFItems_copyItems items h
  | obj c s, h => by
    simp only [copyDoc, WF] at *
    exact ⟨by simpa [keysNodup, keysOf_copySlots] using h.1, WFSlots_copySlots s h.2⟩
  | undef, _ | null, _ | tru, _ | fls, _ | nat _, _ | int _, _ | real _, _ | str _, _ | ptr _, _ => by simp [copyDoc, WF]
theorem WFItems_copyItems : ∀ l, WFItems l → WFItems (copyItems l)
  | [], _ => by simp [copyItems, WFItems]
  | d :: r, h => by
    simp only [copyItems, WFItems] at *
    exact ⟨WF_copyDoc d h.1, WFItems_copyItems r h.2⟩
theorem WFSlots_copySlots : ∀ s, WFSlots s → WFSlots (copySlots s)
  | [], _ => by simp [copySlots, WFSlots]
  | none :: r, h => by
    simp only [copySlots, WFSlots] at *
    exact WFSlots_copySlots r h
  | some (k, v) :: r, h => by
    simp only [copySlots, WFSlots] at *
    exact ⟨WF_copyDoc v h.1, WFSlots_copySlots r h.2⟩
end

mutual
theorem WF_compress : ∀ d, WF d → WF (compress d)
  | arr items, h => by
    simp only [compress, WF] at *
    exact WFItems_compressItems items h
  | obj c s, h => by
    simp only [compress, WF] at *
    exact ⟨by simpa [keysNodup, keysOf_compressSlots] using h.1, WFSlots_compressSlots s h.2⟩
  | undef, _ | null, _ | tru, _ | fls, _ | nat _, _ | int _, _ | real _, _ | str _, _ | ptr _, _ => by simp [compress, WF]
theorem WFItems_compressItems : ∀ l, WFItems l → WFItems (compressItems l)
  | [], _ => by simp [compressItems, WFItems]
  | undef :: r, h => by
    simp only [compressItems, WFItems] at *
    exact WFItems_compressItems r h.2
  | arr x :: r, h => by
    simp only [compressItems, WFItems] at *
    exact ⟨WF_compress _ h.1, WFItems_compressItems r h.2⟩
  | obj c x :: r, h => by
    simp only [compressItems, WFItems] at *
    exact ⟨WF_compress _ h.1, WFItems_compressItems r h.2⟩
  | null :: r, h | tru :: r, h | fls :: r, h | nat _ :: r, h | int _ :: r, h | real _ :: r, h | str _ :: r, h
  | ptr _ :: r, h => by
    simp only [compressItems, WFItems, compress, WF, true_and] at *
    exact WFItems_compressItems r h
theorem WFSlots_compressSlots : ∀ s, WFSlots s → WFSlots (compressSlots s)
  | [], _ => by simp [compressSlots, WFSlots]
  | none :: r, h => by
    simp only [compressSlots, WFSlots] at *
    exact WFSlots_compressSlots r h
  | some (k, v) :: r, h => by
    simp only [compressSlots, WFSlots] at *
    exact ⟨WF_compress v h.1, WFSlots_compressSlots r h.2⟩
end

/-! ### per-value operations -/

theorem WF_obj (c : Nat) (s : List Slot) : WF (obj c s) ↔ keysNodup s ∧ WFSlots s := by simp [WF]

theorem WF_arr (l : List Doc) : WF (arr l) ↔ ∀ d ∈ l, WF d := by simp [WF, WFItems_iff]

theorem asObj_WF (d : Doc) (h : WF d) : keysNodup (asObj d).2 ∧ WFSlots (asObj d).2 := by
  cases d <;> simp_all [asObj, WF, keysNodup, keysOf, liveEntries, WFSlots]

theorem asArr_WF (d : Doc) (h : WF d) : ∀ x ∈ asArr d, WF x := by
  cases d <;> simp_all [asArr, WF, WFItems_iff]

theorem objExpand_WF (c : Nat) (s : List Slot) (h : keysNodup s ∧ WFSlots s) :
    keysNodup (objExpand c s).2 ∧ WFSlots (objExpand c s).2 := by
  unfold objExpand
  split
  · exact ⟨keysNodup_liveSlots _ h.1, WFSlots_liveSlots _ h.2⟩
  · exact h

theorem WF_updKey (k : Key) (f : Doc → Doc) (d : Doc) (h : WF d) (hf : ∀ v, WF v → WF (f v)) : WF (updKey k f d) := by
  have h1 := objExpand_WF (asObj d).1 (asObj d).2 (asObj_WF d h)
  simp only [updKey, WF_obj]
  exact ⟨keysNodup_slotUpd _ _ _ h1.1, WFSlots_slotUpd _ _ _ h1.2 hf⟩

theorem setAtIdx_mem (i : Nat) (f : Doc → Doc) (l : List Doc) (P : Doc → Prop) (h : ∀ d ∈ l, P d)
    (hf : ∀ v, P v → P (f v)) : ∀ d ∈ setAtIdx i f l, P d := by
  induction l generalizing i with
  | nil => simp [setAtIdx]
  | cons a t ih =>
    cases i with
    | zero =>
      intro d hd
      simp only [setAtIdx, List.mem_cons] at hd
      rcases hd with rfl | hd
      · exact hf a (h a List.mem_cons_self)
      · exact h d (List.mem_cons_of_mem _ hd)
    | succ i =>
      intro d hd
      simp only [setAtIdx, List.mem_cons] at hd
      rcases hd with rfl | hd
      · exact h d List.mem_cons_self
      · exact ih i (fun x hx => h x (List.mem_cons_of_mem _ hx)) d hd

theorem set_same_key_aux (k : Key) (v x : Doc) (hx : WF x) (s : List Slot) :
    ∀ i, s[i]? = some (some (k, v)) →
      keysOf (s.set i (some (k, x))) = keysOf s ∧ (WFSlots s → WFSlots (s.set i (some (k, x)))) := by
  induction s with
  | nil => intro i hs; simp at hs
  | cons a t ih =>
    intro i hs
    cases i with
    | zero =>
      simp at hs; subst hs
      simp [keysOf, liveEntries, WFSlots, hx]
    | succ i =>
      have := ih i (by simpa using hs)
      cases a with
      | none => simpa [keysOf, liveEntries, WFSlots] using this
      | some e =>
        obtain ⟨k2, v2⟩ := e
        simp only [keysOf] at this
        simp only [List.set_cons_succ, keysOf, liveEntries, List.map_cons, this.1, WFSlots, true_and]
        intro hw; exact ⟨hw.1, this.2 hw.2⟩

theorem slots_set_same_key (s : List Slot) (i : Nat) (k : Key) (v x : Doc) (hs : s[i]? = some (some (k, v)))
    (h : keysNodup s ∧ WFSlots s) (hx : WF x) :
    keysNodup (s.set i (some (k, x))) ∧ WFSlots (s.set i (some (k, x))) := by
  have hk := set_same_key_aux k v x hx s i hs
  exact ⟨by simpa [keysNodup, hk.1] using h.1, hk.2 h.2⟩

theorem liveEntries_set_none_sublist (s : List Slot) : ∀ i, (liveEntries (s.set i none)).Sublist (liveEntries s) := by
  induction s with
  | nil => intro i; simp
  | cons a t ih =>
    intro i
    cases i with
    | zero => cases a <;> simp [liveEntries]
    | succ i => cases a <;> simp [liveEntries, ih i]

theorem slots_set_none (s : List Slot) (i : Nat) (h : keysNodup s ∧ WFSlots s) :
    keysNodup (s.set i none) ∧ WFSlots (s.set i none) := by
  have hk := liveEntries_set_none_sublist s i
  refine ⟨(hk.map _).nodup h.1, ?_⟩
  rw [WFSlots_iff] at *
  intro e he; exact h.2 e (hk.subset he)

theorem mem_liveEntries_of_get (s : List Slot) :
    ∀ (i : Nat) (e : Key × Doc), s[i]? = some (some e) → e ∈ liveEntries s := by
  induction s with
  | nil => intro i e hs; simp at hs
  | cons a t ih =>
    intro i e hs
    cases i with
    | zero => simp at hs; subst hs; simp [liveEntries]
    | succ i =>
      have := ih i e (by simpa using hs)
      cases a <;> simp [liveEntries, this]

theorem WF_updIdx (i : Nat) (f : Doc → Doc) (d : Doc) (h : WF d) (hf : ∀ v, WF v → WF (f v)) : WF (updIdx i f d) := by
  have hnew : WF (arr (List.replicate i undef ++ [f undef])) := by
    rw [WF_arr]; intro x hx
    simp only [List.mem_append, List.mem_replicate, List.mem_singleton] at hx
    rcases hx with ⟨_, rfl⟩ | rfl
    · exact WF_undef
    · exact hf _ WF_undef
  cases d with
  | arr items =>
    have hi : ∀ x ∈ items, WF x := (WF_arr _).1 h
    simp only [updIdx]
    split
    · rw [WF_arr]; exact setAtIdx_mem i f items WF hi hf
    · rw [WF_arr]; intro x hx
      simp only [List.mem_append, List.mem_replicate, List.mem_singleton] at hx
      rcases hx with (hx | ⟨_, rfl⟩) | rfl
      · exact hi x hx
      · exact WF_undef
      · exact hf _ WF_undef
  | obj c s =>
    simp only [updIdx]
    split
    · rename_i k v hs
      have hw := (WF_obj c s).1 h
      have hv : WF v := (WFSlots_iff s).1 hw.2 (k, v) (mem_liveEntries_of_get s i (k, v) hs)
      rw [WF_obj]
      exact slots_set_same_key s i k v (f v) hs hw (hf v hv)
    · exact hnew
  | _ => exact hnew

theorem WF_updPath (p : List Sel) (f : Doc → Doc) (hf : ∀ v, WF v → WF (f v)) : ∀ d, WF d → WF (updPath p f d) := by
  induction p with
  | nil => intro d h; exact hf d h
  | cons sel rest ih =>
    intro d h
    cases sel with
    | key k => exact WF_updKey k _ d h ih
    | idx i => exact WF_updIdx i _ d h ih

theorem WF_pushDoc (x d : Doc) (hx : WF x) (h : WF d) : WF (pushDoc x d) := by
  simp only [pushDoc, WF_arr, List.mem_append, List.mem_singleton]
  rintro y (hy | rfl)
  · exact asArr_WF d h y hy
  · exact hx

theorem objMerge_WF (cp : Doc → Doc) (hcp : ∀ v, WF v → WF (cp v)) (c : Nat) (s src : List Slot)
    (h : keysNodup s ∧ WFSlots s) (hs : WFSlots src) :
    keysNodup (objMerge cp c s src).2 ∧ WFSlots (objMerge cp c s src).2 := by
  have hbase : ∀ b : List Slot, keysNodup b ∧ WFSlots b →
      keysNodup (src.foldl (fun acc sl => match sl with
        | some (k, v) => slotUpd k (fun _ => cp v) acc
        | none => acc) b) ∧
      WFSlots (src.foldl (fun acc sl => match sl with
        | some (k, v) => slotUpd k (fun _ => cp v) acc
        | none => acc) b) := by
    induction src with
    | nil => intro b hb; exact hb
    | cons a t ih =>
      intro b hb
      cases a with
      | none => exact ih (by simpa [WFSlots] using hs) b hb
      | some e =>
        obtain ⟨k, v⟩ := e
        have hs' : WF v ∧ WFSlots t := by simpa [WFSlots] using hs
        exact ih hs'.2 _ ⟨keysNodup_slotUpd _ _ _ hb.1, WFSlots_slotUpd _ _ _ hb.2 (fun _ _ => hcp v hs'.1)⟩
  unfold objMerge
  split
  · exact hbase _ ⟨keysNodup_liveSlots _ h.1, WFSlots_liveSlots _ h.2⟩
  · exact hbase _ h

theorem WF_addValue (cp : Doc → Doc) (hcp : ∀ v, WF v → WF (cp v)) (x d : Doc) (hx : WF x) (h : WF d) :
    WF (addValue cp x d) := by
  unfold addValue
  split
  · rename_i c s c' xs
    rw [WF_obj]
    exact objMerge_WF cp hcp c s xs ((WF_obj _ _).1 h) ((WF_obj _ _).1 hx).2
  · exact WF_pushDoc _ _ (hcp x hx) h

theorem WF_addObj (xc : Nat) (xs : List Slot) (d : Doc) (hx : WF (obj xc xs)) (h : WF d) : WF (addObj xc xs d) := by
  unfold addObj
  split
  · rename_i c s
    rw [WF_obj]
    exact objMerge_WF id (fun _ hv => hv) c s xs ((WF_obj _ _).1 h) ((WF_obj _ _).1 hx).2
  · exact WF_pushDoc _ _ hx h

theorem WF_addArr (xs : List Doc) (d : Doc) (hx : ∀ x ∈ xs, WF x) (h : WF d) : WF (addArr xs d) := by
  unfold addArr
  split
  · exact WF_pushDoc _ _ (by simp [WF, WFItems]) h
  · simp only [WF_arr, List.mem_append]
    rintro y (hy | hy)
    · exact asArr_WF d h y hy
    · exact hx y hy

theorem WF_mergeArr (cp : Doc → Doc) (hcp : ∀ v, WF v → WF (cp v)) (items xs : List Doc)
    (h1 : ∀ y ∈ items, WF y) (hx : ∀ y ∈ xs, WF y) : WF (arr (items ++ mapDocs cp (dropUndef xs))) := by
  simp only [WF_arr, List.mem_append, mapDocs_eq_map, dropUndef_eq_filter, List.mem_map, List.mem_filter]
  rintro y (hy | ⟨z, ⟨hz, _⟩, rfl⟩)
  · exact h1 y hy
  · exact hcp z (hx z hz)

theorem WF_mergeInto (cp : Doc → Doc) (hcp : ∀ v, WF v → WF (cp v)) (x d : Doc) (hx : WF x) (h : WF d) :
    WF (mergeInto cp x d) := by
  cases d with
  | undef =>
    cases x with
    | arr xs => simpa [mergeInto] using WF_mergeArr cp hcp [] xs (by simp) ((WF_arr _).1 hx)
    | _ => simp [mergeInto, WF, WFItems]
  | arr items =>
    cases x with
    | arr xs => simpa [mergeInto] using WF_mergeArr cp hcp items xs ((WF_arr _).1 h) ((WF_arr _).1 hx)
    | _ => simpa [mergeInto] using h
  | obj c s =>
    cases x with
    | obj c' xs =>
      simp only [mergeInto, WF_obj]
      exact objMerge_WF cp hcp c s xs ((WF_obj _ _).1 h) ((WF_obj _ _).1 hx).2
    | _ => simpa [mergeInto] using h
  | _ => cases x <;> simp [mergeInto, WF]

theorem WF_removeKey (k : Key) (d : Doc) (h : WF d) : WF (removeKey k d) := by
  cases d <;> simp_all [removeKey, WF]
  exact ⟨keysNodup_slotRemove _ _ h.1, WFSlots_slotRemove _ _ h.2⟩

theorem WF_removeIdx (i : Nat) (d : Doc) (h : WF d) : WF (removeIdx i d) := by
  cases d with
  | obj c s =>
    simp only [removeIdx]
    split
    · rw [WF_obj]; exact slots_set_none s i ((WF_obj _ _).1 h)
    · exact h
  | arr items =>
    simp only [removeIdx]
    split
    · rw [WF_arr]; exact setAtIdx_mem i _ items WF ((WF_arr _).1 h) (fun _ _ => WF_undef)
    · exact h
  | _ => simpa [removeIdx] using h

theorem WF_resetPayload (d : Doc) : WF (resetPayload d) := by
  cases d <;> simp [resetPayload, WF, WFItems, WFSlots, keysNodup, keysOf, liveEntries]


theorem WF_assignType (k : Nat) (d d' : Doc) (h : assignType k d = some d') : WF d' := by
  unfold assignType at h
  split at h <;> simp at h <;> subst h <;> simp [WF, WFItems, WFSlots, keysNodup, keysOf, liveEntries]

/-! ### navigation without vivification -/

theorem WF_nonUndef (v x : Doc) (h : WF v) (hx : nonUndef v = some x) : WF x := by
  unfold nonUndef at hx
  split at hx
  · cases hx
  · cases hx; exact h

theorem WF_childAt (d : Doc) (sel : Sel) (c : Doc) (h : WF d) (hc : childAt d sel = some c) : WF c := by
  cases sel with
  | key k =>
    simp only [childAt, childKey] at hc
    cases d with
    | obj cap s =>
      simp only at hc
      cases hf : slotFind k s with
      | none => simp [hf] at hc
      | some v =>
        simp only [hf] at hc
        exact WF_nonUndef v c (WF_slotFind k s v ((WF_obj _ _).1 h).2 hf) hc
    | arr items =>
      simp only at hc
      cases hk : arrayKeyIndex k with
      | none => simp [hk] at hc
      | some ki =>
        simp only [hk] at hc
        cases hg : items[ki]? with
        | none => simp [hg] at hc
        | some v =>
          simp only [hg] at hc
          exact WF_nonUndef v c ((WF_arr _).1 h v (List.mem_of_getElem? hg)) hc
    | _ => simp at hc
  | idx i =>
    simp only [childAt, childIdx] at hc
    cases d with
    | obj cap s =>
      simp only at hc
      split at hc
      · rename_i k v hs
        exact WF_nonUndef v c ((WFSlots_iff s).1 ((WF_obj _ _).1 h).2 (k, v) (mem_liveEntries_of_get s i (k, v) hs)) hc
      · cases hc
    | arr items =>
      simp only at hc
      cases hg : items[i]? with
      | none => simp [hg] at hc
      | some v =>
        simp only [hg] at hc
        exact WF_nonUndef v c ((WF_arr _).1 h v (List.mem_of_getElem? hg)) hc
    | _ => simp at hc

theorem WF_getAt : ∀ (p : List Sel) (d x : Doc), WF d → getAt d p = some x → WF x := by
  intro p
  induction p with
  | nil => intro d x h hx; simp [getAt] at hx; subst hx; exact h
  | cons sel rest ih =>
    intro d x h hx
    simp only [getAt] at hx
    cases hc : childAt d sel with
    | none => simp [hc] at hx
    | some c =>
      simp only [hc] at hx
      exact ih c x (WF_childAt d sel c h hc) hx

theorem slotSetVal_WF (k : Key) (x : Doc) (hx : WF x) (s : List Slot) :
    keysOf (slotSetVal k x s) = keysOf s ∧ (WFSlots s → WFSlots (slotSetVal k x s)) := by
  induction s with
  | nil => simp [slotSetVal]
  | cons a t ih =>
    cases a with
    | none => simpa [slotSetVal, keysOf, liveEntries, WFSlots] using ih
    | some e =>
      obtain ⟨k2, v⟩ := e
      by_cases h1 : k2 = k
      · simp [slotSetVal, h1, keysOf, liveEntries, WFSlots, hx]
      · simp only [keysOf] at ih
        simp only [slotSetVal, h1, if_false, keysOf, liveEntries, List.map_cons, ih.1, WFSlots, true_and]
        intro hw; exact ⟨hw.1, ih.2 hw.2⟩

theorem WF_setChild (d : Doc) (sel : Sel) (x : Doc) (h : WF d) (hx : WF x) : WF (setChild d sel x) := by
  cases d with
  | obj c sl =>
    cases sel with
    | key k =>
      have hk := slotSetVal_WF k x hx sl
      have hw := (WF_obj c sl).1 h
      simp only [setChild, WF_obj]
      exact ⟨by simpa [keysNodup, hk.1] using hw.1, hk.2 hw.2⟩
    | idx i =>
      simp only [setChild]
      split
      · rename_i k v hs
        rw [WF_obj]; exact slots_set_same_key sl i k v x hs ((WF_obj c sl).1 h) hx
      · exact h
  | arr items =>
    cases sel with
    | key k =>
      simp only [setChild]
      cases arrayKeyIndex k with
      | none => exact h
      | some ki => simp only [WF_arr]; exact setAtIdx_mem _ _ items WF ((WF_arr _).1 h) (fun _ _ => hx)
    | idx i => simp only [setChild, WF_arr]; exact setAtIdx_mem _ _ items WF ((WF_arr _).1 h) (fun _ _ => hx)
  | _ => cases sel <;> simpa [setChild] using h

theorem WF_modAt (f : Doc → Doc) (hf : ∀ v, WF v → WF (f v)) : ∀ (p : List Sel) (d : Doc), WF d → WF (modAt d p f) := by
  intro p
  induction p with
  | nil => intro d h; exact hf d h
  | cons sel rest ih =>
    intro d h
    simp only [modAt]
    cases hc : childAt d sel with
    | none => exact h
    | some c => exact WF_setChild d sel _ h (ih c (WF_childAt d sel c h hc))

/-! ### GroupBy -/

theorem subObjSet_WF (k : Key) (v : Doc) (o : Nat × List Slot) (ho : keysNodup o.2 ∧ WFSlots o.2) (hv : WF v) :
    keysNodup (subObjSet k v o).2 ∧ WFSlots (subObjSet k v o).2 := by
  have h1 := objExpand_WF o.1 o.2 ho
  simp only [subObjSet]
  exact ⟨keysNodup_slotUpd _ _ _ h1.1, WFSlots_slotUpd _ _ _ h1.2 (fun _ _ => WF_copyDoc v hv)⟩

theorem groupScan_WF (fmtReal : Nat → List Nat) (env : Env) (key : Key) (slots : List Slot) :
    ∀ (cur : Key) (sub : Nat × List Slot) (cur' : Key) (sub' : Nat × List Slot),
    WFSlots slots → keysNodup sub.2 ∧ WFSlots sub.2 →
    groupScan fmtReal env key slots cur sub = some (cur', sub') → keysNodup sub'.2 ∧ WFSlots sub'.2 := by
  induction slots with
  | nil => intro cur sub cur' sub' _ hs h; simp [groupScan] at h; rw [← h.2]; exact hs
  | cons a t ih =>
    intro cur sub cur' sub' hw hs h
    cases a with
    | none => exact ih cur sub cur' sub' (by simpa [WFSlots] using hw) hs (by simpa [groupScan] using h)
    | some e =>
      obtain ⟨k, v⟩ := e
      have hw' : WF v ∧ WFSlots t := by simpa [WFSlots] using hw
      simp only [groupScan] at h
      split at h
      · cases h
      · split at h
        · exact ih cur _ cur' sub' hw'.2 (subObjSet_WF k v sub hs hw'.1) h
        · split at h
          · exact ih _ sub cur' sub' hw'.2 hs h
          · cases h

theorem groupAdd_WF (cur : Key) (sub res : Nat × List Slot) (hs : keysNodup sub.2 ∧ WFSlots sub.2)
    (hr : keysNodup res.2 ∧ WFSlots res.2) : keysNodup (groupAdd cur sub res).2 ∧ WFSlots (groupAdd cur sub res).2 := by
  have h1 := objExpand_WF res.1 res.2 hr
  simp only [groupAdd]
  exact ⟨keysNodup_slotUpd _ _ _ h1.1,
    WFSlots_slotUpd _ _ _ h1.2 (fun v hv => WF_addObj sub.1 sub.2 v ((WF_obj _ _).2 hs) hv)⟩

theorem groupLoop_WF (fmtReal : Nat → List Nat) (env : Env) (key : Key) (items : List Doc) :
    ∀ (cur : Key) (res : Nat × List Slot), (∀ it ∈ items, WF it) → keysNodup res.2 ∧ WFSlots res.2 →
    keysNodup (groupLoop fmtReal env key items cur res).2.2 ∧ WFSlots (groupLoop fmtReal env key items cur res).2.2 := by
  induction items with
  | nil => intro cur res _ hr; simpa [groupLoop] using hr
  | cons it rest ih =>
    intro cur res hi hr
    cases it with
    | obj c slots =>
      simp only [groupLoop]
      cases hsc : groupScan fmtReal env key slots cur (0, []) with
      | none => simpa using hr
      | some p =>
        obtain ⟨cur', sub⟩ := p
        have hsub := groupScan_WF fmtReal env key slots cur (0, []) cur' sub
          ((WF_obj _ _).1 (hi _ List.mem_cons_self)).2 (by simp [keysNodup, keysOf, liveEntries, WFSlots]) hsc
        exact ih cur' _ (fun x hx => hi x (List.mem_cons_of_mem _ hx)) (groupAdd_WF cur' sub res hsub hr)
    | _ => simpa [groupLoop] using hr

/-- every root of the forest is well formed. -/
def EnvWF (env : Env) : Prop := ∀ r, WF (envGet env r)

theorem WF_derefF (env : Env) (h : EnvWF env) : ∀ (f : Nat) (d : Doc), WF d → WF (derefF env f d) := by
  intro f
  induction f with
  | zero => intro d hd; simpa [derefF] using hd
  | succ f ih =>
    intro d hd
    cases d with
    | ptr r => simp only [derefF]; exact ih _ (h r)
    | _ => simpa [derefF] using hd

theorem WF_groupByA (fmtReal : Nat → List Nat) (env : Env) (henv : EnvWF env) (src : Doc) (key : Key) (dest : Doc)
    (hs : WF src) (hd : WF dest) : WF (groupByA fmtReal env src key dest).2 := by
  have hdr : WF (deref env src) := WF_derefF env henv _ src hs
  have hempty : WF (obj 0 []) := by simp [WF, WFSlots, keysNodup, keysOf, liveEntries]
  unfold groupByA
  split
  · rename_i items hitems
    rw [hitems] at hdr
    split
    · split
      · simp only [WF_obj]
        exact groupLoop_WF fmtReal env key _ [] (0, []) ((WF_arr _).1 hdr)
          (by simp [keysNodup, keysOf, liveEntries, WFSlots])
      · exact hempty
    · exact hempty
  · exact hd

/-! ### the forest -/

theorem EnvWF_envSet (env : Env) (r : Nat) (d : Doc) (h : EnvWF env) (hd : WF d) : EnvWF (envSet env r d) := by
  intro q
  have hq := h q
  simp only [envGet, envSet, List.getElem?_set] at *
  by_cases hrq : r = q
  · subst hrq
    by_cases hl : r < env.length <;> simp [hl, hd, WF_undef]
  · simpa [hrq] using hq

theorem EnvWF_onTarget (env : Env) (t : Loc) (f : Doc → Doc) (h : EnvWF env) (hf : ∀ v, WF v → WF (f v)) :
    EnvWF (onTarget env t f) :=
  EnvWF_envSet _ _ _ h (WF_updPath t.path f hf _ (h t.root))

theorem EnvWF_clearSource (env : Env) (s : Loc) (h : EnvWF env) : EnvWF (clearSource env s) :=
  EnvWF_envSet _ _ _ h (WF_modAt _ (fun _ _ => WF_undef) s.path _ (h s.root))

theorem WF_source (env : Env) (t s : Loc) (x : Doc) (h : EnvWF env) (hx : source env t s = some x) : WF x := by
  unfold source at hx
  split at hx
  · cases hx
  · exact WF_getAt s.path _ x (h s.root) hx

theorem WF_ptr (r : Nat) : WF (ptr r) := by simp [WF]

theorem WF_copyItems_mem (items : List Doc) (h : ∀ x ∈ items, WF x) : ∀ x ∈ copyItems items, WF x := by
  rw [copyItems_eq_map]
  intro x hx
  obtain ⟨y, hy, rfl⟩ := List.mem_map.1 hx
  exact WF_copyDoc y (h y hy)

theorem WF_refUpd (f : Doc → Doc) (hf : ∀ v, WF v → WF (f v)) : ∀ (p : List Sel) (d : Doc), WF d → WF (refUpd p f d) := by
  intro p
  induction p with
  | nil => intro d h; exact hf d h
  | cons sel rest ih =>
    intro d h
    cases sel with
    | key k =>
      cases d with
      | obj c s =>
        have hw := (WF_obj c s).1 h
        simp only [refUpd, WF_obj]
        exact ⟨keysNodup_slotUpd _ _ _ hw.1, WFSlots_slotUpd _ _ _ hw.2 ih⟩
      | _ => simpa [refUpd] using h
    | idx i =>
      cases d with
      | arr items =>
        simp only [refUpd, WF_arr]
        exact setAtIdx_mem i _ items WF ((WF_arr _).1 h) ih
      | obj c s =>
        simp only [refUpd]
        split
        · rename_i k v hs
          have hw := (WF_obj c s).1 h
          have hv : WF v := (WFSlots_iff s).1 hw.2 (k, v) (mem_liveEntries_of_get s i (k, v) hs)
          rw [WF_obj]
          exact slots_set_same_key s i k v _ hs hw (ih v hv)
        · exact h
      | _ => simpa [refUpd] using h

theorem WF_movedOut (d : Doc) (h : WF d) : WF (movedOut d) := by
  cases d <;> simp_all [movedOut, WF, WFItems, WFSlots, keysNodup, keysOf, liveEntries]

/-- the documents an operation carries as immediate operands (scalars and strings in every overload). -/
def Op.payloadWF : Op → Prop
  | .assign _ x | .append _ x | .insert _ _ x => WF x
  | _ => True

/-- **every reachable forest state is well formed**: one operation keeps the invariant … -/
theorem step_WF (fmtReal : Nat → List Nat) (op : Op) (env : Env) (h : EnvWF env) (hp : op.payloadWF) :
    EnvWF (step fmtReal op env).1 := by
  cases op with
  | assign t x => exact EnvWF_onTarget _ _ _ h (fun _ _ => hp)
  | touch t => exact EnvWF_onTarget _ _ _ h (fun _ hv => hv)
  | setType t k =>
    refine EnvWF_onTarget _ _ _ h (fun v hv => ?_)
    cases ha : assignType k v with
    | none => simpa [ha] using hv
    | some d' => simpa [ha] using WF_assignType k v d' ha
  | copy t s =>
    simp only [step]
    cases hs : source env t s with
    | none => exact h
    | some x => exact EnvWF_onTarget _ _ _ h (fun _ _ => WF_copyDoc x (WF_source env t s x h hs))
  | move t s =>
    simp only [step]
    cases hs : source env t s with
    | none => exact h
    | some x => exact EnvWF_onTarget _ _ _ (EnvWF_clearSource _ _ h) (fun _ _ => WF_source env t s x h hs)
  | assignObj t s =>
    simp only [step]
    cases hs : source env t s with
    | none => exact h
    | some x =>
      have hx := WF_source env t s x h hs
      cases x with
      | obj c sl => exact EnvWF_onTarget _ _ _ h (fun _ _ => WF_copyDoc _ hx)
      | _ => exact h
  | assignArr t s =>
    simp only [step]
    cases hs : source env t s with
    | none => exact h
    | some x =>
      have hx := WF_source env t s x h hs
      cases x with
      | arr items => exact EnvWF_onTarget _ _ _ h (fun _ _ => WF_copyDoc _ hx)
      | _ => exact h
  | setPtr t r =>
    cases r with
    | some r => exact EnvWF_onTarget _ _ _ h (fun _ _ => WF_ptr r)
    | none =>
      refine EnvWF_onTarget _ _ _ h (fun v _ => ?_)
      cases v <;> first | exact WF_resetPayload _ | exact WF_ptr _
  | append t x => exact EnvWF_onTarget _ _ _ h (fun v hv => WF_pushDoc x v hp hv)
  | appendMove t s =>
    simp only [step]
    cases hs : source env t s with
    | none => exact h
    | some x =>
      exact EnvWF_onTarget _ _ _ (EnvWF_clearSource _ _ h)
        (fun v hv => WF_addValue id (fun _ hw => hw) x v (WF_source env t s x h hs) hv)
  | appendCopy t s =>
    simp only [step]
    cases hs : source env t s with
    | none => exact h
    | some x =>
      exact EnvWF_onTarget _ _ _ h (fun v hv => WF_addValue copyDoc WF_copyDoc x v (WF_source env t s x h hs) hv)
  | appendObj t s =>
    simp only [step]
    cases hs : source env t s with
    | none => exact h
    | some x =>
      have hx := WF_source env t s x h hs
      cases x with
      | obj c sl =>
        refine EnvWF_onTarget _ _ _ h (fun v hv => ?_)
        have hc := WF_copyDoc _ hx
        simp only [copyDoc] at hc ⊢
        exact WF_addObj _ _ v hc hv
      | _ => exact h
  | appendArr t s =>
    simp only [step]
    cases hs : source env t s with
    | none => exact h
    | some x =>
      have hx := WF_source env t s x h hs
      cases x with
      | arr items =>
        exact EnvWF_onTarget _ _ _ h (fun v hv => WF_addArr _ v (WF_copyItems_mem items ((WF_arr _).1 hx)) hv)
      | _ => exact h
  | addPtr t r =>
    cases r with
    | some r => exact EnvWF_onTarget _ _ _ h (fun v hv => WF_pushDoc _ v (WF_ptr r) hv)
    | none => exact EnvWF_onTarget _ _ _ h (fun v hv => WF_pushDoc _ v WF_undef hv)
  | insert t k x => exact EnvWF_onTarget _ _ _ h (fun v hv => WF_updKey k _ v hv (fun _ _ => hp))
  | insertMove t k s =>
    simp only [step]
    cases hs : source env t s with
    | none => exact h
    | some x =>
      exact EnvWF_onTarget _ _ _ (EnvWF_clearSource _ _ h)
        (fun v hv => WF_updKey k _ v hv (fun _ _ => WF_source env t s x h hs))
  | mergeMove t s =>
    simp only [step]
    cases hs : source env t s with
    | none => exact h
    | some x =>
      exact EnvWF_onTarget _ _ _ (EnvWF_clearSource _ _ h)
        (fun v hv => WF_mergeInto id (fun _ hw => hw) x v (WF_source env t s x h hs) hv)
  | mergeCopy t s =>
    simp only [step]
    cases hs : source env t s with
    | none => exact h
    | some x =>
      exact EnvWF_onTarget _ _ _ h (fun v hv => WF_mergeInto copyDoc WF_copyDoc x v (WF_source env t s x h hs) hv)
  | remove t k => exact EnvWF_onTarget _ _ _ h (fun v hv => WF_removeKey k v hv)
  | removeIdx t i => exact EnvWF_onTarget _ _ _ h (fun v hv => WF_removeIdx i v hv)
  | reset t => exact EnvWF_onTarget _ _ _ h (fun _ _ => WF_undef)
  | compress t => exact EnvWF_onTarget _ _ _ h (fun v hv => WF_compress v hv)
  | clear t =>
    refine EnvWF_onTarget _ _ _ h (fun v hv => ?_)
    cases v <;> simp_all [clearDoc, WF, WFItems, WFSlots, keysNodup, keysOf, liveEntries]
  | reserve t k n =>
    simp only [step]
    cases hr : reservedDoc k n with
    | none => exact EnvWF_onTarget _ _ _ h (fun _ hv => hv)
    | some x =>
      refine EnvWF_onTarget _ _ _ h (fun _ _ => ?_)
      unfold reservedDoc at hr
      split at hr <;> simp at hr <;> subst hr <;> simp [WF, WFItems, WFSlots, keysNodup, keysOf, liveEntries]
  | container t s kind add mv =>
    have h1 : EnvWF (onTarget env t id) := EnvWF_onTarget _ _ _ h (fun _ hv => hv)
    simp only [step]
    cases hg : getAt (envGet (onTarget env t id) s.root) s.path with
    | none => exact h1
    | some x =>
      simp only []
      split
      · have hx : WF x := WF_getAt s.path _ x (h1 s.root) hg
        have hpl : WF (if mv = true then x else copyDoc x) := by
          cases mv
          · simpa using WF_copyDoc x hx
          · simpa using hx
        have h2 : EnvWF (if mv = true then envSet (onTarget env t id) s.root
            (modAt (envGet (onTarget env t id) s.root) s.path movedOut) else onTarget env t id) := by
          cases mv
          · simpa using h1
          · simpa using EnvWF_envSet _ _ _ h1 (WF_modAt movedOut WF_movedOut s.path _ (h1 s.root))
        refine EnvWF_envSet _ _ _ h2 (WF_refUpd _ ?_ t.path _ (h2 t.root))
        intro v hv
        cases add
        · simpa using hpl
        · simp only [if_true]
          generalize (if mv = true then x else copyDoc x) = payload at hpl
          cases payload with
          | obj c sl => exact WF_addObj c sl v hpl hv
          | arr items => exact WF_addArr items v ((WF_arr _).1 hpl) hv
          | _ => exact WF_pushDoc _ v hpl hv
      · exact h1
  | groupBy dest s k =>
    simp only [step]
    split
    · exact h
    · cases hg : getAt (envGet env s.root) s.path with
      | none => exact h
      | some x =>
        exact EnvWF_envSet _ _ _ h
          (WF_groupByA fmtReal env h x k _ (WF_getAt s.path _ x (h s.root) hg) (h dest))

/-- … hence every state an operation sequence reaches from a well-formed forest (in particular from
the forest of undefined roots) is well formed. -/
theorem run_WF (fmtReal : Nat → List Nat) (ops : List Op) (env : Env) (h : EnvWF env)
    (hp : ∀ op ∈ ops, op.payloadWF) : EnvWF (runFinal fmtReal ops env) := by
  induction ops generalizing env with
  | nil => exact h
  | cons op rest ih =>
    simp only [runFinal]
    exact ih _ (step_WF fmtReal op env h (hp op List.mem_cons_self)) (fun o ho => hp o (List.mem_cons_of_mem _ ho))

theorem EnvWF_replicate_undef (n : Nat) : EnvWF (List.replicate n undef) := by
  intro r
  simp only [envGet]
  cases hg : (List.replicate n undef)[r]? with
  | none => exact WF_undef
  | some d =>
    have := List.mem_of_getElem? hg
    simp at this
    rw [this.2]; exact WF_undef

end Qentem.Value
