import Qentem.Proofs.NumToStrRoundStr
/-! C10 helper, Default format with rounding: `round_finish` (round, skip zeros, reverse = the decimal
numeral of the kept digits without trailing zeros); `formatDefault_round_int` (model: `d.ddde+XX`);
`generalBody_sci` (reference: `%.{p}g` of an integer with more digits than the precision);
`default_big_int64`: integer-valued doubles with more than `P` digits print exactly `%.{p}g`. -/
set_option linter.unusedSimpArgs false
set_option linter.unusedVariables false
namespace Qentem.Proofs.NumToStr
open Qentem.NumToStr Qentem.Generated.NumToStr Qentem

/-! ### rounding, skipping the zeros above the rounding position, reversing -/

theorem finishNumber_drop (s t : List Nat) (k : Nat) (hk : k ≤ t.length) :
    finishNumber s.length (s ++ t) (s.length + k) = .ok (s ++ (t.drop k).reverse) := by
  unfold finishNumber
  simp only [csub, Nat.le_add_right, if_true, Nat.add_sub_cancel_left, pure_bind, reverseFrom_append]
  unfold stepBack
  have h1 : k ≤ (s ++ t.reverse).length := by simp; omega
  have h2 : s.length ≤ (s ++ t.reverse).length - k := by simp; omega
  rw [if_pos h1, if_pos h2]
  have h3 : (s ++ t.reverse).length - k = s.length + (t.length - k) := by simp; omega
  rw [h3, List.take_append, List.take_of_length_le (by omega), Nat.add_sub_cancel_left, List.take_reverse]
  have : t.reverse.length - (t.length - k) = k := by simp; omega
  simp [pure, Except.pure]
  congr 2; omega

/-- the kept digits after rounding at position `i`: `⌊b / 10^(i+1)⌋ + up` -/
def keptUp (b i : Nat) (ru : Bool) : Nat := b / 10 ^ (i + 1) + (if upCode b i ru then 1 else 0)

theorem skipWhile_stop (c : Nat) (s : List Nat) (idx : Nat) (h : s[idx]? ≠ some c) (fuel : Nat) :
    skipWhile c fuel s idx = idx := by
  cases fuel with
  | zero => rfl
  | succ f => rw [skipWhile, if_neg (fun hc => h hc.2)]

/-- `roundStringNumber` at position `i`, then the zero-skipping loop, then `Reverse`/`StepBack`: what remains is
the decimal numeral of the kept digits without their trailing zeros. -/
theorem round_finish (s : List Nat) {b i : Nat} (hb : 0 < b) (hi : i + 1 < (D b).length) (ru : Bool) :
    ∃ r T z, roundStringNumber s.length (s ++ Rl b) (s.length + i) ru = .ok r ∧
      finishNumber s.length r.1 (skipWhile Ch.zero r.1.length r.1 r.2.1) = .ok (s ++ D T) ∧
      0 < T ∧ T % 10 ≠ 0 ∧ keptUp b i ru = T * 10 ^ z ∧
      (r.2.2 = true ↔ keptUp b i ru = 10 ^ ((D b).length - (i + 1))) ∧
      (r.2.2 = false → keptUp b i ru < 10 ^ ((D b).length - (i + 1))) := by
  have hi' : i < (D b).length := by omega
  have hlen : (s ++ Rl b).length = s.length + (D b).length := by simp
  have hKlt : b / 10 ^ (i + 1) < 10 ^ ((D b).length - (i + 1)) := by
    have h1 : b < 10 ^ (D b).length := (D_length_le_iff (by omega)).mp (Nat.le_refl _)
    rw [Nat.div_lt_iff_lt_mul (Nat.pow_pos (by decide)), ← Nat.pow_add]
    rw [show (D b).length - (i + 1) + (i + 1) = (D b).length by omega]; exact h1
  unfold roundStringNumber keptUp
  rw [round_test s hi', ok_bind]
  cases hu : upCode b i ru
  · -- no increment: skip the zeros of the kept part
    simp only [Bool.false_eq_true, if_false, Nat.add_zero, pure, Except.pure]
    obtain ⟨h1, h2, h3, h4⟩ := skipWhile_spec Ch.zero (s ++ Rl b).length (s ++ Rl b) (s.length + i + 1) (by omega)
    generalize hj : skipWhile Ch.zero (s ++ Rl b).length (s ++ Rl b) (s.length + i + 1) = j at *
    have hjlt : j < s.length + (D b).length := by rcases h4 with h4 | h4 <;> omega
    obtain ⟨k, rfl⟩ : ∃ k, j = s.length + k := ⟨j - s.length, by omega⟩
    have hk : k < (D b).length := by omega
    have hzeros : ∀ m, i + 1 ≤ m → m < (i + 1) + (k - (i + 1)) → b / 10 ^ m % 10 = 0 := by
      intro m hm1 hm2
      have := h2 (s.length + m) (by omega) (by omega)
      rw [getElem?_append_len, Rl_get m b (by omega)] at this
      have h48 : Ch.zero = 48 := rfl
      rw [h48] at this
      injection this with this; omega
    have hrun := digits_zero_run (b := b) (a := i + 1) (k - (i + 1)) hzeros
    rw [show (i + 1) + (k - (i + 1)) = k by omega] at hrun
    have hTpos : 0 < b / 10 ^ k := by
      by_cases hk0 : k = 0
      · subst hk0; simpa using hb
      · exact Nat.div_pos (pow_le_of_len (by omega) hk) (Nat.pow_pos (by decide))
    have hTd : b / 10 ^ k % 10 ≠ 0 := by
      intro h0
      by_cases hlast : k + 1 < (D b).length
      · apply h3
        refine ⟨by omega, ?_⟩
        rw [getElem?_append_len, Rl_get k b hk, h0]; rfl
      · have hx : b / 10 ^ k < 10 := by
          have : b < 10 ^ (k + 1) := (D_length_le_iff (by omega)).mp (by omega)
          rw [Nat.div_lt_iff_lt_mul (Nat.pow_pos (by decide)), Nat.mul_comm, ← Nat.pow_succ]; exact this
        rw [Nat.mod_eq_of_lt hx] at h0; omega
    refine ⟨_, b / 10 ^ k, k - (i + 1), rfl, ?_, hTpos, hTd, hrun, ?_, fun _ => hKlt⟩
    · simp only []
      rw [hj, finishNumber_drop s (Rl b) k (by rw [Rl_length]; omega), Rl_drop hk]; simp [Rl]
    · simp only [Bool.false_eq_true, false_iff]; omega
  · simp only [if_true]
    obtain ⟨k, t', pi, hrc, hik, hcase⟩ := roundCarry_spec s hb hi'
    rw [hrc]
    rcases hcase with ⟨hpi, hk, htl, hdrop, h9, hrun⟩ | ⟨hpi, hdrop, htl, hrun, hkk⟩
    · -- the increment stops below the top digit
      subst hpi
      have hget : (s ++ t')[s.length + k]? ≠ some Ch.zero := by
        rw [getElem?_append_len]
        have h0 : t'[k]? = (t'.drop k)[0]? := by simp
        rw [h0, hdrop]
        by_cases hx : b / 10 ^ k + 1 < 10
        · rw [Rl_lt10 hx]; simp [Ch.zero]
        · rw [Rl_step (by omega)]; simp [Ch.zero]; omega
      have hT10 : (b / 10 ^ k + 1) % 10 ≠ 0 := by
        generalize b / 10 ^ k = x at h9 ⊢; omega
      refine ⟨_, b / 10 ^ k + 1, k - (i + 1), rfl, ?_, Nat.succ_pos _, hT10, hrun, ?_, ?_⟩
      · simp only []
        rw [skipWhile_stop _ _ _ hget, finishNumber_drop s t' k (by omega), hdrop]; simp [Rl]
      · simp only [Bool.false_eq_true, false_iff]
        intro hcon
        -- K + 1 = 10^(L-i-1) would need every digit above i to be nine, but digit k is not
        have hKk : b / 10 ^ (i + 1) / 10 ^ (k - (i + 1)) = b / 10 ^ k := by
          rw [Nat.div_div_eq_div_mul, ← Nat.pow_add]; congr 2; omega
        have hpow : 10 ^ ((D b).length - (i + 1)) = 10 ^ ((D b).length - (k + 1)) * 10 * 10 ^ (k - (i + 1)) := by
          rw [Nat.mul_assoc, ← Nat.pow_succ', ← Nat.pow_add]; congr 1; omega
        rw [hrun, hpow] at hcon
        have := Nat.eq_of_mul_eq_mul_right (Nat.pow_pos (by decide : 0 < 10)) hcon
        omega
      · intro _
        have hKk : b / 10 ^ k < 10 ^ ((D b).length - k) := by
          have h1 : b < 10 ^ (D b).length := (D_length_le_iff (by omega)).mp (Nat.le_refl _)
          rw [Nat.div_lt_iff_lt_mul (Nat.pow_pos (by decide)), ← Nat.pow_add]
          rw [show (D b).length - k + k = (D b).length by omega]; exact h1
        rw [hrun]
        have hpow : 10 ^ ((D b).length - (i + 1)) = 10 ^ ((D b).length - k) * 10 ^ (k - (i + 1)) := by
          rw [← Nat.pow_add]; congr 1; omega
        rw [hpow]
        apply Nat.mul_lt_mul_of_pos_right _ (Nat.pow_pos (by decide))
        -- x + 1 < 10^m because x < 10^m and x is not ≡ 9 mod 10 while 10^m - 1 is
        by_contra hge
        have hxe : b / 10 ^ k + 1 = 10 ^ ((D b).length - k) := by omega
        have hm : 0 < (D b).length - k := by omega
        obtain ⟨m, hm'⟩ := Nat.exists_eq_succ_of_ne_zero (by omega : (D b).length - k ≠ 0)
        rw [hm', Nat.pow_succ] at hxe
        omega
    · -- the carry leaves the top digit
      subst hpi
      have hget : (s ++ t')[s.length + k]? ≠ some Ch.zero := by
        rw [getElem?_append_len]
        have h0 : t'[k]? = (t'.drop k)[0]? := by simp
        rw [h0, hdrop]; simp [Ch.zero]
      refine ⟨_, 1, (D b).length - (i + 1), rfl, ?_, by decide, by decide, by rw [hrun]; simp, ?_, ?_⟩
      · simp only []
        rw [skipWhile_stop _ _ _ hget, finishNumber_drop s t' k (by omega), hdrop]
        simp [show D 1 = [49] by decide]
      · simp only [true_iff]; exact hrun
      · intro h; cases h


/-! ### Default format: more digits than the precision, positive exponent, no fraction → `d.ddde+XX` -/

/-- a digit string with the point after its first digit (no point for a single digit) -/
def dotAfterFirst : List Nat → List Nat
  | [] => []
  | t0 :: r => if r = [] then [t0] else t0 :: 46 :: r

/-- significand `T` (no trailing zero) with the point after its first digit, then `e+XX` -/
def sciText (T X : Nat) : List Nat :=
  dotAfterFirst (D T) ++ [101, 43] ++ (if X < 10 then [48] else []) ++ D X

theorem insertAt_dot (s : List Nat) (l : List Nat) :
    insertAt s.length (s ++ l) Ch.dot (s.length + 1) =
      .ok (s ++ dotAfterFirst l) := by
  unfold insertAt
  rw [if_neg (by omega)]
  cases l with
  | nil => simp [dotAfterFirst, pure, Except.pure]
  | cons t0 r =>
    cases r with
    | nil => simp [dotAfterFirst, pure, Except.pure]
    | cons t1 r' =>
      have : s.length + 1 < (s ++ t0 :: t1 :: r').length := by simp
      rw [if_pos this]
      simp [dotAfterFirst, List.take_append, List.drop_append, Ch.dot, pure, Except.pure]
      rw [List.take_of_length_le (by omega), List.drop_of_length_le (by omega)]; simp

theorem insertPowerOfTen_pos (s : List Nat) {X : Nat} (hX : X < 2 ^ 32) :
    insertPowerOfTen s X true = .ok (s ++ [101, 43] ++ (if X < 10 then [48] else []) ++ D X) := by
  unfold insertPowerOfTen
  simp only [Ch.e, Ch.positive, if_true, Ch.zero]
  by_cases h10 : X < 10
  · simp only [h10, if_true]
    rw [intToString_unsigned _ (Or.inr (Or.inr (Or.inl rfl))) (by simpa using hX)]
  · simp only [h10, if_false]
    rw [intToString_unsigned _ (Or.inr (Or.inr (Or.inl rfl))) (by simpa using hX)]
    simp

/-- `formatStringNumberDefault` on an integer run with more digits than the precision -/
theorem formatDefault_round_int (s : List Nat) {b p dg : Nat} (ru : Bool) (hb : 0 < b) (hp : 0 < p)
    (hL : p < (D b).length) (hsmall : (D b).length + dg < 2 ^ 32) :
    ∃ T z pi, formatDefault s.length (s ++ Rl b) p dg 0 true ru =
        .ok (s ++ sciText T ((D b).length + (if dg ≤ p then 0 else dg - (p + 1)) - (if pi then 0 else 1))) ∧
      0 < T ∧ T % 10 ≠ 0 ∧ keptUp b ((D b).length - p - 1) ru = T * 10 ^ z ∧
      (pi = true ↔ keptUp b ((D b).length - p - 1) ru = 10 ^ p) ∧
      (pi = false → keptUp b ((D b).length - p - 1) ru < 10 ^ p) := by
  obtain ⟨r, T, z, hr, hfin, hT0, hT10, hk, hpi, hpi2⟩ := round_finish s (i := (D b).length - p - 1) hb (by omega) ru
  rw [show (D b).length - ((D b).length - p - 1 + 1) = p by omega] at hpi hpi2
  refine ⟨T, z, r.2.2, ?_, hT0, hT10, hk, hpi, hpi2⟩
  have h3 : csub 3 (s ++ Rl b).length s.length = .ok (D b).length := by simp [csub, pure, Except.pure]
  unfold formatDefault
  rw [h3, ok_bind]
  unfold defaultRound
  rw [if_pos hL, show s.length + ((D b).length - p) - 1 = s.length + ((D b).length - p - 1) by omega, hr, ok_bind]
  simp only [if_true, csub, Nat.zero_le, Nat.sub_zero, pure_bind]
  have hex : (if dg ≤ p then 0 else dg - (p + 1)) ≤ dg := by split <;> omega
  generalize (if dg ≤ p then 0 else dg - (p + 1)) = ex at *
  have hle : (if r.2.2 = true then 0 else 1) ≤ (D b).length + ex := by split <;> omega
  have hpd : p ≤ (D b).length + ex - (if r.2.2 = true then 0 else 1) := by split <;> omega
  simp only [hle, if_true, pure_bind, hpd]
  unfold defaultFraction
  simp only [ne_eq, not_true_eq_false, if_false, pure_bind]
  rw [hfin, ok_bind]
  have hX0 : (D b).length + ex - (if r.2.2 = true then 0 else 1) ≠ 0 := by omega
  rw [if_pos hX0, insertAt_dot, ok_bind, insertPowerOfTen_pos _ (by split <;> omega)]
  simp [sciText, List.append_assoc]

/-! ### reference side: `%.{p}g` of an integer with more digits than the precision -/

theorem D_mul_pow (T z : Nat) (hT : 0 < T) : D (T * 10 ^ z) = D T ++ List.replicate z 48 := by
  have := D_mul_pow_add z T 0 hT (Nat.pow_pos (by decide))
  rw [Nat.add_zero] at this
  rw [this, Dk_zero]

theorem D_last (T : Nat) : ∃ l, D T = l ++ [48 + T % 10] := by
  by_cases h : T < 10
  · exact ⟨[], by rw [D_lt10 h, Nat.mod_eq_of_lt h]; rfl⟩
  · exact ⟨D (T / 10), D_step (by omega)⟩

/-- the significand of the `e` style after trailing-zero removal -/
theorem strip_sci (T z : Nat) (hT : 0 < T) (hT10 : T % 10 ≠ 0) :
    FmtSpec.stripFraction (dotAfterFirst (D (T * 10 ^ z))) = dotAfterFirst (D T) := by
  rw [D_mul_pow T z hT]
  obtain ⟨l, hl⟩ := D_last T
  have hrange := D_mem_range T
  cases hDT : D T with
  | nil => exact absurd hDT (D_ne_nil T)
  | cons t0 r =>
    have ht0 : t0 ≠ 46 := by have := hrange t0 (by rw [hDT]; simp); omega
    by_cases hr : r = []
    · subst hr
      cases z with
      | zero =>
        simp only [List.replicate_zero, List.append_nil, dotAfterFirst, if_true, FmtSpec.stripFraction]
        have hc : ([t0] : List Nat).contains FmtSpec.cDot = false := by
          simp [FmtSpec.cDot]; exact fun h => ht0 h.symm
        rw [if_neg (by rw [hc]; decide)]
      | succ z =>
        have hne : ¬ (([] : List Nat) ++ List.replicate (z + 1) 48 = []) := by simp
        simp only [List.cons_append, dotAfterFirst, hne, if_false, if_true]
        have hc : (t0 :: 46 :: ([] ++ List.replicate (z + 1) 48)).contains FmtSpec.cDot = true := by simp [FmtSpec.cDot]
        unfold FmtSpec.stripFraction
        rw [if_pos hc]
        have hrev : (t0 :: 46 :: ([] ++ List.replicate (z + 1) 48)).reverse = List.replicate (z + 1) 48 ++ [46, t0] := by
          simp [List.reverse_cons, List.reverse_replicate]
        rw [hrev, dropWhile_replicate_append]
        simp [List.dropWhile, FmtSpec.cZero, FmtSpec.cDot]
    · have hne : ¬ (r ++ List.replicate z 48 = []) := by simp [hr]
      simp only [List.cons_append, dotAfterFirst, hr, hne, if_false]
      have hlast : ∃ r', r = r' ++ [48 + T % 10] := by
        rw [hDT] at hl
        cases l with
        | nil => simp at hl; exact absurd hl.2 hr
        | cons a l' => simp at hl; exact ⟨l', hl.2⟩
      obtain ⟨r', hr'⟩ := hlast
      have hc : (t0 :: 46 :: (r ++ List.replicate z 48)).contains FmtSpec.cDot = true := by simp [FmtSpec.cDot]
      unfold FmtSpec.stripFraction
      rw [if_pos hc]
      have hrev : (t0 :: 46 :: (r ++ List.replicate z 48)).reverse =
          List.replicate z 48 ++ ((48 + T % 10) :: (r'.reverse ++ [46, t0])) := by
        rw [hr']; simp [List.reverse_cons, List.reverse_append, List.reverse_replicate]
      rw [hrev, dropWhile_replicate_append]
      have h1 : ((48 + T % 10) == FmtSpec.cZero) = false := by simp [FmtSpec.cZero]; omega
      have h2 : ((48 + T % 10) == FmtSpec.cDot) = false := by simp [FmtSpec.cDot]; omega
      simp only [List.dropWhile, h1, h2, Bool.false_eq_true, if_false]
      rw [hr']; simp [List.reverse_append]

/-- `sciBody` through `dotAfterFirst` (the same `match`, named) -/
theorem sciBody_eq (num den P : Nat) :
    FmtSpec.sciBody num den P =
      (dotAfterFirst (FmtSpec.padLeft P (FmtSpec.digitsOf (if num = 0 then 0 else (FmtSpec.sciDigits num den P).1))),
       (if num = 0 then (0 : Int) else (FmtSpec.sciDigits num den P).2)) := by
  unfold FmtSpec.sciBody
  by_cases h0 : num = 0
  · simp only [h0, if_true]
    cases FmtSpec.padLeft P (FmtSpec.digitsOf 0) with
    | nil => rfl
    | cons a l => cases l <;> simp [dotAfterFirst, FmtSpec.cDot]
  · simp only [h0, if_false]
    cases FmtSpec.padLeft P (FmtSpec.digitsOf (FmtSpec.sciDigits num den P).1) with
    | nil => rfl
    | cons a l => cases l <;> simp [dotAfterFirst, FmtSpec.cDot]

theorem padLeft_full (k : Nat) (l : List Nat) (h : k ≤ l.length) : FmtSpec.padLeft k l = l := by
  unfold FmtSpec.padLeft; rw [Nat.sub_eq_zero_of_le h]; simp

theorem expText_nat (X : Nat) : FmtSpec.expText (X : Int) = [101, 43] ++ (if X < 10 then [48] else []) ++ D X := by
  unfold FmtSpec.expText
  have h0 : ¬ ((X : Int) < 0) := by omega
  simp only [h0, if_false, Int.natAbs_natCast, FmtSpec.cE, FmtSpec.cPlus]
  by_cases h10 : X < 10
  · simp [h10, D_lt10 h10, FmtSpec.padLeft, FmtSpec.cZero]
  · have : 2 ≤ (D X).length := by
      have := D_length_gt (b := X) (k := 1) (by omega); omega
    simp [h10, padLeft_full 2 _ this]

theorem pow10_factor {T z P : Nat} (hT10 : T % 10 ≠ 0) (h : T * 10 ^ z = 10 ^ P) : T = 1 ∧ z = P := by
  rcases Nat.lt_or_ge P z with hlt | hge
  · -- 10^z would exceed 10^P
    have hz : z = P + (z - P) := by omega
    rw [hz, Nat.pow_add, ← Nat.mul_assoc, Nat.mul_comm T, Nat.mul_assoc] at h
    have h1 : T * 10 ^ (z - P) = 1 := Nat.eq_of_mul_eq_mul_left (Nat.pow_pos (by decide : 0 < 10)) (by rw [h, Nat.mul_one])
    have hT1 : T = 1 := Nat.eq_one_of_mul_eq_one_right h1
    have h10 : 10 ^ (z - P) = 1 := Nat.eq_one_of_mul_eq_one_left h1
    have : z - P = 0 := by
      by_contra hne
      obtain ⟨m, hm⟩ := Nat.exists_eq_succ_of_ne_zero hne
      rw [hm, Nat.pow_succ] at h10; omega
    omega
  · have hP : P = (P - z) + z := by omega
    rw [hP, Nat.pow_add] at h
    have h1 : T = 10 ^ (P - z) := Nat.eq_of_mul_eq_mul_right (Nat.pow_pos (by decide : 0 < 10)) h
    by_cases h0 : P - z = 0
    · rw [h0] at h1; exact ⟨by simpa using h1, by omega⟩
    · obtain ⟨m, hm⟩ := Nat.exists_eq_succ_of_ne_zero h0
      rw [hm, Nat.pow_succ] at h1
      exfalso; apply hT10; rw [h1]; exact Nat.mul_mod_left _ _

/-- `%.{p}g` of a positive integer `n` with more than `P` digits: the `e` style, significand `T` -/
theorem generalBody_sci {n den p T z : Nat} (hd : 0 < den) (hn : 0 < n)
    (hL : (if p = 0 then 1 else p) < (D n).length) (hT : 0 < T) (hT10 : T % 10 ≠ 0)
    (hk : keptUp n ((D n).length - (if p = 0 then 1 else p) - 1) false = T * 10 ^ z)
    (hle : keptUp n ((D n).length - (if p = 0 then 1 else p) - 1) false ≤ 10 ^ (if p = 0 then 1 else p)) :
    FmtSpec.generalBody (n * den) den p =
      sciText T ((D n).length - 1 +
        (if keptUp n ((D n).length - (if p = 0 then 1 else p) - 1) false = 10 ^ (if p = 0 then 1 else p) then 1 else 0)) := by
  generalize hP : (if p = 0 then 1 else p) = P at *
  have hPpos : 0 < P := by rw [← hP]; split <;> omega
  have hnd : n * den ≠ 0 := Nat.mul_ne_zero (by omega) (by omega)
  have hled : den ≤ n * den := Nat.le_mul_of_pos_left _ hn
  have hdiv : n * den / den = n := Nat.mul_div_cancel _ hd
  have hx0 : FmtSpec.floorLog10 (n * den) den = (((D n).length - 1 : Nat) : Int) := by
    unfold FmtSpec.floorLog10; rw [if_pos hled, hdiv]
  have hkk : (P : Int) - 1 - (((D n).length - 1 : Nat) : Int) = - (((D n).length - P : Nat) : Int) := by omega
  have hneg : ¬ ((0 : Int) ≤ - (((D n).length - P : Nat) : Int)) := by omega
  have hsr : FmtSpec.scaleRound (n * den) den ((P : Int) - 1 - (((D n).length - 1 : Nat) : Int)) =
      keptUp n ((D n).length - P - 1) false := by
    rw [hkk]; unfold FmtSpec.scaleRound
    rw [if_neg hneg, Int.neg_neg, Int.toNat_natCast]
    have := roundHalfEven_digits (N := n * den) (den := den) (b := n) (i := (D n).length - P - 1) (ru := false) hd hdiv.symm
      (by simp [Nat.mul_mod_left])
    rw [show (D n).length - P - 1 + 1 = (D n).length - P by omega] at this
    rw [this]; unfold keptUp
    rw [show (D n).length - P - 1 + 1 = (D n).length - P by omega]
  generalize hK : keptUp n ((D n).length - P - 1) false = K at *
  have hsci : FmtSpec.sciDigits (n * den) den P =
      (if K = 10 ^ P then (10 ^ (P - 1), (((D n).length - 1 : Nat) : Int) + 1) else (K, (((D n).length - 1 : Nat) : Int))) := by
    unfold FmtSpec.sciDigits
    simp only [hx0, hsr]
  unfold FmtSpec.generalBody
  simp only [hP, hnd, if_false]
  have hrange : ¬ ((-4 : Int) ≤ (FmtSpec.sciDigits (n * den) den P).2 ∧ (FmtSpec.sciDigits (n * den) den P).2 < (P : Int)) := by
    rw [hsci]; split <;> simp <;> omega
  rw [if_neg hrange]
  rw [sciBody_eq]
  simp only [hnd, if_false, hsci]
  by_cases hc : K = 10 ^ P
  · -- carry out: significand 10^(P-1), exponent one more
    simp only [hc, if_true]
    obtain ⟨rfl, rfl⟩ := pow10_factor hT10 (by rw [← hk, hc])
    have hD : D (10 ^ (z - 1)) = D 1 ++ List.replicate (z - 1) 48 := by
      have := D_mul_pow 1 (z - 1) (by decide); rwa [Nat.one_mul] at this
    have hlen : z ≤ (D (10 ^ (z - 1))).length := by rw [hD]; simp [show D 1 = [49] by decide]; omega
    rw [padLeft_full z _ hlen]
    have hs := strip_sci 1 (z - 1) (by decide) (by decide)
    rw [Nat.one_mul] at hs
    rw [hs]
    have hX : (((D n).length - 1 : Nat) : Int) + 1 = (((D n).length - 1 + 1 : Nat) : Int) := by push_cast; ring
    rw [hX, expText_nat]
    simp [sciText, List.append_assoc]
  · simp only [hc, if_false, Nat.add_zero]
    have hKlt : K < 10 ^ P := by omega
    have hn1 : 10 ^ ((D n).length - 1) ≤ n := pow_le_of_len (by omega) (by omega)
    have hKge : 10 ^ (P - 1) ≤ K := by
      rw [← hK]; unfold keptUp
      have h1 : 10 ^ (P - 1) = 10 ^ ((D n).length - 1) / 10 ^ ((D n).length - P) := by
        rw [Nat.pow_div (by omega) (by decide)]; congr 1; omega
      have h2 : 10 ^ ((D n).length - 1) / 10 ^ ((D n).length - P) ≤ n / 10 ^ ((D n).length - P) := Nat.div_le_div_right hn1
      rw [show (D n).length - P - 1 + 1 = (D n).length - P by omega]
      omega
    have hlen : P ≤ (D K).length := by
      have := D_length_gt hKge; omega
    rw [padLeft_full P _ hlen]
    have hs := strip_sci T z hT hT10
    rw [← hk] at hs
    rw [hs, expText_nat]
    simp [sciText, List.append_assoc]

/-! ### dropping `d` low digits first does not change the rounding (the sticky flag carries them) -/

theorem keptUp_shift {n d i : Nat} {ru : Bool} (hru : ru = true ↔ n % 10 ^ d ≠ 0) :
    keptUp n (i + d) false = keptUp (n / 10 ^ d) i ru := by
  have hdig : n / 10 ^ (i + d) = n / 10 ^ d / 10 ^ i := by rw [Nat.div_div_eq_div_mul, ← Nat.pow_add, Nat.add_comm]
  have hK : n / 10 ^ (i + d + 1) = n / 10 ^ d / 10 ^ (i + 1) := by
    rw [Nat.div_div_eq_div_mul, ← Nat.pow_add]; congr 2; omega
  have hlow := mod_mul_ne_zero_iff n (10 ^ d) (10 ^ i) (Nat.pow_pos (by decide))
  rw [← Nat.pow_add, Nat.add_comm d i] at hlow
  unfold keptUp upCode
  rw [hdig, hK]
  have hb : (false || decide (n % 10 ^ (i + d) ≠ 0)) = (ru || decide (n / 10 ^ d % 10 ^ i ≠ 0)) := by
    rw [Bool.eq_iff_iff]
    simp only [Bool.false_or, Bool.or_eq_true, decide_eq_true_eq]
    rw [← hlow, hru]
  rw [hb]

theorem D_length_div {n d : Nat} (h : 10 ^ d ≤ n) : (D n).length = (D (n / 10 ^ d)).length + d := by
  rw [D_split h, List.length_append, Dk_length]

/-- the closed-form digit run of an integer-valued double in the Default format: no fraction, positive
exponent, `d` digits dropped when the estimate exceeds the precision -/
theorem runSpec_int_default {e f j P : Nat} (h : IntValued64 e f j) :
    (runSpec 52 1023 f e P 0).2.1 = (e - 1023) * 30103 / 100000 + 1 ∧
    (runSpec 52 1023 f e P 0).2.2.1 = 0 ∧ (runSpec 52 1023 f e P 0).2.2.2.1 = true ∧
    runDrop 52 1023 f e P 0 =
      (if P < (e - 1023) * 30103 / 100000 + 1 then (e - 1023) * 30103 / 100000 + 1 - (P + 1) else 0) := by
  obtain ⟨he1, he2, hf, hj, hdiv, hodd, hint⟩ := h
  have hmant : mant 52 f e = 2 ^ 52 + f := by unfold mant; rw [if_neg (by omega)]
  have hfs : findFirstBit (2 ^ 52 + f) = j := findFirstBit_spec hdiv hodd (by omega)
  have hfix : (decide ((0:Nat) = fmtSemiFixed) || decide ((0:Nat) = fmtFixed)) = false := by decide
  have hest : estDigits 52 j (e - 1023) e = (e - 1023) * 30103 / 100000 + 1 := by
    unfold estDigits; rw [if_neg (by omega)]; simp
  simp only [runSpec, runDrop, hmant, hfs, he1, if_true, decide_true, Bool.true_and, hfix, Bool.not_false, Bool.and_true,
    hint, Bool.true_or, hest]
  refine ⟨trivial, trivial, trivial, ?_⟩
  by_cases hx : P < (e - 1023) * 30103 / 100000 + 1 <;> simp [hx]

/-- **Default format, integer-valued doubles with more digits than the precision**: the value is rounded
half-even to `P` significant digits and printed in the `e+XX` style, exactly as `%.{p}g`. -/
theorem default_big_int64 (pre : List Nat) (bits p j : Nat) (hp : p ≤ 40)
    (h : IntValued64 ((bits / 2 ^ 52) % 2 ^ 11) (bits % 2 ^ 52) j)
    (hl : (if p = 0 then 1 else p) < (D (intValue64 ((bits / 2 ^ 52) % 2 ^ 11) (bits % 2 ^ 52))).length) :
    realToString f64 pre bits p 0 = .ok (pre ++ FmtSpec.format64 bits p .default) := by
  have he1 := h.he1
  have he2 := h.he2
  have hfin : (bits / 2 ^ 52) % 2 ^ 11 ≠ 2 ^ 11 - 1 := by omega
  have hnz : (bits / 2 ^ 52) % 2 ^ 11 ≠ 0 ∨ bits % 2 ^ 52 ≠ 0 := Or.inl (by omega)
  have hfl : bits % 2 ^ 52 < 2 ^ 52 := h.hf
  have hel : (bits / 2 ^ 52) % 2 ^ 11 ≤ 2 * 1023 := by omega
  obtain ⟨den, hden, hdec⟩ := decode64_int h
  have hpp : (if (0:Nat) = fmtDefault ∧ p = 0 then 1 else p) = (if p = 0 then 1 else p) := by simp [fmtDefault]
  generalize hP : (if p = 0 then 1 else p) = P at *
  have hPpos : 0 < P := by rw [← hP]; split <;> omega
  have hP40 : P ≤ 40 := by rw [← hP]; split <;> omega
  -- the digit run
  obtain ⟨num', den', hden', hdec', hex⟩ := runSpec_exact_decode (M := 52) (X := 11) (by decide) (by decide) (by decide)
    bits P 0 hfin hnz
  have hB : (2:Nat) ^ (11 - 1) - 1 = 1023 := by norm_num
  rw [hB] at hex
  have hdd : FmtSpec.decode 52 11 bits = FmtSpec.decode64 bits := rfl
  rw [hdd, hdec] at hdec'
  injection hdec' with _ hnum hdn
  subst hnum; subst hdn
  obtain ⟨hdg, hfl0, hpos, hdrop⟩ := runSpec_int_default (P := P) h
  generalize hn : intValue64 ((bits / 2 ^ 52) % 2 ^ 11) (bits % 2 ^ 52) = n at *
  have hnpos : 0 < n := by rw [← hn]; exact intValue64_pos h
  have hnlen : (D n).length ≤ 1344 := by
    rw [← hn]
    exact D_length_le _ 1344 (by decide) (lt_of_lt_of_le (intValue64_lt h (show 1024 ≤ 1344 by decide)) (Nat.pow_le_pow_left (by decide) 1344))
  generalize hr : runSpec 52 1023 (bits % 2 ^ 52) ((bits / 2 ^ 52) % 2 ^ 11) P 0 = r at *
  obtain ⟨b, dg, fl, pos, ru⟩ := r
  simp only at hdg hfl0 hpos hex
  subst hfl0; subst hpos
  generalize hd : runDrop 52 1023 (bits % 2 ^ 52) ((bits / 2 ^ 52) % 2 ^ 11) P 0 = d at *
  obtain ⟨hb, hru⟩ := hex
  rw [Nat.pow_zero, Nat.mul_one] at hb hru
  have hbn : b = n / 10 ^ d := by
    rw [hb, Nat.mul_comm n den, Nat.mul_div_mul_left _ _ hden]
  have hrun : ru = true ↔ n % 10 ^ d ≠ 0 := by
    rw [hru, Nat.mul_comm n den, Nat.mul_mod_mul_left]
    constructor
    · intro h1 h2; apply h1; rw [h2, Nat.mul_zero]
    · intro h1 h2
      rcases Nat.mul_eq_zero.mp h2 with h3 | h3
      · omega
      · exact h1 h3
  -- digit counts
  have hdgle : dg ≤ (D n).length := by
    have := est_le_len64 h; rw [hn] at this; omega
  have hdlt : d + P + 1 ≤ (D n).length := by rw [hdrop]; split <;> omega
  have hge : 10 ^ d ≤ n := by
    by_cases hd0 : d = 0
    · subst hd0; rw [Nat.pow_zero]; exact hnpos
    · exact pow_le_of_len (by omega) (by omega)
  have hLn : (D n).length = (D b).length + d := by rw [hbn]; exact D_length_div hge
  have hbpos : 0 < b := by rw [hbn]; exact Nat.div_pos hge (Nat.pow_pos (by decide))
  have hLb : P < (D b).length := by omega
  -- model side
  rw [realToString_finite64 pre bits p 0 hfin hnz, hpp, realFinite_reduce shape64 _ hfl hel hnz hP40, hr]
  have hR : R b = Rl b := by simp [R, Rl]; omega
  unfold layout
  have e1 : ¬ ((0:Nat) = fmtSemiFixed) := by decide
  have e2 : ¬ ((0:Nat) = fmtFixed) := by decide
  simp only [e1, e2, if_false, hR]
  obtain ⟨T, z, pi, hfmt, hT0, hT10, hk, hpi, hpi2⟩ :=
    formatDefault_round_int (if bits / 2 ^ 63 % 2 = 1 then pre ++ [45] else pre) (dg := dg) ru hbpos hPpos hLb (by omega)
  rw [hfmt]
  -- reference side
  have hshift : keptUp n ((D n).length - P - 1) false = keptUp b ((D b).length - P - 1) ru := by
    rw [show (D n).length - P - 1 = ((D b).length - P - 1) + d by omega, hbn]
    exact keptUp_shift hrun
  have hle : keptUp n ((D n).length - P - 1) false ≤ 10 ^ P := by
    rw [hshift]
    cases hpi' : pi
    · exact Nat.le_of_lt (hpi2 hpi')
    · exact Nat.le_of_eq (hpi.mp hpi')
  have hbody := generalBody_sci (p := p) hden hnpos (by rw [hP]; exact hl) hT0 hT10 (by rw [hP, hshift]; exact hk)
    (by rw [hP]; exact hle)
  rw [format64_finite bits p _ hdec]
  simp only []
  rw [hbody, hP, hshift]
  -- the exponents agree
  have hX : (D b).length + (if dg ≤ P then 0 else dg - (P + 1)) - (if pi = true then 0 else 1) =
      (D n).length - 1 + (if keptUp b ((D b).length - P - 1) ru = 10 ^ P then 1 else 0) := by
    have hdd : (if dg ≤ P then 0 else dg - (P + 1)) = d := by rw [hdrop, hdg]; split <;> split <;> omega
    rw [hdd]
    cases hpi' : pi
    · have : ¬ (keptUp b ((D b).length - P - 1) ru = 10 ^ P) := fun hc => by have := hpi.mpr hc; rw [hpi'] at this; cases this
      simp [this]; omega
    · have : keptUp b ((D b).length - P - 1) ru = 10 ^ P := hpi.mp hpi'
      simp [this]; omega
  rw [hX]
  by_cases hs : bits / 9223372036854775808 % 2 = 1 <;> simp [hs, FmtSpec.signed, FmtSpec.cMinus]

end Qentem.Proofs.NumToStr
