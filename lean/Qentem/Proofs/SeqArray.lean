import Qentem.Model.Seq
/-! Helper lemmas for C14, `Array`: what every model operation does to the item list and to the
invariant `Size() ≤ Capacity()`. -/
namespace Qentem.Seq

/-! ### register tables -/
section tables
variable {σ τ : Type}

@[simp] theorem setR_same (st : Nat → σ) (r : Nat) (v : σ) : setR st r v r = v := by simp [setR]

theorem setR_other (st : Nat → σ) (r i : Nat) (v : σ) (h : i ≠ r) : setR st r v i = st i := by simp [setR, h]

@[simp] theorem setR_self (st : Nat → σ) (r : Nat) : setR st r (st r) = st := by
  funext i; simp only [setR]; split <;> simp_all

/-- Mapping a function over a table commutes with updating a register. -/
theorem map_setR (f : σ → τ) (st : Nat → σ) (r : Nat) (v : σ) :
    (fun i => f (setR st r v i)) = setR (fun i => f (st i)) r (f v) := by
  funext i; simp only [setR]; split <;> rfl

/-- An invariant of every register survives updating one register with a good value. -/
theorem all_setR {P : σ → Prop} (st : Nat → σ) (r : Nat) (v : σ) (h : ∀ i, P (st i)) (hv : P v) :
    ∀ i, P (setR st r v i) := by
  intro i; simp only [setR]; split <;> simp_all

end tables

namespace ArrayM
variable {α : Type}

/-- `Size() ≤ Capacity()` -/
def Inv (a : ArrayM α) : Prop := a.data.length ≤ a.cap

@[simp] theorem empty_data : (empty : ArrayM α).data = [] := rfl
theorem empty_inv : (empty : ArrayM α).Inv := by simp [Inv, empty]

@[simp] theorem push_data (a : ArrayM α) (x : α) : (a.push x).data = a.data ++ [x] := by
  unfold push resizeTo; split <;> rfl

theorem push_inv (a : ArrayM α) (x : α) (h : a.Inv) : (a.push x).Inv := by
  unfold Inv push resizeTo size at *
  dsimp only
  split <;> (try split) <;> simp_all <;> omega

@[simp] theorem appendCopy_data (a : ArrayM α) (s : List α) : (a.appendCopy s).data = a.data ++ s := by
  unfold appendCopy resizeTo; dsimp only; split <;> rfl

theorem appendCopy_inv (a : ArrayM α) (s : List α) : (a.appendCopy s).Inv := by
  unfold Inv appendCopy resizeTo size at *
  dsimp only
  split <;> simp_all <;> omega

theorem appendMove_data (a s : ArrayM α) (h : a.Inv) : (a.appendMove s).data = a.data ++ s.data := by
  unfold appendMove resizeTo
  split
  · next h0 =>
      have : a.data = [] := by
        unfold Inv at h; rw [h0] at h; exact List.eq_nil_of_length_eq_zero (by omega)
      simp [this]
  · dsimp only; split <;> rfl

theorem appendMove_inv (a s : ArrayM α) (hs : s.Inv) : (a.appendMove s).Inv := by
  unfold Inv appendMove resizeTo size at *
  split
  · simpa using hs
  · dsimp only; split <;> simp_all <;> omega

@[simp] theorem clear_data (a : ArrayM α) : a.clear.data = [] := rfl
theorem clear_inv (a : ArrayM α) : a.clear.Inv := by simp [Inv, clear]
@[simp] theorem reset_data (a : ArrayM α) : a.reset.data = [] := rfl
theorem reset_inv (a : ArrayM α) : a.reset.Inv := by simp [Inv, reset, empty]

@[simp] theorem reserve_data (d : α) (a : ArrayM α) (n : Nat) (init : Bool) :
    (reserve d a n init).data = if init then List.replicate n d else [] := by
  unfold reserve
  by_cases hn : n = 0 <;> cases init <;> simp [hn, empty]

theorem reserve_inv (d : α) (a : ArrayM α) (n : Nat) (init : Bool) : (reserve d a n init).Inv := by
  unfold reserve Inv
  by_cases hn : n = 0 <;> cases init <;> simp [hn, empty]

@[simp] theorem resize_data (a : ArrayM α) (n : Nat) : (a.resize n).data = a.data.take n := by
  unfold resize resizeTo size
  by_cases hn : n = 0
  · simp [hn, empty]
  · rw [if_pos hn]; dsimp only
    split
    · rfl
    · exact (List.take_of_length_le (by omega)).symm

theorem resize_inv (a : ArrayM α) (n : Nat) : (a.resize n).Inv := by
  unfold resize resizeTo size Inv
  by_cases hn : n = 0
  · simp [hn, empty]
  · rw [if_pos hn]; dsimp only
    split <;> simp_all <;> omega

theorem resize_cap (a : ArrayM α) (n : Nat) : (a.resize n).cap = n := by
  unfold resize resizeTo
  by_cases hn : n = 0 <;> simp [hn, empty]

@[simp] theorem resizeInit_data (d : α) (a : ArrayM α) (n : Nat) :
    (resizeInit d a n).data = a.data.take n ++ List.replicate (n - a.data.length) d := by
  unfold resizeInit size
  dsimp only
  simp only [resize_data, List.length_take]
  split
  · next h =>
      have h1 : a.data.length < n := by omega
      have h2 : min n a.data.length = a.data.length := by omega
      rw [List.take_of_length_le (by omega), h2]
  · next h =>
      have : n - a.data.length = 0 := by omega
      simp [this]

/-- `ResizeAndInitialize` ends with `setSize(Capacity())`: the list built by the model has exactly
that many items, so no uninitialised cell becomes part of the content. -/
theorem resizeInit_full (d : α) (a : ArrayM α) (n : Nat) :
    (resizeInit d a n).data.length = (resizeInit d a n).cap ∧ (resizeInit d a n).cap = n := by
  have hc : (resizeInit d a n).cap = n := by
    unfold resizeInit; dsimp only; split <;> simp [resize_cap]
  refine ⟨?_, hc⟩
  rw [hc, resizeInit_data]; simp; omega

theorem resizeInit_inv (d : α) (a : ArrayM α) (n : Nat) : (resizeInit d a n).Inv := by
  unfold Inv; rw [(resizeInit_full d a n).1]; exact Nat.le_refl _

@[simp] theorem expect_data (a : ArrayM α) (n : Nat) : (a.expect n).data = a.data := by
  unfold expect resizeTo; dsimp only; split <;> rfl

theorem expect_inv (a : ArrayM α) (n : Nat) (h : a.Inv) : (a.expect n).Inv := by
  unfold Inv expect resizeTo size at *
  dsimp only
  split <;> simp_all <;> omega

/-- `Expect(n)` really leaves room for `n` more items. -/
theorem expect_room (a : ArrayM α) (n : Nat) : a.data.length + n ≤ (a.expect n).cap := by
  unfold expect resizeTo size
  dsimp only
  split <;> simp_all <;> omega

@[simp] theorem compress_data (a : ArrayM α) : a.compress.data = a.data := by
  unfold compress size; rw [resize_data]; exact List.take_of_length_le (Nat.le_refl _)

theorem compress_inv (a : ArrayM α) : a.compress.Inv := resize_inv _ _

theorem compress_cap (a : ArrayM α) : a.compress.cap = a.data.length := resize_cap _ _

@[simp] theorem drop_data (a : ArrayM α) (n : Nat) :
    (a.drop n).data = if n ≤ a.data.length then a.data.take (a.data.length - n) else a.data := by
  unfold drop size; split <;> rfl

theorem drop_inv (a : ArrayM α) (n : Nat) (h : a.Inv) : (a.drop n).Inv := by
  unfold Inv drop size at *
  split <;> simp_all <;> omega

@[simp] theorem ofCopy_data (s : List α) : (ofCopy s).data = s := rfl
theorem ofCopy_inv (s : List α) : (ofCopy s).Inv := by simp [Inv, ofCopy]

end ArrayM

/-! ### programs -/
variable {α : Type}

/-- The content of every register. -/
def arrAbs (st : ArrSt α) : ArrAbs α := fun i => (st i).data

def ArrInv (st : ArrSt α) : Prop := ∀ i, (st i).Inv

theorem arrAbs_setR (st : ArrSt α) (r : Nat) (v : ArrayM α) :
    arrAbs (setR st r v) = setR (arrAbs st) r v.data := map_setR (fun a => a.data) st r v

theorem arrInit_inv : ArrInv (arrInit : ArrSt α) := fun _ => ArrayM.empty_inv

@[simp] theorem arrAbs_apply (st : ArrSt α) (i : Nat) : arrAbs st i = (st i).data := rfl

theorem arrAbs_setR_self (st : ArrSt α) (r : Nat) (v : ArrayM α) (h : v.data = (st r).data) :
    arrAbs (setR st r v) = arrAbs st := by
  rw [arrAbs_setR, h]; exact setR_self (arrAbs st) r

@[simp] theorem setR_arrAbs_self (st : ArrSt α) (r : Nat) : setR (arrAbs st) r (st r).data = arrAbs st :=
  setR_self (arrAbs st) r

/-- One step of the container model is one step of the plain-list specification, and hands the same
items back to the caller. -/
theorem arr_step_refines (d : α) (op : ArrOp α) (st : ArrSt α) (h : ArrInv st) :
    arrAbs (op.step d st).1 = (op.spec d (arrAbs st)).1 ∧ (op.step d st).2 = (op.spec d (arrAbs st)).2 := by
  cases op with
  | push r x => simp [ArrOp.step, ArrOp.spec, arrAbs_setR]
  | pushSelf r i =>
    simp only [ArrOp.step, ArrOp.spec, arrAbs_apply]
    cases (st r).data[i]? <;> simp [arrAbs_setR]
  | appC r s => simp [ArrOp.step, ArrOp.spec, arrAbs_setR]
  | appM r s => simp [ArrOp.step, ArrOp.spec, arrAbs_setR, ArrayM.appendMove_data _ _ (h r)]
  | asgC r s =>
    by_cases e : r = s
    · subst e; simp [ArrOp.step, ArrOp.spec]
    · simp [ArrOp.step, ArrOp.spec, arrAbs_setR, e]
  | asgM r s =>
    by_cases e : r = s
    · subst e; simp [ArrOp.step, ArrOp.spec]
    · simp [ArrOp.step, ArrOp.spec, arrAbs_setR, e]
  | ctorC r s => simp [ArrOp.step, ArrOp.spec, arrAbs_setR]
  | ctorM r s => simp [ArrOp.step, ArrOp.spec, arrAbs_setR]
  | ctorN r n init => simp [ArrOp.step, ArrOp.spec, arrAbs_setR]
  | clear r => simp [ArrOp.step, ArrOp.spec, arrAbs_setR]
  | reset r => simp [ArrOp.step, ArrOp.spec, arrAbs_setR]
  | detach r => simp [ArrOp.step, ArrOp.spec, arrAbs_setR]
  | reserve r n init => simp [ArrOp.step, ArrOp.spec, arrAbs_setR]
  | resize r n => simp [ArrOp.step, ArrOp.spec, arrAbs_setR]
  | resizeInit r n => simp [ArrOp.step, ArrOp.spec, arrAbs_setR]
  | expect r n => simp [ArrOp.step, ArrOp.spec, arrAbs_setR_self]
  | compress r => simp [ArrOp.step, ArrOp.spec, arrAbs_setR]
  | drop r n =>
    simp only [ArrOp.step, ArrOp.spec, arrAbs_setR, ArrayM.drop_data, arrAbs_apply, and_true]
    congr

/-- `Size() ≤ Capacity()` is preserved by every operation. -/
theorem arr_step_inv (d : α) (op : ArrOp α) (st : ArrSt α) (h : ArrInv st) : ArrInv (op.step d st).1 := by
  unfold ArrInv at *
  cases op with
  | push r x => exact all_setR st r _ h (ArrayM.push_inv _ _ (h r))
  | pushSelf r i =>
    simp only [ArrOp.step]
    cases (st r).data[i]? with
    | none => exact h
    | some x => exact all_setR st r _ h (ArrayM.push_inv _ _ (h r))
  | appC r s => exact all_setR st r _ h (ArrayM.appendCopy_inv _ _)
  | appM r s => exact all_setR _ s _ (all_setR st r _ h (ArrayM.appendMove_inv _ _ (h s))) ArrayM.empty_inv
  | asgC r s =>
    simp only [ArrOp.step]; split
    · exact h
    · exact all_setR st r _ h (ArrayM.ofCopy_inv _)
  | asgM r s =>
    simp only [ArrOp.step]; split
    · exact h
    · exact all_setR _ s _ (all_setR st r _ h (h s)) ArrayM.empty_inv
  | ctorC r s => exact all_setR st r _ h (ArrayM.ofCopy_inv _)
  | ctorM r s => exact all_setR _ r _ (all_setR st s _ h ArrayM.empty_inv) (h s)
  | ctorN r n init => exact all_setR st r _ h (ArrayM.reserve_inv _ _ _ _)
  | clear r => exact all_setR st r _ h (ArrayM.clear_inv _)
  | reset r => exact all_setR st r _ h (ArrayM.reset_inv _)
  | detach r => exact all_setR st r _ h ArrayM.empty_inv
  | reserve r n init => exact all_setR st r _ h (ArrayM.reserve_inv _ _ _ _)
  | resize r n => exact all_setR st r _ h (ArrayM.resize_inv _ _)
  | resizeInit r n => exact all_setR st r _ h (ArrayM.resizeInit_inv _ _ _)
  | expect r n => exact all_setR st r _ h (ArrayM.expect_inv _ _ (h r))
  | compress r => exact all_setR st r _ h (ArrayM.compress_inv _)
  | drop r n => exact all_setR st r _ h (ArrayM.drop_inv _ _ (h r))

/-- Lifted to every program by induction over the operation list. -/
theorem arr_run_refines (d : α) (ops : List (ArrOp α)) : ∀ (st : ArrSt α), ArrInv st →
    arrAbs (arrRun d ops st) = arrSpecRun d ops (arrAbs st) ∧ ArrInv (arrRun d ops st) := by
  induction ops with
  | nil => intro st h; exact ⟨rfl, h⟩
  | cons op ops ih =>
    intro st h
    simp only [arrRun, arrSpecRun]
    rw [← (arr_step_refines d op st h).1]
    exact ih _ (arr_step_inv d op st h)

theorem arr_outs_refine (d : α) (ops : List (ArrOp α)) : ∀ (st : ArrSt α), ArrInv st →
    arrOuts d ops st = arrSpecOuts d ops (arrAbs st) := by
  induction ops with
  | nil => intro st _; rfl
  | cons op ops ih =>
    intro st h
    simp only [arrOuts, arrSpecOuts]
    rw [← (arr_step_refines d op st h).1, ← (arr_step_refines d op st h).2]
    rw [ih _ (arr_step_inv d op st h)]

end Qentem.Seq
