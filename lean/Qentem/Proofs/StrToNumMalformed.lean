import Qentem.Proofs.StrToNumInt
/-! C09 helper lemmas: zero, and the malformed shapes that are rejected. -/
namespace Qentem.StrToNum

/-- units that would continue a lone `0`: digit, `.`, `e`, `E`, `x`, `X` -/
def contZero (x : Nat) : Bool := contInt x || x == 120 || x == 88

/-- `0` (alone, or followed by a unit that cannot continue it): Natural 0, or the real −0 under a minus sign -/
theorem afterSign_zero (c : List Nat) (e : Nat) (neg : Bool) (off : Nat) (he : e < 2 ^ 32)
    (h0 : rd c e off = some 48) (hend : endsAt c e (off + 1) contZero) :
    afterSign c e neg off =
      some (if neg then ⟨.real, 0x8000000000000000, off + 1⟩ else ⟨.natural, 0, off + 1⟩) := by
  have hoff := rd_lt h0
  unfold afterSign
  simp only [hoff, if_true, h0, isNonZeroDigit]
  simp only [Nat.lt_irrefl, decide_false, Bool.false_and, Bool.false_eq_true, if_false, true_or, if_true, true_and]
  have finish : ∀ s : Scan, s = ⟨0, off + 1, false, 0, false⟩ →
      thenScan (some (.inr s)) (afterScan c e neg 0 false) = some (if neg then ⟨.real, 0x8000000000000000, off + 1⟩ else ⟨.natural, 0, off + 1⟩) := by
    intro s hs; subst hs
    have hend' : endsAt c e (off + 1) contInt := by
      rcases hend with h | ⟨x, hx, hc⟩
      · exact Or.inl h
      · simp only [contZero, Bool.or_eq_false_iff] at hc
        exact Or.inr ⟨x, hx, hc.1.1⟩
    unfold thenScan afterScan
    simp only [twentieth_stop c e 0 (off + 1) hend']
    cases neg <;> simp
  rcases hend with h | ⟨x, hx, hc⟩
  · -- the zero is the last unit
    have h1 : ¬ (off + 1 < e) := by omega
    simp only [h1, if_false]
    simp only [show (48 : Nat) ≠ 46 by decide, if_false]
    rw [iter1_digits c e _ [48] off 0 48 0 false (by decide) (by intro y hy; simp at hy; subst hy; decide)
      ⟨h0, trivial⟩ (by rw [windowEnd_eq e off he hoff]; split <;> simp <;> omega)
      (Or.inl (by rw [windowEnd_eq e off he hoff]; split <;> simp <;> omega))]
    exact finish _ (by simp [pushDigit])
  · have hx1 := rd_lt hx
    simp only [contZero, contInt, Bool.or_eq_false_iff, beq_eq_false_iff_ne] at hc
    obtain ⟨⟨⟨hd, hde⟩, h120⟩, h88⟩ := hc
    have h46 : x ≠ 46 := by intro h; subst h; simp [isDotOrE] at hde
    simp only [hx1, if_true, hx, h120, h88, false_or, if_false, hd, Bool.false_eq_true, h46]
    rw [iter1_digits c e _ [] (off + 1) 0 x 0 false h46 (by intro y hy; simp at hy) trivial (by simp)
      (Or.inr ⟨x, by simpa using hx, hd, h46⟩)]
    exact finish _ (by simp)

/-- leading zeros: `0` followed by a digit -/
theorem afterSign_leadingZero (c : List Nat) (e : Nat) (neg : Bool) (off d : Nat)
    (h0 : rd c e off = some 48) (h1 : rd c e (off + 1) = some d) (hd : isDigit d = true) :
    afterSign c e neg off = some ⟨.notANumber, 0, off + 1⟩ := by
  have hoff := rd_lt h0
  have hoff1 := rd_lt h1
  have hx : ¬ (d = 120 ∨ d = 88) := by simp [isDigit] at hd; omega
  unfold afterSign
  simp [hoff, h0, isNonZeroDigit, hoff1, h1, hx, hd]

/-- a dot that is followed by no digit, with nothing (but a sign) before it -/
theorem afterSign_loneDot (c : List Nat) (e : Nat) (neg : Bool) (off : Nat)
    (h0 : rd c e off = some 46) (hend : endsAt c e (off + 1) isDigit) :
    afterSign c e neg off = some ⟨.notANumber, 0, off + 1⟩ := by
  have hoff := rd_lt h0
  unfold afterSign
  simp only [hoff, if_true, h0, isNonZeroDigit]
  simp only [show ¬ ((46 : Nat) = 48) by decide, false_and, if_false, or_true, if_true,
    show decide (48 < 46) = false by decide, Bool.false_and, Bool.false_eq_true]
  rcases hend with h | ⟨x, hx, hc⟩
  · have : e - (off + 1) = 0 := by omega
    simp [this, skipZeros, isDigit]
  · have hx1 := rd_lt hx
    obtain ⟨j, hj⟩ : ∃ j, e - (off + 1) = j + 1 := ⟨e - (off + 1) - 1, by omega⟩
    have h48 : x ≠ 48 := by intro h; subst h; simp [isDigit] at hc
    simp [hj, skipZeros, hx, h48, hc]

end Qentem.StrToNum
