import Qentem.Proofs.UnicodeEncode
/-!
Helper lemmas for C20 about `HexStringToNumber` and `UnEscape`:
hex digits, the suffix model `unEscapeB` on plain runs and on one `\u` escape, and the link
between the cursor model `unEscapeLoop` (what the driver runs) and `unEscapeB`.
Core Lean only.
-/
namespace Qentem.Unicode

/-! ### hex digits -/

theorem hexVal?_lt {d v : Nat} (h : hexVal? d = some v) : v < 16 := by
  unfold hexVal? at h
  split at h
  · injection h; omega
  split at h
  · injection h; omega
  split at h
  · injection h; omega
  · cases h

theorem hexVal?_hexChar : ∀ up d, d < 16 → hexVal? (hexChar up d) = some d := by decide

/-- One iteration of `number <<= 4; number |= digit` without overflow. -/
theorem hexStep (num v : Nat) (hn : num < 2 ^ 28) (hv : v < 16) :
    ((num <<< 4) % 4294967296) ||| v = num * 16 + v := by
  have h1 : num <<< 4 = 2 ^ 4 * num := by rw [Nat.shiftLeft_eq, Nat.mul_comm]
  have h2 : 2 ^ 4 * num < 4294967296 := by omega
  rw [h1, Nat.mod_eq_of_lt h2, ← Nat.two_pow_add_eq_or_of_lt (by simpa using hv) num]
  omega

/-- Positional value of four hex digits, each in any case. -/
theorem hexFold_four (a b x d va vb vx vd : Nat) (ha : hexVal? a = some va) (hb : hexVal? b = some vb)
    (hx : hexVal? x = some vx) (hd : hexVal? d = some vd) :
    hexFold [a, b, x, d] 0 = va * 4096 + vb * 256 + vx * 16 + vd := by
  have la := hexVal?_lt ha; have lb := hexVal?_lt hb; have lx := hexVal?_lt hx; have ld := hexVal?_lt hd
  simp only [hexFold, ha, hb, hx, hd]
  rw [hexStep 0 va (by omega) la, hexStep _ vb (by omega) lb, hexStep _ vx (by omega) lx, hexStep _ vd (by omega) ld]
  omega

theorem hexFold_hex4 (up : Bool) (v : Nat) (h : v < 0x10000) : hexFold (hex4 up v) 0 = v := by
  unfold hex4
  rw [hexFold_four _ _ _ _ _ _ _ _ (hexVal?_hexChar up _ (by omega)) (hexVal?_hexChar up _ (by omega))
    (hexVal?_hexChar up _ (by omega)) (hexVal?_hexChar up _ (by omega))]
  omega

theorem toUTF_ne_nil (w u : Nat) : toUTF w u ≠ [] := by
  unfold toUTF toUTF8 toUTF16 toUTF32
  repeat' split
  all_goals simp

/-! ### `unEscapeB` on a plain run and on single escapes -/

theorem isPlain_iff (c : Nat) : isPlain c = true ↔ (c ≠ 34 ∧ c ≠ 92 ∧ c ≠ 10 ∧ c ≠ 9 ∧ c ≠ 13) := by
  simp [isPlain, and_assoc]

theorem unEscapeB_plain_cons (w c : Nat) (s pend st : List Nat) (n : Nat) (hc : isPlain c = true) :
    unEscapeB w (c :: s) pend st n = unEscapeB w s (pend ++ [c]) st (n + 1) := by
  obtain ⟨h1, h2, h3, h4, h5⟩ := (isPlain_iff c).1 hc
  rw [unEscapeB.eq_def]; simp [h1, h2, h3, h4, h5]

/-- A run of plain units only moves the cursor: it joins the pending block. -/
theorem unEscapeB_plain (w : Nat) (p : List Nat) (hp : ∀ c ∈ p, isPlain c = true) :
    ∀ (s pend st : List Nat) (n : Nat),
      unEscapeB w (p ++ s) pend st n = unEscapeB w s (pend ++ p) st (n + p.length) := by
  induction p with
  | nil => intros; simp
  | cons c t ih =>
    intro s pend st n
    rw [List.cons_append, unEscapeB_plain_cons w c _ _ _ _ (hp c (by simp)),
      ih (fun x hx => hp x (by simp [hx]))]
    simp [Nat.add_assoc, Nat.add_comm 1]

theorem unEscapeB_quote (w : Nat) (s pend st : List Nat) (n : Nat) :
    unEscapeB w (34 :: s) pend st n = finishB pend st (n + 1) := by
  rw [unEscapeB.eq_def]; simp

/-- One `\uXXXX` (or `\UXXXX`) whose value is not a high surrogate. -/
theorem unEscapeB_u (w e a b x d : Nat) (s pend st : List Nat) (n : Nat) (he : e = 85 ∨ e = 117)
    (hc : hexFold [a, b, x, d] 0 &&& 0xFC00 ≠ 0xD800) :
    unEscapeB w (92 :: e :: a :: b :: x :: d :: s) pend st n =
      unEscapeB w s [] (st ++ pend ++ toUTF w (hexFold [a, b, x, d] 0)) (n + 6) := by
  rw [unEscapeB.eq_def]
  rcases he with rfl | rfl <;> simp [hc]

/-- A high surrogate escape followed by six more units: two are skipped, four are read as hex. -/
theorem unEscapeB_pair (w e a b x d y z a2 b2 x2 d2 : Nat) (s pend st : List Nat) (n : Nat) (he : e = 85 ∨ e = 117)
    (hc : hexFold [a, b, x, d] 0 &&& 0xFC00 = 0xD800) :
    unEscapeB w (92 :: e :: a :: b :: x :: d :: y :: z :: a2 :: b2 :: x2 :: d2 :: s) pend st n =
      unEscapeB w s [] (st ++ pend ++ toUTF w
        ((((((hexFold [a, b, x, d] 0 ^^^ 0xD800) <<< 10) % 4294967296 + (hexFold [a2, b2, x2, d2] 0 &&& 0x3FF)) % 4294967296)
          + 0x10000) % 4294967296)) (n + 12) := by
  rw [unEscapeB.eq_def]
  rcases he with rfl | rfl <;> simp [hc]

/-! ### cursor model = suffix model -/

theorem tl_length (c : List Nat) (len off : Nat) (hlen : len ≤ c.length) :
    ((c.take len).drop off).length = len - off := by
  simp [List.length_drop, List.length_take, Nat.min_eq_left hlen]

theorem tl_cons (c : List Nat) (len off : Nat) (hlen : len ≤ c.length) (h : off < len) :
    ∃ ch, c[off]? = some ch ∧ (c.take len).drop off = ch :: (c.take len).drop (off + 1) := by
  have hl : off < (c.take len).length := by simp [List.length_take, Nat.min_eq_left hlen, h]
  refine ⟨c[off]'(by omega), List.getElem?_eq_getElem (by omega), ?_⟩
  rw [List.drop_eq_getElem_cons hl, List.getElem_take]

theorem tl_nil (c : List Nat) (len off : Nat) (hlen : len ≤ c.length) (h : len ≤ off) :
    (c.take len).drop off = [] := by
  apply List.drop_eq_nil_of_le; simp [List.length_take, Nat.min_eq_left hlen, h]

theorem slice_eq (c : List Nat) (len off2 off : Nat) (hlen : len ≤ c.length) (h2 : off2 ≤ off) (h : off ≤ len) :
    slice c off2 off = some ((c.drop off2).take (off - off2)) := by
  unfold slice
  rw [if_neg (by omega)]
  split
  · subst_vars; simp
  · rw [if_pos (by omega)]

theorem getElem?_of_tl (c : List Nat) (len h : Nat) (l : List Nat)
    (e : (c.take len).drop h = l) (i : Nat) (hi : i < l.length) : c[h + i]? = l[i]? := by
  subst e
  rw [List.getElem?_drop, List.getElem?_take]
  simp [List.length_drop, List.length_take] at hi
  rw [if_pos (by omega)]

theorem hexLoop_fold (c : List Nat) : ∀ (ds : List Nat) (off num : Nat), (∀ i, i < ds.length → c[off + i]? = ds[i]?) →
    (hexLoop c ds.length off num).map (·.1) = some (hexFold ds num) := by
  intro ds
  induction ds with
  | nil => intro off num _; simp [hexLoop, hexFold]
  | cons d t ih =>
    intro off num h
    have h0 : c[off]? = some d := by simpa using h 0 (by simp)
    simp only [List.length_cons, hexLoop, h0, hexFold]
    cases hv : hexVal? d with
    | none => simp
    | some v =>
      simp only
      apply ih
      intro i hi
      have := h (i + 1) (by simp; omega)
      simpa [Nat.add_assoc, Nat.add_comm 1] using this

theorem hexToNumber_eq (c : List Nat) (len h a b x d : Nat) (r : List Nat)
    (e : (c.take len).drop h = a :: b :: x :: d :: r) : hexToNumber c h = some (hexFold [a, b, x, d] 0) := by
  unfold hexToNumber
  apply hexLoop_fold c [a, b, x, d] h 0
  intro i hi
  have := getElem?_of_tl c len h _ e i (by simp at hi ⊢; omega)
  rw [this]
  simp at hi
  rcases i with _ | _ | _ | _ | i <;> simp at hi ⊢
  omega


theorem finish_eq (c : List Nat) (len off2 off : Nat) (st : List Nat) (ret : Nat) (hlen : len ≤ c.length)
    (h2 : off2 ≤ off) (h : off ≤ len) :
    finish c off2 off st ret = some (finishB ((c.drop off2).take (off - off2)) st ret) := by
  unfold finish finishB; rw [slice_eq c len off2 off hlen h2 h]; split <;> rfl

theorem take_snoc_of_getElem? (c : List Nat) (off2 off ch : Nat) (h2 : off2 ≤ off) (hch : c[off]? = some ch) :
    (c.drop off2).take (off + 1 - off2) = (c.drop off2).take (off - off2) ++ [ch] := by
  have e : off + 1 - off2 = (off - off2) + 1 := by omega
  rw [e, List.take_add_one, List.getElem?_drop]
  have : off2 + (off - off2) = off := by omega
  rw [this, hch]; rfl

theorem drop_of_tl (c : List Nat) (len h k : Nat) (l r : List Nat) (e : (c.take len).drop h = l ++ r) (hk : l.length = k) :
    (c.take len).drop (h + k) = r := by
  have := congrArg (List.drop k) e
  rw [List.drop_drop] at this
  rw [this, ← hk]; simp

theorem unEscapeLoop_eq_B (w : Nat) (c : List Nat) (len : Nat) (hlen : len ≤ c.length) :
    ∀ (fuel off off2 : Nat) (st : List Nat), off2 ≤ off → off ≤ len → len - off < fuel →
      unEscapeLoop w c len fuel off off2 st =
        some (unEscapeB w ((c.take len).drop off) ((c.drop off2).take (off - off2)) st off) := by
  intro fuel
  induction fuel with
  | zero => intro off off2 st _ _ h; omega
  | succ fuel ih =>
    intro off off2 st h2 hl hf
    rw [unEscapeLoop]
    by_cases hlt : off < len
    · obtain ⟨ch, hch, hcons⟩ := tl_cons c len off hlen hlt
      rw [if_pos hlt, hch, hcons, unEscapeB.eq_def]
      try simp only []
      by_cases q : ch = 34
      · simp only [q, if_true]; exact finish_eq c len off2 off st _ hlen h2 hl
      · rw [if_neg q, if_neg q]
        by_cases bs : ch = 92
        · rw [if_pos bs, if_pos bs, slice_eq c len off2 off hlen h2 hl]
          try simp only []
          generalize (c.drop off2).take (off - off2) = pend
          by_cases ho : off + 1 ≥ len
          · rw [if_pos ho, tl_nil c len (off + 1) hlen ho]
          · obtain ⟨e, he, hcons1⟩ := tl_cons c len (off + 1) hlen (by omega)
            rw [if_neg ho, he, hcons1]
            try simp only []
            have simple : ∀ v : Nat, unEscapeLoop w c len fuel (off + 1 + 1) (off + 1 + 1) (st ++ pend ++ [v]) =
                some (unEscapeB w ((c.take len).drop (off + 1 + 1)) [] (st ++ pend ++ [v]) (off + 2)) := by
              intro v
              rw [ih (off + 1 + 1) (off + 1 + 1) _ (Nat.le_refl _) (by omega) (by omega)]; simp
            by_cases h1 : e = 34 ∨ e = 92 ∨ e = 47
            · rw [if_pos h1, if_pos h1, simple]
            rw [if_neg h1, if_neg h1]
            by_cases h2 : e = 98
            · rw [if_pos h2, if_pos h2, simple]
            rw [if_neg h2, if_neg h2]
            by_cases h3 : e = 116
            · rw [if_pos h3, if_pos h3, simple]
            rw [if_neg h3, if_neg h3]
            by_cases h4 : e = 110
            · rw [if_pos h4, if_pos h4, simple]
            rw [if_neg h4, if_neg h4]
            by_cases h5 : e = 102
            · rw [if_pos h5, if_pos h5, simple]
            rw [if_neg h5, if_neg h5]
            by_cases h6 : e = 114
            · rw [if_pos h6, if_pos h6, simple]
            rw [if_neg h6, if_neg h6]
            by_cases hu : e = 85 ∨ e = 117
            · rw [if_pos hu, if_pos hu]
              try simp only []
              generalize hr : (c.take len).drop (off + 1 + 1) = rest1
              have hlen1 := tl_length c len (off + 1 + 1) hlen
              rw [hr] at hlen1
              rcases rest1 with _ | ⟨a, _ | ⟨b, _ | ⟨x, _ | ⟨d, rest2⟩⟩⟩⟩
              · (try simp at hlen1); rw [if_neg (by omega)]
              · (try simp at hlen1); rw [if_neg (by omega)]
              · (try simp at hlen1); rw [if_neg (by omega)]
              · (try simp at hlen1); rw [if_neg (by omega)]
              · simp at hlen1
                rw [if_pos (by omega), hexToNumber_eq c len _ a b x d rest2 hr]
                try simp only []
                have hr2 : (c.take len).drop (off + 1 + 1 + 4) = rest2 :=
                  drop_of_tl c len (off + 1 + 1) 4 [a, b, x, d] rest2 hr rfl
                by_cases hs : hexFold [a, b, x, d] 0 &&& 0xFC00 ≠ 0xD800
                · rw [if_pos hs, if_pos hs, ih (off + 1 + 1 + 4) (off + 1 + 1 + 4) _ (Nat.le_refl _) (by omega) (by omega), hr2]
                  simp
                · rw [if_neg hs, if_neg hs]
                  have hlen2 := tl_length c len (off + 1 + 1 + 4) hlen
                  rw [hr2] at hlen2
                  rcases rest2 with _ | ⟨y, _ | ⟨z, _ | ⟨a2, _ | ⟨b2, _ | ⟨x2, _ | ⟨d2, rest3⟩⟩⟩⟩⟩⟩
                  · (try simp at hlen2); rw [if_neg (by omega)]
                  · (try simp at hlen2); rw [if_neg (by omega)]
                  · (try simp at hlen2); rw [if_neg (by omega)]
                  · (try simp at hlen2); rw [if_neg (by omega)]
                  · (try simp at hlen2); rw [if_neg (by omega)]
                  · (try simp at hlen2); rw [if_neg (by omega)]
                  · simp at hlen2
                    have hr3 : (c.take len).drop (off + 1 + 1 + 4 + 2) = a2 :: b2 :: x2 :: d2 :: rest3 :=
                      drop_of_tl c len (off + 1 + 1 + 4) 2 [y, z] _ hr2 rfl
                    have hr4 : (c.take len).drop (off + 1 + 1 + 4 + 6) = rest3 :=
                      drop_of_tl c len (off + 1 + 1 + 4) 6 [y, z, a2, b2, x2, d2] rest3 hr2 rfl
                    rw [if_pos (by omega), hexToNumber_eq c len _ a2 b2 x2 d2 rest3 hr3]
                    try simp only []
                    rw [ih (off + 1 + 1 + 4 + 6) (off + 1 + 1 + 4 + 6) _ (Nat.le_refl _) (by omega) (by omega), hr4]
                    simp
            · rw [if_neg hu, if_neg hu]
        · rw [if_neg bs, if_neg bs]
          by_cases ctl : ch = 10 ∨ ch = 9 ∨ ch = 13
          · rw [if_pos ctl, if_pos ctl]
          · rw [if_neg ctl, if_neg ctl, ih (off + 1) off2 st (by omega) (by omega) (by omega),
              take_snoc_of_getElem? c off2 off ch h2 hch]
    · rw [if_neg hlt, tl_nil c len off hlen (by omega), unEscapeB.eq_def]
      try simp only []
      exact finish_eq c len off2 off st _ hlen h2 hl

/-- The routine on a buffer `c` with `len ≤ |c|`: no out-of-range read, fuel suffices, and the
result is the suffix model run on the first `len` units. -/
theorem unEscapeA_eq_B (w : Nat) (c : List Nat) (len : Nat) (st : List Nat) (hlen : len ≤ c.length) :
    unEscapeA w c len st = some (unEscapeB w (c.take len) [] st 0) := by
  unfold unEscapeA
  rw [unEscapeLoop_eq_B w c len hlen (len + 1) 0 0 st (Nat.le_refl _) (Nat.zero_le _) (by omega)]
  simp

theorem unEscape_eq_B (w : Nat) (c : List Nat) : unEscape c w = some (unEscapeB w c [] [] 0) := by
  unfold unEscape
  rw [unEscapeA_eq_B w c c.length [] (Nat.le_refl _), List.take_length]

/-! ### one escape between plain text, suffix model -/

theorem unEscapeB_ctx_u (w e a b x d : Nat) (pre post : List Nat) (hpre : ∀ c ∈ pre, isPlain c = true)
    (hpost : ∀ c ∈ post, isPlain c = true) (he : e = 85 ∨ e = 117)
    (hc : hexFold [a, b, x, d] 0 &&& 0xFC00 ≠ 0xD800) :
    unEscapeB w (pre ++ 92 :: e :: a :: b :: x :: d :: (post ++ [34])) [] [] 0 =
      (pre ++ toUTF w (hexFold [a, b, x, d] 0) ++ post, pre.length + 6 + post.length + 1) := by
  rw [unEscapeB_plain w pre hpre, unEscapeB_u w e a b x d _ _ _ _ he hc, unEscapeB_plain w post hpost,
    unEscapeB_quote]
  have := toUTF_ne_nil w (hexFold [a, b, x, d] 0)
  simp [finishB, this]

theorem unEscapeB_ctx_pair (w e a b x d y z a2 b2 x2 d2 : Nat) (pre post : List Nat)
    (hpre : ∀ c ∈ pre, isPlain c = true) (hpost : ∀ c ∈ post, isPlain c = true) (he : e = 85 ∨ e = 117)
    (hc : hexFold [a, b, x, d] 0 &&& 0xFC00 = 0xD800) :
    unEscapeB w (pre ++ 92 :: e :: a :: b :: x :: d :: y :: z :: a2 :: b2 :: x2 :: d2 :: (post ++ [34])) [] [] 0 =
      (pre ++ toUTF w ((((((hexFold [a, b, x, d] 0 ^^^ 0xD800) <<< 10) % 4294967296 +
          (hexFold [a2, b2, x2, d2] 0 &&& 0x3FF)) % 4294967296) + 0x10000) % 4294967296) ++ post,
        pre.length + 12 + post.length + 1) := by
  rw [unEscapeB_plain w pre hpre, unEscapeB_pair w e a b x d y z a2 b2 x2 d2 _ _ _ _ he hc,
    unEscapeB_plain w post hpost, unEscapeB_quote]
  simp [finishB, toUTF_ne_nil]

/-- The `SizeT32` arithmetic that combines a surrogate pair, without the masks. -/
theorem pair_arith (hi lo : Nat) (hh : 0xD800 ≤ hi ∧ hi ≤ 0xDBFF) (hl : 0xDC00 ≤ lo ∧ lo ≤ 0xDFFF) :
    (((((hi ^^^ 0xD800) <<< 10) % 4294967296 + (lo &&& 0x3FF)) % 4294967296) + 0x10000) % 4294967296 =
      0x10000 + (hi - 0xD800) * 0x400 + (lo - 0xDC00) := by
  rw [xorD800 hi hh, and3FF, Nat.shiftLeft_eq]
  omega

/-! ### whole strings: token sequences -/

theorem unEscapeB_simple (w e v : Nat) (s pend st : List Nat) (n : Nat) (h : simpleOut e = some v) :
    unEscapeB w (92 :: e :: s) pend st n = unEscapeB w s [] (st ++ pend ++ [v]) (n + 2) := by
  unfold simpleOut at h
  rw [unEscapeB.eq_def]
  simp only []
  split at h
  · injection h with h; subst h; rename_i hc; simp [hc]
  rename_i n1; rw [if_neg n1]
  split at h
  · injection h with h; subst h; rename_i hc; subst hc; simp
  split at h
  · injection h with h; subst h; rename_i hc; subst hc; simp
  split at h
  · injection h with h; subst h; rename_i hc; subst hc; simp
  split at h
  · injection h with h; subst h; rename_i hc; subst hc; simp
  split at h
  · injection h with h; subst h; rename_i hc; subst hc; simp
  · cases h

/-- Effect of one token on (pending block, stream). -/
def Tok.step (w : Nat) (t : Tok) (p : List Nat × List Nat) : List Nat × List Nat :=
  if t.isPlainTok then (p.1 ++ t.out w, p.2) else ([], p.2 ++ p.1 ++ t.out w)

theorem unEscapeB_tok (w : Nat) (t : Tok) (ht : t.ok = true) (s pend st : List Nat) (n : Nat) :
    unEscapeB w (t.src ++ s) pend st n =
      unEscapeB w s (t.step w (pend, st)).1 (t.step w (pend, st)).2 (n + t.src.length) := by
  cases t with
  | plain c =>
    simp only [Tok.ok] at ht
    simp [Tok.src, Tok.step, Tok.isPlainTok, Tok.out, unEscapeB_plain_cons w c s pend st n ht]
  | simple e =>
    simp only [Tok.ok, Option.isSome_iff_exists] at ht
    obtain ⟨v, hv⟩ := ht
    simp [Tok.src, Tok.step, Tok.isPlainTok, Tok.out, unEscapeB_simple w e v s pend st n hv, hv]
  | u e a b x d =>
    simp only [Tok.ok, Bool.and_eq_true, Bool.or_eq_true, beq_iff_eq, bne_iff_ne] at ht
    simp [Tok.src, Tok.step, Tok.isPlainTok, Tok.out, unEscapeB_u w e a b x d s pend st n ht.1 ht.2]
  | pair e a b x d y z a2 b2 x2 d2 =>
    simp only [Tok.ok, Bool.and_eq_true, Bool.or_eq_true, beq_iff_eq] at ht
    simp [Tok.src, Tok.step, Tok.isPlainTok, Tok.out, pairCode,
      unEscapeB_pair w e a b x d y z a2 b2 x2 d2 s pend st n ht.1 ht.2]

theorem unEscapeB_toks (w : Nat) (ts : List Tok) (h : ∀ t ∈ ts, t.ok = true) :
    ∀ (s pend st : List Nat) (n : Nat),
      unEscapeB w (ts.flatMap Tok.src ++ s) pend st n =
        unEscapeB w s (ts.foldl (fun p t => t.step w p) (pend, st)).1
          (ts.foldl (fun p t => t.step w p) (pend, st)).2 (n + (ts.flatMap Tok.src).length) := by
  induction ts with
  | nil => intros; simp
  | cons t r ih =>
    intro s pend st n
    rw [List.flatMap_cons, List.append_assoc, unEscapeB_tok w t (h t (by simp)),
      ih (fun t' ht' => h t' (by simp [ht']))]
    simp [Nat.add_assoc]

theorem Tok.out_ne_nil (w : Nat) (t : Tok) (ht : t.ok = true) : t.out w ≠ [] := by
  cases t with
  | plain c => simp [Tok.out]
  | simple e =>
    simp only [Tok.ok, Option.isSome_iff_exists] at ht
    obtain ⟨v, hv⟩ := ht
    simp [Tok.out, hv]
  | u e a b x d => exact toUTF_ne_nil _ _
  | pair e a b x d y z a2 b2 x2 d2 => exact toUTF_ne_nil _ _

/-- What the fold leaves: stream ++ pending is the concatenated output; the stream stays as it
was exactly when every token was plain (the routine then never touches the stream). -/
theorem fold_step (w : Nat) (ts : List Tok) (h : ∀ t ∈ ts, t.ok = true) : ∀ (pend st : List Nat),
    let r := ts.foldl (fun p t => t.step w p) (pend, st)
    r.2 ++ r.1 = st ++ pend ++ ts.flatMap (Tok.out w) ∧
    (ts.all Tok.isPlainTok = true → r.2 = st) ∧ (ts.all Tok.isPlainTok = false → r.2 ≠ []) := by
  induction ts with
  | nil => intro pend st; simp
  | cons t r ih =>
    intro pend st
    have hr := ih (fun t' ht' => h t' (by simp [ht']))
    simp only [List.foldl_cons, List.flatMap_cons, List.all_cons]
    cases hp : t.isPlainTok with
    | true =>
      have hs : Tok.step w t (pend, st) = (pend ++ t.out w, st) := by simp [Tok.step, hp]
      have := hr (pend ++ t.out w) st
      rw [hs]
      simp only [Bool.true_and]
      exact ⟨by rw [this.1]; simp, this.2.1, this.2.2⟩
    | false =>
      have hs : Tok.step w t (pend, st) = ([], st ++ pend ++ t.out w) := by simp [Tok.step, hp]
      have := hr [] (st ++ pend ++ t.out w)
      rw [hs]
      simp only [Bool.false_and]
      refine ⟨by rw [this.1]; simp, by simp, ?_⟩
      intro _
      have hne := Tok.out_ne_nil w t (h t (by simp))
      by_cases ha : r.all Tok.isPlainTok = true
      · rw [this.2.1 ha]; simp [hne]
      · exact this.2.2 (by simpa using ha)

/-- **Whole strings, suffix model.** A body made of accepted tokens, closed by a quote (anything
may follow): every token is replaced by its output and `|body| + 1` units are consumed.  If no
escape occurs and the stream was empty the routine leaves it empty (the caller then uses the
input span itself). -/
theorem unEscapeB_string (w : Nat) (ts : List Tok) (h : ∀ t ∈ ts, t.ok = true) (rest : List Nat) :
    unEscapeB w (ts.flatMap Tok.src ++ 34 :: rest) [] [] 0 =
      (if ts.all Tok.isPlainTok then [] else ts.flatMap (Tok.out w), (ts.flatMap Tok.src).length + 1) := by
  rw [unEscapeB_toks w ts h, unEscapeB_quote]
  have := fold_step w ts h [] []
  simp only [List.append_nil, List.nil_append] at this
  unfold finishB
  cases ha : ts.all Tok.isPlainTok with
  | true => rw [this.2.1 ha]; simp
  | false =>
    have hne := this.2.2 ha
    simp only [List.isEmpty_iff, hne, if_false, Bool.false_eq_true]
    rw [this.1]; simp

/-- The same when the body is ended by the length instead of a quote. -/
theorem unEscapeB_string_eoi (w : Nat) (ts : List Tok) (h : ∀ t ∈ ts, t.ok = true) :
    unEscapeB w (ts.flatMap Tok.src) [] [] 0 =
      (if ts.all Tok.isPlainTok then [] else ts.flatMap (Tok.out w), (ts.flatMap Tok.src).length) := by
  have e := unEscapeB_toks w ts h [] [] [] 0
  rw [List.append_nil] at e
  rw [e, unEscapeB.eq_def]
  have := fold_step w ts h [] []
  simp only [List.append_nil, List.nil_append] at this
  simp only []
  unfold finishB
  cases ha : ts.all Tok.isPlainTok with
  | true => rw [this.2.1 ha]; simp
  | false =>
    have hne := this.2.2 ha
    simp only [List.isEmpty_iff, hne, if_false, Bool.false_eq_true]
    rw [this.1]; simp


/-! ### RFC 8259 items as tokens -/

def Item.toTok : Item → Tok
  | .unit c => .plain c
  | .esc cp bigU up =>
    let e := if bigU then 85 else 117
    if cp < 0x10000 then
      .u e (hexChar up (cp / 4096 % 16)) (hexChar up (cp / 256 % 16)) (hexChar up (cp / 16 % 16)) (hexChar up (cp % 16))
    else
      let hi := 0xD800 + (cp - 0x10000) / 0x400
      let lo := 0xDC00 + (cp - 0x10000) % 0x400
      .pair e (hexChar up (hi / 4096 % 16)) (hexChar up (hi / 256 % 16)) (hexChar up (hi / 16 % 16)) (hexChar up (hi % 16))
        92 e (hexChar up (lo / 4096 % 16)) (hexChar up (lo / 256 % 16)) (hexChar up (lo / 16 % 16)) (hexChar up (lo % 16))

theorem Item.toTok_src (i : Item) : i.toTok.src = i.src := by
  cases i with
  | unit c => rfl
  | esc cp bigU up =>
    simp only [Item.toTok, Item.src, jsonEscape]
    split <;> simp [Tok.src, uEscape, hex4]

theorem Item.toTok_plain (i : Item) : i.toTok.isPlainTok = i.isUnit := by
  cases i with
  | unit c => rfl
  | esc cp bigU up => simp only [Item.toTok, Item.isUnit]; split <;> rfl

theorem Item.toTok_ok_out (w : Nat) (i : Item) (h : i.ok) : i.toTok.ok = true ∧ i.toTok.out w = i.out w := by
  cases i with
  | unit c => exact ⟨h, rfl⟩
  | esc cp bigU up =>
    obtain ⟨h1, h2⟩ := h
    have hU : ((if bigU = true then 85 else 117 : Nat) == 85 || (if bigU = true then 85 else 117 : Nat) == 117) = true := by
      cases bigU <;> simp
    simp only [Item.toTok, Item.out]
    split
    · have hv := hexFold_hex4 up cp (by omega)
      unfold hex4 at hv
      simp only [Tok.ok, Tok.out, hv, hU, Bool.true_and]
      refine ⟨?_, trivial⟩
      simp only [bne_iff_ne, ne_eq]
      intro hc; have := (isHigh_iff cp (by omega)).1 hc; omega
    · have hh : 0xD800 ≤ 0xD800 + (cp - 0x10000) / 0x400 ∧ 0xD800 + (cp - 0x10000) / 0x400 ≤ 0xDBFF := by omega
      have hl : 0xDC00 ≤ 0xDC00 + (cp - 0x10000) % 0x400 ∧ 0xDC00 + (cp - 0x10000) % 0x400 ≤ 0xDFFF := by omega
      have hv := hexFold_hex4 up (0xD800 + (cp - 0x10000) / 0x400) (by omega)
      have hv2 := hexFold_hex4 up (0xDC00 + (cp - 0x10000) % 0x400) (by omega)
      unfold hex4 at hv hv2
      simp only [Tok.ok, Tok.out, hv, hv2, hU, Bool.true_and, pairCode]
      refine ⟨?_, ?_⟩
      · simp only [beq_iff_eq]; exact (isHigh_iff _ (by omega)).2 hh
      · rw [pair_arith _ _ hh hl]; exact congrArg (toUTF w) (by omega)

theorem flatMap_toTok_src (items : List Item) : (items.map Item.toTok).flatMap Tok.src = items.flatMap Item.src := by
  induction items with
  | nil => rfl
  | cons i r ih => simp [List.flatMap_cons, Item.toTok_src, ih]

theorem flatMap_toTok_out (w : Nat) (items : List Item) (h : ∀ i ∈ items, i.ok) :
    (items.map Item.toTok).flatMap (Tok.out w) = items.flatMap (Item.out w) := by
  induction items with
  | nil => rfl
  | cons i r ih =>
    simp [List.flatMap_cons, (Item.toTok_ok_out w i (h i (by simp))).2, ih (fun j hj => h j (by simp [hj]))]

theorem all_toTok_plain (items : List Item) : (items.map Item.toTok).all Tok.isPlainTok = items.all Item.isUnit := by
  induction items with
  | nil => rfl
  | cons i r ih => simp [Item.toTok_plain, ih]

/-! ### returned count; convenience step lemmas for the JSON area -/

theorem finishB_ret (pend st : List Nat) (r : Nat) : (finishB pend st r).2 = r := by
  unfold finishB; split <;> rfl

/-- The count returned by the suffix model never exceeds `n + |s|` (and is `0` on rejection). -/
theorem unEscapeB_ret_le (w : Nat) (s pend st : List Nat) (n : Nat) :
    (unEscapeB w s pend st n).2 ≤ n + s.length := by
  fun_induction unEscapeB w s pend st n <;> simp_all [finishB_ret] <;> omega

theorem unEscapeA_ret_le (w : Nat) (c : List Nat) (len : Nat) (st s : List Nat) (r : Nat)
    (hlen : len ≤ c.length) (h : unEscapeA w c len st = some (s, r)) : r ≤ len := by
  rw [unEscapeA_eq_B w c len st hlen] at h
  injection h with h
  have := unEscapeB_ret_le w (c.take len) [] st 0
  rw [h] at this
  simp [List.length_take, Nat.min_eq_left hlen] at this
  exact this

/-- `\uXXXX` written with `hex4` (either case) for a value that is not a high surrogate, e.g.
the control escapes `\u0000`..`\u001f`. -/
theorem unEscapeB_u_hex4 (w e cp : Nat) (up : Bool) (s pend st : List Nat) (n : Nat) (he : e = 85 ∨ e = 117)
    (hcp : cp < 0x10000) (hnh : ¬ (0xD800 ≤ cp ∧ cp ≤ 0xDBFF)) :
    unEscapeB w (92 :: e :: (hex4 up cp ++ s)) pend st n = unEscapeB w s [] (st ++ pend ++ toUTF w cp) (n + 6) := by
  have hv := hexFold_hex4 up cp hcp
  unfold hex4 at hv ⊢
  have hc : hexFold [hexChar up (cp / 4096 % 16), hexChar up (cp / 256 % 16), hexChar up (cp / 16 % 16), hexChar up (cp % 16)] 0
      &&& 0xFC00 ≠ 0xD800 := by
    rw [hv]; intro h; exact hnh ((isHigh_iff cp hcp).1 h)
  have := unEscapeB_u w e _ _ _ _ s pend st n he hc
  rw [hv] at this
  simpa using this

/-! ### `HexStringToNumber` for any `Number_T` -/

theorem hexLoopW_eq_hexLoop (c : List Nat) : ∀ n off num, hexLoopW 4294967296 c n off num = hexLoop c n off num := by
  intro n
  induction n with
  | zero => intros; rfl
  | succ n ih =>
    intro off num
    simp only [hexLoopW, hexLoop]
    cases c[off]? with
    | none => rfl
    | some d =>
      simp only []
      cases hexVal? d with
      | none => rfl
      | some v => simp only []; exact ih _ _

theorem hexStepW (k num v : Nat) (hn : num * 16 < 2 ^ k) (hv : v < 16) :
    ((num <<< 4) % 2 ^ k) ||| v = num * 16 + v := by
  have h1 : num <<< 4 = 2 ^ 4 * num := by rw [Nat.shiftLeft_eq, Nat.mul_comm]
  rw [h1, Nat.mod_eq_of_lt (by omega), ← Nat.two_pow_add_eq_or_of_lt (by simpa using hv) num]
  omega

theorem hexLoopW_value (k : Nat) (c : List Nat) : ∀ (ds : List Nat) (off num : Nat),
    (∀ i, i < ds.length → c[off + i]? = ds[i]?) → (∀ d ∈ ds, (hexVal? d).isSome) →
    (num + 1) * 16 ^ ds.length ≤ 2 ^ k →
    hexLoopW (2 ^ k) c ds.length off num = some (hexValue ds num, off + ds.length) := by
  intro ds
  induction ds with
  | nil => intro off num _ _ _; simp [hexLoopW, hexValue]
  | cons d t ih =>
    intro off num h hd hb
    have h0 : c[off]? = some d := by simpa using h 0 (by simp)
    obtain ⟨v, hv⟩ := Option.isSome_iff_exists.1 (hd d (by simp))
    have lv := hexVal?_lt hv
    have hb' : (num + 1) * (16 * 16 ^ t.length) ≤ 2 ^ k := by simpa [Nat.pow_succ, Nat.mul_comm] using hb
    have hpos : 0 < 16 ^ t.length := Nat.pow_pos (by omega)
    have hlt : num * 16 < 2 ^ k := by
      have : num * 16 < (num + 1) * (16 * 16 ^ t.length) := by
        calc num * 16 < (num + 1) * 16 := by omega
          _ ≤ (num + 1) * (16 * 16 ^ t.length) := Nat.mul_le_mul_left _ (Nat.le_mul_of_pos_right _ hpos)
      omega
    simp only [List.length_cons, hexLoopW, h0, hv, hexValue, Option.getD_some]
    rw [hexStepW k num v hlt lv]
    rw [ih (off + 1) (num * 16 + v) (by
        intro i hi
        have := h (i + 1) (by simp; omega)
        simpa [Nat.add_assoc, Nat.add_comm 1] using this) (fun x hx => hd x (by simp [hx])) (by
        calc (num * 16 + v + 1) * 16 ^ t.length ≤ ((num + 1) * 16) * 16 ^ t.length := Nat.mul_le_mul_right _ (by omega)
          _ = (num + 1) * (16 * 16 ^ t.length) := by rw [Nat.mul_assoc]
          _ ≤ 2 ^ k := hb')]
    simp [Nat.add_assoc, Nat.add_comm 1]

end Qentem.Unicode
