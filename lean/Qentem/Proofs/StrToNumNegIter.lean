import Qentem.Proofs.StrToNumPosUlp
/-! C09 helper lemmas: error bound for the negative-exponent pipeline (`negIter`: repeated
`b ↦ ⌊b·r/2^64⌋` with the reciprocal table). After `i` steps the code's `b`, the exact target
`T = num·2^(64+S)` and `P = 5^E` satisfy

  `b·P·2^62 ≤ T·(2^62 + i)`                      (not more than a relative `i·2^-62` above), and
  `T·2^62 ≤ (b + i)·P·(2^62 + i)`                (not more than `i` units plus a relative `i·2^-62` below). -/
namespace Qentem.StrToNum
open Qentem.Generated.StrToNum

/-- one multiply-shift step with a reciprocal `r ≈ G/F` (`G = A·p2 = 2^(64+s)`, `F = 5^e`), abstractly -/
theorem neg_step (b r A G F P T i p2 C K : Nat) (hA : 0 < A) (hG : G = A * p2) (hp2F : p2 ≤ F)
    (hFC : F * C ≤ G) (hr1 : r * F < G + F) (hr2 : G < r * F + F) (hC : C = 2 * K) (hK : i + 1 ≤ K)
    (hF : 0 < F)
    (inv1 : b * P * K ≤ T * (K + i)) (inv2 : T * K ≤ (b * P + i * P) * (K + i)) :
    (b * r / A) * (P * F) * K ≤ T * p2 * (K + i + 1) ∧
    T * p2 * K ≤ ((b * r / A) * (P * F) + (i + 1) * (P * F)) * (K + i + 1) := by
  have hC1 : 1 ≤ C := by omega
  have hd1 : b * r / A * A ≤ b * r := Nat.div_mul_le_self _ _
  have hd2 : b * r ≤ (b * r / A + 1) * A := by
    have := Nat.lt_div_mul_add (a := b * r) (b := A) hA
    rw [Nat.add_mul, Nat.one_mul]; omega
  generalize b * r / A = b' at *
  constructor
  · -- upper
    apply Nat.le_of_mul_le_mul_right _ (Nat.mul_pos hA (show 0 < C by omega))
    calc b' * (P * F) * K * (A * C) = (b' * A) * (P * F * K * C) := by ring
      _ ≤ (b * r) * (P * F * K * C) := Nat.mul_le_mul_right _ hd1
      _ = (b * P) * K * C * (r * F) := by ring
      _ ≤ (b * P) * K * C * (G + F) := Nat.mul_le_mul_left _ (Nat.le_of_lt hr1)
      _ = (b * P) * K * (G * C + F * C) := by ring
      _ ≤ (b * P) * K * (G * C + G) := Nat.mul_le_mul_left _ (Nat.add_le_add_left hFC _)
      _ = (b * P * K) * (G * (C + 1)) := by ring
      _ ≤ (T * (K + i)) * (G * (C + 1)) := Nat.mul_le_mul_right _ inv1
      _ = T * p2 * A * ((K + i) * (C + 1)) := by rw [hG]; ring
      _ ≤ T * p2 * A * ((K + i + 1) * C) := by
          apply Nat.mul_le_mul_left
          have : (K + i) * (C + 1) = (K + i) * C + (K + i) := by ring
          have : (K + i + 1) * C = (K + i) * C + C := by ring
          omega
      _ = T * p2 * (K + i + 1) * (A * C) := by ring
  · -- lower
    obtain ⟨Cm, hCm⟩ : ∃ Cm, C = Cm + 1 := ⟨C - 1, by omega⟩
    have hCm0 : 0 < Cm := by omega
    apply Nat.le_of_mul_le_mul_right _ (Nat.mul_pos hA hCm0)
    -- G * Cm ≤ r * F * C
    have hGC : G * Cm ≤ r * F * C := by
      have e1 : G * C = G * Cm + G := by rw [hCm]; ring
      have e2 : (r * F + F) * C = r * F * C + F * C := by ring
      have e3 : G * C ≤ (r * F + F) * C := Nat.mul_le_mul_right _ (Nat.le_of_lt hr2)
      omega
    have hPG : P * G ≤ P * F * A := by
      rw [hG]
      calc P * (A * p2) = P * A * p2 := by ring
        _ ≤ P * A * F := Nat.mul_le_mul_left _ hp2F
        _ = P * F * A := by ring
    calc T * p2 * K * (A * Cm) = (T * K) * (G * Cm) := by rw [hG]; ring
      _ ≤ ((b * P + i * P) * (K + i)) * (G * Cm) := Nat.mul_le_mul_right _ inv2
      _ = (K + i) * ((b * P) * (G * Cm) + i * (P * G) * Cm) := by ring
      _ ≤ (K + i) * ((b * P) * (r * F * C) + i * (P * F * A) * C) := by
          apply Nat.mul_le_mul_left
          apply Nat.add_le_add
          · exact Nat.mul_le_mul_left _ hGC
          · calc i * (P * G) * Cm ≤ i * (P * F * A) * Cm := Nat.mul_le_mul_right _ (Nat.mul_le_mul_left _ hPG)
              _ ≤ i * (P * F * A) * C := Nat.mul_le_mul_left _ (by omega)
      _ = (K + i) * ((b * r) * (P * F * C) + i * (P * F * A) * C) := by ring
      _ ≤ (K + i) * (((b' + 1) * A) * (P * F * C) + i * (P * F * A) * C) := by
          apply Nat.mul_le_mul_left
          exact Nat.add_le_add_right (Nat.mul_le_mul_right _ hd2) _
      _ = (b' * (P * F) + (i + 1) * (P * F)) * A * ((K + i) * C) := by ring
      _ ≤ (b' * (P * F) + (i + 1) * (P * F)) * A * ((K + i + 1) * Cm) := by
          apply Nat.mul_le_mul_left
          have : (K + i) * C = (K + i) * Cm + (K + i) := by rw [hCm]; ring
          have : (K + i + 1) * Cm = (K + i) * Cm + Cm := by ring
          omega
      _ = (b' * (P * F) + (i + 1) * (P * F)) * (K + i + 1) * (A * Cm) := by ring


/-- the facts about reciprocal entry `i` that `neg_step` needs -/
def recipFacts (i : Nat) : Bool :=
  match powerOfOneOverFive[i]?, powerOfOneOverFiveShift[i]? with
  | some r, some s =>
    decide (r < 2 ^ 64) && decide (2 ^ s ≤ 5 ^ i) && decide (5 ^ i * 2 ^ 63 ≤ 2 ^ 64 * 2 ^ s) &&
    decide (r * 5 ^ i < 2 ^ 64 * 2 ^ s + 5 ^ i) && decide (2 ^ 64 * 2 ^ s < r * 5 ^ i + 5 ^ i)
  | _, _ => false

theorem recipFacts_all : ∀ i, 1 ≤ i → i < 28 → recipFacts i = true := by decide

/-- the two-sided error invariant -/
def NegInv (b T P i : Nat) : Prop :=
  b * P * 2 ^ 62 ≤ T * (2 ^ 62 + i) ∧ T * 2 ^ 62 ≤ (b * P + i * P) * (2 ^ 62 + i)

theorem NegInv.step {b T P i : Nat} (h : NegInv b T P i) (j r s : Nat) (hj1 : 1 ≤ j) (hj : j < 28)
    (hr : powerOfOneOverFive[j]? = some r) (hs : powerOfOneOverFiveShift[j]? = some s) (hi : i + 1 ≤ 2 ^ 62) :
    NegInv (b * r / 2 ^ 64) (T * 2 ^ s) (P * 5 ^ j) (i + 1) := by
  have hf := recipFacts_all j hj1 hj
  unfold recipFacts at hf
  rw [hr, hs] at hf
  simp only [Bool.and_eq_true, decide_eq_true_eq] at hf
  obtain ⟨⟨⟨⟨_, f2⟩, f3⟩, f4⟩, f5⟩ := hf
  obtain ⟨h1, h2⟩ := h
  have := neg_step b r (2 ^ 64) (2 ^ 64 * 2 ^ s) (5 ^ j) P T i (2 ^ s) (2 ^ 63) (2 ^ 62) (Nat.pow_pos (by decide)) rfl f2
    f3 f4 f5 (by decide) hi (Nat.pow_pos (by decide)) h1 h2
  exact ⟨by simpa [Nat.add_assoc] using this.1, by simpa [Nat.add_assoc] using this.2⟩

theorem negIter_inv (r27 s27 : Nat) (hr : powerOfOneOverFive[27]? = some r27) (hs : powerOfOneOverFiveShift[27]? = some s27)
    (n : Nat) : ∀ (b T P i : Nat), NegInv b T P i → i + n ≤ 2 ^ 62 →
      NegInv (negIter r27 n b) (T * 2 ^ (s27 * n)) (P * 5 ^ (27 * n)) (i + n) := by
  induction n with
  | zero => intro b T P i h _; simpa [negIter] using h
  | succ n ih =>
    intro b T P i h hi
    have hstep := h.step 27 r27 s27 (Nat.le_of_lt_succ (by omega)) (Nat.lt_succ_self 27) hr hs (by omega)
    have := ih _ _ _ _ hstep (by omega)
    rw [negIter]
    have e1 : T * 2 ^ s27 * 2 ^ (s27 * n) = T * 2 ^ (s27 * (n + 1)) := by
      rw [Nat.mul_assoc, ← Nat.pow_add]; congr 2; ring
    have e2 : P * 5 ^ 27 * 5 ^ (27 * n) = P * 5 ^ (27 * (n + 1)) := by
      rw [Nat.mul_assoc, ← Nat.pow_add]; congr 2; ring
    rw [e1, e2, show i + 1 + n = i + (n + 1) by omega] at this
    exact this

theorem add32_eq' (a b : Nat) (h : a + b < 2 ^ 32) : add32 a b = a + b := by
  unfold add32; exact Nat.mod_eq_of_lt h

/-- the number of multiply-shift steps of `negScale num x`: one per 27 powers of five, one more for the rest -/
def stepsOf (x : Nat) : Nat := x / 27 + (if x % 27 = 0 then 0 else 1)

theorem stepsOf_le (x : Nat) : stepsOf x ≤ x / 27 + 1 := by unfold stepsOf; split <;> omega

/-- **Error bound of the reciprocal pipeline.** For a 64-bit mantissa and `x ≤ 2^20`:
`negScale num x = (b, x + 64 + S)` where, with `k = stepsOf x ≤ x/27 + 1` the number of multiply-shift steps,
`b·5^x` is at most a relative `k·2^-62` above `num·2^(64+S)` and at most `k` units of `b` plus a
relative `k·2^-62` below it. (`num·2^(64+S)/5^x` is the exact value the code aims at.) -/
theorem negScale_error_steps (num x : Nat) (hn : num < 2 ^ 64) (hx : x ≤ 2 ^ 20) :
    ∃ b S, negScale num x = some (b, x + 64 + S) ∧ S ≤ 64 * (x / 27 + 1) ∧
      b * 5 ^ x * 2 ^ 62 ≤ num * 2 ^ (64 + S) * (2 ^ 62 + stepsOf x) ∧
      num * 2 ^ (64 + S) * 2 ^ 62 ≤ (b + stepsOf x) * 5 ^ x * (2 ^ 62 + stepsOf x) := by
  obtain ⟨r27, s27, hr27, hs27, hcases⟩ := negScale_closed num x hn
  have hs27v : s27 = 62 := by
    have : powerOfOneOverFiveShift[27]? = some 62 := by decide
    rw [hs27] at this; exact Option.some.inj this
  have hinit : NegInv (num * 2 ^ 64) (num * 2 ^ 64) 1 0 := ⟨by simp, by simp⟩
  have hloop := negIter_inv r27 s27 hr27 hs27 (x / 27) _ _ _ _ hinit (by have := Nat.div_le_self x 27; omega)
  have hdiv := Nat.div_le_self x 27
  have hx27 : x = 27 * (x / 27) + x % 27 := (Nat.div_add_mod x 27).symm
  have hadd : add32 x 64 = x + 64 := add32_eq' _ _ (by omega)
  have hsh1 : (add32 x 64 + x / 27 * s27) % 2 ^ 32 = x + 64 + s27 * (x / 27) := by
    rw [hadd, Nat.mul_comm (x / 27) s27]
    exact Nat.mod_eq_of_lt (by rw [hs27v]; omega)
  simp only [Nat.one_mul, Nat.zero_add] at hloop
  obtain ⟨l1, l2⟩ := hloop
  rcases hcases with ⟨h0, hps⟩ | ⟨h0, rj, sj, hrj, hsj, hps⟩
  · have hst : stepsOf x = x / 27 := by simp [stepsOf, h0]
    rw [hst]
    refine ⟨negIter r27 (x / 27) (num * 2 ^ 64), s27 * (x / 27), by rw [hps, hsh1],
      by rw [hs27v]; omega, ?_, ?_⟩
    · have e : 27 * (x / 27) = x := by omega
      rw [e] at l1
      rw [Nat.pow_add, ← Nat.mul_assoc]; exact l1
    · have e : 27 * (x / 27) = x := by omega
      rw [e] at l2
      rw [Nat.pow_add, ← Nat.mul_assoc, Nat.add_mul]; exact l2
  · have hjlt : x % 27 < 28 := by omega
    have hstep := (show NegInv _ _ _ _ from ⟨l1, l2⟩).step (x % 27) rj sj (by omega) hjlt hrj hsj (by omega)
    have hsj32 : sj < 64 := by
      have : ∀ i, i < 28 → ∀ s, powerOfOneOverFiveShift[i]? = some s → s < 64 := by decide
      exact this _ hjlt _ hsj
    have hst : stepsOf x = x / 27 + 1 := by simp [stepsOf, h0]
    rw [hst]
    refine ⟨negIter r27 (x / 27) (num * 2 ^ 64) * rj / 2 ^ 64, s27 * (x / 27) + sj, ?_,
      by rw [hs27v]; omega, ?_, ?_⟩
    · rw [hps, hsh1, add32_eq' _ _ (by rw [hs27v]; omega)]
      congr 2
      omega
    · obtain ⟨m1, _⟩ := hstep
      have e : 5 ^ (27 * (x / 27)) * 5 ^ (x % 27) = 5 ^ x := by rw [← Nat.pow_add]; congr 1; omega
      have e2 : num * 2 ^ 64 * 2 ^ (s27 * (x / 27)) * 2 ^ sj = num * 2 ^ (64 + (s27 * (x / 27) + sj)) := by
        rw [Nat.pow_add, Nat.pow_add]; ring
      rw [e, e2] at m1; exact m1
    · obtain ⟨_, m2⟩ := hstep
      have e : 5 ^ (27 * (x / 27)) * 5 ^ (x % 27) = 5 ^ x := by rw [← Nat.pow_add]; congr 1; omega
      have e2 : num * 2 ^ 64 * 2 ^ (s27 * (x / 27)) * 2 ^ sj = num * 2 ^ (64 + (s27 * (x / 27) + sj)) := by
        rw [Nat.pow_add, Nat.pow_add]; ring
      rw [e, e2, ← Nat.add_mul] at m2; exact m2

theorem negScale_error (num x : Nat) (hn : num < 2 ^ 64) (hx : x ≤ 2 ^ 20) :
    ∃ b S k, negScale num x = some (b, x + 64 + S) ∧ k ≤ x / 27 + 1 ∧ S ≤ 64 * (x / 27 + 1) ∧
      b * 5 ^ x * 2 ^ 62 ≤ num * 2 ^ (64 + S) * (2 ^ 62 + k) ∧
      num * 2 ^ (64 + S) * 2 ^ 62 ≤ (b + k) * 5 ^ x * (2 ^ 62 + k) := by
  obtain ⟨b, S, h1, h2, h3, h4⟩ := negScale_error_steps num x hn hx
  exact ⟨b, S, stepsOf x, h1, stepsOf_le x, h2, h3, h4⟩

end Qentem.StrToNum
