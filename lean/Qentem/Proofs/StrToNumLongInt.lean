import Qentem.Proofs.StrToNumPosTrunc
import Qentem.Proofs.StrToNumCut
/-! C09 helper lemmas: plain integers of 20 or more digits (no dot, no exponent). The scan takes 19 digits, the
20th-digit stage takes one more when it fits 64 bits, the tail loop counts the remaining digits into the exponent. -/
set_option linter.unusedSimpArgs false
namespace Qentem.StrToNum
open Qentem.Round

/-- ignored integer digits (no dot seen, none met), then the numeral ends: exponent = number of ignored digits -/
theorem finishReal_end_ignored (c : List Nat) (e : Nat) (neg : Bool) (num off tmp start dotOff Q : Nat)
    (hd : digitsOn c e off Q) (hoQ : off < Q) (hQe : Q ≤ e) (he : e < 2 ^ 32) (hend : endsAt c e Q contReal)
    (ep10 : Nat) (hep : sub32 (sub32 tmp start) (b2n (!false && false)) = ep10) :
    finishReal c e neg num off tmp start false false dotOff = realResult neg num ep10 (Q - off) false Q := by
  have htail : tailLoop c e num (e - off) off false dotOff = some (.inr ⟨Q, false, dotOff, 0, 0, false⟩) := by
    rw [tailLoop_on c e num Q (e - off) off false dotOff hd (by omega) (by omega),
      show e - off - (Q - off) = e - Q by omega, tailLoop_stop c e num Q false dotOff hQe hend]
  rw [finishReal, htail]
  simp only [hep, Bool.false_eq_true, if_false]
  rw [if_neg (by omega)]
  have hsub : sub32 Q off = Q - off := sub32_eq Q off (by omega) (by omega)
  have ha : add32 0 (Q - off) = Q - off := by rw [add32_eq 0 _ (by omega)]; omega
  have hs0 : sub32 (Q - off) 0 = Q - off := by rw [sub32_eq _ 0 (Nat.zero_le _) (by omega)]; rfl
  have hne : off ≠ Q := by omega
  have hadj : adjustExponent false off dotOff 0 ⟨Q, false, dotOff, 0, 0, false⟩ = (Q - off, false) := by
    simp [adjustExponent, hne, hsub, ha, hs0]
  rw [hadj]

/-- `realResult` on the positive side for a truncated mantissa whose exact value `Vt` is an integer -/
theorem realResult_pos_trunc_int (neg : Bool) (v n x off Vt : Nat) (hv18 : 10 ^ 18 ≤ v) (hv : v < 2 ^ 64)
    (hvn : 10 ^ (n - 1) ≤ v) (hn1 : 1 ≤ n) (hn : n ≤ 20) (hx : x < 2 ^ 31)
    (ht1 : v * 10 ^ x ≤ Vt) (ht2 : Vt < (v + 1) * 10 ^ x) :
    ClassOutcome neg Vt 0 false off (realResult neg v n x false off) := by
  have hv0 : v ≠ 0 := by
    have : 0 < 10 ^ 18 := Nat.pow_pos (by decide)
    omega
  have hadd : add32 x n = x + n := add32_eq _ _ (by omega)
  by_cases hr : x + n > 309
  · refine ⟨⟨.notANumber, v, off⟩, ?_, rfl, Or.inl ⟨rfl, ?_⟩⟩
    · unfold realResult; simp [hv0, hadd, hr]
    · simp only [Bool.false_eq_true, if_false, Nat.pow_zero, Nat.mul_one]
      have h1 : 10 ^ 309 ≤ 10 ^ (n - 1 + x) := Nat.pow_le_pow_right (by decide) (by omega)
      calc (2 ^ 53 - 1) * 2 ^ 971 < 10 ^ 309 := maxFinite_lt_pow309
        _ ≤ 10 ^ (n - 1 + x) := h1
        _ = 10 ^ (n - 1) * 10 ^ x := Nat.pow_add _ _ _
        _ ≤ v * 10 ^ x := Nat.mul_le_mul_right _ hvn
        _ ≤ Vt := ht1
  · obtain ⟨p, hp, hclose, hfloor⟩ := powerOfPositiveTen_close_trunc_int v x Vt hv18 hv (by omega) ht1 ht2
    have hp63 := powerOfPositiveTen_lt v x p hp
    refine ⟨⟨.real, p ||| (if neg then 0x8000000000000000 else 0), off⟩, ?_, rfl, Or.inr ⟨rfl, or_sign_div p neg hp63, ?_, ?_⟩⟩
    · unfold realResult; simp [hv0, hadd, hr, hp]
    · simp only [Bool.false_eq_true, if_false, Nat.pow_zero, Nat.mul_one]
      rw [or_sign_mod p neg hp63]; exact hclose
    · simp only [Bool.false_eq_true, if_false, Nat.pow_zero, Nat.mul_one]
      rw [or_sign_mod p neg hp63]
      intro hov
      have := hfloor (Nat.le_of_lt hov)
      unfold maxFiniteBits infBits at *
      omega

/-- the windowed scan over a run of at least 20 digits stops after 19 -/
theorem scan19 (c : List Nat) (e : Nat) (neg : Bool) (off d1 : Nat) (xs : List Nat) (d20 : Nat) (he : e < 2 ^ 32)
    (h1 : isNonZeroDigit d1 = true) (hxs : AllDigits xs) (hlen : xs.length = 18)
    (hu : unitsAt c e off (d1 :: xs ++ [d20])) :
    afterSign c e neg off = afterScan c e neg off false ⟨decVal (d1 :: xs), off + 19, false, 0, false⟩ := by
  have hu3 := (unitsAt_append c e (d1 :: xs) [d20] off).1 hu
  have hd1xs : unitsAt c e off (d1 :: xs) := hu3.1
  have hP : rd c e (off + (d1 :: xs).length) = some d20 := hu3.2.1
  simp only [List.length_cons, hlen] at hP
  have hoff : off < e := rd_lt hd1xs.1
  have hPe := rd_lt hP
  have hv64 : decVal (d1 :: xs) < 2 ^ 64 := by
    rw [decVal_cons]
    have hx : decVal xs < 10 ^ xs.length := decVal_lt_pow xs hxs
    simp [isNonZeroDigit] at h1
    have h18 : 10 ^ xs.length ≤ 10 ^ 18 := Nat.pow_le_pow_right (by decide) (by omega)
    have : (d1 - 48) * 10 ^ xs.length ≤ 9 * 10 ^ xs.length := Nat.mul_le_mul_right _ (by omega)
    have : (9 : Nat) * 10 ^ 18 + 10 ^ 18 < 2 ^ 64 := by decide
    omega
  have hfold : xs.foldl pushDigit (d1 - 48) = decVal (d1 :: xs) := by
    rw [foldl_pushDigit xs (d1 - 48) (by rw [decVal_cons] at hv64; exact hv64), decVal_cons]
  rw [afterSign]
  simp only [hoff, if_true, hd1xs.1, h1]
  rw [windowEnd_eq e off he hoff, if_neg (by omega)]
  rw [iter1_digits c e _ xs (off + 1) (d1 - 48) d1 0 false (isDigit_ne_dot (isNonZeroDigit_isDigit h1)) hxs hd1xs.2
    (by omega) (Or.inl (by omega))]
  simp only [thenScan, hfold]
  rw [show off + 1 + xs.length = off + 19 by omega]

/-- 20 or more digits, the 20th not taken (it would overflow 64 bits) -/
theorem afterSign_longint_A (c : List Nat) (e : Nat) (neg : Bool) (off d1 : Nat) (xs : List Nat) (d20 : Nat) (he : e < 2 ^ 32)
    (h1 : isNonZeroDigit d1 = true) (hxs : AllDigits xs) (hlen : xs.length = 18) (hd20 : isDigit d20 = true)
    (hu : unitsAt c e off (d1 :: xs ++ [d20]))
    (hbig : decVal (d1 :: xs) > 0x1999999999999999 ∨ (decVal (d1 :: xs) = 0x1999999999999999 ∧ d20 > 53)) :
    afterSign c e neg off = finishReal c e neg (decVal (d1 :: xs)) (off + 19) (off + 19) off false false 0 := by
  have hu3 := (unitsAt_append c e (d1 :: xs) [d20] off).1 hu
  have hP : rd c e (off + (d1 :: xs).length) = some d20 := hu3.2.1
  simp only [List.length_cons, hlen] at hP
  have hPe := rd_lt hP
  have hnde : isDotOrE d20 = false := by simp [isDigit] at hd20; simp [isDotOrE]; omega
  rw [scan19 c e neg off d1 xs d20 he h1 hxs hlen hu]
  have ht : twentieth c e (decVal (d1 :: xs)) (off + 19) false = some (decVal (d1 :: xs), off + 19, off + 19, true) := by
    unfold twentieth
    simp only [Bool.not_false, true_and, hPe, if_true, hP, hnde, Bool.false_eq_true, if_false, hd20, hbig]
  rw [afterScan_of_twentieth_real c e neg off false ⟨decVal (d1 :: xs), off + 19, false, 0, false⟩ _ _ _ ht]

/-- 21 or more digits, the 20th taken -/
theorem afterSign_longint_B (c : List Nat) (e : Nat) (neg : Bool) (off d1 : Nat) (xs : List Nat) (d20 d21 : Nat) (he : e < 2 ^ 32)
    (h1 : isNonZeroDigit d1 = true) (hxs : AllDigits xs) (hlen : xs.length = 18) (hd20 : isDigit d20 = true)
    (hd21 : isDigit d21 = true) (hu : unitsAt c e off (d1 :: xs ++ [d20, d21]))
    (hsmall : ¬ (decVal (d1 :: xs) > 0x1999999999999999 ∨ (decVal (d1 :: xs) = 0x1999999999999999 ∧ d20 > 53))) :
    afterSign c e neg off =
      finishReal c e neg (decVal (d1 :: xs) * 10 + (d20 - 48)) (off + 20) (off + 20) off false false 0 := by
  have hu3 := (unitsAt_append c e (d1 :: xs) [d20, d21] off).1 hu
  have hP : rd c e (off + (d1 :: xs).length) = some d20 := hu3.2.1
  have hP2 : rd c e (off + (d1 :: xs).length + 1) = some d21 := hu3.2.2.1
  simp only [List.length_cons, hlen] at hP hP2
  have hPe := rd_lt hP
  have hP2e := rd_lt hP2
  have hnde : isDotOrE d20 = false := by simp [isDigit] at hd20; simp [isDotOrE]; omega
  have hu' : unitsAt c e off (d1 :: xs ++ [d20]) :=
    (unitsAt_append c e (d1 :: xs) [d20] off).2 ⟨hu3.1, hu3.2.1, trivial⟩
  rw [scan19 c e neg off d1 xs d20 he h1 hxs hlen hu']
  have hpush : pushDigit (decVal (d1 :: xs)) d20 = decVal (d1 :: xs) * 10 + (d20 - 48) := by
    unfold pushDigit
    apply Nat.mod_eq_of_lt
    simp [isDigit] at hd20
    have h2 : (0x1999999999999999 : Nat) * 10 + 5 < 2 ^ 64 := by decide
    omega
  have ht : twentieth c e (decVal (d1 :: xs)) (off + 19) false =
      some (decVal (d1 :: xs) * 10 + (d20 - 48), off + 20, off + 20, true) := by
    unfold twentieth
    simp only [Bool.not_false, true_and, hPe, if_true, hP, hnde, Bool.false_eq_true, if_false, hd20, hsmall, hpush,
      show off + 19 + 1 = off + 20 by omega, hP2e, hP2, hd21, Bool.or_true]
  rw [afterScan_of_twentieth_real c e neg off false ⟨decVal (d1 :: xs), off + 19, false, 0, false⟩ _ _ _ ht]

end Qentem.StrToNum
