import Qentem.Model.HashLedger
import Qentem.Proofs.Ledger
import Qentem.Proofs.HashTableSort
/-!
Every operation of the hash containers keeps the allocation ledger consistent: the blocks live in
the heap are exactly the blocks the table (and the caller's frame) owns.  `Exec evs L0 n0 L1 n1`:
from any heap whose live ids are (a permutation of) `L0`, all below the fresh-id counter `n0`,
the events run without violation and leave the live ids `L1`, all below `n1`.
-/
namespace Qentem.HashLedger
open Qentem.Ledger Qentem.HashTable

def hids (h : Heap) : List Nat := h.map Prod.fst

def Exec (evs : List Ev) (L0 : List Nat) (n0 : Nat) (L1 : List Nat) (n1 : Nat) : Prop :=
  ∀ h : Heap, (hids h).Perm L0 → L0.Nodup → (∀ x ∈ L0, x < n0) →
    ∃ h', Ledger.run evs h = some h' ∧ (hids h').Perm L1 ∧ L1.Nodup ∧ (∀ x ∈ L1, x < n1)

theorem isLive_iff (h : Heap) (x : Nat) : isLive h x = true ↔ x ∈ hids h := by
  simp [isLive, hids]

theorem hids_release (h : Heap) (x : Nat) : hids (release h x) = (hids h).filter (fun y => y != x) := by
  simp only [hids, release, List.filter_map]
  rfl

theorem Exec.done {L L1 : List Nat} {n n1 : Nat} (hp : L.Perm L1) (hn : n ≤ n1) : Exec [] L n L1 n1 := by
  intro h hh hnd hb
  refine ⟨h, rfl, hh.trans hp, (hp.nodup_iff).mp hnd, ?_⟩
  intro x hx
  have := hb x (hp.mem_iff.mpr hx)
  omega

theorem Exec.step_alloc {evs : List Ev} {L L1 : List Nat} {n n1 sz : Nat}
    (h : Exec evs (n :: L) (n + 1) L1 n1) : Exec (.alloc n sz :: evs) L n L1 n1 := by
  intro hp hh hnd hb
  have hfresh : n ∉ L := fun hm => by have := hb n hm; omega
  have hnl : isLive hp n = false := by
    cases hl : isLive hp n with
    | false => rfl
    | true => exact absurd (hh.mem_iff.mp ((isLive_iff hp n).mp hl)) hfresh
  simp only [Ledger.run, Ledger.step, hnl, Bool.false_eq_true, if_false]
  refine h ((n, sz) :: hp) ?_ (List.nodup_cons.mpr ⟨hfresh, hnd⟩) ?_
  · simpa [hids] using hh
  · intro x hx
    rcases List.mem_cons.mp hx with rfl | hx
    · omega
    · have := hb x hx; omega

theorem Exec.step_free {evs : List Ev} {L L' L1 : List Nat} {n n1 x : Nat} (hperm : L.Perm (x :: L'))
    (h : Exec evs L' n L1 n1) : Exec (.free x :: evs) L n L1 n1 := by
  intro hp hh hnd hb
  have hnd' : (x :: L').Nodup := (hperm.nodup_iff).mp hnd
  have hx : x ∈ hids hp := (hh.trans hperm).mem_iff.mpr (by simp)
  simp only [Ledger.run, Ledger.step, (isLive_iff hp x).mpr hx, if_true]
  refine h (release hp x) ?_ (List.nodup_cons.mp hnd').2 ?_
  · rw [hids_release]
    have h1 := ((hh.trans hperm).filter (fun y => y != x))
    have h2 : (x :: L').filter (fun y => y != x) = L' := by
      simp only [List.filter_cons, bne_self_eq_false, Bool.false_eq_true, if_false]
      rw [List.filter_eq_self]
      intro a ha
      have : a ≠ x := fun e => (List.nodup_cons.mp hnd').1 (e ▸ ha)
      simpa [bne_iff_ne] using this
    rw [h2] at h1; exact h1
  · intro y hy
    exact hb y (hperm.mem_iff.mpr (by simp [hy]))

theorem Exec.step_frees {evs : List Ev} {L1 : List Nat} {n n1 : Nat} : ∀ (F : List Nat) {L L' : List Nat},
    L.Perm (F ++ L') → Exec evs L' n L1 n1 → Exec (F.map Ev.free ++ evs) L n L1 n1
  | [], L, L', hperm, h => by
    intro hp hh hnd hb
    exact h hp (hh.trans hperm) ((hperm.nodup_iff).mp hnd) (fun y hy => hb y (hperm.mem_iff.mpr hy))
  | x :: F, L, L', hperm, h => by
    simp only [List.map_cons, List.cons_append]
    exact Exec.step_free (L' := F ++ L') hperm (Exec.step_frees F (List.Perm.refl _) h)

theorem Exec.append {a b : List Ev} {L0 L1 L2 : List Nat} {n0 n1 n2 : Nat}
    (ha : Exec a L0 n0 L1 n1) (hb : Exec b L1 n1 L2 n2) : Exec (a ++ b) L0 n0 L2 n2 := by
  intro h hh hnd hbd
  obtain ⟨h1, hr1, hp1, hnd1, hb1⟩ := ha h hh hnd hbd
  obtain ⟨h2, hr2, hp2, hnd2, hb2⟩ := hb h1 hp1 hnd1 hb1
  exact ⟨h2, by rw [run_append, hr1]; exact hr2, hp2, hnd2, hb2⟩

theorem Exec.permL {evs : List Ev} {L0 L0' L1 : List Nat} {n0 n1 : Nat} (hp : L0'.Perm L0)
    (h : Exec evs L0 n0 L1 n1) : Exec evs L0' n0 L1 n1 := by
  intro hh hhp hnd hb
  exact h hh (hhp.trans hp) ((hp.nodup_iff).mp hnd) (fun y hy => hb y (hp.mem_iff.mpr hy))

theorem Exec.permR {evs : List Ev} {L0 L1 L1' : List Nat} {n0 n1 n1' : Nat} (hp : L1.Perm L1') (hn : n1 ≤ n1')
    (h : Exec evs L0 n0 L1 n1) : Exec evs L0 n0 L1' n1' := by
  intro hh hhp hnd hb
  obtain ⟨h', hr, hp', hnd', hb'⟩ := h hh hhp hnd hb
  exact ⟨h', hr, hp'.trans hp, (hp.nodup_iff).mp hnd', fun y hy => by
    have := hb' y (hp.mem_iff.mpr hy); omega⟩

theorem balanced_of_exec {tr : List Ev} {n : Nat} (h : Exec tr [] 1 [] n) : Balanced tr := by
  obtain ⟨h', hr, hp, _, _⟩ := h [] (List.Perm.refl _) List.nodup_nil (by simp)
  have : h' = [] := by
    have := hp.length_eq
    simp only [hids, List.length_map, List.length_nil] at this
    exact List.eq_nil_of_length_eq_zero this
  rw [this] at hr
  exact hr

/-! ### What a table owns -/

def optIds (b : Option Blk) : List Nat := b.toList.map (·.id)

def slotIds : Option Slot → List Nat
  | none => []
  | some s => s.kb.id :: optIds s.vb

def slotsIds (sl : List (Option Slot)) : List Nat := sl.flatMap slotIds

def owned (t : Tab) : List Nat := optIds t.blk ++ slotsIds t.slots

@[simp] theorem slotsIds_nil : slotsIds [] = [] := rfl
@[simp] theorem slotsIds_cons (o : Option Slot) (t : List (Option Slot)) : slotsIds (o :: t) = slotIds o ++ slotsIds t := by
  simp [slotsIds]
@[simp] theorem slotsIds_append (a b : List (Option Slot)) : slotsIds (a ++ b) = slotsIds a ++ slotsIds b := by
  simp [slotsIds]

theorem slotsIds_compact (sl : List (Option Slot)) : slotsIds (compact sl) = slotsIds sl := by
  induction sl with
  | nil => rfl
  | cons o t ih =>
    cases o with
    | none => simpa [compact, List.filter, slotIds] using ih
    | some s =>
      have : compact (some s :: t) = some s :: compact t := by simp [compact, List.filter]
      rw [this, slotsIds_cons, slotsIds_cons]
      unfold compact at ih
      unfold compact
      rw [ih]

theorem optFree_eq (b : Option Blk) : optFree b = (optIds b).map Ev.free := by
  cases b <;> simp [optFree, optIds, freeB]

/-- ids in destructor order -/
def dtorIds : Option Slot → List Nat
  | none => []
  | some s => optIds s.vb ++ [s.kb.id]

theorem dtorSlot_eq (o : Option Slot) : dtorSlot o = (dtorIds o).map Ev.free := by
  cases o with
  | none => rfl
  | some s => simp [dtorSlot, dtorIds, optFree_eq, freeB]

theorem disposeAll_eq (sl : List (Option Slot)) : disposeAll sl = (sl.flatMap dtorIds).map Ev.free := by
  induction sl with
  | nil => rfl
  | cons o t ih =>
    simp only [disposeAll, List.flatMap_cons, List.map_append] at ih ⊢
    rw [dtorSlot_eq, ih]

theorem clearSlot_eq (s : Slot) : clearSlot s = (slotIds (some s)).map Ev.free := by
  simp [clearSlot, slotIds, optFree_eq, freeB]

theorem dtorIds_perm (sl : List (Option Slot)) : (sl.flatMap dtorIds).Perm (slotsIds sl) := by
  induction sl with
  | nil => exact List.Perm.refl _
  | cons o t ih =>
    simp only [List.flatMap_cons, slotsIds_cons]
    refine List.Perm.append ?_ ih
    cases o with
    | none => exact List.Perm.refl _
    | some s =>
      simp only [dtorIds, slotIds]
      exact List.perm_append_comm.trans (by simp)

/-- `Memory::Dispose` over a range releases exactly what those slots own. -/
theorem exec_disposeAll {evs : List Ev} {L L' L1 : List Nat} {n n1 : Nat} (sl : List (Option Slot))
    (hperm : L.Perm (slotsIds sl ++ L')) (h : Exec evs L' n L1 n1) :
    Exec (disposeAll sl ++ evs) L n L1 n1 := by
  rw [disposeAll_eq]
  exact Exec.step_frees _ (hperm.trans ((dtorIds_perm sl).symm.append_right _)) h

theorem exec_optFree {evs : List Ev} {L L' L1 : List Nat} {n n1 : Nat} (b : Option Blk)
    (hperm : L.Perm (optIds b ++ L')) (h : Exec evs L' n L1 n1) : Exec (optFree b ++ evs) L n L1 n1 := by
  rw [optFree_eq]
  exact Exec.step_frees _ hperm h

theorem findSlot_some : ∀ {sl : List (Option Slot)} {k : List Nat} {i : Nat} {s : Slot},
    findSlot sl k = some (i, s) → ∃ pre post, sl = pre ++ some s :: post ∧ pre.length = i
  | [], k, i, s, h => by simp [findSlot] at h
  | none :: t, k, i, s, h => by
    simp only [findSlot, Option.map_eq_some_iff] at h
    obtain ⟨⟨i', s'⟩, h', he⟩ := h
    simp only [Prod.mk.injEq] at he
    obtain ⟨rfl, rfl⟩ := he
    obtain ⟨pre, post, hsl, hlen⟩ := findSlot_some h'
    exact ⟨none :: pre, post, by rw [hsl]; rfl, by simp [hlen]⟩
  | some s0 :: t, k, i, s, h => by
    simp only [findSlot] at h
    split at h
    · simp only [Option.some.injEq, Prod.mk.injEq] at h
      obtain ⟨rfl, rfl⟩ := h
      exact ⟨[], t, rfl, rfl⟩
    · simp only [Option.map_eq_some_iff] at h
      obtain ⟨⟨i', s'⟩, h', he⟩ := h
      simp only [Prod.mk.injEq] at he
      obtain ⟨rfl, rfl⟩ := he
      obtain ⟨pre, post, hsl, hlen⟩ := findSlot_some h'
      exact ⟨some s0 :: pre, post, by rw [hsl]; rfl, by simp [hlen]⟩

theorem set_at_length {α : Type} (pre post : List α) (x y : α) : (pre ++ x :: post).set pre.length y = pre ++ y :: post := by
  simp

/-- Permutation goals between concatenations: compare element counts. -/
macro "perm_count" : tactic =>
  `(tactic| (rw [List.perm_iff_count]; intro a; simp [List.count_append, List.count_cons, owned, optIds, slotIds]; try omega))

end Qentem.HashLedger
