import Qentem.Model.JsonStringify
/-! `Value::Stringify` as coded (trailing-comma patch on the output stream) equals the
reference serializer for every tree. -/
namespace Qentem.Json

def itemsC (f : Fmt) (prec : Nat) : List JVal → List Nat
  | [] => []
  | v :: rest => if isUndefined v then itemsC f prec rest else specValue f prec v ++ [44] ++ itemsC f prec rest

def membersC (f : Fmt) (prec : Nat) : List (List Nat × JVal) → List Nat
  | [] => []
  | (k, v) :: rest => if isUndefined v then membersC f prec rest
      else [34] ++ escapeJson k ++ [34, 58] ++ specValue f prec v ++ [44] ++ membersC f prec rest

theorem closeWith_comma (out : List Nat) (b : Nat) : closeWith (out ++ [44]) b = out ++ [b] := by
  simp [closeWith]

theorem closeWith_other (out : List Nat) (c b : Nat) (h : c ≠ 44) : closeWith (out ++ [c]) b = out ++ [c, b] := by
  simp [closeWith]
  split
  · rename_i h2; simp at h2; omega
  · rfl

theorem itemsC_spec (f : Fmt) (prec : Nat) (xs : List JVal) :
    (itemsC f prec xs = [] ∧ specItems f prec xs true = [] ∧ ∀ b, specItems f prec xs b = []) ∨
    (itemsC f prec xs = specItems f prec xs true ++ [44] ∧ specItems f prec xs false = 44 :: specItems f prec xs true) := by
  induction xs with
  | nil => left; simp [itemsC, specItems]
  | cons v rest ih =>
    simp only [itemsC, specItems]
    split
    · exact ih
    · right
      rcases ih with ⟨h1, h2, h3⟩ | ⟨h1, h2⟩
      · simp [h1, h3]
      · simp [h1, h2]

theorem membersC_spec (f : Fmt) (prec : Nat) (ms : List (List Nat × JVal)) :
    (membersC f prec ms = [] ∧ ∀ b, specMembers f prec ms b = []) ∨
    (membersC f prec ms = specMembers f prec ms true ++ [44] ∧ specMembers f prec ms false = 44 :: specMembers f prec ms true) := by
  induction ms with
  | nil => left; simp [membersC, specMembers]
  | cons kv rest ih =>
    obtain ⟨k, v⟩ := kv
    simp only [membersC, specMembers]
    split
    · exact ih
    · right
      rcases ih with ⟨h1, h3⟩ | ⟨h1, h2⟩
      · simp [h1, h3]
      · simp [h1, h2]

theorem close_items (f : Fmt) (prec : Nat) (xs : List JVal) (out : List Nat) :
    closeWith (out ++ [91] ++ itemsC f prec xs) 93 = out ++ [91] ++ specItems f prec xs true ++ [93] := by
  rcases itemsC_spec f prec xs with ⟨h1, h2, _⟩ | ⟨h1, _⟩
  · rw [h1, h2]; simp [closeWith]
  · rw [h1, ← List.append_assoc, closeWith_comma]

theorem close_members (f : Fmt) (prec : Nat) (ms : List (List Nat × JVal)) (out : List Nat) :
    closeWith (out ++ [123] ++ membersC f prec ms) 125 = out ++ [123] ++ specMembers f prec ms true ++ [125] := by
  rcases membersC_spec f prec ms with ⟨h1, h2⟩ | ⟨h1, _⟩
  · rw [h1, h2 true]; simp [closeWith]
  · rw [h1, ← List.append_assoc, closeWith_comma]

mutual
theorem strValue_eq (f : Fmt) (prec : Nat) : ∀ (v : JVal) (out : List Nat), strValue f prec v out = out ++ specValue f prec v
  | .obj ms, out => by
    simp only [strValue, specValue]
    rw [strMembers_eq f prec ms, close_members]; simp
  | .arr xs, out => by
    simp only [strValue, specValue]
    rw [strItems_eq f prec xs, close_items]; simp
  | .str s, out => by simp [strValue, specValue]
  | .nat n, out => by simp [strValue, specValue]
  | .int n, out => by simp [strValue, specValue]
  | .real b, out => by simp [strValue, specValue]
  | .fals, out => by simp [strValue, specValue]
  | .tru, out => by simp [strValue, specValue]
  | .null, out => by simp [strValue, specValue]
  | .ptr t, out => by simp only [strValue, specValue]; exact strValue_eq f prec t out
  | .undef, out => by simp [strValue, specValue]
theorem strMembers_eq (f : Fmt) (prec : Nat) : ∀ (ms : List (List Nat × JVal)) (out : List Nat),
    strMembers f prec ms out = out ++ membersC f prec ms
  | [], out => by simp [strMembers, membersC]
  | (k, v) :: rest, out => by
    simp only [strMembers, membersC]
    split
    · exact strMembers_eq f prec rest out
    · rw [strMembers_eq f prec rest, strValue_eq f prec v]; simp
theorem strItems_eq (f : Fmt) (prec : Nat) : ∀ (xs : List JVal) (out : List Nat),
    strItems f prec xs out = out ++ itemsC f prec xs
  | [], out => by simp [strItems, itemsC]
  | v :: rest, out => by
    simp only [strItems, itemsC]
    split
    · exact strItems_eq f prec rest out
    · rw [strItems_eq f prec rest, strValue_eq f prec v]; simp
end

end Qentem.Json

namespace Qentem.Json

/-- A string body is well escaped: no unit below 0x20, no bare quote, every backslash starts one
of the RFC 8259 escapes (`\" \\ \/ \b \f \n \r \t` or `\u` + 4 hex digits). -/
def isHex (c : Nat) : Bool := (48 ≤ c && c ≤ 57) || (97 ≤ c && c ≤ 102) || (65 ≤ c && c ≤ 70)

def wellEscaped : List Nat → Bool
  | [] => true
  | 92 :: 117 :: a :: b :: c :: d :: rest => isHex a && isHex b && isHex c && isHex d && wellEscaped rest
  | 92 :: e :: rest => (e == 34 || e == 92 || e == 47 || e == 98 || e == 102 || e == 110 || e == 114 || e == 116) && wellEscaped rest
  | c :: rest => c != 34 && c != 92 && 32 ≤ c && wellEscaped rest

theorem escapeJson_ge32 (s : List Nat) : ∀ c ∈ escapeJson s, 32 ≤ c := by
  fun_induction escapeJson s <;> simp_all [hexDigitLower] <;> (try (constructor <;> (try split) <;> omega)) <;> (try omega)

theorem wellEscaped_plain (c : Nat) (rest : List Nat) (h1 : c ≠ 34) (h2 : c ≠ 92) (h3 : 32 ≤ c)
    (h : wellEscaped rest = true) : wellEscaped (c :: rest) = true := by
  unfold wellEscaped
  split <;> simp_all

theorem wellEscaped_short (e : Nat) (rest : List Nat)
    (he : e = 34 ∨ e = 92 ∨ e = 47 ∨ e = 98 ∨ e = 102 ∨ e = 110 ∨ e = 114 ∨ e = 116)
    (h : wellEscaped rest = true) : wellEscaped (92 :: e :: rest) = true := by
  rcases he with rfl | rfl | rfl | rfl | rfl | rfl | rfl | rfl <;> simp [wellEscaped, h]

theorem wellEscaped_ctl (c : Nat) (hc : c < 32) (rest : List Nat)
    (h : wellEscaped rest = true) : wellEscaped (92 :: 117 :: 48 :: 48 :: (48 + c / 16) :: hexDigitLower (c % 16) :: rest) = true := by
  have h1 : isHex (48 + c / 16) = true := by simp [isHex]; omega
  have h2 : isHex (hexDigitLower (c % 16)) = true := by
    simp only [isHex, hexDigitLower]; split <;> simp <;> omega
  have h0 : isHex 48 = true := by decide
  simp only [wellEscaped, h, h0, h1, h2, Bool.and_self]

theorem escapeJson_wellEscaped (s : List Nat) : wellEscaped (escapeJson s) = true := by
  fun_induction escapeJson s
  all_goals first
    | rfl
    | (apply wellEscaped_ctl <;> assumption)
    | (apply wellEscaped_short <;> first | assumption | omega | simp)
    | (apply wellEscaped_plain <;> first | assumption | omega)

end Qentem.Json
