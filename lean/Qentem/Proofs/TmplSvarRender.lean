import Qentem.Proofs.TmplIifRender
import Qentem.Proofs.TmplSvarParse
import Qentem.Proofs.EscapeSplit
/-!
# C02 — rendering `{svar:path, a1, …}`: the phrase loop against a structural `{i}` replacement,
the arguments, the whole tag
-/
set_option linter.unusedVariables false
set_option linter.unnecessarySimpa false
namespace Qentem.Tmpl
open Qentem.Expr (Fault rd ScanCfg VarRef Item Num Val Env RealLike)
open Qentem.Generated.Tmpl
open Qentem.Escape (escapeCfg)
variable {R : Type} [RealLike R]

/-- the number the phrase loop reads from the unit after `{` -/
def idOf (d : Nat) : Nat := (d + 2 ^ sizeTBits - W1.digitZero) % 2 ^ sizeTBits

/-- `{i}` replacement in a phrase (`outs` = the expansions of the arguments); the counter is
structural only -/
def expPhrase (ae : Bool) (outs : List (List Nat)) : Nat → List Nat → List Nat → List Nat
  | 0, _, pend => escapeCfg ae pend
  | _ + 1, [], pend => escapeCfg ae pend
  | n + 1, ch :: rest, pend =>
    if ch = 123 then
      match rest with
      | d :: e :: r =>
        if e = 125 ∧ idOf d < outs.length then escapeCfg ae pend ++ (outs.getD (idOf d) [] ++ expPhrase ae outs n r [])
        else expPhrase ae outs n rest (pend ++ [123])
      | _ => expPhrase ae outs n rest (pend ++ [123])
    else expPhrase ae outs n rest (pend ++ [ch])

theorem expPhrase_split (ae : Bool) (outs : List (List Nat)) : ∀ (n : Nat) (txt Q P : List Nat),
    expPhrase ae outs n txt (P ++ 123 :: Q) = escapeCfg ae P ++ expPhrase ae outs n txt (123 :: Q) := by
  intro n
  induction n with
  | zero => intro txt Q P; simp only [expPhrase]; exact Qentem.Escape.escapeCfg_append_brace ae P Q
  | succ n ih =>
    intro txt Q P
    cases txt with
    | nil => simp only [expPhrase]; exact Qentem.Escape.escapeCfg_append_brace ae P Q
    | cons ch rest =>
      simp only [expPhrase]
      by_cases hch : ch = 123
      · simp only [hch, if_true]
        have hrej : expPhrase ae outs n rest (P ++ 123 :: Q ++ [123]) =
            escapeCfg ae P ++ expPhrase ae outs n rest (123 :: Q ++ [123]) := by
          have := ih rest (Q ++ [123]) P
          simpa [List.append_assoc] using this
        cases rest with
        | nil => exact hrej
        | cons d r1 =>
          cases r1 with
          | nil => exact hrej
          | cons e r =>
            simp only []
            by_cases hc : e = 125 ∧ idOf d < outs.length
            · simp only [hc, and_self, if_true]
              rw [Qentem.Escape.escapeCfg_append_brace ae P Q, List.append_assoc]
            · simp only [hc, if_false]; exact hrej
      · simp only [hch, if_false]
        have := ih rest (Q ++ [ch]) P
        simpa [List.append_assoc] using this

/-- more counter than units changes nothing -/
theorem expPhrase_two (ae : Bool) (outs : List (List Nat)) : ∀ (n m : Nat) (txt pend : List Nat), txt.length + 1 ≤ n →
    txt.length + 1 ≤ m → expPhrase ae outs n txt pend = expPhrase ae outs m txt pend := by
  intro n
  induction n with
  | zero => intro m txt pend h; omega
  | succ n ih =>
    intro m txt pend h hm
    obtain ⟨m', rfl⟩ : ∃ m', m = m' + 1 := ⟨m - 1, by omega⟩
    cases txt with
    | nil => simp [expPhrase]
    | cons ch rest =>
      simp only [List.length_cons] at h hm
      have e1 : ∀ p, expPhrase ae outs n rest p = expPhrase ae outs m' rest p := fun p => ih m' rest p (by omega) (by omega)
      simp only [expPhrase]
      by_cases hch : ch = 123
      · simp only [hch, if_true]
        cases rest with
        | nil => exact e1 _
        | cons d r1 =>
          cases r1 with
          | nil => exact e1 _
          | cons e r =>
            simp only [List.length_cons] at h hm ⊢
            by_cases hc : e = 125 ∧ idOf d < outs.length
            · simp only [hc, and_self, if_true]
              rw [ih m' r [] (by omega) (by omega)]
            · simp only [hc, if_false]; exact e1 _
      · simp only [hch, if_false]; exact e1 _

theorem expPhrase_stable (ae : Bool) (outs : List (List Nat)) (n : Nat) (txt pend : List Nat) (h : txt.length + 1 ≤ n) :
    expPhrase ae outs n txt pend = expPhrase ae outs (txt.length + 1) txt pend :=
  expPhrase_two ae outs n _ txt pend h (Nat.le_refl _)

/-- the expansion of a phrase -/
def expPhr (ae : Bool) (outs : List (List Nat)) (txt : List Nat) : List Nat :=
  expPhrase ae outs (txt.length + 1) txt []

/-- what the phrase loop does with argument `t` -/
def renderArg (cx : RCtx R) (t : Option (Tag R)) (st : RState) : Except Fault RState :=
  match t with
  | some (.var v) => do
    let o ← subChk v.off W1.variablePrefixLength
    let (st, _) ← renderVariable cx st v o
    pure st
  | some (.raw v) => do
    let o ← subChk v.off W1.rawVariablePrefixLength
    let (st, _) ← renderRawVariable cx st v o
    pure st
  | some (.math ex off endOff) => do
    let (st, _) ← renderMath cx st ex off endOff off
    pure st
  | _ => pure st

theorem svarLoop_hit (cx : RCtx R) (fuel : Nat) (sub : List (Tag R)) (txt : List Nat) (index lastIdx : Nat) (st : RState)
    (h0 : index < txt.length) (h1 : txt[index]? = some 123) (h2 : index + 2 < txt.length)
    (h3 : txt[index + 2]? = some 125) (hid : idOf (txt.getD (index + 1) 0) < sub.length) :
    svarLoop cx (fuel + 1) sub txt index lastIdx st =
      (renderArg cx sub[idOf (txt.getD (index + 1) 0)]?
        (emit st (escapeCfg cx.autoEscape ((txt.drop lastIdx).take (index - lastIdx))))).bind
        (fun st2 => svarLoop cx fuel sub txt (index + 3) (index + 3) st2) := by
  have hA : W1.inLineFirstChar = 123 := by decide
  have hB : W1.inLineLastChar = 125 := by decide
  have h3' : txt[index + 1 + 1]? = some 125 := h3
  have hid' : (txt.getD (index + 1) 0 + 2 ^ sizeTBits - W1.digitZero) % 2 ^ sizeTBits < sub.length := hid
  simp only [svarLoop, h0, if_true, h1, hA, hB, beq_self_eq_true, show index + 1 < txt.length by omega,
    show index + 1 + 1 < txt.length by omega, decide_true, h3', Bool.and_self, hid']
  simp only [idOf, renderArg]
  cases hs : sub[(txt.getD (index + 1) 0 + 2 ^ sizeTBits - W1.digitZero) % 2 ^ sizeTBits]? with
  | none => rfl
  | some t =>
    cases t <;> simp only [bind, Except.bind, pure, Except.pure] <;> first | rfl | (split <;> first | rfl | (split <;> rfl))


theorem svarLoop_rej (cx : RCtx R) (fuel : Nat) (sub : List (Tag R)) (txt : List Nat) (index lastIdx : Nat) (st : RState)
    (h0 : index < txt.length) (h1 : txt[index]? = some 123)
    (hno : ¬ (index + 2 < txt.length ∧ txt[index + 2]? = some 125 ∧ idOf (txt.getD (index + 1) 0) < sub.length)) :
    svarLoop cx (fuel + 1) sub txt index lastIdx st =
      svarLoop cx fuel sub txt (index + 1) index
        (emit st (escapeCfg cx.autoEscape ((txt.drop lastIdx).take (index - lastIdx)))) := by
  have hA : W1.inLineFirstChar = 123 := by decide
  have hB : W1.inLineLastChar = 125 := by decide
  simp only [svarLoop, h0, if_true, h1, hA, hB, beq_self_eq_true]
  by_cases h2 : index + 1 < txt.length
  · simp only [h2, if_true]
    by_cases h3 : index + 1 + 1 < txt.length ∧ txt[index + 1 + 1]? = some 125
    · have h3b : (decide (index + 1 + 1 < txt.length) && (txt[index + 1 + 1]? == some 125)) = true := by
        rw [h3.2]; simp only [h3.1, decide_true, beq_self_eq_true, Bool.and_self]
      simp only [h3b, if_true]
      have hid : ¬ (txt.getD (index + 1) 0 + 2 ^ sizeTBits - W1.digitZero) % 2 ^ sizeTBits < sub.length := by
        intro h; exact hno ⟨h3.1, h3.2, h⟩
      simp only [hid, if_false]
    · have h3b : (decide (index + 1 + 1 < txt.length) && (txt[index + 1 + 1]? == some 125)) = false := by
        by_cases ha : index + 1 + 1 < txt.length
        · have : txt[index + 1 + 1]? ≠ some 125 := fun h => h3 ⟨ha, h⟩
          have hb : (txt[index + 1 + 1]? == some 125) = false := by
            cases hx : txt[index + 1 + 1]? with
            | none => rfl
            | some y =>
              have : y ≠ 125 := fun h => this (by rw [hx, h])
              simp [this]
          rw [hb]; simp
        · simp [ha]
      simp only [h3b, Bool.false_eq_true, if_false]
  · simp only [h2, if_false]

theorem svarLoop_other (cx : RCtx R) (fuel : Nat) (sub : List (Tag R)) (txt : List Nat) (index lastIdx : Nat) (st : RState)
    (h0 : index < txt.length) (h1 : txt[index]? ≠ some 123) :
    svarLoop cx (fuel + 1) sub txt index lastIdx st = svarLoop cx fuel sub txt (index + 1) lastIdx st := by
  have hA : W1.inLineFirstChar = 123 := by decide
  have : (txt[index]? == some 123) = false := by simpa using h1
  simp only [svarLoop, h0, if_true, hA, this, Bool.false_eq_true, if_false]

theorem svarLoop_end (cx : RCtx R) (fuel : Nat) (sub : List (Tag R)) (txt : List Nat) (index lastIdx : Nat) (st : RState)
    (h0 : ¬ index < txt.length) :
    svarLoop cx (fuel + 1) sub txt index lastIdx st =
      .ok (emit st (escapeCfg cx.autoEscape ((txt.drop lastIdx).take (index - lastIdx)))) := by
  simp only [svarLoop, h0, if_false]

theorem take_succ_drop (txt : List Nat) (a i : Nat) (ha : a ≤ i) (hi : i < txt.length) :
    (txt.drop a).take (i + 1 - a) = (txt.drop a).take (i - a) ++ [txt[i]] := by
  have h1 : i + 1 - a = (i - a) + 1 := by omega
  have hl : i - a < (txt.drop a).length := by simp; omega
  rw [h1, List.take_succ_eq_append_getElem hl]
  simp [show a + (i - a) = i by omega]

/-- **the phrase loop**: it writes the documented expansion of the phrase -/
theorem svarLoop_phrase (cx : RCtx R) (sub : List (Tag R)) (outs : List (List Nat)) (Inv : RState → Prop)
    (hInv : ∀ st t, Inv st → Inv (emit st t)) (hlen : sub.length = outs.length)
    (harg : ∀ id, id < sub.length → ∀ st, Inv st → renderArg cx sub[id]? st = .ok (emit st (outs.getD id [])))
    (txt : List Nat) : ∀ (n index lastIdx : Nat) (st : RState), lastIdx ≤ index → index ≤ txt.length →
      txt.length - index + 1 ≤ n → Inv st →
      svarLoop cx n sub txt index lastIdx st =
        .ok (emit st (expPhrase cx.autoEscape outs n (txt.drop index) ((txt.drop lastIdx).take (index - lastIdx)))) := by
  intro n
  induction n with
  | zero => intro index lastIdx st _ _ h _; omega
  | succ n ih =>
    intro index lastIdx st hli hil hn hI
    by_cases h0 : index < txt.length
    · have hdrop : txt.drop index = txt[index] :: txt.drop (index + 1) := List.drop_eq_getElem_cons h0
      have hget : txt[index]? = some txt[index] := List.getElem?_eq_getElem h0
      rw [hdrop]
      simp only [expPhrase]
      by_cases hch : txt[index] = 123
      · simp only [hch, if_true]
        have h1 : txt[index]? = some 123 := by rw [hget, hch]
        have hI1 := hInv st (escapeCfg cx.autoEscape ((txt.drop lastIdx).take (index - lastIdx))) hI
        have hpend1 : (txt.drop index).take (index + 1 - index) = [123] := by
          rw [hdrop, show index + 1 - index = 1 by omega, hch]; rfl
        -- what a rejected `{` gives
        have hrej : ¬ (index + 2 < txt.length ∧ txt[index + 2]? = some 125 ∧ idOf (txt.getD (index + 1) 0) < sub.length) →
            svarLoop cx (n + 1) sub txt index lastIdx st =
              .ok (emit st (expPhrase cx.autoEscape outs n (txt.drop (index + 1))
                ((txt.drop lastIdx).take (index - lastIdx) ++ [123]))) := by
          intro hno
          rw [svarLoop_rej cx n sub txt index lastIdx st h0 h1 hno,
            ih (index + 1) index _ (by omega) (by omega) (by omega) hI1, hpend1, emit_emit]
          have := expPhrase_split cx.autoEscape outs n (txt.drop (index + 1)) [] ((txt.drop lastIdx).take (index - lastIdx))
          rw [this]
        cases hr : txt.drop (index + 1) with
        | nil =>
          have hl : (txt.drop (index + 1)).length = 0 := by rw [hr]; rfl
          simp only [List.length_drop] at hl
          have := hrej (by omega)
          rw [hr] at this; exact this
        | cons d r1 =>
          cases r1 with
          | nil =>
            have hl : (txt.drop (index + 1)).length = 1 := by rw [hr]; rfl
            simp only [List.length_drop] at hl
            have := hrej (by omega)
            rw [hr] at this; exact this
          | cons e r =>
            have hl : (txt.drop (index + 1)).length = r.length + 2 := by rw [hr]; rfl
            simp only [List.length_drop] at hl
            have hd : txt[index + 1]? = some d := by
              have : (txt.drop (index + 1))[0]? = some d := by rw [hr]; rfl
              simpa using this
            have he : txt[index + 2]? = some e := by
              have : (txt.drop (index + 1))[1]? = some e := by rw [hr]; rfl
              simpa [Nat.add_assoc] using this
            have hgd : txt.getD (index + 1) 0 = d := by simp [List.getD, hd]
            have hr3 : txt.drop (index + 3) = r := by
              have : (txt.drop (index + 1)).drop 2 = r := by rw [hr]; rfl
              simpa [Nat.add_assoc] using this
            simp only []
            by_cases hc : e = 125 ∧ idOf d < outs.length
            · simp only [hc, and_self, if_true]
              have hid : idOf (txt.getD (index + 1) 0) < sub.length := by rw [hgd, hlen]; exact hc.2
              rw [svarLoop_hit cx n sub txt index lastIdx st h0 h1 (by omega) (by rw [he, hc.1]) hid,
                harg _ hid _ hI1]
              simp only [Except.bind]
              rw [ih (index + 3) (index + 3) _ (Nat.le_refl _) (by omega) (by omega) (hInv _ _ hI1), hr3, hgd,
                Nat.sub_self, List.take_zero, emit_emit, emit_emit]
            · simp only [hc, if_false]
              have := hrej (by
                rintro ⟨_, h5, h6⟩
                rw [he] at h5
                rw [hgd, hlen] at h6
                exact hc ⟨Option.some.inj h5, h6⟩)
              rw [hr] at this; exact this
      · simp only [hch, if_false]
        have h1 : txt[index]? ≠ some 123 := by rw [hget]; intro h; exact hch (Option.some.inj h)
        rw [svarLoop_other cx n sub txt index lastIdx st h0 h1,
          ih (index + 1) lastIdx st (by omega) (by omega) (by omega) hI, take_succ_drop txt lastIdx index hli h0]
    · have he : txt.drop index = [] := List.drop_eq_nil_iff.mpr (by omega)
      rw [svarLoop_end cx n sub txt index lastIdx st h0, he]
      simp only [expPhrase]


/-- rendering argument `id` of a printed argument list writes its expansion -/
theorem renderArg_args (cx : RCtx R) (cfg : ScanCfg R) (hg : cx.guardIndexRead = true) (hrn : cfg.readNum = cx.readNum)
    (E : List EnvE) (hD : ChainD cx.content (dOf E)) (post : List Nat) :
    ∀ (args : List Seg) (A : List Nat), cx.content = A ++ (printSegs (argSegs args) ++ post) →
      (∀ a ∈ args, a.isArg ∧ a.pathV cfg.readNum (vsOf E)) →
      ∀ id, id < args.length → ∀ st : RState, ItemsOk st.items E →
        renderArg cx (tagsOfD cfg cx.content (dOf E) A.length (argSegs args))[id]? st =
          .ok (emit st ((args.map (expSegB cx (scOf E))).getD id [])) := by
  intro args
  induction args with
  | nil => intro A _ _ id h; simp at h
  | cons a r ih =>
    intro A hc hok id hid st hit
    have hcA : cx.content = (A ++ [44, 32]) ++ ([] ++ (printSeg a ++ (printSegs (argSegs r) ++ post))) := by
      rw [hc]; simp [argSegs, printSegs, printSeg, List.append_assoc]
    have hlA : (A ++ [44, 32]).length = A.length + 2 := by simp
    have hlA' : (A ++ [44, 32] ++ []).length = A.length + 2 := by simp
    have ha := hok a (List.mem_cons_self ..)
    have hrest : ∀ t : Tag R, ∀ q, cx.content = (A ++ [44, 32] ++ printSeg a) ++ (printSegs (argSegs r) ++ post) →
        q = (A ++ [44, 32] ++ printSeg a).length →
        id ≠ 0 → renderArg cx (t :: tagsOfD cfg cx.content (dOf E) q (argSegs r))[id]? st =
          .ok (emit st (((a :: r).map (expSegB cx (scOf E))).getD id [])) := by
      intro t q hc2 hq hne
      obtain ⟨j, rfl⟩ : ∃ j, id = j + 1 := ⟨id - 1, by omega⟩
      subst hq
      simp only [List.getElem?_cons_succ, List.map_cons, List.getD_cons_succ]
      exact ih _ hc2 (fun x hx => hok x (List.mem_cons_of_mem _ hx)) j (by simpa using hid) st hit
    have hc2 : cx.content = (A ++ [44, 32] ++ printSeg a) ++ (printSegs (argSegs r) ++ post) := by
      rw [hc]; simp [argSegs, printSegs, printSeg, List.append_assoc]
    cases a with
    | text t => exact absurd ha.1 (by simp [Seg.isArg])
    | var pa =>
      simp only [argSegs, tagsOfD, List.length_cons, List.length_nil]
      by_cases h0 : id = 0
      · subst h0
        have := renderVariable_env cx hg st (A ++ [44, 32]) [] pa (printSegs (argSegs r) ++ post)
          (by rw [hcA]; simp [printSeg, List.append_assoc]) E ha.2 hit
        rw [hlA', hlA] at this
        have hoff : (refD (dOf E) (A.length + 2 + 5) pa).off = A.length + 2 + 5 := by
          simp only [refD, mkV]; split <;> rfl
        simp only [List.getElem?_cons_zero, renderArg, hoff, subChk, show W1.variablePrefixLength = 5 by decide,
          show 5 ≤ A.length + 2 + 5 by omega, if_true, Nat.add_sub_cancel, bind, Except.bind, this, emit_nil]
        rfl
      · exact hrest _ _ hc2 (by simp [printSeg]; omega) h0
    | raw pa =>
      simp only [argSegs, tagsOfD, List.length_cons, List.length_nil]
      by_cases h0 : id = 0
      · subst h0
        have := renderRaw_env cx hg st (A ++ [44, 32]) [] pa (printSegs (argSegs r) ++ post)
          (by rw [hcA]; simp [printSeg, List.append_assoc]) E ha.2 hit
        rw [hlA', hlA] at this
        have hoff : (refD (dOf E) (A.length + 2 + 5) pa).off = A.length + 2 + 5 := by
          simp only [refD, mkV]; split <;> rfl
        simp only [List.getElem?_cons_zero, renderArg, hoff, subChk, show W1.rawVariablePrefixLength = 5 by decide,
          show 5 ≤ A.length + 2 + 5 by omega, if_true, Nat.add_sub_cancel, bind, Except.bind, this, emit_nil]
        rfl
      · exact hrest _ _ hc2 (by simp [printSeg]; omega) h0
    | math e =>
      simp only [argSegs, tagsOfD, List.length_cons, List.length_nil]
      by_cases h0 : id = 0
      · subst h0
        have := renderMath_env cx cfg hg hrn st (A ++ [44, 32]) [] e (printSegs (argSegs r) ++ post)
          (by rw [hcA]; simp [printSeg, List.append_assoc]) E hD hit ha.2.2 ha.2.1
        rw [hlA', hlA] at this
        simp only [List.getElem?_cons_zero, renderArg, bind, Except.bind, this, emit_nil]
        rfl
      · exact hrest _ _ hc2 (by simp [printSeg]; omega) h0


/-- the phrase of a super variable: a string, or the text of `true` / `false` / `null` -/
def phraseOf (d : Option Doc) : Option (List Nat) :=
  d.bind (fun d => match d with
    | .str s => some s | .tru => some Qentem.Expr.trueStr | .fals => some Qentem.Expr.falseStr
    | .null => some Qentem.Expr.nullStr | _ => none)

/-- the documented expansion of a super variable -/
def expSvar (cx : RCtx R) (sc : List Binding) (path : List Nat) (args : List Seg) : List Nat :=
  match phraseOf (resolve cx.root sc path).1 with
  | some s => expPhr cx.autoEscape (args.map (expSegB cx sc)) s
  | none => printSvar path args

/-- fuel the renderer needs for a super variable -/
def svarNeed (cx : RCtx R) (sc : List Binding) (path : List Nat) : Nat :=
  match phraseOf (resolve cx.root sc path).1 with
  | some s => s.length + 2
  | none => 1

theorem tagsOfD_argSegs_len (cfg : ScanCfg R) (c : List Nat) (D : List LoopD) : ∀ (args : List Seg) (p : Nat),
    (∀ a ∈ args, a.isArg) → (tagsOfD cfg c D p (argSegs args)).length = args.length := by
  intro args
  induction args with
  | nil => intro p _; rfl
  | cons a r ih =>
    intro p h
    have ha := h a (List.mem_cons_self ..)
    have hr := fun q => ih q (fun x hx => h x (List.mem_cons_of_mem _ hx))
    cases a with
    | text t => exact absurd ha (by simp [Seg.isArg])
    | var pa => simp [argSegs, tagsOfD, hr]
    | raw pa => simp [argSegs, tagsOfD, hr]
    | math e => simp [argSegs, tagsOfD, hr]

/-- **rendering a printed super variable** -/
theorem renderSvar_env (cx : RCtx R) (cfg : ScanCfg R) (hg : cx.guardIndexRead = true) (hrn : cfg.readNum = cx.readNum)
    (E : List EnvE) (hD : ChainD cx.content (dOf E)) (B txt path post : List Nat) (args : List Seg)
    (hc : cx.content = B ++ (txt ++ (printSvar path args ++ post)))
    (hp : PathOkV (vsOf E) path) (hfind : findV (dOf E) path = none)
    (hargs : ∀ a ∈ args, a.isArg ∧ a.pathV cfg.readNum (vsOf E))
    (st : RState) (hit : ItemsOk st.items E) (fuel : Nat) (hf : svarNeed cx (scOf E) path + 1 ≤ fuel) :
    renderTag cx fuel (svarTag cfg cx.content (dOf E) (B ++ txt).length path args) B.length st =
      .ok (emit (emit st txt) (expSvar cx (scOf E) path args), (B ++ txt).length + (printSvar path args).length) := by
  obtain ⟨g, rfl⟩ : ∃ g, fuel = g + 1 := ⟨fuel - 1, by omega⟩
  have hsl : slice cx.content B.length (B ++ txt).length = .ok txt := by rw [hc]; exact slice_from B txt _
  have hcA : cx.content = (B ++ txt ++ SVAR1) ++ (path ++ (printSegs (argSegs args) ++ [125] ++ post)) := by
    rw [hc]; simp [printSvar, List.append_assoc]
  have hlA : (B ++ txt ++ SVAR1).length = (B ++ txt).length + 6 := by simp [SVAR1]; omega
  have hgv := (getValue_env cx hg st (B ++ txt ++ SVAR1) _ path hcA E hp hit).1
  have href : refD (dOf E) (B ++ txt ++ SVAR1).length path = ⟨(B ++ txt).length + 6, path.length, 0, 0⟩ := by
    simp only [refD, hfind, mkV, hlA]
  rw [href] at hgv
  have hite : ItemsOk (emit st txt).items E := by simpa [emit] using hit
  have hcS : cx.content = (B ++ txt ++ SVAR1 ++ path) ++ (printSegs (argSegs args) ++ ([125] ++ post)) := by
    rw [hc]; simp [printSvar, List.append_assoc]
  have hlS : (B ++ txt ++ SVAR1 ++ path).length = (B ++ txt).length + 6 + path.length := by simp [SVAR1]; omega
  simp only [svarTag, renderTag, hgv, hsl, bind, Except.bind]
  generalize hgen : Option.bind (resolve cx.root (scOf E) path).1 _ = o
  have ho : phraseOf (resolve cx.root (scOf E) path).1 = o := by rw [← hgen]; rfl
  cases o with
  | some s =>
    have hq := ho
    simp only [svarNeed, hq] at hf
    have hloop := svarLoop_phrase cx (tagsOfD cfg cx.content (dOf E) ((B ++ txt).length + 6 + path.length) (argSegs args))
      (args.map (expSegB cx (scOf E))) (fun s => ItemsOk s.items E) (fun s t h => by simpa [emit] using h)
      (by rw [tagsOfD_argSegs_len cfg _ _ args _ (fun a ha => (hargs a ha).1)]; simp)
      (by
        intro id hid st' hst'
        have := renderArg_args cx cfg hg hrn E hD ([125] ++ post) args (B ++ txt ++ SVAR1 ++ path) hcS hargs id
          (by rw [tagsOfD_argSegs_len cfg _ _ args _ (fun a ha => (hargs a ha).1)] at hid; exact hid) st' hst'
        rw [hlS] at this; exact this)
      s g 0 0 (emit st txt) (Nat.le_refl _) (Nat.zero_le _) (by omega) hite
    simp only []
    rw [hloop]
    simp only [List.drop_zero, Nat.sub_self, List.take_zero]
    rw [expPhrase_stable _ _ g s [] (by omega)]
    simp only [expSvar, hq, expPhr]
  | none =>
    have hq := ho
    have hsl2 : slice cx.content (B ++ txt).length ((B ++ txt).length + (printSvar path args).length) =
        .ok (printSvar path args) := by
      have := slice_mid (B ++ txt) (printSvar path args) post
      rw [hc]; simpa [List.append_assoc] using this
    simp only [hsl2, expSvar, hq]

/-! ### the reference interpreter on a super variable -/

theorem expandTpl_segB (cx : RCtx R) (sc : List Binding) (s : Seg) (f : Nat) (hf : 1 ≤ f) :
    expandTpl (specOf cx) f sc s.toTpl = expSegB cx sc s := by
  have := expandList_body cx sc [s] (f + 1) (by simp; omega)
  obtain ⟨g, rfl⟩ : ∃ g, f = g + 1 := ⟨f - 1, by omega⟩
  simpa [segsTpl, expandList, expSegsB] using this

theorem idOf_test (d n : Nat) (hd : d < 2 ^ 32) (hn : n ≤ 10) :
    (48 ≤ d ∧ d ≤ 57 ∧ d - 48 < n) ↔ idOf d < n := by
  have h1 : (2 : Nat) ^ sizeTBits = 4294967296 := by decide
  have h2 : W1.digitZero = 48 := by decide
  simp only [idOf, h1, h2]
  have h3 : (2 : Nat) ^ 32 = 4294967296 := by decide
  rw [h3] at hd
  constructor
  · rintro ⟨a, b, c⟩
    rw [show d + 4294967296 - 48 = (d - 48) + 4294967296 by omega, Nat.add_mod_right, Nat.mod_eq_of_lt (by omega)]
    exact c
  · intro h
    by_cases hlt : d < 48
    · rw [Nat.mod_eq_of_lt (by omega)] at h; omega
    · rw [show d + 4294967296 - 48 = (d - 48) + 4294967296 by omega, Nat.add_mod_right, Nat.mod_eq_of_lt (by omega)] at h
      omega

theorem idOf_val (d : Nat) (hd : d < 2 ^ 32) (h48 : 48 ≤ d) : idOf d = d - 48 := by
  have h1 : (2 : Nat) ^ sizeTBits = 4294967296 := by decide
  have h2 : W1.digitZero = 48 := by decide
  have h3 : (2 : Nat) ^ 32 = 4294967296 := by decide
  rw [h3] at hd
  simp only [idOf, h1, h2]
  rw [show d + 4294967296 - 48 = (d - 48) + 4294967296 by omega, Nat.add_mod_right, Nat.mod_eq_of_lt (by omega)]

/-- the reference phrase loop is the structural one -/
theorem phraseLoop_eq (cx : RCtx R) (sc : List Binding) (args : List Seg) (h10 : args.length ≤ 10) :
    ∀ (n fuel : Nat) (txt pend : List Nat), n + 1 ≤ fuel → (∀ x ∈ txt, x < 2 ^ 32) →
      phraseLoop (specOf cx) fuel sc (segsTpl args) txt pend n =
        expPhrase cx.autoEscape (args.map (expSegB cx sc)) n txt pend := by
  intro n
  induction n with
  | zero =>
    intro fuel txt pend hf _
    obtain ⟨f, rfl⟩ : ∃ f, fuel = f + 1 := ⟨fuel - 1, by omega⟩
    simp [phraseLoop, expPhrase, escapeS]; rfl
  | succ n ih =>
    intro fuel txt pend hf hu
    obtain ⟨f, rfl⟩ : ∃ f, fuel = f + 1 := ⟨fuel - 1, by omega⟩
    cases txt with
    | nil => simp [phraseLoop, expPhrase, escapeS]; rfl
    | cons ch rest =>
      have hur : ∀ x ∈ rest, x < 2 ^ 32 := fun x hx => hu x (List.mem_cons_of_mem _ hx)
      have hother : ∀ p, phraseLoop (specOf cx) f sc (segsTpl args) rest p n =
          expPhrase cx.autoEscape (args.map (expSegB cx sc)) n rest p := fun p => ih f rest p (by omega) hur
      simp only [expPhrase]
      by_cases hch : ch = 123
      · subst hch
        simp only [if_true]
        cases rest with
        | nil => simp only [phraseLoop]; exact hother _
        | cons d r1 =>
          cases r1 with
          | nil => simp only [phraseLoop]; exact hother _
          | cons e r =>
            by_cases he : e = 125
            · subst he
              have hd : d < 2 ^ 32 := hur d (List.mem_cons_self ..)
              have hlen : (segsTpl args).length = args.length := by
                clear h10 ih hf hu hur hother hd
                induction args with
                | nil => rfl
                | cons a r ih => simp [segsTpl, ih]
              simp only [phraseLoop, true_and, hlen, List.length_map]
              by_cases ht : 48 ≤ d ∧ d ≤ 57 ∧ d - 48 < args.length
              · have hid := (idOf_test d args.length hd h10).mp ht
                simp only [ht, and_self, if_true, hid]
                rw [ih f r [] (by omega) (fun x hx => hur x (List.mem_cons_of_mem _ (List.mem_cons_of_mem _ hx))),
                  idOf_val d hd ht.1, List.append_assoc]
                congr 2
                have hget : ∀ (l : List Seg) (i : Nat), i < l.length →
                    (match (segsTpl l)[i]? with | some a => expandTpl (specOf cx) f sc a | none => []) =
                      (l.map (expSegB cx sc)).getD i [] := by
                  intro l
                  induction l with
                  | nil => intro i hi; simp at hi
                  | cons a r ihl =>
                    intro i hi
                    cases i with
                    | zero => simp [segsTpl, expandTpl_segB cx sc a f (by omega)]
                    | succ j => simpa [segsTpl] using ihl j (by simpa using hi)
                exact hget args (d - 48) ht.2.2
              · have hid : ¬ idOf d < args.length := fun h => ht ((idOf_test d args.length hd h10).mpr h)
                simp only [ht, if_false, hid, and_false]
                exact hother _
            · have : phraseLoop (specOf cx) (f + 1) sc (segsTpl args) (123 :: d :: e :: r) pend (n + 1) =
                  phraseLoop (specOf cx) f sc (segsTpl args) (d :: e :: r) (pend ++ [123]) n := by
                rw [phraseLoop]
                intro d' rest' _ h
                simp only [List.cons.injEq] at h
                exact he h.2.1
              rw [this]
              simp only [he, false_and, if_false]
              exact hother _
      · simp only [hch, if_false]
        have : phraseLoop (specOf cx) (f + 1) sc (segsTpl args) (ch :: rest) pend (n + 1) =
            phraseLoop (specOf cx) f sc (segsTpl args) rest (pend ++ [ch]) n := by
          rw [phraseLoop]
          intro d' rest' h _
          exact hch h
        rw [this]
        exact hother _


theorem expPhrase_plain (ae : Bool) (outs : List (List Nat)) : ∀ (n : Nat) (txt pend : List Nat), (∀ x ∈ txt, x ≠ 123) →
    txt.length + 1 ≤ n → expPhrase ae outs n txt pend = escapeCfg ae (pend ++ txt) := by
  intro n
  induction n with
  | zero => intro txt pend _ h; omega
  | succ n ih =>
    intro txt pend hno h
    cases txt with
    | nil => simp [expPhrase]
    | cons ch rest =>
      have hch : ch ≠ 123 := hno ch (List.mem_cons_self ..)
      simp only [expPhrase, hch, if_false]
      rw [ih rest _ (fun x hx => hno x (List.mem_cons_of_mem _ hx)) (by simp at h; omega)]
      simp [List.append_assoc]

/-- the reference interpreter on a super variable -/
theorem expandTpl_svar (cx : RCtx R) (sc : List Binding) (path : List Nat) (args : List Seg) (h10 : args.length ≤ 10)
    (hu : ∀ s, (resolve cx.root sc path).1 = some (.str s) → ∀ x ∈ s, x < 2 ^ 32)
    (fuel : Nat) (hf : svarNeed cx sc path + 1 ≤ fuel) :
    expandTpl (specOf cx) fuel sc (.svar path (segsTpl args)) = expSvar cx sc path args := by
  obtain ⟨f, rfl⟩ : ∃ f, fuel = f + 1 := ⟨fuel - 1, by simp [svarNeed] at hf; omega⟩
  have hpr : printTpl (.svar path (segsTpl args)) = printSvar path args := by
    simp only [printTpl, printArgs_segs, printSvar, SVAR1]
    simp [str, List.append_assoc]
  simp only [expandTpl, show (specOf cx).root = cx.root from rfl, expSvar, svarNeed] at hf ⊢
  cases hres : (resolve cx.root sc path).1 with
  | none => simp only [phraseOf, Option.bind]; exact hpr
  | some d =>
    rw [hres] at hf
    cases d with
    | str s =>
      simp only [phraseOf, Option.bind] at hf ⊢
      rw [phraseLoop_eq cx sc args h10 (s.length + 1) f s [] (by omega) (hu s hres)]
      rfl
    | tru =>
      simp only [phraseOf, Option.bind, expPhr]
      rw [expPhrase_plain _ _ _ _ _ (by decide) (Nat.le_refl _)]
      rfl
    | fals =>
      simp only [phraseOf, Option.bind, expPhr]
      rw [expPhrase_plain _ _ _ _ _ (by decide) (Nat.le_refl _)]
      rfl
    | null =>
      simp only [phraseOf, Option.bind, expPhr]
      rw [expPhrase_plain _ _ _ _ _ (by decide) (Nat.le_refl _)]
      rfl
    | undefined => simp only [phraseOf, Option.bind]; exact hpr
    | nat n => simp only [phraseOf, Option.bind]; exact hpr
    | int b => simp only [phraseOf, Option.bind]; exact hpr
    | real b => simp only [phraseOf, Option.bind]; exact hpr
    | arr xs => simp only [phraseOf, Option.bind]; exact hpr
    | obj ms => simp only [phraseOf, Option.bind]; exact hpr

/-- the values a template can reach in a document -/
inductive Reach (root : Doc) : Doc → Prop
  | root : Reach root root
  | key (d d' : Doc) (k : List Nat) : Reach root d → d.getKey k = some d' → Reach root d'
  | item (xs : List Doc) (x : Doc) : Reach root (.arr xs) → x ∈ xs → Reach root x
  | mem (ms : List (List Nat × Doc)) (k : List Nat) (x : Doc) : Reach root (.obj ms) → (k, x) ∈ ms → Reach root x

theorem follow_reach (root : Doc) : ∀ (keys : List (List Nat)) (d0 : Option Doc) (d : Doc),
    (∀ d1, d0 = some d1 → Reach root d1) → follow d0 keys = some d → Reach root d := by
  intro keys
  induction keys with
  | nil => intro d0 d h hf; cases d0 <;> simp [follow] at hf; exact h _ (by rw [hf])
  | cons k ks ih =>
    intro d0 d h hf
    cases d0 with
    | none => simp [follow] at hf
    | some d1 =>
      simp only [follow] at hf
      exact ih (d1.getKey k) d (fun d2 h2 => Reach.key d1 d2 k (h d1 rfl) h2) hf

theorem resolve_reach (root : Doc) (sc : List Binding) (hsc : ∀ b ∈ sc, Reach root b.item) (p : List Nat) (d : Doc)
    (h : (resolve root sc p).1 = some d) : Reach root d := by
  simp only [resolve] at h
  cases hf : sc.find? (fun b => b.name == (splitPath p).1) with
  | some b =>
    rw [hf] at h
    exact follow_reach root _ _ d (fun d1 h1 => by cases h1; exact hsc b (List.mem_of_find?_eq_some hf)) h
  | none =>
    rw [hf] at h
    exact follow_reach root _ _ d (fun d1 h1 => Reach.key root d1 _ Reach.root h1) h

end Qentem.Tmpl
