import Qentem.Proofs.NumToStrIdent
/-! C11, **interface for the parser half** (used by the StrToNum area).  Everything here is about the reference
(`FmtSpec`) and plain ℚ; no part of the formatter's code occurs.

* `expField`, `sigField`, `ulpExp`, `magQ`, `ulpQ`: biased exponent field (1 for subnormals), integer significand,
  exponent of the last place, magnitude and ulp of a bit pattern, as rationals.
* `text_value_close`: the `%.{p}g` reference text of a finite non-zero pattern reads as `(neg, m, d)` with
  `|m/d − magQ| < (2^mb / 10^(P-1)) · ulp` (half of that at the bottom of a binade).
* `tie_free_zone`: every rational `y` within `ε·ulp` of the text's value (`2^mb/10^(P-1) + 2ε < 1/2`) lies strictly
  between the two rounding midpoints around `magQ` (and above the quarter-ulp midpoint below a power of two): any
  rounding that is correct away from ties — nearest-even, half-up, … — returns the pattern.
* `nearestBits_eq_closed`: `nearestBits` characterised by the two-sided (closed) interval with ties to even;
  `nearestBits_robust`: `FmtSpec.nearestBits` on any such `y` returns the bits.
* instances `margin17`, `margin9` (ε = 1/64), zeros: `zero_text17`, `zero_text9`. -/
set_option linter.unusedSimpArgs false
set_option linter.unusedVariables false
namespace Qentem.Proofs.Ident
open Qentem Qentem.Proofs.NumToStr

/-- biased exponent field, read as 1 for subnormals -/
def expField (mb eb bits : Nat) : Nat := if (bits / 2 ^ mb) % 2 ^ eb = 0 then 1 else (bits / 2 ^ mb) % 2 ^ eb
/-- integer significand (hidden bit included for normal numbers) -/
def sigField (mb eb bits : Nat) : Nat :=
  if (bits / 2 ^ mb) % 2 ^ eb = 0 then bits % 2 ^ mb else 2 ^ mb + bits % 2 ^ mb
/-- exponent of the unit in the last place -/
def ulpExp (mb eb bits : Nat) : Int := (expField mb eb bits : Int) - ((2 : Int) ^ (eb - 1) - 1) - mb
/-- `|value(bits)|` -/
def magQ (mb eb bits : Nat) : ℚ := (sigField mb eb bits : ℚ) * 2 ^ ulpExp mb eb bits
/-- `ulp(bits)` -/
def ulpQ (mb eb bits : Nat) : ℚ := 2 ^ ulpExp mb eb bits

theorem ulpQ_pos (mb eb bits : Nat) : 0 < ulpQ mb eb bits := by unfold ulpQ; positivity

/-! ### round-half-even on a closed interval -/

theorem rhe_of_le (n d k : Nat) (hd : 0 < d) (hlo : (k : ℚ) - 1 / 2 ≤ (n : ℚ) / d) (hhi : (n : ℚ) / d ≤ (k : ℚ) + 1 / 2)
    (hlo' : (n : ℚ) / d = (k : ℚ) - 1 / 2 → k % 2 = 0) (hhi' : (n : ℚ) / d = (k : ℚ) + 1 / 2 → k % 2 = 0) :
    FmtSpec.roundHalfEven n d = k := by
  have hdq : (0 : ℚ) < d := by exact_mod_cast hd
  by_cases h1 : (n : ℚ) / d = (k : ℚ) + 1 / 2
  · have hk := hhi' h1
    have h2 : 2 * n = (2 * k + 1) * d := by
      have : (2 : ℚ) * n = (2 * k + 1) * d := by
        rw [div_eq_iff (ne_of_gt hdq)] at h1; rw [h1]; ring
      exact_mod_cast this
    obtain ⟨X, hX⟩ : ∃ X, X = k * d := ⟨_, rfl⟩
    have h3 : 2 * n = 2 * X + d := by rw [hX, h2]; ring
    have hdiv : n / d = k := Nat.div_eq_of_lt_le (by rw [← hX]; omega) (by rw [Nat.succ_mul, ← hX]; omega)
    have hmod : n % d = n - X := by rw [Nat.mod_def, hdiv, Nat.mul_comm, hX]
    unfold FmtSpec.roundHalfEven
    simp only [hdiv, hmod]
    rw [if_neg]
    intro hc
    rcases hc with hc | hc <;> omega
  · by_cases h2 : (n : ℚ) / d = (k : ℚ) - 1 / 2
    · have hk := hlo' h2
      have hk1 : 1 ≤ k := by
        by_contra hc
        have : k = 0 := by omega
        subst this
        have : (0 : ℚ) ≤ (n : ℚ) / d := by positivity
        rw [h2] at this; norm_num at this
      have h3 : 2 * n + d = 2 * k * d := by
        have : (2 : ℚ) * n + d = 2 * k * d := by
          rw [div_eq_iff (ne_of_gt hdq)] at h2; rw [h2]; ring
        exact_mod_cast this
      obtain ⟨X, hX⟩ : ∃ X, X = (k - 1) * d := ⟨_, rfl⟩
      have hkd : k * d = X + d := by
        rw [hX, Nat.sub_mul, Nat.one_mul]
        have : d ≤ k * d := Nat.le_mul_of_pos_left _ hk1
        omega
      have h4 : 2 * n + d = 2 * X + 2 * d := by rw [h3, Nat.mul_assoc, hkd]; ring
      have hdiv : n / d = k - 1 := Nat.div_eq_of_lt_le (by rw [← hX]; omega)
        (by rw [show k - 1 + 1 = k by omega, hkd]; omega)
      have hmod : n % d = n - X := by rw [Nat.mod_def, hdiv, Nat.mul_comm, hX]
      unfold FmtSpec.roundHalfEven
      simp only [hdiv, hmod]
      rw [if_pos (Or.inr ⟨by omega, by omega⟩)]
      omega
    · apply rhe_unique n d k hd
      rw [abs_lt]
      constructor
      · rcases lt_or_eq_of_le hlo with h | h
        · linarith
        · exact absurd h.symm h2
      · rcases lt_or_eq_of_le hhi with h | h
        · linarith
        · exact absurd h h1


theorem mAt_of_le (rn rd : Nat) (hrd : 0 < rd) (q : Int) (k : Nat)
    (hlo : (k : ℚ) - 1 / 2 ≤ (rn : ℚ) / rd / 2 ^ q) (hhi : (rn : ℚ) / rd / 2 ^ q ≤ (k : ℚ) + 1 / 2)
    (hlo' : (rn : ℚ) / rd / 2 ^ q = (k : ℚ) - 1 / 2 → k % 2 = 0)
    (hhi' : (rn : ℚ) / rd / 2 ^ q = (k : ℚ) + 1 / 2 → k % 2 = 0) :
    (if 0 ≤ q then FmtSpec.roundHalfEven rn (rd * 2 ^ q.toNat) else FmtSpec.roundHalfEven (rn * 2 ^ (-q).toNat) rd) = k := by
  have hrdq : (0 : ℚ) < rd := by exact_mod_cast hrd
  by_cases hq : 0 ≤ q
  · obtain ⟨n, rfl⟩ := Int.eq_ofNat_of_zero_le hq
    rw [if_pos hq, Int.toNat_natCast]
    rw [zpow_natCast] at hlo hhi hlo' hhi'
    have e : ((rn : ℚ) / ((rd * 2 ^ n : Nat) : ℚ)) = (rn : ℚ) / rd / 2 ^ n := by push_cast; rw [div_div]
    exact rhe_of_le _ _ _ (Nat.mul_pos hrd (Nat.pow_pos (by decide))) (by rw [e]; exact hlo) (by rw [e]; exact hhi)
      (by rw [e]; exact hlo') (by rw [e]; exact hhi')
  · obtain ⟨n, hn⟩ : ∃ n : Nat, q = -(n : Int) := ⟨(-q).toNat, by omega⟩
    subst hn
    rw [if_neg hq, neg_neg, Int.toNat_natCast]
    rw [zpow_neg, zpow_natCast, div_inv_eq_mul] at hlo hhi hlo' hhi'
    have e : (((rn * 2 ^ n : Nat) : ℚ) / rd) = (rn : ℚ) / rd * 2 ^ n := by push_cast; ring
    exact rhe_of_le _ _ _ hrd (by rw [e]; exact hlo) (by rw [e]; exact hhi) (by rw [e]; exact hlo') (by rw [e]; exact hhi')

/-- **`nearestBits` characterised by the closed rounding interval, ties to even**: the rational `rn/rd` lies between
the two midpoints around `M·2^q0` (`q0 = e1 − bias − mb`), a midpoint being allowed only when `M` is even; below a
power of two at the bottom of a binade above the lowest the lower midpoint is a quarter ulp away (always allowed:
the neighbour below is odd). -/
theorem nearestBits_eq_closed (mb eb : Nat) (neg : Bool) (rn rd : Nat) (hrn : 0 < rn) (hrd : 0 < rd)
    (e1 M : Nat) (heb : 1 ≤ eb) (he1 : 1 ≤ e1) (he1' : e1 + 2 ≤ 2 ^ eb) (hM : M < 2 ^ (mb + 1))
    (hnorm : 1 < e1 → 2 ^ mb ≤ M)
    (H1l : ((2 * M : ℚ) - 1) * 2 ^ ((e1 : Int) - ((2 : Int) ^ (eb - 1) - 1) - mb - 1) ≤ (rn : ℚ) / rd)
    (H1le : ((2 * M : ℚ) - 1) * 2 ^ ((e1 : Int) - ((2 : Int) ^ (eb - 1) - 1) - mb - 1) = (rn : ℚ) / rd → M % 2 = 0)
    (H1u : (rn : ℚ) / rd ≤ (2 * M + 1) * 2 ^ ((e1 : Int) - ((2 : Int) ^ (eb - 1) - 1) - mb - 1))
    (H1ue : (rn : ℚ) / rd = (2 * M + 1) * 2 ^ ((e1 : Int) - ((2 : Int) ^ (eb - 1) - 1) - mb - 1) → M % 2 = 0)
    (H2 : M = 2 ^ mb → 1 < e1 →
      ((4 * M : ℚ) - 1) * 2 ^ ((e1 : Int) - ((2 : Int) ^ (eb - 1) - 1) - mb - 2) ≤ (rn : ℚ) / rd) :
    FmtSpec.nearestBits mb eb neg rn rd = (if neg then 2 ^ (mb + eb) else 0) + ((e1 - 1) * 2 ^ mb + M) := by
  rw [nearestBits_unfold mb eb neg rn rd (by omega)]
  obtain ⟨hlo, hhi⟩ := flog2_spec rn rd hrn hrd
  generalize flog2 rn rd = e at *
  generalize hbias : (2 : Int) ^ (eb - 1) - 1 = bias at *
  generalize hr : (rn : ℚ) / rd = r at *
  have h2 : (1 : ℚ) < 2 := by norm_num
  have hMq : (M : ℚ) + 1 ≤ 2 ^ (mb + 1) := by exact_mod_cast hM
  have hmbz : ((2 : ℚ) ^ (mb : Int)) = 2 ^ mb := zpow_natCast 2 mb
  have hup : r < 2 ^ ((e1 : Int) - bias + 1) := by
    calc r ≤ (2 * M + 1) * 2 ^ ((e1 : Int) - bias - mb - 1) := H1u
      _ < (2 * 2 ^ (mb + 1)) * 2 ^ ((e1 : Int) - bias - mb - 1) := by
          apply mul_lt_mul_of_pos_right _ (by positivity); linarith
      _ = 2 ^ ((e1 : Int) - bias + 1) := by
          rw [show (2 : ℚ) * 2 ^ (mb + 1) = 2 ^ ((mb : Int) + 2) by
            rw [zpow_add₀ (by norm_num), hmbz]; ring, ← zpow_add₀ (by norm_num)]
          congr 1; ring
  have he_le : e ≤ (e1 : Int) - bias := by
    have : (2 : ℚ) ^ e < 2 ^ ((e1 : Int) - bias + 1) := lt_of_le_of_lt hlo hup
    have := (zpow_lt_zpow_iff_right₀ h2).mp this
    omega
  have hbias0 : 0 ≤ bias := by
    rw [← hbias]
    have : (1 : Int) ≤ 2 ^ (eb - 1) := one_le_pow₀ (by norm_num)
    omega
  have hlow2 : 1 < e1 → (e1 : Int) - bias - 1 ≤ e := by
    intro h1
    have hMnq : (2 : ℚ) ^ mb ≤ M := by exact_mod_cast hnorm h1
    have h2mb : (1 : ℚ) ≤ 2 ^ mb := one_le_pow₀ (by norm_num)
    have : (2 : ℚ) ^ ((e1 : Int) - bias - 1) < 2 ^ (e + 1) := by
      calc (2 : ℚ) ^ ((e1 : Int) - bias - 1) = 2 ^ mb * 2 ^ ((e1 : Int) - bias - mb - 1) := by
            rw [← hmbz, ← zpow_add₀ (by norm_num)]; congr 1; ring
        _ ≤ ((2 * M : ℚ) - 1) * 2 ^ ((e1 : Int) - bias - mb - 1) := by
            apply mul_le_mul_of_nonneg_right _ (by positivity); linarith
        _ ≤ r := H1l
        _ < 2 ^ (e + 1) := hhi
    have := (zpow_lt_zpow_iff_right₀ h2).mp this
    omega
  have key : (if e < 1 - bias then 1 - bias else e) = (e1 : Int) - bias ∨
      ((if e < 1 - bias then 1 - bias else e) = (e1 : Int) - bias - 1 ∧ 1 < e1 ∧ r < 2 ^ ((e1 : Int) - bias)) := by
    by_cases h1 : 1 < e1
    · have := hlow2 h1
      have hne : ¬ (e < 1 - bias) := by omega
      rw [if_neg hne]
      by_cases hee : e = (e1 : Int) - bias
      · left; exact hee
      · right
        have heq : e = (e1 : Int) - bias - 1 := by omega
        refine ⟨heq, h1, ?_⟩
        have : e + 1 = (e1 : Int) - bias := by omega
        rw [← this]; exact hhi
    · left
      split <;> omega
  generalize (if e < 1 - bias then 1 - bias else e) = e' at *
  have hfieldlt : (e1 - 1) * 2 ^ mb + M < (2 ^ eb - 1) * 2 ^ mb := by
    have h3 : e1 - 1 + 2 ≤ 2 ^ eb - 1 := by omega
    calc (e1 - 1) * 2 ^ mb + M < (e1 - 1) * 2 ^ mb + 2 * 2 ^ mb := by
          have : 2 ^ (mb + 1) = 2 * 2 ^ mb := by rw [Nat.pow_succ]; ring
          omega
      _ = (e1 - 1 + 2) * 2 ^ mb := by ring
      _ ≤ (2 ^ eb - 1) * 2 ^ mb := Nat.mul_le_mul_right _ h3
  rcases key with hk | ⟨hk, h1, hrlt⟩
  · subst hk
    have hpos : (0 : ℚ) < 2 ^ ((e1 : Int) - bias - mb) := by positivity
    have hsplit : (2 : ℚ) ^ ((e1 : Int) - bias - mb) = 2 * 2 ^ ((e1 : Int) - bias - mb - 1) := by
      rw [show (e1 : Int) - bias - mb = 1 + ((e1 : Int) - bias - mb - 1) by ring, zpow_add₀ (by norm_num)]; simp
    have ea : ((M : ℚ) - 1 / 2) * (2 * 2 ^ ((e1 : Int) - bias - mb - 1)) =
        ((2 * M : ℚ) - 1) * 2 ^ ((e1 : Int) - bias - mb - 1) := by ring
    have eb' : ((M : ℚ) + 1 / 2) * (2 * 2 ^ ((e1 : Int) - bias - mb - 1)) =
        ((2 * M : ℚ) + 1) * 2 ^ ((e1 : Int) - bias - mb - 1) := by ring
    have hm := mAt_of_le rn rd hrd ((e1 : Int) - bias - mb) M
      (by rw [hr, le_div_iff₀ hpos, hsplit, ea]; exact H1l)
      (by rw [hr, div_le_iff₀ hpos, hsplit, eb']; exact H1u)
      (by rw [hr]; intro h; apply H1le; rw [div_eq_iff (ne_of_gt hpos), hsplit, ea] at h; exact h.symm)
      (by rw [hr]; intro h; apply H1ue; rw [div_eq_iff (ne_of_gt hpos), hsplit, eb'] at h; exact h)
    rw [hm]
    have ht : ((e1 : Int) - bias + bias - 1).toNat = e1 - 1 := by omega
    rw [ht, if_neg (Nat.not_le.mpr hfieldlt)]
  · subst hk
    have hM2 : M = 2 ^ mb := by
      have hMn := hnorm h1
      by_contra hne
      have hgt : 2 ^ mb + 1 ≤ M := by omega
      have hgtq : (2 : ℚ) ^ mb + 1 ≤ M := by exact_mod_cast hgt
      have : r < r := by
        calc r < 2 ^ ((e1 : Int) - bias) := hrlt
          _ = (2 * 2 ^ mb) * 2 ^ ((e1 : Int) - bias - mb - 1) := by
              rw [show (2 : ℚ) * 2 ^ mb = 2 ^ ((mb : Int) + 1) by rw [zpow_add₀ (by norm_num), hmbz]; ring,
                ← zpow_add₀ (by norm_num)]
              congr 1; ring
          _ ≤ ((2 * M : ℚ) - 1) * 2 ^ ((e1 : Int) - bias - mb - 1) := by
              apply mul_le_mul_of_nonneg_right _ (by positivity); linarith
          _ ≤ r := H1l
      exact lt_irrefl _ this
    have H2' := H2 hM2 h1
    have hpos : (0 : ℚ) < 2 ^ ((e1 : Int) - bias - 1 - mb) := by positivity
    have hsplit : (2 : ℚ) ^ ((e1 : Int) - bias - 1 - mb) = 2 * 2 ^ ((e1 : Int) - bias - mb - 2) := by
      rw [show (e1 : Int) - bias - 1 - mb = 1 + ((e1 : Int) - bias - mb - 2) by ring, zpow_add₀ (by norm_num)]; simp
    have hMq2 : (M : ℚ) = 2 ^ mb := by exact_mod_cast hM2
    have hE : (2 : ℚ) ^ ((e1 : Int) - bias) = 2 ^ (mb + 1) * 2 ^ ((e1 : Int) - bias - 1 - mb) := by
      rw [← zpow_natCast, ← zpow_add₀ (by norm_num)]; congr 1; push_cast; ring
    have hp2 : (2 : ℚ) ^ (mb + 1) = 2 * 2 ^ mb := by rw [pow_succ]; ring
    have hlt' : r / 2 ^ ((e1 : Int) - bias - 1 - mb) < 2 ^ (mb + 1) := by
      rw [div_lt_iff₀ hpos, ← hE]; exact hrlt
    have hm := mAt_of_le rn rd hrd ((e1 : Int) - bias - 1 - mb) (2 ^ (mb + 1))
      (by
        rw [hr, le_div_iff₀ hpos, hsplit]
        push_cast
        rw [hMq2] at H2'
        have : ((2 : ℚ) ^ (mb + 1) - 1 / 2) * (2 * 2 ^ ((e1 : Int) - bias - mb - 2)) =
            ((4 * 2 ^ mb : ℚ) - 1) * 2 ^ ((e1 : Int) - bias - mb - 2) := by rw [hp2]; ring
        rw [this]; exact H2')
      (by rw [hr]; push_cast; linarith)
      (by intro _; rw [Nat.pow_succ]; omega)
      (by rw [hr]; push_cast; intro h; linarith)
    rw [hm]
    have ht : ((e1 : Int) - bias - 1 + bias - 1).toNat = e1 - 2 := by omega
    have hfe : (e1 - 2) * 2 ^ mb + 2 ^ (mb + 1) = (e1 - 1) * 2 ^ mb + M := by
      rw [hM2, Nat.pow_succ]
      have : e1 - 1 = (e1 - 2) + 1 := by omega
      rw [this]; ring
    rw [ht, hfe, if_neg (Nat.not_le.mpr hfieldlt)]


/-! ### the reference text is close to the value; the tie-free zone -/

theorem magQ_of_fields {mb eb bits e1 M : Nat}
    (he : e1 = (if (bits / 2 ^ mb) % 2 ^ eb = 0 then 1 else (bits / 2 ^ mb) % 2 ^ eb))
    (hM : M = (if (bits / 2 ^ mb) % 2 ^ eb = 0 then bits % 2 ^ mb else 2 ^ mb + bits % 2 ^ mb)) :
    expField mb eb bits = e1 ∧ sigField mb eb bits = M ∧
    ulpExp mb eb bits = (e1 : Int) - ((2 : Int) ^ (eb - 1) - 1) - mb := by
  unfold ulpExp expField sigField
  rw [← he, ← hM]; exact ⟨rfl, rfl, rfl⟩

/-- **the `%.{p}g` reference text of a finite non-zero pattern denotes a rational within `2^mb/10^(P-1)` ulp of the
value** (strictly; within half of that when the significand is the power of two at the bottom of a binade).
For binary64 at 17 digits: `2^52/10^16 < 0.4504`; for binary32 at 9 digits: `2^23/10^8 < 0.084`. -/
theorem text_value_close (mb eb p bits : Nat) (hmb : 1 ≤ mb) (heb : 2 ≤ eb)
    (hrange : 2 ^ (2 ^ (eb - 1) - 1 + mb) ≤ 10 ^ 1199) (hb : bits < 2 ^ (mb + eb + 1))
    (hfin : (bits / 2 ^ mb) % 2 ^ eb ≠ 2 ^ eb - 1) (hnz : (bits / 2 ^ mb) % 2 ^ eb ≠ 0 ∨ bits % 2 ^ mb ≠ 0) :
    ∃ m d : Nat, 0 < d ∧
      FmtSpec.readDecimal (FmtSpec.formatVal (FmtSpec.decode mb eb bits) p .default) =
        some (decide ((bits / 2 ^ (mb + eb)) % 2 = 1), m, d) ∧
      |(m : ℚ) / d - magQ mb eb bits| < (2 : ℚ) ^ mb / 10 ^ ((if p = 0 then 1 else p) - 1) * ulpQ mb eb bits ∧
      (sigField mb eb bits = 2 ^ mb →
        |(m : ℚ) / d - magQ mb eb bits| ≤ (2 : ℚ) ^ mb / 10 ^ ((if p = 0 then 1 else p) - 1) / 2 * ulpQ mb eb bits) := by
  obtain ⟨num, den, e1, M, hdec, he1eq, hMeq, hnum, hden, he1, he1', hM0, hM, hnorm, hv, hbits, hdb⟩ :=
    decode_fin mb eb bits hmb heb hfin hnz hb
  obtain ⟨hE, hSg, hU⟩ := magQ_of_fields he1eq hMeq
  have hsmall : den ≤ num * 10 ^ 1199 := le_trans hdb (Nat.mul_le_mul_left _ hrange)
  generalize hneg : decide ((bits / 2 ^ (mb + eb)) % 2 = 1) = neg at *
  obtain ⟨m, d, hd, hread, hval, hslo⟩ := generalBody_value num den p neg hnum hden hsmall
  clear hsmall hrange hdb
  have hclose := scaleRound_close num den hden (((if p = 0 then 1 else p : Nat) : Int) - 1 - FmtSpec.floorLog10 num den)
  unfold magQ ulpQ
  rw [hSg, hU]
  generalize hP : (if p = 0 then 1 else p) = P at *
  generalize hs : (P : Int) - 1 - FmtSpec.floorLog10 num den = s at *
  generalize hK0 : FmtSpec.scaleRound num den s = K0 at *
  generalize hq0 : (e1 : Int) - ((2 : Int) ^ (eb - 1) - 1) - mb = q0 at *
  generalize hvv : (num : ℚ) / den = v at *
  refine ⟨m, d, hd, by rw [hdec]; exact hread, ?_, ?_⟩
  all_goals
    have hS : (0 : ℚ) < 10 ^ (-s) := by positivity
    have h2q : (0 : ℚ) < 2 ^ q0 := by positivity
    have hMq : (M : ℚ) + 1 ≤ 2 ^ (mb + 1) := by exact_mod_cast hM
    have h10P : (0 : ℚ) < 10 ^ (P - 1) := by positivity
    have hvS : v = v * 10 ^ s * 10 ^ (-s) := by
      rw [mul_assoc, ← zpow_add₀ (by norm_num)]; simp
    have hstep : 10 ^ (P - 1) * (10 : ℚ) ^ (-s) ≤ v := by
      rw [hvS]; exact mul_le_mul_of_nonneg_right hslo (le_of_lt hS)
    rw [abs_le] at hclose
    have hVlo : v - 10 ^ (-s) / 2 ≤ (m : ℚ) / d := by
      rw [hval]
      have : v * 10 ^ s - 1 / 2 ≤ (K0 : ℚ) := by linarith
      calc v - 10 ^ (-s) / 2 = (v * 10 ^ s - 1 / 2) * 10 ^ (-s) := by rw [sub_mul, ← hvS]; ring
        _ ≤ (K0 : ℚ) * 10 ^ (-s) := mul_le_mul_of_nonneg_right this (le_of_lt hS)
    have hVhi : (m : ℚ) / d ≤ v + 10 ^ (-s) / 2 := by
      rw [hval]
      have : (K0 : ℚ) ≤ v * 10 ^ s + 1 / 2 := by linarith
      calc (K0 : ℚ) * 10 ^ (-s) ≤ (v * 10 ^ s + 1 / 2) * 10 ^ (-s) := mul_le_mul_of_nonneg_right this (le_of_lt hS)
        _ = v + 10 ^ (-s) / 2 := by rw [add_mul, ← hvS]; ring
  · -- general: S < 2^(mb+1)/10^(P-1) · ulp
    have hSlt : (10 : ℚ) ^ (-s) < 2 * (2 ^ mb / 10 ^ (P - 1) * 2 ^ q0) := by
      have h1 : 10 ^ (P - 1) * (10 : ℚ) ^ (-s) < 2 ^ (mb + 1) * 2 ^ q0 := by
        calc 10 ^ (P - 1) * (10 : ℚ) ^ (-s) ≤ v := hstep
          _ = M * 2 ^ q0 := hv
          _ < 2 ^ (mb + 1) * 2 ^ q0 := by apply mul_lt_mul_of_pos_right _ h2q; linarith
      have h2 : (10 : ℚ) ^ (-s) < 2 ^ (mb + 1) * 2 ^ q0 / 10 ^ (P - 1) := by
        rw [lt_div_iff₀ h10P]; linarith
      calc (10 : ℚ) ^ (-s) < 2 ^ (mb + 1) * 2 ^ q0 / 10 ^ (P - 1) := h2
        _ = 2 * (2 ^ mb / 10 ^ (P - 1) * 2 ^ q0) := by rw [pow_succ]; ring
    rw [← hv, abs_lt]; constructor <;> linarith
  · intro hM2
    have hM2q : (M : ℚ) = 2 ^ mb := by exact_mod_cast hM2
    have hSle : (10 : ℚ) ^ (-s) ≤ 2 * (2 ^ mb / 10 ^ (P - 1) / 2 * 2 ^ q0) := by
      have h1 : 10 ^ (P - 1) * (10 : ℚ) ^ (-s) ≤ 2 ^ mb * 2 ^ q0 := by
        calc 10 ^ (P - 1) * (10 : ℚ) ^ (-s) ≤ v := hstep
          _ = 2 ^ mb * 2 ^ q0 := by rw [hv, hM2q]
      have h2 : (10 : ℚ) ^ (-s) ≤ 2 ^ mb * 2 ^ q0 / 10 ^ (P - 1) := by
        rw [le_div_iff₀ h10P]; linarith
      calc (10 : ℚ) ^ (-s) ≤ 2 ^ mb * 2 ^ q0 / 10 ^ (P - 1) := h2
        _ = 2 * (2 ^ mb / 10 ^ (P - 1) / 2 * 2 ^ q0) := by ring
    rw [← hv, abs_le]; constructor <;> linarith

/-- **the tie-free zone** (plain ℚ): if `V` is within `δ` ulp of the value (`δ/2` at the bottom of a binade) and `y`
within `ε` ulp of `V`, `δ + 2ε < 1/2`, then `y` lies strictly between the rounding midpoints around the value —
half an ulp above, half an ulp below, a quarter below when the significand is `2^mb` (where the spacing halves;
relevant for normal numbers above the lowest binade, harmless otherwise).  Any rounding that is correct away from
ties (nearest-even, half-up, …) therefore maps `y` to the pattern. -/
theorem tie_free_zone (mb eb bits : Nat) (δ ε V y : ℚ) (hδ : δ + 2 * ε < 1 / 2) (hε : 0 ≤ ε)
    (hV : |V - magQ mb eb bits| < δ * ulpQ mb eb bits)
    (hVb : sigField mb eb bits = 2 ^ mb → |V - magQ mb eb bits| ≤ δ / 2 * ulpQ mb eb bits)
    (hy : |y - V| ≤ ε * ulpQ mb eb bits) :
    magQ mb eb bits - ulpQ mb eb bits / 2 < y ∧ y < magQ mb eb bits + ulpQ mb eb bits / 2 ∧
    (sigField mb eb bits = 2 ^ mb → magQ mb eb bits - ulpQ mb eb bits / 4 < y) := by
  have hu := ulpQ_pos mb eb bits
  generalize ulpQ mb eb bits = u at *
  generalize magQ mb eb bits = v at *
  rw [abs_lt] at hV
  rw [abs_le] at hy
  have h1 : (δ + ε) * u < u / 2 := by nlinarith
  refine ⟨by nlinarith, by nlinarith, ?_⟩
  intro hs
  have := hVb hs
  rw [abs_le] at this
  have h2 : (δ / 2 + ε) * u < u / 4 := by nlinarith
  nlinarith

/-! ### `nearestBits` on the bit-pattern level -/

/-- the closed characterisation on bit patterns: a positive rational between the two midpoints around `|value(bits)|`
(a midpoint itself only when the significand is even; the lower midpoint is a quarter ulp away below `2^mb` in a
normal binade above the lowest) is rounded by `FmtSpec.nearestBits` to `bits` -/
theorem nearestBits_closed_bits (mb eb bits rn rd : Nat) (hmb : 1 ≤ mb) (heb : 2 ≤ eb) (hb : bits < 2 ^ (mb + eb + 1))
    (hfin : (bits / 2 ^ mb) % 2 ^ eb ≠ 2 ^ eb - 1) (hnz : (bits / 2 ^ mb) % 2 ^ eb ≠ 0 ∨ bits % 2 ^ mb ≠ 0)
    (hrd : 0 < rd)
    (hlo : magQ mb eb bits - ulpQ mb eb bits / 2 ≤ (rn : ℚ) / rd)
    (hloe : magQ mb eb bits - ulpQ mb eb bits / 2 = (rn : ℚ) / rd → sigField mb eb bits % 2 = 0)
    (hhi : (rn : ℚ) / rd ≤ magQ mb eb bits + ulpQ mb eb bits / 2)
    (hhie : (rn : ℚ) / rd = magQ mb eb bits + ulpQ mb eb bits / 2 → sigField mb eb bits % 2 = 0)
    (hq : sigField mb eb bits = 2 ^ mb → 1 < expField mb eb bits →
      magQ mb eb bits - ulpQ mb eb bits / 4 ≤ (rn : ℚ) / rd) :
    FmtSpec.nearestBits mb eb (decide ((bits / 2 ^ (mb + eb)) % 2 = 1)) rn rd = bits := by
  obtain ⟨num, den, e1, M, hdec, he1eq, hMeq, hnum, hden, he1, he1', hM0, hM, hnorm, hv, hbits, hdb⟩ :=
    decode_fin mb eb bits hmb heb hfin hnz hb
  obtain ⟨hE, hSg, hU⟩ := magQ_of_fields he1eq hMeq
  unfold magQ ulpQ at *
  rw [hSg, hU] at hlo hloe hhi hhie hq
  rw [hE] at hq
  generalize hq0 : (e1 : Int) - ((2 : Int) ^ (eb - 1) - 1) - mb = q0 at *
  have hsplit : (2 : ℚ) ^ q0 = 2 * 2 ^ (q0 - 1) := by
    rw [show q0 = 1 + (q0 - 1) by ring, zpow_add₀ (by norm_num)]; simp
  have hsplit2 : (2 : ℚ) ^ (q0 - 1) = 2 * 2 ^ (q0 - 2) := by
    rw [show q0 - 1 = 1 + (q0 - 2) by ring, zpow_add₀ (by norm_num)]; simp
  have hp1 : (0 : ℚ) < 2 ^ (q0 - 1) := by positivity
  have hM0q : (1 : ℚ) ≤ M := by exact_mod_cast hM0
  have ea : (M : ℚ) * 2 ^ q0 - 2 ^ q0 / 2 = ((2 * M : ℚ) - 1) * 2 ^ (q0 - 1) := by rw [hsplit]; ring
  have eb' : (M : ℚ) * 2 ^ q0 + 2 ^ q0 / 2 = ((2 * M : ℚ) + 1) * 2 ^ (q0 - 1) := by rw [hsplit]; ring
  have ec : (M : ℚ) * 2 ^ q0 - 2 ^ q0 / 4 = ((4 * M : ℚ) - 1) * 2 ^ (q0 - 2) := by rw [hsplit, hsplit2]; ring
  rw [ea] at hlo hloe
  rw [eb'] at hhi hhie
  rw [ec] at hq
  have hrn : 0 < rn := by
    have hrdq : (0 : ℚ) < rd := by exact_mod_cast hrd
    have : (0 : ℚ) < (rn : ℚ) / rd := by
      have : (0 : ℚ) < ((2 * M : ℚ) - 1) * 2 ^ (q0 - 1) := by apply mul_pos _ hp1; linarith
      linarith
    have := (div_pos_iff_of_pos_right hrdq).mp this
    exact_mod_cast this
  have hres := nearestBits_eq_closed mb eb (decide ((bits / 2 ^ (mb + eb)) % 2 = 1)) rn rd hrn hrd e1 M (by omega)
    he1 he1' hM hnorm (by rw [hq0]; exact hlo) (by rw [hq0]; exact hloe) (by rw [hq0]; exact hhi)
    (by rw [hq0]; exact hhie) (by rw [hq0]; exact hq)
  rw [hres, ← hbits]

/-- **robust version**: any positive rational strictly inside the tie-free zone is rounded by `FmtSpec.nearestBits`
to `bits` -/
theorem nearestBits_robust (mb eb bits rn rd : Nat) (hmb : 1 ≤ mb) (heb : 2 ≤ eb) (hb : bits < 2 ^ (mb + eb + 1))
    (hfin : (bits / 2 ^ mb) % 2 ^ eb ≠ 2 ^ eb - 1) (hnz : (bits / 2 ^ mb) % 2 ^ eb ≠ 0 ∨ bits % 2 ^ mb ≠ 0)
    (hrd : 0 < rd)
    (hlo : magQ mb eb bits - ulpQ mb eb bits / 2 < (rn : ℚ) / rd)
    (hhi : (rn : ℚ) / rd < magQ mb eb bits + ulpQ mb eb bits / 2)
    (hq : sigField mb eb bits = 2 ^ mb → magQ mb eb bits - ulpQ mb eb bits / 4 < (rn : ℚ) / rd) :
    FmtSpec.nearestBits mb eb (decide ((bits / 2 ^ (mb + eb)) % 2 = 1)) rn rd = bits :=
  nearestBits_closed_bits mb eb bits rn rd hmb heb hb hfin hnz hrd (le_of_lt hlo)
    (fun h => absurd h (ne_of_lt hlo)) (le_of_lt hhi) (fun h => absurd h (ne_of_lt hhi))
    (fun h _ => le_of_lt (hq h))


/-! ### instances: binary64 at 17 digits, binary32 at 9 digits (ε = 1/64 ulp) -/

/-- general instance: text close to the value, hence everything within `ε` ulp of the text's value is in the
tie-free zone and is rounded by `FmtSpec.nearestBits` to the pattern -/
theorem margin_format (mb eb p bits : Nat) (ε : ℚ) (hmb : 1 ≤ mb) (heb : 2 ≤ eb)
    (hrange : 2 ^ (2 ^ (eb - 1) - 1 + mb) ≤ 10 ^ 1199) (hb : bits < 2 ^ (mb + eb + 1))
    (hε : 0 ≤ ε) (hδ : (2 : ℚ) ^ mb / 10 ^ ((if p = 0 then 1 else p) - 1) + 2 * ε < 1 / 2)
    (hfin : (bits / 2 ^ mb) % 2 ^ eb ≠ 2 ^ eb - 1) (hnz : (bits / 2 ^ mb) % 2 ^ eb ≠ 0 ∨ bits % 2 ^ mb ≠ 0) :
    ∃ m d : Nat, 0 < d ∧
      FmtSpec.readDecimal (FmtSpec.formatVal (FmtSpec.decode mb eb bits) p .default) =
        some (decide ((bits / 2 ^ (mb + eb)) % 2 = 1), m, d) ∧
      (∀ y : ℚ, |y - (m : ℚ) / d| ≤ ε * ulpQ mb eb bits →
        magQ mb eb bits - ulpQ mb eb bits / 2 < y ∧ y < magQ mb eb bits + ulpQ mb eb bits / 2 ∧
        (sigField mb eb bits = 2 ^ mb → magQ mb eb bits - ulpQ mb eb bits / 4 < y)) ∧
      (∀ rn rd : Nat, 0 < rd → |(rn : ℚ) / rd - (m : ℚ) / d| ≤ ε * ulpQ mb eb bits →
        FmtSpec.nearestBits mb eb (decide ((bits / 2 ^ (mb + eb)) % 2 = 1)) rn rd = bits) := by
  obtain ⟨m, d, hd, hread, hV, hVb⟩ := text_value_close mb eb p bits hmb heb hrange hb hfin hnz
  have hzone : ∀ y : ℚ, |y - (m : ℚ) / d| ≤ ε * ulpQ mb eb bits →
      magQ mb eb bits - ulpQ mb eb bits / 2 < y ∧ y < magQ mb eb bits + ulpQ mb eb bits / 2 ∧
      (sigField mb eb bits = 2 ^ mb → magQ mb eb bits - ulpQ mb eb bits / 4 < y) :=
    fun y hy => tie_free_zone mb eb bits _ ε _ y hδ hε hV hVb hy
  refine ⟨m, d, hd, hread, hzone, ?_⟩
  intro rn rd hrd hy
  obtain ⟨h1, h2, h3⟩ := hzone _ hy
  exact nearestBits_robust mb eb bits rn rd hmb heb hb hfin hnz hrd h1 h2 h3

theorem range64 : 2 ^ (2 ^ (11 - 1) - 1 + 52) ≤ 10 ^ 1199 :=
  le_trans (Nat.pow_le_pow_right (by decide) (show 2 ^ (11 - 1) - 1 + 52 ≤ 1199 by decide))
    (Nat.pow_le_pow_left (by decide) 1199)

theorem range32 : 2 ^ (2 ^ (8 - 1) - 1 + 23) ≤ 10 ^ 1199 :=
  le_trans (Nat.pow_le_pow_right (by decide) (show 2 ^ (8 - 1) - 1 + 23 ≤ 1199 by decide))
    (Nat.pow_le_pow_left (by decide) 1199)

/-- **binary64, `%.17g`**: the text's value is within `2^52/10^16 < 0.4504` ulp of the double; every rational within
`1/64` ulp of the text's value lies in the tie-free zone and `nearestBits 52 11` returns the bits -/
theorem margin17 (b : Nat) (hb : b < 2 ^ 64) (hfin : (b / 2 ^ 52) % 2 ^ 11 ≠ 2 ^ 11 - 1)
    (hnz : (b / 2 ^ 52) % 2 ^ 11 ≠ 0 ∨ b % 2 ^ 52 ≠ 0) :
    ∃ m d : Nat, 0 < d ∧
      FmtSpec.readDecimal (FmtSpec.format64 b 17 .default) = some (decide ((b / 2 ^ 63) % 2 = 1), m, d) ∧
      |(m : ℚ) / d - magQ 52 11 b| < (2 : ℚ) ^ 52 / 10 ^ 16 * ulpQ 52 11 b ∧
      (∀ y : ℚ, |y - (m : ℚ) / d| ≤ 1 / 64 * ulpQ 52 11 b →
        magQ 52 11 b - ulpQ 52 11 b / 2 < y ∧ y < magQ 52 11 b + ulpQ 52 11 b / 2 ∧
        (sigField 52 11 b = 2 ^ 52 → magQ 52 11 b - ulpQ 52 11 b / 4 < y)) ∧
      (∀ rn rd : Nat, 0 < rd → |(rn : ℚ) / rd - (m : ℚ) / d| ≤ 1 / 64 * ulpQ 52 11 b →
        FmtSpec.nearestBits 52 11 (decide ((b / 2 ^ 63) % 2 = 1)) rn rd = b) := by
  obtain ⟨m, d, hd, hread, hzone, hnb⟩ := margin_format 52 11 17 b (1 / 64) (by decide) (by decide) range64 hb
    (by norm_num) (by norm_num) hfin hnz
  obtain ⟨m', d', hd', hread', hV, _⟩ := text_value_close 52 11 17 b (by decide) (by decide) range64 hb hfin hnz
  rw [hread] at hread'
  injection hread' with h1
  injection h1 with _ h2
  injection h2 with hm hd2
  subst hm; subst hd2
  exact ⟨m, d, hd, hread, hV, hzone, hnb⟩

/-- **binary32, `%.9g`**: `2^23/10^8 < 0.084` ulp; `ε = 1/64` -/
theorem margin9 (b : Nat) (hb : b < 2 ^ 32) (hfin : (b / 2 ^ 23) % 2 ^ 8 ≠ 2 ^ 8 - 1)
    (hnz : (b / 2 ^ 23) % 2 ^ 8 ≠ 0 ∨ b % 2 ^ 23 ≠ 0) :
    ∃ m d : Nat, 0 < d ∧
      FmtSpec.readDecimal (FmtSpec.format32 b 9 .default) = some (decide ((b / 2 ^ 31) % 2 = 1), m, d) ∧
      |(m : ℚ) / d - magQ 23 8 b| < (2 : ℚ) ^ 23 / 10 ^ 8 * ulpQ 23 8 b ∧
      (∀ y : ℚ, |y - (m : ℚ) / d| ≤ 1 / 64 * ulpQ 23 8 b →
        magQ 23 8 b - ulpQ 23 8 b / 2 < y ∧ y < magQ 23 8 b + ulpQ 23 8 b / 2 ∧
        (sigField 23 8 b = 2 ^ 23 → magQ 23 8 b - ulpQ 23 8 b / 4 < y)) ∧
      (∀ rn rd : Nat, 0 < rd → |(rn : ℚ) / rd - (m : ℚ) / d| ≤ 1 / 64 * ulpQ 23 8 b →
        FmtSpec.nearestBits 23 8 (decide ((b / 2 ^ 31) % 2 = 1)) rn rd = b) := by
  obtain ⟨m, d, hd, hread, hzone, hnb⟩ := margin_format 23 8 9 b (1 / 64) (by decide) (by decide) range32 hb
    (by norm_num) (by norm_num) hfin hnz
  obtain ⟨m', d', hd', hread', hV, _⟩ := text_value_close 23 8 9 b (by decide) (by decide) range32 hb hfin hnz
  rw [hread] at hread'
  injection hread' with h1
  injection h1 with _ h2
  injection h2 with hm hd2
  subst hm; subst hd2
  exact ⟨m, d, hd, hread, hV, hzone, hnb⟩

/-- the zeros: the texts are `0` and `-0`, read as the exact value zero with the sign -/
theorem zero_text17 :
    FmtSpec.readDecimal (FmtSpec.format64 0 17 .default) = some (false, 0, 1) ∧
    FmtSpec.readDecimal (FmtSpec.format64 (2 ^ 63) 17 .default) = some (true, 0, 1) ∧
    FmtSpec.nearestBits 52 11 false 0 1 = 0 ∧ FmtSpec.nearestBits 52 11 true 0 1 = 2 ^ 63 := by
  decide +kernel

theorem zero_text9 :
    FmtSpec.readDecimal (FmtSpec.format32 0 9 .default) = some (false, 0, 1) ∧
    FmtSpec.readDecimal (FmtSpec.format32 (2 ^ 31) 9 .default) = some (true, 0, 1) ∧
    FmtSpec.nearestBits 23 8 false 0 1 = 0 ∧ FmtSpec.nearestBits 23 8 true 0 1 = 2 ^ 31 := by
  decide +kernel

/-- `nearestBits` of zero is the signed zero, whatever the denominator -/
theorem nearestBits_zero (mb eb : Nat) (neg : Bool) (rd : Nat) :
    FmtSpec.nearestBits mb eb neg 0 rd = (if neg then 2 ^ (mb + eb) else 0) := by
  unfold FmtSpec.nearestBits; simp

end Qentem.Proofs.Ident
