import Qentem.Proofs.TmplGenRenderBase
import Qentem.Proofs.TmplIifParse
/-!
# C02 stage 8 — rendering a printed inline `{if}`
-/
set_option linter.unusedSectionVars false
set_option linter.unusedVariables false
set_option linter.unnecessarySimpa false
namespace Qentem.Tmpl
open Qentem.Expr (Fault rd ScanCfg VarRef Item Num Val Env RealLike)
open Qentem.Generated.Tmpl

variable {R : Type}

section
variable [RealLike R]

/-- the three-valued decision of a quoted case text scanned in place = the reference `isTrue (evalText e)` -/
theorem case_val_env (cx : RCtx R) (cfg : ScanCfg R) (hg : cx.guardIndexRead = true)
    (hrn : cfg.readNum = cx.readNum) (st : RState)
    (A0 e post : List Nat) (hc : cx.content = (A0 ++ [34]) ++ (e ++ [34]) ++ post) (E : List EnvE)
    (hD : ChainD cx.content (dOf E)) (hit : ItemsOk st.items E) (hlen : e.length < 65536)
    (hvo : varsOkV cx.readNum (vsOf E) e 34) :
    ∃ v, evalExprs cx st (itemsAtC cfg cx.content (refsD (dOf E)) (A0.length + 1) (A0.length + 1 + e.length)) = .ok v ∧
      truth v = isTrue (evalText (specOf cx) (scOf E) e 34) := by
  obtain ⟨items0, hitems0⟩ := Qentem.Expr.parseTop_total ({ readNum := cfg.readNum } : ScanCfg R) (e ++ [34]) 0 e.length (by simp)
  obtain ⟨items', hex, hrel⟩ := exprs_quoted_env cfg cx.content A0 e post hc (dOf E) hD hlen items0 hitems0
  have hreloc := reloc_quoted cx.content A0 e post hc
  have hitems : itemsAtC cfg cx.content (refsD (dOf E)) (A0.length + 1) (A0.length + 1 + e.length) = items' := by
    simp only [itemsAtC, hex]
  rw [hitems]
  rw [hrn] at hitems0
  have hspec := evalText_eqS cx (scOf E) e 34 items0 hitems0
  have hemp := hrel.isEmpty
  cases hi : items'.isEmpty with
  | true =>
    rw [hi] at hemp
    refine ⟨none, by simp [evalExprs, hi], ?_⟩
    simp only [hspec, hemp, if_true]
    rfl
  | false =>
    rw [hi] at hemp
    simp only [hemp, Bool.false_eq_true, if_false] at hspec
    have hre : ∀ lk, Qentem.Expr.RelEnv (specEnvS cx (scOf E) e 34)
        ({ content := cx.content, lookup := lk, readNum := cx.readNum } : Env R) (A0.length + 1) :=
      fun lk => ⟨rfl, hreloc.slice⟩
    have hl : (specEnvS cx (scOf E) e 34).content.length = e.length + 1 := by simp [specEnvS]
    have hev := evalExprs_env cx hg st E hit (specEnvS cx (scOf E) e 34) (A0.length + 1) items0 items' hre (fun _ => rfl)
      (by rw [hl]; exact hrel) (hvo items0 hitems0)
      (by rw [hl, hc]; simp only [List.length_append, List.length_cons, List.length_nil]; omega) hi
    refine ⟨Qentem.Expr.evaluateTop (specEnvS cx (scOf E) e 34) true items0, hev.1, ?_⟩
    rw [hspec]
    cases hv : Qentem.Expr.evaluateTop (specEnvS cx (scOf E) e 34) true items0 with
    | none => rfl
    | some v => cases v <;> rfl

/-- rendering the tags of a run of segments up to its end, under the enclosing loops -/
theorem render_segs_end_env (cx : RCtx R) (cfg : ScanCfg R) (hg : cx.guardIndexRead = true)
    (hrn : cfg.readNum = cx.readNum) (post : List Nat) (E : List EnvE) (hD : ChainD cx.content (dOf E))
    (segs : List Seg) (B txt : List Nat) (st : RState)
    (fuel : Nat) (hc : cx.content = B ++ (txt ++ (printSegs segs ++ post))) (hok : ∀ s ∈ segs, s.pathV cfg.readNum (vsOf E))
    (hpl : ∀ s ∈ segs, s.ok) (hf : 1 ≤ fuel) (hit : ItemsOk st.items E) :
    render cx (fuel + nTags segs) (tagsOfD cfg cx.content (dOf E) (B ++ txt).length segs) B.length
      ((B ++ txt).length + (printSegs segs).length) st = .ok (emit st (txt ++ expSegsB cx (scOf E) segs)) := by
  obtain ⟨B2, txt2, st2, h1, h2, h3, h4, h5⟩ := render_segs_more_env cx cfg hg hrn [] ((B ++ txt).length + (printSegs segs).length)
    post E hD segs B txt st fuel hc hok hpl hf hit
  rw [List.append_nil] at h5
  rw [h5]
  cases fuel with
  | zero => omega
  | succ f =>
    have hsl : slice cx.content B2.length ((B ++ txt).length + (printSegs segs).length) = .ok txt2 := by
      rw [← h2, h1]; exact slice_from B2 txt2 post
    simp only [render, hsl, bind, Except.bind]
    congr 1
    apply RState.ext'
    · simp only [emit]; exact h3
    · simp only [emit]; exact h4


/-- what the document says a value of an inline-if prints -/
def expVal (cx : RCtx R) (sc : List Binding) (v : Option (List Seg)) : List Nat :=
  match v with
  | some l => expSegsB cx sc l
  | none => []

/-- what the document says an inline-if prints -/
def expIif (cx : RCtx R) (sc : List Binding) (e : List Nat) (ts fs : Option (List Seg)) : List Nat :=
  match isTrue (evalText (specOf cx) sc e 34) with
  | none => []
  | some true => expVal cx sc ts
  | some false => expVal cx sc fs

/-- path conditions of a value -/
def ValPath (rn : List Nat → Option (Num R)) (Vs : List (List Nat)) (v : Option (List Seg)) : Prop :=
  ∀ l, v = some l → ∀ s ∈ l, s.pathV rn Vs

/-- rendering the sub tags of one value between its quotes -/
theorem render_val (cx : RCtx R) (cfg : ScanCfg R) (hg : cx.guardIndexRead = true) (hrn : cfg.readNum = cx.readNum)
    (E : List EnvE) (hD : ChainD cx.content (dOf E)) (l : List Seg) (Bv postv : List Nat)
    (hc : cx.content = Bv ++ (printSegs l ++ postv)) (hok : ∀ s ∈ l, s.ok) (hp : ∀ s ∈ l, s.pathV cfg.readNum (vsOf E))
    (st : RState) (hit : ItemsOk st.items E) (g : Nat) (hg1 : nTags l + 1 ≤ g) :
    render cx g (tagsOfD cfg cx.content (dOf E) Bv.length l) Bv.length (Bv.length + (printSegs l).length) st =
      .ok (emit st (expSegsB cx (scOf E) l)) := by
  have := render_segs_end_env cx cfg hg hrn postv E hD l Bv [] st (g - nTags l) (by simpa using hc) hp hok (by omega) hit
  simp only [List.append_nil, List.nil_append] at this
  rw [show g - nTags l + nTags l = g by omega] at this
  exact this


theorem nTags_ge_len (cfg : ScanCfg R) (c : List Nat) (D : List LoopD) : ∀ (l : List Seg) (p : Nat),
    (tagsOfD cfg c D p l : List (Tag R)).length = nTags l := by
  intro l
  induction l with
  | nil => intro p; rfl
  | cons s r ih => intro p; cases s <;> simp [tagsOfD, nTags, ih]

theorem trunc32_id (n : Nat) (h : n < 4294967296) :
    trunc bits_InLineIfTag_FalseTagsStartID n = n ∧ trunc bits_InLineIfTag_TrueTagsStartID n = n := by
  simp only [trunc, show bits_InLineIfTag_FalseTagsStartID = 32 by decide, show bits_InLineIfTag_TrueTagsStartID = 32 by decide]
  exact ⟨Nat.mod_eq_of_lt (by omega), Nat.mod_eq_of_lt (by omega)⟩

theorem iifTag_F (cfg : ScanCfg R) (c : List Nat) (D : List LoopD) (p : Nat) (e : List Nat) (lf : List Seg) :
    iifTag cfg c D p e none (some lf) =
      .iif (itemsAtC cfg c (refsD D) (p + 10) (p + 10 + e.length)) (tagsOfD cfg c D (p + 11 + e.length + 8) lf)
        { off := p, len := 12 + e.length + (9 + (printSegs lf).length), falseOff := 19 + e.length,
          falseLen := (printSegs lf).length } := by
  have h : p + 11 + e.length + 8 - p = 19 + e.length := by omega
  simp only [iifTag, iifFinal, iifF2, attrFields, iifId, tagsVal, tLen, fLen, List.nil_append, Nat.add_zero, h,
    show (0 : Nat) < 19 + e.length by omega, if_true, List.length_nil, (trunc32_id 0 (by omega)).1]

theorem iifTag_T (cfg : ScanCfg R) (c : List Nat) (D : List LoopD) (p : Nat) (e : List Nat) (lt : List Seg) :
    iifTag cfg c D p e (some lt) none =
      .iif (itemsAtC cfg c (refsD D) (p + 10) (p + 10 + e.length)) (tagsOfD cfg c D (p + 11 + e.length + 7) lt)
        { off := p, len := 12 + e.length + (8 + (printSegs lt).length), trueOff := 18 + e.length,
          trueLen := (printSegs lt).length } := by
  have h : p + 11 + e.length + 7 - p = 18 + e.length := by omega
  simp only [iifTag, iifFinal, iifF2, attrFields, iifId, tagsVal, tLen, fLen, List.append_nil, Nat.add_zero, h,
    show ¬ (18 + e.length < 0) by omega, if_false, (trunc32_id 0 (by omega)).2]

theorem iifTag_TT (cfg : ScanCfg R) (c : List Nat) (D : List LoopD) (p : Nat) (e : List Nat) (lt lf : List Seg)
    (hsz : nTags lt < 4294967296) :
    iifTag cfg c D p e (some lt) (some lf) =
      .iif (itemsAtC cfg c (refsD D) (p + 10) (p + 10 + e.length))
        (tagsOfD cfg c D (p + 11 + e.length + 7) lt ++ tagsOfD cfg c D (p + 11 + e.length + (8 + (printSegs lt).length) + 8) lf)
        { off := p, len := 12 + e.length + (8 + (printSegs lt).length) + (9 + (printSegs lf).length),
          trueOff := 18 + e.length, trueLen := (printSegs lt).length,
          falseOff := 27 + e.length + (printSegs lt).length, falseLen := (printSegs lf).length,
          falseStart := nTags lt } := by
  have h : p + 11 + e.length + 7 - p = 18 + e.length := by omega
  have h2 : p + 11 + e.length + (8 + (printSegs lt).length) + 8 - p = 27 + e.length + (printSegs lt).length := by omega
  simp only [iifTag, iifFinal, iifF2, attrFields, iifId, tagsVal, tLen, fLen, h, h2,
    show 18 + e.length < 27 + e.length + (printSegs lt).length by omega, if_true, nTags_ge_len,
    (trunc32_id (nTags lt) hsz).1]

/-- rendering the `InLineIf` tag of a printed inline-if -/
theorem renderIif_env (cx : RCtx R) (cfg : ScanCfg R) (hg : cx.guardIndexRead = true) (hrn : cfg.readNum = cx.readNum)
    (E : List EnvE) (hD : ChainD cx.content (dOf E)) (B txt e post : List Nat) (ts fs : Option (List Seg))
    (hc : cx.content = B ++ (txt ++ (printIif e ts fs ++ post)))
    (he16 : e.length < 65536) (hvo : varsOkV cfg.readNum (vsOf E) e 34)
    (hts : ValOk ts) (hfs : ValOk fs) (hpt : ValPath cfg.readNum (vsOf E) ts) (hpf : ValPath cfg.readNum (vsOf E) fs)
    (hone : ts ≠ none ∨ fs ≠ none) (hsz : (printIif e ts fs).length < 65536)
    (st : RState) (hit : ItemsOk st.items E) (fuel : Nat) (hf : nTagsVal ts + nTagsVal fs + 3 ≤ fuel) :
    renderTag cx fuel (iifTag cfg cx.content (dOf E) (B ++ txt).length e ts fs) B.length st =
      .ok (emit (emit st txt) (expIif cx (scOf E) e ts fs), (B ++ txt).length + (printIif e ts fs).length) := by
  obtain ⟨g, rfl⟩ : ∃ g, fuel = g + 1 := ⟨fuel - 1, by omega⟩
  have hlen := printIif_len e ts fs
  have hsl : slice cx.content B.length (B ++ txt).length = .ok txt := by rw [hc]; exact slice_from B txt _
  have hcq : cx.content = ((B ++ txt ++ [123, 105, 102, 32, 99, 97, 115, 101, 61]) ++ [34]) ++ (e ++ [34]) ++
      (attrText ts fs ++ [125] ++ post) := by
    rw [hc]; simp [printIif, IIF1, List.append_assoc]
  have hA : (B ++ txt ++ [123, 105, 102, 32, 99, 97, 115, 101, 61]).length + 1 = (B ++ txt).length + 10 := by
    simp only [List.length_append, List.length_cons, List.length_nil]
  have hite : ItemsOk (emit st txt).items E := by simpa [emit] using hit
  obtain ⟨v, hv, hvt⟩ := case_val_env cx cfg hg hrn (emit st txt) _ e _ hcq E hD hite he16 (hrn ▸ hvo)
  rw [hA] at hv
  have hple : (B ++ txt).length ≤ cx.content.length := by rw [hc]; simp
  have hslp : slice cx.content (B ++ txt).length (B ++ txt).length = .ok [] := by
    simp only [slice, Nat.le_refl, hple, and_self, if_true, Nat.sub_self, List.take_zero]
  have h32 : ∀ n, n < 65536 → trunc bits_InLineIfTag_FalseTagsStartID n = n ∧ trunc bits_InLineIfTag_TrueTagsStartID n = n := by
    intro n hn
    simp only [trunc, show bits_InLineIfTag_FalseTagsStartID = 32 by decide, show bits_InLineIfTag_TrueTagsStartID = 32 by decide]
    exact ⟨Nat.mod_eq_of_lt (by omega), Nat.mod_eq_of_lt (by omega)⟩
  -- where the two values stand
  have hcT : ∀ lt, ts = some lt → cx.content = (B ++ txt ++ IIF1 ++ e ++ [34] ++ TRUEA) ++ (printSegs lt ++
      ([34] ++ ((match fs with | some l => FALSEA ++ (printSegs l ++ [34]) | none => []) ++ [125] ++ post))) := by
    intro lt h; subst h; rw [hc]; cases fs <;> simp [printIif, attrText, List.append_assoc]
  have hlT : (B ++ txt ++ IIF1 ++ e ++ [34] ++ TRUEA).length = (B ++ txt).length + 11 + e.length + 7 := by
    simp [IIF1, TRUEA]; omega
  have hcF : ∀ lf, fs = some lf → cx.content = (B ++ txt ++ IIF1 ++ e ++ [34] ++
      (match ts with | some l => TRUEA ++ (printSegs l ++ [34]) | none => []) ++ FALSEA) ++ (printSegs lf ++ ([34] ++ ([125] ++ post))) := by
    intro lf h; subst h; rw [hc]; cases ts <;> simp [printIif, attrText, List.append_assoc]
  have hlF : (B ++ txt ++ IIF1 ++ e ++ [34] ++ (match ts with | some l => TRUEA ++ (printSegs l ++ [34]) | none => []) ++ FALSEA).length =
      (B ++ txt).length + 11 + e.length + tLen ts + 8 := by
    cases ts <;> simp [IIF1, TRUEA, FALSEA, tLen] <;> omega
  have hrT : ∀ lt, ts = some lt → ∀ s1 : RState, ItemsOk s1.items E → ∀ k, nTags lt + 1 ≤ k →
      render cx k (tagsOfD cfg cx.content (dOf E) ((B ++ txt).length + 11 + e.length + 7) lt)
        ((B ++ txt).length + 11 + e.length + 7) ((B ++ txt).length + 11 + e.length + 7 + (printSegs lt).length) s1 =
        .ok (emit s1 (expSegsB cx (scOf E) lt)) := by
    intro lt h s1 hi k hk
    have := render_val cx cfg hg hrn E hD lt _ _ (hcT lt h) (hts lt h).1 (hpt lt h) s1 hi k hk
    rw [hlT] at this; exact this
  have hrF : ∀ lf, fs = some lf → ∀ s1 : RState, ItemsOk s1.items E → ∀ k, nTags lf + 1 ≤ k →
      render cx k (tagsOfD cfg cx.content (dOf E) ((B ++ txt).length + 11 + e.length + tLen ts + 8) lf)
        ((B ++ txt).length + 11 + e.length + tLen ts + 8) ((B ++ txt).length + 11 + e.length + tLen ts + 8 + (printSegs lf).length) s1 =
        .ok (emit s1 (expSegsB cx (scOf E) lf)) := by
    intro lf h s1 hi k hk
    have := render_val cx cfg hg hrn E hD lf _ _ (hcF lf h) (hfs lf h).1 (hpf lf h) s1 hi k hk
    rw [hlF] at this; exact this
  have hempty : ∀ s1 : RState, ∀ k, 1 ≤ k → render cx k ([] : List (Tag R)) (B ++ txt).length (B ++ txt).length s1 = .ok (emit s1 []) := by
    intro s1 k hk
    obtain ⟨k', rfl⟩ : ∃ k', k = k' + 1 := ⟨k - 1, by omega⟩
    simp only [render, hslp, bind, Except.bind]
  simp only [expIif, ← hvt]
  cases ts with
  | none =>
    cases fs with
    | none => rcases hone with h | h <;> exact absurd rfl h
    | some lf =>
      have hnt := nTags_le lf
      simp only [nTagsVal] at hf
      simp only [tLen, Nat.add_zero] at hrF
      rw [iifTag_F]
      simp only [renderTag, hsl, bind, Except.bind, hv, hlen, tLen, fLen, Nat.add_zero]
      cases htv : truth v with
      | none => simp [emit_nil]
      | some pos =>
        cases pos with
        | true =>
          simp only [if_true, show (0 : Nat) < 19 + e.length by omega, takeChk, Nat.zero_le, List.take_zero, Nat.add_zero,
            hempty _ g (by omega), expVal, emit_nil]
        | false =>
          simp only [Bool.false_eq_true, if_false, show ¬ (19 + e.length < 0) by omega, dropChk, Nat.zero_le, if_true,
            List.drop_zero]
          rw [show (B ++ txt).length + (19 + e.length) = (B ++ txt).length + 11 + e.length + 8 by omega,
            hrF lf rfl (emit st txt) hite g (by omega)]
          simp [expVal]
  | some lt =>
    have hnt := nTags_le lt
    cases fs with
    | none =>
      simp only [nTagsVal] at hf
      rw [iifTag_T]
      simp only [renderTag, hsl, bind, Except.bind, hv, hlen, tLen, fLen, Nat.add_zero]
      cases htv : truth v with
      | none => simp [emit_nil]
      | some pos =>
        cases pos with
        | true =>
          simp only [if_true, show ¬ (18 + e.length < 0) by omega, if_false, dropChk, Nat.zero_le, List.drop_zero]
          rw [show (B ++ txt).length + (18 + e.length) = (B ++ txt).length + 11 + e.length + 7 by omega,
            hrT lt rfl (emit st txt) hite g (by omega)]
          simp [expVal]
        | false =>
          simp only [Bool.false_eq_true, if_false, show (0 : Nat) < 18 + e.length by omega, if_true, takeChk, Nat.zero_le,
            List.take_zero, Nat.add_zero, hempty _ g (by omega), expVal, emit_nil]
    | some lf =>
      have hnf := nTags_le lf
      simp only [nTagsVal] at hf
      have hszl : (printSegs lt).length < 65536 := by rw [hlen] at hsz; simp only [tLen] at hsz; omega
      simp only [tLen] at hrF
      rw [iifTag_TT _ _ _ _ _ _ _ (by omega)]
      have htk : takeChk (tagsOfD cfg cx.content (dOf E) ((B ++ txt).length + 11 + e.length + 7) lt ++
          tagsOfD cfg cx.content (dOf E) ((B ++ txt).length + 11 + e.length + (8 + (printSegs lt).length) + 8) lf) (nTags lt) =
          .ok (tagsOfD cfg cx.content (dOf E) ((B ++ txt).length + 11 + e.length + 7) lt) := by
        simp only [takeChk, List.length_append, nTags_ge_len, Nat.le_add_right, if_true,
          List.take_left' (nTags_ge_len cfg cx.content (dOf E) lt _)]
      have hdk : dropChk (tagsOfD cfg cx.content (dOf E) ((B ++ txt).length + 11 + e.length + 7) lt ++
          tagsOfD cfg cx.content (dOf E) ((B ++ txt).length + 11 + e.length + (8 + (printSegs lt).length) + 8) lf) (nTags lt) =
          .ok (tagsOfD cfg cx.content (dOf E) ((B ++ txt).length + 11 + e.length + (8 + (printSegs lt).length) + 8) lf) := by
        simp only [dropChk, List.length_append, nTags_ge_len, Nat.le_add_right, if_true,
          List.drop_left' (nTags_ge_len cfg cx.content (dOf E) lt _)]
      simp only [renderTag, hsl, bind, Except.bind, hv, hlen, tLen, fLen]
      cases htv : truth v with
      | none => simp [emit_nil]
      | some pos =>
        cases pos with
        | true =>
          simp only [if_true, show 18 + e.length < 27 + e.length + (printSegs lt).length by omega, htk]
          rw [show (B ++ txt).length + (18 + e.length) = (B ++ txt).length + 11 + e.length + 7 by omega,
            hrT lt rfl (emit st txt) hite g (by omega)]
          simp [expVal]
        | false =>
          simp only [Bool.false_eq_true, if_false, show ¬ (27 + e.length + (printSegs lt).length < 18 + e.length) by omega,
            hdk]
          rw [show (B ++ txt).length + (27 + e.length + (printSegs lt).length) =
            (B ++ txt).length + 11 + e.length + (8 + (printSegs lt).length) + 8 by omega,
            hrF lf rfl (emit st txt) hite g (by omega)]
          simp [expVal]


end

end Qentem.Tmpl
