import Qentem.Proofs.BigIntShr
/-! Copy / move assignment between two objects of the same instantiation. -/
namespace Qentem.BigInt

theorem copyLoop_spec (src : List Nat) (sidx : Nat) (hs : sidx < src.length) : ∀ (fuel : Nat) (ws : List Nat) (index : Nat),
    ws.length = src.length → index ≤ sidx + 1 → sidx + 1 - index < fuel →
    ∃ ws', copyLoop src sidx fuel ws index = .ok (ws', sidx + 1) ∧ ws'.length = src.length ∧
      (∀ k, index ≤ k → k ≤ sidx → ws'.getD k 0 = src.getD k 0) ∧
      (∀ k, (k < index ∨ sidx < k) → ws'.getD k 0 = ws.getD k 0)
  | 0, _, _, _, _, hf => by omega
  | fuel + 1, ws, index, hl, hi, hf => by
    unfold copyLoop
    by_cases hle : index ≤ sidx
    · rw [if_pos hle, rd_ok (by omega : index < src.length)]
      simp only [bind, Except.bind]
      rw [wr_ok _ (by omega : index < ws.length)]
      simp only []
      obtain ⟨ws', hrun, hl', h1, h2⟩ := copyLoop_spec src sidx hs fuel (ws.set index src[index]) (index + 1)
        (by simpa using hl) (by omega) (by omega)
      refine ⟨ws', hrun, hl', ?_, ?_⟩
      · intro k hk1 hk2
        by_cases hk : k = index
        · subst hk
          rw [h2 k (Or.inl (by omega)), getD_set_eq (by omega), getD_eq_getElem (by omega)]
        · exact h1 k (by omega) hk2
      · intro k hk
        rw [h2 k (by omega)]; exact getD_set_ne (by omega)
    · rw [if_neg hle]
      have : index = sidx + 1 := by omega
      subst this
      exact ⟨ws, rfl, hl, fun k h1 h2 => by omega, fun _ _ => rfl⟩

theorem zeroAbove_spec (index : Nat) (hidx : 0 < index) : ∀ (i : Nat) (ws : List Nat), i < ws.length →
    ∃ ws', zeroAbove index ws i = .ok ws' ∧ ws'.length = ws.length ∧
      (∀ k, index ≤ k → k ≤ i → ws'.getD k 0 = 0) ∧ (∀ k, (k < index ∨ i < k) → ws'.getD k 0 = ws.getD k 0)
  | 0, ws, _ => ⟨ws, rfl, rfl, fun k h1 h2 => by omega, fun _ _ => rfl⟩
  | i + 1, ws, hi => by
    unfold zeroAbove
    by_cases hge : i + 1 ≥ index
    · rw [if_pos hge, wr_ok _ hi]
      simp only [bind, Except.bind]
      obtain ⟨ws', hrun, hl, hz, hfr⟩ := zeroAbove_spec index hidx i (ws.set (i + 1) 0) (by simp; omega)
      refine ⟨ws', hrun, by simpa using hl, ?_, ?_⟩
      · intro k h1 h2
        by_cases hk : k = i + 1
        · subst hk; rw [hfr (i + 1) (Or.inr (by omega)), getD_set_eq hi]
        · exact hz k h1 (by omega)
      · intro k hk
        rw [hfr k (by omega)]; exact getD_set_ne (by omega)
    · rw [if_neg hge]
      exact ⟨ws, rfl, rfl, fun k h1 h2 => by omega, fun _ _ => rfl⟩

/-- `dst = src` (copy assignment, as repaired): the target becomes a canonical holder of the source's
value, whatever it held before. -/
theorem copy_spec {W : Nat} (dst src : Big) (hd : Inv W dst) (hs : Inv W src)
    (hl : dst.words.length = src.words.length) :
    ∃ d', copy dst src = .ok d' ∧ Inv W d' ∧ d'.words.length = dst.words.length ∧ d'.val W = src.val W := by
  obtain ⟨ws1, hrun1, hl1, ha1, hb1⟩ := copyLoop_spec src.words src.idx hs.idx_lt (src.idx + 2) dst.words 0 hl
    (by omega) (by omega)
  obtain ⟨ws2, hrun2, hl2, hz2, hfr2⟩ := zeroAbove_spec (src.idx + 1) (by omega) dst.idx ws1 (by have := hd.idx_lt; omega)
  have hall : ∀ k, ws2.getD k 0 = src.words.getD k 0 := by
    intro k
    by_cases hk : k ≤ src.idx
    · rw [hfr2 k (Or.inl (by omega))]; exact ha1 k (Nat.zero_le _) hk
    · rw [hs.above k (by omega)]
      by_cases hk2 : k ≤ dst.idx
      · exact hz2 k (by omega) hk2
      · rw [hfr2 k (Or.inr (by omega)), hb1 k (Or.inr (by omega))]; exact hd.above k (by omega)
  have hbd : Bounded W ws2 := bounded_of_getD (fun k _ => by rw [hall k]; exact hs.bound.getD k)
  refine ⟨⟨ws2, src.idx⟩, ?_, ⟨⟨hs.wpos, hbd, by have := hs.idx_lt; simp; omega, ?_⟩, ?_⟩, by simp; omega, ?_⟩
  · unfold copy
    rw [hrun1]
    simp only [bind, Except.bind]
    rw [hrun2]; rfl
  · intro k hk
    show ws2.getD k 0 = 0
    rw [hall k]; exact hs.above k hk
  · intro hne
    show ws2.getD src.idx 0 ≠ 0
    rw [hall]; exact hs.top hne
  · exact valW_congr_getD W _ _ hall

end Qentem.BigInt
