import Qentem.Proofs.TmplFinderExact
import Qentem.Proofs.ExprReloc
import Qentem.Proofs.ExprScanTotal
import Qentem.Model.Tmpl.Spec
/-!
# C02 stage 2 — templates made of text, `{var:…}` and `{raw:…}`: what `parse` returns

`Seg` is that fragment of `Tpl`; `tagsOf` is the tag list the document implies (one Variable /
RawVariable tag per segment, at the offsets where the printer put them).  `parse_segs`:
`parse (printSegs segs) = ok (tagsOf 0 segs)` when texts and paths contain none of `{ < }`, paths
have 1..255 units and the content is below the 32-bit size limit.
-/
set_option linter.unusedSectionVars false
namespace Qentem.Tmpl
open Qentem.Expr (Fault rd ScanCfg VarRef Item Num)
open Qentem.Generated.Tmpl

inductive Seg where
  | text (s : List Nat)
  | var (path : List Nat)
  | raw (path : List Nat)
  | math (e : List Nat)

def Seg.toTpl : Seg → Tpl
  | .text s => .text s | .var p => .var p | .raw p => .raw p | .math e => .math e

def segsTpl : List Seg → List Tpl
  | [] => []
  | s :: r => s.toTpl :: segsTpl r

def printSeg : Seg → List Nat
  | .text s => s
  | .var p => [123, 118, 97, 114, 58] ++ p ++ [125]
  | .raw p => [123, 114, 97, 119, 58] ++ p ++ [125]
  | .math e => [123, 109, 97, 116, 104, 58] ++ e ++ [125]

def printSegs : List Seg → List Nat
  | [] => []
  | s :: r => printSeg s ++ printSegs r

theorem printSegs_eq (segs : List Seg) : printList (segsTpl segs) = printSegs segs := by
  induction segs with
  | nil => rfl
  | cons s r ih =>
    cases s <;> simp [segsTpl, Seg.toTpl, printList, printTpl, printSegs, printSeg, ih, str] <;> rfl

def plainL (l : List Nat) : Prop := ∀ x ∈ l, plainU x

/-- the text of a `{math:}` expression as the finder sees it: plain stretches and `{var:path}`
operands -/
def printMP : List (List Nat × List Nat) → List Nat
  | [] => []
  | (t, p) :: r => t ++ ([123, 118, 97, 114, 58] ++ p ++ [125]) ++ printMP r

/-- expression texts of `{math:}`: any text whose only `{ < }` are those of `{var:path}` operands -/
def MathOk (e : List Nat) : Prop :=
  ∃ (parts : List (List Nat × List Nat)) (last : List Nat), e = printMP parts ++ last ∧ plainL last ∧
    ∀ tp ∈ parts, plainL tp.1 ∧ plainL tp.2

theorem MathOk.of_plain (e : List Nat) (h : plainL e) : MathOk e :=
  ⟨[], e, by simp [printMP], h, by intro tp htp; cases htp⟩

def Seg.ok : Seg → Prop
  | .text s => plainL s
  | .var p => plainL p ∧ 0 < p.length ∧ p.length ≤ 255
  | .raw p => plainL p ∧ 0 < p.length ∧ p.length ≤ 255
  | .math e => MathOk e

variable {R : Type}

/-- the expression list `parse` stores for the text `[a, b)` of the content (top level) -/
def itemsAt (cfg : ScanCfg R) (c : List Nat) (a b : Nat) : List (Item R) :=
  match exprs cfg c [] a b with
  | .ok l => l
  | .error _ => []

def tagsOf (cfg : ScanCfg R) (c : List Nat) (p : Nat) : List Seg → List (Tag R)
  | [] => []
  | .text s :: r => tagsOf cfg c (p + s.length) r
  | .var pa :: r => .var ⟨p + 5, pa.length, 0, 0⟩ :: tagsOf cfg c (p + 5 + pa.length + 1) r
  | .raw pa :: r => .raw ⟨p + 5, pa.length, 0, 0⟩ :: tagsOf cfg c (p + 5 + pa.length + 1) r
  | .math e :: r =>
    .math (itemsAt cfg c (p + 6) (p + 6 + e.length)) p (p + 6 + e.length + 1) ::
      tagsOf cfg c (p + 6 + e.length + 1) r

/-- the scanner returns a list on the expression text alone — always true (`scanOk_all`, from
`parseTop_total`); kept as a named fact because the relocation lemmas start from it -/
def Seg.scanOk (rn : List Nat → Option (Num R)) : Seg → Prop
  | .math e => ∃ items : List (Item R),
      Qentem.Expr.parseTop ({ readNum := rn } : ScanCfg R) (e ++ [125]) 0 e.length = .ok items
  | _ => True

theorem Seg.scanOk_all (rn : List Nat → Option (Num R)) (s : Seg) : s.scanOk rn := by
  cases s with
  | math e => exact Qentem.Expr.parseTop_total _ (e ++ [125]) 0 e.length (by simp)
  | _ => trivial

theorem get_mid (pre mid post : List Nat) (i : Nat) (h : i < mid.length) :
    (pre ++ (mid ++ post))[pre.length + i]? = mid[i]? := by
  rw [List.getElem?_append_right (by omega)]
  simp [List.getElem?_append_left h]

theorem plain_at (pre mid post : List Nat) (hm : plainL mid) (i : Nat) (h : i < mid.length) :
    ∃ x, (pre ++ (mid ++ post))[pre.length + i]? = some x ∧ plainU x := by
  refine ⟨mid[i], ?_, hm _ (List.getElem_mem h)⟩
  rw [get_mid pre mid post i h]
  exact List.getElem?_eq_getElem h

/-- the finder state `parse` is in when the next thing to look at starts at `p` -/
def stAt (stk : List (Frame R)) (acc : List (Tag R)) (o m : Nat) : PState R :=
  { storage := acc, stack := stk, loopChain := [], isChild := false, off := o, mtch := m }

theorem finderNext_stAt (c : List Nat) (stk : List (Frame R)) (acc : List (Tag R)) (o m o' m' : Nat)
    (h : next c o = .ok (o', m')) : finderNext c (stAt stk acc o m) = .ok (stAt stk acc o' m') := by
  simp [finderNext, stAt, h, bind, Except.bind]

/-- one `{var:path}` / `{raw:path}` at `p`, handled by `stepVar` -/
theorem stepVar_seg (c : List Nat) (hn : c.length + 16 < 4294967296) (raw : Bool)
    (pre pa post : List Nat) (w : List Nat) (hw : w.length = 5)
    (hc : c = pre ++ ((w ++ pa ++ [125]) ++ post))
    (hp : plainL pa) (h0 : 0 < pa.length) (h255 : pa.length ≤ 255)
    (stk : List (Frame R)) (acc : List (Tag R)) (m o' m' : Nat)
    (hnext : next c (pre.length + 5 + pa.length + 1) = .ok (o', m')) :
    stepVar c (stAt stk acc (pre.length + 5) m) raw =
      .ok (stAt stk (acc ++ [if raw then Tag.raw ⟨pre.length + 5, pa.length, 0, 0⟩
                          else Tag.var ⟨pre.length + 5, pa.length, 0, 0⟩]) o' m') := by
  -- the finder from the offset after the opener: skips the path, reports the `}`
  have hskip : next c (pre.length + 5) = next c (pre.length + 5 + pa.length) := by
    apply next_skip c pa.length (pre.length + 5)
    · rw [hc]; simp; omega
    · intro i hi
      have := plain_at (pre ++ w) pa ([125] ++ post) hp i hi
      simpa [hc, List.append_assoc, hw, Nat.add_assoc] using this
  have hclose : next c (pre.length + 5 + pa.length) = .ok (pre.length + 5 + pa.length + 1, 1) := by
    apply next_at_close
    have := get_mid (pre ++ w ++ pa) [125] post 0 (by simp)
    simpa [hc, List.append_assoc, hw, Nat.add_assoc] using this
  have h1 : finderNext c (stAt stk acc (pre.length + 5) m) =
      .ok (stAt stk acc (pre.length + 5 + pa.length + 1) 1) :=
    finderNext_stAt c stk acc _ m _ _ (by rw [hskip, hclose])
  have hlen : (pre.length + 5 + pa.length + 1 - (pre.length + 5) - W1.inLineSuffixLength) % 256 = pa.length := by
    have : W1.inLineSuffixLength = 1 := by decide
    rw [this]; omega
  have htr : trunc bits_VariableTag_Length pa.length = pa.length := by
    have : bits_VariableTag_Length = 16 := by decide
    simp only [trunc, this]; omega
  simp only [stepVar, h1, bind, Except.bind]
  have hle : (stAt stk acc (pre.length + 5 + pa.length + 1) 1 : PState R).mtch = W1.lineEndID := rfl
  simp only [hle, if_true]
  have hoff : (stAt stk acc (pre.length + 5) m : PState R).off = pre.length + 5 := rfl
  have hoff2 : (stAt stk acc (pre.length + 5 + pa.length + 1) 1 : PState R).off = pre.length + 5 + pa.length + 1 := rfl
  simp only [hoff, hoff2, hlen]
  have hne : pa.length ≠ 0 := by omega
  simp only [ne_eq, hne, not_false_eq_true, if_true, htr]
  simp only [stAt, mkVar, checkLoopVariable, bind, Except.bind, pure, Except.pure]
  cases raw <;> simp [finderNext, hnext, bind, Except.bind, stAt]


theorem isExpression_after_colon (A rest : List Nat) :
    Qentem.Expr.isExpression ((A ++ [58]) ++ rest) (A ++ [58]).length = .ok false := by
  have : (A ++ [58]).length = A.length + 1 := by simp
  rw [this]
  have hrd : rd ((A ++ [58]) ++ rest) A.length = .ok 58 := by
    apply rd_some
    have := get_mid A [58] rest 0 (by simp)
    simpa [List.append_assoc] using this
  have h1 : ¬ ((58 : Nat) = Qentem.Expr.cSpace) := by decide
  have h2 : ¬ ((58 : Nat) = Qentem.Expr.cPClose ∨ (58 : Nat) = Qentem.Expr.cBClose) := by decide
  have h3 : decide (Qentem.Generated.Expr.W1.digitZero ≤ 58 ∧ 58 ≤ Qentem.Generated.Expr.W1.digitNine) = false := by
    decide
  simp only [Qentem.Expr.isExpression, hrd, bind, Except.bind, h1, h2, h3, if_false]

/-- a `{var:…}` operand of an expression text scanned alone and its copy `k` units into the content,
outside every loop -/
def PvTop (k n : Nat) (v v' : VarRef) : Prop := v' = ⟨k + v.off, v.len, 0, 0⟩ ∧ v.off + v.len < n

/-- the relation the relocated scan establishes at top level (no open loop) -/
theorem pvTop_scan (cfg : ScanCfg R) (c : List Nat) (k : Nat) (ct : List Nat) (off en : Nat)
    (h2 : off + 5 < en) (h3 : ct[en]? = some 125) :
    PvTop k ct.length (Qentem.Expr.scanVar ({ readNum := cfg.readNum } : ScanCfg R) off en)
      (Qentem.Expr.scanVar ({ cfg with loopVar := loopVarPure c [] } : ScanCfg R) (k + off) (k + en)) := by
  have hen : en < ct.length := (List.getElem?_eq_some_iff.mp h3).1
  have hm := Nat.mod_le (en - (off + 5)) (2 ^ Qentem.Generated.Expr.variableLengthBits)
  refine ⟨?_, ?_⟩
  · simp only [Qentem.Expr.scanVar, loopVarPure, checkLoopVariable]
    rw [show k + en - (k + off + 5) = en - (off + 5) by omega, show k + off + 5 = k + (off + 5) by omega]
  · simp only [Qentem.Expr.scanVar]; omega

/-- the expression of a `{math:e}` tag scanned in place: the scan of `e` alone, moved -/
theorem exprs_math (cfg : ScanCfg R) (c pre e post : List Nat)
    (hc : c = pre ++ (([123, 109, 97, 116, 104, 58] ++ e ++ [125]) ++ post))
    (items : List (Item R))
    (hs : Qentem.Expr.parseTop ({ readNum := cfg.readNum } : ScanCfg R) (e ++ [125]) 0 e.length = .ok items) :
    ∃ items', exprs cfg c [] (pre.length + 6) (pre.length + 6 + e.length) = .ok items' ∧
      Qentem.Expr.RelItems (PvTop (pre.length + 6) (e.length + 1)) (pre.length + 6) (e.length + 1) items items' := by
  have hc' : c = ((pre ++ [123, 109, 97, 116, 104]) ++ [58]) ++ (e ++ [125]) ++ post := by
    rw [hc]; simp [List.append_assoc]
  have hlen : ((pre ++ [123, 109, 97, 116, 104]) ++ [58]).length = pre.length + 6 := by simp
  have hbefore := isExpression_after_colon (pre ++ [123, 109, 97, 116, 104]) ((e ++ [125]) ++ post)
  rw [← List.append_assoc] at hbefore
  have hrel := Qentem.Expr.Reloc.of_append ((pre ++ [123, 109, 97, 116, 104]) ++ [58]) (e ++ [125]) post hbefore
  rw [← hc', hlen] at hrel
  obtain ⟨items', h1, h2⟩ := Qentem.Expr.parseTop_relocV ({ readNum := cfg.readNum } : ScanCfg R)
    { cfg with loopVar := loopVarPure c [] } rfl hrel (PvTop (pre.length + 6) (e.length + 1))
    (by
      intro off en _ h2 h3
      have := pvTop_scan cfg c (pre.length + 6) (e ++ [125]) off en h2 h3
      simpa using this)
    0 e.length (by simp) items hs
  refine ⟨items', ?_, ?_⟩
  · simpa [exprs] using h1
  · simpa using h2

theorem next_run (c A t rest : List Nat) (hc : c = A ++ (t ++ rest)) (ht : plainL t) :
    next c A.length = next c (A.length + t.length) := by
  apply next_skip c t.length A.length
  · rw [hc]; simp
  · intro i hi
    rw [hc]; exact plain_at A t rest ht i hi

theorem printMP_cons_len (t p : List Nat) (r : List (List Nat × List Nat)) (last : List Nat) :
    (printMP ((t, p) :: r) ++ last).length = t.length + 5 + p.length + 1 + (printMP r ++ last).length := by
  simp [printMP]; omega

/-- the `while (true)` of `case MathID` over the operands of the expression text: every
`{var:path}` is skipped, the `}` after the last stretch ends the tag -/
theorem mathScan_parts (c : List Nat) (hn : c.length + 16 < 4294967296) (stk : List (Frame R))
    (acc : List (Tag R)) (last post : List Nat) (hl : plainL last) :
    ∀ (parts : List (List Nat × List Nat)) (A : List Nat) (fuel o m o' m' : Nat),
      c = A ++ (printMP parts ++ last ++ [125] ++ post) → (∀ tp ∈ parts, plainL tp.1 ∧ plainL tp.2) →
      parts.length + 1 ≤ fuel →
      next c A.length = .ok (o, m) →
      next c (A.length + (printMP parts ++ last).length + 1) = .ok (o', m') →
      mathScan c fuel (stAt stk acc o m : PState R) 0 =
        .ok (stAt stk acc o' m', A.length + (printMP parts ++ last).length + 1) := by
  have hle : W1.lineEndID = 1 := by decide
  have hmi : W1.mathID = 4 := by decide
  intro parts
  induction parts with
  | nil =>
    intro A fuel o m o' m' hc _ hf hnext hfin
    simp only [printMP, List.nil_append] at hc hfin ⊢
    have hc1 : c = A ++ (last ++ ([125] ++ post)) := by rw [hc]; simp [List.append_assoc]
    have hrun := next_run c A last _ hc1 hl
    have hclose : next c (A.length + last.length) = .ok (A.length + last.length + 1, 1) := by
      apply next_at_close
      have := get_mid (A ++ last) [125] post 0 (by simp)
      simpa [hc, List.append_assoc] using this
    rw [hrun, hclose] at hnext
    simp only [Except.ok.injEq, Prod.mk.injEq] at hnext
    obtain ⟨rfl, rfl⟩ := hnext
    obtain ⟨f, rfl⟩ : ∃ f, fuel = f + 1 := ⟨fuel - 1, by omega⟩
    have h2 : finderNext c (stAt stk acc (A.length + last.length + 1) 1) = .ok (stAt stk acc o' m') :=
      finderNext_stAt c stk acc _ 1 _ _ hfin
    have hm : (stAt stk acc (A.length + last.length + 1) 1 : PState R).mtch = 1 := rfl
    simp only [mathScan, hm, hle, ne_eq, not_true_eq_false, and_false, if_false, pure, Except.pure, bind,
      Except.bind, if_true, h2]
    rfl
  | cons tp r ih =>
    obtain ⟨t, p⟩ := tp
    intro A fuel o m o' m' hc hall hf hnext hfin
    have htp := hall (t, p) (List.mem_cons_self ..)
    simp only at htp
    have hallr : ∀ tp ∈ r, plainL tp.1 ∧ plainL tp.2 := fun x hx => hall x (List.mem_cons_of_mem _ hx)
    simp only [List.length_cons] at hf
    obtain ⟨f, rfl⟩ : ∃ f, fuel = f + 1 := ⟨fuel - 1, by omega⟩
    have hc1 : c = A ++ (t ++ ([123, 118, 97, 114, 58] ++ p ++ [125] ++ (printMP r ++ last ++ [125] ++ post))) := by
      rw [hc]; simp [printMP, List.append_assoc]
    have hrun := next_run c A t _ hc1 htp.1
    have g := fun i (hi : i < 5) => get_mid (A ++ t) [123, 118, 97, 114, 58]
      (p ++ [125] ++ (printMP r ++ last ++ [125] ++ post)) i (by simpa using hi)
    have hc2 : c = (A ++ t) ++ ([123, 118, 97, 114, 58] ++ (p ++ [125] ++ (printMP r ++ last ++ [125] ++ post))) := by
      rw [hc1]; simp [List.append_assoc]
    have hlat : (A ++ t).length = A.length + t.length := by simp
    have hvar : next c (A.length + t.length) = .ok (A.length + t.length + 5, 2) := by
      rw [← hlat]
      apply next_at_var c _ (by omega)
      · have := g 0 (by omega); rw [hc2]; simpa using this
      · have := g 1 (by omega); rw [hc2]; simpa using this
      · have := g 2 (by omega); rw [hc2]; simpa using this
      · have := g 3 (by omega); rw [hc2]; simpa using this
      · have := g 4 (by omega); rw [hc2]; simpa using this
    rw [hrun, hvar] at hnext
    simp only [Except.ok.injEq, Prod.mk.injEq] at hnext
    obtain ⟨rfl, rfl⟩ := hnext
    have hc3 : c = (A ++ t ++ [123, 118, 97, 114, 58]) ++ (p ++ ([125] ++ (printMP r ++ last ++ [125] ++ post))) := by
      rw [hc1]; simp [List.append_assoc]
    have hl3 : (A ++ t ++ [123, 118, 97, 114, 58]).length = A.length + t.length + 5 := by simp; omega
    have hrun2 := next_run c _ p _ hc3 htp.2
    rw [hl3] at hrun2
    have hclose : next c (A.length + t.length + 5 + p.length) = .ok (A.length + t.length + 5 + p.length + 1, 1) := by
      apply next_at_close
      have := get_mid (A ++ t ++ [123, 118, 97, 114, 58] ++ p) [125] (printMP r ++ last ++ [125] ++ post) 0 (by simp)
      have hl5 : (A ++ t ++ [123, 118, 97, 114, 58] ++ p).length + 0 = A.length + t.length + 5 + p.length := by
        simp; omega
      rw [hl5] at this
      have hX : c = (A ++ t ++ [123, 118, 97, 114, 58] ++ p) ++ ([125] ++ (printMP r ++ last ++ [125] ++ post)) := by
        rw [hc1]; simp [List.append_assoc]
      rw [hX, this]; rfl
    have hc4 : c = (A ++ (t ++ ([123, 118, 97, 114, 58] ++ p ++ [125]))) ++ (printMP r ++ last ++ [125] ++ post) := by
      rw [hc1]; simp [List.append_assoc]
    have hl4 : (A ++ (t ++ ([123, 118, 97, 114, 58] ++ p ++ [125]))).length = A.length + t.length + 5 + p.length + 1 := by
      simp; omega
    have hle4 : A.length + t.length + 5 + p.length + 1 ≤ c.length := by
      rw [← hl4, hc4]; simp
    obtain ⟨o2, m2, hn2, _⟩ := next_safe_total c _ hle4
    have hih := ih (A ++ (t ++ ([123, 118, 97, 114, 58] ++ p ++ [125]))) f o2 m2 o' m' hc4 hallr (by omega)
      (by rw [hl4]; exact hn2)
      (by rw [hl4, ← hfin, printMP_cons_len]; congr 1; omega)
    rw [hl4] at hih
    have h1 : finderNext c (stAt stk acc (A.length + t.length + 5) 2) =
        .ok (stAt stk acc (A.length + t.length + 5 + p.length + 1) 1) :=
      finderNext_stAt c stk acc _ 2 _ _ (by rw [hrun2, hclose])
    have h2 : finderNext c (stAt stk acc (A.length + t.length + 5 + p.length + 1) 1) = .ok (stAt stk acc o2 m2) :=
      finderNext_stAt c stk acc _ 1 _ _ hn2
    have hm : (stAt stk acc (A.length + t.length + 5) 2 : PState R).mtch = 2 := rfl
    have hm1 : (stAt stk acc (A.length + t.length + 5 + p.length + 1) 1 : PState R).mtch = 1 := rfl
    have hcond : (2 : Nat) < 4 ∧ (2 : Nat) ≠ 1 := by decide
    simp only [mathScan, hm, hle, hmi, hcond, and_self, if_true, h1, bind, Except.bind, pure, Except.pure, hm1,
      ne_eq, show ¬ ((0 : Nat) + 1 = 0) by omega, not_false_eq_true, h2, Nat.add_sub_cancel]
    rw [hih, printMP_cons_len]
    congr 2
    omega

/-- `{math:e}` at `pre.length`: `stepMath` appends the Math tag with the scanned list -/
theorem stepMath_seg (cfg : ScanCfg R) (c : List Nat) (hn : c.length + 16 < 4294967296)
    (pre e post : List Nat) (w : List Nat) (hw : w.length = 6)
    (hc : c = pre ++ ((w ++ e ++ [125]) ++ post)) (hp : MathOk e)
    (stk : List (Frame R)) (acc : List (Tag R)) (o' m' : Nat)
    (hnext : next c (pre.length + 6 + e.length + 1) = .ok (o', m'))
    (items : List (Item R))
    (hex : exprs cfg c [] (pre.length + 6) (pre.length + 6 + e.length) = .ok items) :
    stepMath cfg c (stAt stk acc (pre.length + 6) 4) =
      .ok (stAt stk (acc ++ [.math items pre.length (pre.length + 6 + e.length + 1)]) o' m') := by
  obtain ⟨parts, last, rfl, hl, hall⟩ := hp
  have hc1 : c = (pre ++ w) ++ (printMP parts ++ last ++ [125] ++ post) := by
    rw [hc]; simp [List.append_assoc]
  have hl1 : (pre ++ w).length = pre.length + 6 := by simp [hw]
  have hle1 : pre.length + 6 ≤ c.length := by rw [← hl1, hc1]; simp
  obtain ⟨o1, m1, hn1, _⟩ := next_safe_total c _ hle1
  have hplen : parts.length + 1 ≤ c.length + 2 := by
    have : parts.length ≤ (printMP parts).length := by
      clear hc hc1 hall hnext hex
      induction parts with
      | nil => simp
      | cons tp r ih => obtain ⟨t, p⟩ := tp; simp [printMP] at ih ⊢; omega
    have : (printMP parts).length ≤ c.length := by rw [hc1]; simp; omega
    omega
  have hscan := mathScan_parts c hn stk acc last post hl parts (pre ++ w) (c.length + 2) o1 m1 o' m' hc1 hall hplen
    (by rw [hl1]; exact hn1) (by rw [hl1]; exact hnext)
  rw [hl1] at hscan
  have h1 : finderNext c (stAt stk acc (pre.length + 6) 4) = .ok (stAt stk acc o1 m1) :=
    finderNext_stAt c stk acc _ 4 _ _ hn1
  simp only [stepMath, h1, hscan, bind, Except.bind]
  have hoff : (stAt stk acc (pre.length + 6) 4 : PState R).off = pre.length + 6 := rfl
  have hch : (stAt stk acc o' m' : PState R).loopChain = [] := rfl
  have hsuf : pre.length + 6 + (printMP parts ++ last).length + 1 - W1.inLineSuffixLength =
      pre.length + 6 + (printMP parts ++ last).length := by
    have : W1.inLineSuffixLength = 1 := by decide
    rw [this]; omega
  have hpre : pre.length + 6 - W1.mathPrefixLength = pre.length := by
    have : W1.mathPrefixLength = 6 := by decide
    rw [this]; omega
  simp only [hoff, hch, hsuf, hpre, hex, ne_eq,
    show ¬ (pre.length + 6 + (printMP parts ++ last).length + 1 = 0) by omega, not_false_eq_true, if_true]
  rfl

theorem step_var_dispatch (cfg : ScanCfg R) (c : List Nat) (stk : List (Frame R)) (acc : List (Tag R)) (o : Nat) :
    step cfg c (stAt stk acc o 2) = stepVar c (stAt stk acc o 2) false ∧
    step cfg c (stAt stk acc o 3) = stepVar c (stAt stk acc o 3) true := by
  constructor <;> (simp only [step, stAt]; rfl)

/-- number of `{var:}` / `{raw:}` segments: the number of `step`s the main loop takes -/
def nTags : List Seg → Nat
  | [] => 0
  | .text _ :: rest => nTags rest
  | _ :: rest => nTags rest + 1

theorem nTags_le (segs : List Seg) : nTags segs ≤ (printSegs segs).length := by
  induction segs with
  | nil => simp [nTags]
  | cons sg rest ih =>
    cases sg <;> simp [nTags, printSegs, printSeg] <;> omega

/-- the main loop of `parse` over the printed segments, inside any stack of open block containers:
it consumes one `step` per tag and arrives at the Finder's next match after the segments -/
theorem parseMain_segs (cfg : ScanCfg R) (c : List Nat) (hn : c.length + 16 < 4294967296)
    (stk : List (Frame R)) (post : List Nat) :
    ∀ (segs : List Seg) (pre : List Nat) (acc : List (Tag R)) (fuel o m o' m' : Nat),
      c = pre ++ (printSegs segs ++ post) → (∀ s ∈ segs, s.ok) → (∀ s ∈ segs, s.scanOk cfg.readNum) →
      next c pre.length = .ok (o, m) →
      next c (pre.length + (printSegs segs).length) = .ok (o', m') →
      parseMain cfg c (fuel + nTags segs) (stAt stk acc o m) =
        parseMain cfg c fuel (stAt stk (acc ++ tagsOf cfg c pre.length segs) o' m') := by
  intro segs
  induction segs with
  | nil =>
    intro pre acc fuel o m o' m' hc _ _ hnext hfin
    simp only [printSegs, List.length_nil, Nat.add_zero] at hfin
    rw [hnext] at hfin
    simp only [Except.ok.injEq, Prod.mk.injEq] at hfin
    obtain ⟨rfl, rfl⟩ := hfin
    simp [nTags, tagsOf]
  | cons sg rest ih =>
    intro pre acc fuel o m o' m' hc hok hsc hnext hfin
    have hokr : ∀ s ∈ rest, s.ok := fun s hs => hok s (List.mem_cons_of_mem _ hs)
    have hscr : ∀ s ∈ rest, s.scanOk cfg.readNum := fun s hs => hsc s (List.mem_cons_of_mem _ hs)
    have hsg := hok sg (List.mem_cons_self ..)
    cases sg with
    | text s =>
      simp only [Seg.ok] at hsg
      simp only [printSegs, printSeg] at hc hfin
      have hskip : next c pre.length = next c (pre.length + s.length) := by
        apply next_skip c s.length pre.length (by rw [hc]; simp)
        intro i hi
        have := plain_at pre s (printSegs rest ++ post) hsg i hi
        rw [hc]; simpa [List.append_assoc] using this
      have := ih (pre ++ s) acc fuel o m o' m' (by rw [hc]; simp [List.append_assoc]) hokr hscr
        (by rw [List.length_append, ← hskip]; exact hnext)
        (by rw [← hfin]; congr 1; simp [List.length_append]; omega)
      simpa [tagsOf, nTags, List.length_append] using this
    | var pa =>
      simp only [Seg.ok] at hsg
      obtain ⟨hp, h0, h255⟩ := hsg
      simp only [printSegs, printSeg] at hc hfin
      have hat : next c pre.length = .ok (pre.length + 5, 2) := by
        have g := fun i (hi : i < 5) => get_mid pre [123, 118, 97, 114, 58] (pa ++ [125] ++ (printSegs rest ++ post)) i (by simpa using hi)
        have hc' : c = pre ++ ([123, 118, 97, 114, 58] ++ (pa ++ [125] ++ (printSegs rest ++ post))) := by
          rw [hc]; simp [List.append_assoc]
        apply next_at_var c pre.length (by omega)
        · have := g 0 (by omega); rw [hc']; simpa using this
        · have := g 1 (by omega); rw [hc']; simpa using this
        · have := g 2 (by omega); rw [hc']; simpa using this
        · have := g 3 (by omega); rw [hc']; simpa using this
        · have := g 4 (by omega); rw [hc']; simpa using this
      rw [hat] at hnext
      simp only [Except.ok.injEq, Prod.mk.injEq] at hnext
      obtain ⟨rfl, rfl⟩ := hnext
      have hlen_le : pre.length + 5 + pa.length + 1 ≤ c.length := by rw [hc]; simp; omega
      obtain ⟨o1, m1, hn1, _⟩ := next_safe_total c (pre.length + 5 + pa.length + 1) hlen_le
      have hstep := stepVar_seg c hn false pre pa (printSegs rest ++ post) [123, 118, 97, 114, 58] rfl
        (by rw [hc]; simp [List.append_assoc]) hp h0 h255 stk acc 2 o1 m1 hn1
      rw [show fuel + nTags (Seg.var pa :: rest) = (fuel + nTags rest) + 1 by simp [nTags]; omega]
      simp only [parseMain, stAt, ne_eq, show ¬ ((2 : Nat) = 0) by decide, not_false_eq_true, if_true]
      have hd := (step_var_dispatch cfg c stk acc (pre.length + 5)).1
      simp only [stAt] at hd hstep
      rw [hd, hstep]
      simp only [bind, Except.bind]
      have := ih (pre ++ ([123, 118, 97, 114, 58] ++ pa ++ [125])) (acc ++ [Tag.var ⟨pre.length + 5, pa.length, 0, 0⟩])
        fuel o1 m1 o' m' (by rw [hc]; simp [List.append_assoc]) hokr hscr
        (by simp only [List.length_append, List.length_cons, List.length_nil]
            rw [show pre.length + (5 + pa.length + (0 + 1)) = pre.length + 5 + pa.length + 1 by omega]
            exact hn1)
        (by rw [← hfin]; congr 1; simp [List.length_append]; omega)
      simp only [stAt] at this
      have hL : ∀ (w : List Nat), w.length = 5 → (pre ++ (w ++ pa ++ [125])).length = pre.length + 5 + pa.length + 1 := by
        intro w hw; simp [hw]; omega
      rw [hL _ rfl] at this
      simp only [Bool.false_eq_true, if_false, if_true]
      simpa [tagsOf, List.append_assoc] using this
    | raw pa =>
      simp only [Seg.ok] at hsg
      obtain ⟨hp, h0, h255⟩ := hsg
      simp only [printSegs, printSeg] at hc hfin
      have hat : next c pre.length = .ok (pre.length + 5, 3) := by
        have g := fun i (hi : i < 5) => get_mid pre [123, 114, 97, 119, 58] (pa ++ [125] ++ (printSegs rest ++ post)) i (by simpa using hi)
        have hc' : c = pre ++ ([123, 114, 97, 119, 58] ++ (pa ++ [125] ++ (printSegs rest ++ post))) := by
          rw [hc]; simp [List.append_assoc]
        apply next_at_raw c pre.length (by omega)
        · have := g 0 (by omega); rw [hc']; simpa using this
        · have := g 1 (by omega); rw [hc']; simpa using this
        · have := g 2 (by omega); rw [hc']; simpa using this
        · have := g 3 (by omega); rw [hc']; simpa using this
        · have := g 4 (by omega); rw [hc']; simpa using this
      rw [hat] at hnext
      simp only [Except.ok.injEq, Prod.mk.injEq] at hnext
      obtain ⟨rfl, rfl⟩ := hnext
      have hlen_le : pre.length + 5 + pa.length + 1 ≤ c.length := by rw [hc]; simp; omega
      obtain ⟨o1, m1, hn1, _⟩ := next_safe_total c (pre.length + 5 + pa.length + 1) hlen_le
      have hstep := stepVar_seg c hn true pre pa (printSegs rest ++ post) [123, 114, 97, 119, 58] rfl
        (by rw [hc]; simp [List.append_assoc]) hp h0 h255 stk acc 3 o1 m1 hn1
      rw [show fuel + nTags (Seg.raw pa :: rest) = (fuel + nTags rest) + 1 by simp [nTags]; omega]
      simp only [parseMain, stAt, ne_eq, show ¬ ((3 : Nat) = 0) by decide, not_false_eq_true, if_true]
      have hd := (step_var_dispatch cfg c stk acc (pre.length + 5)).2
      simp only [stAt] at hd hstep
      rw [hd, hstep]
      simp only [bind, Except.bind]
      have := ih (pre ++ ([123, 114, 97, 119, 58] ++ pa ++ [125])) (acc ++ [Tag.raw ⟨pre.length + 5, pa.length, 0, 0⟩])
        fuel o1 m1 o' m' (by rw [hc]; simp [List.append_assoc]) hokr hscr
        (by simp only [List.length_append, List.length_cons, List.length_nil]
            rw [show pre.length + (5 + pa.length + (0 + 1)) = pre.length + 5 + pa.length + 1 by omega]
            exact hn1)
        (by rw [← hfin]; congr 1; simp [List.length_append]; omega)
      simp only [stAt] at this
      have hL : ∀ (w : List Nat), w.length = 5 → (pre ++ (w ++ pa ++ [125])).length = pre.length + 5 + pa.length + 1 := by
        intro w hw; simp [hw]; omega
      rw [hL _ rfl] at this
      simp only [Bool.false_eq_true, if_false, if_true]
      simpa [tagsOf, List.append_assoc] using this
    | math e =>
      simp only [Seg.ok] at hsg
      have hsce := hsc (.math e) (List.mem_cons_self ..)
      simp only [Seg.scanOk] at hsce
      obtain ⟨items0, hitems0⟩ := hsce
      simp only [printSegs, printSeg] at hc hfin
      have hat : next c pre.length = .ok (pre.length + 6, 4) := by
        have g := fun i (hi : i < 6) => get_mid pre [123, 109, 97, 116, 104, 58] (e ++ [125] ++ (printSegs rest ++ post)) i (by simpa using hi)
        have hc' : c = pre ++ ([123, 109, 97, 116, 104, 58] ++ (e ++ [125] ++ (printSegs rest ++ post))) := by
          rw [hc]; simp [List.append_assoc]
        apply next_at_math c pre.length (by omega)
        · have := g 0 (by omega); rw [hc']; simpa using this
        · have := g 1 (by omega); rw [hc']; simpa using this
        · have := g 2 (by omega); rw [hc']; simpa using this
        · have := g 3 (by omega); rw [hc']; simpa using this
        · have := g 4 (by omega); rw [hc']; simpa using this
        · have := g 5 (by omega); rw [hc']; simpa using this
      rw [hat] at hnext
      simp only [Except.ok.injEq, Prod.mk.injEq] at hnext
      obtain ⟨rfl, rfl⟩ := hnext
      have hlen_le : pre.length + 6 + e.length + 1 ≤ c.length := by rw [hc]; simp; omega
      obtain ⟨o1, m1, hn1, _⟩ := next_safe_total c (pre.length + 6 + e.length + 1) hlen_le
      obtain ⟨items', hex, _⟩ := exprs_math cfg c pre e (printSegs rest ++ post)
        (by rw [hc]; simp [List.append_assoc]) items0 hitems0
      have hstep := stepMath_seg cfg c hn pre e (printSegs rest ++ post) [123, 109, 97, 116, 104, 58] rfl
        (by rw [hc]; simp [List.append_assoc]) hsg stk acc o1 m1 hn1 items' hex
      rw [show fuel + nTags (Seg.math e :: rest) = (fuel + nTags rest) + 1 by simp [nTags]; omega]
      simp only [parseMain, stAt, ne_eq, show ¬ ((4 : Nat) = 0) by decide, not_false_eq_true, if_true]
      have hd : step cfg c (stAt stk acc (pre.length + 6) 4) = stepMath cfg c (stAt stk acc (pre.length + 6) 4) := by
        simp only [step, stAt]; rfl
      simp only [stAt] at hd hstep
      rw [hd, hstep]
      simp only [bind, Except.bind]
      have := ih (pre ++ ([123, 109, 97, 116, 104, 58] ++ e ++ [125]))
        (acc ++ [Tag.math items' pre.length (pre.length + 6 + e.length + 1)])
        fuel o1 m1 o' m' (by rw [hc]; simp [List.append_assoc]) hokr hscr
        (by simp only [List.length_append, List.length_cons, List.length_nil]
            rw [show pre.length + (6 + e.length + (0 + 1)) = pre.length + 6 + e.length + 1 by omega]
            exact hn1)
        (by rw [← hfin]; congr 1; simp [List.length_append]; omega)
      simp only [stAt] at this
      have hL : (pre ++ ([123, 109, 97, 116, 104, 58] ++ e ++ [125])).length = pre.length + 6 + e.length + 1 := by
        simp; omega
      rw [hL] at this
      simpa [tagsOf, itemsAt, hex, List.append_assoc] using this

/-- `parse_segs`: the printed text of a text / var / raw / math template parses to exactly the tags
the document implies. -/
theorem parse_segs (cfg : ScanCfg R) (segs : List Seg) (hok : ∀ s ∈ segs, s.ok)
    (hsc : ∀ s ∈ segs, s.scanOk cfg.readNum)
    (hn : (printSegs segs).length + 16 < 4294967296) :
    parse cfg (printSegs segs) = .ok (tagsOf cfg (printSegs segs) 0 segs) := by
  obtain ⟨o, m, hnx, _⟩ := next_safe_total (printSegs segs) 0 (Nat.zero_le _)
  have h0 : finderNext (printSegs segs) ({} : PState R) = .ok (stAt [] [] o m) := by
    simp [finderNext, hnx, bind, Except.bind, stAt]
  have hend : next (printSegs segs) (0 + (printSegs segs).length) = .ok ((printSegs segs).length, 0) := by
    rw [Nat.zero_add]
    apply next_plain_end _ _ (Nat.le_refl _)
    intro i h1 h2; omega
  have hm := parseMain_segs cfg (printSegs segs) hn [] [] segs [] ([] : List (Tag R))
    (2 * (printSegs segs).length + 4 - nTags segs) o m _ _ (by simp) hok hsc hnx hend
  have hfu : 2 * (printSegs segs).length + 4 - nTags segs + nTags segs = 2 * (printSegs segs).length + 4 := by
    have := nTags_le segs; omega
  rw [hfu] at hm
  have hlast : parseMain cfg (printSegs segs) (2 * (printSegs segs).length + 4 - nTags segs)
      (stAt [] ([] ++ tagsOf cfg (printSegs segs) ([] : List Nat).length segs) (printSegs segs).length 0) =
      .ok (stAt [] ([] ++ tagsOf cfg (printSegs segs) ([] : List Nat).length segs) (printSegs segs).length 0) := by
    have : 2 * (printSegs segs).length + 4 - nTags segs = (2 * (printSegs segs).length + 3 - nTags segs) + 1 := by
      have := nTags_le segs; omega
    rw [this]
    simp [parseMain, stAt]
  rw [hlast] at hm
  simp only [stAt] at h0 hm
  simp only [parse, h0, bind, Except.bind, hm, cleanup, List.nil_append, List.length_nil]

end Qentem.Tmpl
