import Qentem.Proofs.JsonPrefix
import Qentem.Proofs.JsonTokens
import Mathlib.Tactic.IntervalCases
/-! Truncation contracts of `Proofs/JsonPrefix.lean` discharged for the concrete sub-routine
models (`jsonDeps w`): decimal integers (a proper prefix of an integer is `-` or an integer that
ends at the end of the buffer) and string bodies made of accepted tokens (a body cut inside an
escape is rejected, a body cut between tokens is consumed up to the end of the buffer). -/
namespace Qentem.Json
open Qentem.StrToNum Qentem.Props.C09

/-- What is left of a cut text, as a list. -/
theorem Cut.at {c : Array Nat} {o : Nat} {l : List Nat} (h : Cut c o l) :
    ∃ q, q <+: l ∧ q.length < l.length ∧ At c o q ∧ o + q.length = c.size ∧ c.toList.drop o = q := by
  obtain ⟨hle, hp, hlen⟩ := h
  refine ⟨c.toList.drop o, hp, by simpa using hlen, List.prefix_refl _, by simp; omega, rfl⟩

theorem decVal_append_ge (l m : List Nat) : decVal l ≤ decVal (l ++ m) := by
  unfold decVal
  rw [List.foldl_append]
  generalize List.foldl (fun a d => a * 10 + (d - 48)) 0 l = a
  induction m generalizing a with
  | nil => simp
  | cons x m ih =>
    simp only [List.foldl_cons]
    exact Nat.le_trans (by omega) (ih (a * 10 + (x - 48)))

theorem decVal_prefix_le {q l : List Nat} (h : q <+: l) : decVal q ≤ decVal l := by
  obtain ⟨m, rfl⟩ := h
  exact decVal_append_ge q m

/-- A cut decimal natural: still a natural, ending at the end of the buffer. -/
theorem numTrunc_natural (w d1 : Nat) (xs : List Nat) (h1 : isNonZeroDigit d1 = true) (hxs : AllDigits xs)
    (hv : decVal (d1 :: xs) < 2 ^ 64) : NumTrunc (jsonDeps w) (d1 :: xs) := by
  intro c o hsz hlt hcut
  obtain ⟨q, hq, hql, hat, hend, _⟩ := hcut.at
  rcases List.prefix_cons_iff.1 hq with rfl | ⟨xs', rfl, hxs'⟩
  · simp at hend; omega
  have hu := unitsAt_of_At c _ o hat
  have hdig : AllDigits xs' := fun y hy => hxs y (hxs'.subset hy)
  have hval : decVal (d1 :: xs') < 2 ^ 64 := Nat.lt_of_le_of_lt (decVal_prefix_le hq) hv
  have e1 : o + b2n false + 1 + xs'.length = c.size := by simp [b2n] at hend ⊢; omega
  have := int_exact_natural c.toList o c.size false d1 xs' hsz h1 hdig (by simpa using hu) (Or.inl e1) hval
  refine ⟨⟨kindOf .natural, decVal (d1 :: xs'), o + b2n false + 1 + xs'.length⟩, ?_, Or.inr e1⟩
  show strToNumDep c o c.size = _
  unfold strToNumDep
  rw [this]

/-- A cut negative decimal integer: a lone `-` is not a number; otherwise still an integer,
ending at the end of the buffer. -/
theorem numTrunc_negative (w d1 : Nat) (xs : List Nat) (h1 : isNonZeroDigit d1 = true) (hxs : AllDigits xs)
    (hv : decVal (d1 :: xs) ≤ 2 ^ 63) : NumTrunc (jsonDeps w) (45 :: d1 :: xs) := by
  intro c o hsz hlt hcut
  obtain ⟨q, hq, hql, hat, hend, _⟩ := hcut.at
  rcases List.prefix_cons_iff.1 hq with rfl | ⟨q1, rfl, hq1⟩
  · simp at hend; omega
  have hu := unitsAt_of_At c _ o hat
  rcases List.prefix_cons_iff.1 hq1 with rfl | ⟨xs', rfl, hxs'⟩
  · -- a lone minus sign at the end of the buffer
    have e1 : o + 1 = c.size := by simpa using hend
    refine ⟨⟨kindOf .notANumber, 0, o + 1⟩, ?_, Or.inl rfl⟩
    show strToNumDep c o c.size = _
    unfold strToNumDep
    have : strToNum c.toList o c.size = some ⟨.notANumber, 0, o + 1⟩ := by
      unfold strToNum
      simp only [hlt, if_true, hu.1]
      unfold afterSign
      simp [show ¬ o + 1 < c.size by omega]
    rw [this]
  · have hdig : AllDigits xs' := fun y hy => hxs y (hxs'.subset hy)
    have hval : decVal (d1 :: xs') ≤ 2 ^ 63 := Nat.le_trans (decVal_prefix_le hq1) hv
    have e1 : o + 2 + xs'.length = c.size := by simp at hend; omega
    have := int_exact_negative c.toList o c.size d1 xs' hsz h1 hdig hu (Or.inl e1) hval
    refine ⟨⟨kindOf .integer, 2 ^ 64 - decVal (d1 :: xs'), o + 2 + xs'.length⟩, ?_, Or.inr e1⟩
    show strToNumDep c o c.size = _
    unfold strToNumDep
    rw [this]

/-- `0` has no non-empty proper prefix. -/
theorem numTrunc_zero (w : Nat) : NumTrunc (jsonDeps w) [48] := by
  intro c o hsz hlt hcut
  obtain ⟨q, hq, hql, hat, hend, _⟩ := hcut.at
  simp at hql
  subst hql
  simp at hend; omega

end Qentem.Json

namespace Qentem.Json
open Qentem.Unicode

/-- A token cut in the middle: nothing read yet (the pending run goes on to the end of the buffer)
or an incomplete escape, which the routine rejects. -/
theorem unEscapeB_partial (w : Nat) (t : Tok) (ht : t.ok = true) (q : List Nat) (hq : q <+: t.src)
    (hlt : q.length < t.src.length) (pend st : List Nat) (n : Nat) :
    (unEscapeB w q pend st n).2 = 0 ∨ (unEscapeB w q pend st n).2 = n + q.length := by
  rw [List.prefix_iff_eq_take] at hq
  generalize hk : q.length = k at hq hlt
  cases t with
  | plain c =>
    simp only [Tok.src, List.length_cons, List.length_nil] at hlt
    interval_cases k
    simp only [Tok.src, List.take_zero] at hq
    subst hq
    right; simp [unEscapeB, finishB_ret]
  | simple e =>
    simp only [Tok.src, List.length_cons, List.length_nil] at hlt
    interval_cases k <;> simp only [Tok.src, List.take_zero, List.take_succ_cons] at hq <;> subst hq
    · right; simp [unEscapeB, finishB_ret]
    · left; simp [unEscapeB]
  | u e a b x d =>
    simp only [Tok.ok, Bool.and_eq_true, Bool.or_eq_true, beq_iff_eq, bne_iff_ne] at ht
    simp only [Tok.src, List.length_cons, List.length_nil] at hlt
    obtain ⟨he, hc⟩ := ht
    interval_cases k <;> simp only [Tok.src, List.take_zero, List.take_succ_cons] at hq <;> subst hq
    · right; simp [unEscapeB, finishB_ret]
    all_goals (left; rcases he with rfl | rfl <;> simp [unEscapeB])
  | pair e a b x d y z a2 b2 x2 d2 =>
    simp only [Tok.ok, Bool.and_eq_true, Bool.or_eq_true, beq_iff_eq] at ht
    simp only [Tok.src, List.length_cons, List.length_nil] at hlt
    obtain ⟨he, hc⟩ := ht
    interval_cases k <;> simp only [Tok.src, List.take_zero, List.take_succ_cons] at hq <;> subst hq
    · right; simp [unEscapeB, finishB_ret]
    all_goals (left; rcases he with rfl | rfl <;> simp [unEscapeB, hc])

/-- A token sequence cut anywhere: rejected, or consumed to the end. -/
theorem unEscapeB_prefix_toks (w : Nat) : ∀ (ts : List Tok), (∀ t ∈ ts, t.ok = true) → ∀ (q : List Nat),
    q <+: ts.flatMap Tok.src → ∀ (pend st : List Nat) (n : Nat),
    (unEscapeB w q pend st n).2 = 0 ∨ (unEscapeB w q pend st n).2 = n + q.length
  | [], _, q, hq, pend, st, n => by
    simp at hq
    subst hq
    right; simp [unEscapeB, finishB_ret]
  | t :: r, hok, q, hq, pend, st, n => by
    rw [List.flatMap_cons] at hq
    rcases Nat.lt_or_ge q.length t.src.length with hlt | hge
    · exact unEscapeB_partial w t (hok t (by simp)) q
        (List.prefix_of_prefix_length_le hq (List.prefix_append _ _) (by omega)) hlt pend st n
    · have hp : t.src <+: q := List.prefix_of_prefix_length_le (List.prefix_append _ _) hq hge
      obtain ⟨q', rfl⟩ := hp
      have hq' : q' <+: r.flatMap Tok.src := (List.prefix_append_right_inj _).1 hq
      rw [unEscapeB_tok w t (hok t (by simp))]
      have := unEscapeB_prefix_toks w r (fun t' ht' => hok t' (by simp [ht'])) q' hq' (t.step w (pend, st)).1 (t.step w (pend, st)).2 (n + t.src.length)
      simp only [List.length_append]
      omega

/-- **Every RFC 8259 string body, cut anywhere** (before the closing quote): `UnEscape` rejects
it or swallows everything up to the end of the buffer. -/
theorem strTrunc_tokens (w : Nat) (ts : List Tok) (hok : ∀ t ∈ ts, t.ok = true) :
    StrTrunc (jsonDeps w) (ts.flatMap Tok.src) := by
  intro c o hcut
  obtain ⟨q, hq, hql, hat, hend, hdrop⟩ := hcut.at
  have hqb : q <+: ts.flatMap Tok.src :=
    List.prefix_of_prefix_length_le hq (List.prefix_append _ _) (by simp only [List.length_append, List.length_cons, List.length_nil] at hql; omega)
  have hlen : c.size - o ≤ (c.toList.drop o).length := by simp
  have hB := unEscapeA_eq_B w (c.toList.drop o) (c.size - o) [] hlen
  have htake : (c.toList.drop o).take (c.size - o) = q := by
    rw [hdrop]; exact List.take_of_length_le (by omega)
  have := unEscapeB_prefix_toks w ts hok q hqb [] [] 0
  refine ⟨(unEscapeB w q [] [] 0).2, (unEscapeB w q [] [] 0).1, ?_, ?_⟩
  · show unEscapeDep w c o (c.size - o) = _
    unfold unEscapeDep
    rw [hB, htake]
  · rcases this with h0 | h1
    · exact Or.inl h0
    · right; rw [h1]; omega

end Qentem.Json

/-! ## Documents over the concrete token classes -/

set_option linter.unusedVariables false

namespace Qentem.Json
open Qentem.Unicode Qentem.StrToNum

/-- Decimal integer numerals in the 64-bit range with the number they denote. -/
inductive IntTok : List Nat → NumKind → Nat → Prop
  | zero : IntTok [48] .natural 0
  | natural (d1 : Nat) (xs : List Nat) (h1 : isNonZeroDigit d1 = true) (hxs : AllDigits xs)
      (hv : decVal (d1 :: xs) < 2 ^ 64) : IntTok (d1 :: xs) .natural (decVal (d1 :: xs))
  | negative (d1 : Nat) (xs : List Nat) (h1 : isNonZeroDigit d1 = true) (hxs : AllDigits xs)
      (hv : decVal (d1 :: xs) ≤ 2 ^ 63) : IntTok (45 :: d1 :: xs) .integer (2 ^ 64 - decVal (d1 :: xs))

/-- String bodies made of tokens the un-escaper accepts (plain units of any width, the eight short
escapes, `\uXXXX`, surrogate pairs), with the text they decode to at character width `w`. -/
def StrTok (w : Nat) (body text : List Nat) : Prop :=
  ∃ ts : List Tok, (∀ t ∈ ts, t.ok = true) ∧ body = ts.flatMap Tok.src ∧ text = ts.flatMap (Tok.out w)

mutual
/-- Documents whose leaves are keywords, `IntTok` numerals and `StrTok` strings (member names
too), with RFC whitespace at every layout position. -/
def Conc (w : Nat) : JDoc → Prop
  | .num tok kind bits => IntTok tok kind bits
  | .str body text => StrTok w body text
  | .arr ws0 items => AllWs ws0 ∧ ConcItems w items
  | .obj ws0 ms => AllWs ws0 ∧ ConcMembers w ms
  | _ => True
def ConcItems (w : Nat) : List (Ws × JDoc × Ws) → Prop
  | [] => True
  | (wsB, doc, wsA) :: rest => AllWs wsB ∧ Conc w doc ∧ AllWs wsA ∧ ConcItems w rest
def ConcMembers (w : Nat) : List (Ws × List Nat × List Nat × Ws × Ws × JDoc × Ws) → Prop
  | [] => True
  | (wsB, kbody, ktext, ws1, ws2, doc, wsA) :: rest =>
    AllWs wsB ∧ StrTok w kbody ktext ∧ AllWs ws1 ∧ AllWs ws2 ∧ Conc w doc ∧ AllWs wsA ∧ ConcMembers w rest
end

theorem intTok_spec (w : Nat) {tok : List Nat} {kind : NumKind} {bits : Nat} (h : IntTok tok kind bits) :
    NumSpec (jsonDeps w) tok kind bits ∧ NumTrunc (jsonDeps w) tok := by
  cases h with
  | zero => exact ⟨numSpec_zero w, numTrunc_zero w⟩
  | natural d1 xs h1 hxs hv => exact ⟨numSpec_natural w d1 xs h1 hxs hv, numTrunc_natural w d1 xs h1 hxs hv⟩
  | negative d1 xs h1 hxs hv => exact ⟨numSpec_negative w d1 xs h1 hxs hv, numTrunc_negative w d1 xs h1 hxs hv⟩

theorem strTok_spec (w : Nat) {body text : List Nat} (h : StrTok w body text) :
    StrSpec (jsonDeps w) body text ∧ StrTrunc (jsonDeps w) body := by
  obtain ⟨ts, hok, rfl, rfl⟩ := h
  exact ⟨strSpec_tokens w ts hok, strTrunc_tokens w ts hok⟩

mutual
/-- Such documents are well-formed and truncation-safe for the linked sub-routines. -/
theorem conc_wft (w : Nat) : ∀ (doc : JDoc), Conc w doc → WF (jsonDeps w) doc ∧ TS (jsonDeps w) doc
  | .null, _ => ⟨trivial, trivial⟩
  | .tru, _ => ⟨trivial, trivial⟩
  | .fals, _ => ⟨trivial, trivial⟩
  | .num tok kind bits, h => intTok_spec w h
  | .str body text, h => strTok_spec w h
  | .arr ws0 items, h => ⟨⟨h.1, (concItems_wft w items h.2).1⟩, (concItems_wft w items h.2).2⟩
  | .obj ws0 ms, h => ⟨⟨h.1, (concMembers_wft w ms h.2).1⟩, (concMembers_wft w ms h.2).2⟩
theorem concItems_wft (w : Nat) : ∀ (items : List (Ws × JDoc × Ws)), ConcItems w items →
    WFItems (jsonDeps w) items ∧ TSItems (jsonDeps w) items
  | [], _ => ⟨trivial, trivial⟩
  | (wsB, doc, wsA) :: rest, h =>
    ⟨⟨h.1, (conc_wft w doc h.2.1).1, h.2.2.1, (concItems_wft w rest h.2.2.2).1⟩,
      ⟨(conc_wft w doc h.2.1).2, (concItems_wft w rest h.2.2.2).2⟩⟩
theorem concMembers_wft (w : Nat) : ∀ (ms : List (Ws × List Nat × List Nat × Ws × Ws × JDoc × Ws)), ConcMembers w ms →
    WFMembers (jsonDeps w) ms ∧ TSMembers (jsonDeps w) ms
  | [], _ => ⟨trivial, trivial⟩
  | (wsB, kbody, ktext, ws1, ws2, doc, wsA) :: rest, h =>
    ⟨⟨h.1, (strTok_spec w h.2.1).1, h.2.2.1, h.2.2.2.1, (conc_wft w doc h.2.2.2.2.1).1, h.2.2.2.2.2.1,
        (concMembers_wft w rest h.2.2.2.2.2.2).1⟩,
      ⟨(strTok_spec w h.2.1).2, (conc_wft w doc h.2.2.2.2.1).2, (concMembers_wft w rest h.2.2.2.2.2.2).2⟩⟩
end

end Qentem.Json
