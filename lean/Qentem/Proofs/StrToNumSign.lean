import Qentem.Proofs.StrToNumBasic
/-! C09 helper lemmas: every `Real` result carries the sign of the text in bit 63, for all inputs. -/
namespace Qentem.StrToNum
open Qentem.Generated.StrToNum

theorem packBits_lt (n x : Nat) (hx : x < 2048) :
    (n &&& 0xFFFFFFFFFFFFF) ||| ((x * 2 ^ 52) % 2 ^ 64) < 2 ^ 63 := by
  apply Nat.or_lt_two_pow
  · exact Nat.lt_of_le_of_lt Nat.and_le_right (by decide)
  · have : x * 2 ^ 52 < 2 ^ 63 := by omega
    exact Nat.lt_of_le_of_lt (Nat.mod_le _ _) this

theorem ite_pack_lt (exp n : Nat) :
    (if exp ≥ 0x7FF then 0x7FF0000000000000 else (n &&& 0xFFFFFFFFFFFFF) ||| ((exp * 2 ^ 52) % 2 ^ 64)) < 2 ^ 63 := by
  split
  · decide
  · exact packBits_lt _ _ (by omega)

theorem posFinish_lt (b s : Nat) : posFinish b s < 2 ^ 63 := by
  unfold posFinish
  exact ite_pack_lt _ _

theorem log2_lt_256 (b : Nat) (h : b < bigW) : Nat.log2 b < 256 := by
  by_cases h0 : b = 0
  · subst h0; simp
  · exact (Nat.log2_lt h0).2 h

theorem add32_le (a b : Nat) : add32 a b ≤ a + b := Nat.mod_le _ _

theorem b2n_le (b : Bool) : b2n b ≤ 1 := by cases b <;> simp [b2n]

theorem negFinish_lt (b s : Nat) (hb : b < bigW) : negFinish b s < 2 ^ 63 := by
  have hl := log2_lt_256 b hb
  have hbias : bias = 1023 := rfl
  unfold negFinish
  simp only
  apply packBits_lt
  split
  · have h1 := add32_le (add32 bias (Nat.log2 b - s)) (b2n (decide (roundBit (bshr b (sub32 (Nat.log2 b) 53) % 2 ^ 64) > 0x1FFFFFFFFFFFFF)))
    have h2 := add32_le bias (Nat.log2 b - s)
    have h3 := b2n_le (decide (roundBit (bshr b (sub32 (Nat.log2 b) 53) % 2 ^ 64) > 0x1FFFFFFFFFFFFF))
    simp only at h1 ⊢
    omega
  · split
    · have h1 := add32_le (bias - (s - Nat.log2 b)) (b2n (decide (roundBit (bshr b (sub32 (Nat.log2 b) 53) % 2 ^ 64) > 0x1FFFFFFFFFFFFF)))
      have h3 := b2n_le (decide (roundBit (bshr b (sub32 (Nat.log2 b) 53) % 2 ^ 64) > 0x1FFFFFFFFFFFFF))
      simp only at h1 ⊢
      omega
    · have h3 := b2n_le (decide (roundBit (bshr b (sub32 (Nat.log2 b) 53) % 2 ^ 64 / 2 ^ add32 (s - Nat.log2 b - bias) 1) > 0xFFFFFFFFFFFFF))
      simp only at h3 ⊢
      omega

theorem bigW_pos : 0 < bigW := Nat.pow_pos (by decide)
theorem bmul_lt (b m : Nat) : bmul b m < bigW := Nat.mod_lt _ bigW_pos
theorem bshl_lt (b k : Nat) : bshl b k < bigW := Nat.mod_lt _ bigW_pos
theorem bshr_le (b k : Nat) : bshr b k ≤ b := Nat.div_le_self _ _

theorem negLoop_lt (r s : Nat) : ∀ (n b sh : Nat), b < bigW → (negLoop r s n b sh).1 < bigW
  | 0, b, sh, h => h
  | n + 1, b, sh, _ => by
    rw [negLoop]
    exact negLoop_lt r s n _ _ (Nat.lt_of_le_of_lt (bshr_le _ _) (bmul_lt _ _))

theorem negScale_lt (num x b s : Nat) (h : negScale num x = some (b, s)) : b < bigW := by
  unfold negScale at h
  split at h
  · rename_i r27 s27 _ _
    simp only at h
    have hl := negLoop_lt r27 s27 (x / maxPowerOfFive) (bshl num 64) (add32 x 64) (bshl_lt _ _)
    split at h
    · split at h
      · simp only [Option.some.injEq, Prod.mk.injEq] at h
        rw [← h.1]; exact Nat.lt_of_le_of_lt (bshr_le _ _) (bmul_lt _ _)
      · cases h
    · simp only [Option.some.injEq] at h
      rw [h] at hl; exact hl
  · cases h

theorem powerOfNegativeTen_lt (num x v : Nat) (h : powerOfNegativeTen num x = some v) : v < 2 ^ 63 := by
  unfold powerOfNegativeTen at h
  cases hs : negScale num x with
  | none => simp [hs] at h
  | some bs =>
    obtain ⟨b, s⟩ := bs
    simp [hs] at h
    rw [← h]; exact negFinish_lt b s (negScale_lt num x b s hs)

theorem powerOfPositiveTen_lt (num x v : Nat) (h : powerOfPositiveTen num x = some v) : v < 2 ^ 63 := by
  unfold powerOfPositiveTen at h
  cases hs : posScale num x with
  | none => simp [hs] at h
  | some bs =>
    simp [hs] at h
    rw [← h]; exact posFinish_lt _ _

theorem or_sign_div (v : Nat) (neg : Bool) (hv : v < 2 ^ 63) :
    (v ||| (if neg then 0x8000000000000000 else 0)) / 2 ^ 63 = b2n neg := by
  cases neg with
  | false => simp [b2n]; omega
  | true =>
    simp only [if_true, b2n]
    have h1 : v ||| 0x8000000000000000 = 2 ^ 63 + v := by
      have := Nat.two_pow_add_eq_or_of_lt (i := 63) (b := v) hv 1
      rw [Nat.or_comm]
      simp at this; omega
    rw [h1]; omega

theorem realResult_sign (neg : Bool) (num ep10 x : Nat) (ne : Bool) (off : Nat) (r : Res)
    (h : realResult neg num ep10 x ne off = some r) (hk : r.kind = .real) : r.bits / 2 ^ 63 = b2n neg := by
  unfold realResult at h
  simp only at h
  split at h
  · split at h
    · simp only [Option.some.injEq] at h; subst h; simp at hk
    · split at h
      · cases h
      · rename_i v hv
        simp only [Option.some.injEq] at h; subst h
        simp only
        apply or_sign_div
        split at hv
        · exact powerOfNegativeTen_lt _ _ _ hv
        · exact powerOfPositiveTen_lt _ _ _ hv
  · rename_i h0
    simp only [Option.some.injEq] at h; subst h
    simp only
    have : num = 0 := by simpa using h0
    subst this
    exact or_sign_div 0 neg (by decide)

theorem tailLoop_inl (c : List Nat) (e num : Nat) : ∀ (k off : Nat) (hasDot : Bool) (dotOff : Nat) (r : Res),
    tailLoop c e num k off hasDot dotOff = some (.inl r) → r.kind = .notANumber
  | 0, off, hasDot, dotOff, r, h => by simp [tailLoop] at h
  | k + 1, off, hasDot, dotOff, r, h => by
    rw [tailLoop] at h
    split at h
    · cases h
    · split at h
      · exact tailLoop_inl c e num k _ _ _ r h
      · split at h
        · split at h
          · exact tailLoop_inl c e num k _ _ _ r h
          · simp only [Option.some.injEq, Sum.inl.injEq] at h; subst h; rfl
        · split at h
          · split at h
            · cases h
            · split at h
              · simp at h
              · simp only [Option.some.injEq, Sum.inl.injEq] at h; subst h; rfl
          · simp at h

theorem finishReal_sign (c : List Nat) (e : Nat) (neg : Bool) (num off tmp start : Nat) (fo hasDot : Bool)
    (dotOff : Nat) (r : Res) (h : finishReal c e neg num off tmp start fo hasDot dotOff = some r)
    (hk : r.kind = .real) : r.bits / 2 ^ 63 = b2n neg := by
  unfold finishReal at h
  simp only at h
  split at h
  · cases h
  · rename_i r' hr'
    simp only [Option.some.injEq] at h; subst h
    have := tailLoop_inl c e num _ _ _ _ _ hr'
    rw [this] at hk; cases hk
  · split at h
    · simp only [Option.some.injEq] at h; subst h; cases hk
    · exact realResult_sign _ _ _ _ _ _ r h hk

end Qentem.StrToNum

namespace Qentem.StrToNum

theorem iter2_inl (c : List Nat) (e maxEnd num off digit dotOff : Nat) (r : Res)
    (h : iter2 c e maxEnd num off digit dotOff = some (.inl r)) : r.kind = .notANumber := by
  unfold iter2 at h
  split at h
  · split at h
    · cases h
    · split at h
      · simp only [Option.some.injEq, Sum.inl.injEq] at h; subst h; rfl
      · simp at h
  · simp at h

theorem iter1_inl (c : List Nat) (e maxEnd num off digit : Nat) (hasDot : Bool) (dotOff : Nat) (isReal : Bool) (r : Res)
    (h : iter1 c e maxEnd num off digit hasDot dotOff isReal = some (.inl r)) : r.kind = .notANumber := by
  unfold iter1 at h
  split at h
  · exact iter2_inl _ _ _ _ _ _ _ r h
  · split at h
    · split at h
      · cases h
      · split at h
        · simp only at h
          split at h
          · split at h
            · cases h
            · split at h
              · exact iter2_inl _ _ _ _ _ _ _ r h
              · split at h
                · split at h
                  · cases h
                  · split at h
                    · exact iter2_inl _ _ _ _ _ _ _ r h
                    · simp at h
                · simp at h
          · simp at h
        · simp at h
    · simp at h

theorem afterScan_sign (c : List Nat) (e : Nat) (neg : Bool) (start : Nat) (fo : Bool) (s : Scan) (r : Res)
    (h : afterScan c e neg start fo s = some r) (hk : r.kind = .real) : r.bits / 2 ^ 63 = b2n neg := by
  unfold afterScan at h
  split at h
  · cases h
  · rename_i num off tmp isReal _
    split at h
    · simp only [Option.some.injEq] at h; subst h; simp at hk
    · rename_i hn1
      split at h
      · rename_i hz
        simp only [Option.some.injEq] at h; subst h
        have hneg : neg = true := by
          cases neg with
          | true => rfl
          | false => exact absurd ⟨hz.1, by simp⟩ hn1
        subst hneg; simp [b2n]
      · split at h
        · simp only [Option.some.injEq] at h; subst h; simp at hk
        · exact finishReal_sign _ _ _ _ _ _ _ _ _ _ r h hk

theorem thenScan_sign (neg : Bool) (r0 : Option (Res ⊕ Scan)) (k : Scan → Option Res) (r : Res)
    (hinl : ∀ r', r0 = some (.inl r') → r'.kind = .notANumber)
    (hk' : ∀ s r, k s = some r → r.kind = .real → r.bits / 2 ^ 63 = b2n neg)
    (h : thenScan r0 k = some r) (hk : r.kind = .real) : r.bits / 2 ^ 63 = b2n neg := by
  unfold thenScan at h
  split at h
  · cases h
  · rename_i r' 
    simp only [Option.some.injEq] at h; subst h
    rw [hinl _ rfl] at hk; cases hk
  · exact hk' _ _ h hk

theorem afterSign_sign (c : List Nat) (e : Nat) (neg : Bool) (off : Nat) (r : Res)
    (h : afterSign c e neg off = some r) (hk : r.kind = .real) : r.bits / 2 ^ 63 = b2n neg := by
  have scan : ∀ W num o dg hd dO ir start fo, thenScan (iter1 c e W num o dg hd dO ir) (afterScan c e neg start fo) = some r →
      r.bits / 2 ^ 63 = b2n neg := fun W num o dg hd dO ir start fo h =>
    thenScan_sign neg _ _ r (fun r' hr' => iter1_inl _ _ _ _ _ _ _ _ _ r' hr')
      (fun s r h hk => afterScan_sign _ _ _ _ _ s r h hk) h hk
  unfold afterSign at h
  split at h
  · split at h
    · cases h
    · split at h
      · exact scan _ _ _ _ _ _ _ _ _ h
      · split at h
        · -- first unit 0 or .
          simp only at h
          split at h
          · cases h
          · rename_i r' hstep
            simp only [Option.some.injEq] at h; subst h
            -- results produced by the look at the unit after a leading zero: hex (Natural) or NotANumber
            split at hstep
            · split at hstep
              · cases hstep
              · split at hstep
                · split at hstep
                  · cases hstep
                  · simp only [Option.some.injEq, Sum.inl.injEq] at hstep; subst hstep; simp at hk
                · split at hstep
                  · simp only [Option.some.injEq, Sum.inl.injEq] at hstep; subst hstep; simp at hk
                  · simp at hstep
            · simp at hstep
          · split at h
            · split at h
              · cases h
              · split at h
                · simp only [Option.some.injEq] at h; subst h; simp at hk
                · exact scan _ _ _ _ _ _ _ _ _ h
            · exact scan _ _ _ _ _ _ _ _ _ h
        · simp only [Option.some.injEq] at h; subst h; simp at hk
  · simp only [Option.some.injEq] at h; subst h; simp at hk

/-- every `Real` result has bit 63 set exactly when the first unit is `-` -/
theorem strToNum_sign (c : List Nat) (o e : Nat) (r : Res) (h : strToNum c o e = some r) (hk : r.kind = .real) :
    r.bits / 2 ^ 63 = b2n (decide (rd c e o = some 45)) := by
  unfold strToNum at h
  split at h
  · split at h
    · cases h
    · rename_i d hd
      split at h
      · rename_i h45; subst h45
        simpa [hd] using afterSign_sign _ _ _ _ r h hk
      · rename_i h45
        have : decide (rd c e o = some 45) = false := by simp [hd, h45]
        rw [this]
        split at h
        · exact afterSign_sign _ _ _ _ r h hk
        · exact afterSign_sign _ _ _ _ r h hk
  · simp only [Option.some.injEq] at h; subst h; simp at hk

end Qentem.StrToNum
