import Qentem.Proofs.NumToStrExact
/-! C10 helper: the reduction.  On a finite non-zero input `realFinite` equals the string-level formatter
(`layout`) applied to the reversed decimal digits of the closed-form digit run `runSpec`, which
`NumToStrExact` shows to be the exact decimal expansion cut at a known place.  What is left of
`FormatEqSpec` after this file is a statement about `formatDefault` / `formatFixed` on digit strings. -/
set_option linter.unusedSimpArgs false
set_option linter.unusedVariables false
namespace Qentem.Proofs.NumToStr
open Qentem.NumToStr Qentem.Generated.NumToStr Qentem

/-! ### the model as "string-level formatter applied to the closed-form digit run" -/

/-- the layout step of `realFinite`: one of the three string-level formatters, selected by `format.Type` -/
def layout (fmt start : Nat) (s : List Nat) (p : Nat) (r : Nat × Nat × Nat × Bool × Bool) : M (List Nat) :=
  if fmt = fmtSemiFixed then formatFixed false start s p r.2.2.1 r.2.2.2.2
  else if fmt = fmtFixed then formatFixed true start s p r.2.2.1 r.2.2.2.2
  else formatDefault start s p r.2.1 r.2.2.1 r.2.2.2.1 r.2.2.2.2

theorem estDigits_le {M B j pe e : Nat} (hpe : pe ≤ B) : estDigits M j pe e ≤ (B + M) * 30103 / 100000 + 1 := by
  unfold estDigits
  have : pe + (if e = 0 then M - j else 0) ≤ B + M := by split <;> omega
  have := Nat.div_le_div_right (c := 100000) (Nat.mul_le_mul_right 30103 this)
  omega

theorem runSpec_lt {c : Cfg} {M B : Nat} (hc : Shape c M B) {f e p fmt : Nat}
    (hf : f < 2 ^ M) (he : e ≤ 2 * B) (hnz : e ≠ 0 ∨ f ≠ 0) (hp : p ≤ 40) :
    (runSpec M B f e p fmt).1 < 2 ^ c.totalBits := by
  obtain ⟨c1, c2, c3, c4, c5, c6, c7, c8⟩ := hc
  have hmlt := mant_lt (e := e) hf
  have h5pos : 0 < 5 ^ ((B + M) * 30103 / 100000 + 1 + 41) := Nat.pow_pos (by decide)
  have hM1 : 2 ^ (M + 1) < 2 ^ (64 * c.maxIndex) :=
    lt_of_le_of_lt (Nat.le_mul_of_pos_right _ h5pos) c8
  have hfitb : ∀ v, v < 2 ^ (64 * c.maxIndex) → v < 2 ^ c.totalBits :=
    fun v hv => lt_of_lt_of_le hv (Nat.pow_le_pow_right (by decide) c6)
  simp only [runSpec]
  generalize findFirstBit (mant M f e) = j
  generalize hpeq : (if B ≤ e then e - B else B - e) = pe
  have hpe : pe ≤ B := by rw [← hpeq]; split <;> omega
  split
  · -- no fraction: ≤ m · 2^pe / 2^M
    rename_i hnf
    generalize (if (decide (p < estDigits M j pe e) && !(decide (fmt = fmtSemiFixed) || decide (fmt = fmtFixed))) = true
      then estDigits M j pe e - (p + 1) else 0) = d
    show intShift M (mant M f e) pe d / 5 ^ d < _
    refine lt_of_le_of_lt (Nat.div_le_self _ _) ?_
    unfold intShift
    split
    · rename_i hlt
      have h1 : mant M f e * 2 ^ (pe - (M + d)) < 2 ^ (M + 1) * 2 ^ (pe - (M + d)) :=
        Nat.mul_lt_mul_of_pos_right hmlt (Nat.two_pow_pos _)
      rw [← Nat.pow_add] at h1
      exact lt_of_lt_of_le h1 (Nat.pow_le_pow_right (by decide) (by omega))
    · exact hfitb _ (lt_of_le_of_lt (Nat.div_le_self _ _) (lt_trans hmlt hM1))
  · rename_i hnf
    show mant M f e / 2 ^ j * 5 ^ fracLen _ _ / 2 ^ fracShift _ _ < _
    refine lt_of_le_of_lt (Nat.div_le_self _ _) ?_
    have hdg := estDigits_le (M := M) (j := j) (e := e) hpe
    generalize estDigits M j pe e = dg at hdg ⊢
    generalize (if decide (B ≤ e) = true then M - j - pe else M - j + pe) = fl0
    have hn : (if decide (B ≤ e) = true then
        if (decide (fmt = fmtSemiFixed) || decide (fmt = fmtFixed)) = true then p else p - dg else dg + p) ≤
        (B + M) * 30103 / 100000 + 1 + 40 := by
      split
      · split <;> omega
      · omega
    generalize (if decide (B ≤ e) = true then
        if (decide (fmt = fmtSemiFixed) || decide (fmt = fmtFixed)) = true then p else p - dg else dg + p) = needed0 at hn ⊢
    have h1 : mant M f e / 2 ^ j < 2 ^ (M + 1) := lt_of_le_of_lt (Nat.div_le_self _ _) hmlt
    have h2 : fracLen fl0 needed0 ≤ (B + M) * 30103 / 100000 + 1 + 41 := by unfold fracLen; split <;> omega
    apply hfitb
    calc _ < 2 ^ (M + 1) * 5 ^ fracLen fl0 needed0 := Nat.mul_lt_mul_of_pos_right h1 (Nat.pow_pos (by decide))
      _ ≤ 2 ^ (M + 1) * 5 ^ ((B + M) * 30103 / 100000 + 1 + 41) :=
          Nat.mul_le_mul_left _ (Nat.pow_le_pow_right (by decide) h2)
      _ < _ := c8

/-- **reduction**: on a finite non-zero input the model is the string-level formatter applied to the reversed
decimal digits of the closed-form (exact) digit run -/
theorem realFinite_reduce {c : Cfg} {M B : Nat} (hc : Shape c M B) {f e p fmt : Nat} (s : List Nat)
    (hf : f < 2 ^ M) (he : e ≤ 2 * B) (hnz : e ≠ 0 ∨ f ≠ 0) (hp : p ≤ 40) :
    realFinite c s f (e * 2 ^ M) p fmt =
      layout fmt s.length (s ++ R (runSpec M B f e p fmt).1) p (runSpec M B f e p fmt) := by
  unfold realFinite layout
  rw [digitRun_eq_spec hc hf he hnz hp, ok_bind, bigIntToString_eq s (runSpec_lt hc hf he hnz hp), ok_bind]

end Qentem.Proofs.NumToStr
