import Qentem.Proofs.StrToNumRat
import Qentem.Proofs.StrToNumNegFinish
/-! C09 helper lemmas: the code's raw pattern of `b·2^-sh` against the specification's raw pattern of
the exact rational `N/(D·2^sh)` when `|b − N/D|` is at most a quarter of a unit in the last place of
`b` — within one, including the cases where the exact value lies in the neighbouring binade
(above or below) and the subnormal range. -/
namespace Qentem.Round
open Qentem.StrToNum

theorem halfUp_bounds (b g : Nat) (hg : 0 < g) :
    4 * g * halfUp b (2 * g) ≤ b + 2 * g ∧ b < 4 * g * halfUp b (2 * g) + 2 * g := by
  obtain ⟨t, r0, hB, hr0⟩ : ∃ t r0, b = 2 * g * t + r0 ∧ r0 < 2 * g :=
    ⟨b / (2 * g), b % (2 * g), (Nat.div_add_mod b (2 * g)).symm, Nat.mod_lt _ (by omega)⟩
  obtain ⟨q, hb, ht, hhb⟩ : ∃ q hb, t = 2 * q + hb ∧ hb < 2 := ⟨t / 2, t % 2, (Nat.div_add_mod t 2).symm, Nat.mod_lt _ (by decide)⟩
  have hBt : b / (2 * g) = t := by rw [hB, Nat.mul_add_div (by omega), Nat.div_eq_of_lt hr0]; rfl
  have hcode : halfUp b (2 * g) = q + hb := by
    unfold halfUp; rw [hBt, ht]
    have : (2 * q + hb) % 2 = hb := by omega
    rw [this]; omega
  rw [hcode]
  have e1 : 2 * g * t = 4 * (g * q) + 2 * (g * hb) := by rw [ht]; ring
  have e2 : 4 * g * (q + hb) = 4 * (g * q) + 4 * (g * hb) := by ring
  rw [e2, hB, e1]
  rcases Nat.lt_or_ge hb 1 with h0 | h0
  · have : hb = 0 := by omega
    subst this; simp; omega
  · have : hb = 1 := by omega
    subst this; simp; omega

theorem rne_bounds2 (N den : Nat) (hd : 0 < den) :
    2 * (den * rne N den) ≤ 2 * N + den ∧ 2 * N ≤ 2 * (den * rne N den) + den := by
  have h1 : N = den * (N / den) + N % den := (Nat.div_add_mod N den).symm
  have hr := Nat.mod_lt N hd
  generalize N / den = q at *
  generalize N % den = r at *
  rw [h1, rne_decomp q r den hr]
  split
  · constructor <;> omega
  · split
    · have : den * (q + 1) = den * q + den := by ring
      constructor <;> omega
    · split
      · constructor <;> omega
      · have : den * (q + 1) = den * q + den := by ring
        constructor <;> omega

/-- same unit `4g`: the exact `N/D` within `g` of `b` -/
theorem rat_same_unit (b N D g : Nat) (hD : 0 < D) (hg : 0 < g) (h1 : b * D ≤ N + g * D) (h2 : N ≤ b * D + g * D) :
    halfUp b (2 * g) ≤ rne N (D * (4 * g)) + 1 ∧ rne N (D * (4 * g)) ≤ halfUp b (2 * g) + 1 := by
  obtain ⟨m1, m2⟩ := halfUp_bounds b g hg
  obtain ⟨r1, r2⟩ := rne_bounds2 N (D * (4 * g)) (by positivity)
  generalize halfUp b (2 * g) = m at *
  generalize rne N (D * (4 * g)) = r at *
  have hX : 0 < g * D := Nat.mul_pos hg hD
  -- multiply the half-up facts by D
  have M1 : 4 * (g * D * m) ≤ b * D + 2 * (g * D) := by
    have := Nat.mul_le_mul_right D m1
    calc 4 * (g * D * m) = 4 * g * m * D := by ring
      _ ≤ (b + 2 * g) * D := this
      _ = b * D + 2 * (g * D) := by ring
  have M2 : b * D < 4 * (g * D * m) + 2 * (g * D) := by
    have := Nat.mul_lt_mul_of_pos_right m2 hD
    calc b * D < (4 * g * m + 2 * g) * D := this
      _ = 4 * (g * D * m) + 2 * (g * D) := by ring
  have R : D * (4 * g) * r = 4 * (g * D * r) := by ring
  rw [R] at r1 r2
  have hden : D * (4 * g) = 4 * (g * D) := by ring
  rw [hden] at r1 r2
  constructor
  · -- m ≤ r + 1
    rcases Nat.lt_or_ge m (r + 2) with h | h
    · omega
    · exfalso
      have : g * D * (r + 2) ≤ g * D * m := Nat.mul_le_mul_left _ h
      have e : g * D * (r + 2) = g * D * r + 2 * (g * D) := by ring
      omega
  · rcases Nat.lt_or_ge r (m + 2) with h | h
    · omega
    · exfalso
      have : g * D * (m + 2) ≤ g * D * r := Nat.mul_le_mul_left _ h
      have e : g * D * (m + 2) = g * D * m + 2 * (g * D) := by ring
      omega

/-- the exact value is in the binade above `b`'s: both patterns are that binade's first -/
theorem rat_cross_up (b N D g : Nat) (hD : 0 < D) (hg : 0 < g) (hb : b < 2 ^ 55 * g)
    (h2 : N ≤ b * D + g * D) (hL : D * (2 ^ 55 * g) ≤ N) :
    halfUp b (2 * g) = 2 ^ 53 ∧ rne N (D * (8 * g)) = 2 ^ 52 := by
  have hX : 0 < g * D := Nat.mul_pos hg hD
  have hbD : b * D < 2 ^ 55 * (g * D) := by
    calc b * D < 2 ^ 55 * g * D := Nat.mul_lt_mul_of_pos_right hb hD
      _ = 2 ^ 55 * (g * D) := by ring
  have hL' : 2 ^ 55 * (g * D) ≤ N := by
    calc 2 ^ 55 * (g * D) = D * (2 ^ 55 * g) := by ring
      _ ≤ N := hL
  constructor
  · -- b / (2g) = 2^54 - 1
    have hlo : (2 ^ 54 - 1) * (2 * g) ≤ b := by
      -- b*D ≥ N - g*D ≥ 2^55 gD - gD, so b ≥ 2^55 g - g
      have : (2 ^ 55 * g - g) * D ≤ b * D := by
        have e : (2 ^ 55 * g - g) * D = 2 ^ 55 * (g * D) - g * D := by
          rw [Nat.sub_mul]; congr 1; ring
        rw [e]; omega
      have hb' := Nat.le_of_mul_le_mul_right this hD
      have e2 : (2 ^ 54 - 1) * (2 * g) = 2 ^ 55 * g - 2 * g := by
        rw [Nat.sub_mul, Nat.one_mul]; congr 1
        rw [show (2 : Nat) ^ 55 = 2 ^ 54 * 2 by decide]; ring
      omega
    have hdiv : b / (2 * g) = 2 ^ 54 - 1 := by
      apply Nat.div_eq_of_lt_le
      · exact hlo
      · have : (2 ^ 54 - 1 + 1) * (2 * g) = 2 ^ 55 * g := by
          rw [show (2 : Nat) ^ 54 - 1 + 1 = 2 ^ 54 by decide, show (2 : Nat) ^ 55 = 2 ^ 54 * 2 by decide]; ring
        omega
    unfold halfUp; rw [hdiv]; decide
  · obtain ⟨d, hd⟩ : ∃ d, N = 2 ^ 55 * (g * D) + d := ⟨N - 2 ^ 55 * (g * D), by omega⟩
    have hdlt : d < g * D := by omega
    have e : N = D * (8 * g) * 2 ^ 52 + d := by
      rw [hd, show (2 : Nat) ^ 55 = 8 * 2 ^ 52 by decide]; ring
    have hden : D * (8 * g) = 8 * (g * D) := by ring
    rw [e, rne_decomp (2 ^ 52) d (D * (8 * g)) (by rw [hden]; omega)]
    have : 2 * d < D * (8 * g) := by rw [hden]; omega
    simp [this]

/-- the exact value is in the binade below `b`'s: both patterns are `b`'s binade's first -/
theorem rat_cross_down (b N D g : Nat) (hD : 0 < D) (hg : 0 < g) (hb : 2 ^ 54 * g ≤ b)
    (h1 : b * D ≤ N + g * D) (hL : N < D * (2 ^ 54 * g)) :
    halfUp b (2 * g) = 2 ^ 52 ∧ rne N (D * (2 * g)) = 2 ^ 53 := by
  have hX : 0 < g * D := Nat.mul_pos hg hD
  have hbD : 2 ^ 54 * (g * D) ≤ b * D := by
    calc 2 ^ 54 * (g * D) = 2 ^ 54 * g * D := by ring
      _ ≤ b * D := Nat.mul_le_mul_right _ hb
  have hL' : N < 2 ^ 54 * (g * D) := by
    calc N < D * (2 ^ 54 * g) := hL
      _ = 2 ^ 54 * (g * D) := by ring
  constructor
  · have hhi : b < 2 ^ 54 * g + g := by
      have : b * D < (2 ^ 54 * g + g) * D := by
        have e : (2 ^ 54 * g + g) * D = 2 ^ 54 * (g * D) + g * D := by ring
        rw [e]; omega
      exact Nat.lt_of_mul_lt_mul_right this
    have hdiv : b / (2 * g) = 2 ^ 53 := by
      apply Nat.div_eq_of_lt_le
      · have : 2 ^ 53 * (2 * g) = 2 ^ 54 * g := by
          rw [show (2 : Nat) ^ 54 = 2 ^ 53 * 2 by decide]; ring
        omega
      · have : (2 ^ 53 + 1) * (2 * g) = 2 ^ 54 * g + 2 * g := by
          rw [show (2 : Nat) ^ 54 = 2 ^ 53 * 2 by decide]; ring
        omega
    unfold halfUp; rw [hdiv]; decide
  · -- N = 2g·D·(2^53 − 1) + rem with rem ≥ g·D
    obtain ⟨d, hd⟩ : ∃ d, N + d = 2 ^ 54 * (g * D) := ⟨2 ^ 54 * (g * D) - N, by omega⟩
    have hd1 : 0 < d := by omega
    have hd2 : d ≤ g * D := by omega
    have hden : D * (2 * g) = 2 * (g * D) := by ring
    have e : N = D * (2 * g) * (2 ^ 53 - 1) + (2 * (g * D) - d) := by
      have : D * (2 * g) * (2 ^ 53 - 1) = 2 ^ 54 * (g * D) - 2 * (g * D) := by
        rw [hden, Nat.mul_sub, Nat.mul_one]; congr 1
        rw [show (2 : Nat) ^ 54 = 2 * 2 ^ 53 by decide]; ring
      rw [this]; omega
    rw [e, rne_decomp (2 ^ 53 - 1) _ (D * (2 * g)) (by rw [hden]; omega)]
    rw [hden]
    have n1 : ¬ (2 * (2 * (g * D) - d) < 2 * (g * D)) := by omega
    simp only [n1, if_false]
    split
    · decide
    · have : ¬ ((2 ^ 53 - 1) % 2 = 0) := by decide
      simp only [this, if_false]; decide

/-- **Patterns are within one (rational exact value, two-sided error).** `b` has at least 55 bits,
`g = 2^(bit−54)` is a quarter of its unit in the last place, `|b − N/D| ≤ g`, `L = ⌊log₂(N/D)⌋`. -/
theorem raw_close_rat (b sh N D L : Nat) (hD : 0 < D) (hb54 : 2 ^ 54 ≤ b)
    (h1 : b * D ≤ N + 2 ^ (Nat.log2 b - 54) * D) (h2 : N ≤ b * D + 2 ^ (Nat.log2 b - 54) * D)
    (hL1 : D * 2 ^ L ≤ N) (hL2 : N < D * 2 ^ (L + 1)) :
    ratRaw N D sh L ≤ codeRawNeg b sh + 1 ∧ codeRawNeg b sh ≤ ratRaw N D sh L + 1 := by
  have hb0 : b ≠ 0 := by intro h; subst h; exact absurd hb54 (by decide)
  obtain ⟨hlo, hhi⟩ := log2_bounds b hb0
  have hbit54 : 54 ≤ Nat.log2 b := (Nat.le_log2 hb0).2 hb54
  unfold ratRaw codeRawNeg
  generalize hbit : Nat.log2 b = bit at *
  obtain ⟨j, hj⟩ : ∃ j, bit = 54 + j := ⟨bit - 54, by omega⟩
  subst hj
  rw [show 54 + j - 54 = j by omega] at h1 h2
  have hg : 0 < 2 ^ j := Nat.pow_pos (by decide)
  have hblo : 2 ^ 54 * 2 ^ j ≤ b := by rw [← Nat.pow_add]; exact hlo
  have hbhi : b < 2 ^ 55 * 2 ^ j := by rw [← Nat.pow_add, show 55 + j = 54 + j + 1 by omega]; exact hhi
  have hpw : ∀ a, 2 ^ (a + j) = 2 ^ a * 2 ^ j := fun a => Nat.pow_add 2 a j
  -- L is bit-1, bit or bit+1
  have hLlo : 53 + j ≤ L := by
    by_contra hcon
    have hLlt : L + 1 ≤ 53 + j := by omega
    have : N < D * 2 ^ (53 + j) := Nat.lt_of_lt_of_le hL2 (Nat.mul_le_mul_left _ (Nat.pow_le_pow_right (by decide) hLlt))
    rw [hpw 53] at this
    -- but N ≥ b*D − g*D ≥ (2^54 − 1)·g·D
    have hbD : 2 ^ 54 * (2 ^ j * D) ≤ b * D := by
      calc 2 ^ 54 * (2 ^ j * D) = 2 ^ 54 * 2 ^ j * D := by ring
        _ ≤ b * D := Nat.mul_le_mul_right _ hblo
    have e : D * (2 ^ 53 * 2 ^ j) = 2 ^ 53 * (2 ^ j * D) := by ring
    have hX : 0 < 2 ^ j * D := Nat.mul_pos hg hD
    rw [e] at this
    omega
  have hLhi : L ≤ 55 + j := by
    by_contra hcon
    have hLgt : 56 + j ≤ L := by omega
    have : D * 2 ^ (56 + j) ≤ N := Nat.le_trans (Nat.mul_le_mul_left _ (Nat.pow_le_pow_right (by decide) hLgt)) hL1
    rw [hpw 56] at this
    have hbD : b * D < 2 ^ 55 * (2 ^ j * D) := by
      calc b * D < 2 ^ 55 * 2 ^ j * D := Nat.mul_lt_mul_of_pos_right hbhi hD
        _ = 2 ^ 55 * (2 ^ j * D) := by ring
    have e : D * (2 ^ 56 * 2 ^ j) = 2 ^ 56 * (2 ^ j * D) := by ring
    have hX : 0 < 2 ^ j * D := Nat.mul_pos hg hD
    rw [e] at this
    omega
  by_cases hsame : max L (sh - 1022) = max (54 + j) (sh - 1022)
  · -- same effective binade: one unit, quarter g' ≥ g
    rw [hsame]
    generalize hB0 : max (54 + j) (sh - 1022) = B0
    have hB0ge : 54 + j ≤ B0 := by omega
    obtain ⟨i, hi⟩ : ∃ i, B0 = 54 + j + i := ⟨B0 - (54 + j), by omega⟩
    have hgi : 0 < 2 ^ (j + i) := Nat.pow_pos (by decide)
    have hgle : 2 ^ j * D ≤ 2 ^ (j + i) * D :=
      Nat.mul_le_mul_right _ (Nat.pow_le_pow_right (by decide) (by omega))
    obtain ⟨k1, k2⟩ := rat_same_unit b N D (2 ^ (j + i)) hD hgi (by omega) (by omega)
    have e1 : 2 ^ (B0 - 53) = 2 * 2 ^ (j + i) := by
      rw [hi, show 54 + j + i - 53 = 1 + (j + i) by omega, Nat.pow_add]
    have e2 : 2 ^ (B0 - 52) = 4 * 2 ^ (j + i) := by
      rw [hi, show 54 + j + i - 52 = 2 + (j + i) by omega, Nat.pow_add]
    rw [e1, e2]
    omega
  · -- the exact value is in a neighbouring binade and `b` is in the normal range
    have hnorm : sh - 1022 ≤ 54 + j := by
      by_contra hc
      apply hsame
      omega
    have hBe : max (54 + j) (sh - 1022) = 54 + j := by omega
    rw [hBe]
    rcases Nat.lt_or_ge L (54 + j) with hl | hl
    · -- L = bit − 1, and still normal
      have hLe : L = 53 + j := by omega
      subst hLe
      have hsub : sh - 1022 ≤ 53 + j := by
        by_contra hc
        apply hsame; omega
      have hLm : max (53 + j) (sh - 1022) = 53 + j := by omega
      rw [hLm]
      obtain ⟨c1, c2⟩ := rat_cross_down b N D (2 ^ j) hD hg hblo h1 (by rw [← hpw 54, show 54 + j = 53 + j + 1 by omega]; exact hL2)
      have e1 : 2 ^ (54 + j - 53) = 2 * 2 ^ j := by rw [show 54 + j - 53 = 1 + j by omega, Nat.pow_add]
      have e2 : 2 ^ (53 + j - 52) = 2 * 2 ^ j := by rw [show 53 + j - 52 = 1 + j by omega, Nat.pow_add]
      rw [e1, e2, c1, c2]
      have : (54 + j + 1022 - sh) * 2 ^ 52 = (53 + j + 1022 - sh) * 2 ^ 52 + 2 ^ 52 := by
        rw [show 54 + j + 1022 - sh = (53 + j + 1022 - sh) + 1 by omega]; ring
      omega
    · have hLe : L = 55 + j := by
        rcases Nat.lt_or_ge (54 + j) L with h | h
        · omega
        · exfalso; apply hsame
          have : L = 54 + j := by omega
          rw [this]
      subst hLe
      have hLm : max (55 + j) (sh - 1022) = 55 + j := by omega
      rw [hLm]
      obtain ⟨c1, c2⟩ := rat_cross_up b N D (2 ^ j) hD hg hbhi h2 (by rw [← hpw 55]; exact hL1)
      have e1 : 2 ^ (54 + j - 53) = 2 * 2 ^ j := by rw [show 54 + j - 53 = 1 + j by omega, Nat.pow_add]
      have e2 : 2 ^ (55 + j - 52) = 8 * 2 ^ j := by rw [show 55 + j - 52 = 3 + j by omega, Nat.pow_add]
      rw [e1, e2, c1, c2]
      have : (55 + j + 1022 - sh) * 2 ^ 52 = (54 + j + 1022 - sh) * 2 ^ 52 + 2 ^ 52 := by
        rw [show 55 + j + 1022 - sh = (54 + j + 1022 - sh) + 1 by omega]; ring
      omega

end Qentem.Round
