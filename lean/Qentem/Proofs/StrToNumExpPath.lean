import Qentem.Proofs.StrToNumPaths
import Qentem.Proofs.StrToNumPosUlp
import Qentem.Proofs.StrToNumNegUlp
/-! C09 helper lemmas: the whole path of `strToNum` for `d₁ digits (e|E) [+] digits`
(integer mantissa of at most 19 digits, non-negative exponent). -/
namespace Qentem.StrToNum
open Qentem.Round

theorem sub32_eq (a b : Nat) (h : b ≤ a) (ha : a < 2 ^ 32) : sub32 a b = a - b := by
  unfold sub32; omega

theorem add32_eq (a b : Nat) (h : a + b < 2 ^ 32) : add32 a b = a + b := by
  unfold add32; exact Nat.mod_eq_of_lt h

theorem decVal_lt_pow : ∀ l : List Nat, AllDigits l → decVal l < 10 ^ l.length
  | [], _ => by simp [decVal]
  | y :: ys, hl => by
    rw [decVal_cons]
    have hy : isDigit y = true := hl y (by simp)
    have ih := decVal_lt_pow ys (fun z hz => hl z (by simp [hz]))
    simp [isDigit] at hy
    have h9 : (y - 48) * 10 ^ ys.length ≤ 9 * 10 ^ ys.length := Nat.mul_le_mul_right _ (by omega)
    simp only [List.length_cons, Nat.pow_succ]
    omega

/-- the exponent digit loop over a run of at most 8 digits accumulates its decimal value -/
theorem expDigits_run (c : List Nat) (e : Nat) : ∀ (ks : List Nat) (k off x : Nat),
    AllDigits ks → unitsAt c e off ks → ks.length ≤ k → ks.length ≤ 8 → x < 10 ^ (8 - ks.length) →
    expDigits c e k off x = expDigits c e (k - ks.length) (off + ks.length) (x * 10 ^ ks.length + decVal ks)
  | [], k, off, x, _, _, _, _, _ => by simp [decVal]
  | d :: ks, 0, _, _, _, _, hk, _, _ => by simp at hk
  | d :: ks, k + 1, off, x, hd, hu, hk, h8, hx => by
    have hdig : isDigit d = true := hd d (by simp)
    simp only [List.length_cons] at hk h8 hx
    have hx8 : x < 100000000 := by
      have : 10 ^ (8 - (ks.length + 1)) ≤ 10 ^ 8 := Nat.pow_le_pow_right (by decide) (by omega)
      omega
    have hstep : (x * 10 + (d - 48)) % 2 ^ 32 = x * 10 + (d - 48) := by
      simp [isDigit] at hdig
      exact Nat.mod_eq_of_lt (by omega)
    have hx' : x * 10 + (d - 48) < 10 ^ (8 - ks.length) := by
      have e1 : 10 ^ (8 - ks.length) = 10 ^ (8 - (ks.length + 1)) * 10 := by
        rw [← Nat.pow_succ]; congr 1; omega
      simp [isDigit] at hdig
      rw [e1]; omega
    rw [expDigits, hu.1]
    simp only [hdig, if_true, hx8, hstep]
    rw [expDigits_run c e ks k (off + 1) _ (fun y hy => hd y (by simp [hy])) hu.2 (by omega) (by omega) hx']
    simp only [List.length_cons]
    rw [decVal_cons, show k + 1 - (ks.length + 1) = k - ks.length by omega,
      show off + 1 + ks.length = off + (ks.length + 1) by omega]
    congr 1
    rw [Nat.pow_succ]; ring

theorem expDigits_all (c : List Nat) (e : Nat) (ks : List Nat) (off : Nat) (hd : AllDigits ks)
    (hu : unitsAt c e off ks) (h8 : ks.length ≤ 8) (hend : endsAt c e (off + ks.length) isDigit) :
    expDigits c e (e - off) off 0 = some (decVal ks, off + ks.length) := by
  have hle : off + ks.length ≤ e := by
    cases ks with
    | nil => rcases hend with h | ⟨x, hx, _⟩
             · simp at h ⊢; omega
             · have := rd_lt hx; simp at this ⊢; omega
    | cons d ks => exact unitsAt_le c e _ off hu (by simp)
  rw [expDigits_run c e ks (e - off) off 0 hd hu (by omega) h8 (Nat.pow_pos (by decide))]
  simp only [Nat.zero_mul, Nat.zero_add]
  rcases hend with h | ⟨x, hx, hc⟩
  · have : e - off - ks.length = 0 := by omega
    rw [this]; rfl
  · have := rd_lt hx
    obtain ⟨j, hj⟩ : ∃ j, e - off - ks.length = j + 1 := ⟨e - off - ks.length - 1, by omega⟩
    rw [hj, expDigits, hx]; simp [hc]

/-- `d₁ xs m [+] ks`: mantissa `v = d₁xs` (≤ 19 digits), exponent `k = ks` (1..8 digits). -/
theorem afterSign_exp_pos (c : List Nat) (e : Nat) (neg : Bool) (off d1 : Nat) (xs : List Nat) (m : Nat)
    (plus ks : List Nat) (he : e < 2 ^ 32) (h1 : isNonZeroDigit d1 = true) (hxs : AllDigits xs) (hlen : xs.length ≤ 18)
    (hm : m = 101 ∨ m = 69) (hplus : plus = [] ∨ plus = [43]) (hks : AllDigits ks) (hk0 : ks ≠ []) (hk8 : ks.length ≤ 8)
    (hu : unitsAt c e off (d1 :: xs ++ [m] ++ plus ++ ks))
    (hend : endsAt c e (off + 1 + xs.length + 1 + plus.length + ks.length) isDigit) :
    afterSign c e neg off =
      realResult neg (decVal (d1 :: xs)) (xs.length + 1) (decVal ks) false (off + 1 + xs.length + 1 + plus.length + ks.length) := by
  -- split the units
  have hu1 := (unitsAt_append c e (d1 :: xs ++ [m] ++ plus) ks off).1 hu
  have hu2 := (unitsAt_append c e (d1 :: xs ++ [m]) plus off).1 hu1.1
  have hu3 := (unitsAt_append c e (d1 :: xs) [m] off).1 hu2.1
  have hd1xs : unitsAt c e off (d1 :: xs) := hu3.1
  have hP : rd c e (off + (d1 :: xs).length) = some m := hu3.2.1
  simp only [List.length_cons, List.length_append, List.length_nil] at hP hu1 hu2
  have hoff : off < e := rd_lt hd1xs.1
  have hPe := rd_lt hP
  have hmd : isDigit m = false := by rcases hm with h | h <;> subst h <;> decide
  have hmde : isDotOrE m = true := by rcases hm with h | h <;> subst h <;> decide
  have hm46 : m ≠ 46 := by omega
  have hv64 : decVal (d1 :: xs) < 2 ^ 64 := by
    rw [decVal_cons]
    have hx : decVal xs < 10 ^ xs.length := decVal_lt_pow xs hxs
    simp [isNonZeroDigit] at h1
    have h18 : 10 ^ xs.length ≤ 10 ^ 18 := Nat.pow_le_pow_right (by decide) hlen
    have : (d1 - 48) * 10 ^ xs.length ≤ 9 * 10 ^ xs.length := Nat.mul_le_mul_right _ (by omega)
    have : (9 : Nat) * 10 ^ 18 + 10 ^ 18 < 2 ^ 64 := by decide
    omega
  have hfold : xs.foldl pushDigit (d1 - 48) = decVal (d1 :: xs) := by
    rw [foldl_pushDigit xs (d1 - 48) (by rw [decVal_cons] at hv64; exact hv64), decVal_cons]
  have hvpos : decVal (d1 :: xs) ≠ 0 := by
    have := decVal_ge d1 xs h1
    have : 0 < 10 ^ xs.length := Nat.pow_pos (by decide)
    omega
  rw [afterSign]
  simp only [hoff, if_true, hd1xs.1, h1]
  rw [windowEnd_eq e off he hoff]
  rw [iter1_digits c e _ xs (off + 1) (d1 - 48) d1 0 false (isDigit_ne_dot (isNonZeroDigit_isDigit h1)) hxs hd1xs.2
    (by split <;> omega)
    (by
      by_cases hk : (if e - off < 19 then e else off + 19) - (off + 1) = xs.length
      · exact Or.inl hk
      · exact Or.inr ⟨m, by rw [show off + 1 + xs.length = off + (xs.length + 1) by omega]; exact hP, hmd, hm46⟩)]
  simp only [thenScan, hfold]
  have hP' : rd c e (off + 1 + xs.length) = some m := by
    rw [show off + 1 + xs.length = off + (xs.length + 1) by omega]; exact hP
  have ht : twentieth c e (decVal (d1 :: xs)) (off + 1 + xs.length) false =
      some (decVal (d1 :: xs), off + 1 + xs.length, off + 1 + xs.length, true) := by
    have hlt : off + 1 + xs.length < e := rd_lt hP'
    unfold twentieth
    simp [hlt, hP', hmde]
  rw [afterScan_of_twentieth_real c e neg off false ⟨decVal (d1 :: xs), off + 1 + xs.length, false, 0, false⟩ _ _ _ ht]
  rw [finishReal]
  -- the tail loop: the marker, then the exponent
  have hPlt : off + 1 + xs.length < e := rd_lt hP'
  obtain ⟨kk, hkk⟩ : ∃ kk, e - (off + 1 + xs.length) = kk + 1 := ⟨e - (off + 1 + xs.length) - 1, by omega⟩
  have hks1 : ∃ k1 kt, ks = k1 :: kt := by
    cases ks with
    | nil => exact absurd rfl hk0
    | cons a b => exact ⟨a, b, rfl⟩
  obtain ⟨k1, kt, hkseq⟩ := hks1
  have hk1d : isDigit k1 = true := hks k1 (by rw [hkseq]; simp)
  have hk1ns : ¬ (k1 = 43 ∨ k1 = 45) := by simp [isDigit] at hk1d; omega
  have hpe : parseExponent c e (off + 1 + xs.length + 1) =
      some (true, decVal ks, false, off + 1 + xs.length + 1 + plus.length + ks.length) := by
    unfold parseExponent
    rcases hplus with hp | hp
    · subst hp
      simp only [List.length_nil, Nat.add_zero] at hu1 hend ⊢
      have hk1r : rd c e (off + 1 + xs.length + 1) = some k1 := by
        have := hu1.2; rw [hkseq] at this
        rw [show off + 1 + xs.length + 1 = off + (xs.length + 1 + 1 + 0) by omega]; exact this.1
      have hlt := rd_lt hk1r
      simp only [hlt, if_true, hk1r, hk1ns, if_false]
      rw [expDigits_all c e ks (off + 1 + xs.length + 1) hks
        (by rw [show off + 1 + xs.length + 1 = off + (xs.length + 1 + 1 + 0) by omega]; exact hu1.2) hk8 hend]
      have : (off + 1 + xs.length + 1 + ks.length != off + 1 + xs.length + 1) = true := by
        have : 0 < ks.length := by rw [hkseq]; simp
        simp; omega
      simp [this]
    · subst hp
      simp only [List.length_singleton] at hu1 hu2 hend ⊢
      have hpr : rd c e (off + 1 + xs.length + 1) = some 43 := by
        rw [show off + 1 + xs.length + 1 = off + (xs.length + 1 + 1) by omega]; exact hu2.2.1
      have hlt := rd_lt hpr
      have hk1r : rd c e (off + 1 + xs.length + 1 + 1) = some k1 := by
        have := hu1.2; rw [hkseq] at this
        rw [show off + 1 + xs.length + 1 + 1 = off + (xs.length + 1 + 1 + 1) by omega]; exact this.1
      have hlt1 := rd_lt hk1r
      simp only [hlt, if_true, hpr, true_or, hlt1, hk1r, hk1ns, if_false]
      rw [expDigits_all c e ks (off + 1 + xs.length + 1 + 1) hks
        (by rw [show off + 1 + xs.length + 1 + 1 = off + (xs.length + 1 + 1 + 1) by omega]; exact hu1.2) hk8 hend]
      have : (off + 1 + xs.length + 1 + 1 + ks.length != off + 1 + xs.length + 1 + 1) = true := by
        have : 0 < ks.length := by rw [hkseq]; simp
        simp; omega
      simp [this]
  have htail : tailLoop c e (decVal (d1 :: xs)) (e - (off + 1 + xs.length)) (off + 1 + xs.length) false 0 =
      some (.inr ⟨off + 1 + xs.length + 1 + plus.length + ks.length, false, 0, off + 1 + xs.length, decVal ks, false⟩) := by
    rw [hkk, tailLoop, hP']
    simp only [hmd, Bool.false_eq_true, if_false, hm46, hm, if_true, hpe]
  simp only [htail]
  have hk8' : ¬ (decVal ks ≥ 100000000 ∧ decVal (d1 :: xs) ≠ 0) := by
    have hx : decVal ks < 10 ^ ks.length := decVal_lt_pow ks hks
    have : 10 ^ ks.length ≤ 10 ^ 8 := Nat.pow_le_pow_right (by decide) hk8
    omega
  simp only [hk8', if_false]
  -- exponent bookkeeping
  have hkslen : 0 < ks.length := by rw [hkseq]; simp
  have hendle : off + 1 + xs.length + 1 + plus.length + ks.length ≤ e := by
    rcases hend with h | ⟨x, hx, _⟩
    · omega
    · exact Nat.le_of_lt (rd_lt hx)
  have hadj : adjustExponent false (off + 1 + xs.length) 0 0
      ⟨off + 1 + xs.length + 1 + plus.length + ks.length, false, 0, off + 1 + xs.length, decVal ks, false⟩ = (decVal ks, false) := by
    have hk32 : decVal ks < 2 ^ 32 := by
      have hx : decVal ks < 10 ^ ks.length := decVal_lt_pow ks hks
      have : 10 ^ ks.length ≤ 10 ^ 8 := Nat.pow_le_pow_right (by decide) hk8
      omega
    unfold adjustExponent
    have hne : off + 1 + xs.length ≠ off + 1 + xs.length + 1 + plus.length + ks.length := by omega
    have hne0 : off + 1 + xs.length ≠ 0 := by omega
    simp only [Bool.not_false, true_and, ne_eq, hne, not_false_eq_true, if_true, hne0, if_false, Bool.false_eq_true]
    rw [sub32_eq _ _ (Nat.le_refl _) (by omega), Nat.sub_self, add32_eq _ _ (by omega), Nat.add_zero]
    simp only [Nat.zero_le, ge_iff_le, if_true]
    rw [sub32_eq _ _ (Nat.zero_le _) hk32, Nat.sub_zero]
  simp only [Bool.not_false, Bool.true_and, Bool.false_eq_true, if_false, hadj]
  have hep : sub32 (sub32 (off + 1 + xs.length) off) (b2n false) = xs.length + 1 := by
    simp only [b2n, Bool.false_eq_true, if_false]
    rw [sub32_eq (off + 1 + xs.length) off (by omega) (by omega), sub32_eq _ 0 (Nat.zero_le _) (by omega)]; omega
  rw [hep]


/-- `d₁ xs m - ks`: the same with a negative exponent. -/
theorem afterSign_exp_neg (c : List Nat) (e : Nat) (neg : Bool) (off d1 : Nat) (xs : List Nat) (m : Nat)
    (ks : List Nat) (he : e < 2 ^ 32) (h1 : isNonZeroDigit d1 = true) (hxs : AllDigits xs) (hlen : xs.length ≤ 18)
    (hm : m = 101 ∨ m = 69) (hks : AllDigits ks) (hk0 : ks ≠ []) (hk8 : ks.length ≤ 8)
    (hu : unitsAt c e off (d1 :: xs ++ [m] ++ [45] ++ ks))
    (hend : endsAt c e (off + 1 + xs.length + 1 + 1 + ks.length) isDigit) :
    afterSign c e neg off =
      realResult neg (decVal (d1 :: xs)) (xs.length + 1) (decVal ks) (decide (decVal ks ≠ 0)) (off + 1 + xs.length + 1 + 1 + ks.length) := by
  -- split the units
  have hu1 := (unitsAt_append c e (d1 :: xs ++ [m] ++ [45]) ks off).1 hu
  have hu2 := (unitsAt_append c e (d1 :: xs ++ [m]) [45] off).1 hu1.1
  have hu3 := (unitsAt_append c e (d1 :: xs) [m] off).1 hu2.1
  have hd1xs : unitsAt c e off (d1 :: xs) := hu3.1
  have hP : rd c e (off + (d1 :: xs).length) = some m := hu3.2.1
  simp only [List.length_cons, List.length_append, List.length_nil] at hP hu1 hu2
  have hoff : off < e := rd_lt hd1xs.1
  have hPe := rd_lt hP
  have hmd : isDigit m = false := by rcases hm with h | h <;> subst h <;> decide
  have hmde : isDotOrE m = true := by rcases hm with h | h <;> subst h <;> decide
  have hm46 : m ≠ 46 := by omega
  have hv64 : decVal (d1 :: xs) < 2 ^ 64 := by
    rw [decVal_cons]
    have hx : decVal xs < 10 ^ xs.length := decVal_lt_pow xs hxs
    simp [isNonZeroDigit] at h1
    have h18 : 10 ^ xs.length ≤ 10 ^ 18 := Nat.pow_le_pow_right (by decide) hlen
    have : (d1 - 48) * 10 ^ xs.length ≤ 9 * 10 ^ xs.length := Nat.mul_le_mul_right _ (by omega)
    have : (9 : Nat) * 10 ^ 18 + 10 ^ 18 < 2 ^ 64 := by decide
    omega
  have hfold : xs.foldl pushDigit (d1 - 48) = decVal (d1 :: xs) := by
    rw [foldl_pushDigit xs (d1 - 48) (by rw [decVal_cons] at hv64; exact hv64), decVal_cons]
  have hvpos : decVal (d1 :: xs) ≠ 0 := by
    have := decVal_ge d1 xs h1
    have : 0 < 10 ^ xs.length := Nat.pow_pos (by decide)
    omega
  rw [afterSign]
  simp only [hoff, if_true, hd1xs.1, h1]
  rw [windowEnd_eq e off he hoff]
  rw [iter1_digits c e _ xs (off + 1) (d1 - 48) d1 0 false (isDigit_ne_dot (isNonZeroDigit_isDigit h1)) hxs hd1xs.2
    (by split <;> omega)
    (by
      by_cases hk : (if e - off < 19 then e else off + 19) - (off + 1) = xs.length
      · exact Or.inl hk
      · exact Or.inr ⟨m, by rw [show off + 1 + xs.length = off + (xs.length + 1) by omega]; exact hP, hmd, hm46⟩)]
  simp only [thenScan, hfold]
  have hP' : rd c e (off + 1 + xs.length) = some m := by
    rw [show off + 1 + xs.length = off + (xs.length + 1) by omega]; exact hP
  have ht : twentieth c e (decVal (d1 :: xs)) (off + 1 + xs.length) false =
      some (decVal (d1 :: xs), off + 1 + xs.length, off + 1 + xs.length, true) := by
    have hlt : off + 1 + xs.length < e := rd_lt hP'
    unfold twentieth
    simp [hlt, hP', hmde]
  rw [afterScan_of_twentieth_real c e neg off false ⟨decVal (d1 :: xs), off + 1 + xs.length, false, 0, false⟩ _ _ _ ht]
  rw [finishReal]
  -- the tail loop: the marker, then the exponent
  have hPlt : off + 1 + xs.length < e := rd_lt hP'
  obtain ⟨kk, hkk⟩ : ∃ kk, e - (off + 1 + xs.length) = kk + 1 := ⟨e - (off + 1 + xs.length) - 1, by omega⟩
  have hks1 : ∃ k1 kt, ks = k1 :: kt := by
    cases ks with
    | nil => exact absurd rfl hk0
    | cons a b => exact ⟨a, b, rfl⟩
  obtain ⟨k1, kt, hkseq⟩ := hks1
  have hk1d : isDigit k1 = true := hks k1 (by rw [hkseq]; simp)
  have hk1ns : ¬ (k1 = 43 ∨ k1 = 45) := by simp [isDigit] at hk1d; omega
  have hpe : parseExponent c e (off + 1 + xs.length + 1) =
      some (true, decVal ks, true, off + 1 + xs.length + 1 + 1 + ks.length) := by
    unfold parseExponent
    have hpr : rd c e (off + 1 + xs.length + 1) = some 45 := by
      rw [show off + 1 + xs.length + 1 = off + (xs.length + 1 + 1) by omega]; exact hu2.2.1
    have hlt := rd_lt hpr
    have hk1r : rd c e (off + 1 + xs.length + 1 + 1) = some k1 := by
      have := hu1.2; rw [hkseq] at this
      rw [show off + 1 + xs.length + 1 + 1 = off + (xs.length + 1 + 1 + 1) by omega]; exact this.1
    have hlt1 := rd_lt hk1r
    simp only [hlt, if_true, hpr, or_true, hlt1, hk1r, hk1ns, if_false]
    rw [expDigits_all c e ks (off + 1 + xs.length + 1 + 1) hks
      (by rw [show off + 1 + xs.length + 1 + 1 = off + (xs.length + 1 + 1 + 1) by omega]; exact hu1.2) hk8 hend]
    have : (off + 1 + xs.length + 1 + 1 + ks.length != off + 1 + xs.length + 1 + 1) = true := by
      have : 0 < ks.length := by rw [hkseq]; simp
      simp; omega
    simp [this]
  have htail : tailLoop c e (decVal (d1 :: xs)) (e - (off + 1 + xs.length)) (off + 1 + xs.length) false 0 =
      some (.inr ⟨off + 1 + xs.length + 1 + 1 + ks.length, false, 0, off + 1 + xs.length, decVal ks, true⟩) := by
    rw [hkk, tailLoop, hP']
    simp only [hmd, Bool.false_eq_true, if_false, hm46, hm, if_true, hpe]
  simp only [htail]
  have hk8' : ¬ (decVal ks ≥ 100000000 ∧ decVal (d1 :: xs) ≠ 0) := by
    have hx : decVal ks < 10 ^ ks.length := decVal_lt_pow ks hks
    have : 10 ^ ks.length ≤ 10 ^ 8 := Nat.pow_le_pow_right (by decide) hk8
    omega
  simp only [hk8', if_false]
  -- exponent bookkeeping
  have hkslen : 0 < ks.length := by rw [hkseq]; simp
  have hendle : off + 1 + xs.length + 1 + 1 + ks.length ≤ e := by
    rcases hend with h | ⟨x, hx, _⟩
    · omega
    · exact Nat.le_of_lt (rd_lt hx)
  have hadj : adjustExponent false (off + 1 + xs.length) 0 0
      ⟨off + 1 + xs.length + 1 + 1 + ks.length, false, 0, off + 1 + xs.length, decVal ks, true⟩ =
      (decVal ks, decide (decVal ks ≠ 0)) := by
    have hk32 : decVal ks < 2 ^ 32 := by
      have hx : decVal ks < 10 ^ ks.length := decVal_lt_pow ks hks
      have : 10 ^ ks.length ≤ 10 ^ 8 := Nat.pow_le_pow_right (by decide) hk8
      omega
    unfold adjustExponent
    have hne : off + 1 + xs.length ≠ off + 1 + xs.length + 1 + 1 + ks.length := by omega
    have hne0 : off + 1 + xs.length ≠ 0 := by omega
    simp only [Bool.not_false, true_and, ne_eq, hne, not_false_eq_true, if_true, hne0, if_false, Bool.not_true,
      Bool.false_eq_true]
    rw [sub32_eq _ _ (Nat.le_refl _) (by omega), Nat.sub_self]
    by_cases hk0' : decVal ks = 0
    · simp [hk0', sub32, add32]
    · have hle : ¬ (decVal ks ≤ 0) := by omega
      simp only [hle, if_false, if_true, hk0', not_false_eq_true, decide_true]
      rw [sub32_eq _ 0 (Nat.zero_le _) hk32, Nat.sub_zero, add32_eq _ _ (by omega), Nat.add_zero]
  simp only [Bool.not_false, Bool.true_and, Bool.false_eq_true, if_false, hadj]
  have hep : sub32 (sub32 (off + 1 + xs.length) off) (b2n false) = xs.length + 1 := by
    simp only [b2n, Bool.false_eq_true, if_false]
    rw [sub32_eq (off + 1 + xs.length) off (by omega) (by omega), sub32_eq _ 0 (Nat.zero_le _) (by omega)]; omega
  rw [hep]



theorem maxFinite_lt_pow309 : (2 ^ 53 - 1) * 2 ^ 971 < 10 ^ 309 := by decide +kernel

theorem or_sign_mod (v : Nat) (neg : Bool) (hv : v < 2 ^ 63) :
    (v ||| (if neg then 0x8000000000000000 else 0)) % 2 ^ 63 = v := by
  cases neg with
  | false => simp; omega
  | true =>
    simp only [if_true]
    have h1 : v ||| 0x8000000000000000 = 2 ^ 63 + v := by
      have := Nat.two_pow_add_eq_or_of_lt (i := 63) (b := v) hv 1
      rw [Nat.or_comm]
      simp at this; omega
    rw [h1]; omega

/-- what `realResult` returns on the positive-exponent side for a 64-bit mantissa `v` with `n`
digits: out-of-range (`k + n > 309`, and then the value really exceeds every finite double), or a
Real within one ulp whose magnitude does not fall below the largest finite double when the value
exceeds it. -/
theorem realResult_pos (neg : Bool) (v n k off : Nat) (hv0 : 0 < v) (hv : v < 2 ^ 64) (hvn : 10 ^ (n - 1) ≤ v)
    (hn : 1 ≤ n) (hk : k < 2 ^ 31) (hn19 : n ≤ 19) :
    (k + n > 309 ∧ realResult neg v n k false off = some ⟨.notANumber, v, off⟩ ∧ (2 ^ 53 - 1) * 2 ^ 971 < v * 10 ^ k) ∨
    (k + n ≤ 309 ∧ ∃ p, realResult neg v n k false off = some ⟨.real, p ||| (if neg then 0x8000000000000000 else 0), off⟩ ∧
        p < 2 ^ 63 ∧ ulpDist p (nearestMag (v * 10 ^ k) 1) ≤ 1 ∧
        ((2 ^ 53 - 1) * 2 ^ 971 ≤ v * 10 ^ k → p = maxFiniteBits ∨ p = infBits)) := by
  have hv0' : v ≠ 0 := by omega
  have hadd : add32 k n = k + n := add32_eq _ _ (by omega)
  unfold realResult
  simp only [ne_eq, hv0', not_false_eq_true, if_true, Bool.false_eq_true, false_and, false_or, Bool.not_false, true_and,
    hadd, if_false]
  by_cases hr : k + n > 309
  · left
    refine ⟨hr, by simp [hr], ?_⟩
    have h1 : 10 ^ 309 ≤ 10 ^ (n - 1 + k) := Nat.pow_le_pow_right (by decide) (by omega)
    have h2 : 10 ^ (n - 1 + k) ≤ v * 10 ^ k := by
      rw [Nat.pow_add]; exact Nat.mul_le_mul_right _ hvn
    exact Nat.lt_of_lt_of_le maxFinite_lt_pow309 (Nat.le_trans h1 h2)
  · right
    have hk20 : k ≤ 2 ^ 20 := by omega
    obtain ⟨p, hp, hclose⟩ := powerOfPositiveTen_close v k hv0 hv hk20
    refine ⟨by omega, p, by simp [hr, hp], powerOfPositiveTen_lt v k p hp, hclose, ?_⟩
    intro hov
    obtain ⟨p', hp', hcases⟩ := powerOfPositiveTen_overflow v k hv0 hv hk20 hov
    rw [hp] at hp'; cases hp'; exact hcases


theorem minSub_pow325 : 2 ^ 1074 ≤ 10 ^ 325 := by decide +kernel

/-- what `realResult` returns on the negative-exponent side for a mantissa `257 ≤ v < 10^n`, `n ≤ 19`:
rejected only when the value is below the smallest subnormal, otherwise a Real within one ulp -/
theorem realResult_neg (neg : Bool) (v n k off : Nat) (hv0 : 0 < v) (hvk : k ≤ n + 324 → 2 ^ (k / 27) ≤ 16 * v)
    (hv : v < 2 ^ 64) (hvn : v < 10 ^ n) (hn19 : n ≤ 19) (hk : k < 2 ^ 31) :
    (k > n + 324 ∧ realResult neg v n k true off = some ⟨.notANumber, v, off⟩ ∧ v * 2 ^ 1074 < 10 ^ k) ∨
    (k ≤ n + 324 ∧ ∃ p, realResult neg v n k true off = some ⟨.real, p ||| (if neg then 0x8000000000000000 else 0), off⟩ ∧
        p < 2 ^ 63 ∧ ulpDist p (nearestMag v (10 ^ k)) ≤ 1) := by
  have hv0' : v ≠ 0 := by omega
  unfold realResult
  simp only [ne_eq, hv0', not_false_eq_true, if_true, true_and, Bool.not_true, Bool.false_eq_true, false_and, or_false]
  by_cases hr : k > n + 324
  · left
    have hsub : sub32 k n = k - n := sub32_eq _ _ (by omega) (by omega)
    have hc : k > n ∧ sub32 k n > 324 := ⟨by omega, by rw [hsub]; omega⟩
    refine ⟨hr, by simp [hc], ?_⟩
    have h1 : 10 ^ (n + 325) ≤ 10 ^ k := Nat.pow_le_pow_right (by decide) (by omega)
    calc v * 2 ^ 1074 < 10 ^ n * 2 ^ 1074 := Nat.mul_lt_mul_of_pos_right hvn (by positivity)
      _ ≤ 10 ^ n * 10 ^ 325 := Nat.mul_le_mul_left _ minSub_pow325
      _ = 10 ^ (n + 325) := (Nat.pow_add _ _ _).symm
      _ ≤ 10 ^ k := h1
  · right
    have hc : ¬ (k > n ∧ sub32 k n > 324) := by
      intro ⟨h1, h2⟩
      rw [sub32_eq _ _ (by omega) (by omega)] at h2
      omega
    obtain ⟨p, hp, hclose⟩ := powerOfNegativeTen_close v k hv0 (hvk (by omega)) hv (by omega)
    exact ⟨by omega, p, by simp [hc, hp], powerOfNegativeTen_lt v k p hp, hclose⟩

end Qentem.StrToNum
