import Qentem.Model.Mem
/-! Helper lemmas for C14 (byte copy / zero fill): the block loop and the scalar tail each write
exactly the bytes they are meant to, never fail inside the buffers and never touch anything else. -/
namespace Qentem.Mem

/-- Overwrite `blk.length` bytes of `d` at offset `o`. -/
def splice (d : List Nat) (o : Nat) (blk : List Nat) : List Nat :=
  d.take o ++ blk ++ d.drop (o + blk.length)

theorem splice_length (d : List Nat) (o : Nat) (x : List Nat) (h : o + x.length ≤ d.length) :
    (splice d o x).length = d.length := by
  simp [splice]; omega

theorem splice_splice (d : List Nat) (o : Nat) (x y : List Nat) (h : o + x.length + y.length ≤ d.length) :
    splice (splice d o x) (o + x.length) y = splice d o (x ++ y) := by
  unfold splice
  have h1 : (d.take o).length = o := by simp; omega
  have e1 : (d.take o ++ x ++ d.drop (o + x.length)).take (o + x.length) = d.take o ++ x := by
    rw [List.take_append_of_le_length (by simp; omega)]
    rw [List.take_of_length_le (by simp; omega)]
  have e2 : (d.take o ++ x ++ d.drop (o + x.length)).drop (o + x.length + y.length) = d.drop (o + (x ++ y).length) := by
    rw [List.drop_append]
    have : (d.take o ++ x).length = o + x.length := by simp; omega
    rw [List.drop_of_length_le (by omega), this]
    simp [List.drop_drop]
    congr 1; omega
  rw [e1, e2]; simp

theorem splice_nil (d : List Nat) (o : Nat) : splice d o [] = d := by
  simp [splice]

theorem take_drop_add (s : List Nat) (o b m : Nat) :
    (s.drop o).take b ++ (s.drop (o + b)).take m = (s.drop o).take (b + m) := by
  rw [List.take_add, List.drop_drop]

theorem copySimd_eq (b : Nat) (src : List Nat) : ∀ (n off : Nat) (dst : List Nat),
    off + n * b ≤ src.length → off + n * b ≤ dst.length →
    copySimd b n off dst src = some (splice dst off ((src.drop off).take (n * b))) := by
  intro n
  induction n with
  | zero => intro off dst _ _; simp [copySimd, splice_nil]
  | succ n ih =>
    intro off dst hs hd
    have hb : off + b + n * b ≤ src.length := by rw [Nat.succ_mul] at hs; omega
    have hb' : off + b + n * b ≤ dst.length := by rw [Nat.succ_mul] at hd; omega
    have hl : ((src.drop off).take b).length = b := by simp; omega
    have hload : loadBlock src off b = some ((src.drop off).take b) := by
      simp [loadBlock]; omega
    have hstore : storeBlock dst off ((src.drop off).take b) = some (splice dst off ((src.drop off).take b)) := by
      simp only [storeBlock, hl, splice]; rw [if_pos (by omega)]
    simp only [copySimd, hload, hstore]
    rw [ih (off + b) _ hb (by rw [splice_length _ _ _ (by omega)]; exact hb')]
    have h2 : ((src.drop (off + b)).take (n * b)).length = n * b := by simp; omega
    have := splice_splice dst off ((src.drop off).take b) ((src.drop (off + b)).take (n * b)) (by omega)
    rw [hl] at this
    rw [this, take_drop_add, Nat.succ_mul, Nat.add_comm b]

theorem copyTail_eq (src : List Nat) : ∀ (n off : Nat) (dst : List Nat),
    off + n ≤ src.length → off + n ≤ dst.length →
    copyTail n off dst src = some (splice dst off ((src.drop off).take n)) := by
  intro n
  induction n with
  | zero => intro off dst _ _; simp [copyTail, splice_nil]
  | succ n ih =>
    intro off dst hs hd
    have hlt : off < src.length := by omega
    have hget : src[off]? = some src[off] := by simp [hlt]
    have hst : storeByte dst off src[off] = some (splice dst off [src[off]]) := by
      simp only [storeByte, splice]; rw [if_pos (by omega)]
      congr 1
      rw [List.set_eq_take_append_cons_drop]; simp [show off < dst.length by omega]
    simp only [copyTail, hget, hst]
    rw [ih (off + 1) _ (by omega) (by rw [splice_length _ _ _ (by simp; omega)]; omega)]
    have := splice_splice dst off [src[off]] ((src.drop (off + 1)).take n) (by simp; omega)
    simp only [List.length_cons, List.length_nil, Nat.zero_add] at this
    have e : [src[off]] = (src.drop off).take 1 := by
      simp [List.take_one, List.head?_drop, hlt]
    rw [this, e, take_drop_add, Nat.add_comm 1 n]

theorem zeroSimd_eq (b : Nat) : ∀ (n off : Nat) (dst : List Nat),
    off + n * b ≤ dst.length →
    zeroSimd b n off dst = some (splice dst off (List.replicate (n * b) 0)) := by
  intro n
  induction n with
  | zero => intro off dst _; simp [zeroSimd, splice_nil]
  | succ n ih =>
    intro off dst hd
    have hb' : off + b + n * b ≤ dst.length := by rw [Nat.succ_mul] at hd; omega
    have hstore : storeBlock dst off (List.replicate b 0) = some (splice dst off (List.replicate b 0)) := by
      simp only [storeBlock, splice, List.length_replicate]; rw [if_pos (by omega)]
    simp only [zeroSimd, hstore]
    rw [ih (off + b) _ (by rw [splice_length _ _ _ (by simp; omega)]; exact hb')]
    have := splice_splice dst off (List.replicate b 0) (List.replicate (n * b) 0) (by simp; omega)
    simp only [List.length_replicate] at this
    rw [this, List.replicate_append_replicate, Nat.succ_mul, Nat.add_comm (n * b) b]

theorem zeroTail_eq : ∀ (n off : Nat) (dst : List Nat),
    off + n ≤ dst.length →
    zeroTail n off dst = some (splice dst off (List.replicate n 0)) := by
  intro n
  induction n with
  | zero => intro off dst _; simp [zeroTail, splice_nil]
  | succ n ih =>
    intro off dst hd
    have hst : storeByte dst off 0 = some (splice dst off [0]) := by
      simp only [storeByte, splice]; rw [if_pos (by omega)]
      congr 1
      rw [List.set_eq_take_append_cons_drop]; simp [show off < dst.length by omega]
    simp only [zeroTail, hst]
    rw [ih (off + 1) _ (by rw [splice_length _ _ _ (by simp; omega)]; omega)]
    have := splice_splice dst off [0] (List.replicate n 0) (by simp; omega)
    simp only [List.length_cons, List.length_nil, Nat.zero_add] at this
    rw [this, show ([0] : List Nat) = List.replicate 1 0 from rfl, List.replicate_append_replicate, Nat.add_comm 1 n]

theorem splice_zero_take (dst src : List Nat) (size : Nat) (hs : size ≤ src.length) (_hd : size ≤ dst.length) :
    splice dst 0 (src.take size) = copySpec size dst src := by
  have : (src.take size).length = size := by simp; omega
  simp [splice, copySpec, this]

theorem copy_core (b m size : Nat) (dst src : List Nat) (hs : size ≤ src.length) (hd : size ≤ dst.length)
    (hmb : m * b ≤ size) :
    (match copySimd b m 0 dst src with
      | none => none
      | some d1 => copyTail (size - m * b) (m * b) d1 src) = some (copySpec size dst src) := by
  rw [copySimd_eq b src m 0 dst (by omega) (by omega)]
  simp only [List.drop_zero]
  have hl : (src.take (m * b)).length = m * b := by simp; omega
  rw [copyTail_eq src _ _ _ (by omega) (by rw [splice_length _ _ _ (by omega)]; omega)]
  have h1 := splice_splice dst 0 (src.take (m * b)) ((src.drop (m * b)).take (size - m * b)) (by
    rw [hl]; simp; omega)
  rw [hl, Nat.zero_add] at h1
  have h2 := take_drop_add src 0 (m * b) (size - m * b)
  rw [Nat.zero_add, List.drop_zero, Nat.add_sub_cancel' hmb] at h2
  rw [h1, h2, splice_zero_take dst src size hs hd]

theorem zero_core (b m size : Nat) (dst : List Nat) (hd : size ≤ dst.length) (hmb : m * b ≤ size) :
    (match zeroSimd b m 0 dst with
      | none => none
      | some d1 => zeroTail (size - m * b) (m * b) d1) = some (zeroSpec size dst) := by
  rw [zeroSimd_eq b m 0 dst (by omega)]
  simp only
  rw [zeroTail_eq _ _ _ (by rw [splice_length _ _ _ (by simp; omega)]; omega)]
  have h1 := splice_splice dst 0 (List.replicate (m * b) 0) (List.replicate (size - m * b) 0) (by simp; omega)
  simp only [List.length_replicate, Nat.zero_add] at h1
  rw [h1, List.replicate_append_replicate, Nat.add_sub_cancel' hmb]
  simp [splice, zeroSpec]

theorem simd_guard (b m : Nat) (dst src : List Nat) :
    (if (m != 0) = true then copySimd b m 0 dst src else some dst) = copySimd b m 0 dst src := by
  cases m <;> simp [copySimd]

theorem zero_guard (b m : Nat) (dst : List Nat) :
    (if (m != 0) = true then zeroSimd b m 0 dst else some dst) = zeroSimd b m 0 dst := by
  cases m <;> simp [zeroSimd]

theorem blocks_le (size shift : Nat) : (size >>> shift) <<< shift ≤ size := by
  rw [Nat.shiftRight_eq_div_pow, Nat.shiftLeft_eq]
  exact Nat.div_mul_le_self size (2 ^ shift)

end Qentem.Mem
