import Qentem.Proofs.StrToNumNegTable
/-! C09/C11: the finite table of `StrToNumNegTable`, evaluated by the kernel (`decide +kernel`, no
native code): 16 996 pairs `(v, x)` with `x < 344`, `1 ≤ v < thr x` — each one runs the model's
`powerOfNegativeTen v x` and the reference `nearestMag v (10^x)` (about 2 ms a pair). -/
namespace Qentem.StrToNum

theorem rows_0 : allFrom rowB 0 262 = true := by decide +kernel
theorem rows_262 : allFrom rowB 262 27 = true := by decide +kernel
theorem rows_289 : allFrom rowB 289 27 = true := by decide +kernel
theorem rows_316 : allFrom rowB 316 7 = true := by decide +kernel
theorem rows_323 : allFrom rowB 323 7 = true := by decide +kernel
theorem rows_330 : allFrom rowB 330 7 = true := by decide +kernel
theorem rows_337 : allFrom rowB 337 7 = true := by decide +kernel

/-- every row of the table holds -/
theorem rowB_all (x : Nat) (hx : x < 344) : rowB x = true := by
  rcases Nat.lt_or_ge x 262 with h | h
  · exact allFrom_spec _ _ _ rows_0 x (Nat.zero_le _) (by omega)
  rcases Nat.lt_or_ge x 289 with h1 | h1
  · exact allFrom_spec _ _ _ rows_262 x h (by omega)
  rcases Nat.lt_or_ge x 316 with h2 | h2
  · exact allFrom_spec _ _ _ rows_289 x h1 (by omega)
  rcases Nat.lt_or_ge x 323 with h3 | h3
  · exact allFrom_spec _ _ _ rows_316 x h2 (by omega)
  rcases Nat.lt_or_ge x 330 with h4 | h4
  · exact allFrom_spec _ _ _ rows_323 x h3 (by omega)
  rcases Nat.lt_or_ge x 337 with h5 | h5
  · exact allFrom_spec _ _ _ rows_330 x h4 (by omega)
  · exact allFrom_spec _ _ _ rows_337 x h5 (by omega)

theorem table_entry (x v : Nat) (hx : x < 344) (hv0 : 0 < v) (hv : v < thr x) : okB x v = true := by
  have := rowB_all x hx
  unfold rowB at this
  exact allFrom_spec _ _ _ this v hv0 (by omega)

end Qentem.StrToNum
