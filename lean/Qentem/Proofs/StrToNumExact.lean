import Qentem.Proofs.StrToNumNegAll
import Qentem.Proofs.StrToNumFrac
/-! C09/C11 helper lemmas: `realResult` returns exactly the correctly rounded pattern under the
1/32 margin (both directions of the decimal exponent, every mantissa; the three numerals `negExc`
— `1e-273`, `1e-286`, `1e-292` — excepted). -/
namespace Qentem.StrToNum
open Qentem.Round

theorem binadeExp_nat (V : Nat) (hV : 0 < V) : binadeExp V 1 = (Nat.log2 V : Int) := by
  obtain ⟨h1, h2⟩ := log2_bounds V (by omega)
  have := floorLog2Frac_shift V 1 (Nat.log2 V) 0 hV (by decide) (by simpa using h1) (by simpa using h2)
  unfold binadeExp
  rw [this]
  split <;> omega

theorem marginInt_of_pair (V : Nat) (hV : 0 < V) (hm : MarginPair (roundPair V 1).1 (roundPair V 1).2) : MarginInt V := by
  unfold roundPair at hm
  rw [binadeExp_nat V hV] at hm
  unfold MarginInt
  by_cases hL : Nat.log2 V ≤ 52
  · exact Or.inl hL
  · right
    have hq : (0 : Int) ≤ (Nat.log2 V : Int) - 52 := by omega
    have t : ((Nat.log2 V : Int) - 52).toNat = Nat.log2 V - 52 := by omega
    rw [if_pos hq, t] at hm
    simp only [Nat.one_mul] at hm
    exact hm

/-- the exact version of `realResult_class`: in range, under the margin (and, for a negative net
exponent, not one of the three `negExc` numerals), the result is `Real` with exactly the correctly rounded magnitude -/
theorem realResult_exact (neg : Bool) (v n X : Nat) (FLAG : Bool) (off : Nat) (hv0 : 0 < v) (hv : v < 2 ^ 64)
    (hn19 : n ≤ 19) (hX : X < 2 ^ 31)
    (hrange : if FLAG then X ≤ n + 324 else X + n ≤ 309)
    (hcond : FLAG = true → ¬ negExc v X)
    (hm : if FLAG then MarginPair (roundPair v (10 ^ X)).1 (roundPair v (10 ^ X)).2
          else MarginPair (roundPair (v * 10 ^ X) 1).1 (roundPair (v * 10 ^ X) 1).2) :
    realResult neg v n X FLAG off =
      some ⟨.real, (if FLAG then nearestMag v (10 ^ X) else nearestMag (v * 10 ^ X) 1) |||
        (if neg then 0x8000000000000000 else 0), off⟩ := by
  have hv0' : v ≠ 0 := by omega
  unfold realResult
  cases FLAG with
  | false =>
    simp only [Bool.false_eq_true, if_false] at hrange hm ⊢
    have hadd : add32 X n = X + n := add32_eq _ _ (by omega)
    have hno : ¬ (add32 X n > 309) := by rw [hadd]; omega
    simp only [ne_eq, hv0', not_false_eq_true, if_true, false_and, false_or, Bool.not_false, true_and, hno, if_false]
    have hpos : 0 < v * 10 ^ X := Nat.mul_pos hv0 (Nat.pow_pos (by decide))
    rw [powerOfPositiveTen_exact v X hv0 hv (by omega) (marginInt_of_pair _ hpos hm)]
  | true =>
    simp only [if_true] at hrange hm ⊢
    have hno : ¬ (X > n ∧ sub32 X n > 324) := by
      intro ⟨h1, h2⟩
      rw [sub32_eq _ _ (by omega) (by omega)] at h2
      omega
    simp only [ne_eq, hv0', not_false_eq_true, if_true, true_and, hno, Bool.not_true, Bool.false_eq_true, false_and,
      or_false, if_false]
    rw [powerOfNegativeTen_exact17 v X hv0 hv (by omega) (hcond rfl) hm]

end Qentem.StrToNum
