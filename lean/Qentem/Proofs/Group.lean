import Qentem.Model.Value
import Qentem.Model.Group
import Qentem.Proofs.ValueSlots
/-! Lemmas relating `groupByA` (the loop of Value.hpp) to `groupBySpec` (the fold). -/
namespace Qentem.Value
open Doc

def copyMembers (m : List (Key × Doc)) : List (Key × Doc) := m.map (fun e => (e.1, copyDoc e.2))

theorem isUndef_copyDoc (v : Doc) : (copyDoc v).isUndef = v.isUndef := by
  cases v <;> simp [copyDoc, isUndef]

theorem members_liveSlots (s : List Slot) : members (liveSlots s) = members s := by
  induction s with
  | nil => rfl
  | cons a t ih =>
    cases a with
    | none => simp [liveSlots, members, ih]
    | some e => obtain ⟨k, v⟩ := e; simp [liveSlots, members, ih]

theorem members_slotUpd_fresh (k : Key) (f : Doc → Doc) (s : List Slot) (h : slotFind k s = none)
    (hf : (f undef).isUndef = false) : members (slotUpd k f s) = members s ++ [(k, f undef)] := by
  induction s with
  | nil => simp [slotUpd, members, hf]
  | cons a t ih =>
    cases a with
    | none => simp_all [slotUpd, members, slotFind]
    | some e =>
      obtain ⟨k2, v⟩ := e
      by_cases h1 : k2 = k
      · simp [slotFind, h1] at h
      · have ht : slotFind k t = none := by simpa [slotFind, h1] using h
        by_cases hv : v.isUndef = true <;> simp [slotUpd, members, h1, hv, ih ht]

theorem keysOf_slotUpd_fresh (k : Key) (f : Doc → Doc) (s : List Slot) (h : slotFind k s = none) :
    keysOf (slotUpd k f s) = keysOf s ++ [k] := by
  simp [keysOf, liveEntries_slotUpd_absent k f s h]

theorem keysOf_liveSlots (s : List Slot) : keysOf (liveSlots s) = keysOf s := by
  simp [keysOf, liveEntries_liveSlots]

theorem assocFind_members (key : Key) (s : List Slot) (h : allDefined s = true) :
    assocFind key (members s) = slotFind key s := by
  induction s with
  | nil => rfl
  | cons a t ih =>
    cases a with
    | none => simpa [members, slotFind, allDefined] using ih (by simpa [allDefined] using h)
    | some e =>
      obtain ⟨k, v⟩ := e
      have hv : v.isUndef = false ∧ allDefined t = true := by simpa [allDefined] using h
      by_cases hk : k = key <;> simp [members, hv.1, assocFind, slotFind, hk, ih hv.2]

/-! ### the scratch object -/

theorem subObjSet_members (k : Key) (v : Doc) (o : Nat × List Slot) (hk : k ∉ keysOf o.2) (hv : v.isUndef = false) :
    members (subObjSet k v o).2 = members o.2 ++ [(k, copyDoc v)] ∧
    keysOf (subObjSet k v o).2 = keysOf o.2 ++ [k] := by
  have hf : slotFind k o.2 = none := (slotFind_none_iff _ _).2 hk
  unfold subObjSet objExpand
  by_cases hc : o.2.length = o.1
  · have hf' : slotFind k (liveSlots o.2) = none := by simpa [slotFind_liveSlots] using hf
    simp only [hc, if_true]
    exact ⟨by rw [members_slotUpd_fresh _ _ _ hf' (by simp [isUndef_copyDoc, hv]), members_liveSlots],
           by rw [keysOf_slotUpd_fresh _ _ _ hf', keysOf_liveSlots]⟩
  · simp only [hc, if_false]
    exact ⟨members_slotUpd_fresh _ _ _ hf (by simp [isUndef_copyDoc, hv]), keysOf_slotUpd_fresh _ _ _ hf⟩

/-- what one element contributes: the text of its grouping member (else the text carried over) and the
scratch object extended by copies of its other members. -/
def scanText (fmtReal : Nat → List Nat) (env : Env) (key : Key) (slots : List Slot) (cur : Key) : Key :=
  match slotFind key slots with
  | some v =>
    match groupText fmtReal env v with
    | some t => t
    | none => cur
  | none => cur

theorem groupScan_spec (fmtReal : Nat → List Nat) (env : Env) (key : Key) (slots : List Slot) :
    ∀ (cur : Key) (sub : Nat × List Slot),
    keysNodup slots → allDefined slots = true →
    (∀ k ∈ keysOf slots, k ∉ keysOf sub.2) →
    (∀ v, slotFind key slots = some v → (groupText fmtReal env v).isSome = true) →
    ∃ sub', groupScan fmtReal env key slots cur sub = some (scanText fmtReal env key slots cur, sub') ∧
      members sub'.2 = members sub.2 ++ copyMembers ((members slots).filter (fun e => decide (e.1 ≠ key))) := by
  induction slots with
  | nil => intro cur sub _ _ _ _; exact ⟨sub, by simp [groupScan, scanText, slotFind], by simp [members, copyMembers]⟩
  | cons a t ih =>
    intro cur sub hn hd hfresh htext
    cases a with
    | none =>
      have := ih cur sub (by simpa [keysNodup, keysOf, liveEntries] using hn) (by simpa [allDefined] using hd)
        (by simpa [keysOf, liveEntries] using hfresh) (by simpa [slotFind] using htext)
      simpa [groupScan, scanText, slotFind, members] using this
    | some e =>
      obtain ⟨k, v⟩ := e
      have hv : v.isUndef = false ∧ allDefined t = true := by simpa [allDefined] using hd
      have hn' : k ∉ keysOf t ∧ keysNodup t := by
        simpa [keysNodup, keysOf, liveEntries, List.nodup_cons] using hn
      by_cases hk : k = key
      · subst hk
        have hsome := htext v (by simp [slotFind])
        obtain ⟨tx, htx⟩ := Option.isSome_iff_exists.1 hsome
        have hnot : slotFind k t = none := (slotFind_none_iff _ _).2 hn'.1
        obtain ⟨sub', h1, h2⟩ := ih tx sub hn'.2 hv.2
          (fun k' hk' => hfresh k' (by simp [keysOf, liveEntries]; right; simpa [keysOf] using hk'))
          (by intro v' hv'; simp [hnot] at hv')
        refine ⟨sub', ?_, ?_⟩
        · simp only [groupScan, hv.1, Bool.false_eq_true, if_false, ne_eq, not_true_eq_false, htx]
          simpa [scanText, slotFind, hnot, htx] using h1
        · simpa [members, hv.1] using h2
      · have hkfresh : k ∉ keysOf sub.2 := hfresh k (by simp [keysOf, liveEntries])
        obtain ⟨hm, hks⟩ := subObjSet_members k v sub hkfresh hv.1
        obtain ⟨sub', h1, h2⟩ := ih cur (subObjSet k v sub) hn'.2 hv.2
          (by
            intro k' hk'
            rw [hks]
            simp only [List.mem_append, List.mem_singleton, not_or]
            refine ⟨hfresh k' (by simp [keysOf, liveEntries]; right; simpa [keysOf] using hk'), ?_⟩
            intro he; subst he; exact hn'.1 hk')
          (by intro v' hv'; exact htext v' (by simpa [slotFind, hk] using hv'))
        refine ⟨sub', ?_, ?_⟩
        · simp only [groupScan, hv.1, Bool.false_eq_true, if_false, ne_eq, hk, not_false_eq_true, if_true]
          simpa [scanText, slotFind, hk] using h1
        · rw [h2, hm]
          simp [members, hv.1, hk, copyMembers]

/-! ### the grouped result -/

/-- every live value of the result is an array (of the grouped objects). -/
def allArr : List Slot → Bool
  | [] => true
  | none :: r => allArr r
  | some (_, arr _) :: r => allArr r
  | some _ :: _ => false

def viewGroup (g : Key × Doc) : Key × List (List (Key × Doc)) :=
  (g.1, match g.2 with
        | arr items => items.map (fun it => match it with
            | obj _ s => members s
            | _ => [])
        | _ => [])

def viewSlots (s : List Slot) : List (Key × List (List (Key × Doc))) := (members s).map viewGroup

theorem groupView_obj (c : Nat) (s : List Slot) : groupView (obj c s) = viewSlots s := rfl

theorem viewSlots_liveSlots (s : List Slot) : viewSlots (liveSlots s) = viewSlots s := by
  simp [viewSlots, members_liveSlots]

theorem allArr_liveSlots (s : List Slot) (h : allArr s = true) : allArr (liveSlots s) = true := by
  induction s with
  | nil => rfl
  | cons a t ih =>
    cases a with
    | none => simpa [liveSlots, allArr] using ih (by simpa [allArr] using h)
    | some e =>
      obtain ⟨k, v⟩ := e
      cases v <;> simp_all [liveSlots, allArr]

theorem slotUpd_addObj_view (cur : Key) (xc : Nat) (xs : List Slot) (s : List Slot) (h : allArr s = true) :
    viewSlots (slotUpd cur (addObj xc xs) s) = groupInsert cur (members xs) (viewSlots s) ∧
    allArr (slotUpd cur (addObj xc xs) s) = true := by
  induction s with
  | nil => simp [slotUpd, viewSlots, members, addObj, pushDoc, asArr, isUndef, viewGroup, groupInsert, allArr]
  | cons a t ih =>
    cases a with
    | none =>
      have := ih (by simpa [allArr] using h)
      simpa [slotUpd, viewSlots, members, allArr] using this
    | some e =>
      obtain ⟨k, v⟩ := e
      cases v with
      | arr items =>
        have ht : allArr t = true := by simpa [allArr] using h
        by_cases hk : k = cur
        · subst hk
          simp [slotUpd, viewSlots, members, addObj, pushDoc, asArr, isUndef, viewGroup, groupInsert, allArr, ht]
        · have := ih ht
          simp only [viewSlots] at this
          simp [slotUpd, viewSlots, members, isUndef, viewGroup, groupInsert, allArr, hk, this.1, this.2]
      | _ => simp [allArr] at h

theorem groupAdd_view (cur : Key) (sub res : Nat × List Slot) (h : allArr res.2 = true) :
    viewSlots (groupAdd cur sub res).2 = groupInsert cur (members sub.2) (viewSlots res.2) ∧
    allArr (groupAdd cur sub res).2 = true := by
  unfold groupAdd objExpand
  by_cases hc : res.2.length = res.1
  · simp only [hc, if_true]
    have := slotUpd_addObj_view cur sub.1 sub.2 (liveSlots res.2) (allArr_liveSlots _ h)
    simpa [viewSlots_liveSlots] using this
  · simp only [hc, if_false]
    exact slotUpd_addObj_view cur sub.1 sub.2 res.2 h

/-! ### specification side -/

def copyView (g : List (Key × List (List (Key × Doc)))) : List (Key × List (List (Key × Doc))) :=
  g.map (fun e => (e.1, e.2.map copyMembers))

theorem copyView_groupInsert (t : Key) (o : List (Key × Doc)) (acc : List (Key × List (List (Key × Doc)))) :
    copyView (groupInsert t o acc) = groupInsert t (copyMembers o) (copyView acc) := by
  induction acc with
  | nil => simp [groupInsert, copyView]
  | cons a r ih =>
    obtain ⟨t', xs⟩ := a
    by_cases h : t' = t
    · simp [groupInsert, copyView, h]
    · simp only [copyView] at ih
      simp [groupInsert, copyView, h, ih]

/-- an input element of the quantifier's domain: an object with distinct keys, no never-assigned member,
holding the grouping key with a value that has a text. -/
def GoodItem (fmtReal : Nat → List Nat) (env : Env) (key : Key) (it : Doc) : Prop :=
  ∃ c s, it = obj c s ∧ keysNodup s ∧ allDefined s = true ∧
    ∃ v, slotFind key s = some v ∧ (groupText fmtReal env v).isSome = true

def itemMembers : Doc → List (Key × Doc)
  | obj _ s => members s
  | _ => []

theorem groupLoop_spec (fmtReal : Nat → List Nat) (env : Env) (key : Key) (items : List Doc) :
    ∀ (cur : Key) (res : Nat × List Slot) (acc : List (Key × List (List (Key × Doc)))),
    (∀ it ∈ items, GoodItem fmtReal env key it) → allArr res.2 = true → viewSlots res.2 = copyView acc →
    ∃ res' g, groupLoop fmtReal env key items cur res = (true, res') ∧
      groupBySpec (groupText fmtReal env) key (items.map itemMembers) acc = some g ∧
      viewSlots res'.2 = copyView g ∧ allArr res'.2 = true := by
  induction items with
  | nil => intro cur res acc _ ha hv; exact ⟨res, acc, rfl, rfl, hv, ha⟩
  | cons it rest ih =>
    intro cur res acc hgood ha hv
    obtain ⟨c, s, rfl, hn, hd, v, hfind, htext⟩ := hgood it List.mem_cons_self
    obtain ⟨tx, htx⟩ := Option.isSome_iff_exists.1 htext
    obtain ⟨sub', hscan, hmem⟩ := groupScan_spec fmtReal env key s cur (0, []) hn hd
      (by intro k _; simp [keysOf, liveEntries])
      (by intro v' hv'; rw [hfind] at hv'; cases hv'; exact htext)
    have hcur : scanText fmtReal env key s cur = tx := by simp [scanText, hfind, htx]
    have hadd := groupAdd_view tx sub' res ha
    have hentry : groupEntry (groupText fmtReal env) key (members s) =
        some (tx, (members s).filter (fun e => decide (e.1 ≠ key))) := by
      simp [groupEntry, assocFind_members key s hd, hfind, htx]
    obtain ⟨res', g, h1, h2, h3, h4⟩ := ih tx (groupAdd tx sub' res)
      (groupInsert tx ((members s).filter (fun e => decide (e.1 ≠ key))) acc)
      (fun it' h' => hgood it' (List.mem_cons_of_mem _ h')) hadd.2
      (by rw [hadd.1, hv, copyView_groupInsert, hmem]; simp [members])
    refine ⟨res', g, ?_, ?_, h3, h4⟩
    · simp only [groupLoop, hscan, hcur]; exact h1
    · simp only [List.map_cons, itemMembers, groupBySpec, hentry]; exact h2

end Qentem.Value
