import Qentem.Proofs.StrToNumPaths
import Qentem.Proofs.StrToNumSign
/-! C09/C05 helper lemmas: no checked read of `strToNum` ever fails when `end_offset ≤ length`
(memory safety for every input), and the offset of every accepted result lies in `(offset, end]`. -/
namespace Qentem.StrToNum

variable (c : List Nat) (e : Nat)

theorem rd_some (hc : e ≤ c.length) {i : Nat} (h : i < e) : ∃ x, rd c e i = some x := by
  unfold rd
  simp only [h, if_true]
  exact ⟨c[i]'(by omega), List.getElem?_eq_getElem (by omega)⟩

theorem hexLoop_ok (hc : e ≤ c.length) : ∀ (k off num : Nat), k ≤ e - off →
    ∃ v o, hexLoop c e k off num = some (v, o) ∧ off ≤ o ∧ o ≤ off + k
  | 0, off, num, _ => ⟨num, off, rfl, Nat.le_refl _, Nat.le_refl _⟩
  | k + 1, off, num, hk => by
    obtain ⟨x, hx⟩ := rd_some c e hc (show off < e by omega)
    rw [hexLoop, hx]; simp only
    have ih := fun n => hexLoop_ok hc k (off + 1) n (by omega)
    split
    · obtain ⟨v, o, h1, h2, h3⟩ := ih (num * 16 % 2 ^ 64 ||| x - 48); exact ⟨v, o, h1, by omega, by omega⟩
    · split
      · obtain ⟨v, o, h1, h2, h3⟩ := ih (num * 16 % 2 ^ 64 ||| x - 55); exact ⟨v, o, h1, by omega, by omega⟩
      · split
        · obtain ⟨v, o, h1, h2, h3⟩ := ih (num * 16 % 2 ^ 64 ||| x - 87); exact ⟨v, o, h1, by omega, by omega⟩
        · exact ⟨num, off, rfl, Nat.le_refl _, by omega⟩

theorem skipZeros_ok (hc : e ≤ c.length) : ∀ (k off dg : Nat), k ≤ e - off →
    ∃ o d, skipZeros c e k off dg = some (o, d) ∧ off ≤ o ∧ o ≤ off + k
  | 0, off, dg, _ => ⟨off, dg, rfl, Nat.le_refl _, Nat.le_refl _⟩
  | k + 1, off, dg, hk => by
    obtain ⟨x, hx⟩ := rd_some c e hc (show off < e by omega)
    rw [skipZeros, hx]; simp only
    split
    · obtain ⟨o, d, h1, h2, h3⟩ := skipZeros_ok hc k (off + 1) x (by omega); exact ⟨o, d, h1, by omega, by omega⟩
    · exact ⟨off, x, rfl, Nat.le_refl _, by omega⟩

theorem scanDigits_ok (hc : e ≤ c.length) : ∀ (k off num dg : Nat), k ≤ e - off →
    ∃ o n d, scanDigits c e k off num dg = some (o, n, d) ∧ off ≤ o ∧ o ≤ off + k ∧
      ((o = off ∧ d = dg) ∨ isDigit d = true ∨ rd c e o = some d)
  | 0, off, num, dg, _ => ⟨off, num, dg, rfl, Nat.le_refl _, Nat.le_refl _, Or.inl ⟨rfl, rfl⟩⟩
  | k + 1, off, num, dg, hk => by
    obtain ⟨x, hx⟩ := rd_some c e hc (show off < e by omega)
    rw [scanDigits, hx]; simp only
    split
    · rename_i hdx
      obtain ⟨o, n, d, h1, h2, h3, h4⟩ := scanDigits_ok hc k (off + 1) (pushDigit num x) x (by omega)
      refine ⟨o, n, d, h1, by omega, by omega, ?_⟩
      rcases h4 with ⟨_, h⟩ | h | h
      · exact Or.inr (Or.inl (by rw [h]; exact hdx))
      · exact Or.inr (Or.inl h)
      · exact Or.inr (Or.inr h)
    · exact ⟨off, num, x, rfl, Nat.le_refl _, by omega, Or.inr (Or.inr hx)⟩

theorem expDigits_ok (hc : e ≤ c.length) : ∀ (k off x : Nat), k ≤ e - off →
    ∃ v o, expDigits c e k off x = some (v, o) ∧ off ≤ o ∧ o ≤ off + k
  | 0, off, x, _ => ⟨x, off, rfl, Nat.le_refl _, Nat.le_refl _⟩
  | k + 1, off, x, hk => by
    obtain ⟨d, hd⟩ := rd_some c e hc (show off < e by omega)
    rw [expDigits, hd]; simp only
    split
    · obtain ⟨v, o, h1, h2, h3⟩ := expDigits_ok hc k (off + 1) _ (by omega); exact ⟨v, o, h1, by omega, by omega⟩
    · exact ⟨x, off, rfl, Nat.le_refl _, by omega⟩

theorem parseExponent_ok (hc : e ≤ c.length) (off : Nat) (ho : off ≤ e) :
    ∃ ok x n o, parseExponent c e off = some (ok, x, n, o) ∧ off ≤ o ∧ o ≤ e := by
  unfold parseExponent
  split
  · rename_i h
    obtain ⟨d, hd⟩ := rd_some c e hc h
    rw [hd]; simp only
    split
    · split
      · rename_i h1
        obtain ⟨d1, hd1⟩ := rd_some c e hc h1
        rw [hd1]; simp only
        split
        · exact ⟨_, _, _, _, rfl, by omega, by omega⟩
        · obtain ⟨v, o, h2, h3, h4⟩ := expDigits_ok c e hc (e - (off + 1)) (off + 1) 0 (Nat.le_refl _)
          rw [h2]; exact ⟨_, _, _, _, rfl, by omega, by omega⟩
      · exact ⟨_, _, _, _, rfl, by omega, by omega⟩
    · obtain ⟨v, o, h2, h3, h4⟩ := expDigits_ok c e hc (e - off) off 0 (Nat.le_refl _)
      rw [h2]; exact ⟨_, _, _, _, rfl, by omega, by omega⟩
  · exact ⟨_, _, _, _, rfl, Nat.le_refl _, ho⟩

theorem tailLoop_ok (hc : e ≤ c.length) (num : Nat) : ∀ (k off : Nat) (hasDot : Bool) (dotOff : Nat), k ≤ e - off → off ≤ e →
    ∃ r, tailLoop c e num k off hasDot dotOff = some r ∧ ∀ t, r = .inr t → off ≤ t.off ∧ t.off ≤ e
  | 0, off, hasDot, dotOff, _, ho => ⟨_, rfl, fun t ht => by cases ht; exact ⟨Nat.le_refl _, ho⟩⟩
  | k + 1, off, hasDot, dotOff, hk, ho => by
    obtain ⟨d, hd⟩ := rd_some c e hc (show off < e by omega)
    rw [tailLoop, hd]; simp only
    split
    · obtain ⟨r, h1, h2⟩ := tailLoop_ok hc num k (off + 1) hasDot dotOff (by omega) (by omega)
      exact ⟨r, h1, fun t ht => by have := h2 t ht; omega⟩
    · split
      · split
        · obtain ⟨r, h1, h2⟩ := tailLoop_ok hc num k (off + 1) true off (by omega) (by omega)
          exact ⟨r, h1, fun t ht => by have := h2 t ht; omega⟩
        · exact ⟨_, rfl, fun t ht => by cases ht⟩
      · split
        · obtain ⟨ok, x, n, o, h1, h2, h3⟩ := parseExponent_ok c e hc (off + 1) (by omega)
          rw [h1]; simp only
          split
          · exact ⟨_, rfl, fun t ht => by cases ht; exact ⟨by show off ≤ o; omega, h3⟩⟩
          · exact ⟨_, rfl, fun t ht => by cases ht⟩
        · exact ⟨_, rfl, fun t ht => by cases ht; exact ⟨Nat.le_refl _, ho⟩⟩

end Qentem.StrToNum

namespace Qentem.StrToNum

variable (c : List Nat) (e : Nat)

/-- what the safety/offset lemmas say about a scan result -/
def ScanOk (lo : Nat) (r : Option (Res ⊕ Scan)) : Prop :=
  ∃ x, r = some x ∧ (∀ r', x = .inl r' → r'.kind = .notANumber) ∧ (∀ s, x = .inr s → lo ≤ s.off ∧ s.off ≤ e)

theorem ScanOk.inr (lo : Nat) (s : Scan) (a : lo ≤ s.off) (b : s.off ≤ e) : ScanOk e lo (some (.inr s)) :=
  ⟨_, rfl, (fun r' h => by cases h), (fun s' h => by cases h; exact ⟨a, b⟩)⟩

theorem ScanOk.nan (lo b o : Nat) : ScanOk e lo (some (.inl ⟨.notANumber, b, o⟩)) :=
  ⟨_, rfl, (fun r' h => by cases h; rfl), (fun s' h => by cases h)⟩

theorem iter2_ok (hc : e ≤ c.length) (maxEnd num off dg dotOff : Nat) (hm : maxEnd ≤ e) (ho : off ≤ e) :
    ScanOk e off (iter2 c e maxEnd num off dg dotOff) := by
  unfold iter2
  split
  · obtain ⟨o, n, d, h1, h2, h3, _⟩ := scanDigits_ok c e hc (maxEnd - off) off num dg (by omega)
    rw [h1]; simp only
    split
    · exact ScanOk.nan e off _ _
    · exact ScanOk.inr e off _ h2 (by show o ≤ e; omega)
  · exact ScanOk.inr e off _ (Nat.le_refl _) ho

theorem ScanOk_mono {lo lo' : Nat} {r : Option (Res ⊕ Scan)} (h : ScanOk e lo r) (hl : lo' ≤ lo) : ScanOk e lo' r := by
  obtain ⟨x, h1, h2, h3⟩ := h
  exact ⟨x, h1, h2, fun s hs => by have := h3 s hs; omega⟩

theorem iter1_ok (hc : e ≤ c.length) (maxEnd num off dg : Nat) (hasDot : Bool) (dotOff : Nat) (isReal : Bool)
    (hm : maxEnd ≤ e) (ho : off ≤ e) :
    ScanOk e off (iter1 c e maxEnd num off dg hasDot dotOff isReal) := by
  unfold iter1
  split
  · exact iter2_ok c e hc maxEnd num off dg dotOff hm ho
  · split
    · rename_i hoe
      obtain ⟨o, n, d, h1, h2, h3, h4⟩ := scanDigits_ok c e hc (maxEnd - off) off num dg (by omega)
      rw [h1]; simp only
      have stay : ∀ (s : Scan), off ≤ s.off → s.off ≤ e → ScanOk e off (some (.inr s)) :=
        fun s a b => ScanOk.inr e off s a b
      split
      · rename_i h46
        have hoe1 : o < e := by
          rcases h4 with ⟨h, _⟩ | h | h
          · omega
          · rw [h46] at h; simp [isDigit] at h
          · exact rd_lt h
        split
        · rename_i h2m
          obtain ⟨d2, hd2⟩ := rd_some c e hc (show o + 1 < e by omega)
          rw [hd2]; simp only
          split
          · exact ScanOk_mono e (iter2_ok c e hc maxEnd n (o + 1) d2 o hm (by omega)) (by omega)
          · split
            · rename_i h3m
              obtain ⟨d3, hd3⟩ := rd_some c e hc (show o + 1 + 1 < e by omega)
              rw [hd3]; simp only
              split
              · exact ScanOk_mono e (iter2_ok c e hc maxEnd n (o + 1) d3 o hm (by omega)) (by omega)
              · exact stay _ (by show off ≤ o + 1; omega) (by show o + 1 ≤ e; omega)
            · exact stay _ (by show off ≤ o + 1; omega) (by show o + 1 ≤ e; omega)
        · exact stay _ (by show off ≤ o + 1; omega) (by show o + 1 ≤ e; omega)
      · exact stay _ h2 (by show o ≤ e; omega)
    · exact ScanOk.inr e off _ (Nat.le_refl _) ho

theorem twentieth_ok (hc : e ≤ c.length) (num off : Nat) (isReal : Bool) (ho : off ≤ e) :
    ∃ n o t ir, twentieth c e num off isReal = some (n, o, t, ir) ∧ off ≤ o ∧ o ≤ e := by
  unfold twentieth
  split
  · rename_i h
    obtain ⟨d, hd⟩ := rd_some c e hc h.2
    rw [hd]; simp only
    split
    · exact ⟨_, _, _, _, rfl, Nat.le_refl _, ho⟩
    · split
      · split
        · exact ⟨_, _, _, _, rfl, Nat.le_refl _, ho⟩
        · split
          · rename_i h1
            obtain ⟨d2, hd2⟩ := rd_some c e hc h1
            rw [hd2]; exact ⟨_, _, _, _, rfl, by omega, by omega⟩
          · exact ⟨_, _, _, _, rfl, by omega, by omega⟩
      · exact ⟨_, _, _, _, rfl, Nat.le_refl _, ho⟩
  · exact ⟨_, _, _, _, rfl, Nat.le_refl _, ho⟩

/-- accepted results of a phase: they exist, and unless `NotANumber` their offset is in `[lo, e]` -/
def ResOk (lo : Nat) (r : Option Res) : Prop :=
  ∃ x, r = some x ∧ (x.kind ≠ .notANumber → lo ≤ x.offset ∧ x.offset ≤ e)

theorem ResOk_mono {lo lo' : Nat} {r : Option Res} (h : ResOk e lo r) (hl : lo' ≤ lo) : ResOk e lo' r := by
  obtain ⟨x, h1, h2⟩ := h
  exact ⟨x, h1, fun hk => by have := h2 hk; omega⟩

theorem finishReal_ok (hc : e ≤ c.length) (neg : Bool) (num off tmp start : Nat) (fo hasDot : Bool) (dotOff : Nat)
    (ho : off ≤ e) : ResOk e off (finishReal c e neg num off tmp start fo hasDot dotOff) := by
  obtain ⟨r, h1, h2⟩ := tailLoop_ok c e hc num (e - off) off hasDot dotOff (Nat.le_refl _) ho
  rw [finishReal]
  simp only [h1]
  cases r with
  | inl r' =>
    simp only
    exact ⟨r', rfl, fun hk => absurd (tailLoop_inl c e num _ _ _ _ r' h1) hk⟩
  | inr t =>
    simp only
    split
    · exact ⟨_, rfl, fun hk => absurd rfl hk⟩
    obtain ⟨x, hx1, hx2, _⟩ := realResult_some neg num
      (sub32 (sub32 tmp start) (b2n (!fo && hasDot)))
      (adjustExponent fo off dotOff (if fo = true then add32 (sub32 (sub32 tmp start) (b2n (!fo && hasDot))) (sub32 (sub32 start dotOff) 1)
        else if hasDot = true then sub32 (sub32 off dotOff) 1 else 0) t).1
      (adjustExponent fo off dotOff (if fo = true then add32 (sub32 (sub32 tmp start) (b2n (!fo && hasDot))) (sub32 (sub32 start dotOff) 1)
        else if hasDot = true then sub32 (sub32 off dotOff) 1 else 0) t).2 t.off
    exact ⟨x, hx1, fun _ => by rw [hx2]; exact h2 t rfl⟩

theorem afterScan_ok (hc : e ≤ c.length) (neg : Bool) (start : Nat) (fo : Bool) (s : Scan) (ho : s.off ≤ e) :
    ResOk e s.off (afterScan c e neg start fo s) := by
  obtain ⟨n, o, t, ir, h1, h2, h3⟩ := twentieth_ok c e hc s.num s.off s.isReal ho
  rw [afterScan, h1]; simp only
  split
  · exact ⟨_, rfl, fun _ => ⟨h2, h3⟩⟩
  · split
    · exact ⟨_, rfl, fun _ => ⟨h2, h3⟩⟩
    · split
      · exact ⟨_, rfl, fun _ => ⟨h2, h3⟩⟩
      · exact ResOk_mono e (finishReal_ok c e hc neg n o t start fo s.hasDot s.dotOff h3) h2

theorem thenScan_ok (hc : e ≤ c.length) (neg : Bool) (start : Nat) (fo : Bool) (lo : Nat) (r : Option (Res ⊕ Scan))
    (h : ScanOk e lo r) : ResOk e lo (thenScan r (afterScan c e neg start fo)) := by
  obtain ⟨x, h1, h2, h3⟩ := h
  subst h1
  cases x with
  | inl r' => exact ⟨r', rfl, fun hk => absurd (h2 r' rfl) hk⟩
  | inr s =>
    have := h3 s rfl
    exact ResOk_mono e (afterScan_ok c e hc neg start fo s this.2) this.1

theorem windowEnd_le (off : Nat) (he : e < 2 ^ 32) (ho : off ≤ e) : windowEnd e off ≤ e := by
  unfold windowEnd sub32 add32
  split
  · exact Nat.le_refl _
  · omega

end Qentem.StrToNum

namespace Qentem.StrToNum

variable (c : List Nat) (e : Nat)

theorem ResOk.nan (lo b o : Nat) : ResOk e lo (some ⟨.notANumber, b, o⟩) :=
  ⟨_, rfl, fun hk => absurd rfl hk⟩

/-- a lone `0` as the last unit: the scan consumes it -/
theorem iter1_zero_last (off : Nat) (he : e < 2 ^ 32) (h0 : rd c e off = some 48) (hl : ¬ (off + 1 < e)) :
    iter1 c e (windowEnd e off) 0 off 48 false 0 false = some (.inr ⟨0, off + 1, false, 0, false⟩) := by
  have hoff := rd_lt h0
  have := iter1_digits c e (windowEnd e off) [48] off 0 48 0 false (by decide)
    (by intro y hy; simp at hy; subst hy; decide) ⟨h0, trivial⟩
    (by rw [windowEnd_eq e off he hoff]; split <;> simp <;> omega)
    (Or.inl (by rw [windowEnd_eq e off he hoff]; split <;> simp <;> omega))
  simpa [pushDigit] using this

theorem afterSign_ok (hc : e ≤ c.length) (he : e < 2 ^ 32) (neg : Bool) (off : Nat) :
    ResOk e (off + 1) (afterSign c e neg off) := by
  rw [afterSign]
  split
  · rename_i hoff
    obtain ⟨d, hd⟩ := rd_some c e hc hoff
    rw [hd]; simp only
    have hW : ∀ o, o ≤ e → windowEnd e o ≤ e := fun o h => windowEnd_le e o he h
    split
    · exact thenScan_ok c e hc neg off false (off + 1) _
        (iter1_ok c e hc (windowEnd e off) (d - 48) (off + 1) d false 0 false (hW off (by omega)) (by omega))
    · split
      · rename_i hz
        -- the look at the unit after a leading zero
        split
        · rename_i hstep
          exfalso
          split at hstep
          · rename_i hz1
            obtain ⟨d1, hd1⟩ := rd_some c e hc hz1.2
            rw [hd1] at hstep; simp only at hstep
            split at hstep
            · obtain ⟨v, o, h1, _, _⟩ := hexLoop_ok c e hc (e - (off + 2)) (off + 2) 0 (Nat.le_refl _)
              rw [h1] at hstep; simp at hstep
            · split at hstep <;> simp at hstep
          · simp at hstep
        · rename_i r' hstep
          split at hstep
          · rename_i hz1
            obtain ⟨d1, hd1⟩ := rd_some c e hc hz1.2
            rw [hd1] at hstep; simp only at hstep
            split at hstep
            · obtain ⟨v, o, h1, h2, h3⟩ := hexLoop_ok c e hc (e - (off + 2)) (off + 2) 0 (Nat.le_refl _)
              rw [h1] at hstep; simp only [Option.some.injEq, Sum.inl.injEq] at hstep; subst hstep
              exact ⟨_, rfl, fun _ => ⟨by show off + 1 ≤ o; omega, by show o ≤ e; omega⟩⟩
            · split at hstep
              · simp only [Option.some.injEq, Sum.inl.injEq] at hstep; subst hstep
                exact ResOk.nan e _ _ _
              · simp at hstep
          · simp at hstep
        · rename_i off1 dg hstep
          -- where the scan starts: after the zero, or on it when it is the last unit / on the dot
          have hcase : (off1 = off + 1 ∧ off + 1 < e) ∨ (off1 = off ∧ dg = d ∧ ¬ (d = 48 ∧ off + 1 < e)) := by
            split at hstep
            · rename_i hz1
              obtain ⟨d1, hd1⟩ := rd_some c e hc hz1.2
              rw [hd1] at hstep; simp only at hstep
              split at hstep
              · split at hstep <;> simp at hstep
              · split at hstep
                · simp at hstep
                · simp only [Option.some.injEq, Sum.inr.injEq, Prod.mk.injEq] at hstep
                  exact Or.inl ⟨hstep.1.symm, hz1.2⟩
            · rename_i hz1
              simp only [Option.some.injEq, Sum.inr.injEq, Prod.mk.injEq] at hstep
              exact Or.inr ⟨hstep.1.symm, hstep.2.symm, hz1⟩
          have ho1 : off ≤ off1 ∧ off1 ≤ e := by rcases hcase with h | h <;> omega
          split
          · -- fraction path
            obtain ⟨o2, d2, h1, h2, h3⟩ := skipZeros_ok c e hc (e - (off1 + 1)) (off1 + 1) dg (Nat.le_refl _)
            rw [h1]; simp only
            split
            · exact ResOk.nan e _ _ _
            · have ho2 : o2 ≤ e := by
                by_cases h : off1 + 1 ≤ e
                · omega
                · have : e - (off1 + 1) = 0 := by omega
                  rw [this] at h3
                  -- off1 < e on this path: the dot was read at off1
                  rcases hcase with hh | hh <;> omega
              exact ResOk_mono e (thenScan_ok c e hc neg o2 true o2 _
                (iter1_ok c e hc (windowEnd e o2) 0 o2 d2 true off1 true (hW o2 ho2) ho2)) (by omega)
          · rename_i hnd
            rcases hcase with ⟨h1, h2⟩ | ⟨h1, h2, h3⟩
            · subst h1
              exact thenScan_ok c e hc neg 0 false (off + 1) _
                (iter1_ok c e hc (windowEnd e (off + 1)) 0 (off + 1) dg false 0 false (hW _ (by omega)) (by omega))
            · subst h1; subst h2
              have h48 : dg = 48 := by rcases hz with h | h; exact h; exact absurd h hnd
              subst h48
              have hl : ¬ (off1 + 1 < e) := fun h => h3 ⟨rfl, h⟩
              rw [iter1_zero_last c e off1 he hd hl]
              exact thenScan_ok c e hc neg 0 false (off1 + 1) _ (ScanOk.inr e (off1 + 1) _ (Nat.le_refl _) (by show off1 + 1 ≤ e; omega))
      · exact ResOk.nan e _ _ _
  · exact ResOk.nan e _ _ _

/-- no checked read fails, and accepted results end in `(offset, end_offset]` -/
theorem strToNum_ok (hc : e ≤ c.length) (he : e < 2 ^ 32) (o : Nat) :
    ResOk e (o + 1) (strToNum c o e) := by
  rw [strToNum]
  split
  · rename_i ho
    obtain ⟨d, hd⟩ := rd_some c e hc ho
    rw [hd]; simp only
    split
    · exact ResOk_mono e (afterSign_ok c e hc he true (o + 1)) (by omega)
    · split
      · exact ResOk_mono e (afterSign_ok c e hc he false (o + 1)) (by omega)
      · exact afterSign_ok c e hc he false o
  · exact ResOk.nan e _ _ _

end Qentem.StrToNum
