import Qentem.Proofs.BigIntWideOps
import Qentem.Proofs.BigIntDiv
/-! The rest of the public surface: converting constructor, `Add/Subtract(number, index)`. -/
namespace Qentem.BigInt

/-- The converting constructor is `operator=` on a value-initialised object (nothing to clear). -/
theorem assign_zero_eq (W K n x : Nat) : assign W K (zero n) x = opK W K .set (zero n) x := by
  unfold assign
  cases h : opK W K .set (zero n) x with
  | error e => rfl
  | ok s => simp [bind, Except.bind, zeroDownTo, zero, pure, Except.pure]

/-- `Add(x, i)` when the exact sum fits. -/
theorem addAt_spec {W : Nat} (s : Big) (x i : Nat) (h : Inv W s) (hx : x < 2 ^ W)
    (hfit : s.val W + x * 2 ^ (W * i) < 2 ^ (W * s.words.length)) :
    ∃ s', add W s x i = .ok s' ∧ Inv W s' ∧ s'.words.length = s.words.length ∧ s'.val W = s.val W + x * 2 ^ (W * i) := by
  by_cases h0 : x = 0
  · subst h0
    exact ⟨s, by simp [add]; rfl, h, rfl, by simp⟩
  · have hi : i < s.words.length := by
      apply index_lt_of_pow_mul_lt h0 _ h.wpos
      rw [Nat.mul_comm]; omega
    obtain ⟨s', hrun, hw, hl, hv, _, _, htop⟩ := add_spec s x i h.toWInv hx (Nat.le_of_lt hi) hfit
    exact ⟨s', hrun, ⟨hw, htop h.top⟩, hl, hv⟩

/-- `Subtract(x, i)` when the subtrahend does not exceed the value. -/
theorem subAt_spec {W : Nat} (s : Big) (x i : Nat) (h : Inv W s) (hx : x < 2 ^ W)
    (hfit : x * 2 ^ (W * i) ≤ s.val W) :
    ∃ s', sub W s x i = .ok s' ∧ Inv W s' ∧ s'.words.length = s.words.length ∧ s'.val W = s.val W - x * 2 ^ (W * i) := by
  by_cases h0 : x = 0
  · subst h0
    exact ⟨s, by simp [sub]; rfl, h, rfl, by simp⟩
  · have hi : i < s.words.length := by
      apply index_lt_of_pow_mul_lt h0 _ h.wpos
      rw [Nat.mul_comm]
      exact Nat.lt_of_le_of_lt hfit h.toWInv.val_lt_total
    obtain ⟨s', hrun, hinv, hl, hv⟩ := sub_spec s x i h hx (Nat.le_of_lt hi) hfit
    exact ⟨s', hrun, hinv, hl, by omega⟩

end Qentem.BigInt
