import Qentem.Proofs.StrToNumNegExact
import Qentem.Proofs.StrToNumFrac
/-! C09: the negative-exponent path on a **truncated mantissa** — the scan keeps the first 18 or 19 significant digits
`v` and ignores `j` further fraction digits; the exact mantissa `vt` satisfies `v·10^j ≤ vt < (v+1)·10^j`. The result is
still within one ulp of the correctly rounded value of the exact numeral `vt / 10^(x+j)`: the pipeline error is below
`G/8` (`eighth_of_error`, the big integer has more than 100 bits) and the truncation adds less than `7G/8`
(`2^58 + 1 ≤ 7·10^17`), `G` a quarter ulp. -/
namespace Qentem.StrToNum
open Qentem.Round Qentem.Generated.StrToNum

theorem powerOfNegativeTen_close_trunc (v x j vt : Nat) (hv16 : 10 ^ 16 ≤ v) (hv : v < 2 ^ 64) (hx : x ≤ 350)
    (ht1 : v * 10 ^ j ≤ vt) (ht2 : 10 ^ 17 * vt < (10 ^ 17 + 1) * (v * 10 ^ j)) :
    ∃ p, powerOfNegativeTen v x = some p ∧ ulpDist p (nearestMag vt (10 ^ (x + j))) ≤ 1 := by
  obtain ⟨b, S, hps, hS, e1, e2⟩ := negScale_error_steps v x hv (by omega)
  have hdiv : x / 27 ≤ 12 := by omega
  have hk13 : stepsOf x ≤ 13 := Nat.le_trans (stepsOf_le x) (by omega)
  generalize stepsOf x = k at *
  have hlow := negScale_lower v x b _ hv hps
  have hb256 := negScale_lt v x b _ hps
  have hv0 : 0 < v := Nat.lt_of_lt_of_le (Nat.pow_pos (by decide)) hv16
  have h10j : 0 < 10 ^ j := Nat.pow_pos (by decide)
  have hvt0 : 0 < vt := Nat.lt_of_lt_of_le (Nat.mul_pos hv0 h10j) ht1
  -- the big integer is wide
  have hb100 : 2 ^ 100 ≤ b := by
    rcases Nat.lt_or_ge b (2 ^ 100) with h | h
    · exfalso
      have h1 : 2 ^ (x / 27 + 1) * (b + 1) ≤ 2 ^ 13 * 2 ^ 100 :=
        Nat.mul_le_mul (Nat.pow_le_pow_right (by decide) (by omega)) (by omega)
      have h2 : (2 : Nat) ^ 13 * 2 ^ 100 < 10 ^ 16 * 2 ^ 64 := by decide +kernel
      have h3 : 10 ^ 16 * 2 ^ 64 ≤ v * 2 ^ 64 := Nat.mul_le_mul_right _ hv16
      omega
    · exact h
  have hb0 : b ≠ 0 := by intro h; subst h; exact absurd hb100 (by decide)
  obtain ⟨hlo, hhi⟩ := log2_bounds b hb0
  have hbit : 100 ≤ Nat.log2 b := (Nat.le_log2 hb0).2 hb100
  have hD : 0 < 5 ^ x := Nat.pow_pos (by decide)
  have hG10 : 2 ^ 10 ≤ 2 ^ (Nat.log2 b - 54) := Nat.pow_le_pow_right (by decide) (by omega)
  have hG : 1024 * k + 1 ≤ (128 - 8 * k) * 2 ^ (Nat.log2 b - 54) := by
    have h2 : 24 ≤ 128 - 8 * k := by omega
    calc 1024 * k + 1 ≤ 24 * 2 ^ 10 := by omega
      _ ≤ (128 - 8 * k) * 2 ^ (Nat.log2 b - 54) := Nat.mul_le_mul h2 hG10
  have hbG : b < 2 ^ 55 * 2 ^ (Nat.log2 b - 54) := by
    rw [← Nat.pow_add, show 55 + (Nat.log2 b - 54) = Nat.log2 b + 1 by omega]; exact hhi
  obtain ⟨q1, q2⟩ := eighth_of_error b (v * 2 ^ (64 + S)) (5 ^ x) k (2 ^ (Nat.log2 b - 54)) hD hk13 hG hbG e1 e2
  have hGb : 2 * 2 ^ (Nat.log2 b - 54) ≤ b := by
    calc 2 * 2 ^ (Nat.log2 b - 54) = 2 ^ (Nat.log2 b - 54 + 1) := by rw [Nat.pow_succ]; ring
      _ ≤ 2 ^ Nat.log2 b := Nat.pow_le_pow_right (by decide) (by omega)
      _ ≤ b := hlo
  have hb58 : 2 ^ 59 ≤ b := Nat.le_trans (by decide) hb100
  clear e1 e2 hlow hG hG10 hlo hhi
  generalize hPd : 2 ^ (64 + S) = P at *
  generalize hGd : 2 ^ (Nat.log2 b - 54) = G at *
  generalize hDd : 5 ^ x = D at *
  have hP0 : 0 < P := by rw [← hPd]; exact Nat.pow_pos (by decide)
  -- the exact numerator and denominator in big-integer units
  have hG0 : 0 < G := by rw [← hGd]; exact Nat.pow_pos (by decide)
  have hD' : 0 < D * 10 ^ j := Nat.mul_pos hD h10j
  have q1' : b * (D * 10 ^ j) ≤ vt * P + G * (D * 10 ^ j) := by
    have h1 : b * D ≤ v * P + G * D := by
      have : G * D ≤ 8 * (G * D) := Nat.le_mul_of_pos_left _ (by decide)
      omega
    calc b * (D * 10 ^ j) = b * D * 10 ^ j := by ring
      _ ≤ (v * P + G * D) * 10 ^ j := Nat.mul_le_mul_right _ h1
      _ = v * 10 ^ j * P + G * (D * 10 ^ j) := by ring
      _ ≤ vt * P + G * (D * 10 ^ j) := Nat.add_le_add_right (Nat.mul_le_mul_right _ ht1) _
  have q2' : vt * P ≤ b * (D * 10 ^ j) + G * (D * 10 ^ j) := by
    have hA : 8 * b + G ≤ 7 * 10 ^ 17 * G := by
      have h1 : 8 * b ≤ 8 * (2 ^ 55 * G) := Nat.mul_le_mul_left _ (Nat.le_of_lt hbG)
      have h2 : 8 * (2 ^ 55 * G) + G = (2 ^ 58 + 1) * G := by ring
      have h3 : (2 ^ 58 + 1) * G ≤ 7 * 10 ^ 17 * G := Nat.mul_le_mul_right _ (by decide)
      omega
    have hB : 8 * (b * D) + G * D ≤ 7 * 10 ^ 17 * (G * D) := by
      calc 8 * (b * D) + G * D = (8 * b + G) * D := by ring
        _ ≤ 7 * 10 ^ 17 * G * D := Nat.mul_le_mul_right _ hA
        _ = 7 * 10 ^ 17 * (G * D) := by ring
    have hC : (10 ^ 17 + 1) * (8 * (b * D) + G * D) ≤ 10 ^ 17 * (8 * (b * D + G * D)) := by
      have e1 : (10 ^ 17 + 1) * (8 * (b * D) + G * D) = 10 ^ 17 * (8 * (b * D) + G * D) + (8 * (b * D) + G * D) := by ring
      have e2 : 10 ^ 17 * (8 * (b * D + G * D)) = 10 ^ 17 * (8 * (b * D) + G * D) + 7 * 10 ^ 17 * (G * D) := by ring
      omega
    have hDd : 10 ^ 17 * (8 * (vt * P)) < (10 ^ 17 + 1) * (8 * (v * P)) * 10 ^ j := by
      calc 10 ^ 17 * (8 * (vt * P)) = 10 ^ 17 * vt * (8 * P) := by ring
        _ < (10 ^ 17 + 1) * (v * 10 ^ j) * (8 * P) := Nat.mul_lt_mul_of_pos_right ht2 (by omega)
        _ = (10 ^ 17 + 1) * (8 * (v * P)) * 10 ^ j := by ring
    have hE : (10 ^ 17 + 1) * (8 * (v * P)) * 10 ^ j ≤ (10 ^ 17 + 1) * (8 * (b * D) + G * D) * 10 ^ j :=
      Nat.mul_le_mul_right _ (Nat.mul_le_mul_left _ (Nat.le_of_lt q2))
    have hF : 10 ^ 17 * (8 * (vt * P)) < 10 ^ 17 * (8 * (b * (D * 10 ^ j) + G * (D * 10 ^ j))) := by
      calc 10 ^ 17 * (8 * (vt * P)) < (10 ^ 17 + 1) * (8 * (v * P)) * 10 ^ j := hDd
        _ ≤ (10 ^ 17 + 1) * (8 * (b * D) + G * D) * 10 ^ j := hE
        _ ≤ 10 ^ 17 * (8 * (b * D + G * D)) * 10 ^ j := Nat.mul_le_mul_right _ hC
        _ = 10 ^ 17 * (8 * (b * (D * 10 ^ j) + G * (D * 10 ^ j))) := by ring
    have := Nat.lt_of_mul_lt_mul_left hF
    omega
  clear q1 q2
  generalize hN : vt * P = N at *
  generalize hD2 : D * 10 ^ j = D' at *
  have hNlow : 2 ^ 58 * D' ≤ N := by
    have h1 : (b - G) * D' ≤ N := by
      rw [Nat.sub_mul]; omega
    have h2 : 2 ^ 58 ≤ b - G := by
      have : (2 : Nat) ^ 59 = 2 ^ 58 + 2 ^ 58 := by decide
      omega
    exact Nat.le_trans (Nat.mul_le_mul_right _ h2) h1
  have hq0 : N / D' ≠ 0 := by
    intro h
    have := (Nat.div_eq_zero_iff).1 h
    rcases this with h | h
    · omega
    · have : 1 * D' ≤ 2 ^ 58 * D' := Nat.mul_le_mul_right _ (by decide)
      omega
  obtain ⟨l1, l2⟩ := log2_bounds (N / D') hq0
  generalize hL : Nat.log2 (N / D') = L at *
  have hL1 : D' * 2 ^ L ≤ N := Nat.le_trans (Nat.mul_le_mul_left _ l1) (Nat.mul_div_le _ _)
  have hL2 : N < D' * 2 ^ (L + 1) := by
    have := (Nat.div_lt_iff_lt_mul hD').1 l2
    rw [Nat.mul_comm]; exact this
  have hL52 : 52 ≤ L := by
    by_contra hc
    have : 2 ^ (L + 1) ≤ 2 ^ 58 := Nat.pow_le_pow_right (by decide) (by omega)
    have : D' * 2 ^ (L + 1) ≤ D' * 2 ^ 58 := Nat.mul_le_mul_left _ this
    rw [Nat.mul_comm D' (2 ^ 58)] at this
    omega
  obtain ⟨c1, c2⟩ := raw_close_rat b (x + 64 + S) N D' L hD' (Nat.le_trans (by decide) hb58)
    (by rw [hGd]; exact q1') (by rw [hGd]; exact q2') hL1 hL2
  have hspec : nearestMag vt (10 ^ (x + j)) = cap (ratRaw N D' (x + 64 + S) L) := by
    have h10 : (10 : Nat) ^ (x + j) = D' * 2 ^ x := by
      rw [← hD2, ← hDd, Nat.pow_add, show (10 : Nat) ^ x = 5 ^ x * 2 ^ x by
        rw [show (10 : Nat) = 5 * 2 by decide, Nat.mul_pow]]
      ring
    rw [h10]
    have hshx : x + 64 + S - x = 64 + S := by omega
    have := nearestMag_bunits vt D' x (x + 64 + S) L hvt0 hD' (by omega) hL52
      (by rw [hshx, hPd, hN]; exact hL1) (by rw [hshx, hPd, hN]; exact hL2)
    rw [hshx, hPd, hN] at this
    exact this
  refine ⟨negFinish b (x + 64 + S), by simp [powerOfNegativeTen, hps], ?_⟩
  have hb53 : 2 ^ 53 ≤ b := Nat.le_trans (by decide) hb58
  rw [negFinish_eq b (x + 64 + S) hb53 hb256 (by omega), hspec]
  have hcap : cap (codeRawNeg b (x + 64 + S)) = codeRawNeg b (x + 64 + S) := by
    have := codeRawNeg_lt_inf b (x + 64 + S) hb53 hb256
    unfold cap; simp [Nat.not_le.2 this]
  rw [← hcap]
  exact cap_close _ _ c2 c1

end Qentem.StrToNum

namespace Qentem.StrToNum
open Qentem.Round

/-- an absolute truncation bound (`< 1` unit of a mantissa `≥ 10^17`) is a relative bound of `10^-17` -/
theorem trunc_rel_of_abs (v j vt : Nat) (hv17 : 10 ^ 17 ≤ v) (ht2 : vt < (v + 1) * 10 ^ j) :
    10 ^ 17 * vt < (10 ^ 17 + 1) * (v * 10 ^ j) := by
  have h1 : 10 ^ 17 * ((v + 1) * 10 ^ j) ≤ (10 ^ 17 + 1) * (v * 10 ^ j) := by
    have e1 : 10 ^ 17 * ((v + 1) * 10 ^ j) = (10 ^ 17 * v + 10 ^ 17) * 10 ^ j := by ring
    have e2 : (10 ^ 17 + 1) * (v * 10 ^ j) = (10 ^ 17 * v + v) * 10 ^ j := by ring
    rw [e1, e2]; exact Nat.mul_le_mul_right _ (by omega)
  exact Nat.lt_of_lt_of_le (Nat.mul_lt_mul_of_pos_left ht2 (Nat.pow_pos (by decide))) h1

/-- `realResult` on the negative side for a truncated mantissa: rejected only when the exact value is below the smallest
subnormal, otherwise a Real within one ulp of the correctly rounded **exact** value `vt / 10^(x+j)` -/
theorem realResult_neg_trunc (neg : Bool) (v n x off j vt : Nat) (hv16 : 10 ^ 16 ≤ v) (hv : v < 2 ^ 64)
    (hvn : v < 10 ^ n) (hn : n ≤ 20) (hx : x < 2 ^ 31) (ht1 : v * 10 ^ j ≤ vt)
    (ht2 : 10 ^ 17 * vt < (10 ^ 17 + 1) * (v * 10 ^ j)) :
    ClassOutcome neg vt (x + j) true off (realResult neg v n x true off) := by
  have hv0 : v ≠ 0 := by
    have : 0 < 10 ^ 16 := Nat.pow_pos (by decide)
    omega
  have h10j : 0 < 10 ^ j := Nat.pow_pos (by decide)
  have ht2w : vt < 2 * v * 10 ^ j := by
    have h1 : (10 ^ 17 + 1) * (v * 10 ^ j) ≤ 10 ^ 17 * (2 * v * 10 ^ j) := by
      have e2 : 10 ^ 17 * (2 * v * 10 ^ j) = (10 ^ 17 + 10 ^ 17) * (v * 10 ^ j) := by ring
      rw [e2]; exact Nat.mul_le_mul_right _ (by decide)
    exact Nat.lt_of_mul_lt_mul_left (Nat.lt_of_lt_of_le ht2 h1)
  by_cases hr : x > n + 324
  · have hsub : sub32 x n = x - n := sub32_eq _ _ (by omega) (by omega)
    have hc : x > n ∧ sub32 x n > 324 := ⟨by omega, by rw [hsub]; omega⟩
    refine ⟨⟨.notANumber, v, off⟩, ?_, rfl, Or.inl ⟨rfl, ?_⟩⟩
    · unfold realResult; simp [hv0, hc]
    · simp only [if_true]
      have h1 : 10 ^ (n + 325) ≤ 10 ^ x := Nat.pow_le_pow_right (by decide) (by omega)
      have h2 : vt < 2 * 10 ^ n * 10 ^ j :=
        Nat.lt_of_lt_of_le ht2w (Nat.mul_le_mul_right _ (Nat.mul_le_mul_left _ (Nat.le_of_lt hvn)))
      have hm : 2 * 2 ^ 1074 ≤ 10 ^ 325 := by decide +kernel
      calc vt * 2 ^ 1074 < 2 * 10 ^ n * 10 ^ j * 2 ^ 1074 := Nat.mul_lt_mul_of_pos_right h2 (Nat.pow_pos (by decide))
        _ = 10 ^ n * 10 ^ j * (2 * 2 ^ 1074) := by ring
        _ ≤ 10 ^ n * 10 ^ j * 10 ^ 325 := Nat.mul_le_mul_left _ hm
        _ = 10 ^ (n + 325) * 10 ^ j := by rw [Nat.pow_add]; ring
        _ ≤ 10 ^ x * 10 ^ j := Nat.mul_le_mul_right _ h1
        _ = 10 ^ (x + j) := (Nat.pow_add _ _ _).symm
  · have hc : ¬ (x > n ∧ sub32 x n > 324) := by
      intro ⟨h1, h2⟩
      rw [sub32_eq _ _ (by omega) (by omega)] at h2
      omega
    obtain ⟨p, hp, hclose⟩ := powerOfNegativeTen_close_trunc v x j vt hv16 hv (by omega) ht1 ht2
    have hp63 := powerOfNegativeTen_lt v x p hp
    refine ⟨⟨.real, p ||| (if neg then 0x8000000000000000 else 0), off⟩, ?_, rfl, Or.inr ⟨rfl, or_sign_div p neg hp63, ?_, ?_⟩⟩
    · unfold realResult; simp [hv0, hc, hp]
    · simp only [if_true]
      rw [or_sign_mod p neg hp63]; exact hclose
    · simp only [if_true]
      intro hov
      exfalso
      have h10j : 0 < 10 ^ j := Nat.pow_pos (by decide)
      have h1 : vt < 2 * 2 ^ 64 * 10 ^ j :=
        Nat.lt_of_lt_of_le ht2w (Nat.mul_le_mul_right _ (Nat.mul_le_mul_left _ (Nat.le_of_lt hv)))
      have h2 : 2 * (2 : Nat) ^ 64 * 10 ^ j ≤ (2 ^ 53 - 1) * 2 ^ 971 * 10 ^ (x + j) := by
        rw [Nat.pow_add, ← Nat.mul_assoc]
        apply Nat.mul_le_mul_right
        have h3 : 2 * (2 : Nat) ^ 64 ≤ (2 ^ 53 - 1) * 2 ^ 971 * 1 := by decide +kernel
        exact Nat.le_trans h3 (Nat.mul_le_mul_left _ (Nat.pow_pos (by decide)))
      omega

end Qentem.StrToNum
