import Qentem.Proofs.TmplIifParse
/-!
# C02 — `{svar:path, a1, …}` on printed text: the Finder match, `stepSvar`, the arguments as segments, the closing `}`
-/
set_option linter.unusedVariables false
set_option linter.unnecessarySimpa false
namespace Qentem.Tmpl
open Qentem.Expr (Fault rd ScanCfg VarRef Item Num Val Env RealLike)
open Qentem.Generated.Tmpl
variable {R : Type}

/-- `{svar:` at `p` -/
theorem next_at_svar (c : List Nat) (p : Nat) (hn : c.length + 16 < 4294967296)
    (h0 : c[p]? = some 123) (h1 : c[p + 1]? = some 115) (h2 : c[p + 2]? = some 118) (h3 : c[p + 3]? = some 97)
    (h4 : c[p + 4]? = some 114) (h5 : c[p + 5]? = some 58) : next c p = .ok (p + 6, 5) := by
  have hlt : p < c.length := (List.getElem?_eq_some_iff.mp h0).1
  have hlt4 : p + 4 < c.length := (List.getElem?_eq_some_iff.mp h4).1
  have hlt5 : p + 5 < c.length := (List.getElem?_eq_some_iff.mp h5).1
  have e4 : c[p + 4] = 114 := by have := List.getElem?_eq_getElem hlt4; rw [h4] at this; exact (Option.some.inj this).symm
  have e5 : c[p + 5] = 58 := by have := List.getElem?_eq_getElem hlt5; rw [h5] at this; exact (Option.some.inj this).symm
  unfold next
  have : c.length + 1 - p = (c.length - p) + 1 := by omega
  rw [this]
  simp only [nextF, hlt, if_true, rd_some c p 123 h0, bind, Except.bind]
  have hid : firstCharID 123 = 0 := by decide
  have hg : W1.groups.getD 0 [] = [1, 2, 3, 4, 5] := by decide
  have hfc : (0 : Nat) < W1.firstCharsCount := by decide
  have h32 : (2 : Nat) ^ sizeTBits = 4294967296 := by decide
  simp only [hid, hfc, if_true, hg]
  have s1 : tryWords c (p + 1) (1 :: [2, 3, 4, 5]) = tryWords c (p + 1) [2, 3, 4, 5] := by
    apply tryWords_skip
    have hwl : W1.wordLengths.getD 1 0 = 3 := by decide
    have hwd : W1.words.getD 1 [] = [118, 97, 114, 58] := by decide
    simp only [hwl, hwd, h32, show (p + 1 + 3) % 4294967296 = p + 4 by omega]
    intro _ he; rw [e4] at he; simp at he
  have s2 : tryWords c (p + 1) (2 :: [3, 4, 5]) = tryWords c (p + 1) [3, 4, 5] := by
    apply tryWords_skip
    have hwl : W1.wordLengths.getD 2 0 = 3 := by decide
    have hwd : W1.words.getD 2 [] = [114, 97, 119, 58] := by decide
    simp only [hwl, hwd, h32, show (p + 1 + 3) % 4294967296 = p + 4 by omega]
    intro _ he; rw [e4] at he; simp at he
  have s3 : tryWords c (p + 1) (3 :: [4, 5]) = tryWords c (p + 1) [4, 5] := by
    apply tryWords_skip
    have hwl : W1.wordLengths.getD 3 0 = 4 := by decide
    have hwd : W1.words.getD 3 [] = [109, 97, 116, 104, 58] := by decide
    simp only [hwl, hwd, h32, show (p + 1 + 4) % 4294967296 = p + 5 by omega]
    intro _ _
    refine ⟨p + 1, ?_, by omega⟩
    simp [matchMiddle, rd_some c (p + 1) 115 h1, bind, Except.bind, show p + 1 < p + 5 by omega]
  have s4 : tryWords c (p + 1) (4 :: [5]) = .ok (some (p + 6, 5)) := by
    have hwl : W1.wordLengths.getD 4 0 = 4 := by decide
    have hwd : W1.words.getD 4 [] = [115, 118, 97, 114, 58] := by decide
    have := tryWords_hit c (p + 1) 4 [5]
    simp only [hwl, hwd, h32, show (p + 1 + 4) % 4294967296 = p + 5 by omega] at this
    apply this hlt5 (by rw [e5]; rfl)
    have h2' : c[p + 1 + 1]? = some 118 := by rw [show p + 1 + 1 = p + 2 by omega]; exact h2
    have h3' : c[p + 1 + 1 + 1]? = some 97 := by rw [show p + 1 + 1 + 1 = p + 3 by omega]; exact h3
    have h4' : c[p + 1 + 1 + 1 + 1]? = some 114 := by rw [show p + 1 + 1 + 1 + 1 = p + 4 by omega]; exact h4
    simp [matchMiddle, rd_some c (p + 1) 115 h1, rd_some c _ 118 h2', rd_some c _ 97 h3', rd_some c _ 114 h4', bind,
      Except.bind, show p + 1 < p + 5 by omega, show p + 1 + 1 < p + 5 by omega, show p + 1 + 1 + 1 < p + 5 by omega,
      show p + 1 + 1 + 1 + 1 < p + 5 by omega]
  rw [s1, s2, s3, s4]

/-- `{svar:` -/
def SVAR1 : List Nat := [123, 115, 118, 97, 114, 58]

/-- the arguments of a super variable as a run of segments: `, ` before each -/
def argSegs : List Seg → List Seg
  | [] => []
  | a :: r => .text [44, 32] :: a :: argSegs r

/-- the printed super variable -/
def printSvar (path : List Nat) (args : List Seg) : List Nat :=
  SVAR1 ++ (path ++ (printSegs (argSegs args) ++ [125]))

/-- `stepSvar` on a printed `{svar:path, a1, …}` (at least one argument) -/
theorem stepSvar_print (c : List Nat) (hn : c.length + 16 < 4294967296) (ch : List LoopRef)
    (stk : List (Frame R)) (acc : List (Tag R)) (pre path rest : List Nat)
    (hc : c = pre ++ (SVAR1 ++ (path ++ ([44, 32] ++ rest))))
    (hp : plainL path) (hp44 : ∀ x ∈ path, x ≠ 44) (hp0 : 0 < path.length) (hp255 : path.length ≤ 255)
    (o1 m1 : Nat) (hnext : next c (pre.length + 6 + path.length + 2) = .ok (o1, m1)) :
    stepSvar c (stAtC ch false stk acc (pre.length + 6) 5) =
      .ok (stAtC ch true (.svar acc ⟨pre.length + 6, path.length, 0, 0⟩ pre.length :: stk) [] o1 m1) := by
  have hc1 : c = (pre ++ SVAR1) ++ ((path ++ [44, 32]) ++ rest) := by rw [hc]; simp [List.append_assoc]
  have hl6 : (pre ++ SVAR1).length = pre.length + 6 := by simp [SVAR1]
  have hpc : plainL [44, 32] := by intro x hx; simp at hx; rcases hx with h | h <;> subst h <;> (unfold plainU; decide)
  have hrun := next_run c _ _ rest hc1 (plainL_append hp hpc)
  have hl2 : pre.length + 6 + (path ++ [44, 32]).length = pre.length + 6 + path.length + 2 := by
    simp only [List.length_append, List.length_cons, List.length_nil]; omega
  rw [hl6, hl2, hnext] at hrun
  have hle : pre.length + 6 + path.length + 2 ≤ c.length := by rw [hc1]; simp [SVAR1]; omega
  obtain ⟨o', m', hn', _, hge, _, _⟩ := next_safe_total c _ hle
  rw [hnext] at hn'
  simp only [Except.ok.injEq, Prod.mk.injEq] at hn'
  obtain ⟨rfl, rfl⟩ := hn'
  have h1 : finderNext c (stAtC ch false stk acc (pre.length + 6) 5) = .ok (stAtC ch false stk acc o1 m1) :=
    finderNext_stAtC c ch false stk acc _ 5 _ _ hrun
  have hcomma : c[pre.length + 6 + path.length]? = some 44 := by
    have := get_after (pre ++ SVAR1) path 44 ([32] ++ rest)
    rw [hl6] at this
    rw [hc1]; simpa [List.append_assoc] using this
  have hsk : skipW c o1 (· != W1.variablesSeparatorChar) (pre.length + 6) = .ok (pre.length + 6 + path.length) := by
    apply skipW_run c o1 _ path.length (pre.length + 6)
    · intro i hi
      have := get_at (pre ++ SVAR1) path ([44, 32] ++ rest) i hi
      rw [hl6] at this
      refine ⟨path[i], by rw [hc1]; simpa [List.append_assoc] using this, ?_⟩
      have := hp44 path[i] (List.getElem_mem hi)
      simp only [show W1.variablesSeparatorChar = 44 by decide]; simpa using this
    · omega
    · right; exact ⟨44, hcomma, by decide⟩
  have hoff : (stAtC ch false stk acc (pre.length + 6) 5 : PState R).off = pre.length + 6 := rfl
  have hoff1 : (stAtC ch false stk acc o1 m1 : PState R).off = o1 := rfl
  have h6 : W1.superVariablePrefixLength = 6 := by decide
  have hlen : trunc bits_VariableTag_Length ((pre.length + 6 + path.length - (pre.length + 6)) % 256) = path.length := by
    simp only [trunc, show bits_VariableTag_Length = 16 by decide, Nat.add_sub_cancel_left]
    omega
  simp only [stepSvar, hoff, h1, bind, Except.bind, hoff1, hsk, hlen, h6, Nat.add_sub_cancel,
    show path.length ≠ 0 by omega, ne_eq, not_false_eq_true, if_true]
  rfl


theorem stepLineEnd_svar (c : List Nat) (ch : List LoopRef) (pre sub : List (Tag R)) (v : VarRef) (off : Nat)
    (rest : List (Frame R)) (endO : Nat) :
    stepLineEnd c (stAtC ch true (.svar pre v off :: rest) sub endO 1) =
      finderNext c (stAtC ch false rest (pre ++ [.svar sub v off endO]) endO 1) := by
  simp only [stepLineEnd, stAtC, bind, Except.bind]
  rfl

/-- an argument of a super variable is a tag, not text -/
def Seg.isArg : Seg → Prop
  | .text _ => False
  | _ => True

theorem printSvar_len (path : List Nat) (args : List Seg) :
    (printSvar path args).length = 6 + path.length + (printSegs (argSegs args)).length + 1 := by
  simp [printSvar, SVAR1]; omega

theorem argSegs_ok : ∀ (args : List Seg), (∀ a ∈ args, a.ok) → ∀ s ∈ argSegs args, s.ok := by
  intro args
  induction args with
  | nil => intro _ s hs; simp [argSegs] at hs
  | cons a r ih =>
    intro h s hs
    simp only [argSegs, List.mem_cons] at hs
    rcases hs with rfl | rfl | hs
    · intro x hx; simp at hx; rcases hx with h | h <;> subst h <;> (unfold plainU; decide)
    · exact h _ (List.mem_cons_self ..)
    · exact ih (fun a ha => h a (List.mem_cons_of_mem _ ha)) s hs

theorem nTags_argSegs : ∀ (args : List Seg), (∀ a ∈ args, a.isArg) → nTags (argSegs args) = args.length := by
  intro args
  induction args with
  | nil => intro _; rfl
  | cons a r ih =>
    intro h
    have ha := h a (List.mem_cons_self ..)
    have := ih (fun a ha => h a (List.mem_cons_of_mem _ ha))
    cases a <;> simp [argSegs, nTags, this, Seg.isArg] at ha ⊢

/-- the tag `parse` stores for a printed super variable at `p` -/
def svarTag (cfg : ScanCfg R) (c : List Nat) (D : List LoopD) (p : Nat) (path : List Nat) (args : List Seg) : Tag R :=
  .svar (tagsOfD cfg c D (p + 6 + path.length) (argSegs args)) ⟨p + 6, path.length, 0, 0⟩ p
    (p + (printSvar path args).length)

/-- **a printed super variable**: `parse` stores one tag with the tags of the arguments -/
theorem parse_svar (cfg : ScanCfg R) (c : List Nat) (hn : c.length + 16 < 4294967296) (D : List LoopD) (hD : ChainD c D)
    (stk : List (Frame R)) (path : List Nat) (args : List Seg) (pre post : List Nat) (acc : List (Tag R))
    (fuel o m o' m' : Nat)
    (hc : c = pre ++ (printSvar path args ++ post))
    (hp : plainL path) (hp44 : ∀ x ∈ path, x ≠ 44) (hp0 : 0 < path.length) (hp255 : path.length ≤ 255)
    (hargs : ∀ a ∈ args, a.ok) (hne : args ≠ [])
    (hnext : next c pre.length = .ok (o, m))
    (hfin : next c (pre.length + (printSvar path args).length) = .ok (o', m')) :
    parseMain cfg c (fuel + (2 + nTags (argSegs args))) (stAtC (refsD D) false stk acc o m) =
      parseMain cfg c fuel (stAtC (refsD D) false stk (acc ++ [svarTag cfg c D pre.length path args]) o' m') := by
  have hlen := printSvar_len path args
  obtain ⟨a0, ar, rfl⟩ : ∃ a0 ar, args = a0 :: ar := by
    cases args with
    | nil => exact absurd rfl hne
    | cons a r => exact ⟨a, r, rfl⟩
  have hc1 : c = pre ++ (SVAR1 ++ (path ++ ([44, 32] ++ (printSeg a0 ++ printSegs (argSegs ar) ++ [125] ++ post)))) := by
    rw [hc]; simp [printSvar, argSegs, printSegs, printSeg, List.append_assoc]
  have g := fun i (hi : i < 6) => get_mid pre SVAR1 (path ++ ([44, 32] ++ (printSeg a0 ++ printSegs (argSegs ar) ++ [125] ++ post))) i
    (by simpa [SVAR1] using hi)
  have gi : ∀ i (hi : i < 6), c[pre.length + i]? = SVAR1[i]? := by intro i hi; rw [hc1]; exact g i hi
  have hat : next c pre.length = .ok (pre.length + 6, 5) :=
    next_at_svar c pre.length hn (gi 0 (by omega)) (gi 1 (by omega)) (gi 2 (by omega)) (gi 3 (by omega)) (gi 4 (by omega))
      (gi 5 (by omega))
  rw [hat] at hnext
  simp only [Except.ok.injEq, Prod.mk.injEq] at hnext
  obtain ⟨rfl, rfl⟩ := hnext
  -- the arguments as segments
  have hcs : c = (pre ++ SVAR1 ++ path) ++ (printSegs (argSegs (a0 :: ar)) ++ ([125] ++ post)) := by
    rw [hc]; simp [printSvar, List.append_assoc]
  have hls : (pre ++ SVAR1 ++ path).length = pre.length + 6 + path.length := by simp [SVAR1]; omega
  have hle : pre.length + 6 + path.length ≤ c.length := by rw [← hls, hcs]; simp
  obtain ⟨oF, mF, hnF, _, _, _, _⟩ := next_safe_total c _ hle
  have hpc : plainL [44, 32] := by intro x hx; simp at hx; rcases hx with h | h <;> subst h <;> (unfold plainU; decide)
  have hrun2 := next_run c (pre ++ SVAR1 ++ path) [44, 32] (printSeg a0 ++ printSegs (argSegs ar) ++ [125] ++ post)
    (by rw [hc1]; simp [List.append_assoc]) hpc
  rw [hls, hnF] at hrun2
  have hcl : c[pre.length + 6 + path.length + (printSegs (argSegs (a0 :: ar))).length]? = some 125 := by
    have := get_after (pre ++ SVAR1 ++ path) (printSegs (argSegs (a0 :: ar))) 125 post
    rw [hls] at this
    rw [hcs]; exact this
  have hclose := next_at_close c _ hcl
  -- step 1
  have hstep1 := stepSvar_print c hn (refsD D) stk acc pre path _ hc1 hp hp44 hp0 hp255 oF mF
    (by simpa using hrun2.symm)
  have hd5 : step cfg c (stAtC (refsD D) false stk acc (pre.length + 6) 5) = stepSvar c (stAtC (refsD D) false stk acc (pre.length + 6) 5) := by
    simp only [step, stAtC]; rfl
  -- step 2
  have hrun := parseMain_segsC cfg c hn D hD true (.svar acc ⟨pre.length + 6, path.length, 0, 0⟩ pre.length :: stk)
    ([125] ++ post) (argSegs (a0 :: ar)) (pre ++ SVAR1 ++ path) [] (fuel + 1) oF mF _ _ hcs (argSegs_ok _ hargs)
    (by rw [hls]; exact hnF) (by rw [hls]; exact hclose)
  rw [hls] at hrun
  simp only [List.nil_append] at hrun
  -- step 3
  have hlenE : pre.length + 6 + path.length + (printSegs (argSegs (a0 :: ar))).length + 1 =
      pre.length + (printSvar path (a0 :: ar)).length := by rw [hlen]; omega
  have hfn : finderNext c (stAtC (refsD D) false stk
      (acc ++ [.svar (tagsOfD cfg c D (pre.length + 6 + path.length) (argSegs (a0 :: ar))) ⟨pre.length + 6, path.length, 0, 0⟩
        pre.length (pre.length + 6 + path.length + (printSegs (argSegs (a0 :: ar))).length + 1)])
      (pre.length + 6 + path.length + (printSegs (argSegs (a0 :: ar))).length + 1) 1) =
      .ok (stAtC (refsD D) false stk _ o' m') :=
    finderNext_stAtC c (refsD D) false stk _ _ 1 _ _ (by rw [hlenE]; exact hfin)
  have hstep3 := (stepLineEnd_svar c (refsD D) acc _ _ _ stk _).trans hfn
  have hd1 : ∀ st : PState R, st.mtch = 1 → step cfg c st = stepLineEnd c st := by
    intro st hst; simp only [step, hst]; first | done | rfl
  rw [show fuel + (2 + nTags (argSegs (a0 :: ar))) = (fuel + 1 + nTags (argSegs (a0 :: ar))) + 1 by omega,
    parseMain_step cfg c _ _ _ (by simp [stAtC]) (hd5.trans hstep1), hrun,
    parseMain_step cfg c _ _ _ (by simp [stAtC]) ((hd1 _ rfl).trans hstep3)]
  simp only [svarTag, hlenE]

theorem printArgs_segs : ∀ (args : List Seg), printArgs (segsTpl args) = printSegs (argSegs args) := by
  intro args
  induction args with
  | nil => rfl
  | cons a r ih =>
    have h1 := printSegs_eq [a]
    simp only [segsTpl, printList, printSegs, List.append_nil] at h1
    simp only [segsTpl, printArgs, argSegs, printSegs, printSeg, ih, h1]
    simp [str, List.append_assoc]

end Qentem.Tmpl
