import Qentem.Model.HashTable
import Mathlib.Data.List.Perm.Subperm
/-!
Chains of the hash table: the list of item numbers met when following links from a starting link
until the link that holds 0.  Everything here is about a "link store" `g : Link → Option Nat`
(`getLink s` for a table `s`), so that the same lemmas serve `insert`, `remove`, `generateHash`
and `Rename`.
-/
namespace Qentem.HashTable
variable {V : Type}

/-- Following `g` from link `l` visits exactly the items `c` and then reads 0. -/
def Chain (g : Link → Option Nat) : Link → List Nat → Prop
  | l, [] => g l = some 0
  | l, j :: c => g l = some (j + 1) ∧ Chain g (.next j) c

/-- The link at which a walk along `c` from `l` stops. -/
def lastLink (l : Link) (c : List Nat) : Link :=
  match c.getLast? with
  | none => l
  | some x => .next x

@[simp] theorem lastLink_nil (l : Link) : lastLink l [] = l := rfl

theorem lastLink_cons (l : Link) (j : Nat) (c : List Nat) : lastLink l (j :: c) = lastLink (.next j) c := by
  cases c with
  | nil => simp [lastLink]
  | cons a t =>
    simp only [lastLink, List.getLast?_cons_cons]
    cases hx : (a :: t).getLast? with
    | none => simp at hx
    | some x => rfl

@[simp] theorem lastLink_snoc (l : Link) (c : List Nat) (n : Nat) : lastLink l (c ++ [n]) = .next n := by
  simp [lastLink]

theorem chain_last {g : Link → Option Nat} : ∀ {c : List Nat} {l : Link}, Chain g l c → g (lastLink l c) = some 0
  | [], _, h => h
  | j :: c, l, h => by rw [lastLink_cons]; exact chain_last h.2

/-- Frame rule: a chain only depends on the links it goes through. -/
theorem chain_congr {g g' : Link → Option Nat} : ∀ {c : List Nat} {l : Link},
    Chain g l c → g' l = g l → (∀ x ∈ c, g' (.next x) = g (.next x)) → Chain g' l c
  | [], _, h, hl, _ => by simpa [Chain, hl] using h
  | j :: c, l, h, hl, hc => by
    refine ⟨by rw [hl]; exact h.1, chain_congr h.2 (hc j (by simp)) (fun x hx => hc x (by simp [hx]))⟩

/-- Every item of a chain exists: its `Next` link is readable. -/
theorem chain_mem_some {g : Link → Option Nat} : ∀ {c : List Nat} {l : Link},
    Chain g l c → ∀ x ∈ c, ∃ w, g (.next x) = some w
  | [], _, _, x, hx => by simp at hx
  | j :: c, l, h, x, hx => by
    rcases List.mem_cons.mp hx with rfl | hx
    · cases c with
      | nil => exact ⟨0, h.2⟩
      | cons a t => exact ⟨a + 1, h.2.1⟩
    · exact chain_mem_some h.2 x hx

/-- Appending item `n` to the end of a chain by storing `n+1` in its last link. -/
theorem chain_snoc {g g' : Link → Option Nat} {n : Nat} : ∀ {c : List Nat} {l : Link},
    Chain g l c → c.Nodup → (∀ x ∈ c, l ≠ .next x) → n ∉ c → l ≠ .next n →
    (∀ l', l' ≠ lastLink l c → l' ≠ .next n → g' l' = g l') →
    g' (lastLink l c) = some (n + 1) → g' (.next n) = some 0 →
    Chain g' l (c ++ [n])
  | [], l, _, _, _, _, _, _, h1, h2 => by
    simpa [Chain] using ⟨h1, h2⟩
  | j :: c, l, h, hnd, hl, hn, hln, hfr, h1, h2 => by
    rw [lastLink_cons] at h1 hfr
    have hnd' := List.nodup_cons.mp hnd
    have hjn : j ≠ n := fun e => hn (by simp [e])
    refine ⟨?_, chain_snoc h.2 hnd'.2 ?_ (fun hx => hn (by simp [hx])) (by simpa using hjn) hfr h1 h2⟩
    · rw [hfr l ?_ hln]; exact h.1
      intro e
      -- lastLink (.next j) c is `.next x` for some x ∈ j :: c
      cases hc : c.getLast? with
      | none => simp [lastLink, hc] at e; exact hl j (by simp) e
      | some x =>
        simp [lastLink, hc] at e
        exact hl x (by simp [List.mem_of_getLast? hc]) e
    · intro x hx e
      have : j = x := by simpa using e
      exact hnd'.1 (this ▸ hx)

/-- Unlinking item `j`: the link that pointed to it receives `j`'s successor. -/
theorem chain_remove {g g' : Link → Option Nat} {j w : Nat} {post : List Nat} : ∀ {pre : List Nat} {l : Link},
    Chain g l (pre ++ j :: post) → (pre ++ j :: post).Nodup → (∀ x ∈ pre ++ j :: post, l ≠ .next x) →
    g (.next j) = some w → g' (lastLink l pre) = some w →
    (∀ l', l' ≠ lastLink l pre → l' ≠ .next j → g' l' = g l') →
    Chain g' l (pre ++ post)
  | [], l, h, hnd, hl, hw, h1, hfr => by
    simp only [List.nil_append, lastLink_nil] at *
    have hnd' := List.nodup_cons.mp hnd
    cases post with
    | nil =>
      have : w = 0 := by have := h.2; simp [Chain, hw] at this; exact this
      simpa [Chain, this] using h1
    | cons p post' =>
      have hp : w = p + 1 := by have := h.2.1; rw [hw] at this; exact Option.some.inj this
      refine ⟨by rw [h1, hp], chain_congr h.2.2 ?_ ?_⟩
      · apply hfr
        · intro e; exact hl p (by simp) e.symm
        · intro e; have : p = j := by simpa using e
          exact hnd'.1 (by simp [this])
      · intro x hx
        apply hfr
        · intro e; exact hl x (by simp [hx]) e.symm
        · intro e; have : x = j := by simpa using e
          exact hnd'.1 (by simp [← this, hx])
  | a :: pre, l, h, hnd, hl, hw, h1, hfr => by
    simp only [List.cons_append] at *
    rw [lastLink_cons] at h1 hfr
    have hnd' := List.nodup_cons.mp hnd
    refine ⟨?_, chain_remove h.2 hnd'.2 ?_ hw h1 hfr⟩
    · rw [hfr l ?_ ?_]; exact h.1
      · intro e
        cases hc : pre.getLast? with
        | none => simp [lastLink, hc] at e; exact hl a (by simp) e
        | some x =>
          simp [lastLink, hc] at e
          exact hl x (by simp [List.mem_of_getLast? hc]) e
      · intro e; exact hl j (by simp) e
    · intro x hx e
      have : a = x := by simpa using e
      exact hnd'.1 (this ▸ hx)

/-! ### The two loops that follow links -/

/-- `walkEnd` (inner loop of `generateHash`) stops at the last link of the chain. -/
theorem walkEnd_chain {s : HT V} : ∀ {c : List Nat} {l : Link} {fuel : Nat},
    Chain (getLink s) l c → c.length < fuel → walkEnd s fuel l = some (lastLink l c)
  | [], l, fuel + 1, h, _ => by
    simp only [Chain] at h
    simp [walkEnd, h]
  | j :: c, l, fuel + 1, h, hf => by
    have := walkEnd_chain (fuel := fuel) h.2 (by simpa using hf)
    simp [walkEnd, h.1, this, lastLink_cons]

/-- `find` on a chain without a matching item: not found, stopped at the last link. -/
theorem findLoop_none {s : HT V} {key : List Nat} {hash : Nat} : ∀ {c : List Nat} {l : Link} {fuel : Nat},
    Chain (getLink s) l c → c.length < fuel →
    (∀ j ∈ c, ∀ it, s.items[j]? = some it → ¬ (it.hash = hash ∧ it.key = key)) →
    findLoop s key hash fuel l = some (lastLink l c, none)
  | [], l, fuel + 1, h, _, _ => by
    simp only [Chain] at h
    simp [findLoop, h]
  | j :: c, l, fuel + 1, h, hf, hno => by
    have ih := findLoop_none (key := key) (hash := hash) (fuel := fuel) h.2 (by simpa using hf)
      (fun x hx => hno x (by simp [hx]))
    obtain ⟨w, hw⟩ := chain_mem_some (l := l) h j (by simp)
    simp only [getLink, Option.map_eq_some_iff] at hw
    obtain ⟨it, hit, _⟩ := hw
    have := hno j (by simp) it hit
    simp [findLoop, h.1, hit, this, ih, lastLink_cons]

/-- `find` on a chain whose first matching item is `j`. -/
theorem findLoop_some {s : HT V} {key : List Nat} {hash : Nat} {j : Nat} {post : List Nat} {it : Item V} :
    ∀ {pre : List Nat} {l : Link} {fuel : Nat},
    Chain (getLink s) l (pre ++ j :: post) → pre.length < fuel →
    (∀ i ∈ pre, ∀ it', s.items[i]? = some it' → ¬ (it'.hash = hash ∧ it'.key = key)) →
    s.items[j]? = some it → it.hash = hash → it.key = key →
    findLoop s key hash fuel l = some (lastLink l pre, some j)
  | [], l, fuel + 1, h, _, _, hit, hh, hk => by
    simp [findLoop, h.1, hit, hh, hk]
  | a :: pre, l, fuel + 1, h, hf, hno, hit, hh, hk => by
    have ih := findLoop_some (fuel := fuel) h.2 (by simpa using hf) (fun x hx => hno x (by simp [hx])) hit hh hk
    obtain ⟨w, hw⟩ := chain_mem_some (l := l) h a (by simp)
    simp only [getLink, Option.map_eq_some_iff] at hw
    obtain ⟨ita, hita, _⟩ := hw
    have := hno a (by simp) ita hita
    simp [findLoop, h.1, hita, this, ih, lastLink_cons]

/-- A duplicate-free list of numbers below `n` has at most `n` elements: the fuel bound. -/
theorem nodup_length_le {c : List Nat} {n : Nat} (hnd : c.Nodup) (hlt : ∀ x ∈ c, x < n) : c.length ≤ n := by
  have hsub : c ⊆ List.range n := fun x hx => List.mem_range.mpr (hlt x hx)
  have := (List.subperm_of_subset hnd hsub).length_le
  simpa using this

end Qentem.HashTable
