import Qentem.Proofs.TmplParseTotal
import Qentem.Proofs.TmplRenderSafe
import Qentem.Proofs.TmplSvarRender
/-!
# C01 — some fuel suffices for rendering

`render_mono`: the five mutually recursive render functions only gain from fuel (`Ref a b`: `a` ran out of
fuel or `a = b`).  `…_tq`: the fuel-free parts fail with a failed access only.  `render_ex_all`: by
induction on the size of the tag list (inner inductions over the items of a loop, the units of a
phrase, the cases of an `<if>`), for every state there is a fuel with which `render` returns or
fails with a failed access; `Ex.bind` combines two such statements along `>>=` using `render_mono`.
-/
set_option linter.unusedSectionVars false
set_option linter.unusedVariables false
namespace Qentem.Tmpl
open Qentem.Expr (Fault rd ScanCfg VarRef Item TQ rd_tq Safe RealLike)
open Qentem.Generated.Tmpl
variable {R : Type} [RealLike R]

/-- more fuel changes nothing unless the fuel ran out -/
def Ref {α : Type} (a b : Except Fault α) : Prop := a = .error .fuel ∨ a = b

theorem Ref.same {α : Type} (a : Except Fault α) : Ref a a := Or.inr rfl

theorem Ref.bind {α β : Type} {a b : Except Fault α} {g g' : α → Except Fault β} (h : Ref a b)
    (hg : ∀ x, Ref (g x) (g' x)) : Ref (a >>= g) (b >>= g') := by
  rcases h with h | h
  · left; rw [h]; rfl
  · subst h
    cases a with
    | error e => right; rfl
    | ok x => exact hg x

theorem Ref.ite {α : Type} (c : Prop) [Decidable c] {a b a' b' : Except Fault α} (h : Ref a b) (h' : Ref a' b') :
    Ref (if c then a else a') (if c then b else b') := by
  by_cases hc : c <;> simp only [hc, if_true, if_false] <;> assumption

theorem render_mono (cx : RCtx R) : ∀ fuel : Nat,
    (∀ tags off endO st, Ref (render cx fuel tags off endO st) (render cx (fuel + 1) tags off endO st)) ∧
    (∀ t off st, Ref (renderTag cx fuel t off st) (renderTag cx (fuel + 1) t off st)) ∧
    (∀ cases st, Ref (ifCases cx fuel cases st) (ifCases cx (fuel + 1) cases st)) ∧
    (∀ sub f set size idx st, Ref (loopIter cx fuel sub f set size idx st) (loopIter cx (fuel + 1) sub f set size idx st)) ∧
    (∀ sub txt i l st, Ref (svarLoop cx fuel sub txt i l st) (svarLoop cx (fuel + 1) sub txt i l st)) := by
  intro fuel
  induction fuel with
  | zero =>
    refine ⟨?_, ?_, ?_, ?_, ?_⟩
    · intro tags off endO st; left; simp only [render]
    · intro t off st; left; simp only [renderTag]
    · intro cases st; left; simp only [ifCases]
    · intro sub f set size idx st; left; simp only [loopIter]
    · intro sub txt i l st; left; simp only [svarLoop]
  | succ fuel ih =>
    obtain ⟨ihR, ihT, ihC, ihL, ihS⟩ := ih
    refine ⟨?_, ?_, ?_, ?_, ?_⟩
    · intro tags off endO st
      cases tags with
      | nil => simp only [render]; exact Ref.same _
      | cons t rest =>
        simp only [render]
        exact Ref.bind (ihT _ _ _) (fun x => ihR _ _ _ _)
    · intro t off st
      cases t with
      | var v => simp only [renderTag]; exact Ref.same _
      | raw v => simp only [renderTag]; exact Ref.same _
      | math ex o e => simp only [renderTag]; exact Ref.same _
      | svar sub v o e =>
        simp only [renderTag]
        apply Ref.bind (Ref.same _); intro sVar
        apply Ref.bind (Ref.same _); intro s
        split
        · exact Ref.bind (ihS _ _ _ _ _) (fun x => Ref.same _)
        · exact Ref.same _
      | iif cs sub f =>
        simp only [renderTag]
        apply Ref.bind (Ref.same _); intro s
        apply Ref.bind (Ref.same _); intro ev
        split
        · exact Ref.same _
        · apply Ref.bind (Ref.same _); intro tags
          exact Ref.bind (ihR _ _ _ _) (fun x => Ref.same _)
      | loop sub f =>
        simp only [renderTag]
        apply Ref.bind (Ref.same _); intro s
        apply Ref.bind (Ref.same _); intro ls
        split
        · exact Ref.same _
        · apply Ref.bind (Ref.same _); intro g
          split
          · exact Ref.same _
          · exact Ref.bind (ihL _ _ _ _ _ _) (fun x => Ref.same _)
      | ifT cases o e =>
        simp only [renderTag]
        apply Ref.bind (Ref.same _); intro s
        split
        · exact Ref.same _
        · split
          · exact Ref.same _
          · exact Ref.bind (ihC _ _) (fun x => Ref.same _)
    · intro cases st
      cases cases with
      | nil => simp only [ifCases]; exact Ref.same _
      | cons cse rest =>
        obtain ⟨cs, sub, o, e⟩ := cse
        simp only [ifCases]
        apply Ref.bind (Ref.same _); intro hit
        split
        · exact ihR _ _ _ _
        · exact ihC _ _
    · intro sub f set size idx st
      unfold loopIter
      apply Ref.ite
      · apply Ref.bind (Ref.same _); intro it
        dsimp only
        apply Ref.bind
        · exact Ref.ite _ (ihR _ _ _ _) (Ref.same _)
        · intro st2; exact ihL _ _ _ _ _ _
      · exact Ref.same _
    · intro sub txt i l st
      unfold svarLoop
      dsimp only
      apply Ref.ite _ _ (Ref.same _)
      apply Ref.ite _ _ (ihS _ _ _ _ _)
      apply Ref.ite _ _ (ihS _ _ _ _ _)
      apply Ref.ite _ _ (ihS _ _ _ _ _)
      apply Ref.ite _ _ (ihS _ _ _ _ _)
      generalize sub[(txt.getD (i + 1) 0 + 2 ^ sizeTBits - W1.digitZero) % 2 ^ sizeTBits]? = o
      cases o with
      | none => exact ihS _ _ _ _ _
      | some t =>
        cases t with
        | var v =>
          dsimp only
          apply Ref.bind (Ref.same _); intro o
          apply Ref.bind (Ref.same _); intro r
          exact ihS _ _ _ _ _
        | raw v =>
          dsimp only
          apply Ref.bind (Ref.same _); intro o
          apply Ref.bind (Ref.same _); intro r
          exact ihS _ _ _ _ _
        | math ex o e =>
          dsimp only
          apply Ref.bind (Ref.same _); intro r
          exact ihS _ _ _ _ _
        | svar _ _ _ _ => exact ihS _ _ _ _ _
        | iif _ _ _ => exact ihS _ _ _ _ _
        | loop _ _ => exact ihS _ _ _ _ _
        | ifT _ _ _ => exact ihS _ _ _ _ _


/-! ### lifting along more fuel -/

theorem Ref.eq_of {α : Type} {a b : Except Fault α} (h : Ref a b) (hne : a ≠ .error .fuel) : b = a := by
  rcases h with h | h
  · exact absurd h hne
  · exact h.symm

theorem TQ_not_fuel {α : Type} {a : Except Fault α} {P : α → Prop} (h : TQ a P) : a ≠ .error .fuel := by
  intro he; rw [he] at h; obtain ⟨i, n, hh⟩ := h; cases hh

/-- a family that only gains from fuel keeps a non-fuel result -/
theorem lift_eq {α : Type} (g : Nat → Except Fault α) (hg : ∀ n, Ref (g n) (g (n + 1))) {N : Nat}
    (hne : g N ≠ .error .fuel) : ∀ M, N ≤ M → g M = g N := by
  intro M hle
  obtain ⟨k, rfl⟩ : ∃ k, M = N + k := ⟨M - N, by omega⟩
  clear hle
  induction k with
  | zero => rfl
  | succ k ih =>
    have h1 := (hg (N + k)).eq_of (by rw [ih]; exact hne)
    rw [show N + (k + 1) = N + k + 1 by omega, h1, ih]

/-- some fuel gives a value or a failed read -/
def Ex {α : Type} (g : Nat → Except Fault α) : Prop := ∃ N, TQ (g N) (fun _ => True)

theorem Ex.const {α : Type} {x : Except Fault α} (h : TQ x (fun _ => True)) : Ex (fun _ => x) := ⟨0, h⟩

theorem Ex.bindP {α β : Type} (a : Nat → Except Fault α) (b : Nat → α → Except Fault β) (P : α → Prop)
    (ha : ∀ n, Ref (a n) (a (n + 1))) (hb : ∀ x n, Ref (b n x) (b (n + 1) x))
    (ea : ∃ N, TQ (a N) P) (eb : ∀ x, P x → Ex (fun n => b n x)) : Ex (fun n => a n >>= b n) := by
  obtain ⟨Na, hNa⟩ := ea
  cases hx : a Na with
  | error e =>
    rw [hx] at hNa
    exact ⟨Na, by show TQ (a Na >>= b Na) _; rw [hx]; exact hNa⟩
  | ok x =>
    obtain ⟨Nb, hNb⟩ := eb x (by rw [hx] at hNa; exact hNa)
    refine ⟨max Na Nb, ?_⟩
    have h1 : a (max Na Nb) = a Na := lift_eq a ha (by rw [hx]; intro h; cases h) _ (Nat.le_max_left _ _)
    have h2 : b (max Na Nb) x = b Nb x := lift_eq (fun n => b n x) (hb x) (TQ_not_fuel hNb) _ (Nat.le_max_right _ _)
    show TQ (a (max Na Nb) >>= b (max Na Nb)) _
    rw [h1, hx]
    show TQ (b (max Na Nb) x) _
    rw [h2]; exact hNb

theorem Ex.bind {α β : Type} (a : Nat → Except Fault α) (b : Nat → α → Except Fault β)
    (ha : ∀ n, Ref (a n) (a (n + 1))) (hb : ∀ x n, Ref (b n x) (b (n + 1) x))
    (ea : Ex a) (eb : ∀ x, Ex (fun n => b n x)) : Ex (fun n => a n >>= b n) :=
  Ex.bindP a b (fun _ => True) ha hb ea (fun x _ => eb x)

/-- the fuel argument shifted by one -/
theorem Ex.succ {α : Type} (g body : Nat → Except Fault α) (h : ∀ n, g (n + 1) = body n) (e : Ex body) : Ex g := by
  obtain ⟨N, hN⟩ := e
  exact ⟨N + 1, by rw [h]; exact hN⟩

/-! ### the fuel-free parts fail with a failed read only -/

theorem slice_tq (c : List Nat) (a b : Nat) : TQ (slice c a b) (fun _ => True) := by
  unfold slice; split
  · trivial
  · exact ⟨_, _, rfl⟩

theorem subChk_tq (a b : Nat) : TQ (subChk a b) (fun _ => True) := by
  unfold subChk; split
  · trivial
  · exact ⟨_, _, rfl⟩

theorem itemAt_tq (st : RState) (lv : Nat) : TQ (itemAt st lv) (fun _ => True) := by
  unfold itemAt; split
  · trivial
  · exact ⟨_, _, rfl⟩

theorem takeChk_tq {α : Type} (l : List α) (n : Nat) : TQ (takeChk l n) (fun r => ∃ k, r = l.take k) := by
  unfold takeChk; split
  · exact ⟨n, rfl⟩
  · exact ⟨_, _, rfl⟩

theorem dropChk_tq {α : Type} (l : List α) (n : Nat) : TQ (dropChk l n) (fun r => ∃ k, r = l.drop k) := by
  unfold dropChk; split
  · exact ⟨n, rfl⟩
  · exact ⟨_, _, rfl⟩

theorem getValuePath_tq (cx : RCtx R) (base length : Nat) : ∀ (fuel : Nat) (v : Option Doc) (o o2 : Nat),
    TQ (getValuePath cx base length fuel v o o2) (fun _ => True) := by
  intro fuel
  induction fuel with
  | zero => intro v o o2; exact TQ.ok _ trivial
  | succ fuel ih =>
    intro v o o2
    simp only [getValuePath]
    split
    · exact TQ.ok _ trivial
    · apply TQ.bind (skipW_tq _ _ _ _)
      intro o3 _
      apply TQ.bind (P := fun _ => True)
      · split
        · exact TQ_pure _ trivial
        · exact slice_tq _ _ _
      · intro key _
        split
        · exact TQ.ok _ trivial
        · apply TQ.bind (rd_tq _ _)
          intro ch _
          split
          · exact TQ.ok _ trivial
          · exact ih _ _ _

theorem getValue_tq (cx : RCtx R) (st : RState) (v : VarRef) : TQ (getValue cx st v) (fun _ => True) := by
  unfold getValue
  dsimp only
  apply TQ.bind (P := fun _ => True)
  · split
    · apply TQ.bind (rd_tq _ _); intro ch _; exact TQ_pure _ trivial
    · exact TQ_pure _ trivial
  · intro hasIndex _
    split
    · split
      · apply TQ.bind (slice_tq _ _ _); intro key _; exact TQ.ok _ trivial
      · apply TQ.bind (skipW_tq _ _ _ _); intro o _
        apply TQ.bind (P := fun _ => True)
        · split
          · apply TQ.bind (slice_tq _ _ _); intro key _; exact TQ_pure _ trivial
          · exact TQ_pure _ trivial
        · intro value _
          exact getValuePath_tq _ _ _ _ _ _ _
    · apply TQ.bind (itemAt_tq _ _); intro it _
      split
      · exact TQ.ok _ trivial
      · exact getValuePath_tq _ _ _ _ _ _ _

theorem loopKeyText_tq (st : RState) (v : VarRef) : TQ (loopKeyText st v) (fun _ => True) := by
  unfold loopKeyText
  split
  · exact TQ.ok _ trivial
  · have := itemAt_tq st v.level
    cases h : itemAt st v.level with
    | ok it => exact TQ.ok _ trivial
    | error e => rw [h] at this; exact this

theorem renderVariable_tq (cx : RCtx R) (st : RState) (v : VarRef) (off : Nat) :
    TQ (renderVariable cx st v off) (fun _ => True) := by
  unfold renderVariable
  apply TQ.bind (subChk_tq _ _); intro tOff _
  dsimp only
  apply TQ.bind (slice_tq _ _ _); intro s _
  apply TQ.bind (getValue_tq _ _ _); intro value _
  split
  · exact TQ.ok _ trivial
  · apply TQ.bind (loopKeyText_tq _ _); intro k _
    split
    · exact TQ.ok _ trivial
    · apply TQ.bind (slice_tq _ _ _); intro src _; exact TQ.ok _ trivial

theorem renderRawVariable_tq (cx : RCtx R) (st : RState) (v : VarRef) (off : Nat) :
    TQ (renderRawVariable cx st v off) (fun _ => True) := by
  unfold renderRawVariable
  apply TQ.bind (subChk_tq _ _); intro tOff _
  dsimp only
  apply TQ.bind (slice_tq _ _ _); intro s _
  apply TQ.bind (getValue_tq _ _ _); intro value _
  split
  · exact TQ.ok _ trivial
  · apply TQ.bind (slice_tq _ _ _); intro src _; exact TQ.ok _ trivial

theorem resolveVars_tq (cx : RCtx R) (st : RState) : ∀ (vs : List VarRef), TQ (resolveVars cx st vs) (fun _ => True) := by
  intro vs
  induction vs with
  | nil => exact TQ.ok _ trivial
  | cons v rest ih =>
    simp only [resolveVars]
    apply TQ.bind (getValue_tq _ _ _); intro d _
    apply TQ.bind ih; intro r _
    exact TQ.ok _ trivial

theorem evalExprs_tq (cx : RCtx R) (st : RState) (items : List (Item R)) : TQ (evalExprs cx st items) (fun _ => True) := by
  unfold evalExprs
  split
  · exact TQ.ok _ trivial
  · apply TQ.bind (resolveVars_tq _ _ _); intro r _
    exact TQ.ok _ trivial

theorem renderMath_tq (cx : RCtx R) (st : RState) (ex : List (Item R)) (o e off : Nat) :
    TQ (renderMath cx st ex o e off) (fun _ => True) := by
  unfold renderMath
  apply TQ.bind (slice_tq _ _ _); intro s _
  dsimp only
  apply TQ.bind (evalExprs_tq _ _ _); intro v _
  split
  · exact TQ.ok _ trivial
  · exact TQ.ok _ trivial
  · exact TQ.ok _ trivial
  · exact TQ.ok _ trivial
  · apply TQ.bind (slice_tq _ _ _); intro src _; exact TQ.ok _ trivial

theorem renderArg_tq (cx : RCtx R) (t : Option (Tag R)) (st : RState) : TQ (renderArg cx t st) (fun _ => True) := by
  unfold renderArg
  split
  · apply TQ.bind (subChk_tq _ _); intro o _
    apply TQ.bind (renderVariable_tq _ _ _ _); intro r _
    exact TQ_pure _ trivial
  · apply TQ.bind (subChk_tq _ _); intro o _
    apply TQ.bind (renderRawVariable_tq _ _ _ _); intro r _
    exact TQ_pure _ trivial
  · apply TQ.bind (renderMath_tq _ _ _ _ _ _); intro r _
    exact TQ_pure _ trivial
  · exact TQ_pure _ trivial


/-! ### some fuel suffices -/

theorem Ex.congr {α : Type} {g g' : Nat → Except Fault α} (h : ∀ n, g n = g' n) (e : Ex g') : Ex g := by
  obtain ⟨N, hN⟩ := e; exact ⟨N, by rw [h]; exact hN⟩

theorem svarLoop_ex (cx : RCtx R) (sub : List (Tag R)) (txt : List Nat) : ∀ (k i l : Nat) (st : RState),
    txt.length - i ≤ k → Ex (fun N => svarLoop cx N sub txt i l st) := by
  intro k
  induction k with
  | zero =>
    intro i l st hk
    exact ⟨1, by show TQ (svarLoop cx (0 + 1) sub txt i l st) _; rw [svarLoop_end cx 0 sub txt i l st (by omega)]; trivial⟩
  | succ k ih =>
    intro i l st hk
    by_cases h0 : i < txt.length
    · by_cases h1 : txt[i]? = some 123
      · by_cases hh : i + 2 < txt.length ∧ txt[i + 2]? = some 125 ∧ idOf (txt.getD (i + 1) 0) < sub.length
        · apply Ex.succ _ (fun n => renderArg cx sub[idOf (txt.getD (i + 1) 0)]?
              (emit st (Qentem.Escape.escapeCfg cx.autoEscape ((txt.drop l).take (i - l)))) >>=
              fun st2 => svarLoop cx n sub txt (i + 3) (i + 3) st2)
            (fun n => svarLoop_hit cx n sub txt i l st h0 h1 hh.1 hh.2.1 hh.2.2)
          exact Ex.bind (fun _ => _) (fun n st2 => svarLoop cx n sub txt (i + 3) (i + 3) st2)
            (fun _ => Ref.same _) (fun x n => (render_mono cx n).2.2.2.2 _ _ _ _ _)
            (Ex.const (renderArg_tq _ _ _)) (fun x => ih _ _ _ (by omega))
        · exact Ex.succ _ _ (fun n => svarLoop_rej cx n sub txt i l st h0 h1 hh) (ih _ _ _ (by omega))
      · exact Ex.succ _ _ (fun n => svarLoop_other cx n sub txt i l st h0 h1) (ih _ _ _ (by omega))
    · exact ⟨1, by show TQ (svarLoop cx (0 + 1) sub txt i l st) _; rw [svarLoop_end cx 0 sub txt i l st h0]; trivial⟩

theorem Ex.ite {α : Type} (c : Prop) [Decidable c] (g : Nat → Except Fault α) (x : Except Fault α)
    (eg : Ex g) (ex : TQ x (fun _ => True)) : Ex (fun n => if c then g n else x) := by
  by_cases hc : c
  · exact Ex.congr (fun n => by simp only [hc, if_true]) eg
  · exact Ex.congr (fun n => by simp only [hc, if_false]) (Ex.const ex)

theorem loopIter_ex (cx : RCtx R) (sub : List (Tag R)) (f : LoopFields) (set : Doc) (size : Nat)
    (hsub : ∀ off endO st, Ex (fun N => render cx N sub off endO st)) :
    ∀ (k idx : Nat) (st : RState), size - idx ≤ k → Ex (fun N => loopIter cx N sub f set size idx st) := by
  intro k
  induction k with
  | zero =>
    intro idx st hk
    exact ⟨1, by
      show TQ (loopIter cx (0 + 1) sub f set size idx st) _
      simp only [loopIter, show ¬ idx < size by omega, if_false]; trivial⟩
  | succ k ih =>
    intro idx st hk
    by_cases hlt : idx < size
    · apply Ex.succ _ (fun n => itemAt st f.level >>= fun it =>
          (if (itemOf set idx it).value.isSome then
              render cx n sub (f.off + f.contentOff) f.endOff { st with items := st.items.set f.level (itemOf set idx it) }
           else pure { st with items := st.items.set f.level (itemOf set idx it) }) >>= fun st2 =>
          loopIter cx n sub f set size (idx + 1) st2)
        (fun n => by rw [loopIter_succ]; simp only [hlt, if_true])
      apply Ex.bind (fun _ => itemAt st f.level)
        (fun n it => (if (itemOf set idx it).value.isSome then
              render cx n sub (f.off + f.contentOff) f.endOff { st with items := st.items.set f.level (itemOf set idx it) }
           else pure { st with items := st.items.set f.level (itemOf set idx it) }) >>= fun st2 =>
          loopIter cx n sub f set size (idx + 1) st2)
        (fun _ => Ref.same _)
        (fun it n => Ref.bind (Ref.ite _ ((render_mono cx n).1 _ _ _ _) (Ref.same _))
          (fun st2 => (render_mono cx n).2.2.2.1 _ _ _ _ _ _))
        (Ex.const (itemAt_tq _ _))
      intro it
      exact Ex.bind (fun n => if (itemOf set idx it).value.isSome then
              render cx n sub (f.off + f.contentOff) f.endOff { st with items := st.items.set f.level (itemOf set idx it) }
           else pure { st with items := st.items.set f.level (itemOf set idx it) })
        (fun n st2 => loopIter cx n sub f set size (idx + 1) st2)
        (fun n => Ref.ite _ ((render_mono cx n).1 _ _ _ _) (Ref.same _))
        (fun st2 n => (render_mono cx n).2.2.2.1 _ _ _ _ _ _)
        (Ex.ite _ _ _ (hsub _ _ _) (TQ_pure _ trivial))
        (fun st2 => ih _ _ (by omega))
    · exact ⟨1, by
        show TQ (loopIter cx (0 + 1) sub f set size idx st) _
        simp only [loopIter, hlt, if_false]; trivial⟩


theorem Ex.ite2 {α : Type} (c : Prop) [Decidable c] (g g' : Nat → Except Fault α)
    (eg : Ex g) (eg' : Ex g') : Ex (fun n => if c then g n else g' n) := by
  by_cases hc : c
  · exact Ex.congr (fun n => by simp only [hc, if_true]) eg
  · exact Ex.congr (fun n => by simp only [hc, if_false]) eg'

theorem ifCases_ex (cx : RCtx R) : ∀ (cases : List (IfCase R)),
    (∀ cs sub o e, IfCase.mk cs sub o e ∈ cases → ∀ off endO st, Ex (fun N => render cx N sub off endO st)) →
    ∀ st, Ex (fun N => ifCases cx N cases st) := by
  intro cases
  induction cases with
  | nil => intro _ st; exact ⟨1, by show TQ (ifCases cx (0 + 1) [] st) _; simp only [ifCases]; trivial⟩
  | cons cse rest ih =>
    obtain ⟨cs, sub, o, e⟩ := cse
    intro hsub st
    refine Ex.succ _ ?body (fun n => ?eq) ?e
    case eq => rw [ifCases]
    refine Ex.bind (fun _ => _) _ (fun _ => Ref.same _) ?hb ?ea ?eb
    case hb => exact fun hit n => Ref.ite _ ((render_mono cx n).1 _ _ _ _) ((render_mono cx n).2.2.1 _ _)
    case ea =>
      apply Ex.const
      split
      · exact TQ_pure _ trivial
      · apply TQ.bind (evalExprs_tq _ _ _); intro v _; exact TQ_pure _ trivial
    case eb =>
      intro hit
      exact Ex.ite2 _ _ _ (hsub cs sub o e (List.mem_cons_self ..) _ _ _)
        (ih (fun cs' sub' o' e' hm => hsub cs' sub' o' e' (List.mem_cons_of_mem _ hm)) st)


theorem tagsSize_drop_le : ∀ (l : List (Tag R)) (k : Nat), tagsSize (l.drop k) ≤ tagsSize l := by
  intro l
  induction l with
  | nil => intro k; simp [tagsSize]
  | cons t r ih =>
    intro k
    cases k with
    | zero => simp
    | succ k => have := ih k; simp only [List.drop_succ_cons, tagsSize]; omega

theorem tagsSize_take_le : ∀ (l : List (Tag R)) (k : Nat), tagsSize (l.take k) ≤ tagsSize l := by
  intro l
  induction l with
  | nil => intro k; simp [tagsSize]
  | cons t r ih =>
    intro k
    cases k with
    | zero => simp [tagsSize]
    | succ k => have := ih k; simp only [List.take_succ_cons, tagsSize]; omega

theorem casesSize_mem : ∀ (cases : List (IfCase R)) (cs : List (Item R)) (sub : List (Tag R)) (o e : Nat),
    IfCase.mk cs sub o e ∈ cases → tagsSize sub < casesSize cases := by
  intro cases
  induction cases with
  | nil => intro cs sub o e h; cases h
  | cons c r ih =>
    intro cs sub o e h
    obtain ⟨cs0, sub0, o0, e0⟩ := c
    rcases List.mem_cons.mp h with h | h
    · cases h; simp only [casesSize]; omega
    · have := ih cs sub o e h; simp only [casesSize]; omega

theorem renderTag_ex (cx : RCtx R) (t : Tag R)
    (hsub : ∀ tags', tagsSize tags' < t.size → ∀ off endO st, Ex (fun N => render cx N tags' off endO st)) :
    ∀ off st, Ex (fun N => renderTag cx N t off st) := by
  intro off st
  cases t with
  | var v => exact Ex.succ _ (fun _ => _) (fun n => by rw [renderTag]) (Ex.const (renderVariable_tq _ _ _ _))
  | raw v => exact Ex.succ _ (fun _ => _) (fun n => by rw [renderTag]) (Ex.const (renderRawVariable_tq _ _ _ _))
  | math ex o e => exact Ex.succ _ (fun _ => _) (fun n => by rw [renderTag]) (Ex.const (renderMath_tq _ _ _ _ _ _))
  | svar sub v o e =>
    refine Ex.succ _ ?body (fun n => ?eq) ?e
    case eq => rw [renderTag]
    refine Ex.bind (fun _ => _) _ (fun _ => Ref.same _) ?hb (Ex.const (getValue_tq _ _ _)) ?eb
    case hb =>
      intro sVar n
      apply Ref.bind (Ref.same _); intro s
      split
      · exact Ref.bind ((render_mono cx n).2.2.2.2 _ _ _ _ _) (fun x => Ref.same _)
      · exact Ref.same _
    case eb =>
      intro sVar
      refine Ex.bind (fun _ => _) _ (fun _ => Ref.same _) ?hb2 (Ex.const (slice_tq _ _ _)) ?eb2
      case hb2 =>
        intro s n
        split
        · exact Ref.bind ((render_mono cx n).2.2.2.2 _ _ _ _ _) (fun x => Ref.same _)
        · exact Ref.same _
      case eb2 =>
        intro s
        dsimp only
        split
        · rename_i txt _
          exact Ex.bind _ (fun _ st2 => .ok (st2, e)) (fun n => (render_mono cx n).2.2.2.2 _ _ _ _ _)
            (fun _ _ => Ref.same _) (svarLoop_ex cx sub txt _ _ _ _ (Nat.le_refl _)) (fun _ => Ex.const (TQ.ok _ trivial))
        · apply Ex.const
          apply TQ.bind (slice_tq _ _ _); intro s2 _; exact TQ.ok _ trivial
  | iif cs sub f =>
    refine Ex.succ _ ?bodyI (fun n => ?eqI) ?eI
    case eqI => rw [renderTag]
    refine Ex.bind (fun _ => _) _ (fun _ => Ref.same _) ?hbI (Ex.const (slice_tq _ _ _)) ?ebI
    case hbI =>
      intro s n
      apply Ref.bind (Ref.same _); intro ev
      split
      · exact Ref.same _
      · apply Ref.bind (Ref.same _); intro tags
        exact Ref.bind ((render_mono cx n).1 _ _ _ _) (fun x => Ref.same _)
    case ebI =>
      intro s
      dsimp only
      refine Ex.bind (fun _ => _) _ (fun _ => Ref.same _) ?hb2I (Ex.const (evalExprs_tq _ _ _)) ?eb2I
      case hb2I =>
        intro ev n
        split
        · exact Ref.same _
        · apply Ref.bind (Ref.same _); intro tags
          exact Ref.bind ((render_mono cx n).1 _ _ _ _) (fun x => Ref.same _)
      case eb2I =>
        intro ev
        split
        · exact Ex.const (TQ.ok _ trivial)
        · rename_i pos _
          have hsel : TQ (if pos = true then (if f.trueOff < f.falseOff then takeChk sub f.falseStart else dropChk sub f.trueStart)
              else (if f.falseOff < f.trueOff then takeChk sub f.trueStart else dropChk sub f.falseStart))
              (fun r => tagsSize r ≤ tagsSize sub) := by
            have ht : ∀ k, TQ (takeChk sub k) (fun r => tagsSize r ≤ tagsSize sub) :=
              fun k => TQ.mono (takeChk_tq sub k) (fun r hr => by obtain ⟨j, rfl⟩ := hr; exact tagsSize_take_le sub j)
            have hd : ∀ k, TQ (dropChk sub k) (fun r => tagsSize r ≤ tagsSize sub) :=
              fun k => TQ.mono (dropChk_tq sub k) (fun r hr => by obtain ⟨j, rfl⟩ := hr; exact tagsSize_drop_le sub j)
            split <;> split <;> first | exact ht _ | exact hd _
          refine Ex.bindP (fun _ => _) _ (fun r => tagsSize r ≤ tagsSize sub) (fun _ => Ref.same _) ?hb3I ⟨0, hsel⟩ ?eb3I
          case hb3I =>
            intro tags n
            exact Ref.bind ((render_mono cx n).1 _ _ _ _) (fun x => Ref.same _)
          case eb3I =>
            intro tags hsz
            exact Ex.bind _ (fun _ st2 => .ok (st2, f.off + f.len)) (fun n => (render_mono cx n).1 _ _ _ _)
              (fun _ _ => Ref.same _) (hsub tags (by simp only [Tag.size]; omega) _ _ _) (fun _ => Ex.const (TQ.ok _ trivial))
  | loop sub f =>
    refine Ex.succ _ ?bodyL (fun n => ?eqL) ?eL
    case eqL => rw [renderTag]
    refine Ex.bind (fun _ => _) _ (fun _ => Ref.same _) ?hbL (Ex.const (slice_tq _ _ _)) ?ebL
    case hbL =>
      intro s n
      apply Ref.bind (Ref.same _); intro ls
      split
      · exact Ref.same _
      · apply Ref.bind (Ref.same _); intro g
        split
        · exact Ref.same _
        · exact Ref.bind ((render_mono cx n).2.2.2.1 _ _ _ _ _ _) (fun x => Ref.same _)
    case ebL =>
      intro s
      dsimp only
      refine Ex.bind (fun _ => _) _ (fun _ => Ref.same _) ?hbL2 ?eaL2 ?ebL2
      case hbL2 =>
        intro ls n
        split
        · exact Ref.same _
        · apply Ref.bind (Ref.same _); intro g
          split
          · exact Ref.same _
          · exact Ref.bind ((render_mono cx n).2.2.2.1 _ _ _ _ _ _) (fun x => Ref.same _)
      case eaL2 =>
        apply Ex.const
        split
        · exact getValue_tq _ _ _
        · exact TQ_pure _ trivial
      case ebL2 =>
        intro ls
        split
        · exact Ex.const (TQ.ok _ trivial)
        · refine Ex.bind (fun _ => _) _ (fun _ => Ref.same _) ?hbL3 ?eaL3 ?ebL3
          case hbL3 =>
            intro g n
            split
            · exact Ref.same _
            · exact Ref.bind ((render_mono cx n).2.2.2.1 _ _ _ _ _ _) (fun x => Ref.same _)
          case eaL3 =>
            apply Ex.const
            split
            · apply TQ.bind (slice_tq _ _ _); intro key _; exact TQ_pure _ trivial
            · exact TQ_pure _ trivial
          case ebL3 =>
            intro g
            split
            · exact Ex.const (TQ.ok _ trivial)
            · exact Ex.bind _ (fun _ st2 => .ok (st2, f.endOff + W1.loopSuffixLength))
                (fun n => (render_mono cx n).2.2.2.1 _ _ _ _ _ _) (fun _ _ => Ref.same _)
                (loopIter_ex cx sub f _ _ (hsub sub (by simp only [Tag.size]; omega)) _ _ _ (Nat.le_refl _))
                (fun _ => Ex.const (TQ.ok _ trivial))
  | ifT cases o e =>
    refine Ex.succ _ ?bodyF (fun n => ?eqF) ?eF
    case eqF => rw [renderTag]
    refine Ex.bind (fun _ => _) _ (fun _ => Ref.same _) ?hbF (Ex.const (slice_tq _ _ _)) ?ebF
    case hbF =>
      intro s n
      split
      · exact Ref.same _
      · split
        · exact Ref.same _
        · exact Ref.bind ((render_mono cx n).2.2.1 _ _) (fun x => Ref.same _)
    case ebF =>
      intro s
      dsimp only
      split
      · exact Ex.const (TQ.ok _ trivial)
      · split
        · exact Ex.const (TQ.ok _ trivial)
        · exact Ex.bind _ (fun _ st2 => .ok (st2, e)) (fun n => (render_mono cx n).2.2.1 _ _) (fun _ _ => Ref.same _)
            (ifCases_ex cx _ (fun cs' sub' o' e' hm => hsub sub' (by
              have := casesSize_mem _ cs' sub' o' e' hm
              simp only [Tag.size]; omega)) _)
            (fun _ => Ex.const (TQ.ok _ trivial))


theorem Tag.size_pos (t : Tag R) : 1 ≤ t.size := by
  cases t <;> simp only [Tag.size] <;> omega

/-- **some fuel suffices for every tag list, offset range and state** -/
theorem render_ex_all (cx : RCtx R) : ∀ (n : Nat) (tags : List (Tag R)), tagsSize tags ≤ n →
    ∀ off endO st, Ex (fun N => render cx N tags off endO st) := by
  intro n
  induction n with
  | zero =>
    intro tags h off endO st
    cases tags with
    | nil =>
      exact Ex.succ _ (fun _ => _) (fun n => by rw [render])
        (Ex.const (by apply TQ.bind (slice_tq _ _ _); intro s _; exact TQ.ok _ trivial))
    | cons t r => have := Tag.size_pos t; simp only [tagsSize] at h; omega
  | succ n ih =>
    intro tags
    induction tags with
    | nil =>
      intro _ off endO st
      exact Ex.succ _ (fun _ => _) (fun n => by rw [render])
        (Ex.const (by apply TQ.bind (slice_tq _ _ _); intro s _; exact TQ.ok _ trivial))
    | cons t rest ihl =>
      intro h off endO st
      simp only [tagsSize] at h
      have hpos := Tag.size_pos t
      refine Ex.succ _ ?bodyR (fun m => ?eqR) ?eR
      case eqR => rw [render]
      refine Ex.bind _ _ (fun m => (render_mono cx m).2.1 _ _ _) ?hbR ?eaR ?ebR
      case hbR => intro x m; exact (render_mono cx m).1 _ _ _ _
      case eaR => exact renderTag_ex cx t (fun tags' hlt => ih tags' (by omega)) off st
      case ebR => intro x; exact ihl (by omega) _ _ _

/-- **`RenderSafe`, the totality part**: for every tag list some fuel makes `renderTop` return a text
or fail with a failed access — never with exhausted fuel -/
theorem renderTop_ex (cx : RCtx R) (tags : List (Tag R)) :
    ∃ fuel, TQ (renderTop cx tags fuel) (fun _ => True) := by
  obtain ⟨N, hN⟩ := render_ex_all cx _ tags (Nat.le_refl _) 0 cx.content.length {}
  refine ⟨N, ?_⟩
  unfold renderTop
  exact TQ.bind hN (fun st _ => TQ.ok _ trivial)

end Qentem.Tmpl
