import Qentem.Proofs.NumToStrLayout
import Qentem.Proofs.NumToStrRound
/-! C10 helper, Default format: the digit estimate `⌊e·30103/100000⌋+1` is exactly the digit count of
`2^e` (kernel-checked table fact); `%.{p}g` of an integer with at most `P` digits; the model on such
integers (`default_small_int64`). -/
set_option linter.unusedSimpArgs false
set_option linter.unusedVariables false
namespace Qentem.Proofs.NumToStr
open Qentem.NumToStr Qentem.Generated.NumToStr Qentem

/-! ### the decimal digit estimate `⌊e·30103/100000⌋ + 1` is exactly the digit count of `2^e` -/

/-- checked for every binary exponent a double or float can have (kernel evaluation of closed instances) -/
theorem est_table : ∀ e, e ≤ 1130 → 10 ^ (e * 30103 / 100000) ≤ 2 ^ e ∧ 2 ^ e < 10 ^ (e * 30103 / 100000 + 1) := by
  decide +kernel

/-- `%.{p}g` of a positive integer with at most `P` digits is its decimal numeral -/
theorem generalBody_int (n : Nat) {den : Nat} (hd : 0 < den) (hn : 0 < n) (p : Nat)
    (hl : (D n).length ≤ (if p = 0 then 1 else p)) :
    FmtSpec.generalBody (n * den) den p = D n := by
  generalize hP : (if p = 0 then 1 else p) = P at hl
  have hPpos : 0 < P := by rw [← hP]; split <;> omega
  have hLpos : 0 < (D n).length := List.length_pos_iff.mpr (D_ne_nil n)
  have hnd : n * den ≠ 0 := Nat.mul_ne_zero (by omega) (by omega)
  have hle : den ≤ n * den := Nat.le_mul_of_pos_left _ hn
  have hdiv : n * den / den = n := Nat.mul_div_cancel _ hd
  have hx0 : FmtSpec.floorLog10 (n * den) den = (((D n).length - 1 : Nat) : Int) := by
    unfold FmtSpec.floorLog10; rw [if_pos hle, hdiv]
  have hnlt : n < 10 ^ P := (D_length_le_iff hPpos).mp hl
  have hk : (P : Int) - 1 - (((D n).length - 1 : Nat) : Int) = ((P - (D n).length : Nat) : Int) := by omega
  have hsr : FmtSpec.scaleRound (n * den) den ((P : Int) - 1 - (((D n).length - 1 : Nat) : Int)) = n * 10 ^ (P - (D n).length) := by
    rw [hk]; unfold FmtSpec.scaleRound
    simp only [Int.natCast_nonneg, if_true, Int.toNat_natCast]
    rw [show n * den * 10 ^ (P - (D n).length) = (n * 10 ^ (P - (D n).length)) * den by ring, roundHalfEven_mul _ hd]
  have hlt : n * 10 ^ (P - (D n).length) < 10 ^ P := by
    have h1 : n < 10 ^ (D n).length := (D_length_le_iff hLpos).mp (Nat.le_refl _)
    calc n * 10 ^ (P - (D n).length) < 10 ^ (D n).length * 10 ^ (P - (D n).length) :=
          Nat.mul_lt_mul_of_pos_right h1 (Nat.pow_pos (by decide))
      _ = 10 ^ P := by rw [← Nat.pow_add]; congr 1; omega
  have hsci : FmtSpec.sciDigits (n * den) den P = (n * 10 ^ (P - (D n).length), (((D n).length - 1 : Nat) : Int)) := by
    unfold FmtSpec.sciDigits
    simp only [hx0, hsr, Nat.ne_of_lt hlt, if_false]
  unfold FmtSpec.generalBody
  simp only [hP, hnd, if_false, hsci]
  have hrange : (-4 : Int) ≤ (((D n).length - 1 : Nat) : Int) ∧ (((D n).length - 1 : Nat) : Int) < (P : Int) := by omega
  rw [if_pos hrange, hk, Int.toNat_natCast, fixedBody_int n hd]
  exact stripFraction_int n _

theorem intValue64_ge {e f j : Nat} (h : IntValued64 e f j) : 2 ^ (e - 1023) ≤ intValue64 e f := by
  obtain ⟨he1, he2, hf, hj, hdiv, hodd, hint⟩ := h
  unfold intValue64
  split
  · rename_i h75
    have : e - 1023 = 52 + (e - 1075) := by omega
    rw [this, Nat.pow_add]
    exact Nat.mul_le_mul_right _ (Nat.le_add_right _ _)
  · rename_i h75
    have h1 : 2 ^ (e - 1023) = 2 ^ 52 / 2 ^ (1075 - e) := by
      have e1 : 52 - (1075 - e) = e - 1023 := by omega
      rw [Nat.pow_div (show 1075 - e ≤ 52 by omega) (show 0 < 2 by decide), e1]
    rw [h1]
    exact Nat.div_le_div_right (Nat.le_add_right _ _)

theorem est_le_len64 {e f j : Nat} (h : IntValued64 e f j) :
    (e - 1023) * 30103 / 100000 + 1 ≤ (D (intValue64 e f)).length := by
  have hpe : e - 1023 ≤ 1130 := by have := h.he2; omega
  have ht := (est_table (e - 1023) hpe).1
  have := D_length_gt (le_trans ht (intValue64_ge h))
  omega

/-- **Default format, integers with at most `P` significant digits** (`P` = precision, 1 for 0): the model
prints the plain decimal numeral, which is what `%.{p}g` prints. -/
theorem default_small_int64 (pre : List Nat) (bits p j : Nat)
    (h : IntValued64 ((bits / 2 ^ 52) % 2 ^ 11) (bits % 2 ^ 52) j)
    (hl : (D (intValue64 ((bits / 2 ^ 52) % 2 ^ 11) (bits % 2 ^ 52))).length ≤ (if p = 0 then 1 else p))
    (hp : p ≤ 1048576) :
    realToString f64 pre bits p 0 = .ok (pre ++ FmtSpec.format64 bits p .default) := by
  have he1 := h.he1
  have he2 := h.he2
  have hfin : (bits / 2 ^ 52) % 2 ^ 11 ≠ 2 ^ 11 - 1 := by omega
  have hnz : (bits / 2 ^ 52) % 2 ^ 11 ≠ 0 ∨ bits % 2 ^ 52 ≠ 0 := Or.inl (by omega)
  obtain ⟨den, hden, hdec⟩ := decode64_int h
  have hpp : (if (0:Nat) = fmtDefault ∧ p = 0 then 1 else p) = (if p = 0 then 1 else p) := by simp [fmtDefault]
  rw [realToString_finite64 pre bits p 0 hfin hnz, hpp,
    realFinite_int64_default f64_like h (le_trans (est_le_len64 h) hl) hl, format64_finite bits p _ hdec]
  simp only []
  rw [generalBody_int _ hden (intValue64_pos h) p hl]
  by_cases hs : bits / 9223372036854775808 % 2 = 1 <;> simp [hs, FmtSpec.signed, FmtSpec.cMinus]

end Qentem.Proofs.NumToStr
