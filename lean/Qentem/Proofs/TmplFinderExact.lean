import Qentem.Proofs.TmplFinder
/-!
# The Finder on printed templates: exact results

`next_skip` (units that are none of `{ < }` are skipped), `next_at_var` / `next_at_raw` /
`next_at_math` (a tag opener is reported with the offset after it), `next_at_close`, `next_plain_end`.
-/
namespace Qentem.Tmpl
open Qentem.Expr (Fault rd)
open Qentem.Generated.Tmpl

/-- a unit the Finder skips -/
def plainU (x : Nat) : Prop := x ≠ 123 ∧ x ≠ 60 ∧ x ≠ 125

theorem rd_some (c : List Nat) (i x : Nat) (h : c[i]? = some x) : rd c i = .ok x := by
  simp [rd, h]

theorem nextF_skip (c : List Nat) : ∀ (k f off : Nat),
    (∀ i, i < k → ∃ x, c[off + i]? = some x ∧ plainU x) →
    nextF c (f + k) off = nextF c f (off + k) := by
  intro k
  induction k with
  | zero => intro f off _; rfl
  | succ k ih =>
    intro f off h
    obtain ⟨x, hx, hp⟩ := h 0 (by omega)
    simp only [Nat.add_zero] at hx
    have hlt : off < c.length := (List.getElem?_eq_some_iff.mp hx).1
    have hfc : ¬ firstCharID x < W1.firstCharsCount := by
      unfold firstCharID
      have h1 : W1.inLineFirstChar = 123 := by decide
      have h2 : W1.multiLineFirstChar = 60 := by decide
      rw [h1, h2]
      simp [hp.1, hp.2.1]; decide
    have hsc : x ≠ W1.singleChar := by
      have : W1.singleChar = 125 := by decide
      rw [this]; exact hp.2.2
    have : f + (k + 1) = (f + k) + 1 := by omega
    rw [this]
    simp only [nextF, hlt, if_true, rd_some c off x hx, bind, Except.bind, hfc, if_false, hsc]
    rw [ih f (off + 1) (by
      intro i hi
      have := h (i + 1) (by omega)
      simpa [Nat.add_assoc, Nat.add_comm 1 i] using this)]
    congr 1; omega

theorem next_skip (c : List Nat) (k off : Nat) (hk : off + k ≤ c.length)
    (h : ∀ i, i < k → ∃ x, c[off + i]? = some x ∧ plainU x) : next c off = next c (off + k) := by
  unfold next
  have : c.length + 1 - off = (c.length + 1 - (off + k)) + k := by omega
  rw [this]
  exact nextF_skip c k _ off h

theorem next_plain_end (c : List Nat) (off : Nat) (ho : off ≤ c.length)
    (h : ∀ i, off ≤ i → i < c.length → ∃ x, c[i]? = some x ∧ plainU x) :
    next c off = .ok (c.length, 0) := by
  rw [next_skip c (c.length - off) off (by omega) (by
    intro i hi
    exact h (off + i) (by omega) (by omega))]
  have : off + (c.length - off) = c.length := by omega
  rw [this]
  unfold next
  have : c.length + 1 - c.length = 1 := by omega
  rw [this]
  simp [nextF]

theorem next_at_close (c : List Nat) (p : Nat) (h : c[p]? = some 125) : next c p = .ok (p + 1, 1) := by
  have hlt : p < c.length := (List.getElem?_eq_some_iff.mp h).1
  unfold next
  have : c.length + 1 - p = (c.length - p) + 1 := by omega
  rw [this]
  simp only [nextF, hlt, if_true, rd_some c p 125 h, bind, Except.bind]
  have h1 : ¬ firstCharID 125 < W1.firstCharsCount := by decide
  have h2 : (125 : Nat) = W1.singleChar := by decide
  simp [h1, ← h2]


/-- `{var:` at `p` -/
theorem next_at_var (c : List Nat) (p : Nat) (hn : c.length < 4294967296)
    (h0 : c[p]? = some 123) (h1 : c[p + 1]? = some 118) (h2 : c[p + 2]? = some 97)
    (h3 : c[p + 3]? = some 114) (h4 : c[p + 4]? = some 58) : next c p = .ok (p + 5, 2) := by
  have hlt : p < c.length := (List.getElem?_eq_some_iff.mp h0).1
  have hlt4 : p + 4 < c.length := (List.getElem?_eq_some_iff.mp h4).1
  unfold next
  have : c.length + 1 - p = (c.length - p) + 1 := by omega
  rw [this]
  have hmod : (p + 1 + 3) % 4294967296 = p + 4 := by omega
  simp only [nextF, hlt, if_true, rd_some c p 123 h0, bind, Except.bind]
  have hid : firstCharID 123 = 0 := by decide
  have hg : W1.groups.getD 0 [] = [1, 2, 3, 4, 5] := by decide
  have hfc : (0 : Nat) < W1.firstCharsCount := by decide
  have hwl : W1.wordLengths.getD 1 0 = 3 := by decide
  have hw : W1.words.getD 1 [] = [118, 97, 114, 58] := by decide
  have h32 : (2 : Nat) ^ sizeTBits = 4294967296 := by decide
  simp only [hid, hfc, if_true, hg, tryWords, hwl, hw, h32, hmod, hlt4, rd_some c (p + 4) 58 h4]
  have h2' : c[p + 1 + 1]? = some 97 := by rw [show p + 1 + 1 = p + 2 by omega]; exact h2
  have h3' : c[p + 1 + 1 + 1]? = some 114 := by rw [show p + 1 + 1 + 1 = p + 3 by omega]; exact h3
  simp [matchMiddle, rd_some c (p + 1) 118 h1, rd_some c _ 97 h2', rd_some c _ 114 h3', bind, Except.bind, pure, Except.pure]

/-- `{raw:` at `p` -/
theorem next_at_raw (c : List Nat) (p : Nat) (hn : c.length < 4294967296)
    (h0 : c[p]? = some 123) (h1 : c[p + 1]? = some 114) (h2 : c[p + 2]? = some 97)
    (h3 : c[p + 3]? = some 119) (h4 : c[p + 4]? = some 58) : next c p = .ok (p + 5, 3) := by
  have hlt : p < c.length := (List.getElem?_eq_some_iff.mp h0).1
  have hlt4 : p + 4 < c.length := (List.getElem?_eq_some_iff.mp h4).1
  unfold next
  have : c.length + 1 - p = (c.length - p) + 1 := by omega
  rw [this]
  have hmod : (p + 1 + 3) % 4294967296 = p + 4 := by omega
  simp only [nextF, hlt, if_true, rd_some c p 123 h0, bind, Except.bind]
  have hid : firstCharID 123 = 0 := by decide
  have hg : W1.groups.getD 0 [] = [1, 2, 3, 4, 5] := by decide
  have hfc : (0 : Nat) < W1.firstCharsCount := by decide
  have hwl : W1.wordLengths.getD 1 0 = 3 := by decide
  have hw : W1.words.getD 1 [] = [118, 97, 114, 58] := by decide
  have hwl2 : W1.wordLengths.getD 2 0 = 3 := by decide
  have hw2 : W1.words.getD 2 [] = [114, 97, 119, 58] := by decide
  have h32 : (2 : Nat) ^ sizeTBits = 4294967296 := by decide
  simp only [hid, hfc, if_true, hg, tryWords, hwl, hw, hwl2, hw2, h32, hmod, hlt4, rd_some c (p + 4) 58 h4]
  have h2' : c[p + 1 + 1]? = some 97 := by rw [show p + 1 + 1 = p + 2 by omega]; exact h2
  have h3' : c[p + 1 + 1 + 1]? = some 119 := by rw [show p + 1 + 1 + 1 = p + 3 by omega]; exact h3
  simp [matchMiddle, rd_some c (p + 1) 114 h1, rd_some c _ 97 h2', rd_some c _ 119 h3', bind, Except.bind, pure, Except.pure]


/-- `{math:` at `p` -/
theorem next_at_math (c : List Nat) (p : Nat) (hn : c.length < 4294967296)
    (h0 : c[p]? = some 123) (h1 : c[p + 1]? = some 109) (h2 : c[p + 2]? = some 97)
    (h3 : c[p + 3]? = some 116) (h4 : c[p + 4]? = some 104) (h5 : c[p + 5]? = some 58) :
    next c p = .ok (p + 6, 4) := by
  have hlt : p < c.length := (List.getElem?_eq_some_iff.mp h0).1
  have hlt4 : p + 4 < c.length := (List.getElem?_eq_some_iff.mp h4).1
  have hlt5 : p + 5 < c.length := (List.getElem?_eq_some_iff.mp h5).1
  unfold next
  have : c.length + 1 - p = (c.length - p) + 1 := by omega
  rw [this]
  have hmod : (p + 1 + 3) % 4294967296 = p + 4 := by omega
  have hmod5 : (p + 1 + 4) % 4294967296 = p + 5 := by omega
  simp only [nextF, hlt, if_true, rd_some c p 123 h0, bind, Except.bind]
  have hid : firstCharID 123 = 0 := by decide
  have hg : W1.groups.getD 0 [] = [1, 2, 3, 4, 5] := by decide
  have hfc : (0 : Nat) < W1.firstCharsCount := by decide
  have hwl : W1.wordLengths.getD 1 0 = 3 := by decide
  have hw : W1.words.getD 1 [] = [118, 97, 114, 58] := by decide
  have hwl2 : W1.wordLengths.getD 2 0 = 3 := by decide
  have hw2 : W1.words.getD 2 [] = [114, 97, 119, 58] := by decide
  have hwl3 : W1.wordLengths.getD 3 0 = 4 := by decide
  have hw3 : W1.words.getD 3 [] = [109, 97, 116, 104, 58] := by decide
  have h32 : (2 : Nat) ^ sizeTBits = 4294967296 := by decide
  simp only [hid, hfc, if_true, hg, tryWords, hwl, hw, hwl2, hw2, hwl3, hw3, h32, hmod, hmod5, hlt4, hlt5,
    rd_some c (p + 4) 104 h4, rd_some c (p + 5) 58 h5]
  have h2' : c[p + 1 + 1]? = some 97 := by rw [show p + 1 + 1 = p + 2 by omega]; exact h2
  have h3' : c[p + 1 + 1 + 1]? = some 116 := by rw [show p + 1 + 1 + 1 = p + 3 by omega]; exact h3
  have h4' : c[p + 1 + 1 + 1 + 1]? = some 104 := by rw [show p + 1 + 1 + 1 + 1 = p + 4 by omega]; exact h4
  simp [matchMiddle, rd_some c (p + 1) 109 h1, rd_some c _ 97 h2', rd_some c _ 116 h3', rd_some c _ 104 h4',
    bind, Except.bind, pure, Except.pure]

end Qentem.Tmpl
