import Qentem.Proofs.TmplFinder
/-!
# The Finder on printed templates: exact results

`next_skip` (units that are none of `{ < }` are skipped), `next_at_var` / `next_at_raw` /
`next_at_math` (a tag opener is reported with the offset after it), `next_at_close`, `next_plain_end`.
-/
namespace Qentem.Tmpl
open Qentem.Expr (Fault rd)
open Qentem.Generated.Tmpl

/-- a unit the Finder skips -/
def plainU (x : Nat) : Prop := x ≠ 123 ∧ x ≠ 60 ∧ x ≠ 125

theorem rd_some (c : List Nat) (i x : Nat) (h : c[i]? = some x) : rd c i = .ok x := by
  simp [rd, h]

theorem nextF_skip (c : List Nat) : ∀ (k f off : Nat),
    (∀ i, i < k → ∃ x, c[off + i]? = some x ∧ plainU x) →
    nextF c (f + k) off = nextF c f (off + k) := by
  intro k
  induction k with
  | zero => intro f off _; rfl
  | succ k ih =>
    intro f off h
    obtain ⟨x, hx, hp⟩ := h 0 (by omega)
    simp only [Nat.add_zero] at hx
    have hlt : off < c.length := (List.getElem?_eq_some_iff.mp hx).1
    have hfc : ¬ firstCharID x < W1.firstCharsCount := by
      unfold firstCharID
      have h1 : W1.inLineFirstChar = 123 := by decide
      have h2 : W1.multiLineFirstChar = 60 := by decide
      rw [h1, h2]
      simp [hp.1, hp.2.1]; decide
    have hsc : x ≠ W1.singleChar := by
      have : W1.singleChar = 125 := by decide
      rw [this]; exact hp.2.2
    have : f + (k + 1) = (f + k) + 1 := by omega
    rw [this]
    simp only [nextF, hlt, if_true, rd_some c off x hx, bind, Except.bind, hfc, if_false, hsc]
    rw [ih f (off + 1) (by
      intro i hi
      have := h (i + 1) (by omega)
      simpa [Nat.add_assoc, Nat.add_comm 1 i] using this)]
    congr 1; omega

theorem next_skip (c : List Nat) (k off : Nat) (hk : off + k ≤ c.length)
    (h : ∀ i, i < k → ∃ x, c[off + i]? = some x ∧ plainU x) : next c off = next c (off + k) := by
  unfold next
  have : c.length + 1 - off = (c.length + 1 - (off + k)) + k := by omega
  rw [this]
  exact nextF_skip c k _ off h

theorem next_plain_end (c : List Nat) (off : Nat) (ho : off ≤ c.length)
    (h : ∀ i, off ≤ i → i < c.length → ∃ x, c[i]? = some x ∧ plainU x) :
    next c off = .ok (c.length, 0) := by
  rw [next_skip c (c.length - off) off (by omega) (by
    intro i hi
    exact h (off + i) (by omega) (by omega))]
  have : off + (c.length - off) = c.length := by omega
  rw [this]
  unfold next
  have : c.length + 1 - c.length = 1 := by omega
  rw [this]
  simp [nextF]

theorem next_at_close (c : List Nat) (p : Nat) (h : c[p]? = some 125) : next c p = .ok (p + 1, 1) := by
  have hlt : p < c.length := (List.getElem?_eq_some_iff.mp h).1
  unfold next
  have : c.length + 1 - p = (c.length - p) + 1 := by omega
  rw [this]
  simp only [nextF, hlt, if_true, rd_some c p 125 h, bind, Except.bind]
  have h1 : ¬ firstCharID 125 < W1.firstCharsCount := by decide
  have h2 : (125 : Nat) = W1.singleChar := by decide
  simp [h1, ← h2]


/-- `{var:` at `p` -/
theorem next_at_var (c : List Nat) (p : Nat) (hn : c.length < 4294967296)
    (h0 : c[p]? = some 123) (h1 : c[p + 1]? = some 118) (h2 : c[p + 2]? = some 97)
    (h3 : c[p + 3]? = some 114) (h4 : c[p + 4]? = some 58) : next c p = .ok (p + 5, 2) := by
  have hlt : p < c.length := (List.getElem?_eq_some_iff.mp h0).1
  have hlt4 : p + 4 < c.length := (List.getElem?_eq_some_iff.mp h4).1
  unfold next
  have : c.length + 1 - p = (c.length - p) + 1 := by omega
  rw [this]
  have hmod : (p + 1 + 3) % 4294967296 = p + 4 := by omega
  simp only [nextF, hlt, if_true, rd_some c p 123 h0, bind, Except.bind]
  have hid : firstCharID 123 = 0 := by decide
  have hg : W1.groups.getD 0 [] = [1, 2, 3, 4, 5] := by decide
  have hfc : (0 : Nat) < W1.firstCharsCount := by decide
  have hwl : W1.wordLengths.getD 1 0 = 3 := by decide
  have hw : W1.words.getD 1 [] = [118, 97, 114, 58] := by decide
  have h32 : (2 : Nat) ^ sizeTBits = 4294967296 := by decide
  simp only [hid, hfc, if_true, hg, tryWords, hwl, hw, h32, hmod, hlt4, rd_some c (p + 4) 58 h4]
  have h2' : c[p + 1 + 1]? = some 97 := by rw [show p + 1 + 1 = p + 2 by omega]; exact h2
  have h3' : c[p + 1 + 1 + 1]? = some 114 := by rw [show p + 1 + 1 + 1 = p + 3 by omega]; exact h3
  simp [matchMiddle, rd_some c (p + 1) 118 h1, rd_some c _ 97 h2', rd_some c _ 114 h3', bind, Except.bind, pure, Except.pure]

/-- `{raw:` at `p` -/
theorem next_at_raw (c : List Nat) (p : Nat) (hn : c.length < 4294967296)
    (h0 : c[p]? = some 123) (h1 : c[p + 1]? = some 114) (h2 : c[p + 2]? = some 97)
    (h3 : c[p + 3]? = some 119) (h4 : c[p + 4]? = some 58) : next c p = .ok (p + 5, 3) := by
  have hlt : p < c.length := (List.getElem?_eq_some_iff.mp h0).1
  have hlt4 : p + 4 < c.length := (List.getElem?_eq_some_iff.mp h4).1
  unfold next
  have : c.length + 1 - p = (c.length - p) + 1 := by omega
  rw [this]
  have hmod : (p + 1 + 3) % 4294967296 = p + 4 := by omega
  simp only [nextF, hlt, if_true, rd_some c p 123 h0, bind, Except.bind]
  have hid : firstCharID 123 = 0 := by decide
  have hg : W1.groups.getD 0 [] = [1, 2, 3, 4, 5] := by decide
  have hfc : (0 : Nat) < W1.firstCharsCount := by decide
  have hwl : W1.wordLengths.getD 1 0 = 3 := by decide
  have hw : W1.words.getD 1 [] = [118, 97, 114, 58] := by decide
  have hwl2 : W1.wordLengths.getD 2 0 = 3 := by decide
  have hw2 : W1.words.getD 2 [] = [114, 97, 119, 58] := by decide
  have h32 : (2 : Nat) ^ sizeTBits = 4294967296 := by decide
  simp only [hid, hfc, if_true, hg, tryWords, hwl, hw, hwl2, hw2, h32, hmod, hlt4, rd_some c (p + 4) 58 h4]
  have h2' : c[p + 1 + 1]? = some 97 := by rw [show p + 1 + 1 = p + 2 by omega]; exact h2
  have h3' : c[p + 1 + 1 + 1]? = some 119 := by rw [show p + 1 + 1 + 1 = p + 3 by omega]; exact h3
  simp [matchMiddle, rd_some c (p + 1) 114 h1, rd_some c _ 97 h2', rd_some c _ 119 h3', bind, Except.bind, pure, Except.pure]


/-- `{math:` at `p` -/
theorem next_at_math (c : List Nat) (p : Nat) (hn : c.length < 4294967296)
    (h0 : c[p]? = some 123) (h1 : c[p + 1]? = some 109) (h2 : c[p + 2]? = some 97)
    (h3 : c[p + 3]? = some 116) (h4 : c[p + 4]? = some 104) (h5 : c[p + 5]? = some 58) :
    next c p = .ok (p + 6, 4) := by
  have hlt : p < c.length := (List.getElem?_eq_some_iff.mp h0).1
  have hlt4 : p + 4 < c.length := (List.getElem?_eq_some_iff.mp h4).1
  have hlt5 : p + 5 < c.length := (List.getElem?_eq_some_iff.mp h5).1
  unfold next
  have : c.length + 1 - p = (c.length - p) + 1 := by omega
  rw [this]
  have hmod : (p + 1 + 3) % 4294967296 = p + 4 := by omega
  have hmod5 : (p + 1 + 4) % 4294967296 = p + 5 := by omega
  simp only [nextF, hlt, if_true, rd_some c p 123 h0, bind, Except.bind]
  have hid : firstCharID 123 = 0 := by decide
  have hg : W1.groups.getD 0 [] = [1, 2, 3, 4, 5] := by decide
  have hfc : (0 : Nat) < W1.firstCharsCount := by decide
  have hwl : W1.wordLengths.getD 1 0 = 3 := by decide
  have hw : W1.words.getD 1 [] = [118, 97, 114, 58] := by decide
  have hwl2 : W1.wordLengths.getD 2 0 = 3 := by decide
  have hw2 : W1.words.getD 2 [] = [114, 97, 119, 58] := by decide
  have hwl3 : W1.wordLengths.getD 3 0 = 4 := by decide
  have hw3 : W1.words.getD 3 [] = [109, 97, 116, 104, 58] := by decide
  have h32 : (2 : Nat) ^ sizeTBits = 4294967296 := by decide
  simp only [hid, hfc, if_true, hg, tryWords, hwl, hw, hwl2, hw2, hwl3, hw3, h32, hmod, hmod5, hlt4, hlt5,
    rd_some c (p + 4) 104 h4, rd_some c (p + 5) 58 h5]
  have h2' : c[p + 1 + 1]? = some 97 := by rw [show p + 1 + 1 = p + 2 by omega]; exact h2
  have h3' : c[p + 1 + 1 + 1]? = some 116 := by rw [show p + 1 + 1 + 1 = p + 3 by omega]; exact h3
  have h4' : c[p + 1 + 1 + 1 + 1]? = some 104 := by rw [show p + 1 + 1 + 1 + 1 = p + 4 by omega]; exact h4
  simp [matchMiddle, rd_some c (p + 1) 109 h1, rd_some c _ 97 h2', rd_some c _ 116 h3', rd_some c _ 104 h4',
    bind, Except.bind, pure, Except.pure]


theorem matchMiddle_stop (c : List Nat) (wend : Nat) (w : Nat) (ws : List Nat) (off x : Nat)
    (hlt : off < wend) (hx : c[off]? = some x) (hne : x ≠ w) :
    matchMiddle c wend (w :: ws) off = .ok off := by
  simp [matchMiddle, hlt, rd_some c off x hx, bind, Except.bind, hne]

/-- `<if` at `p` followed by ` c…s` (as in `<if case=`): units `p+4`, `p+6` known -/
theorem next_at_if (c : List Nat) (p : Nat) (hn : c.length + 16 < 4294967296)
    (h0 : c[p]? = some 60) (h1 : c[p + 1]? = some 105) (h2 : c[p + 2]? = some 102)
    (h4 : c[p + 4]? = some 99) (h6 : c[p + 6]? = some 115) : next c p = .ok (p + 3, 9) := by
  have hlt : p < c.length := (List.getElem?_eq_some_iff.mp h0).1
  have hlt2 : p + 2 < c.length := (List.getElem?_eq_some_iff.mp h2).1
  have hlt4 : p + 4 < c.length := (List.getElem?_eq_some_iff.mp h4).1
  have hlt6 : p + 6 < c.length := (List.getElem?_eq_some_iff.mp h6).1
  unfold next
  have : c.length + 1 - p = (c.length - p) + 1 := by omega
  rw [this]
  simp only [nextF, hlt, if_true, rd_some c p 60 h0, bind, Except.bind]
  have hid : firstCharID 60 = 1 := by decide
  have hg : W1.groups.getD 1 [] = [6, 7, 8, 9, 10] := by decide
  have hfc : (1 : Nat) < W1.firstCharsCount := by decide
  have hwl6 : W1.wordLengths.getD 6 0 = 3 := by decide
  have hw6 : W1.words.getD 6 [] = [108, 111, 111, 112] := by decide
  have hwl7 : W1.wordLengths.getD 7 0 = 5 := by decide
  have hw7 : W1.words.getD 7 [] = [47, 108, 111, 111, 112, 62] := by decide
  have hwl8 : W1.wordLengths.getD 8 0 = 1 := by decide
  have hw8 : W1.words.getD 8 [] = [105, 102] := by decide
  have h32 : (2 : Nat) ^ sizeTBits = 4294967296 := by decide
  have hm3 : (p + 1 + 3) % 4294967296 = p + 4 := by omega
  have hm5 : (p + 1 + 5) % 4294967296 = p + 6 := by omega
  have hm1 : (p + 1 + 1) % 4294967296 = p + 2 := by omega
  simp only [hid, hfc, if_true, hg, tryWords, hwl6, hw6, hwl7, hw7, hwl8, hw8, h32, hm3, hm5, hm1, hlt4, hlt6, hlt2,
    rd_some c (p + 4) 99 h4, rd_some c (p + 6) 115 h6, rd_some c (p + 2) 102 h2]
  simp [matchMiddle, rd_some c (p + 1) 105 h1, bind, Except.bind, pure, Except.pure]

/-- one candidate word of `tryWords` that does not match -/
theorem tryWords_skip (c : List Nat) (start wid : Nat) (rest : List Nat)
    (h : ∀ (hw : (start + W1.wordLengths.getD wid 0) % 2 ^ sizeTBits < c.length),
      c[(start + W1.wordLengths.getD wid 0) % 2 ^ sizeTBits] = (W1.words.getD wid []).getD (W1.wordLengths.getD wid 0) 0 →
      ∃ off, matchMiddle c ((start + W1.wordLengths.getD wid 0) % 2 ^ sizeTBits)
        ((W1.words.getD wid []).take (W1.wordLengths.getD wid 0)) start = .ok off ∧
        off ≠ (start + W1.wordLengths.getD wid 0) % 2 ^ sizeTBits) :
    tryWords c start (wid :: rest) = tryWords c start rest := by
  simp only [tryWords]
  by_cases hw : (start + W1.wordLengths.getD wid 0) % 2 ^ sizeTBits < c.length
  · simp only [hw, if_true, rd_ok c _ hw, bind, Except.bind]
    by_cases he : c[(start + W1.wordLengths.getD wid 0) % 2 ^ sizeTBits] =
        (W1.words.getD wid []).getD (W1.wordLengths.getD wid 0) 0
    · obtain ⟨off, ho, hne⟩ := h hw he
      simp only [he, if_true, ho, hne, if_false]
    · simp only [he, if_false]
  · simp only [hw, if_false]

/-- the candidate that matches -/
theorem tryWords_hit (c : List Nat) (start wid : Nat) (rest : List Nat)
    (hw : (start + W1.wordLengths.getD wid 0) % 2 ^ sizeTBits < c.length)
    (he : c[(start + W1.wordLengths.getD wid 0) % 2 ^ sizeTBits] =
      (W1.words.getD wid []).getD (W1.wordLengths.getD wid 0) 0)
    (hm : matchMiddle c ((start + W1.wordLengths.getD wid 0) % 2 ^ sizeTBits)
      ((W1.words.getD wid []).take (W1.wordLengths.getD wid 0)) start =
      .ok ((start + W1.wordLengths.getD wid 0) % 2 ^ sizeTBits)) :
    tryWords c start (wid :: rest) =
      .ok (some ((start + W1.wordLengths.getD wid 0) % 2 ^ sizeTBits + 1, wid + 1)) := by
  simp only [tryWords, hw, if_true, rd_ok c _ hw, bind, Except.bind, he, hm]

/-- `</if>` at `q` -/
theorem next_at_ifend (c : List Nat) (q : Nat) (hn : c.length + 16 < 4294967296)
    (h0 : c[q]? = some 60) (h1 : c[q + 1]? = some 47) (h2 : c[q + 2]? = some 105)
    (h3 : c[q + 3]? = some 102) (h4 : c[q + 4]? = some 62) : next c q = .ok (q + 5, 10) := by
  have hlt : q < c.length := (List.getElem?_eq_some_iff.mp h0).1
  have hlt1 : q + 1 < c.length := (List.getElem?_eq_some_iff.mp h1).1
  have hlt2 : q + 2 < c.length := (List.getElem?_eq_some_iff.mp h2).1
  have hlt3 : q + 3 < c.length := (List.getElem?_eq_some_iff.mp h3).1
  have hlt4 : q + 4 < c.length := (List.getElem?_eq_some_iff.mp h4).1
  have e1 : c[q + 1] = 47 := by have := List.getElem?_eq_getElem hlt1; rw [h1] at this; exact (Option.some.inj this).symm
  have e2 : c[q + 2] = 105 := by have := List.getElem?_eq_getElem hlt2; rw [h2] at this; exact (Option.some.inj this).symm
  have e3 : c[q + 3] = 102 := by have := List.getElem?_eq_getElem hlt3; rw [h3] at this; exact (Option.some.inj this).symm
  have e4 : c[q + 4] = 62 := by have := List.getElem?_eq_getElem hlt4; rw [h4] at this; exact (Option.some.inj this).symm
  unfold next
  have : c.length + 1 - q = (c.length - q) + 1 := by omega
  rw [this]
  simp only [nextF, hlt, if_true, rd_some c q 60 h0, bind, Except.bind]
  have hid : firstCharID 60 = 1 := by decide
  have hg : W1.groups.getD 1 [] = [6, 7, 8, 9, 10] := by decide
  have hfc : (1 : Nat) < W1.firstCharsCount := by decide
  have h32 : (2 : Nat) ^ sizeTBits = 4294967296 := by decide
  simp only [hid, hfc, if_true, hg]
  -- `loop`: last unit differs
  have s6 : tryWords c (q + 1) (6 :: [7, 8, 9, 10]) = tryWords c (q + 1) [7, 8, 9, 10] := by
    apply tryWords_skip
    have hwl : W1.wordLengths.getD 6 0 = 3 := by decide
    have hwd : W1.words.getD 6 [] = [108, 111, 111, 112] := by decide
    simp only [hwl, hwd, h32, show (q + 1 + 3) % 4294967296 = q + 4 by omega]
    intro _ he; rw [e4] at he; simp at he
  -- `/loop>`: third unit differs
  have s7 : tryWords c (q + 1) (7 :: [8, 9, 10]) = tryWords c (q + 1) [8, 9, 10] := by
    apply tryWords_skip
    have hwl : W1.wordLengths.getD 7 0 = 5 := by decide
    have hwd : W1.words.getD 7 [] = [47, 108, 111, 111, 112, 62] := by decide
    simp only [hwl, hwd, h32, show (q + 1 + 5) % 4294967296 = q + 6 by omega]
    intro _ _
    refine ⟨q + 2, ?_, by omega⟩
    have h2' : c[q + 1 + 1]? = some 105 := by rw [show q + 1 + 1 = q + 2 by omega]; exact h2
    simp [matchMiddle, rd_some c (q + 1) 47 h1, rd_some c _ 105 h2', bind, Except.bind,
      show q + 1 < q + 6 by omega, show q + 1 + 1 < q + 6 by omega]
  -- `if`: last unit differs
  have s8 : tryWords c (q + 1) (8 :: [9, 10]) = tryWords c (q + 1) [9, 10] := by
    apply tryWords_skip
    have hwl : W1.wordLengths.getD 8 0 = 1 := by decide
    have hwd : W1.words.getD 8 [] = [105, 102] := by decide
    simp only [hwl, hwd, h32, show (q + 1 + 1) % 4294967296 = q + 2 by omega]
    intro _ he; rw [e2] at he; simp at he
  -- `/if>`
  have s9 : tryWords c (q + 1) (9 :: [10]) = .ok (some (q + 5, 10)) := by
    have hwl : W1.wordLengths.getD 9 0 = 3 := by decide
    have hwd : W1.words.getD 9 [] = [47, 105, 102, 62] := by decide
    have := tryWords_hit c (q + 1) 9 [10]
    simp only [hwl, hwd, h32, show (q + 1 + 3) % 4294967296 = q + 4 by omega] at this
    apply this hlt4 (by rw [e4]; rfl)
    have h2' : c[q + 1 + 1]? = some 105 := by rw [show q + 1 + 1 = q + 2 by omega]; exact h2
    have h3' : c[q + 1 + 1 + 1]? = some 102 := by rw [show q + 1 + 1 + 1 = q + 3 by omega]; exact h3
    simp [matchMiddle, rd_some c (q + 1) 47 h1, rd_some c _ 105 h2', rd_some c _ 102 h3', bind, Except.bind,
      show q + 1 < q + 4 by omega, show q + 1 + 1 < q + 4 by omega, show q + 1 + 1 + 1 < q + 4 by omega]
  rw [s6, s7, s8, s9]


/-- `<else` at `q`, the unit at `q + 6` (if any) not `>` (as in `<else />` and `<elseif …`) -/
theorem next_at_else' (c : List Nat) (q : Nat) (hn : c.length + 16 < 4294967296)
    (h0 : c[q]? = some 60) (h1 : c[q + 1]? = some 101) (h2 : c[q + 2]? = some 108)
    (h3 : c[q + 3]? = some 115) (h4 : c[q + 4]? = some 101) (h6 : ∀ x, c[q + 6]? = some x → x ≠ 62) :
    next c q = .ok (q + 5, 11) := by
  have hlt : q < c.length := (List.getElem?_eq_some_iff.mp h0).1
  have hlt2 : q + 2 < c.length := (List.getElem?_eq_some_iff.mp h2).1
  have hlt4 : q + 4 < c.length := (List.getElem?_eq_some_iff.mp h4).1
  have e2 : c[q + 2] = 108 := by have := List.getElem?_eq_getElem hlt2; rw [h2] at this; exact (Option.some.inj this).symm
  have e4 : c[q + 4] = 101 := by have := List.getElem?_eq_getElem hlt4; rw [h4] at this; exact (Option.some.inj this).symm
  unfold next
  have : c.length + 1 - q = (c.length - q) + 1 := by omega
  rw [this]
  simp only [nextF, hlt, if_true, rd_some c q 60 h0, bind, Except.bind]
  have hid : firstCharID 60 = 1 := by decide
  have hg : W1.groups.getD 1 [] = [6, 7, 8, 9, 10] := by decide
  have hfc : (1 : Nat) < W1.firstCharsCount := by decide
  have h32 : (2 : Nat) ^ sizeTBits = 4294967296 := by decide
  simp only [hid, hfc, if_true, hg]
  have s6 : tryWords c (q + 1) (6 :: [7, 8, 9, 10]) = tryWords c (q + 1) [7, 8, 9, 10] := by
    apply tryWords_skip
    have hwl : W1.wordLengths.getD 6 0 = 3 := by decide
    have hwd : W1.words.getD 6 [] = [108, 111, 111, 112] := by decide
    simp only [hwl, hwd, h32, show (q + 1 + 3) % 4294967296 = q + 4 by omega]
    intro _ he; rw [e4] at he; simp at he
  have s7 : tryWords c (q + 1) (7 :: [8, 9, 10]) = tryWords c (q + 1) [8, 9, 10] := by
    apply tryWords_skip
    have hwl : W1.wordLengths.getD 7 0 = 5 := by decide
    have hwd : W1.words.getD 7 [] = [47, 108, 111, 111, 112, 62] := by decide
    simp only [hwl, hwd, h32, show (q + 1 + 5) % 4294967296 = q + 6 by omega]
    intro hw he
    exact absurd he (h6 _ (List.getElem?_eq_getElem hw))
  have s8 : tryWords c (q + 1) (8 :: [9, 10]) = tryWords c (q + 1) [9, 10] := by
    apply tryWords_skip
    have hwl : W1.wordLengths.getD 8 0 = 1 := by decide
    have hwd : W1.words.getD 8 [] = [105, 102] := by decide
    simp only [hwl, hwd, h32, show (q + 1 + 1) % 4294967296 = q + 2 by omega]
    intro _ he; rw [e2] at he; simp at he
  have s9 : tryWords c (q + 1) (9 :: [10]) = tryWords c (q + 1) [10] := by
    apply tryWords_skip
    have hwl : W1.wordLengths.getD 9 0 = 3 := by decide
    have hwd : W1.words.getD 9 [] = [47, 105, 102, 62] := by decide
    simp only [hwl, hwd, h32, show (q + 1 + 3) % 4294967296 = q + 4 by omega]
    intro _ he; rw [e4] at he; simp at he
  have s10 : tryWords c (q + 1) (10 :: []) = .ok (some (q + 5, 11)) := by
    have hwl : W1.wordLengths.getD 10 0 = 3 := by decide
    have hwd : W1.words.getD 10 [] = [101, 108, 115, 101] := by decide
    have := tryWords_hit c (q + 1) 10 []
    simp only [hwl, hwd, h32, show (q + 1 + 3) % 4294967296 = q + 4 by omega] at this
    apply this hlt4 (by rw [e4]; rfl)
    have h2' : c[q + 1 + 1]? = some 108 := by rw [show q + 1 + 1 = q + 2 by omega]; exact h2
    have h3' : c[q + 1 + 1 + 1]? = some 115 := by rw [show q + 1 + 1 + 1 = q + 3 by omega]; exact h3
    simp [matchMiddle, rd_some c (q + 1) 101 h1, rd_some c _ 108 h2', rd_some c _ 115 h3', bind, Except.bind,
      show q + 1 < q + 4 by omega, show q + 1 + 1 < q + 4 by omega, show q + 1 + 1 + 1 < q + 4 by omega]
  rw [s6, s7, s8, s9, s10]


theorem next_at_else (c : List Nat) (q : Nat) (hn : c.length + 16 < 4294967296)
    (h0 : c[q]? = some 60) (h1 : c[q + 1]? = some 101) (h2 : c[q + 2]? = some 108)
    (h3 : c[q + 3]? = some 115) (h4 : c[q + 4]? = some 101) (h6 : c[q + 6]? = some 47) :
    next c q = .ok (q + 5, 11) :=
  next_at_else' c q hn h0 h1 h2 h3 h4 (by intro x hx; rw [h6] at hx; cases hx; decide)

end Qentem.Tmpl
