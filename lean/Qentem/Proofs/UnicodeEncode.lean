import Qentem.Model.Unicode
/-!
Helper lemmas for C20: the shift/mask form of the encoders restated with `/` and `%`
(so that `omega` applies), and what the standard decoders do on one well-formed sequence.
Core Lean only.
-/
theorem Qentem.Unicode.char_ofNat_toNat (cp : Nat) (hv : cp.isValidChar) : (Char.ofNat cp).toNat = cp := by
  unfold Char.ofNat; rw [dif_pos hv]
  simp [Char.toNat, Char.ofNatAux, UInt32.toNat]

namespace Qentem.Unicode

theorem map_cons_congr (a b : Nat) (h : a = b) (o : Option (List Nat)) :
    o.map (a :: ·) = o.map (b :: ·) := by subst h; rfl

theorem flatMap_congr_mem {α : Type} (l : List α) (f g : α → List Nat) (h : ∀ i ∈ l, f i = g i) :
    l.flatMap f = l.flatMap g := by
  induction l with
  | nil => rfl
  | cons a t ih => simp [List.flatMap_cons, h a (by simp), ih (fun i hi => h i (by simp [hi]))]

/-! ### masks and shifts as arithmetic -/

theorem or80 : ∀ y, y < 64 → 0x80 ||| y = 0x80 + y := by decide
theorem orC0 : ∀ y, y < 32 → 0xC0 ||| y = 0xC0 + y := by decide
theorem orE0 : ∀ y, y < 16 → 0xE0 ||| y = 0xE0 + y := by decide
theorem orF0 : ∀ y, y < 8 → 0xF0 ||| y = 0xF0 + y := by decide

theorem orD800 (y : Nat) (h : y < 1024) : 0xD800 ||| y = 0xD800 + y := by
  have := Nat.two_pow_add_eq_or_of_lt (i := 10) (b := y) (by simpa using h) 54
  simpa using this.symm

theorem orDC00 (y : Nat) (h : y < 1024) : 0xDC00 ||| y = 0xDC00 + y := by
  have := Nat.two_pow_add_eq_or_of_lt (i := 10) (b := y) (by simpa using h) 55
  simpa using this.symm

theorem and3F (x : Nat) : x &&& 0x3F = x % 64 := Nat.and_two_pow_sub_one_eq_mod x 6
theorem and3FF (x : Nat) : x &&& 0x3FF = x % 1024 := Nat.and_two_pow_sub_one_eq_mod x 10

theorem andFC00 (x : Nat) : x &&& 0xFC00 = (x / 1024 % 64) * 1024 := by
  have hd : (x &&& 0xFC00) / 2 ^ 10 = x / 2 ^ 10 &&& 0xFC00 / 2 ^ 10 := Nat.and_div_two_pow
  have hm : (x &&& 0xFC00) % 2 ^ 10 = x % 2 ^ 10 &&& 0xFC00 % 2 ^ 10 := Nat.and_mod_two_pow
  have h63 : x / 1024 &&& 63 = x / 1024 % 64 := Nat.and_two_pow_sub_one_eq_mod _ 6
  simp at hd hm
  rw [h63] at hd
  omega

theorem xorD800 (x : Nat) (h : 0xD800 ≤ x ∧ x ≤ 0xDBFF) : x ^^^ 0xD800 = x - 0xD800 := by
  have hd : (x ^^^ 0xD800) / 2 ^ 10 = x / 2 ^ 10 ^^^ 0xD800 / 2 ^ 10 := Nat.xor_div_two_pow
  have hm : (x ^^^ 0xD800) % 2 ^ 10 = x % 2 ^ 10 ^^^ 0xD800 % 2 ^ 10 := Nat.xor_mod_two_pow
  have h54 : x / 1024 = 54 := by omega
  simp [h54] at hd hm
  omega

/-- The high-surrogate test of `UnEscape` (`(code & 0xFC00U) != 0xD800U`) is the range test. -/
theorem isHigh_iff (x : Nat) (h : x < 0x10000) : x &&& 0xFC00 = 0xD800 ↔ (0xD800 ≤ x ∧ x ≤ 0xDBFF) := by
  rw [andFC00]; omega

/-! ### the encoders in arithmetic form (valid for every `u < 0x200000`, scalar or not) -/

theorem toUTF8_arith (u : Nat) (h : u < 0x200000) : toUTF8 u =
    if u < 0x80 then [u]
    else if u < 0x800 then [0xC0 + u / 64, 0x80 + u % 64]
    else if u < 0x10000 then [0xE0 + u / 4096, 0x80 + u / 64 % 64, 0x80 + u % 64]
    else [0xF0 + u / 262144, 0x80 + u / 4096 % 64, 0x80 + u / 64 % 64, 0x80 + u % 64] := by
  unfold toUTF8
  have e6 : u >>> 6 = u / 64 := by simp [Nat.shiftRight_eq_div_pow]
  have e12 : u >>> 12 = u / 4096 := by simp [Nat.shiftRight_eq_div_pow]
  have e18 : u >>> 18 = u / 262144 := by simp [Nat.shiftRight_eq_div_pow]
  rw [e6, e12, e18, and3F, and3F, and3F]
  split
  · simp; omega
  split
  · rw [orC0 _ (by omega), or80 _ (by omega)]; simp; omega
  split
  · rw [orE0 _ (by omega), or80 _ (by omega), or80 _ (by omega)]; simp; omega
  · rw [orF0 _ (by omega), or80 _ (by omega), or80 _ (by omega), or80 _ (by omega)]; simp; omega

theorem toUTF16_arith (u : Nat) (h : u < 0x110000) : toUTF16 u =
    if u < 0x10000 then [u]
    else [0xD800 + (u - 0x10000) / 1024, 0xDC00 + (u - 0x10000) % 1024] := by
  unfold toUTF16
  split
  · simp; omega
  · have e10 : (u - 0x10000) >>> 10 = (u - 0x10000) / 1024 := by simp [Nat.shiftRight_eq_div_pow]
    simp only [e10, and3FF]
    rw [orD800 _ (by omega), orDC00 _ (by omega)]; simp; omega

theorem toUTF_ascii (w c : Nat) (hc : c < 0x80) : toUTF w c = [c] := by
  unfold toUTF toUTF8 toUTF16 toUTF32
  split
  · (try rw [if_pos hc]); simp; omega
  split
  · (try rw [if_pos (by omega)]); simp; omega
  · simp; omega

/-! ### the standard decoders on one sequence followed by anything -/

theorem utf8Decode_1 (b0 : Nat) (r : List Nat) (h : b0 < 0x80) :
    utf8Decode (b0 :: r) = (utf8Decode r).map (b0 :: ·) := by
  rw [utf8Decode.eq_def]; simp [h]

theorem utf8Decode_2 (b0 b1 : Nat) (r : List Nat) (h0 : 0xC2 ≤ b0 ∧ b0 ≤ 0xDF) (h1 : 0x80 ≤ b1 ∧ b1 ≤ 0xBF) :
    utf8Decode (b0 :: b1 :: r) = (utf8Decode r).map (((b0 % 32) * 64 + b1 % 64) :: ·) := by
  have : ¬ b0 < 0x80 := by omega
  rw [utf8Decode.eq_def]; simp [this, h0, h1, isCont]

theorem utf8Decode_3 (b0 b1 b2 : Nat) (r : List Nat) (h0 : 0xE0 ≤ b0 ∧ b0 ≤ 0xEF)
    (h1 : (if b0 = 0xE0 then 0xA0 else 0x80) ≤ b1 ∧ b1 ≤ (if b0 = 0xED then 0x9F else 0xBF))
    (h2 : 0x80 ≤ b2 ∧ b2 ≤ 0xBF) :
    utf8Decode (b0 :: b1 :: b2 :: r) =
      (utf8Decode r).map (((b0 % 16) * 4096 + (b1 % 64) * 64 + b2 % 64) :: ·) := by
  have n1 : ¬ b0 < 0x80 := by omega
  have n2 : ¬ (0xC2 ≤ b0 ∧ b0 ≤ 0xDF) := by omega
  rw [utf8Decode.eq_def]; simp [n1, n2, h0, h1, h2, isCont]

theorem utf8Decode_4 (b0 b1 b2 b3 : Nat) (r : List Nat) (h0 : 0xF0 ≤ b0 ∧ b0 ≤ 0xF4)
    (h1 : (if b0 = 0xF0 then 0x90 else 0x80) ≤ b1 ∧ b1 ≤ (if b0 = 0xF4 then 0x8F else 0xBF))
    (h2 : 0x80 ≤ b2 ∧ b2 ≤ 0xBF) (h3 : 0x80 ≤ b3 ∧ b3 ≤ 0xBF) :
    utf8Decode (b0 :: b1 :: b2 :: b3 :: r) =
      (utf8Decode r).map (((b0 % 8) * 262144 + (b1 % 64) * 4096 + (b2 % 64) * 64 + b3 % 64) :: ·) := by
  have n1 : ¬ b0 < 0x80 := by omega
  have n2 : ¬ (0xC2 ≤ b0 ∧ b0 ≤ 0xDF) := by omega
  have n3 : ¬ (0xE0 ≤ b0 ∧ b0 ≤ 0xEF) := by omega
  rw [utf8Decode.eq_def]; simp [n1, n2, n3, h0, h1, h2, h3, isCont]

theorem utf16Decode_1 (u : Nat) (r : List Nat) (h : u < 0xD800 ∨ (0xE000 ≤ u ∧ u < 0x10000)) :
    utf16Decode (u :: r) = (utf16Decode r).map (u :: ·) := by
  rw [utf16Decode.eq_def]; simp [h]

theorem utf16Decode_2 (u l : Nat) (r : List Nat) (hu : 0xD800 ≤ u ∧ u ≤ 0xDBFF) (hl : 0xDC00 ≤ l ∧ l ≤ 0xDFFF) :
    utf16Decode (u :: l :: r) =
      (utf16Decode r).map ((0x10000 + (u - 0xD800) * 0x400 + (l - 0xDC00)) :: ·) := by
  have n : ¬ (u < 0xD800 ∨ (0xE000 ≤ u ∧ u < 0x10000)) := by omega
  rw [utf16Decode.eq_def]; simp [n, hu, hl]

end Qentem.Unicode
