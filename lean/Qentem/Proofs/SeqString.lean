import Qentem.Proofs.SeqArray
/-! Helper lemmas for C14, `String`: content and NUL termination of every model operation. -/
namespace Qentem.Seq
namespace StringM

/-- `string_terminated`: a null string has length 0; otherwise the block has a cell at index
`Length()` and that cell holds 0. -/
def Term (s : StringM) : Prop :=
  match s.store with
  | none => s.len = 0
  | some b => s.len < b.length ∧ b[s.len]? = some 0

theorem empty_term : empty.Term := by simp [Term, empty]
@[simp] theorem empty_data : empty.data = [] := rfl

theorem mk_data (l : List Nat) (n : Nat) : (⟨some l, n⟩ : StringM).data = l.take n := rfl

theorem data_length (s : StringM) (h : s.Term) : s.data.length = s.len := by
  unfold Term at h; unfold data
  cases hs : s.store with
  | none => simp [hs] at h; simp [h]
  | some b => simp [hs] at h; simp; omega

@[simp] theorem ofUnits_data (u : List Nat) : (ofUnits u).data = u := by
  simp [ofUnits, data]

theorem ofUnits_term (u : List Nat) : (ofUnits u).Term := by
  simp [ofUnits, Term]

@[simp] theorem ofFill_data (u : List Nat) : (ofFill u).data = u := by
  unfold ofFill
  split
  · simp [data]
  · next h => simp at h; simp [h]

theorem ofFill_term (u : List Nat) : (ofFill u).Term := by
  unfold ofFill
  split
  · simp [Term]
  · exact empty_term

@[simp] theorem adopt_data (u : List Nat) : (adopt (u ++ [0]) u.length).data = u := by
  simp [adopt, data]

theorem adopt_term (u : List Nat) : (adopt (u ++ [0]) u.length).Term := by
  simp [adopt, Term]

theorem write_data (s : StringM) (u : List Nat) (h : s.Term) : (s.write u).data = s.data ++ u := by
  unfold write
  split
  · have hl := data_length s h
    rw [mk_data]
    exact List.take_left' (by simp [hl])
  · next hu => simp at hu; simp [hu]

theorem write_term (s : StringM) (u : List Nat) (h : s.Term) : (s.write u).Term := by
  unfold write
  split
  · have hl := data_length s h
    simp only [Term, List.length_append, List.length_cons, List.length_nil]
    refine ⟨by omega, ?_⟩
    rw [← hl, ← List.length_append]
    simp
  · exact h

@[simp] theorem merge_data (a b : List Nat) : (merge a b).data = a ++ b := by
  unfold merge
  split
  · rw [mk_data]; exact List.take_left' (by simp)
  · next h =>
      have ha : a = [] := List.eq_nil_of_length_eq_zero (by omega)
      have hb : b = [] := List.eq_nil_of_length_eq_zero (by omega)
      simp [ha, hb]

theorem merge_term (a b : List Nat) : (merge a b).Term := by
  unfold merge
  split
  · simp only [Term, List.length_append, List.length_cons, List.length_nil]
    refine ⟨by omega, ?_⟩
    rw [← List.length_append]; simp
  · exact empty_term

theorem stepBack_data (s : StringM) (n : Nat) (h : s.Term) :
    (s.stepBack n).data = if n ≤ s.data.length then s.data.take (s.data.length - n) else s.data := by
  rw [data_length s h]
  unfold stepBack
  split
  · cases hs : s.store with
    | none => simp [data, hs]
    | some b =>
      simp only [data, hs]
      rw [List.take_set_of_le (Nat.le_refl _), List.take_take, Nat.min_eq_left (by omega)]
  · rfl

theorem stepBack_term (s : StringM) (n : Nat) (h : s.Term) : (s.stepBack n).Term := by
  unfold stepBack
  split
  · cases hs : s.store with
    | none => simpa [Term, hs] using h
    | some b =>
      simp only [Term, hs] at h ⊢
      simp only [List.length_set]
      refine ⟨by omega, ?_⟩
      rw [List.getElem?_set_self (by omega)]
  · exact h

theorem reverse_data (s : StringM) (idx : Nat) (h : s.Term) :
    (s.reverse idx).data = s.data.take idx ++ (s.data.drop idx).reverse := by
  have hl := data_length s h
  unfold reverse
  cases hs : s.store with
  | none => simp [data, hs]
  | some b =>
    simp only
    split
    · next hi =>
      simp only [data, hs] at hl ⊢
      have e1 : (b.take idx ++ ((b.take s.len).drop idx).reverse).length = s.len := by
        simp at hl ⊢; omega
      rw [List.take_append_of_le_length (by omega), List.take_of_length_le (by omega)]
      rw [List.take_take, Nat.min_eq_left (by omega)]
    · next hi =>
      have : s.data.length ≤ idx := by omega
      rw [List.take_of_length_le this, List.drop_of_length_le this]; simp

theorem reverse_term (s : StringM) (idx : Nat) (h : s.Term) : (s.reverse idx).Term := by
  unfold reverse
  cases hs : s.store with
  | none => simpa [Term, hs] using h
  | some b =>
    simp only
    split
    · next hi =>
      simp only [Term, hs] at h ⊢
      have e1 : (b.take idx ++ ((b.take s.len).drop idx).reverse).length = s.len := by
        simp; omega
      refine ⟨by simp; omega, ?_⟩
      rw [List.getElem?_append_right (by omega), e1, Nat.sub_self]
      rw [List.getElem?_drop]; simpa using h.2
    · simpa [Term, hs] using h

theorem insertAt_data (s : StringM) (c idx : Nat) (h : s.Term) :
    (s.insertAt c idx).data = if idx < s.data.length then s.data.take idx ++ [c] ++ s.data.drop idx else s.data := by
  have hl := data_length s h
  rw [hl]
  unfold insertAt
  split
  · next hi =>
    have e : (s.data.take idx ++ [c] ++ s.data.drop idx).length = s.len + 1 := by
      simp; omega
    dsimp only
    rw [mk_data]
    exact List.take_left' e
  · rfl

theorem insertAt_term (s : StringM) (c idx : Nat) (h : s.Term) : (s.insertAt c idx).Term := by
  have hl := data_length s h
  unfold insertAt
  split
  · next hi =>
    simp only [Term]
    have e : (s.data.take idx ++ [c] ++ s.data.drop idx).length = s.len + 1 := by
      simp; omega
    refine ⟨by simp at e ⊢; omega, ?_⟩
    rw [← e]; simp
  · exact h

end StringM

/-! ### programs -/

def strAbs (st : StrSt) : SeqAbs := fun i => (st i).data
def StrInv (st : StrSt) : Prop := ∀ i, (st i).Term

@[simp] theorem strAbs_apply (st : StrSt) (i : Nat) : strAbs st i = (st i).data := rfl

theorem strAbs_setR (st : StrSt) (r : Nat) (v : StringM) :
    strAbs (setR st r v) = setR (strAbs st) r v.data := map_setR (fun a => a.data) st r v

@[simp] theorem setR_strAbs_self (st : StrSt) (r : Nat) : setR (strAbs st) r (st r).data = strAbs st :=
  setR_self (strAbs st) r

theorem strInit_inv : StrInv strInit := fun _ => StringM.empty_term

theorem str_step_refines (op : StrOp) (st : StrSt) (h : StrInv st) :
    strAbs (op.step st).1 = (op.spec (strAbs st)).1 ∧ (op.step st).2 = (op.spec (strAbs st)).2 := by
  cases op with
  | ctorC r s => simp [StrOp.step, StrOp.spec, strAbs_setR]
  | ctorM r s => simp [StrOp.step, StrOp.spec, strAbs_setR]
  | ctorU r u => simp [StrOp.step, StrOp.spec, strAbs_setR]
  | ctorF r f => simp [StrOp.step, StrOp.spec, strAbs_setR]
  | adopt r u => simp [StrOp.step, StrOp.spec, strAbs_setR]
  | asgC r s =>
    by_cases e : r = s
    · subst e; simp [StrOp.step, StrOp.spec]
    · simp [StrOp.step, StrOp.spec, strAbs_setR, e]
  | asgM r s =>
    by_cases e : r = s
    · subst e; simp [StrOp.step, StrOp.spec]
    · simp [StrOp.step, StrOp.spec, strAbs_setR, e]
  | asgU r u => simp [StrOp.step, StrOp.spec, strAbs_setR]
  | appC r s => simp [StrOp.step, StrOp.spec, strAbs_setR, StringM.write_data _ _ (h r)]
  | appM r s => simp [StrOp.step, StrOp.spec, strAbs_setR, StringM.write_data _ _ (h r)]
  | appU r u => simp [StrOp.step, StrOp.spec, strAbs_setR, StringM.write_data _ _ (h r)]
  | appCh r c => simp [StrOp.step, StrOp.spec, strAbs_setR, StringM.write_data _ _ (h r)]
  | appOwn v r off n => simp [StrOp.step, StrOp.spec, strAbs_setR, StringM.write_data _ _ (h r)]
  | asgOwn r off =>
    simp only [StrOp.step, StrOp.spec]
    cases hs : (st r).store with
    | none =>
      have hd : (st r).data = [] := by simp [StringM.data, hs]
      have : ownCStr (st r).data off = (st r).data := by simp [hd, ownCStr]
      simp [this]
    | some b => simp [strAbs_setR]
  | plus r s t => simp [StrOp.step, StrOp.spec, strAbs_setR]
  | plusM r s t => simp [StrOp.step, StrOp.spec, strAbs_setR]
  | plusU r s u => simp [StrOp.step, StrOp.spec, strAbs_setR]
  | trim r s => simp [StrOp.step, StrOp.spec, strAbs_setR]
  | stepBack r n =>
    simp only [StrOp.step, StrOp.spec, strAbs_setR, StringM.stepBack_data _ _ (h r), strAbs_apply, and_true]
    congr
  | reverse r i => simp [StrOp.step, StrOp.spec, strAbs_setR, StringM.reverse_data _ _ (h r)]
  | insertAt r c i =>
    simp only [StrOp.step, StrOp.spec, strAbs_setR, StringM.insertAt_data _ _ _ (h r), strAbs_apply, and_true]
    congr
  | reset r => simp [StrOp.step, StrOp.spec, strAbs_setR]
  | detach r => simp [StrOp.step, StrOp.spec, strAbs_setR]
  | cmp k r s => simp [StrOp.step, StrOp.spec]
  | cmpU k r u => simp [StrOp.step, StrOp.spec]

/-- `string_terminated` is preserved by every `String` operation. -/
theorem str_step_inv (op : StrOp) (st : StrSt) (h : StrInv st) : StrInv (op.step st).1 := by
  unfold StrInv at *
  cases op with
  | ctorC r s => exact all_setR st r _ h (StringM.ofUnits_term _)
  | ctorM r s => exact all_setR _ r _ (all_setR st s _ h StringM.empty_term) (h s)
  | ctorU r u => exact all_setR st r _ h (StringM.ofUnits_term _)
  | ctorF r f => exact all_setR st r _ h (StringM.ofFill_term _)
  | adopt r u => exact all_setR st r _ h (StringM.adopt_term _)
  | asgC r s =>
    simp only [StrOp.step]; split
    · exact h
    · exact all_setR st r _ h (StringM.ofUnits_term _)
  | asgM r s =>
    simp only [StrOp.step]; split
    · exact h
    · exact all_setR _ s _ (all_setR st r _ h (h s)) StringM.empty_term
  | asgU r u => exact all_setR st r _ h (StringM.ofUnits_term _)
  | appC r s => exact all_setR st r _ h (StringM.write_term _ _ (h r))
  | appM r s => exact all_setR _ s _ (all_setR st r _ h (StringM.write_term _ _ (h r))) StringM.empty_term
  | appU r u => exact all_setR st r _ h (StringM.write_term _ _ (h r))
  | appCh r c => exact all_setR st r _ h (StringM.write_term _ _ (h r))
  | appOwn v r off n => exact all_setR st r _ h (StringM.write_term _ _ (h r))
  | asgOwn r off =>
    simp only [StrOp.step]
    cases (st r).store with
    | none => exact h
    | some b => exact all_setR st r _ h (StringM.ofUnits_term _)
  | plus r s t => exact all_setR st r _ h (StringM.merge_term _ _)
  | plusM r s t => exact all_setR _ r _ (all_setR st t _ h StringM.empty_term) (StringM.merge_term _ _)
  | plusU r s u => exact all_setR st r _ h (StringM.merge_term _ _)
  | trim r s => exact all_setR st r _ h (StringM.ofUnits_term _)
  | stepBack r n => exact all_setR st r _ h (StringM.stepBack_term _ _ (h r))
  | reverse r i => exact all_setR st r _ h (StringM.reverse_term _ _ (h r))
  | insertAt r c i => exact all_setR st r _ h (StringM.insertAt_term _ _ _ (h r))
  | reset r => exact all_setR st r _ h StringM.empty_term
  | detach r => exact all_setR st r _ h StringM.empty_term
  | cmp k r s => exact h
  | cmpU k r u => exact h

theorem str_run_refines (ops : List StrOp) : ∀ (st : StrSt), StrInv st →
    strAbs (strRun ops st) = strSpecRun ops (strAbs st) ∧ StrInv (strRun ops st) := by
  induction ops with
  | nil => intro st h; exact ⟨rfl, h⟩
  | cons op ops ih =>
    intro st h
    simp only [strRun, strSpecRun]
    rw [← (str_step_refines op st h).1]
    exact ih _ (str_step_inv op st h)

theorem str_outs_refine (ops : List StrOp) : ∀ (st : StrSt), StrInv st →
    strOuts ops st = strSpecOuts ops (strAbs st) := by
  induction ops with
  | nil => intro st _; rfl
  | cons op ops ih =>
    intro st h
    simp only [strOuts, strSpecOuts]
    rw [← (str_step_refines op st h).1, ← (str_step_refines op st h).2]
    rw [ih _ (str_step_inv op st h)]

end Qentem.Seq
