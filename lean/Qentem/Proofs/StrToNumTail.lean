import Qentem.Proofs.StrToNumFinish
/-! C09 helper lemmas: the real tail when the scan stopped **before** the end of the mantissa — the digits
between the scan stop `off` and the mantissa end `Q` are skipped by the tail loop.  With a dot already seen
(or on the fraction-only path) they are dropped fraction digits and do not change the exponent. -/
set_option linter.unusedSimpArgs false
namespace Qentem.StrToNum
open Qentem.Round

/-- `adjustExponent` when no integer digit was ignored (the skipped digits, if any, are fraction digits) -/
theorem adjust_exp_nodrop (fo hasDot : Bool) (off dotOff T X k f : Nat) (kneg : Bool)
    (hskip : hasDot = true ∨ fo = true) (hne : off ≠ T) (hk : k < 100000000) (hf : f < 2 ^ 31) :
    adjustExponent fo off dotOff f ⟨T, hasDot, dotOff, X, k, kneg⟩ = netExp fo k kneg f := by
  have hs0 : sub32 0 0 = 0 := by decide
  have ha0 : add32 0 0 = 0 := by decide
  have hf0s : sub32 f 0 = f := by rw [sub32_eq f 0 (Nat.zero_le _) (by omega)]; rfl
  have h0f : add32 0 f = f := by rw [add32_eq 0 f (by omega)]; omega
  have hk0a : add32 k 0 = k := add32_eq k 0 (by omega)
  have hk0s : sub32 k 0 = k := by rw [sub32_eq k 0 (Nat.zero_le _) (by omega)]; rfl
  have hkf : add32 k f = k + f := add32_eq k f (by omega)
  rcases Nat.eq_zero_or_pos k with hkz | hkp
  · subst hkz
    rcases hskip with h | h
    · subst h
      cases fo <;> cases kneg <;> by_cases hfz : f = 0 <;>
        simp [adjustExponent, netExp, hne, hs0, ha0, hf0s, h0f, hfz]
    · subst h
      cases kneg <;> by_cases hfz : f = 0 <;>
        simp [adjustExponent, netExp, hs0, ha0, hf0s, h0f, hfz]
  · have hk0 : k ≠ 0 := by omega
    have hnle : ¬ (k ≤ 0) := by omega
    rcases Nat.lt_or_ge k f with hlt | hge
    · have hfk : sub32 f k = f - k := sub32_eq f k (by omega) (by omega)
      have hnle2 : ¬ (f ≤ k) := by omega
      rcases hskip with h | h
      · subst h
        cases fo <;> cases kneg <;>
          simp [adjustExponent, netExp, hne, hs0, hk0a, hk0s, hf0s, hkf, hfk, hk0, hnle, hnle2]
      · subst h
        cases kneg <;>
          simp [adjustExponent, netExp, hs0, hk0a, hk0s, hf0s, hkf, hfk, hk0, hnle, hnle2]
    · have hkf' : sub32 k f = k - f := sub32_eq k f hge (by omega)
      rcases hskip with h | h
      · subst h
        cases fo <;> cases kneg <;>
          simp [adjustExponent, netExp, hne, hs0, hk0a, hk0s, hf0s, hkf, hkf', hk0, hnle, hge]
      · subst h
        cases kneg <;>
          simp [adjustExponent, netExp, hs0, hk0a, hk0s, hf0s, hkf, hkf', hk0, hnle, hge]

/-- dropped fraction digits, then the numeral ends -/
theorem finishReal_end_skip (c : List Nat) (e : Nat) (neg : Bool) (num off tmp start : Nat) (fo hasDot : Bool) (dotOff Q : Nat)
    (hd : digitsOn c e off Q) (hoQ : off ≤ Q) (hQe : Q ≤ e) (hend : endsAt c e Q contReal)
    (hskip : hasDot = true ∨ fo = true) (ep10 f : Nat)
    (hep : sub32 (sub32 tmp start) (b2n (!fo && hasDot)) = ep10)
    (hen : (if fo then add32 ep10 (sub32 (sub32 start dotOff) 1) else if hasDot then sub32 (sub32 off dotOff) 1 else 0) = f)
    (hf : f < 2 ^ 31) :
    finishReal c e neg num off tmp start fo hasDot dotOff =
      realResult neg num ep10 (netExp fo 0 false f).1 (netExp fo 0 false f).2 Q := by
  have htail : tailLoop c e num (e - off) off hasDot dotOff = some (.inr ⟨Q, hasDot, dotOff, 0, 0, false⟩) := by
    rw [tailLoop_on c e num Q (e - off) off hasDot dotOff hd hoQ (by omega),
      show e - off - (Q - off) = e - Q by omega, tailLoop_stop c e num Q hasDot dotOff hQe hend]
  rw [finishReal, htail]
  simp only [hep, hen]
  rw [if_neg (by simp)]
  have hs0 : sub32 0 0 = 0 := by decide
  have ha0 : add32 0 0 = 0 := by decide
  have hsf : sub32 f 0 = f := by rw [sub32_eq f 0 (Nat.zero_le _) (by omega)]; rfl
  have hadj : adjustExponent fo off dotOff f ⟨Q, hasDot, dotOff, 0, 0, false⟩ = netExp fo 0 false f := by
    rcases hskip with h | h
    · subst h
      cases fo <;> by_cases hf0 : f = 0 <;> by_cases hq : off = Q <;>
        simp [adjustExponent, netExp, hf0, hq, hs0, ha0, hsf] <;> omega
    · subst h
      by_cases hf0 : f = 0 <;> simp [adjustExponent, netExp, hf0, hs0, ha0, hsf] <;> omega
  rw [hadj]

/-! ### exponents of any number of digits (leading zeros, saturation) -/

/-- one step of the (repaired) exponent digit loop -/
def expStep (x d : Nat) : Nat := if x < 100000000 then x * 10 + (d - 48) else x

/-- the exponent the digit loop returns for the digits `ks` -/
def expSat (ks : List Nat) : Nat := ks.foldl expStep 0

theorem expStep_fold_ge (ks : List Nat) : ∀ x, 100000000 ≤ x → ks.foldl expStep x = x := by
  induction ks with
  | nil => intro x _; rfl
  | cons d t ih =>
    intro x hx
    rw [List.foldl_cons]
    have : expStep x d = x := by unfold expStep; rw [if_neg (by omega)]
    rw [this]; exact ih x hx

theorem expStep_fold (ks : List Nat) : ∀ x,
    (x * 10 ^ ks.length + decVal ks < 100000000 → ks.foldl expStep x = x * 10 ^ ks.length + decVal ks) ∧
    (100000000 ≤ x * 10 ^ ks.length + decVal ks → 100000000 ≤ ks.foldl expStep x) := by
  induction ks with
  | nil => intro x; simp [decVal]
  | cons d t ih =>
    intro x
    rw [List.foldl_cons, decVal_cons, List.length_cons, Nat.pow_succ]
    have hval : x * (10 ^ t.length * 10) + ((d - 48) * 10 ^ t.length + decVal t) =
        (x * 10 + (d - 48)) * 10 ^ t.length + decVal t := by ring
    rw [hval]
    by_cases hx : x < 100000000
    · have : expStep x d = x * 10 + (d - 48) := by unfold expStep; rw [if_pos hx]
      rw [this]; exact ih _
    · have hst : expStep x d = x := by unfold expStep; rw [if_neg hx]
      rw [hst, expStep_fold_ge t x (by omega)]
      have hp : 1 ≤ 10 ^ t.length := Nat.pow_pos (by decide)
      have h1 : x ≤ (x * 10 + (d - 48)) * 10 ^ t.length := by
        calc x ≤ (x * 10 + (d - 48)) * 1 := by omega
          _ ≤ (x * 10 + (d - 48)) * 10 ^ t.length := Nat.mul_le_mul_left _ hp
      constructor
      · intro h; omega
      · intro _; omega

theorem expSat_small (ks : List Nat) (h : decVal ks < 100000000) : expSat ks = decVal ks := by
  have := (expStep_fold ks 0).1 (by simpa using h)
  simpa [expSat] using this

theorem expSat_big (ks : List Nat) (h : 100000000 ≤ decVal ks) : 100000000 ≤ expSat ks := by
  have := (expStep_fold ks 0).2 (by simpa using h)
  simpa [expSat] using this

theorem expDigits_run_sat (c : List Nat) (e : Nat) : ∀ (ks : List Nat) (k off x : Nat),
    AllDigits ks → unitsAt c e off ks → ks.length ≤ k →
    expDigits c e k off x = expDigits c e (k - ks.length) (off + ks.length) (ks.foldl expStep x)
  | [], k, off, x, _, _, _ => by simp
  | d :: ks, 0, _, _, _, _, hk => by simp at hk
  | d :: ks, k + 1, off, x, hd, hu, hk => by
    have hdig : isDigit d = true := hd d (by simp)
    simp only [List.length_cons] at hk
    have hstep : (if x < 100000000 then (x * 10 + (d - 48)) % 2 ^ 32 else x) = expStep x d := by
      unfold expStep
      split
      · simp [isDigit] at hdig
        exact Nat.mod_eq_of_lt (by omega)
      · rfl
    rw [expDigits, hu.1]
    simp only [hdig, if_true, hstep]
    rw [expDigits_run_sat c e ks k (off + 1) _ (fun y hy => hd y (by simp [hy])) hu.2 (by omega)]
    simp only [List.length_cons, List.foldl_cons]
    rw [show k + 1 - (ks.length + 1) = k - ks.length by omega,
      show off + 1 + ks.length = off + (ks.length + 1) by omega]

theorem expDigits_all_sat (c : List Nat) (e : Nat) (ks : List Nat) (off : Nat) (hd : AllDigits ks)
    (hu : unitsAt c e off ks) (hend : endsAt c e (off + ks.length) isDigit) :
    expDigits c e (e - off) off 0 = some (expSat ks, off + ks.length) := by
  have hle : off + ks.length ≤ e := by
    cases ks with
    | nil => rcases hend with h | ⟨x, hx, _⟩
             · simp at h ⊢; omega
             · have := rd_lt hx; simp at this ⊢; omega
    | cons d ks => exact unitsAt_le c e _ off hu (by simp)
  rw [expDigits_run_sat c e ks (e - off) off 0 hd hu (by omega)]
  rcases hend with h | ⟨x, hx, hc⟩
  · have : e - off - ks.length = 0 := by omega
    rw [this]; rfl
  · have := rd_lt hx
    obtain ⟨j, hj⟩ : ∃ j, e - off - ks.length = j + 1 := ⟨e - off - ks.length - 1, by omega⟩
    rw [hj, expDigits, hx]; simp [hc, expSat]

/-- `[+-]? k₁…k_j` (any number of digits) at `q`, ended by a non-digit or `end_offset` -/
theorem parseExponent_gen (c : List Nat) (e q : Nat) (es ks : List Nat) (hes : es = [] ∨ es = [43] ∨ es = [45])
    (hks : AllDigits ks) (hk0 : ks ≠ []) (hu : unitsAt c e q (es ++ ks))
    (hend : endsAt c e (q + es.length + ks.length) isDigit) :
    parseExponent c e q = some (true, expSat ks, decide (es = [45]), q + es.length + ks.length) := by
  obtain ⟨k1, kt, hkseq⟩ : ∃ k1 kt, ks = k1 :: kt := by
    cases ks with
    | nil => exact absurd rfl hk0
    | cons a b => exact ⟨a, b, rfl⟩
  have hk1d : isDigit k1 = true := hks k1 (by rw [hkseq]; simp)
  have hk1ns : ¬ (k1 = 43 ∨ k1 = 45) := by simp [isDigit] at hk1d; omega
  have hklen : 0 < ks.length := by rw [hkseq]; simp
  have hu' := (unitsAt_append c e es ks q).1 hu
  unfold parseExponent
  rcases hes with rfl | rfl | rfl
  · simp only [List.length_nil, Nat.add_zero] at hu' hend ⊢
    have hk1r : rd c e q = some k1 := by have := hu'.2; rw [hkseq] at this; exact this.1
    have hlt := rd_lt hk1r
    simp only [hlt, if_true, hk1r, hk1ns, if_false]
    rw [expDigits_all_sat c e ks q hks hu'.2 hend]
    have : (q + ks.length != q) = true := by simp; omega
    simp [this]
  · simp only [List.length_singleton] at hu' hend ⊢
    have hpr : rd c e q = some 43 := hu'.1.1
    have hlt := rd_lt hpr
    have hk1r : rd c e (q + 1) = some k1 := by have := hu'.2; rw [hkseq] at this; exact this.1
    have hlt1 := rd_lt hk1r
    simp only [hlt, if_true, hpr, true_or, hlt1, hk1r, hk1ns, if_false]
    rw [expDigits_all_sat c e ks (q + 1) hks hu'.2 hend]
    have : (q + 1 + ks.length != q + 1) = true := by simp; omega
    simp [this]
  · simp only [List.length_singleton] at hu' hend ⊢
    have hpr : rd c e q = some 45 := hu'.1.1
    have hlt := rd_lt hpr
    have hk1r : rd c e (q + 1) = some k1 := by have := hu'.2; rw [hkseq] at this; exact this.1
    have hlt1 := rd_lt hk1r
    simp only [hlt, if_true, hpr, or_true, hlt1, hk1r, hk1ns, if_false]
    rw [expDigits_all_sat c e ks (q + 1) hks hu'.2 hend]
    have : (q + 1 + ks.length != q + 1) = true := by simp; omega
    simp [this]

/-- the tail over dropped fraction digits and an exponent -/
theorem tail_skip_exp (c : List Nat) (e num off : Nat) (hasDot : Bool) (dotOff Q m : Nat) (es ks : List Nat)
    (hd : digitsOn c e off Q) (hoQ : off ≤ Q) (hm : rd c e Q = some m) (hmE : m = 101 ∨ m = 69)
    (hes : es = [] ∨ es = [43] ∨ es = [45]) (hks : AllDigits ks) (hk0 : ks ≠ [])
    (hu : unitsAt c e (Q + 1) (es ++ ks)) (hend : endsAt c e (Q + 1 + es.length + ks.length) isDigit) :
    tailLoop c e num (e - off) off hasDot dotOff =
      some (.inr ⟨Q + 1 + es.length + ks.length, hasDot, dotOff, Q, expSat ks, decide (es = [45])⟩) := by
  have hlt := rd_lt hm
  obtain ⟨kk, hkk⟩ : ∃ kk, e - Q = kk + 1 := ⟨e - Q - 1, by omega⟩
  have hmd : isDigit m = false := by rcases hmE with h | h <;> subst h <;> decide
  have hm46 : m ≠ 46 := by omega
  have hpe := parseExponent_gen c e (Q + 1) es ks hes hks hk0 hu hend
  rw [tailLoop_on c e num Q (e - off) off hasDot dotOff hd hoQ (by omega),
    show e - off - (Q - off) = e - Q by omega, hkk, tailLoop, hm]
  simp only [hmd, Bool.false_eq_true, if_false, hm46, hmE, if_true, hpe]

/-- dropped fraction digits, then an exponent out of range (nine or more significant exponent digits) -/
theorem finishReal_exp_sat (c : List Nat) (e : Nat) (neg : Bool) (num off tmp start : Nat) (fo hasDot : Bool) (dotOff Q m : Nat)
    (es ks : List Nat) (hd : digitsOn c e off Q) (hoQ : off ≤ Q) (hm : rd c e Q = some m) (hmE : m = 101 ∨ m = 69)
    (hes : es = [] ∨ es = [43] ∨ es = [45]) (hks : AllDigits ks) (hk0 : ks ≠ [])
    (hu : unitsAt c e (Q + 1) (es ++ ks)) (hend : endsAt c e (Q + 1 + es.length + ks.length) isDigit)
    (hnum : num ≠ 0) (hbig : 100000000 ≤ decVal ks) :
    finishReal c e neg num off tmp start fo hasDot dotOff =
      some ⟨.notANumber, num, Q + 1 + es.length + ks.length⟩ := by
  rw [finishReal, tail_skip_exp c e num off hasDot dotOff Q m es ks hd hoQ hm hmE hes hks hk0 hu hend]
  simp only []
  rw [if_pos ⟨expSat_big ks hbig, hnum⟩]

/-- a zero mantissa: the exponent (any) is consumed and the result is zero -/
theorem finishReal_zero_exp (c : List Nat) (e : Nat) (neg : Bool) (off tmp start : Nat) (fo hasDot : Bool) (dotOff Q m : Nat)
    (es ks : List Nat) (hd : digitsOn c e off Q) (hoQ : off ≤ Q) (hm : rd c e Q = some m) (hmE : m = 101 ∨ m = 69)
    (hes : es = [] ∨ es = [43] ∨ es = [45]) (hks : AllDigits ks) (hk0 : ks ≠ [])
    (hu : unitsAt c e (Q + 1) (es ++ ks)) (hend : endsAt c e (Q + 1 + es.length + ks.length) isDigit) :
    finishReal c e neg 0 off tmp start fo hasDot dotOff =
      some ⟨.real, if neg then 0x8000000000000000 else 0, Q + 1 + es.length + ks.length⟩ := by
  rw [finishReal, tail_skip_exp c e 0 off hasDot dotOff Q m es ks hd hoQ hm hmE hes hks hk0 hu hend]
  simp [realResult]

theorem finishReal_zero_end (c : List Nat) (e : Nat) (neg : Bool) (off tmp start : Nat) (fo hasDot : Bool) (dotOff Q : Nat)
    (hd : digitsOn c e off Q) (hoQ : off ≤ Q) (hQe : Q ≤ e) (hend : endsAt c e Q contReal) :
    finishReal c e neg 0 off tmp start fo hasDot dotOff = some ⟨.real, if neg then 0x8000000000000000 else 0, Q⟩ := by
  have htail : tailLoop c e 0 (e - off) off hasDot dotOff = some (.inr ⟨Q, hasDot, dotOff, 0, 0, false⟩) := by
    rw [tailLoop_on c e 0 Q (e - off) off hasDot dotOff hd hoQ (by omega),
      show e - off - (Q - off) = e - Q by omega, tailLoop_stop c e 0 Q hasDot dotOff hQe hend]
  rw [finishReal, htail]
  simp [realResult]

/-- dropped fraction digits, then an exponent (any number of digits, value below `10^8`) -/
theorem finishReal_exp_skip (c : List Nat) (e : Nat) (neg : Bool) (num off tmp start : Nat) (fo hasDot : Bool) (dotOff Q m : Nat)
    (es ks : List Nat) (hd : digitsOn c e off Q) (hoQ : off ≤ Q) (hm : rd c e Q = some m) (hmE : m = 101 ∨ m = 69)
    (he : e < 2 ^ 32)
    (hes : es = [] ∨ es = [43] ∨ es = [45]) (hks : AllDigits ks) (hk0 : ks ≠ [])
    (hu : unitsAt c e (Q + 1) (es ++ ks)) (hend : endsAt c e (Q + 1 + es.length + ks.length) isDigit)
    (hskip : hasDot = true ∨ fo = true) (hsmall : decVal ks < 100000000)
    (ep10 f : Nat) (hep : sub32 (sub32 tmp start) (b2n (!fo && hasDot)) = ep10)
    (hen : (if fo then add32 ep10 (sub32 (sub32 start dotOff) 1) else if hasDot then sub32 (sub32 off dotOff) 1 else 0) = f)
    (hf : f < 2 ^ 31) :
    finishReal c e neg num off tmp start fo hasDot dotOff =
      realResult neg num ep10 (netExp fo (decVal ks) (decide (es = [45])) f).1
        (netExp fo (decVal ks) (decide (es = [45])) f).2 (Q + 1 + es.length + ks.length) := by
  rw [finishReal, tail_skip_exp c e num off hasDot dotOff Q m es ks hd hoQ hm hmE hes hks hk0 hu hend]
  simp only [hep, hen, expSat_small ks hsmall]
  rw [if_neg (by omega)]
  have hklen : 0 < ks.length := by
    cases ks with
    | nil => exact absurd rfl hk0
    | cons a b => simp
  generalize decVal ks = k at *
  generalize decide (es = [45]) = kneg
  have hne : off ≠ Q + 1 + es.length + ks.length := by omega
  rw [adjust_exp_nodrop fo hasDot off dotOff _ Q k f kneg hskip hne hsmall hf]

/-- `adjustExponent` for an integer mantissa followed directly by the exponent (no digit ignored, no dot) -/
theorem adjust_exp_int (off dotOff T k : Nat) (kneg : Bool) (hoff0 : off ≠ 0) (hne : off ≠ T) (hoff : off < 2 ^ 32)
    (hk : k < 100000000) :
    adjustExponent false off dotOff 0 ⟨T, false, dotOff, off, k, kneg⟩ = netExp false k kneg 0 := by
  have hs0 : sub32 0 0 = 0 := by decide
  have ha0 : add32 0 0 = 0 := by decide
  have hoo : sub32 off off = 0 := by rw [sub32_eq off off (Nat.le_refl _) hoff]; omega
  have hk0a : add32 k 0 = k := add32_eq k 0 (by omega)
  have hk0s : sub32 k 0 = k := by rw [sub32_eq k 0 (Nat.zero_le _) (by omega)]; rfl
  rcases Nat.eq_zero_or_pos k with hkz | hkp
  · subst hkz
    cases kneg <;> simp [adjustExponent, netExp, hne, hoff0, hs0, ha0, hoo]
  · have hk0 : k ≠ 0 := by omega
    have hnle : ¬ (k ≤ 0) := by omega
    cases kneg <;> simp [adjustExponent, netExp, hne, hoff0, hs0, ha0, hoo, hk0a, hk0s, hk0, hnle]

/-- an integer mantissa (no dot seen) followed directly by an exponent of any number of digits, value below `10^8` -/
theorem finishReal_exp_int (c : List Nat) (e : Nat) (neg : Bool) (num off tmp start dotOff m : Nat)
    (es ks : List Nat) (hm : rd c e off = some m) (hmE : m = 101 ∨ m = 69) (hoff0 : off ≠ 0) (he : e < 2 ^ 32)
    (hes : es = [] ∨ es = [43] ∨ es = [45]) (hks : AllDigits ks) (hk0 : ks ≠ [])
    (hu : unitsAt c e (off + 1) (es ++ ks)) (hend : endsAt c e (off + 1 + es.length + ks.length) isDigit)
    (hsmall : decVal ks < 100000000)
    (ep10 : Nat) (hep : sub32 (sub32 tmp start) (b2n (!false && false)) = ep10) :
    finishReal c e neg num off tmp start false false dotOff =
      realResult neg num ep10 (netExp false (decVal ks) (decide (es = [45])) 0).1
        (netExp false (decVal ks) (decide (es = [45])) 0).2 (off + 1 + es.length + ks.length) := by
  have hlt := rd_lt hm
  rw [finishReal, tail_skip_exp c e num off false dotOff off m es ks (fun k h1 h2 => by omega) (Nat.le_refl _) hm hmE hes hks hk0
    hu hend]
  simp only [hep, expSat_small ks hsmall, Bool.false_eq_true, if_false]
  rw [if_neg (by omega)]
  have hklen : 0 < ks.length := by
    cases ks with
    | nil => exact absurd rfl hk0
    | cons a b => simp
  rw [adjust_exp_int off dotOff _ (decVal ks) _ hoff0 (by omega) (by omega) hsmall]

end Qentem.StrToNum
