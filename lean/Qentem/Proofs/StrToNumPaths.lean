import Qentem.Proofs.StrToNumWalk
/-! C09 helper lemmas: whole-path statements for `digits . digits` (first digit non-zero),
`0 . digits`, and `digits e<nothing>`. -/
namespace Qentem.StrToNum

theorem outcome_of_nan (st : Stop) (Q : Nat) (hst : st ≠ .good) (b o : Nat) :
    Outcome st Q (some ⟨.notANumber, b, o⟩) := by
  cases st with
  | good => exact absurd rfl hst
  | dot => exact ⟨b, o, rfl⟩
  | emptyExp => exact ⟨b, o, rfl⟩

theorem windowEnd_bounds (e off : Nat) (he : e < 2 ^ 32) (h : off < e) : off < windowEnd e off ∧ windowEnd e off ≤ e := by
  rw [windowEnd_eq e off he h]; split <;> omega

/-- after a windowed scan that took the dot: the rest is the tail -/
theorem afterScan_walked (c : List Nat) (e : Nat) (neg : Bool) (start : Nat) (fo : Bool) (st : Stop) (P lo Q : Nat)
    (r : Option (Res ⊕ Scan)) (hw : Walked st P lo Q r) (hd : digitsOn c e lo Q) (hQe : Q ≤ e) (hst : stopAt c e Q st) :
    Outcome st Q (thenScan r (afterScan c e neg start fo)) := by
  rcases hw with ⟨s, hr, h2, h3, h4, h5, h6⟩ | ⟨hne, b, o, hr⟩
  · subst hr
    simp only [thenScan]
    rw [afterScan_real c e neg start fo s h3, h2, h4]
    exact finishReal_afterDot c e neg s.num s.off s.off start fo P Q st (digitsOn_mono hd h5) h6 hQe hst
  · subst hr; simp only [thenScan]; exact outcome_of_nan st Q hne b o

theorem afterScan_of_twentieth_real (c : List Nat) (e : Nat) (neg : Bool) (start : Nat) (fo : Bool) (s : Scan) (n o t : Nat)
    (h : twentieth c e s.num s.off s.isReal = some (n, o, t, true)) :
    afterScan c e neg start fo s = finishReal c e neg n o t start fo s.hasDot s.dotOff := by
  unfold afterScan
  rw [h]
  simp

/-- Path A: `d₁ digits . digits` with `d₁ ≠ 0`; the dot may be inside or beyond the 19-unit window. -/
theorem afterSign_real_A (c : List Nat) (e : Nat) (neg : Bool) (off d1 P Q : Nat) (st : Stop) (he : e < 2 ^ 32)
    (h0 : rd c e off = some d1) (h1 : isNonZeroDigit d1 = true) (hd1 : digitsOn c e (off + 1) P) (hoP : off + 1 ≤ P)
    (hP : rd c e P = some 46) (hd : digitsOn c e (P + 1) Q) (hPQ : P + 1 ≤ Q) (hQe : Q ≤ e) (hst : stopAt c e Q st) :
    Outcome st Q (afterSign c e neg off) := by
  have hoff := rd_lt h0
  obtain ⟨hW1, hW2⟩ := windowEnd_bounds e off he hoff
  unfold afterSign
  simp only [hoff, if_true, h0, h1]
  generalize windowEnd e off = W at hW1 hW2 ⊢
  rcases iter1_walk c e W (d1 - 48) (off + 1) d1 0 false P Q st
    (isDigit_ne_dot (isNonZeroDigit_isDigit h1)) hd1 hoP hP hd hPQ hQe hW2 (by omega) hst with hw | ⟨num', hs, hWP⟩
  · exact afterScan_walked c e neg off false st P (P + 1) Q _ hw hd hQe hst
  · simp only [hs, thenScan]
    obtain ⟨n2, o2, ht, ho1, ho2⟩ := twentieth_long c e num' W P 46 (digitsOn_mono hd1 (by omega)) hWP hP (by decide)
    rw [afterScan_of_twentieth_real c e neg off false ⟨num', W, false, 0, false⟩ n2 o2 o2 ht]
    exact finishReal_beforeDot c e neg n2 o2 o2 off false 0 P Q st (digitsOn_mono hd1 (by omega)) hP ho2 hd hPQ hQe hst

theorem skipZeros_on (c : List Nat) (e Q : Nat) (st : Stop) (hst : stopAt c e Q st) (hQe : Q ≤ e) :
    ∀ (k i dg : Nat), i + k = e → digitsOn c e i Q → i ≤ Q →
    ∃ z dg2, skipZeros c e k i dg = some (z, dg2) ∧ i ≤ z ∧ z ≤ Q
  | 0, i, dg, hk, _, hi => ⟨i, dg, rfl, Nat.le_refl _, hi⟩
  | k + 1, i, dg, hk, hd, hi => by
    by_cases hiQ : i = Q
    · subst hiQ
      obtain ⟨x, hx, hxd, _⟩ := stop_unit c e i st hst (by omega)
      have h48 : x ≠ 48 := by intro h; subst h; simp [isDigit] at hxd
      exact ⟨i, x, by rw [skipZeros, hx]; simp [h48], Nat.le_refl _, Nat.le_refl _⟩
    · obtain ⟨d, hr, _⟩ := hd i (Nat.le_refl _) (by omega)
      by_cases h48 : d = 48
      · obtain ⟨z, dg2, h1, h2, h3⟩ := skipZeros_on c e Q st hst hQe k (i + 1) d (by omega) (digitsOn_mono hd (by omega)) (by omega)
        exact ⟨z, dg2, by rw [skipZeros, hr]; simp only [h48, if_true]; rw [← h48]; exact h1, by omega, h3⟩
      · exact ⟨i, d, by rw [skipZeros, hr]; simp [h48], Nat.le_refl _, hi⟩

/-- Path B: `0 . digits` (the fraction-only path with its zero skipping). -/
theorem afterSign_real_B (c : List Nat) (e : Nat) (neg : Bool) (off Q : Nat) (st : Stop) (he : e < 2 ^ 32)
    (h0 : rd c e off = some 48) (hP : rd c e (off + 1) = some 46) (hd : digitsOn c e (off + 2) Q) (hPQ : off + 2 ≤ Q)
    (hQe : Q ≤ e) (hst : stopAt c e Q st) :
    Outcome st Q (afterSign c e neg off) := by
  have hoff := rd_lt h0
  have hoff1 := rd_lt hP
  unfold afterSign
  simp only [hoff, if_true, h0, show isNonZeroDigit 48 = false by decide, Bool.false_eq_true, if_false, true_or,
    true_and, hoff1, hP, show ¬ ((46 : Nat) = 120 ∨ (46 : Nat) = 88) by decide, show isDigit 46 = false by decide]
  obtain ⟨z, dg2, hz, hz1, hz2⟩ := skipZeros_on c e Q st hst hQe (e - (off + 1 + 1)) (off + 1 + 1) 46 (by omega)
    (by rw [show off + 1 + 1 = off + 2 by omega]; exact hd) (by omega)
  simp only [hz]
  have hnd : ¬ (off + 1 + 1 = z ∧ off + 1 = off ∧ (!isDigit dg2) = true) := by omega
  simp only [hnd, if_false]
  have hdz : digitsOn c e z Q := digitsOn_mono hd (by omega)
  by_cases hze : z < e
  · obtain ⟨hW1, hW2⟩ := windowEnd_bounds e z he hze
    generalize windowEnd e z = W at hW1 hW2 ⊢
    have hw : Walked st (off + 1) z Q (iter1 c e W 0 z dg2 true (off + 1) true) := by
      rw [iter1]; simp only [if_true]
      exact iter2_walk c e W 0 z dg2 (off + 1) Q st hdz hz2 hW2 hW1 hst
    exact afterScan_walked c e neg z true st (off + 1) z Q _ hw hdz hQe hst
  · generalize windowEnd e z = W
    have hw : Walked st (off + 1) z Q (iter1 c e W 0 z dg2 true (off + 1) true) := by
      rw [iter1, iter2]; simp only [if_true, hze, if_false]
      exact Or.inl ⟨_, rfl, rfl, rfl, rfl, Nat.le_refl _, hz2⟩
    exact afterScan_walked c e neg z true st (off + 1) z Q _ hw hdz hQe hst

/-- Path A′: `d₁ digits` directly followed by an exponent marker with no exponent digits. -/
theorem afterSign_int_emptyExp (c : List Nat) (e : Nat) (neg : Bool) (off d1 Q m : Nat) (he : e < 2 ^ 32)
    (h0 : rd c e off = some d1) (h1 : isNonZeroDigit d1 = true) (hd1 : digitsOn c e (off + 1) Q) (hoQ : off + 1 ≤ Q)
    (hm : rd c e Q = some m) (hmE : m = 101 ∨ m = 69) (hemp : emptyExpAt c e (Q + 1)) :
    ∃ b o, afterSign c e neg off = some ⟨.notANumber, b, o⟩ := by
  have hoff := rd_lt h0
  have hQe := rd_lt hm
  obtain ⟨hW1, hW2⟩ := windowEnd_bounds e off he hoff
  have hmd : isDigit m = false := by rcases hmE with h | h <;> subst h <;> decide
  have hmde : isDotOrE m = true := by rcases hmE with h | h <;> subst h <;> decide
  have hm46 : m ≠ 46 := by omega
  unfold afterSign
  simp only [hoff, if_true, h0, h1]
  generalize windowEnd e off = W at hW1 hW2 ⊢
  -- the windowed scan: no dot anywhere
  have hscan : ∃ num' off', iter1 c e W (d1 - 48) (off + 1) d1 false 0 false =
      some (.inr ⟨num', off', false, 0, false⟩) ∧ off + 1 ≤ off' ∧ off' ≤ Q := by
    unfold iter1
    have h1e : off + 1 < e := by omega
    simp only [Bool.false_eq_true, if_false, h1e, if_true]
    by_cases hWQ : W ≤ Q
    · obtain ⟨num', d', hs, hd'⟩ := scanDigits_on c e Q (W - (off + 1)) (off + 1) (d1 - 48) d1 hd1 (by omega)
      have hne : d' ≠ 46 := by
        rcases hd' with ⟨_, h⟩ | h
        · rw [h]; exact isDigit_ne_dot (isNonZeroDigit_isDigit h1)
        · exact isDigit_ne_dot h
      rw [hs]; simp only [hne, if_false]
      exact ⟨num', _, rfl, by omega, by omega⟩
    · obtain ⟨num', hs⟩ := scanDigits_hit c e Q m hm hmd (W - (off + 1)) (off + 1) (d1 - 48) d1 hd1 hoQ (by omega)
      rw [hs]; simp only [hm46, if_false]
      exact ⟨num', Q, rfl, hoQ, Nat.le_refl _⟩
  obtain ⟨num', off', hs, ho1, ho2⟩ := hscan
  rw [hs]; simp only [thenScan]
  obtain ⟨n2, o2, ht, ho3, ho4⟩ := twentieth_long c e num' off' Q m (digitsOn_mono hd1 ho1) ho2 hm hmde
  rw [afterScan_of_twentieth_real c e neg off false ⟨num', off', false, 0, false⟩ n2 o2 o2 ht]
  rw [finishReal]
  have hrun := tailLoop_on c e n2 Q (e - o2) o2 false 0 (digitsOn_mono hd1 (by omega)) ho4 (by omega)
  rw [show e - o2 - (Q - o2) = e - Q by omega] at hrun
  obtain ⟨o, ho⟩ := tailLoop_emptyExp c e n2 Q false 0 m hm hmE hemp
  simp only [hrun, ho]
  exact ⟨_, _, rfl⟩

end Qentem.StrToNum
