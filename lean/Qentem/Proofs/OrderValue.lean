import Qentem.Proofs.Order
/-! Helper lemmas for C15: `Value` comparisons (`Val.lt/gt/le/ge/eq` over `JVal`). -/
namespace Qentem.Order

/-! ### Strings as a linear order (Bool-valued facts used by the value lemmas) -/

theorem Str.lt_eq_lex (a b : List Nat) : Str.lt a b = lexLt a b := isLess_false_eq_lexLt a b
theorem Str.gt_eq_lex (a b : List Nat) : Str.gt a b = lexLt b a := by
  unfold Str.gt; rw [isGreater_eq_isLess_swap]; exact isLess_false_eq_lexLt b a
theorem Str.le_eq (a b : List Nat) : Str.le a b = (Str.lt a b || Str.eq a b) := by
  unfold Str.le Str.lt; rw [isLess_true_eq, str_eq_iff]
theorem Str.ge_eq (a b : List Nat) : Str.ge a b = (Str.gt a b || Str.eq a b) := by
  unfold Str.ge Str.gt; rw [isGreater_eq_isLess_swap, isGreater_eq_isLess_swap, isLess_true_eq, str_eq_iff]
  congr 1; simp [eq_comm]
theorem Str.gt_eq_lt_swap (a b : List Nat) : Str.gt a b = Str.lt b a := by
  unfold Str.gt Str.lt; exact isGreater_eq_isLess_swap a b false
theorem Str.ge_eq_le_swap (a b : List Nat) : Str.ge a b = Str.le b a := by
  unfold Str.ge Str.le; exact isGreater_eq_isLess_swap a b true
theorem Str.eq_comm (a b : List Nat) : Str.eq a b = Str.eq b a := by
  rw [str_eq_iff, str_eq_iff]; simp [_root_.eq_comm]

/-- Exactly one of `<`, `==`, `>` (as a Boolean identity). -/
theorem Str.tri (a b : List Nat) :
    ((Str.lt a b && !Str.eq a b && !Str.gt a b) || (!Str.lt a b && Str.eq a b && !Str.gt a b) ||
      (!Str.lt a b && !Str.eq a b && Str.gt a b)) = true := by
  rw [Str.lt_eq_lex, Str.gt_eq_lex, str_eq_iff]
  by_cases hab : a = b
  · subst hab; simp [lexLt_irrefl]
  · cases h1 : lexLt a b
    · cases h2 : lexLt b a
      · exact absurd (lexLt_total a b h1 h2) hab
      · simp [hab]
    · simp [lexLt_asymm a b h1, hab]

theorem Str.lt_trans (a b c : List Nat) : Str.lt a b = true → Str.lt b c = true → Str.lt a c = true := by
  simp only [Str.lt_eq_lex]; exact lexLt_trans a b c

theorem Str.lt_irrefl (a : List Nat) : Str.lt a a = false := by
  rw [Str.lt_eq_lex]; exact lexLt_irrefl a

/-! ### Base facts per number kind -/

theorem nat_le_eq (a b : Nat) : decide (a ≤ b) = (decide (a < b) || a == b) := by
  by_cases h : a < b
  · simp [h, Nat.le_of_lt h]
  · by_cases h2 : a = b
    · simp [h2]
    · have : ¬ a ≤ b := by omega
      simp [h, h2, this]

theorem nat_ge_eq (a b : Nat) : decide (a ≥ b) = (decide (a > b) || a == b) := by
  by_cases h : a > b
  · simp [h, Nat.le_of_lt h]
  · by_cases h2 : a = b
    · simp [h2]
    · have : ¬ a ≥ b := by omega
      simp [h, h2, this]

theorem int_le_eq (a b : Int) : decide (a ≤ b) = (decide (a < b) || a == b) := by
  by_cases h : a < b
  · simp [h, Int.le_of_lt h]
  · by_cases h2 : a = b
    · simp [h2]
    · have : ¬ a ≤ b := by omega
      simp [h, h2, this]

theorem int_ge_eq (a b : Int) : decide (a ≥ b) = (decide (a > b) || a == b) := by
  by_cases h : a > b
  · simp [h, Int.le_of_lt h]
  · by_cases h2 : a = b
    · simp [h2]
    · have : ¬ a ≥ b := by omega
      simp [h, h2, this]

theorem realLe_eq (a b : Option Int) : realLe a b = (realLt a b || realEq a b) := by
  cases a <;> cases b <;> simp [realLe, realLt, realEq, int_le_eq]

theorem int_beq_comm (a b : Int) : (a == b) = (b == a) := by
  rw [Bool.eq_iff_iff]; simp only [beq_iff_eq]; exact eq_comm

theorem nat_beq_comm (a b : Nat) : (a == b) = (b == a) := by
  rw [Bool.eq_iff_iff]; simp only [beq_iff_eq]; exact eq_comm

theorem realEq_comm (a b : Option Int) : realEq a b = realEq b a := by
  cases a <;> cases b <;> simp [realEq]
  exact int_beq_comm _ _

theorem realGe_eq (a b : Option Int) : realLe b a = (realLt b a || realEq a b) := by
  rw [realEq_comm]; exact realLe_eq b a

/-! ### Laws that hold for every pair of values (pointers and NaN included) -/

theorem val_le_eq (a b : JVal) : Val.le a b = (Val.lt a b || Val.eq a b) := by
  induction a generalizing b with
  | ptr t ih => cases b <;> simp [Val.le, Val.lt, Val.eq, ih]
  | _ => cases b <;> simp [Val.le, Val.lt, Val.eq, rank, nat_le_eq, int_le_eq, realLe_eq, Str.le_eq]

theorem val_ge_eq (a b : JVal) : Val.ge a b = (Val.gt a b || Val.eq a b) := by
  induction a generalizing b with
  | ptr t ih => cases b <;> simp [Val.ge, Val.gt, Val.eq, ih]
  | _ => cases b <;> simp [Val.ge, Val.gt, Val.eq, rank, nat_ge_eq, int_ge_eq, realGe_eq, Str.ge_eq]

/-- For one ordered pair without NaN exactly one of `<`, `==`, `>` holds — pointers included,
    because all three operators dereference the left operand the same way. -/
theorem val_tri (a b : JVal) (ha : noNaN a = true) (hb : noNaN b = true) :
    ((Val.lt a b && !Val.eq a b && !Val.gt a b) || (!Val.lt a b && Val.eq a b && !Val.gt a b) ||
      (!Val.lt a b && !Val.eq a b && Val.gt a b)) = true := by
  induction a generalizing b with
  | ptr t ih =>
    have ht : noNaN t = true := by simpa [noNaN] using ha
    cases b with
    | ptr u => simpa [Val.lt, Val.gt, Val.eq] using ih u ht (by simpa [noNaN] using hb)
    | _ => simpa [Val.lt, Val.gt, Val.eq] using ih _ ht hb
  | str s =>
    cases b with
    | str s2 => simpa [Val.lt, Val.gt, Val.eq] using Str.tri s s2
    | _ => simp [Val.lt, Val.gt, Val.eq, rank]
  | nat n =>
    cases b with
    | nat m =>
      simp only [Val.lt, Val.gt, Val.eq]
      rcases Nat.lt_trichotomy n m with h | h | h
      · have h1 : ¬ n = m := by omega
        have h2 : ¬ n > m := by omega
        simp [h, h1, h2]
      · subst h; simp
      · have h1 : ¬ n = m := by omega
        have h2 : ¬ n < m := by omega
        simp [h, h1, h2]
    | _ => simp [Val.lt, Val.gt, Val.eq, rank]
  | int n =>
    cases b with
    | int m =>
      simp only [Val.lt, Val.gt, Val.eq]
      rcases Int.lt_trichotomy n m with h | h | h
      · have h1 : ¬ n = m := by omega
        have h2 : ¬ n > m := by omega
        simp [h, h1, h2]
      · subst h; simp
      · have h1 : ¬ n = m := by omega
        have h2 : ¬ n < m := by omega
        simp [h, h1, h2]
    | _ => simp [Val.lt, Val.gt, Val.eq, rank]
  | real x =>
    cases b with
    | real y =>
      cases x with
      | none => simp [noNaN] at ha
      | some n =>
        cases y with
        | none => simp [noNaN] at hb
        | some m =>
          simp only [Val.lt, Val.gt, Val.eq, realLt, realEq]
          rcases Int.lt_trichotomy n m with h | h | h
          · have h1 : ¬ n = m := by omega
            have h2 : ¬ m < n := by omega
            simp [h, h1, h2]
          · subst h; simp
          · have h1 : ¬ n = m := by omega
            have h2 : ¬ n < m := by omega
            simp [h, h1, h2]
    | _ => simp [Val.lt, Val.gt, Val.eq, rank]
  | obj n =>
    cases b with
    | obj m =>
      simp only [Val.lt, Val.gt, Val.eq]
      rcases Nat.lt_trichotomy n m with h | h | h
      · have h1 : ¬ n = m := by omega
        have h2 : ¬ n > m := by omega
        simp [h, h1, h2]
      · subst h; simp
      · have h1 : ¬ n = m := by omega
        have h2 : ¬ n < m := by omega
        simp [h, h1, h2]
    | _ => simp [Val.lt, Val.gt, Val.eq, rank]
  | arr n =>
    cases b with
    | arr m =>
      simp only [Val.lt, Val.gt, Val.eq]
      rcases Nat.lt_trichotomy n m with h | h | h
      · have h1 : ¬ n = m := by omega
        have h2 : ¬ n > m := by omega
        simp [h, h1, h2]
      · subst h; simp
      · have h1 : ¬ n = m := by omega
        have h2 : ¬ n < m := by omega
        simp [h, h1, h2]
    | _ => simp [Val.lt, Val.gt, Val.eq, rank]
  | _ => cases b <;> simp [Val.lt, Val.gt, Val.eq, rank]

/-! ### Reduction to the pointed-to values -/

theorem depth_zero_strip (a : JVal) (h : depth a = 0) : strip a = a := by
  cases a <;> simp_all [depth, strip]

theorem depth_strip (a : JVal) : depth (strip a) = 0 := by
  induction a <;> simp_all [depth, strip]

theorem noNaN_strip (a : JVal) : noNaN (strip a) = noNaN a := by
  induction a <;> simp_all [noNaN, strip]

/-- When the left operand has at least as many pointer layers as the right one, every operator
    compares the pointed-to values. -/
theorem val_lt_strip (a b : JVal) (h : depth b ≤ depth a) : Val.lt a b = Val.lt (strip a) (strip b) := by
  induction a generalizing b with
  | ptr t ih =>
    cases b with
    | ptr u => simpa [Val.lt, strip] using ih u (by simpa [depth] using h)
    | _ => exact ih _ (by simp [depth])
  | _ => cases b <;> simp_all [depth, strip]

theorem val_gt_strip (a b : JVal) (h : depth b ≤ depth a) : Val.gt a b = Val.gt (strip a) (strip b) := by
  induction a generalizing b with
  | ptr t ih =>
    cases b with
    | ptr u => simpa [Val.gt, strip] using ih u (by simpa [depth] using h)
    | _ => exact ih _ (by simp [depth])
  | _ => cases b <;> simp_all [depth, strip]

theorem val_eq_strip (a b : JVal) (h : depth b ≤ depth a) : Val.eq a b = Val.eq (strip a) (strip b) := by
  induction a generalizing b with
  | ptr t ih =>
    cases b with
    | ptr u => simpa [Val.eq, strip] using ih u (by simpa [depth] using h)
    | _ => exact ih _ (by simp [depth])
  | _ => cases b <;> simp_all [depth, strip]

/-- Right operand with more pointer layers: the comparison stops at the pointer and uses the
    kind ranks (this is where the laws break, see `Props/C15.lean`). -/
theorem val_lt_shallow_left (a b : JVal) (h : depth a < depth b) :
    Val.lt a b = (strip a == JVal.undefined) := by
  induction a generalizing b with
  | ptr t ih =>
    cases b with
    | ptr u => simpa [Val.lt, strip] using ih u (by simpa [depth] using h)
    | _ => simp [depth] at h
  | _ => cases b <;> simp_all [depth, strip, Val.lt, rank]

/-! ### Pointer-free values: duality, transitivity -/

theorem val_gt_eq_lt_swap0 (a b : JVal) (ha : depth a = 0) (hb : depth b = 0) :
    Val.gt a b = Val.lt b a := by
  cases a <;> cases b <;> simp_all [depth, Val.gt, Val.lt, rank, Str.gt_eq_lt_swap]

theorem val_eq_comm0 (a b : JVal) (ha : depth a = 0) (hb : depth b = 0) :
    Val.eq a b = Val.eq b a := by
  cases a <;> cases b <;> simp_all [depth, Val.eq] <;>
    first | exact nat_beq_comm _ _ | exact int_beq_comm _ _ | exact Str.eq_comm _ _ | exact realEq_comm _ _

theorem val_lt_of_rank_lt (a b : JVal) (ha : depth a = 0) (hb : depth b = 0) (h : rank a < rank b) :
    Val.lt a b = true := by
  cases a <;> cases b <;> simp_all [depth, Val.lt, rank]

theorem val_rank_le_of_lt (a b : JVal) (ha : depth a = 0) (hb : depth b = 0) (h : Val.lt a b = true) :
    rank a ≤ rank b := by
  cases a <;> cases b <;> simp_all [depth, Val.lt, rank]

theorem val_rank_eq_of_eq (a b : JVal) (ha : depth a = 0) (hb : depth b = 0) (h : Val.eq a b = true) :
    rank a = rank b := by
  cases a <;> cases b <;> simp_all [depth, Val.eq, rank]

theorem realLt_trans (a b c : Option Int) : realLt a b = true → realLt b c = true → realLt a c = true := by
  cases a <;> cases b <;> cases c <;> simp [realLt]; omega

theorem val_lt_trans_same (a b c : JVal) (ha : depth a = 0) (hb : depth b = 0) (hc : depth c = 0)
    (r1 : rank a = rank b) (r2 : rank b = rank c) :
    Val.lt a b = true → Val.lt b c = true → Val.lt a c = true := by
  intro h1 h2
  cases a <;> cases b <;> simp [rank] at r1 <;> cases c <;> simp [rank] at r2 <;>
    simp [depth] at ha <;> simp [Val.lt] at h1 h2 ⊢
  all_goals first | omega | exact Str.lt_trans _ _ _ h1 h2 | exact realLt_trans _ _ _ h1 h2

theorem val_lt_trans0 (a b c : JVal) (ha : depth a = 0) (hb : depth b = 0) (hc : depth c = 0) :
    Val.lt a b = true → Val.lt b c = true → Val.lt a c = true := by
  intro h1 h2
  have r1 := val_rank_le_of_lt a b ha hb h1
  have r2 := val_rank_le_of_lt b c hb hc h2
  by_cases h : rank a < rank c
  · exact val_lt_of_rank_lt a c ha hc h
  · exact val_lt_trans_same a b c ha hb hc (by omega) (by omega) h1 h2

theorem val_lt_irrefl0 (a : JVal) (ha : depth a = 0) : Val.lt a a = false := by
  cases a <;> simp_all [depth, Val.lt, Str.lt_irrefl, realLt]
  rename_i k; cases k <;> simp

/-! ### `==` on pointer-free values is equality of what the comparisons read; full transitivity -/

theorem val_eq_true_imp_eq0 (a b : JVal) (ha : depth a = 0) (hb : depth b = 0)
    (h : Val.eq a b = true) : a = b := by
  cases a <;> cases b <;> simp_all [depth, Val.eq]
  · exact (str_eq_iff _ _ ▸ h : decide (_ = _) = true) |> of_decide_eq_true
  · rename_i x y
    cases x <;> cases y <;> simp_all [realEq]

theorem val_trans0 (a b c : JVal) (ha : depth a = 0) (hb : depth b = 0) (hc : depth c = 0) :
    Obs.trans (obsVal a b) (obsVal b c) (obsVal a c) = true := by
  simp only [Obs.trans, obsVal, val_le_eq]
  cases hE1 : Val.eq a b with
  | true =>
    have := val_eq_true_imp_eq0 a b ha hb hE1
    subst this
    simp only [val_lt_irrefl0 a ha]
    cases Val.lt a c <;> cases Val.eq a c <;> simp
  | false =>
    cases hE2 : Val.eq b c with
    | true =>
      have := val_eq_true_imp_eq0 b c hb hc hE2
      subst this
      simp only [val_lt_irrefl0 b hb, hE1]
      cases Val.lt a b <;> simp
    | false =>
      cases hL1 : Val.lt a b <;> cases hL2 : Val.lt b c <;> simp
      simp [val_lt_trans0 a b c ha hb hc hL1 hL2]

theorem obsVal_strip (a b : JVal) (h : depth a = depth b) : obsVal a b = obsVal (strip a) (strip b) := by
  simp only [obsVal, val_le_eq, val_ge_eq]
  rw [val_lt_strip a b (by omega), val_gt_strip a b (by omega), val_eq_strip a b (by omega)]

end Qentem.Order
