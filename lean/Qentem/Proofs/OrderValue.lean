import Qentem.Proofs.Order
/-! Helper lemmas for C15: `Value` comparisons (`Val.lt/gt/le/ge/eq` over `JVal`). -/
namespace Qentem.Order

/-! ### Strings as a linear order (Bool-valued facts used by the value lemmas) -/

theorem Str.lt_eq_lex (a b : List Nat) : Str.lt a b = lexLt a b := isLess_false_eq_lexLt a b
theorem Str.gt_eq_lex (a b : List Nat) : Str.gt a b = lexLt b a := by
  unfold Str.gt; rw [isGreater_eq_isLess_swap]; exact isLess_false_eq_lexLt b a
theorem Str.le_eq (a b : List Nat) : Str.le a b = (Str.lt a b || Str.eq a b) := by
  unfold Str.le Str.lt; rw [isLess_true_eq, str_eq_iff]
theorem Str.ge_eq (a b : List Nat) : Str.ge a b = (Str.gt a b || Str.eq a b) := by
  unfold Str.ge Str.gt; rw [isGreater_eq_isLess_swap, isGreater_eq_isLess_swap, isLess_true_eq, str_eq_iff]
  congr 1; simp [eq_comm]
theorem Str.gt_eq_lt_swap (a b : List Nat) : Str.gt a b = Str.lt b a := by
  unfold Str.gt Str.lt; exact isGreater_eq_isLess_swap a b false
theorem Str.ge_eq_le_swap (a b : List Nat) : Str.ge a b = Str.le b a := by
  unfold Str.ge Str.le; exact isGreater_eq_isLess_swap a b true
theorem Str.eq_comm (a b : List Nat) : Str.eq a b = Str.eq b a := by
  rw [str_eq_iff, str_eq_iff]; simp [_root_.eq_comm]

/-- Exactly one of `<`, `==`, `>` (as a Boolean identity). -/
theorem Str.tri (a b : List Nat) :
    ((Str.lt a b && !Str.eq a b && !Str.gt a b) || (!Str.lt a b && Str.eq a b && !Str.gt a b) ||
      (!Str.lt a b && !Str.eq a b && Str.gt a b)) = true := by
  rw [Str.lt_eq_lex, Str.gt_eq_lex, str_eq_iff]
  by_cases hab : a = b
  · subst hab; simp [lexLt_irrefl]
  · cases h1 : lexLt a b
    · cases h2 : lexLt b a
      · exact absurd (lexLt_total a b h1 h2) hab
      · simp [hab]
    · simp [lexLt_asymm a b h1, hab]

theorem Str.lt_trans (a b c : List Nat) : Str.lt a b = true → Str.lt b c = true → Str.lt a c = true := by
  simp only [Str.lt_eq_lex]; exact lexLt_trans a b c

theorem Str.lt_irrefl (a : List Nat) : Str.lt a a = false := by
  rw [Str.lt_eq_lex]; exact lexLt_irrefl a

/-! ### Base facts per number kind -/

theorem nat_le_eq (a b : Nat) : decide (a ≤ b) = (decide (a < b) || a == b) := by
  by_cases h : a < b
  · simp [h, Nat.le_of_lt h]
  · by_cases h2 : a = b
    · simp [h2]
    · have : ¬ a ≤ b := by omega
      simp [h, h2, this]

theorem nat_ge_eq (a b : Nat) : decide (a ≥ b) = (decide (a > b) || a == b) := by
  by_cases h : a > b
  · simp [h, Nat.le_of_lt h]
  · by_cases h2 : a = b
    · simp [h2]
    · have : ¬ a ≥ b := by omega
      simp [h, h2, this]

theorem int_le_eq (a b : Int) : decide (a ≤ b) = (decide (a < b) || a == b) := by
  by_cases h : a < b
  · simp [h, Int.le_of_lt h]
  · by_cases h2 : a = b
    · simp [h2]
    · have : ¬ a ≤ b := by omega
      simp [h, h2, this]

theorem int_ge_eq (a b : Int) : decide (a ≥ b) = (decide (a > b) || a == b) := by
  by_cases h : a > b
  · simp [h, Int.le_of_lt h]
  · by_cases h2 : a = b
    · simp [h2]
    · have : ¬ a ≥ b := by omega
      simp [h, h2, this]

theorem realLe_eq (a b : Option Int) : realLe a b = (realLt a b || realEq a b) := by
  cases a <;> cases b <;> simp [realLe, realLt, realEq, int_le_eq]

theorem int_beq_comm (a b : Int) : (a == b) = (b == a) := by
  rw [Bool.eq_iff_iff]; simp only [beq_iff_eq]; exact eq_comm

theorem nat_beq_comm (a b : Nat) : (a == b) = (b == a) := by
  rw [Bool.eq_iff_iff]; simp only [beq_iff_eq]; exact eq_comm

theorem realEq_comm (a b : Option Int) : realEq a b = realEq b a := by
  cases a <;> cases b <;> simp [realEq]
  exact int_beq_comm _ _

theorem realGe_eq (a b : Option Int) : realLe b a = (realLt b a || realEq a b) := by
  rw [realEq_comm]; exact realLe_eq b a

/-! ### Reduction to pointer-free values: every operator compares the pointed-to values -/

theorem depth_zero_strip (a : JVal) (h : depth a = 0) : strip a = a := by
  cases a <;> simp_all [depth, strip]

theorem depth_strip (a : JVal) : depth (strip a) = 0 := by
  induction a <;> simp_all [depth, strip]

theorem strip_strip (a : JVal) : strip (strip a) = strip a :=
  depth_zero_strip _ (depth_strip a)

theorem noNaN_strip (a : JVal) : noNaN (strip a) = noNaN a := by
  induction a <;> simp_all [noNaN, strip]

theorem derefRight_strip (f : JVal → JVal → Bool) (a b : JVal) : derefRight f a b = f a (strip b) := by
  induction b <;> simp_all [derefRight, strip]

theorem val_lt_base (a b : JVal) : Val.lt a b = Base.lt (strip a) (strip b) := by
  induction a generalizing b with
  | ptr t ih => cases b <;> simp [Val.lt, strip, ih]
  | _ => cases b <;> simp [Val.lt, derefRight_strip, strip]

theorem val_gt_base (a b : JVal) : Val.gt a b = Base.gt (strip a) (strip b) := by
  induction a generalizing b with
  | ptr t ih => cases b <;> simp [Val.gt, strip, ih]
  | _ => cases b <;> simp [Val.gt, derefRight_strip, strip]

theorem val_le_base (a b : JVal) : Val.le a b = Base.le (strip a) (strip b) := by
  induction a generalizing b with
  | ptr t ih => cases b <;> simp [Val.le, strip, ih]
  | _ => cases b <;> simp [Val.le, derefRight_strip, strip]

theorem val_ge_base (a b : JVal) : Val.ge a b = Base.ge (strip a) (strip b) := by
  induction a generalizing b with
  | ptr t ih => cases b <;> simp [Val.ge, strip, ih]
  | _ => cases b <;> simp [Val.ge, derefRight_strip, strip]

theorem val_eq_base (a b : JVal) : Val.eq a b = Base.eq (strip a) (strip b) := by
  induction a generalizing b with
  | ptr t ih => cases b <;> simp [Val.eq, strip, ih]
  | _ => cases b <;> simp [Val.eq, derefRight_strip, strip]

/-- Observations through the base comparisons. -/
theorem obsVal_base (a b : JVal) : obsVal a b =
    { lt := Base.lt (strip a) (strip b), le := Base.le (strip a) (strip b),
      gt := Base.gt (strip a) (strip b), ge := Base.ge (strip a) (strip b),
      eq := Base.eq (strip a) (strip b) } := by
  simp only [obsVal, val_lt_base, val_gt_base, val_le_base, val_ge_base, val_eq_base]

/-! ### Laws of the base comparisons -/

theorem base_le_eq (a b : JVal) : Base.le a b = (Base.lt a b || Base.eq a b) := by
  cases a <;> cases b <;> simp [Base.le, Base.lt, Base.eq, rank, nat_le_eq, int_le_eq, realLe_eq, Str.le_eq]

theorem base_ge_eq (a b : JVal) : Base.ge a b = (Base.gt a b || Base.eq a b) := by
  cases a <;> cases b <;> simp [Base.ge, Base.gt, Base.eq, rank, nat_ge_eq, int_ge_eq, realGe_eq, Str.ge_eq]

theorem nat_tri (n m : Nat) :
    ((decide (n < m) && !(n == m) && !decide (n > m)) || (!decide (n < m) && (n == m) && !decide (n > m)) ||
      (!decide (n < m) && !(n == m) && decide (n > m))) = true := by
  rcases Nat.lt_trichotomy n m with h | h | h
  · have h1 : ¬ n = m := by omega
    have h2 : ¬ n > m := by omega
    simp [h, h1, h2]
  · subst h; simp
  · have h1 : ¬ n = m := by omega
    have h2 : ¬ n < m := by omega
    simp [h, h1, h2]

theorem int_tri (n m : Int) :
    ((decide (n < m) && !(n == m) && !decide (m < n)) || (!decide (n < m) && (n == m) && !decide (m < n)) ||
      (!decide (n < m) && !(n == m) && decide (m < n))) = true := by
  rcases Int.lt_trichotomy n m with h | h | h
  · have h1 : ¬ n = m := by omega
    have h2 : ¬ m < n := by omega
    simp [h, h1, h2]
  · subst h; simp
  · have h1 : ¬ n = m := by omega
    have h2 : ¬ n < m := by omega
    simp [h, h1, h2]

/-- Without NaN exactly one of `<`, `==`, `>` holds. -/
theorem base_tri (a b : JVal) (da : depth a = 0) (db : depth b = 0) (ha : noNaN a = true) (hb : noNaN b = true) :
    ((Base.lt a b && !Base.eq a b && !Base.gt a b) || (!Base.lt a b && Base.eq a b && !Base.gt a b) ||
      (!Base.lt a b && !Base.eq a b && Base.gt a b)) = true := by
  cases a with
  | obj n => cases b with
    | obj m => simpa [Base.lt, Base.gt, Base.eq] using nat_tri n m
    | _ => simp [Base.lt, Base.gt, Base.eq, rank]
  | arr n => cases b with
    | arr m => simpa [Base.lt, Base.gt, Base.eq] using nat_tri n m
    | _ => simp [Base.lt, Base.gt, Base.eq, rank]
  | nat n => cases b with
    | nat m => simpa [Base.lt, Base.gt, Base.eq] using nat_tri n m
    | _ => simp [Base.lt, Base.gt, Base.eq, rank]
  | int n => cases b with
    | int m => simpa [Base.lt, Base.gt, Base.eq] using int_tri n m
    | _ => simp [Base.lt, Base.gt, Base.eq, rank]
  | str s1 => cases b with
    | str s2 => simpa [Base.lt, Base.gt, Base.eq] using Str.tri s1 s2
    | _ => simp [Base.lt, Base.gt, Base.eq, rank]
  | real x => cases b with
    | real y =>
      cases x with
      | none => simp [noNaN] at ha
      | some n =>
        cases y with
        | none => simp [noNaN] at hb
        | some m => simpa [Base.lt, Base.gt, Base.eq, realLt, realEq] using int_tri n m
    | _ => simp [Base.lt, Base.gt, Base.eq, rank]
  | _ => cases b <;> simp_all [Base.lt, Base.gt, Base.eq, rank, depth]

theorem base_gt_eq_lt_swap (a b : JVal) : Base.gt a b = Base.lt b a := by
  cases a <;> cases b <;> simp [Base.gt, Base.lt, rank, Str.gt_eq_lt_swap]

theorem base_eq_comm (a b : JVal) : Base.eq a b = Base.eq b a := by
  cases a <;> cases b <;> simp [Base.eq] <;>
    first | exact nat_beq_comm _ _ | exact int_beq_comm _ _ | exact Str.eq_comm _ _ | exact realEq_comm _ _

theorem base_lt_of_rank_lt (a b : JVal) (h : rank a < rank b) : Base.lt a b = true := by
  cases a <;> cases b <;> simp_all [Base.lt, rank]

theorem base_rank_le_of_lt (a b : JVal) (h : Base.lt a b = true) : rank a ≤ rank b := by
  cases a <;> cases b <;> simp_all [Base.lt, rank]

theorem realLt_trans (a b c : Option Int) : realLt a b = true → realLt b c = true → realLt a c = true := by
  cases a <;> cases b <;> cases c <;> simp [realLt]; omega

theorem base_lt_trans_same (a b c : JVal) (r1 : rank a = rank b) (r2 : rank b = rank c) :
    Base.lt a b = true → Base.lt b c = true → Base.lt a c = true := by
  intro h1 h2
  cases a <;> cases b <;> simp [rank] at r1 <;> cases c <;> simp [rank] at r2 <;>
    simp [Base.lt, rank] at h1 h2 ⊢
  all_goals first | omega | exact Str.lt_trans _ _ _ h1 h2 | exact realLt_trans _ _ _ h1 h2

theorem base_lt_trans (a b c : JVal) :
    Base.lt a b = true → Base.lt b c = true → Base.lt a c = true := by
  intro h1 h2
  have r1 := base_rank_le_of_lt a b h1
  have r2 := base_rank_le_of_lt b c h2
  by_cases h : rank a < rank c
  · exact base_lt_of_rank_lt a c h
  · exact base_lt_trans_same a b c (by omega) (by omega) h1 h2

theorem base_lt_irrefl (a : JVal) : Base.lt a a = false := by
  cases a <;> simp [Base.lt, Str.lt_irrefl, rank]
  rename_i k; cases k <;> simp [realLt]

/-- `==` means equality of everything the comparisons read. -/
theorem base_eq_true_imp_eq (a b : JVal) (h : Base.eq a b = true) : a = b := by
  cases a <;> cases b <;> simp_all [Base.eq]
  · exact (str_eq_iff _ _ ▸ h : decide (_ = _) = true) |> of_decide_eq_true
  · rename_i x y
    cases x <;> cases y <;> simp_all [realEq]

theorem base_trans (a b c : JVal) :
    Obs.trans
      { lt := Base.lt a b, le := Base.le a b, gt := Base.gt a b, ge := Base.ge a b, eq := Base.eq a b }
      { lt := Base.lt b c, le := Base.le b c, gt := Base.gt b c, ge := Base.ge b c, eq := Base.eq b c }
      { lt := Base.lt a c, le := Base.le a c, gt := Base.gt a c, ge := Base.ge a c, eq := Base.eq a c } = true := by
  simp only [Obs.trans, base_le_eq]
  cases hE1 : Base.eq a b with
  | true =>
    have := base_eq_true_imp_eq a b hE1
    subst this
    simp only [base_lt_irrefl a]
    cases Base.lt a c <;> cases Base.eq a c <;> simp
  | false =>
    cases hE2 : Base.eq b c with
    | true =>
      have := base_eq_true_imp_eq b c hE2
      subst this
      simp only [base_lt_irrefl b, hE1]
      cases Base.lt a b <;> simp
    | false =>
      cases hL1 : Base.lt a b <;> cases hL2 : Base.lt b c <;> simp
      simp [base_lt_trans a b c hL1 hL2]

end Qentem.Order
