import Qentem.Proofs.StrToNumRaw
/-! C09 helper lemmas: the specification `nearestMag n d` for a rational `n/d`, re-expressed in the
units of the code's big integer: `n/d = N/(D·2^sh)`, `L = ⌊log₂(N/D)⌋`. -/
namespace Qentem.Round

theorem pow_lt_pow_exp {a b : Nat} (h : 2 ^ a < 2 ^ b) : a < b :=
  (Nat.pow_lt_pow_iff_right (by decide : 1 < 2)).1 h

/-- `⌊log₂(n/d)⌋ = L − sh` when `d·2^L ≤ n·2^sh < d·2^(L+1)` -/
theorem floorLog2Frac_shift (n d L sh : Nat) (hn : 0 < n) (hd : 0 < d) (h1 : d * 2 ^ L ≤ n * 2 ^ sh)
    (h2 : n * 2 ^ sh < d * 2 ^ (L + 1)) : floorLog2Frac n d = (L : Int) - (sh : Int) := by
  unfold floorLog2Frac
  simp only
  obtain ⟨hnlo, hnhi⟩ := log2_bounds n (by omega)
  obtain ⟨hdlo, hdhi⟩ := log2_bounds d (by omega)
  generalize Nat.log2 n = ln at *
  generalize Nat.log2 d = ld at *
  have hP : ∀ k : Nat, 0 < 2 ^ k := fun k => Nat.pow_pos (by decide)
  -- (a) ld + L < ln + 1 + sh
  have ha : ld + L < ln + 1 + sh := by
    apply pow_lt_pow_exp
    calc 2 ^ (ld + L) = 2 ^ ld * 2 ^ L := Nat.pow_add _ _ _
      _ ≤ d * 2 ^ L := Nat.mul_le_mul_right _ hdlo
      _ ≤ n * 2 ^ sh := h1
      _ < 2 ^ (ln + 1) * 2 ^ sh := Nat.mul_lt_mul_of_pos_right hnhi (hP sh)
      _ = 2 ^ (ln + 1 + sh) := (Nat.pow_add _ _ _).symm
  -- (b) ln + sh < ld + 1 + (L + 1)
  have hb : ln + sh < ld + 1 + (L + 1) := by
    apply pow_lt_pow_exp
    calc 2 ^ (ln + sh) = 2 ^ ln * 2 ^ sh := Nat.pow_add _ _ _
      _ ≤ n * 2 ^ sh := Nat.mul_le_mul_right _ hnlo
      _ < d * 2 ^ (L + 1) := h2
      _ < 2 ^ (ld + 1) * 2 ^ (L + 1) := Nat.mul_lt_mul_of_pos_right hdhi (hP _)
      _ = 2 ^ (ld + 1 + (L + 1)) := (Nat.pow_add _ _ _).symm
  rcases Nat.lt_or_ge ln ld with hlt | hge
  · -- negative e0
    have t1 : (-((ln : Int) - (ld : Int))).toNat = ld - ln := by omega
    have t2 : ((ln : Int) - (ld : Int)).toNat = 0 := by omega
    rw [t1, t2, Nat.pow_zero, Nat.mul_one]
    by_cases hz : L + ld = ln + sh
    · -- sh = L + (ld - ln)
      have hsh : sh = L + (ld - ln) := by omega
      have : d ≤ n * 2 ^ (ld - ln) := by
        rw [hsh, Nat.pow_add, ← Nat.mul_assoc, Nat.mul_right_comm] at h1
        exact Nat.le_of_mul_le_mul_right h1 (hP L)
      simp only [ge_iff_le, this, if_true]; omega
    · have hsh : sh = L + 1 + (ld - ln) := by omega
      have : ¬ (d ≤ n * 2 ^ (ld - ln)) := by
        rw [hsh, Nat.pow_add, ← Nat.mul_assoc, Nat.mul_right_comm] at h2
        have := Nat.lt_of_mul_lt_mul_right h2
        omega
      simp only [ge_iff_le, this, if_false]; omega
  · have t1 : (-((ln : Int) - (ld : Int))).toNat = 0 := by omega
    have t2 : ((ln : Int) - (ld : Int)).toNat = ln - ld := by omega
    rw [t1, t2, Nat.pow_zero, Nat.mul_one]
    by_cases hz : L + ld = ln + sh
    · have hL : L = sh + (ln - ld) := by omega
      have : d * 2 ^ (ln - ld) ≤ n := by
        rw [hL, Nat.pow_add, Nat.mul_comm (2 ^ sh), ← Nat.mul_assoc] at h1
        exact Nat.le_of_mul_le_mul_right h1 (hP sh)
      simp only [ge_iff_le, this, if_true]; omega
    · have hL : L + 1 = sh + (ln - ld) := by omega
      have : ¬ (d * 2 ^ (ln - ld) ≤ n) := by
        rw [hL, Nat.pow_add, Nat.mul_comm (2 ^ sh), ← Nat.mul_assoc] at h2
        have := Nat.lt_of_mul_lt_mul_right h2
        omega
      simp only [ge_iff_le, this, if_false]; omega

/-- the specification's raw pattern of `N/(D·2^sh)` where `L = ⌊log₂(N/D)⌋ ≥ 52`: the effective
binade is `max L (sh − 1022)` (gradual underflow), the mantissa is `N/D` rounded half-even at that scale -/
def ratRaw (N D sh L : Nat) : Nat :=
  (max L (sh - 1022) + 1022 - sh) * 2 ^ 52 + rne N (D * 2 ^ (max L (sh - 1022) - 52))

theorem nearestMag_bunits (n D x sh L : Nat) (hn : 0 < n) (hD : 0 < D) (hx : x ≤ sh) (hL : 52 ≤ L)
    (h1 : D * 2 ^ L ≤ n * 2 ^ (sh - x)) (h2 : n * 2 ^ (sh - x) < D * 2 ^ (L + 1)) :
    nearestMag n (D * 2 ^ x) = cap (ratRaw (n * 2 ^ (sh - x)) D sh L) := by
  have hP : ∀ k : Nat, 0 < 2 ^ k := fun k => Nat.pow_pos (by decide)
  have hd : 0 < D * 2 ^ x := Nat.mul_pos hD (hP x)
  have hsh : 2 ^ (sh - x) * 2 ^ x = 2 ^ sh := by rw [← Nat.pow_add]; congr 1; omega
  have hfl : floorLog2Frac n (D * 2 ^ x) = (L : Int) - (sh : Int) := by
    apply floorLog2Frac_shift n (D * 2 ^ x) L sh hn hd
    · calc D * 2 ^ x * 2 ^ L = D * 2 ^ L * 2 ^ x := by ring
        _ ≤ n * 2 ^ (sh - x) * 2 ^ x := Nat.mul_le_mul_right _ h1
        _ = n * 2 ^ sh := by rw [Nat.mul_assoc, hsh]
    · calc n * 2 ^ sh = n * 2 ^ (sh - x) * 2 ^ x := by rw [Nat.mul_assoc, hsh]
        _ < D * 2 ^ (L + 1) * 2 ^ x := Nat.mul_lt_mul_of_pos_right h2 (hP x)
        _ = D * 2 ^ x * 2 ^ (L + 1) := by ring
  unfold nearestMag
  have hne : ¬ (n = 0 ∨ D * 2 ^ x = 0) := by omega
  simp only [hne, if_false, hfl]
  unfold cap ratRaw
  generalize hLe : max L (sh - 1022) = Le
  have hLe1 : L ≤ Le := by omega
  have hLe2 : sh - 1022 ≤ Le := by omega
  have hLe3 : Le = L ∨ Le = sh - 1022 := by omega
  -- the exponent chosen by the specification
  have hE : (if (L : Int) - (sh : Int) < -1022 then (-1022 : Int) else (L : Int) - (sh : Int)) = (Le : Int) - (sh : Int) := by
    split <;> omega
  rw [hE]
  have h4 : ((Le : Int) - (sh : Int) + 1022).toNat = Le + 1022 - sh := by omega
  rw [h4]
  -- the mantissa: same rational, brought to the common form rne (n·2^sh) (D·2^(Le-52)·2^x)
  have hm : rne (n * 2 ^ ((52 : Int) - ((Le : Int) - (sh : Int))).toNat) (D * 2 ^ x * 2 ^ (-((52 : Int) - ((Le : Int) - (sh : Int)))).toNat) =
      rne (n * 2 ^ (sh - x)) (D * 2 ^ (Le - 52)) := by
    have rhs : rne (n * 2 ^ (sh - x)) (D * 2 ^ (Le - 52)) = rne (n * 2 ^ sh) (D * 2 ^ (Le - 52) * 2 ^ x) := by
      rw [← rne_mul_right (n * 2 ^ (sh - x)) (D * 2 ^ (Le - 52)) (2 ^ x) (Nat.mul_pos hD (hP _)) (hP x), Nat.mul_assoc, hsh]
    rw [rhs]
    rcases Nat.lt_or_ge (52 + sh) Le with hc | hc
    · have t1 : ((52 : Int) - ((Le : Int) - (sh : Int))).toNat = 0 := by omega
      have t2 : (-((52 : Int) - ((Le : Int) - (sh : Int)))).toNat = Le - 52 - sh := by omega
      rw [t1, t2, Nat.pow_zero, Nat.mul_one]
      rw [← rne_mul_right n (D * 2 ^ x * 2 ^ (Le - 52 - sh)) (2 ^ sh) (Nat.mul_pos hd (hP _)) (hP sh)]
      congr 1
      have : 2 ^ (Le - 52 - sh) * 2 ^ sh = 2 ^ (Le - 52) := by rw [← Nat.pow_add]; congr 1; omega
      calc D * 2 ^ x * 2 ^ (Le - 52 - sh) * 2 ^ sh = D * 2 ^ x * (2 ^ (Le - 52 - sh) * 2 ^ sh) := by ring
        _ = D * 2 ^ (Le - 52) * 2 ^ x := by rw [this]; ring
    · have t1 : ((52 : Int) - ((Le : Int) - (sh : Int))).toNat = 52 + sh - Le := by omega
      have t2 : (-((52 : Int) - ((Le : Int) - (sh : Int)))).toNat = 0 := by omega
      rw [t1, t2, Nat.pow_zero, Nat.mul_one]
      rw [← rne_mul_right (n * 2 ^ (52 + sh - Le)) (D * 2 ^ x) (2 ^ (Le - 52)) hd (hP _)]
      have : 2 ^ (52 + sh - Le) * 2 ^ (Le - 52) = 2 ^ sh := by rw [← Nat.pow_add]; congr 1; omega
      congr 1
      · rw [Nat.mul_assoc, this]
      · ring
  rw [hm]

end Qentem.Round
