import Qentem.Proofs.HashLedgerOps
/-!
Ledger lemmas for the operations that handle two tables (copy, both `operator+=`), and the
lifting to whole object lifetimes.
-/
namespace Qentem.HashLedger
open Qentem.Ledger Qentem.HashTable

/-- The copies made by `copyTable`: fresh blocks only, all owned by the new slots. -/
theorem copySlots_ok (cfg : Cfg) : ∀ (sl : List (Option Slot)) (next : Nat) (X : List Nat) (evs : List Ev)
    (L1 : List Nat) (n1 : Nat),
    Exec evs (slotsIds (copySlots cfg sl next).2.1 ++ X) (copySlots cfg sl next).2.2 L1 n1 →
    Exec ((copySlots cfg sl next).1 ++ evs) X next L1 n1
  | [], next, X, evs, L1, n1, hk => by simpa [copySlots] using hk
  | none :: rest, next, X, evs, L1, n1, hk => by
    simp only [copySlots] at hk ⊢
    exact copySlots_ok cfg rest next X evs L1 n1 hk
  | some s :: rest, next, X, evs, L1, n1, hk => by
    cases hv : cfg.hasValue
    · simp only [copySlots, hv, Bool.false_eq_true, if_false, Option.toList, List.map_nil, allocB,
        List.cons_append, List.nil_append] at hk ⊢
      apply Exec.step_alloc
      refine copySlots_ok cfg rest (next + 1) (next :: X) evs L1 n1 ?_
      refine hk.permL ?_
      simp only [slotsIds_cons]
      perm_count
    · simp only [copySlots, hv, if_true, Option.toList, List.map_cons, List.map_nil, allocB,
        List.cons_append, List.nil_append] at hk ⊢
      apply Exec.step_alloc
      apply Exec.step_alloc
      refine copySlots_ok cfg rest (next + 2) ((next + 1) :: next :: X) evs L1 n1 ?_
      refine hk.permL ?_
      simp only [slotsIds_cons]
      perm_count

theorem copy_ok (cfg : Cfg) (t : Tab) (next : Nat) : OpOK t next (copy cfg t next) := by
  unfold copy
  split
  · refine ⟨WF_of_cap (allocCap_ne_zero _), ?_⟩
    intro X evs L1 n1 hk
    simp only [allocB, List.append_assoc, List.cons_append]
    apply Exec.step_alloc
    refine copySlots_ok cfg t.slots (next + 1) (next :: (owned t ++ X)) _ L1 n1 ?_
    refine exec_disposeAll t.slots (L' := optIds t.blk ++ (slotsIds (copySlots cfg t.slots (next + 1)).2.1 ++ next :: X))
      (by perm_count) ?_
    refine exec_optFree t.blk (L' := slotsIds (copySlots cfg t.slots (next + 1)).2.1 ++ next :: X)
      (List.Perm.refl _) ?_
    refine hk.permL ?_
    perm_count
  · rename_i h
    simp only [ne_eq, not_not] at h
    refine ⟨WF_empty, ?_⟩
    intro X evs L1 n1 hk
    refine exec_optFree t.blk (L' := X) ?_ ?_
    · simp only [owned, List.eq_nil_of_length_eq_zero h, slotsIds_nil, List.append_nil]
      exact List.Perm.refl _
    · exact hk.permL (by simp [owned, Tab.empty, optIds])

/-- The loop of the copying `operator+=`: fresh blocks for what it adds, releases of the values it
overwrites; the source (in the frame) is not touched. -/
theorem mergeCopyLoop_ok (cfg : Cfg) : ∀ (src : List (Option Slot)) (t : Tab) (next : Nat),
    WF t → (src ≠ [] → t.cap ≠ 0) → OpOK t next (mergeCopyLoop cfg src t next)
  | [], t, next, hwf, _ => by simp only [mergeCopyLoop]; exact OpOK.nop hwf
  | none :: rest, t, next, hwf, hc => by
    simp only [mergeCopyLoop]
    refine mergeCopyLoop_ok cfg rest t next hwf (fun _ => hc (by simp))
  | some s :: rest, t, next, hwf, hc => by
    have hcap : t.cap ≠ 0 := hc (by simp)
    cases hf : findSlot t.slots s.key with
    | none =>
      cases hv : cfg.hasValue
      · simp only [mergeCopyLoop, hf, hv, Bool.false_eq_true, if_false, Option.toList, List.map_nil]
        have ih := mergeCopyLoop_ok cfg rest
          { t with slots := t.slots ++ [some ⟨s.key, ⟨next, s.key.length + 1⟩, none⟩] } (next + 1)
          (WF_of_cap hcap) (fun _ => hcap)
        refine ⟨ih.1, ?_⟩
        intro X evs L1 n1 hk
        simp only [allocB, List.cons_append, List.nil_append]
        apply Exec.step_alloc
        refine Exec.permL ?_ (ih.2 X evs L1 n1 hk)
        simp only [owned, slotsIds_append, slotsIds_cons, slotsIds_nil]
        perm_count
      · simp only [mergeCopyLoop, hf, hv, if_true, Option.toList, List.map_cons, List.map_nil]
        have ih := mergeCopyLoop_ok cfg rest
          { t with slots := t.slots ++ [some ⟨s.key, ⟨next, s.key.length + 1⟩,
              some ⟨next + 1, match s.vb with | some b => b.size | none => 1⟩⟩] } (next + 2)
          (WF_of_cap hcap) (fun _ => hcap)
        refine ⟨ih.1, ?_⟩
        intro X evs L1 n1 hk
        simp only [allocB, List.cons_append, List.nil_append]
        apply Exec.step_alloc
        apply Exec.step_alloc
        refine Exec.permL ?_ (ih.2 X evs L1 n1 hk)
        simp only [owned, slotsIds_append, slotsIds_cons, slotsIds_nil]
        perm_count
    | some r =>
      obtain ⟨i, d⟩ := r
      obtain ⟨pre, post, hsl, hlen⟩ := findSlot_some hf
      cases hv : cfg.hasValue
      · simp only [mergeCopyLoop, hf, hv, Bool.false_eq_true, if_false]
        exact mergeCopyLoop_ok cfg rest t next hwf (fun _ => hcap)
      · simp only [mergeCopyLoop, hf, hv, if_true]
        have ih := mergeCopyLoop_ok cfg rest
          { t with slots := t.slots.set i (some { d with vb := some ⟨next, match s.vb with | some b => b.size | none => 1⟩ }) }
          (next + 1) (WF_of_cap hcap) (fun _ => hcap)
        refine ⟨ih.1, ?_⟩
        intro X evs L1 n1 hk
        simp only [allocB, List.append_assoc, List.cons_append]
        refine exec_optFree d.vb (L' := optIds t.blk ++ slotsIds pre ++ [d.kb.id] ++ slotsIds post ++ X)
          (by simp only [owned, hsl]; perm_count) ?_
        apply Exec.step_alloc
        refine Exec.permL ?_ (ih.2 X evs L1 n1 hk)
        simp only [owned, hsl, ← hlen, set_at_length]
        perm_count

/-- The loop of the moving `operator+=`: every block of the source's slots is adopted or released. -/
theorem mergeMoveLoop_ok (cfg : Cfg) : ∀ (src : List (Option Slot)) (t : Tab),
    WF t → (src ≠ [] → t.cap ≠ 0) →
    WF (mergeMoveLoop cfg src t).2 ∧ ∀ (X : List Nat) (evs : List Ev) (L1 : List Nat) (n n1 : Nat),
      Exec evs (owned (mergeMoveLoop cfg src t).2 ++ X) n L1 n1 →
      Exec ((mergeMoveLoop cfg src t).1 ++ evs) (owned t ++ (slotsIds src ++ X)) n L1 n1
  | [], t, hwf, _ => by
    simp only [mergeMoveLoop]
    exact ⟨hwf, fun X evs L1 n n1 hk => by simpa using hk⟩
  | none :: rest, t, hwf, hc => by
    simp only [mergeMoveLoop]
    have ih := mergeMoveLoop_ok cfg rest t hwf (fun _ => hc (by simp))
    exact ⟨ih.1, fun X evs L1 n n1 hk => by simpa [slotIds] using ih.2 X evs L1 n n1 hk⟩
  | some s :: rest, t, hwf, hc => by
    have hcap : t.cap ≠ 0 := hc (by simp)
    cases hf : findSlot t.slots s.key with
    | none =>
      simp only [mergeMoveLoop, hf]
      have ih := mergeMoveLoop_ok cfg rest { t with slots := t.slots ++ [some s] } (WF_of_cap hcap) (fun _ => hcap)
      refine ⟨ih.1, ?_⟩
      intro X evs L1 n n1 hk
      refine Exec.permL ?_ (ih.2 X evs L1 n n1 hk)
      simp only [owned, slotsIds_append, slotsIds_cons, slotsIds_nil]
      perm_count
    | some r =>
      obtain ⟨i, d⟩ := r
      obtain ⟨pre, post, hsl, hlen⟩ := findSlot_some hf
      simp only [mergeMoveLoop, hf]
      have ih := mergeMoveLoop_ok cfg rest { t with slots := t.slots.set i (some { d with vb := s.vb }) }
        (WF_of_cap hcap) (fun _ => hcap)
      refine ⟨ih.1, ?_⟩
      intro X evs L1 n n1 hk
      simp only [freeB, List.append_assoc, List.cons_append]
      refine exec_optFree d.vb (L' := optIds t.blk ++ slotsIds pre ++ [d.kb.id] ++ slotsIds post ++
        (slotsIds (some s :: rest) ++ X)) (by simp only [owned, hsl]; perm_count) ?_
      refine Exec.step_free (x := s.kb.id) (L' := optIds t.blk ++ slotsIds pre ++ [d.kb.id] ++ slotsIds post ++
        (optIds s.vb ++ slotsIds rest ++ X)) (by simp only [slotsIds_cons]; perm_count) ?_
      refine Exec.permL ?_ (ih.2 X evs L1 n n1 hk)
      simp only [owned, hsl, ← hlen, set_at_length]
      perm_count

theorem fold_insert_ok (cfg : Cfg) (t0 : Tab) (n0 : Nat) : ∀ (ins : List (List Nat × Nat)) (r : Res),
    OpOK t0 n0 r →
    OpOK t0 n0 (ins.foldl (fun (r : Res) kv =>
      let x := insert cfg r.2.1 r.2.2 kv.1 kv.2
      (r.1 ++ x.1, x.2.1, x.2.2)) r)
  | [], r, h => h
  | kv :: rest, r, h => by
    simp only [List.foldl_cons]
    exact fold_insert_ok cfg t0 n0 rest _ (h.seq (insert_ok cfg r.2.1 r.2.2 kv.1 kv.2 h.1))

theorem fold_remove_ok (t0 : Tab) (n0 : Nat) : ∀ (rem : List (List Nat)) (r : Res),
    OpOK t0 n0 r →
    OpOK t0 n0 (rem.foldl (fun (r : Res) k =>
      let x := remove r.2.1 r.2.2 k
      (r.1 ++ x.1, x.2.1, x.2.2)) r)
  | [], r, h => h
  | k :: rest, r, h => by
    simp only [List.foldl_cons]
    exact fold_remove_ok t0 n0 rest _ (h.seq (remove_ok r.2.1 r.2.2 k h.1))

theorem buildOperand_ok (cfg : Cfg) (ins : List (List Nat × Nat)) (rem : List (List Nat)) (next : Nat) :
    OpOK Tab.empty next (buildOperand cfg ins rem next) := by
  unfold buildOperand
  exact fold_remove_ok _ _ rem _ (fold_insert_ok cfg _ _ ins _ (OpOK.nop WF_empty))

theorem owned_empty : owned Tab.empty = [] := rfl

theorem merge_ok (cfg : Cfg) (t : Tab) (next : Nat) (mv : Bool) (ins : List (List Nat × Nat))
    (rem : List (List Nat)) (hwf : WF t) : OpOK t next (merge cfg t next mv ins rem) := by
  have hb := buildOperand_ok cfg ins rem next
  set b := buildOperand cfg ins rem next with hbdef
  -- the optional growth of the destination
  have hg : OpOK t b.2.2 (if t.slots.length + b.2.1.slots.length > t.cap
      then realloc cfg t (t.slots.length + b.2.1.slots.length) b.2.2 else (([], t, b.2.2) : Res)) := by
    split
    · exact realloc_ok cfg t _ _
    · exact OpOK.nop hwf
  have hgcap : b.2.1.slots ≠ [] → (if t.slots.length + b.2.1.slots.length > t.cap
      then realloc cfg t (t.slots.length + b.2.1.slots.length) b.2.2 else (([], t, b.2.2) : Res)).2.1.cap ≠ 0 := by
    intro hne
    split
    · exact allocCap_ne_zero _
    · rename_i h
      have : b.2.1.slots.length ≠ 0 := fun h0 => hne (List.eq_nil_of_length_eq_zero h0)
      simp only
      omega
  set g := (if t.slots.length + b.2.1.slots.length > t.cap
      then realloc cfg t (t.slots.length + b.2.1.slots.length) b.2.2 else (([], t, b.2.2) : Res)) with hgdef
  cases mv
  · -- copying merge, then the source is destroyed
    have hm := mergeCopyLoop_ok cfg b.2.1.slots g.2.1 g.2.2 hg.1 hgcap
    simp only [merge, ← hbdef, ← hgdef, Bool.false_eq_true, if_false]
    refine ⟨hm.1, ?_⟩
    intro X evs L1 n1 hk
    simp only [List.append_assoc]
    have h1 := hb.2 (owned t ++ X)
    rw [owned_empty, List.nil_append] at h1
    refine h1 _ L1 n1 ?_
    refine Exec.permL (L0 := owned t ++ (owned b.2.1 ++ X)) (by perm_count) ?_
    refine hg.2 (owned b.2.1 ++ X) _ L1 n1 ?_
    refine hm.2 (owned b.2.1 ++ X) _ L1 n1 ?_
    refine exec_disposeAll b.2.1.slots (L' := optIds b.2.1.blk ++ (owned (mergeCopyLoop cfg b.2.1.slots g.2.1 g.2.2).2.1 ++ X))
      (by simp only [owned]; perm_count) ?_
    refine exec_optFree b.2.1.blk (L' := owned (mergeCopyLoop cfg b.2.1.slots g.2.1 g.2.2).2.1 ++ X)
      (List.Perm.refl _) ?_
    exact hk
  · -- moving merge: the source's slots are consumed, its block is released
    have hm := mergeMoveLoop_ok cfg b.2.1.slots g.2.1 hg.1 hgcap
    simp only [merge, ← hbdef, ← hgdef, if_true]
    refine ⟨hm.1, ?_⟩
    intro X evs L1 n1 hk
    simp only [List.append_assoc]
    have h1 := hb.2 (owned t ++ X)
    rw [owned_empty, List.nil_append] at h1
    refine h1 _ L1 n1 ?_
    refine Exec.permL (L0 := owned t ++ (owned b.2.1 ++ X)) (by perm_count) ?_
    refine hg.2 (owned b.2.1 ++ X) _ L1 n1 ?_
    refine Exec.permL (L0 := owned g.2.1 ++ (slotsIds b.2.1.slots ++ (optIds b.2.1.blk ++ X)))
      (by simp only [owned]; perm_count) ?_
    refine hm.2 (optIds b.2.1.blk ++ X) _ L1 g.2.2 n1 ?_
    refine exec_optFree b.2.1.blk (L' := owned (mergeMoveLoop cfg b.2.1.slots g.2.1).2 ++ X)
      (by perm_count) ?_
    exact hk

/-- One operation. -/
theorem step_ok (cfg : Cfg) (t : Tab) (next : Nat) (op : LOp) (hwf : WF t) : OpOK t next (step cfg t next op) := by
  cases op with
  | insert k v => exact insert_ok cfg t next k v hwf
  | get k => exact get_ok cfg t next k hwf
  | assign k v => exact assign_ok cfg t next k v hwf
  | lookup k => exact OpOK.nop hwf
  | lookupIdx i => exact OpOK.nop hwf
  | remove k => exact remove_ok t next k hwf
  | removeIdx i => exact removeIdx_ok t next i hwf
  | rename a b => exact rename_ok t next a b hwf
  | reserve n => exact reserve_ok cfg t next n hwf
  | resize n => exact resizeTo_ok cfg t next n hwf
  | expect n => exact expect_ok cfg t next n hwf
  | compress => exact compress_ok cfg t next hwf
  | clear => exact clear_ok t next hwf
  | reset => exact reset_ok t next hwf
  | sort a => exact sort_ok cfg t next a hwf
  | copy => exact copy_ok cfg t next
  | move => exact OpOK.nop hwf
  | merge mv ins rem => exact merge_ok cfg t next mv ins rem hwf
  | selfMerge => exact OpOK.nop hwf

theorem runOps_ok (cfg : Cfg) : ∀ (ops : List LOp) (t : Tab) (next : Nat), WF t → OpOK t next (runOps cfg ops t next)
  | [], t, next, hwf => OpOK.nop hwf
  | op :: ops, t, next, hwf => by
    have h1 := step_ok cfg t next op hwf
    have h2 := runOps_ok cfg ops (step cfg t next op).2.1 (step cfg t next op).2.2 h1.1
    exact h1.seq h2

/-- The destructor releases everything the table owns. -/
theorem destroy_ok (t : Tab) (n : Nat) : Exec (destroy t) (owned t ++ []) n [] n := by
  unfold destroy
  refine exec_disposeAll t.slots (L' := optIds t.blk) (by simp only [owned]; perm_count) ?_
  have : optFree t.blk = optFree t.blk ++ [] := by simp
  rw [this]
  exact exec_optFree t.blk (L' := []) (by simp) (Exec.done (List.Perm.refl _) (Nat.le_refl _))

end Qentem.HashLedger
