import Qentem.Proofs.TmplParseVarRaw
/-!
# C01 — what a Finder result says about the content (all eleven patterns)

`next c off = ok (o, m)`: the match `m` occupies `[s, o)` with `s + mLen m = o`, `off ≤ s`; no unit
of `[off, s)` is `}`; for `m = 1` the unit at `s` is `}`; for `m ≥ 2` no unit of `[s, o)` is `}`
(the table words contain none).  This is lemma (L1) of the staged `ParseWF` proof: the interior of a
`<loop …>` tag — between the Finder's start offset and the first `>` before the next match — is
free of `}`.
-/
set_option linter.unusedSectionVars false
set_option linter.unusedVariables false
namespace Qentem.Tmpl
open Qentem.Expr (Fault rd Safe)
open Qentem.Generated.Tmpl

/-- number of units of pattern `m` -/
def mLen : Nat → Nat
  | 1 => 1 | 2 => 5 | 3 => 5 | 4 => 6 | 5 => 6 | 6 => 3 | 7 => 5 | 8 => 7 | 9 => 3 | 10 => 5 | 11 => 5
  | _ => 0

theorem mLen_patLen (m : Nat) (h : m ≤ 4) : mLen m = patLen m := by
  have : m = 0 ∨ m = 1 ∨ m = 2 ∨ m = 3 ∨ m = 4 := by omega
  rcases this with h | h | h | h | h <;> subst h <;> rfl

theorem words_no_close : ∀ w ∈ W1.words, ∀ x ∈ w, x ≠ 125 := by decide

/-- only `/loop>` and `/if>` contain a `>` -/
theorem words_no_gt : ∀ wid, wid < 11 → wid ≠ 7 → wid ≠ 9 → ∀ x ∈ W1.words[wid]?.getD [], x ≠ 62 := by decide

theorem matchMiddle_exact (c : List Nat) (wend : Nat) (hw : wend < c.length) :
    ∀ (ws : List Nat) (off : Nat), matchMiddle c wend ws off = .ok wend →
      ∀ i, off ≤ i → i < wend → ∃ x, c[i]? = some x ∧ x ∈ ws := by
  intro ws
  induction ws with
  | nil =>
    intro off h i h1 h2
    simp only [matchMiddle, Except.ok.injEq] at h
    omega
  | cons w ws ih =>
    intro off h i h1 h2
    simp only [matchMiddle] at h
    by_cases hlt : off < wend
    · simp only [hlt, if_true, rd_ok c off (by omega), bind, Except.bind] at h
      by_cases he : c[off] = w
      · simp only [he, if_true] at h
        by_cases hi : i = off
        · subst hi
          exact ⟨w, by rw [List.getElem?_eq_getElem (by omega), he], List.mem_cons_self ..⟩
        · obtain ⟨x, hx, hm⟩ := ih (off + 1) h i (by omega) h2
          exact ⟨x, hx, List.mem_cons_of_mem _ hm⟩
      · simp only [he, if_false, Except.ok.injEq] at h
        omega
    · simp only [hlt, if_false, Except.ok.injEq] at h
      omega

/-- a hit of `tryWords`: where it ends, and the units it covers are not `}` -/
theorem tryWords_facts (c : List Nat) (start : Nat) (hs : start + 8 < 4294967296) :
    ∀ (ids : List Nat) (o m : Nat), (∀ i ∈ ids, W1.wordLengths[i]?.getD 0 ≤ 5) →
      tryWords c start ids = .ok (some (o, m)) →
      m ≠ 0 ∧ m - 1 ∈ ids ∧ o = start + W1.wordLengths[m - 1]?.getD 0 + 1 ∧ o ≤ c.length ∧
      ∀ i, start ≤ i → i < o → ∃ x, c[i]? = some x ∧ x ≠ 125 ∧
        (m - 1 < 11 → m - 1 ≠ 7 → m - 1 ≠ 9 → x ≠ 62) := by
  intro ids
  induction ids with
  | nil => intro o m _ h; simp [tryWords] at h
  | cons wid rest ih =>
    intro o m hl h
    have hwl := hl wid (List.mem_cons_self ..)
    have hmod : (start + W1.wordLengths[wid]?.getD 0) % 4294967296 = start + W1.wordLengths[wid]?.getD 0 :=
      Nat.mod_eq_of_lt (by omega)
    have hrest := fun (hh : tryWords c start rest = .ok (some (o, m))) =>
      (ih o m (fun i hi => hl i (List.mem_cons_of_mem _ hi)) hh)
    simp only [tryWords, List.getD_eq_getElem?_getD, pow32, hmod] at h
    by_cases hw : start + W1.wordLengths[wid]?.getD 0 < c.length
    · simp only [hw, if_true, rd_ok c _ hw, bind, Except.bind] at h
      split at h
      · rename_i hlast
        generalize hmm : matchMiddle c _ _ _ = r at h
        cases r with
        | error e => simp at h
        | ok off =>
          simp only [] at h
          split at h
          · rename_i heq
            simp only [Except.ok.injEq, Option.some.injEq, Prod.mk.injEq] at h
            obtain ⟨h1, h2⟩ := h
            subst h1 h2
            subst heq
            refine ⟨by omega, by simp, by simp, by omega, ?_⟩
            intro i hi1 hi2
            -- the word
            have hword : ∀ x ∈ (W1.words[wid]?.getD []), x ≠ 125 := by
              cases hq : W1.words[wid]? with
              | none => simp
              | some w => simp only [Option.getD_some]; exact words_no_close w (List.mem_of_getElem? hq)
            have hw1 : wid + 1 - 1 = wid := by omega
            by_cases hiw : i < start + W1.wordLengths[wid]?.getD 0
            · obtain ⟨x, hx, hm⟩ := matchMiddle_exact c _ hw _ _ hmm i hi1 hiw
              refine ⟨x, hx, hword x (List.mem_of_mem_take hm), ?_⟩
              rw [hw1]
              intro g1 g2 g3
              exact words_no_gt wid g1 g2 g3 x (List.mem_of_mem_take hm)
            · have hie : i = start + W1.wordLengths[wid]?.getD 0 := by omega
              subst hie
              refine ⟨_, List.getElem?_eq_getElem hw, ?_⟩
              rw [hlast, hw1]
              cases hq : (W1.words[wid]?.getD [])[W1.wordLengths[wid]?.getD 0]? with
              | none => simp [hq]
              | some y =>
                simp only [hq, Option.getD_some]
                exact ⟨hword y (List.mem_of_getElem? hq),
                  fun g1 g2 g3 => words_no_gt wid g1 g2 g3 y (List.mem_of_getElem? hq)⟩
          · obtain ⟨a, b, d, e, g⟩ := hrest h
            exact ⟨a, List.mem_cons_of_mem _ b, d, e, g⟩
      · obtain ⟨a, b, d, e, g⟩ := hrest h
        exact ⟨a, List.mem_cons_of_mem _ b, d, e, g⟩
    · simp only [hw, if_false] at h
      obtain ⟨a, b, d, e, g⟩ := hrest h
      exact ⟨a, List.mem_cons_of_mem _ b, d, e, g⟩

/-- what a Finder result says about the content -/
structure NextFacts (c : List Nat) (off o m : Nat) : Prop where
  le : o ≤ c.length
  id : m ≤ 11
  start : off + mLen m ≤ o
  skipped : ∀ i, off ≤ i → i + mLen m < o → ∀ x, c[i]? = some x → x ≠ 125
  close : m = 1 → c[o - 1]? = some 125
  word : 2 ≤ m → ∀ i, o ≤ i + mLen m → i < o → ∀ x, c[i]? = some x → x ≠ 125
  nogt : 2 ≤ m → m ≠ 8 → m ≠ 10 → ∀ i, o ≤ i + mLen m → i < o → ∀ x, c[i]? = some x → x ≠ 62

theorem group_lens (g : Nat) (hg : g = 0 ∨ g = 1) :
    ∀ i ∈ W1.groups[g]?.getD [], W1.wordLengths[i]?.getD 0 ≤ 5 ∧ 1 ≤ i ∧ i ≤ 10 ∧
      W1.wordLengths[i]?.getD 0 + 2 = mLen (i + 1) := by
  rcases hg with h | h <;> subst h <;> decide

theorem nextF_facts (c : List Nat) (hn : c.length + 16 < 4294967296) : ∀ (f off o m : Nat),
    off ≤ c.length → nextF c f off = .ok (o, m) → NextFacts c off o m := by
  intro f
  induction f with
  | zero =>
    intro off o m hoff h
    simp only [nextF, Except.ok.injEq, Prod.mk.injEq] at h
    obtain ⟨h1, h2⟩ := h; subst h1 h2
    exact ⟨hoff, by omega, by simp [mLen], by intro i h1 h2; simp [mLen] at h2; omega, (by intro h; cases h),
      (by intro h; omega), (by intro h; omega)⟩
  | succ f ih =>
    intro off o m hoff h
    simp only [nextF] at h
    by_cases hlt : off < c.length
    · simp only [hlt, if_true, rd_ok c off hlt, bind, Except.bind] at h
      have hskip : ∀ (hne : c[off] ≠ 125), nextF c f (off + 1) = .ok (o, m) → NextFacts c off o m := by
        intro hne hh
        have r := ih (off + 1) o m (by omega) hh
        refine ⟨r.le, r.id, by have := r.start; omega, ?_, r.close, r.word, r.nogt⟩
        intro i h1 h2 x hx
        by_cases hi : i = off
        · subst hi
          rw [List.getElem?_eq_getElem hlt] at hx
          cases hx; exact hne
        · exact r.skipped i (by omega) h2 x hx
      by_cases hid : firstCharID c[off] < W1.firstCharsCount
      · simp only [hid, if_true, List.getD_eq_getElem?_getD] at h
        have hfc : firstCharID c[off] = 0 ∨ firstCharID c[off] = 1 := by
          have : W1.firstCharsCount = 2 := by decide
          omega
        have hch : c[off] ≠ 125 := by
          intro h125
          rw [h125] at hfc
          revert hfc; decide
        generalize htw : tryWords c (off + 1) _ = tw at h
        cases tw with
        | error e => simp at h
        | ok r =>
          simp only [] at h
          cases r with
          | none => exact hskip hch h
          | some p =>
            obtain ⟨o', m'⟩ := p
            simp only [Except.ok.injEq, Prod.mk.injEq] at h
            obtain ⟨h1, h2⟩ := h
            subst h1 h2
            have hgl := group_lens _ hfc
            obtain ⟨a, b, d, e, g⟩ := tryWords_facts c (off + 1) (by omega) _ o' m'
              (fun i hi => (hgl i hi).1) htw
            obtain ⟨_, g1, g2, g3⟩ := hgl (m' - 1) b
            have hm1 : m' - 1 + 1 = m' := by omega
            rw [hm1] at g3
            have hch62 : c[off] ≠ 62 := by
              intro h62
              rw [h62] at hfc
              revert hfc; decide
            refine ⟨e, by omega, by omega, ?_, (by intro h1; omega), ?_, ?_⟩
            · intro i h1 h2; omega
            · intro _ i h1 h2 x hx
              by_cases hi : i = off
              · subst hi
                rw [List.getElem?_eq_getElem hlt] at hx
                cases hx; exact hch
              · obtain ⟨y, hy, hy125, _⟩ := g i (by omega) h2
                rw [hy] at hx; cases hx; exact hy125
            · intro _ hn8 hn10 i h1 h2 x hx
              by_cases hi : i = off
              · subst hi
                rw [List.getElem?_eq_getElem hlt] at hx
                cases hx; exact hch62
              · obtain ⟨y, hy, _, hy62⟩ := g i (by omega) h2
                rw [hy] at hx; cases hx
                exact hy62 (by omega) (by omega) (by omega)
      · simp only [hid, if_false] at h
        by_cases hsc : c[off] = W1.singleChar
        · simp only [hsc, if_true] at h
          simp only [Except.ok.injEq, Prod.mk.injEq] at h
          obtain ⟨h1, h2⟩ := h; subst h1 h2
          refine ⟨by omega, by omega, by simp [mLen], ?_, ?_, (by intro h; omega), (by intro h; omega)⟩
          · intro i h1 h2; simp [mLen] at h2; omega
          · intro _
            simp only [Nat.add_sub_cancel]
            rw [List.getElem?_eq_getElem hlt, hsc]; rfl
        · simp only [hsc, if_false] at h
          exact hskip (by intro h125; apply hsc; rw [h125]; rfl) h
    · simp only [hlt, if_false, Except.ok.injEq, Prod.mk.injEq] at h
      obtain ⟨h1, h2⟩ := h; subst h1 h2
      exact ⟨hoff, by omega, by simp [mLen], by intro i h1 h2; simp [mLen] at h2; omega, (by intro h; cases h),
        (by intro h; omega), (by intro h; omega)⟩

theorem next_facts (c : List Nat) (hn : c.length + 16 < 4294967296) (off o m : Nat)
    (hoff : off ≤ c.length) (h : next c off = .ok (o, m)) : NextFacts c off o m :=
  nextF_facts c hn _ off o m hoff h

end Qentem.Tmpl
