import Qentem.Proofs.StrToNumTail
import Qentem.Proofs.StrToNumFrac
/-! C09 helper lemmas: the mantissa `d₁ digits . 0` (a single zero after the dot, then no digit): the scan stops
**at** the zero (the "just a zero at the end" look-ahead), the tail loop skips it. -/
set_option linter.unusedSimpArgs false
namespace Qentem.StrToNum
open Qentem.Round

theorem afterSign_dotzero (c : List Nat) (e : Nat) (neg : Bool) (off d1 : Nat) (xs : List Nat) (he : e < 2 ^ 32)
    (h1 : isNonZeroDigit d1 = true) (hxs : AllDigits xs) (hlen : xs.length ≤ 17)
    (hu : unitsAt c e off (d1 :: xs ++ [46, 48]))
    (hstop : off + 1 + xs.length + 2 = e ∨ ∃ x, rd c e (off + 1 + xs.length + 2) = some x ∧ isDigit x = false) :
    afterSign c e neg off =
      finishReal c e neg (decVal (d1 :: xs)) (off + 1 + xs.length + 1) (off + 1 + xs.length + 1) off false true
        (off + 1 + xs.length) := by
  have hu2 := (unitsAt_append c e (d1 :: xs) [46, 48] off).1 hu
  have hd1xs : unitsAt c e off (d1 :: xs) := hu2.1
  have hP : rd c e (off + 1 + xs.length) = some 46 := by
    have := hu2.2.1; simp only [List.length_cons] at this
    rw [show off + 1 + xs.length = off + (xs.length + 1) by omega]; exact this
  have hZ : rd c e (off + 1 + xs.length + 1) = some 48 := by
    have := hu2.2.2.1; simp only [List.length_cons] at this
    rw [show off + 1 + xs.length + 1 = off + (xs.length + 1) + 1 by omega]; exact this
  have hoff : off < e := rd_lt hd1xs.1
  have hZlt := rd_lt hZ
  have hd1dig := isNonZeroDigit_isDigit h1
  have hWeq := windowEnd_eq e off he hoff
  have hWe : windowEnd e off ≤ e := (windowEnd_bounds e off he hoff).2
  have hWdot : off + 1 + xs.length < windowEnd e off := by rw [hWeq]; split <;> omega
  have hall : AllDigits (d1 :: xs) := by
    intro y hy
    rcases List.mem_cons.1 hy with h | h
    · subst h; exact hd1dig
    · exact hxs y h
  have hv64 : decVal (d1 :: xs) < 2 ^ 64 := by
    have := decVal_lt_pow _ hall
    exact Nat.lt_of_lt_of_le this (Nat.le_trans (Nat.pow_le_pow_right (by decide) (by simp; omega)) (by decide : (10 : Nat) ^ 19 ≤ 2 ^ 64))
  have hfold : xs.foldl pushDigit (d1 - 48) = decVal (d1 :: xs) := by
    rw [foldl_pushDigit xs (d1 - 48) (by rw [decVal_cons] at hv64; exact hv64), decVal_cons]
  rw [afterSign]
  simp only [hoff, if_true, hd1xs.1, h1]
  generalize windowEnd e off = W at hWdot hWe ⊢
  obtain ⟨dd, hsc, hdd⟩ := scanDigits_stop c e xs (W - (off + 1)) (off + 1) (d1 - 48) d1 hxs hd1xs.2 (by omega)
    (Or.inr ⟨46, hP, by decide⟩)
  have hdd46 : dd = 46 := by
    rcases hdd with h | ⟨h, _⟩
    · exfalso
      rw [scanDigits_run c e xs (W - (off + 1)) (off + 1) (d1 - 48) d1 hxs hd1xs.2 (by omega)] at hsc
      obtain ⟨j, hj⟩ : ∃ j, W - (off + 1) - xs.length = j + 1 := ⟨W - (off + 1) - xs.length - 1, by omega⟩
      rw [hj, scanDigits, hP] at hsc
      simp [isDigit] at hsc
      rw [h] at hsc
      by_cases hnil : xs = []
      · subst hnil; simp at hsc; subst hsc; simp [isDigit] at hd1dig
      · have := getLast_digit xs d1 hxs hnil
        rw [← hsc] at this; simp [isDigit] at this
    · rw [hP] at h; exact (Option.some.inj h).symm
  subst hdd46
  rw [iter1]
  simp only [Bool.false_eq_true, if_false, show off + 1 < e by have := rd_lt hP; omega, if_true, hsc, hfold]
  by_cases hw : off + 1 + xs.length + 1 < W
  · rw [if_pos hw]
    simp only [hZ]
    rw [if_neg (by decide)]
    simp only [true_and]
    by_cases hw2 : off + 1 + xs.length + 1 + 1 < W
    · rw [if_pos hw2]
      rcases hstop with h | ⟨x, hx, hxd⟩
      · omega
      · rw [show off + 1 + xs.length + 1 + 1 = off + 1 + xs.length + 2 by omega]
        simp only [hx]
        rw [if_neg (by simp [hxd])]
        exact afterScan_mk_real c e neg off false _ _ true _
    · rw [if_neg hw2]
      exact afterScan_mk_real c e neg off false _ _ true _
  · rw [if_neg hw]
    exact afterScan_mk_real c e neg off false _ _ true _

end Qentem.StrToNum
