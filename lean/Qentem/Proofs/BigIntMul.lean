import Qentem.Proofs.BigIntAdd
/-! `Multiply` and `Divide` by a word, relative to the exactness of the double-word helpers. -/
namespace Qentem.BigInt

/-- The double-word multiply helper of configuration `c` is exact. -/
def MulOK (c : Cfg) : Prop :=
  ∀ a b, a < 2 ^ c.W → b < 2 ^ c.W →
    (dmul c a b).1 * 2 ^ c.W + (dmul c a b).2 = a * b ∧ (dmul c a b).2 < 2 ^ c.W

/-- The double-word divide helper of configuration `c` is exact under its precondition `hi < d`
(with the `initial_shift` that `Divide` passes). -/
def DivOK (c : Cfg) : Prop :=
  ∀ hi lo d, 0 < d → d < 2 ^ c.W → hi < d → lo < 2 ^ c.W →
    ∃ r q, ddiv c hi lo d (if c.hand then (c.W - 1) - d.log2 else 0) = .ok (r, q) ∧
      q * d + r = hi * 2 ^ c.W + lo ∧ r < d ∧ q < 2 ^ c.W

theorem valW_take_congr (W : Nat) : ∀ (i : Nat) (a b : List Nat), i ≤ a.length → i ≤ b.length →
    (∀ k, k < i → a.getD k 0 = b.getD k 0) → valW W (a.take i) = valW W (b.take i)
  | 0, _, _, _, _, _ => by simp
  | i + 1, x :: a, y :: b, ha, hb, h => by
    have h0 : x = y := by simpa using h 0 (Nat.succ_pos _)
    have := valW_take_congr W i a b (by simpa using ha) (by simpa using hb)
      (fun k hk => by simpa using h (k + 1) (by omega))
    simp [List.take_succ_cons, valW, h0, this]
  | i + 1, [], _, ha, _, _ => by simp at ha
  | i + 1, _ :: _, [], _, hb, _ => by simp at hb

theorem valW_take_succ (W : Nat) (ws : List Nat) (i : Nat) (h : i < ws.length) :
    valW W (ws.take (i + 1)) = valW W (ws.take i) + 2 ^ (W * i) * ws[i] := by
  rw [List.take_succ_eq_append_getElem h, valW_append, List.length_take, Nat.min_eq_left (Nat.le_of_lt h)]
  simp [valW]

/-- One iteration of `Multiply`'s loop at word `i`. -/
theorem mulStep_spec {c : Cfg} (hm : MulOK c) (m : Nat) (hmB : m < 2 ^ c.W) (i : Nat) (s : Big)
    (h : WInv c.W s) (hi : i ≤ s.idx)
    (hfit : m * valW c.W (s.words.take (i + 1)) + 2 ^ (c.W * (i + 1)) * valW c.W (s.words.drop (i + 1))
      < 2 ^ (c.W * s.words.length)) :
    ∃ s2, add c.W ⟨s.words.set i (dmul c s.words[i]! m).2, s.idx⟩ (dmul c s.words[i]! m).1 (i + 1) = .ok s2 ∧
      WInv c.W s2 ∧ s2.words.length = s.words.length ∧ s.idx ≤ s2.idx ∧
      m * valW c.W (s.words.take (i + 1)) + 2 ^ (c.W * (i + 1)) * valW c.W (s.words.drop (i + 1))
        = m * valW c.W (s2.words.take i) + 2 ^ (c.W * i) * valW c.W (s2.words.drop i) := by
  have hlt : i < s.words.length := Nat.lt_of_le_of_lt hi h.idx_lt
  have hget : s.words[i]! = s.words[i] := getElem!_pos s.words i hlt
  rw [hget]
  have hwB : s.words[i] < 2 ^ c.W := h.bound.getElem hlt
  obtain ⟨hE3, hloB⟩ := hm s.words[i] m hwB hmB
  have hsplit := valW_split c.W s.words i (Nat.le_of_lt hlt)
  have hdrop := valW_drop_cons c.W s.words i hlt
  have htake := valW_take_succ c.W s.words i hlt
  have hset := valW_set c.W s.words i (dmul c s.words[i] m).2 hlt
  have hpow := pow_mul_succ c.W i
  have h1 : WInv c.W ⟨s.words.set i (dmul c s.words[i] m).2, s.idx⟩ := by
    refine ⟨h.wpos, h.bound.set _ hloB, by simpa using h.idx_lt, ?_⟩
    intro k hk
    have hk' : s.idx + 1 ≤ k := hk
    simp only
    rw [getD_set_ne (by omega)]; exact h.above k hk
  have hhiB : (dmul c s.words[i] m).1 < 2 ^ c.W := by
    by_contra hc
    have : 2 ^ c.W * 2 ^ c.W ≤ (dmul c s.words[i] m).1 * 2 ^ c.W := Nat.mul_le_mul_right _ (by omega)
    have : s.words[i] * m < 2 ^ c.W * 2 ^ c.W := Nat.mul_lt_mul'' hwB hmB
    omega
  generalize hHI : (dmul c s.words[i] m).1 = HI at *
  generalize hLO : (dmul c s.words[i] m).2 = LO at *
  generalize hA : valW c.W (s.words.take i) = A at *
  generalize hH : valW c.W (s.words.drop (i + 1)) = H at *
  generalize hP : 2 ^ (c.W * i) = P at *
  generalize hB : 2 ^ c.W = B at *
  generalize hw : s.words[i] = w at *
  have hV1 : valW c.W (s.words.set i LO) + HI * 2 ^ (c.W * (i + 1)) = A + m * (P * w) + 2 ^ (c.W * (i + 1)) * H := by
    have e3 : (HI * B + LO) * P = (w * m) * P := by rw [hE3]
    rw [hpow]
    rw [hdrop] at hsplit
    linarith [e3, hsplit, hset]
  have hfit1 : Big.val c.W ⟨s.words.set i LO, s.idx⟩ + HI * 2 ^ (c.W * (i + 1))
      < 2 ^ (c.W * (s.words.set i LO).length) := by
    by_cases hz : HI = 0
    · rw [hz]; simpa using h1.val_lt_total
    · have hm1 : 1 ≤ m := by
        rcases Nat.eq_zero_or_pos m with h0 | h0
        · subst h0; simp at hE3; omega
        · exact h0
      have : A ≤ m * A := Nat.le_mul_of_pos_left _ hm1
      unfold Big.val
      simp only [List.length_set]
      rw [hV1]
      rw [htake] at hfit
      linarith [hfit, this]
  obtain ⟨s2, hadd, hw2, hl2, hv2, hidx2, hfr2, _⟩ :=
    add_spec (W := c.W) ⟨s.words.set i LO, s.idx⟩ HI (i + 1) h1 (by rw [hB]; exact hhiB)
      (by simp; omega) hfit1
  have hl2' : s2.words.length = s.words.length := by simpa using hl2
  have hv2' : s2.val c.W = A + m * (P * w) + 2 ^ (c.W * (i + 1)) * H := by
    rw [hv2]; exact hV1
  have hA2 : valW c.W (s2.words.take i) = A := by
    rw [← hA]
    apply valW_take_congr _ _ _ _ (by omega) (by omega)
    intro k hk
    rw [hfr2 k (by omega)]
    exact getD_set_ne (by omega)
  have hs2 := valW_split c.W s2.words i (by omega)
  refine ⟨s2, hadd, hw2, hl2', hidx2, ?_⟩
  unfold Big.val at hv2'
  rw [hA2] at hs2 ⊢
  rw [hP] at hs2
  rw [hpow] at hv2' ⊢
  rw [htake]
  have e : m * (A + P * w) = m * A + m * (P * w) := by ring
  linarith [hs2, hv2', e]

theorem mulFrom_spec {c : Cfg} (hm : MulOK c) (m : Nat) (hmB : m < 2 ^ c.W) : ∀ (i : Nat) (s : Big),
    WInv c.W s → i ≤ s.idx →
    m * valW c.W (s.words.take (i + 1)) + 2 ^ (c.W * (i + 1)) * valW c.W (s.words.drop (i + 1))
      < 2 ^ (c.W * s.words.length) →
    ∃ s', mulFrom c m i s = .ok s' ∧ WInv c.W s' ∧ s'.words.length = s.words.length ∧
      s'.val c.W = m * valW c.W (s.words.take (i + 1)) + 2 ^ (c.W * (i + 1)) * valW c.W (s.words.drop (i + 1))
  | 0, s, h, hi, hfit => by
    have hlt : 0 < s.words.length := Nat.lt_of_le_of_lt hi h.idx_lt
    obtain ⟨s2, hadd, hw2, hl2, _, hv2⟩ := mulStep_spec hm m hmB 0 s h hi hfit
    rw [getElem!_pos s.words 0 hlt] at hadd
    unfold mulFrom
    rw [rd_ok hlt]
    simp only [bind, Except.bind]
    rw [wr_ok _ hlt]
    simp only []
    rw [hadd]
    refine ⟨s2, rfl, hw2, hl2, ?_⟩
    rw [hv2]; simp [valW, Big.val]
  | j + 1, s, h, hi, hfit => by
    have hlt : j + 1 < s.words.length := Nat.lt_of_le_of_lt hi h.idx_lt
    obtain ⟨s2, hadd, hw2, hl2, hidx2, hv2⟩ := mulStep_spec hm m hmB (j + 1) s h hi hfit
    rw [getElem!_pos s.words (j + 1) hlt] at hadd
    obtain ⟨s', hrun, hw', hl', hv'⟩ := mulFrom_spec hm m hmB j s2 hw2 (by omega)
      (by rw [← hv2, hl2]; exact hfit)
    unfold mulFrom
    rw [rd_ok hlt]
    simp only [bind, Except.bind]
    rw [wr_ok _ hlt]
    simp only []
    rw [hadd]
    simp only []
    exact ⟨s', hrun, hw', by omega, by rw [hv', ← hv2]⟩

/-- `Multiply(m)` when the exact product fits. -/
theorem multiply_spec {c : Cfg} (hm : MulOK c) (s : Big) (m : Nat) (h : Inv c.W s) (hmB : m < 2 ^ c.W)
    (hfit : s.val c.W * m < 2 ^ (c.W * s.words.length)) :
    ∃ s', multiply c s m = .ok s' ∧ Inv c.W s' ∧ s'.words.length = s.words.length ∧
      s'.val c.W = s.val c.W * m := by
  have hz : valW c.W (s.words.drop (s.idx + 1)) = 0 :=
    valW_eq_zero_of_zeroFrom0 _ _ (zeroFrom_drop h.above)
  have hv : s.val c.W = valW c.W (s.words.take (s.idx + 1)) := by
    unfold Big.val
    rw [valW_split c.W s.words (s.idx + 1) h.idx_lt, hz]; simp
  obtain ⟨s1, hrun, hw1, hl1, hv1⟩ := mulFrom_spec hm m hmB s.idx s h.toWInv (Nat.le_refl _)
    (by rw [hz, ← hv, Nat.mul_comm]; simpa using hfit)
  obtain ⟨j, htrim, hinv, _⟩ := trim_inv s1 hw1
  unfold multiply
  rw [hrun]
  simp only [bind, Except.bind]
  rw [htrim]
  refine ⟨_, rfl, hinv, hl1, ?_⟩
  show valW c.W s1.words = _
  have : s1.val c.W = valW c.W s1.words := rfl
  rw [← this, hv1, hz, ← hv, Nat.mul_comm]; simp

end Qentem.BigInt
