import Qentem.Proofs.TmplParseLoop
/-!
# C01 — `ParseWF` for every content

The invariant of `parse`'s main loop with all four container kinds.  `StackG` describes the stack of
open containers together with a flag `g` per level: "the list being filled above this point is
clean" (ordered, every tag well-formed, shorter than its end offset).  Lists stop being clean in
exactly one way: a `}` that arrives while a `<loop>` / `<if>` opened inside a `{svar:` / `{if` is
still open closes that block container prematurely (`closeFrame`, end offset 0).  From then on the
enclosing inline container can never be closed (`isChild` is false, and only a new inline container
sets it again — above), so everything above it is dropped by the final clean-up; the invariant keeps
the lists below it frozen and clean.  Safety (no out-of-range read) is shown for clean and unclean
levels alike.
-/
set_option linter.unusedSectionVars false
set_option linter.unusedVariables false
namespace Qentem.Tmpl
open Qentem.Expr (Fault rd Safe ScanCfg RealLike VarRef)
open Qentem.Generated.Tmpl

variable {R : Type}

/-! ## lists -/

/-- a clean list: ordered, well-formed, and not longer than its end offset -/
def ListOk (n lv lo b : Nat) (l : List (Tag R)) : Prop := wfTags n lv lo b l = true ∧ l.length ≤ b

theorem ListOk.nil {n lv lo b : Nat} (h1 : lo ≤ b) (h2 : b ≤ n) : ListOk n lv lo b ([] : List (Tag R)) :=
  ⟨by simp [wfTags]; exact ⟨h1, h2⟩, Nat.zero_le _⟩

theorem ListOk.snoc {n lv lo b b' : Nat} {l : List (Tag R)} (h : ListOk n lv lo b l) (t : Tag R) (s e : Nat)
    (ht : wfTag n lv t = some (s, e)) (h1 : b ≤ s) (h2 : e ≤ b') (h3 : b' ≤ n) (h4 : b < b') :
    ListOk n lv lo b' (l ++ [t]) :=
  ⟨wfTags_snoc _ _ _ _ _ ht _ _ _ _ h.1 h1 h2 h3, by simp; have := h.2; omega⟩

theorem ListOk.mono {n lv lo b b' : Nat} {l : List (Tag R)} (h : ListOk n lv lo b l) (h1 : b ≤ b') (h2 : b' ≤ n) :
    ListOk n lv lo b' l :=
  ⟨wfTags_mono _ _ _ _ _ _ h.1 h1 h2, by have := h.2; omega⟩

theorem wfEach_of_wfTags (n lv : Nat) : ∀ (l : List (Tag R)) (lo b : Nat),
    wfTags n lv lo b l = true → wfEach n lv l = true := by
  intro l
  induction l with
  | nil => intro lo b _; simp [wfEach]
  | cons t rest ih =>
    intro lo b h
    simp only [wfTags] at h
    cases hw : wfTag n lv t with
    | none => simp [hw] at h
    | some p =>
      obtain ⟨s, e⟩ := p
      simp only [hw, Bool.and_eq_true, decide_eq_true_eq] at h
      simp only [wfEach, Bool.and_eq_true]
      refine ⟨?_, ih _ _ h.2⟩
      cases t <;> simp [hw]

theorem wfTags_dropLast (n lv : Nat) : ∀ (l : List (Tag R)) (lo b : Nat),
    wfTags n lv lo b l = true → ∃ b', b' ≤ b ∧ wfTags n lv lo b' l.dropLast = true := by
  intro l
  induction l with
  | nil => intro lo b h; exact ⟨b, Nat.le_refl _, by simpa using h⟩
  | cons t rest ih =>
    intro lo b h
    simp only [wfTags] at h
    cases hw : wfTag n lv t with
    | none => simp [hw] at h
    | some p =>
      obtain ⟨s, e⟩ := p
      simp only [hw, Bool.and_eq_true, decide_eq_true_eq] at h
      have hle := wfTag_le n lv t s e hw
      have hb := wfTags_bounds _ _ _ _ _ h.2
      have heb := wfTags_le _ _ _ _ _ h.2
      cases rest with
      | nil =>
        refine ⟨lo, by omega, ?_⟩
        simp [List.dropLast, wfTags]; omega
      | cons t2 r2 =>
        obtain ⟨b', hb', hw'⟩ := ih e b h.2
        refine ⟨b', hb', ?_⟩
        simp only [List.dropLast_cons₂, wfTags, hw, Bool.and_eq_true, decide_eq_true_eq]
        exact ⟨h.1, hw'⟩

theorem ListOk.dropLast {n lv lo b : Nat} {l : List (Tag R)} (h : ListOk n lv lo b l) :
    ListOk n lv lo b l.dropLast := by
  obtain ⟨b', hb', hw⟩ := wfTags_dropLast n lv l lo b h.1
  exact ⟨wfTags_mono _ _ _ _ _ _ hw hb' (wfTags_bounds _ _ _ _ _ h.1), by simp; have := h.2; omega⟩


theorem wfTags_all_ge (n lv : Nat) : ∀ (l : List (Tag R)) (lo b : Nat),
    wfTags n lv lo b l = true → ∀ t ∈ l, ∀ s e, wfTag n lv t = some (s, e) → lo ≤ s := by
  intro l
  induction l with
  | nil => intro lo b _ t ht; cases ht
  | cons x rest ih =>
    intro lo b h t ht s e hse
    simp only [wfTags] at h
    cases hw : wfTag n lv x with
    | none => simp [hw] at h
    | some p =>
      obtain ⟨sx, ex⟩ := p
      simp only [hw, Bool.and_eq_true, decide_eq_true_eq] at h
      rcases List.mem_cons.mp ht with heq | hmem
      · subst heq; rw [hw] at hse; cases hse; exact h.1
      · have := ih ex b h.2 t hmem s e hse
        have := wfTag_le n lv x sx ex hw
        omega

theorem wfTags_drop (n lv : Nat) : ∀ (k : Nat) (l : List (Tag R)) (lo b : Nat),
    wfTags n lv lo b l = true → ∃ lo', wfTags n lv lo' b (l.drop k) = true := by
  intro k
  induction k with
  | zero => intro l lo b h; exact ⟨lo, by simpa using h⟩
  | succ k ih =>
    intro l lo b h
    cases l with
    | nil => exact ⟨lo, by simpa using h⟩
    | cons x rest =>
      simp only [wfTags] at h
      cases hw : wfTag n lv x with
      | none => simp [hw] at h
      | some p =>
        obtain ⟨sx, ex⟩ := p
        simp only [hw, Bool.and_eq_true, decide_eq_true_eq] at h
        simpa using ih rest ex b h.2

/-- the first `cnt` tags of an ordered list, all inside `[P, Q]`, are well-formed inside `[P, Q]` -/
theorem wfTags_take_in (n lv Q : Nat) (hQ : Q ≤ n) : ∀ (l : List (Tag R)) (L b cnt P : Nat),
    wfTags n lv L b l = true →
    (∀ j, j < cnt → ∀ t, l[j]? = some t → ∀ s e, wfTag n lv t = some (s, e) → P ≤ s ∧ e ≤ Q) →
    P ≤ Q → wfTags n lv P Q (l.take cnt) = true := by
  intro l
  induction l with
  | nil => intro L b cnt P _ _ hPQ; simp [wfTags]; exact ⟨hPQ, hQ⟩
  | cons x rest ih =>
    intro L b cnt P h hin hPQ
    cases cnt with
    | zero => simp [wfTags]; exact ⟨hPQ, hQ⟩
    | succ cnt =>
      simp only [wfTags] at h
      cases hw : wfTag n lv x with
      | none => simp [hw] at h
      | some p =>
        obtain ⟨sx, ex⟩ := p
        simp only [hw, Bool.and_eq_true, decide_eq_true_eq] at h
        have h0 := hin 0 (by omega) x (by simp) sx ex hw
        simp only [List.take_succ_cons, wfTags, hw, Bool.and_eq_true, decide_eq_true_eq]
        refine ⟨h0.1, ih ex b cnt ex h.2 ?_ h0.2⟩
        intro j hj t ht s e hse
        have h1 := hin (j + 1) (by omega) t (by simpa using ht) s e hse
        have h2 := wfTags_all_ge n lv rest ex b h.2 t (List.mem_of_getElem? ht) s e hse
        exact ⟨h2, h1.2⟩

theorem allRole_get (f : IifFields) (id : Nat) : ∀ (sub : List (Tag R)) (i0 j : Nat) (t : Tag R),
    allRole f id i0 sub = true → sub[j]? = some t → insideRole f id (i0 + j) t = true := by
  intro sub
  induction sub with
  | nil => intro i0 j t _ h; simp at h
  | cons x rest ih =>
    intro i0 j t h hj
    simp only [allRole, Bool.and_eq_true] at h
    cases j with
    | zero => simp at hj; subst hj; simpa using h.1
    | succ j =>
      simp at hj
      have := ih (i0 + 1) j t h.2 hj
      rwa [show i0 + 1 + j = i0 + (j + 1) by omega] at this

/-- a well-formed sub tag that passed the role check lies inside the value it is rendered with -/
theorem insideRole_bounds (n lv : Nat) (f : IifFields) (id i : Nat) (t : Tag R) (s e : Nat)
    (hw : wfTag n lv t = some (s, e)) (hr : insideRole f id i t = true) :
    (((i < id) ↔ (f.trueOff < f.falseOff)) → f.off + f.trueOff ≤ s ∧ e ≤ f.off + f.trueOff + f.trueLen) ∧
    (¬ ((i < id) ↔ (f.trueOff < f.falseOff)) → f.off + f.falseOff ≤ s ∧ e ≤ f.off + f.falseOff + f.falseLen) := by
  have h5 : W1.variablePrefixLength = 5 := by decide
  have h5r : W1.rawVariablePrefixLength = 5 := by decide
  have key : ∀ s' e', subTagRange t = some (s', e') → s' = s ∧ e' = e := by
    intro s' e' hst
    cases t with
    | var v =>
      simp only [wfTag, Option.ite_none_right_eq_some, Option.some.injEq, Prod.mk.injEq] at hw
      simp only [subTagRange, Option.some.injEq, Prod.mk.injEq] at hst
      omega
    | raw v =>
      simp only [wfTag, Option.ite_none_right_eq_some, Option.some.injEq, Prod.mk.injEq] at hw
      simp only [subTagRange, Option.some.injEq, Prod.mk.injEq] at hst
      omega
    | math ex off endOff =>
      simp only [wfTag, Option.ite_none_right_eq_some, Option.some.injEq, Prod.mk.injEq] at hw
      simp only [subTagRange, Option.some.injEq, Prod.mk.injEq] at hst
      omega
    | svar _ _ _ _ => simp [subTagRange] at hst
    | iif _ _ _ => simp [subTagRange] at hst
    | loop _ _ => simp [subTagRange] at hst
    | ifT _ _ _ => simp [subTagRange] at hst
  simp only [insideRole] at hr
  cases hst : subTagRange t with
  | none => simp [hst] at hr
  | some p =>
    obtain ⟨s', e'⟩ := p
    obtain ⟨rfl, rfl⟩ := key s' e' hst
    simp only [hst, Bool.and_eq_true, decide_eq_true_eq] at hr
    constructor
    · intro hiff
      have : (decide (i < id) == decide (f.trueOff < f.falseOff)) = true := by
        simp only [beq_iff_eq, decide_eq_decide]; exact hiff
      simp only [this, if_true, Bool.and_eq_true, decide_eq_true_eq] at hr
      omega
    · intro hiff
      have : (decide (i < id) == decide (f.trueOff < f.falseOff)) = false := by
        simp only [beq_eq_false_iff_ne, ne_eq, decide_eq_decide]; exact hiff
      simp only [this, Bool.false_eq_true, if_false, Bool.and_eq_true, decide_eq_true_eq] at hr
      omega

theorem startIdScan_le (F : Nat) : ∀ (sub : List (Tag R)) (i : Nat),
    (startIdScan F sub i).1 ≤ i + sub.length := by
  intro sub
  induction sub with
  | nil => intro i; simp [startIdScan]
  | cons x rest ih =>
    intro i
    simp only [startIdScan]
    cases subTagOffset x with
    | none => simp
    | some o =>
      simp only []
      split
      · simp
      · have := ih (i + 1); simp only [List.length_cons]; omega


/-! ## the stack of open containers -/

def refOf (f : LoopFields) : LoopRef := ⟨f.off + f.valueOff, f.valueLen, f.level⟩

/-- what every open `<loop …>` record satisfies (needed for safety: `ChainOk`) -/
structure OpenSafe (c : List Nat) (f : LoopFields) : Prop where
  value : f.off + f.valueOff + f.valueLen ≤ c.length
  clean : ∀ i, i < f.valueLen → ∀ x, c[f.off + f.valueOff + i]? = some x → ¬ isStop x

/-- … and what it satisfies besides when the list that will contain it is clean -/
structure OpenWf (c : List Nat) (lvP : Nat) (f : LoopFields) : Prop where
  set : wfVar c.length lvP f.set = true
  group : f.off + f.groupOff + f.groupLen ≤ c.length
  content : f.off + f.contentOff ≤ c.length

/-- the fields of an inline-if record that survive a re-entry (`repush`) -/
def IifKeep (n : Nat) (f : IifFields) : Prop :=
  f.off + f.falseOff + f.falseLen ≤ n ∧ f.off + f.trueLen ≤ n

/-- `StackG c stack g k lv lo chain`: `g` = the list filled above this stack is clean; `k` = there is an
inline container and the topmost one is not a boundary (clean below, unclean above); `lv`, `lo`,
`chain` = level, start offset and loop chain of that list when clean. -/
inductive StackG (c : List Nat) : List (Frame R) → Bool → Bool → Nat → Nat → List LoopRef → Prop
  | nil : StackG c [] true false 0 0 []
  | loop (pre : List (Tag R)) (f : LoopFields) (pc : List LoopRef) (rest : List (Frame R))
      (g k : Bool) (lvP loP : Nat) (chain : List LoopRef) :
      StackG c rest g k lvP loP chain → OpenSafe c f → ChainOk c pc →
      (g = true → pc = chain ∧ OpenWf c lvP f ∧ ∃ b, ListOk c.length lvP loP b pre ∧ b ≤ f.off) →
      StackG c (.loop pre f pc :: rest) g k (max lvP (f.level + 1)) (f.off + f.contentOff) (refOf f :: chain)
  | ifT (pre : List (Tag R)) (done : List (IfCase R)) (cur : List (Qentem.Expr.Item R)) (curOff off : Nat)
      (rest : List (Frame R)) (g k : Bool) (lvP loP : Nat) (chain : List LoopRef) :
      StackG c rest g k lvP loP chain →
      (g = true → wfCases c.length lvP done = true ∧ wfItemVars c.length lvP cur = true ∧ off ≤ curOff ∧
        curOff ≤ c.length ∧ ∃ b, ListOk c.length lvP loP b pre ∧ b ≤ off) →
      StackG c (.ifT pre done cur curOff off :: rest) g k lvP curOff chain
  | svar (pre : List (Tag R)) (v : VarRef) (off : Nat) (rest : List (Frame R)) (g gOut k : Bool)
      (lvP loP : Nat) (chain : List LoopRef) :
      StackG c rest g k lvP loP chain → (gOut = true → g = true) →
      (g = true → wfVar c.length lvP v = true ∧ v.idLen = 0 ∧ ∃ b, ListOk c.length lvP loP b pre ∧ b ≤ off) →
      StackG c (.svar pre v off :: rest) gOut (gOut == g) lvP off chain
  | iif (pre : List (Tag R)) (cs : List (Qentem.Expr.Item R)) (f : IifFields) (rest : List (Frame R))
      (g gOut k : Bool) (lvP loP : Nat) (chain : List LoopRef) :
      StackG c rest g k lvP loP chain → (gOut = true → g = true) →
      (g = true → wfItemVars c.length lvP cs = true ∧ IifKeep c.length f ∧
        ∃ b, ListOk c.length lvP loP b pre ∧ b ≤ f.off) →
      StackG c (.iif pre cs f :: rest) gOut (gOut == g) lvP f.off chain

theorem StackG.levels {c : List Nat} {stack : List (Frame R)} {g k : Bool} {lv lo : Nat} {chain : List LoopRef}
    (h : StackG c stack g k lv lo chain) : ∀ l ∈ chain, l.level < lv := by
  induction h with
  | nil => intro l hl; cases hl
  | loop pre f pc rest g k lvP loP chain _ _ _ _ ih =>
    intro l hl
    rcases List.mem_cons.mp hl with h | h
    · subst h; simp only [refOf]; omega
    · have := ih l h; omega
  | ifT _ _ _ _ _ _ _ _ _ _ _ _ _ ih => exact ih
  | svar _ _ _ _ _ _ _ _ _ _ _ _ _ ih => exact ih
  | iif _ _ _ _ _ _ _ _ _ _ _ _ _ ih => exact ih

/-- the list above the topmost inline container stops being clean -/
theorem StackG.demote {c : List Nat} {stack : List (Frame R)} {g k : Bool} {lv lo : Nat} {chain : List LoopRef}
    (h : StackG c stack g k lv lo chain) (hk : k = true) :
    ∃ k', StackG c stack false k' lv lo chain := by
  induction h with
  | nil => cases hk
  | loop pre f pc rest g k lvP loP chain hs ho hc hg ih =>
    obtain ⟨k', hs'⟩ := ih hk
    exact ⟨k', .loop pre f pc rest false k' lvP loP chain hs' ho hc (fun h => by cases h)⟩
  | ifT pre done cur curOff off rest g k lvP loP chain hs hg ih =>
    obtain ⟨k', hs'⟩ := ih hk
    exact ⟨k', .ifT pre done cur curOff off rest false k' lvP loP chain hs' (fun h => by cases h)⟩
  | svar pre v off rest g gOut k lvP loP chain hs hgo hg _ =>
    exact ⟨_, .svar pre v off rest g false k lvP loP chain hs (fun h => by cases h) hg⟩
  | iif pre cs f rest g gOut k lvP loP chain hs hgo hg _ =>
    exact ⟨_, .iif pre cs f rest g false k lvP loP chain hs (fun h => by cases h) hg⟩

theorem chain_lv_exists : ∀ (chain : List LoopRef), ∃ lv, ∀ l ∈ chain, l.level < lv := by
  intro chain
  induction chain with
  | nil => exact ⟨0, by intro l hl; cases hl⟩
  | cons x rest ih =>
    obtain ⟨lv, h⟩ := ih
    refine ⟨max lv (x.level + 1), ?_⟩
    intro l hl
    rcases List.mem_cons.mp hl with h1 | h1
    · subst h1; omega
    · have := h l h1; omega

/-- a level bound for the actual loop chain: the structural one when clean -/
theorem levels_pick {c : List Nat} {stack : List (Frame R)} {g k : Bool} {lv lo : Nat} {chain cur : List LoopRef}
    (hs : StackG c stack g k lv lo chain) (hg : g = true → cur = chain) :
    ∃ lvE, (∀ l ∈ cur, l.level < lvE) ∧ (g = true → lvE = lv) := by
  cases g with
  | true => exact ⟨lv, by rw [hg rfl]; exact hs.levels, fun _ => rfl⟩
  | false =>
    obtain ⟨lvE, h⟩ := chain_lv_exists cur
    exact ⟨lvE, h, fun h => by cases h⟩

/-! ## the invariant of the main loop -/

/-- the list being filled, when clean -/
def Fill (c : List Nat) (lv lo : Nat) (st : PState R) : Prop :=
  (∃ b, ListOk c.length lv lo b st.storage ∧ b + mLen st.mtch ≤ st.off) ∨
  (st.storage = [] ∧ (st.mtch = 8 ∨ st.mtch = 10) ∧ lo ≤ st.off ∧
    ∃ pre f pc rest, st.stack = .loop pre f pc :: rest)

structure GInv (c : List Nat) (st : PState R) : Prop where
  off : st.mtch ≠ 0 → st.off ≤ c.length
  mtch : st.mtch ≤ 11
  cur : CurOk c st.off st.mtch
  chainOk : ChainOk c st.loopChain
  ctx : ∃ g k lv lo chain, StackG c st.stack g k lv lo chain ∧ (st.isChild = true → k = true) ∧
    (g = true → st.loopChain = chain ∧ Fill c lv lo st)

theorem NextFacts.curA {c : List Nat} {off0 o m : Nat} (h : NextFacts c off0 o m) : CurOk c o m := by
  refine ⟨by have := h.start; omega, ?_⟩
  intro h2 h8 h10 i h1 h3 x hx hstop
  rcases hstop with h125 | h62
  · exact h.word h2 i h1 h3 x hx h125
  · exact h.nogt h2 h8 h10 i h1 h3 x hx h62

/-- what `finder.Next()` leaves untouched and guarantees -/
def NextPostA (c : List Nat) (st st' : PState R) : Prop :=
  st'.storage = st.storage ∧ st'.stack = st.stack ∧ st'.loopChain = st.loopChain ∧
  st'.isChild = st.isChild ∧ NextFacts c st.off st'.off st'.mtch

theorem finderNext_A (c : List Nat) (hn : c.length + 16 < 4294967296)
    (st : PState R) (hoff : st.off ≤ c.length) : Safe (finderNext c st) (NextPostA c st) := by
  obtain ⟨o, m, h1, _⟩ := next_safe_total c st.off hoff
  have hf := next_facts c hn st.off o m hoff h1
  have : finderNext c st = .ok { st with off := o, mtch := m } := by
    simp [finderNext, h1, bind, Except.bind]
  rw [this]
  exact ⟨rfl, rfl, rfl, rfl, hf⟩

/-- a list at some level with a bound `≤ off` (when clean), then `finder.Next()` -/
theorem finishG (c : List Nat) (hn : c.length + 16 < 4294967296) (s2 : PState R)
    (hch : ChainOk c s2.loopChain)
    (hctx : ∃ g k lv lo chain, StackG c s2.stack g k lv lo chain ∧ (s2.isChild = true → k = true) ∧
      (g = true → s2.loopChain = chain ∧ ∃ b, ListOk c.length lv lo b s2.storage ∧ b ≤ s2.off)) :
    Safe (finderNext c s2) (GInv c) := by
  obtain ⟨g, k, lv, lo, chain, hs, hk, hg⟩ := hctx
  by_cases ho : s2.off ≤ c.length
  · apply Safe.mono (finderNext_A c hn s2 ho)
    intro st3 hp3
    obtain ⟨r1, r2, r3, r4, r6⟩ := hp3
    refine ⟨fun _ => r6.le, r6.id, r6.curA, by rw [r3]; exact hch, g, k, lv, lo, chain, by rw [r2]; exact hs,
      by rw [r4]; exact hk, ?_⟩
    intro hgt
    obtain ⟨e1, b, hb, hbo⟩ := hg hgt
    refine ⟨by rw [r3]; exact e1, Or.inl ⟨b, by rw [r1]; exact hb, ?_⟩⟩
    have := r6.start; omega
  · rw [finderNext_beyond c s2 (by omega)]
    refine Safe.ok _ ⟨fun h => absurd rfl h, by simp, ⟨by simp [mLen], by intro h; simp at h⟩, hch,
      g, k, lv, lo, chain, hs, hk, ?_⟩
    intro hgt
    obtain ⟨e1, b, hb, hbo⟩ := hg hgt
    exact ⟨e1, Or.inl ⟨b, hb, by simp [mLen]; exact hbo⟩⟩


theorem Fill.first {c : List Nat} {lv lo : Nat} {st : PState R} (hf : Fill c lv lo st)
    (h8 : st.mtch ≠ 8) (h10 : st.mtch ≠ 10) :
    ∃ b, ListOk c.length lv lo b st.storage ∧ b + mLen st.mtch ≤ st.off := by
  rcases hf with h | ⟨_, h, _, _⟩
  · exact h
  · omega

/-! ## steps that do not touch the stack -/

/-- `}` that closes nothing -/
theorem stray_G (c : List Nat) (hn : c.length + 16 < 4294967296) (st : PState R) (hi : GInv c st)
    (hm : st.mtch = 1) : Safe (finderNext c st) (GInv c) := by
  obtain ⟨g, k, lv, lo, chain, hs, hk, hg⟩ := hi.ctx
  apply finishG c hn st hi.chainOk
  refine ⟨g, k, lv, lo, chain, hs, hk, ?_⟩
  intro hgt
  obtain ⟨e1, hf⟩ := hg hgt
  obtain ⟨b, hb, hbo⟩ := hf.first (by omega) (by omega)
  exact ⟨e1, b, hb, by omega⟩

/-- `{var:…}` / `{raw:…}` -/
theorem stepVar_G (c : List Nat) (hn : c.length + 16 < 4294967296) (st : PState R) (hi : GInv c st)
    (raw : Bool) (hm : st.mtch = 2 ∨ st.mtch = 3) : Safe (stepVar c st raw) (GInv c) := by
  obtain ⟨g, k, lv, lo, chain, hs, hk, hg⟩ := hi.ctx
  obtain ⟨lvE, hlvE, hlvg⟩ := levels_pick hs (fun h => (hg h).1)
  have hml : mLen st.mtch = 5 := by rcases hm with h | h <;> rw [h] <;> rfl
  have h5 : 5 ≤ st.off := by have := hi.cur.1; omega
  simp only [stepVar]
  apply Safe.bind (finderNext_A c hn st (hi.off (by omega)))
  intro st1 hp1
  obtain ⟨p1, p2, p3, p4, p6⟩ := hp1
  split
  · rename_i hle
    have hm1 : st1.mtch = 1 := hle
    have hstart : st.off + 1 ≤ st1.off := by have := p6.start; rw [hm1] at this; simpa [mLen] using this
    have hclose : c[st1.off - 1]? = some 125 := p6.close hm1
    have ho1 : st1.off ≤ c.length := p6.le
    refine Safe.bind (P := fun s2 : PState R => s2.stack = st.stack ∧ s2.loopChain = st.loopChain ∧
      s2.isChild = st.isChild ∧ s2.off = st1.off ∧
      (g = true → ∃ b', ListOk c.length lv lo b' s2.storage ∧ b' ≤ st1.off)) ?_ ?_
    · split
      · rename_i hlen
        have hsuf : W1.inLineSuffixLength = 1 := by decide
        have hL : trunc bits_VariableTag_Length ((st1.off - st.off - W1.inLineSuffixLength) % 256) ≤ st1.off - st.off - 1 := by
          have h1 := trunc_le bits_VariableTag_Length ((st1.off - st.off - W1.inLineSuffixLength) % 256)
          have h2 : (st1.off - st.off - W1.inLineSuffixLength) % 256 ≤ st1.off - st.off - W1.inLineSuffixLength := Nat.mod_le _ _
          rw [hsuf] at h1 h2; rw [hsuf]; omega
        generalize trunc bits_VariableTag_Length ((st1.off - st.off - W1.inLineSuffixLength) % 256) = L at hL
        apply Safe.bind (mkVar_safe c lvE st1.loopChain (by rw [p3]; exact hi.chainOk) (by rw [p3]; exact hlvE)
          st.off L (by omega) ⟨st1.off - 1, 125, by omega, hclose, Or.inl rfl⟩)
        intro v hv
        obtain ⟨hv1, hv2, hv3⟩ := hv
        refine Safe.ok _ ⟨p2, p3, p4, rfl, ?_⟩
        intro hgt
        obtain ⟨_, hf⟩ := hg hgt
        obtain ⟨b, hb, hbo⟩ := hf.first (by omega) (by omega)
        rw [hlvg hgt] at hv1
        have hpre : W1.variablePrefixLength = 5 := by decide
        have hprr : W1.rawVariablePrefixLength = 5 := by decide
        have htag : wfTag c.length lv (if raw = true then (Tag.raw v : Tag R) else Tag.var v)
            = some (st.off - 5, st.off + L + 1) := by
          cases raw <;> simp [wfTag, hv1, hv2, hv3, hpre, hprr, hsuf] <;> omega
        refine ⟨st1.off, ?_, Nat.le_refl _⟩
        simp only [p1]
        exact hb.snoc _ _ _ htag (by omega) (by omega) ho1 (by omega)
      · refine Safe.ok _ ⟨p2, p3, p4, rfl, ?_⟩
        intro hgt
        obtain ⟨_, hf⟩ := hg hgt
        obtain ⟨b, hb, hbo⟩ := hf.first (by omega) (by omega)
        exact ⟨b, by rw [p1]; exact hb, by omega⟩
    · intro s2 hs2
      obtain ⟨q1, q2, q3, q4, q5⟩ := hs2
      apply finishG c hn s2 (by rw [q2]; exact hi.chainOk)
      refine ⟨g, k, lv, lo, chain, by rw [q1]; exact hs, by rw [q3]; exact hk, ?_⟩
      intro hgt
      obtain ⟨b', hb', hbo'⟩ := q5 hgt
      exact ⟨by rw [q2]; exact (hg hgt).1, b', hb', by omega⟩
  · refine Safe.ok _ ⟨fun _ => p6.le, p6.id, p6.curA, by rw [p3]; exact hi.chainOk, g, k, lv, lo, chain,
      by rw [p2]; exact hs, by rw [p4]; exact hk, ?_⟩
    intro hgt
    obtain ⟨e1, hf⟩ := hg hgt
    obtain ⟨b, hb, hbo⟩ := hf.first (by omega) (by omega)
    refine ⟨by rw [p3]; exact e1, Or.inl ⟨b, by rw [p1]; exact hb, ?_⟩⟩
    have := p6.start; omega


theorem mLen_pos (m : Nat) (h0 : m ≠ 0) (h11 : m ≤ 11) : 1 ≤ mLen m := by
  have : m = 1 ∨ m = 2 ∨ m = 3 ∨ m = 4 ∨ m = 5 ∨ m = 6 ∨ m = 7 ∨ m = 8 ∨ m = 9 ∨ m = 10 ∨ m = 11 := by omega
  rcases this with h | h | h | h | h | h | h | h | h | h | h <;> subst h <;> simp [mLen]

/-- state during a scan that only moves the Finder: `lo` = offset where the scan started -/
def ScanQ (c : List Nat) (st0 : PState R) (lo : Nat) (st : PState R) : Prop :=
  st.storage = st0.storage ∧ st.stack = st0.stack ∧ st.loopChain = st0.loopChain ∧
  st.isChild = st0.isChild ∧ st.off ≤ c.length ∧ st.mtch ≤ 11 ∧ lo + mLen st.mtch ≤ st.off ∧
  CurOk c st.off st.mtch

theorem scanQ_next (c : List Nat) (hn : c.length + 16 < 4294967296)
    (st0 : PState R) (lo : Nat) (st : PState R) (hq : ScanQ c st0 lo st) :
    Safe (finderNext c st) (fun st' => ScanQ c st0 lo st' ∧ st.off + mLen st'.mtch ≤ st'.off) := by
  obtain ⟨q1, q2, q3, q4, q5, q6, q7, q8⟩ := hq
  apply Safe.mono (finderNext_A c hn st q5)
  intro st' hp
  obtain ⟨p1, p2, p3, p4, p6⟩ := hp
  have := p6.start
  exact ⟨⟨p1.trans q1, p2.trans q2, p3.trans q3, p4.trans q4, p6.le, p6.id, by omega, p6.curA⟩, this⟩

theorem mathScan_A (c : List Nat) (hn : c.length + 16 < 4294967296)
    (st0 : PState R) (lo : Nat) : ∀ (fuel : Nat) (st : PState R) (skip : Nat),
    ScanQ c st0 lo st →
    Safe (mathScan c fuel st skip) (fun r => ScanQ c st0 lo r.1 ∧
      (r.2 ≠ 0 → lo + 1 ≤ r.2 ∧ r.2 + mLen r.1.mtch ≤ r.1.off)) := by
  intro fuel
  induction fuel with
  | zero => intro st skip hq; exact Safe.ok _ ⟨hq, fun h => absurd rfl h⟩
  | succ fuel ih =>
    intro st skip hq
    simp only [mathScan]
    have hfirst : Safe (if st.mtch < W1.mathID ∧ st.mtch ≠ W1.lineEndID then (do
        let st ← finderNext c st
        pure (st, skip + 1)) else (pure (st, skip) : Except Fault (PState R × Nat)))
        (fun r => ScanQ c st0 lo r.1) := by
      split
      · apply Safe.bind (scanQ_next c hn st0 lo st hq)
        intro st' hst'
        exact Safe.ok _ hst'.1
      · exact Safe.ok _ hq
    apply Safe.bind hfirst
    intro r hr
    obtain ⟨st1, skip1⟩ := r
    simp only [] at hr ⊢
    split
    · rename_i hle
      split
      · apply Safe.bind (scanQ_next c hn st0 lo st1 hr)
        intro st2 hst2
        exact ih st2 _ hst2.1
      · apply Safe.bind (scanQ_next c hn st0 lo st1 hr)
        intro st2 hst2
        refine Safe.ok _ ⟨hst2.1, fun _ => ?_⟩
        obtain ⟨q1, q2, q3, q4, q5, q6, q7, q8⟩ := hr
        have hm1 : st1.mtch = 1 := hle
        rw [hm1] at q7; simp only [mLen] at q7
        exact ⟨q7, hst2.2⟩
    · exact Safe.ok _ ⟨hr, fun h => absurd rfl h⟩

/-- `{math:…}` -/
theorem stepMath_G (cfg : ScanCfg R) (c : List Nat) (hn : c.length + 16 < 4294967296)
    (st : PState R) (hi : GInv c st) (hm : st.mtch = 4) : Safe (stepMath cfg c st) (GInv c) := by
  obtain ⟨g, k, lv, lo, chain, hs, hk, hg⟩ := hi.ctx
  obtain ⟨lvE, hlvE, hlvg⟩ := levels_pick hs (fun h => (hg h).1)
  have hml : mLen st.mtch = 6 := by rw [hm]; rfl
  have h6 : 6 ≤ st.off := by have := hi.cur.1; omega
  simp only [stepMath]
  apply Safe.bind (finderNext_A c hn st (hi.off (by omega)))
  intro st1 hp1
  obtain ⟨p1, p2, p3, p4, p6⟩ := hp1
  have hq1 : ScanQ c st st.off st1 := ⟨p1, p2, p3, p4, p6.le, p6.id, p6.start, p6.curA⟩
  apply Safe.bind (mathScan_A c hn st st.off _ st1 0 hq1)
  intro r hr
  obtain ⟨st2, e⟩ := r
  obtain ⟨⟨q1, q2, q3, q4, q5, q6, q7, q8⟩, he⟩ := hr
  simp only [] at q1 q2 q3 q4 q5 q6 q7 q8 he ⊢
  split
  · rename_i hne
    obtain ⟨e1, e2⟩ := he hne
    have hsuf : W1.inLineSuffixLength = 1 := by decide
    have hmp : W1.mathPrefixLength = 6 := by decide
    have hlen : e ≤ c.length := by omega
    apply Safe.bind (exprs_L cfg c lvE st2.loopChain (by rw [q3]; exact hi.chainOk) (by rw [q3]; exact hlvE)
      st.off (e - W1.inLineSuffixLength) (by omega))
    intro ex hex
    refine Safe.ok _ ⟨fun _ => q5, q6, q8, by simp only []; rw [q3]; exact hi.chainOk, g, k, lv, lo, chain,
      by simp only []; rw [q2]; exact hs, by simp only []; rw [q4]; exact hk, ?_⟩
    intro hgt
    obtain ⟨e0, hf⟩ := hg hgt
    obtain ⟨b, hb, hbo⟩ := hf.first (by omega) (by omega)
    have htag : wfTag c.length lv (Tag.math ex (st.off - W1.mathPrefixLength) e : Tag R) =
        some (st.off - W1.mathPrefixLength, e) := by
      have := itemsAll_wf c lvE _ ex hex
      rw [hlvg hgt] at this
      simp only [wfTag, this, Bool.true_and, decide_eq_true_eq]
      simp [show (st.off - W1.mathPrefixLength ≤ e) from (by omega), hlen]
    refine ⟨by simp only []; rw [q3]; exact e0, Or.inl ⟨e, ?_, e2⟩⟩
    simp only [q1]
    exact hb.snoc _ _ _ htag (by omega) (Nat.le_refl _) hlen (by omega)
  · refine Safe.ok _ ⟨fun _ => q5, q6, q8, by rw [q3]; exact hi.chainOk, g, k, lv, lo, chain,
      by rw [q2]; exact hs, by rw [q4]; exact hk, ?_⟩
    intro hgt
    obtain ⟨e0, hf⟩ := hg hgt
    obtain ⟨b, hb, hbo⟩ := hf.first (by omega) (by omega)
    exact ⟨by rw [q3]; exact e0, Or.inl ⟨b, by rw [q1]; exact hb, by omega⟩⟩

/-- `{svar:name, …`: a new inline container -/
theorem stepSvar_G (c : List Nat) (hn : c.length + 16 < 4294967296)
    (st : PState R) (hi : GInv c st) (hm : st.mtch = 5) : Safe (stepSvar c st) (GInv c) := by
  obtain ⟨g, k, lv, lo, chain, hs, hk, hg⟩ := hi.ctx
  have hml : mLen st.mtch = 6 := by rw [hm]; rfl
  have h6 : 6 ≤ st.off := by have := hi.cur.1; omega
  have hpl : W1.superVariablePrefixLength = 6 := by decide
  simp only [stepSvar]
  apply Safe.bind (finderNext_A c hn st (hi.off (by omega)))
  intro st1 hp1
  obtain ⟨p1, p2, p3, p4, p6⟩ := hp1
  have hstart := p6.start
  apply Safe.bind (skipW_safe c st1.off _ p6.le st.off)
  intro o2 ho2
  have ho2e : o2 ≤ st1.off := ho2.2.1 (by omega)
  have hL : trunc bits_VariableTag_Length ((o2 - st.off) % 256) ≤ o2 - st.off := by
    have h1 := trunc_le bits_VariableTag_Length ((o2 - st.off) % 256)
    have h2 : (o2 - st.off) % 256 ≤ o2 - st.off := Nat.mod_le _ _
    omega
  generalize trunc bits_VariableTag_Length ((o2 - st.off) % 256) = L at hL
  split
  · refine Safe.ok _ ⟨fun _ => p6.le, p6.id, p6.curA, by simp only [push]; rw [p3]; exact hi.chainOk,
      g, true, lv, st.off - W1.superVariablePrefixLength, chain, ?_, fun _ => rfl, ?_⟩
    · simp only [push, p1, p2]
      have := StackG.svar (c := c) st.storage ⟨st.off, L, 0, 0⟩ (st.off - W1.superVariablePrefixLength) st.stack
        g g k lv lo chain hs (fun h => h) (by
          intro hgt
          obtain ⟨_, hf⟩ := hg hgt
          obtain ⟨b, hb, hbo⟩ := hf.first (by omega) (by omega)
          refine ⟨?_, rfl, b, hb, by rw [hpl]; omega⟩
          simp only [wfVar, Bool.and_eq_true, decide_eq_true_eq, Bool.or_eq_true, beq_iff_eq]
          exact ⟨by have := p6.le; omega, Or.inl trivial⟩)
      simpa using this
    · intro hgt
      refine ⟨by simp only [push]; rw [p3]; exact (hg hgt).1, Or.inl ⟨st.off, ?_, by simp only [push]; exact hstart⟩⟩
      simp only [push]
      exact ListOk.nil (by omega) (by have := p6.le; omega)
  · refine Safe.ok _ ⟨fun _ => p6.le, p6.id, p6.curA, by rw [p3]; exact hi.chainOk, g, k, lv, lo, chain,
      by rw [p2]; exact hs, by rw [p4]; exact hk, ?_⟩
    intro hgt
    obtain ⟨e0, hf⟩ := hg hgt
    obtain ⟨b, hb, hbo⟩ := hf.first (by omega) (by omega)
    exact ⟨by rw [p3]; exact e0, Or.inl ⟨b, by rw [p1]; exact hb, by omega⟩⟩


theorem iifQuote_A (c : List Nat) (hn : c.length + 16 < 4294967296) (st0 : PState R) (lo quote : Nat) :
    ∀ (fuel : Nat) (st : PState R) (off endO : Nat), ScanQ c st0 lo st → off ≤ endO → endO ≤ st.off →
    Safe (iifQuote c quote fuel st off endO)
      (fun r => ScanQ c st0 lo r.1 ∧ (r.1.mtch ≠ 0 → r.2 < c.length)) := by
  intro fuel
  induction fuel with
  | zero =>
    intro st off endO hq _ _
    obtain ⟨q1, q2, q3, q4, q5, q6, q7, q8⟩ := hq
    refine Safe.ok _ ⟨⟨q1, q2, q3, q4, q5, by simp, by simp [mLen]; omega, ⟨by simp [mLen], by intro h; simp at h⟩⟩, ?_⟩
    intro h; simp at h
  | succ fuel ih =>
    intro st off endO hq hoe hes
    have hq' := hq
    obtain ⟨q1, q2, q3, q4, q5, q6, q7, q8⟩ := hq
    simp only [iifQuote]
    split
    · rename_i hm
      apply Safe.bind (skipW_safe c endO _ (by omega) off)
      intro o2 ho2
      have ho2e : o2 ≤ endO := ho2.2.1 hoe
      split
      · exact Safe.ok _ ⟨hq', fun _ => by simp only []; omega⟩
      · apply Safe.bind (scanQ_next c hn st0 lo st hq')
        intro st1 hst1
        split
        · apply Safe.bind (scanQ_next c hn st0 lo st1 hst1.1)
          intro st2 hst2
          exact ih st2 o2 st2.off hst2.1 (by have := hst1.2; have := hst2.2; omega) (Nat.le_refl _)
        · refine Safe.ok _ ⟨hst1.1, ?_⟩
          intro hne
          simp only [] at hne ⊢
          have := mLen_pos st1.mtch hne hst1.1.2.2.2.2.2.1
          have := hst1.2
          have := hst1.1.2.2.2.2.1
          omega
    · exact Safe.ok _ ⟨hq', fun h => absurd h (by simpa using ‹¬ st.mtch ≠ 0›)⟩

/-- `{if case="…" …`: a new inline container -/
theorem stepIif_G (cfg : ScanCfg R) (c : List Nat) (hn : c.length + 16 < 4294967296)
    (st : PState R) (hi : GInv c st) (hm : st.mtch = 6) : Safe (stepIif cfg c st) (GInv c) := by
  obtain ⟨g, k, lv, lo, chain, hs, hk, hg⟩ := hi.ctx
  obtain ⟨lvE, hlvE, hlvg⟩ := levels_pick hs (fun h => (hg h).1)
  have hml : mLen st.mtch = 3 := by rw [hm]; rfl
  have h3 : 3 ≤ st.off := by have := hi.cur.1; omega
  have hpl : W1.inLineIfPrefixLength = 3 := by decide
  -- what is returned when nothing is pushed
  have hplain : ∀ s' : PState R, ScanQ c st st.off s' → GInv c s' := by
    intro s' hq
    obtain ⟨q1, q2, q3, q4, q5, q6, q7, q8⟩ := hq
    refine ⟨fun _ => q5, q6, q8, by rw [q3]; exact hi.chainOk, g, k, lv, lo, chain, by rw [q2]; exact hs,
      by rw [q4]; exact hk, ?_⟩
    intro hgt
    obtain ⟨e0, hf⟩ := hg hgt
    obtain ⟨b, hb, hbo⟩ := hf.first (by omega) (by omega)
    exact ⟨by rw [q3]; exact e0, Or.inl ⟨b, by rw [q1]; exact hb, by omega⟩⟩
  simp only [stepIif]
  apply Safe.bind (finderNext_A c hn st (hi.off (by omega)))
  intro st1 hp1
  obtain ⟨p1, p2, p3, p4, p6⟩ := hp1
  have hq1 : ScanQ c st st.off st1 := ⟨p1, p2, p3, p4, p6.le, p6.id, p6.start, p6.curA⟩
  have hle1 : st1.off ≤ c.length := p6.le
  apply Safe.bind (skipW_safe c st1.off _ hle1 st.off)
  intro o1 ho1
  apply Safe.bind (andEqualAt_safe _ c o1 W1.caseStr (by
    intro hc
    simp only [Bool.and_eq_true, decide_eq_true_eq] at hc
    have : W1.caseStr.length = W1.caseLength := by decide
    rw [this]; omega))
  intro bq _
  split
  · apply Safe.bind (skipW_safe c st1.off _ hle1 (o1 + W1.caseLength))
    intro o2 ho2
    simp only [doSkipW]
    apply Safe.bind (skipW_safe c st1.off _ hle1 (o2 + 1))
    intro o3 ho3
    split
    · rename_i hlt3
      simp only [rd_ok c o3 (by omega), bind, Except.bind]
      apply Safe.bind (iifQuote_A c hn st st.off c[o3] (c.length + 2) st1 (o3 + 1) st1.off hq1 (by omega) (Nat.le_refl _))
      intro r hr
      obtain ⟨st2, off'⟩ := r
      obtain ⟨hq2, hoff'⟩ := hr
      simp only [] at hq2 hoff' ⊢
      split
      · rename_i hne
        obtain ⟨q1, q2, q3, q4, q5, q6, q7, q8⟩ := hq2
        apply Safe.bind (exprs_L cfg c lvE st2.loopChain (by rw [q3]; exact hi.chainOk) (by rw [q3]; exact hlvE)
          (o3 + 1) off' (hoff' hne))
        intro cs hcs
        generalize trunc bits_InLineIfTag_TrueOffset (off' + 1 - (st.off - W1.inLineIfPrefixLength)) = tOff
        refine Safe.ok _ ⟨fun _ => q5, q6, q8, by simp only [push]; rw [q3]; exact hi.chainOk,
          g, true, lv, st.off - W1.inLineIfPrefixLength, chain, ?_, fun _ => rfl, ?_⟩
        · simp only [push, q1, q2]
          have := StackG.iif (c := c) st.storage cs
            ({ off := st.off - W1.inLineIfPrefixLength, trueOff := tOff } : IifFields) st.stack
            g g k lv lo chain hs (fun h => h) (by
              intro hgt
              obtain ⟨_, hf⟩ := hg hgt
              obtain ⟨b, hb, hbo⟩ := hf.first (by omega) (by omega)
              have hw := itemsAll_wf c lvE _ cs hcs
              rw [hlvg hgt] at hw
              have hso : st.off ≤ c.length := hi.off (by omega)
              exact ⟨hw, ⟨by simp only []; omega, by simp only []; omega⟩, b, hb, by simp only []; rw [hpl]; omega⟩)
          simpa using this
        · intro hgt
          refine ⟨by simp only [push]; rw [q3]; exact (hg hgt).1, Or.inl ⟨st.off, ?_, by simp only [push]; exact q7⟩⟩
          simp only [push]
          exact ListOk.nil (by omega) (hi.off (by omega))
      · exact Safe.ok _ (hplain _ hq2)
    · exact Safe.ok _ (hplain _ hq1)
  · exact Safe.ok _ (hplain _ hq1)


/-! ## closing an inline if -/

/-- what the attribute scan of an inline if keeps true of the record -/
structure IifJ (G : Prop) (n : Nat) (f0 g : IifFields) (final : Bool) : Prop where
  off : g.off = f0.off
  len : g.len = f0.len
  ts : g.trueStart = f0.trueStart
  fs : g.falseStart = f0.falseStart
  fr : G → g.off + g.falseOff + g.falseLen ≤ n
  tl : G → g.off + g.trueLen ≤ n
  tr : G → final = true → g.trueOff = 0 ∨ g.off + g.trueOff + g.trueLen ≤ n

abbrev IifFields.setT (f : IifFields) (a b : Nat) : IifFields := { f with trueOff := a, trueLen := b }
abbrev IifFields.setF (f : IifFields) (a b : Nat) : IifFields := { f with falseOff := a, falseLen := b }

theorem iifAttrs_safe (G : Prop) (c : List Nat) (endO : Nat) (he : endO ≤ c.length) (trueOffset : Nat) (f0 : IifFields) :
    ∀ (fuel off0 : Nat) (tru0 : Bool) (f : IifFields), f0.off ≤ off0 → IifJ G c.length f0 f true →
      Safe (iifAttrs c endO trueOffset fuel off0 tru0 f) (fun sc => IifJ G c.length f0 sc.f (!sc.repush)) := by
  intro fuel
  induction fuel with
  | zero => intro off0 tru0 f _ hf; exact Safe.ok _ (by simpa using hf)
  | succ fuel ih =>
    intro off0 tru0 f h0 hf
    have hdone : IifJ G c.length f0 f (!({ f := f } : IifScan).repush) := by simpa using hf
    simp only [iifAttrs]
    apply Safe.bind (skipW_safe c endO _ he off0)
    intro off hoff
    split
    · rename_i hlt
      simp only [rd_ok c off (by omega), bind, Except.bind]
      have htl : W1.trueStr.length = W1.trueLength := by decide
      have hfl : W1.falseStr.length = W1.falseLength := by decide
      refine Safe.bind (P := fun hd : Option (Nat × Bool) => ∀ o t, hd = some (o, t) → off ≤ o) ?_ ?_
      · split
        · apply Safe.bind (andEqualAt_safe _ c off W1.trueStr (by
            intro hc; simp only [decide_eq_true_eq] at hc; rw [htl]; omega))
          intro b1 _
          split <;>
            exact Safe.ok _ (by intro o t h; simp only [pure, Except.pure, Option.some.injEq, Prod.mk.injEq] at h; omega)
        · apply Safe.bind (andEqualAt_safe _ c off W1.falseStr (by
            intro hc; simp only [Bool.and_eq_true, decide_eq_true_eq] at hc; rw [hfl]; omega))
          intro b1 _
          split
          · exact Safe.ok _ (by intro o t h; simp only [pure, Except.pure, Option.some.injEq, Prod.mk.injEq] at h; omega)
          · exact Safe.ok _ (by intro o t h; cases h)
      · intro hd hhd
        cases hd with
        | none => exact Safe.ok _ hdone
        | some p =>
          obtain ⟨o1, tru⟩ := p
          have ho1 := hhd o1 tru rfl
          simp only []
          apply Safe.bind (skipW_safe c endO _ he o1)
          intro o2 ho2
          simp only [doSkipW]
          apply Safe.bind (skipW_safe c endO _ he (o2 + 1))
          intro o3 ho3
          split
          · rename_i hlt3
            simp only [rd_ok c o3 (by omega), bind, Except.bind]
            apply Safe.bind (skipW_safe c endO _ he (o3 + 1))
            intro o4 ho4
            split
            · rename_i hlt4
              have hbase : f0.off ≤ o3 + 1 := by omega
              have h34 : o3 + 1 ≤ o4 := ho4.1
              have hf' : IifJ G c.length f0
                  (if tru = true then
                    f.setT (trunc bits_InLineIfTag_TrueOffset (o3 + 1 - f.off)) (trunc bits_InLineIfTag_TrueLength (o4 - (o3 + 1)))
                   else
                    f.setF (trunc bits_InLineIfTag_FalseOffset (o3 + 1 - f.off)) (trunc bits_InLineIfTag_FalseLength (o4 - (o3 + 1))))
                  true := by
                have hfo := hf.off
                cases tru with
                | true =>
                  have h1 := trunc_le bits_InLineIfTag_TrueOffset (o3 + 1 - f.off)
                  have h2 := trunc_le bits_InLineIfTag_TrueLength (o4 - (o3 + 1))
                  refine ⟨hf.off, hf.len, hf.ts, hf.fs, hf.fr, fun _ => ?_, fun _ _ => Or.inr ?_⟩ <;> simp only [if_true] <;> omega
                | false =>
                  have h1 := trunc_le bits_InLineIfTag_FalseOffset (o3 + 1 - f.off)
                  have h2 := trunc_le bits_InLineIfTag_FalseLength (o4 - (o3 + 1))
                  refine ⟨hf.off, hf.len, hf.ts, hf.fs, fun _ => ?_, hf.tl, hf.tr⟩
                  simp only [Bool.false_eq_true, if_false]; omega
              split
              · exact ih _ _ _ (by omega) hf'
              · exact Safe.ok _ (by simpa using hf')
            · refine Safe.ok _ ⟨hf.off, hf.len, hf.ts, hf.fs, hf.fr, hf.tl, ?_⟩
              intro _ h; simp at h
          · split
            · exact ih _ _ _ (by omega) hf
            · exact Safe.ok _ hdone
    · split
      · exact ih _ _ _ (by omega) hf
      · exact Safe.ok _ hdone


theorem wfSel_eq' (n lv : Nat) : ∀ (tags : List (Tag R)) (lo hi skip cnt : Nat),
    wfSel n lv lo hi skip cnt tags = wfTags n lv lo hi ((tags.drop skip).take cnt) := by
  intro tags
  induction tags with
  | nil => intro lo hi skip cnt; cases skip <;> cases cnt <;> simp [wfSel, wfTags]
  | cons t rest ih =>
    intro lo hi skip cnt
    cases skip with
    | succ k => simp only [wfSel, List.drop_succ_cons]; exact ih _ _ _ _
    | zero =>
      cases cnt with
      | zero => simp [wfSel, wfTags]
      | succ c =>
        simp only [wfSel, List.drop_zero, List.take_succ_cons, wfTags]
        cases wfTag n lv t with
        | none => rfl
        | some p =>
          obtain ⟨s, e⟩ := p
          simp only []
          rw [ih _ _ 0 c]
          simp

/-- a sub-list selected by the role check is well-formed inside the value it is rendered with -/
theorem sel_take (n lv : Nat) (f : IifFields) (id lo b P Q : Nat) (sub : List (Tag R))
    (hsub : wfTags n lv lo b sub = true) (hrole : allRole f id 0 sub = true) (hPQ : P ≤ Q) (hQ : Q ≤ n)
    (hin : ∀ j t s e, j < id → sub[j]? = some t → wfTag n lv t = some (s, e) →
      insideRole f id j t = true → P ≤ s ∧ e ≤ Q) :
    wfSel n lv P Q 0 id sub = true := by
  rw [wfSel_eq', List.drop_zero]
  apply wfTags_take_in n lv Q hQ sub lo b id P hsub _ hPQ
  intro j hj t ht s e hse
  have := allRole_get f id sub 0 j t hrole ht
  rw [Nat.zero_add] at this
  exact hin j t s e hj ht hse this

theorem sel_drop (n lv : Nat) (f : IifFields) (id lo b P Q : Nat) (sub : List (Tag R))
    (hsub : wfTags n lv lo b sub = true) (hrole : allRole f id 0 sub = true) (hPQ : P ≤ Q) (hQ : Q ≤ n)
    (hin : ∀ j t s e, id ≤ j → sub[j]? = some t → wfTag n lv t = some (s, e) →
      insideRole f id j t = true → P ≤ s ∧ e ≤ Q) :
    wfSel n lv P Q id sub.length sub = true := by
  rw [wfSel_eq']
  obtain ⟨lo', hd⟩ := wfTags_drop n lv id sub lo b hsub
  have := wfTags_take_in n lv Q hQ (sub.drop id) lo' b sub.length P hd (by
    intro j hj t ht s e hse
    have ht' : sub[id + j]? = some t := by simpa using ht
    have := allRole_get f id sub 0 (id + j) t hrole ht'
    rw [Nat.zero_add] at this
    exact hin (id + j) t s e (by omega) ht' hse this) hPQ
  exact this

/-- the tag `closeIif` appends is well-formed -/
theorem iif_wfTag (n lv : Nat) (cs : List (Qentem.Expr.Item R)) (sub : List (Tag R)) (f : IifFields)
    (id lo b : Nat) (hcs : wfItemVars n lv cs = true) (hlen : f.off + f.len ≤ n)
    (hsub : wfTags n lv lo b sub = true) (hne : f.trueOff ≠ f.falseOff)
    (hrole : allRole f id 0 sub = true) (hid : id ≤ sub.length)
    (htE : f.off + f.trueOff + f.trueLen ≤ n) (hfE : f.off + f.falseOff + f.falseLen ≤ n)
    (hstart : if f.trueOff < f.falseOff then f.falseStart = id else f.trueStart = id) :
    wfTag n lv (Tag.iif cs sub f) = some (f.off, f.off + f.len) := by
  have hb := fun j t s e (ht : sub[j]? = some t) (hse : wfTag n lv t = some (s, e))
    (hr : insideRole f id j t = true) => insideRole_bounds n lv f id j t s e hse hr
  by_cases hA : f.trueOff < f.falseOff
  · simp only [hA, if_true] at hstart
    have hnB : ¬ f.falseOff < f.trueOff := by omega
    have h1 := sel_take n lv f id lo b (f.off + f.trueOff) (f.off + f.trueOff + f.trueLen) sub hsub hrole
      (by omega) htE (by
        intro j t s e hj ht hse hr
        exact (hb j t s e ht hse hr).1 ⟨fun _ => hA, fun _ => hj⟩)
    have h2 := sel_drop n lv f id lo b (f.off + f.falseOff) (f.off + f.falseOff + f.falseLen) sub hsub hrole
      (by omega) hfE (by
        intro j t s e hj ht hse hr
        exact (hb j t s e ht hse hr).2 (fun h => by have := h.2 hA; omega))
    simp only [wfTag, hcs, hA, hnB, if_true, if_false, hstart, h1, h2, Bool.true_and, Bool.and_true]
    simp [hlen, hid]
  · simp only [hA, if_false] at hstart
    have hB : f.falseOff < f.trueOff := by omega
    have h1 := sel_drop n lv f id lo b (f.off + f.trueOff) (f.off + f.trueOff + f.trueLen) sub hsub hrole
      (by omega) htE (by
        intro j t s e hj ht hse hr
        exact (hb j t s e ht hse hr).1 ⟨fun h => by omega, fun h => absurd h hA⟩)
    have h2 := sel_take n lv f id lo b (f.off + f.falseOff) (f.off + f.falseOff + f.falseLen) sub hsub hrole
      (by omega) hfE (by
        intro j t s e hj ht hse hr
        exact (hb j t s e ht hse hr).2 (fun h => hA (h.1 hj)))
    simp only [wfTag, hcs, hA, hB, if_true, if_false, hstart, h1, h2, Bool.true_and, Bool.and_true]
    simp [hlen, hid]


theorem allRole_ext (f f' : IifFields) (id : Nat) (h1 : f'.off = f.off) (h2 : f'.trueOff = f.trueOff)
    (h3 : f'.trueLen = f.trueLen) (h4 : f'.falseOff = f.falseOff) (h5 : f'.falseLen = f.falseLen) :
    ∀ (sub : List (Tag R)) (i : Nat), allRole f' id i sub = allRole f id i sub := by
  intro sub
  induction sub with
  | nil => intro i; rfl
  | cons t rest ih =>
    intro i
    simp only [allRole, ih, insideRole, h1, h2, h3, h4, h5]

/-- the context `finishG` needs -/
def CtxOk (c : List Nat) (s2 : PState R) : Prop :=
  ∃ g k lv lo chain, StackG c s2.stack g k lv lo chain ∧ (s2.isChild = true → k = true) ∧
    (g = true → s2.loopChain = chain ∧ ∃ b, ListOk c.length lv lo b s2.storage ∧ b ≤ s2.off)

/-- `}` with an inline if on top of the stack -/
theorem closeIif_G (c : List Nat) (hn : c.length + 16 < 4294967296)
    (hidT : c.length < 2 ^ bits_InLineIfTag_TrueTagsStartID)
    (hidF : c.length < 2 ^ bits_InLineIfTag_FalseTagsStartID)
    (st : PState R) (pre : List (Tag R)) (cs : List (Qentem.Expr.Item R)) (f0 : IifFields)
    (rest : List (Frame R)) (hstk : st.stack = .iif pre cs f0 :: rest) (hchild : st.isChild = true)
    (hi : GInv c st) (hm : st.mtch = 1) :
    Safe (closeIif c st pre cs f0 rest)
      (fun s2 => s2.loopChain = st.loopChain ∧ s2.off = st.off ∧ CtxOk c s2) := by
  obtain ⟨g, k, lv, lo, chain, hs, hk, hg⟩ := hi.ctx
  have hkt := hk hchild
  have hoff : st.off ≤ c.length := hi.off (by omega)
  rw [hstk] at hs
  cases hs with
  | iif _ _ _ _ g' gOut kr lvP loP _ hsr hgo hfr =>
    have hgg : g = g' := by simpa using hkt
    subst hgg
    -- facts when clean
    have hclean : g = true → st.loopChain = chain ∧ ∃ b, ListOk c.length lv f0.off b st.storage ∧ b + 1 ≤ st.off := by
      intro hgt
      obtain ⟨e0, hf⟩ := hg hgt
      obtain ⟨b, hb, hbo⟩ := hf.first (by omega) (by omega)
      rw [hm] at hbo
      exact ⟨e0, b, hb, by simpa [mLen] using hbo⟩
    have hf0le : g = true → f0.off ≤ st.off := by
      intro hgt
      obtain ⟨_, b, hb, hbo⟩ := hclean hgt
      have := wfTags_le _ _ _ _ _ hb.1
      omega
    -- result: the inline if is dropped
    have hdrop : CtxOk c ({ st with stack := rest, storage := pre, isChild := false } : PState R) := by
      refine ⟨g, kr, lv, loP, chain, hsr, (fun h => by cases h), ?_⟩
      intro hgt
      obtain ⟨_, _, bP, hbP, hbf⟩ := hfr hgt
      exact ⟨(hclean hgt).1, bP, hbP, by have := hf0le hgt; simp only []; omega⟩
    -- result: the inline if stays open with record `f'` and list `sub'`
    have hkeep : ∀ (f' : IifFields) (sub' : List (Tag R)), f'.off = f0.off →
        (g = true → IifKeep c.length f') →
        (g = true → ∃ b, ListOk c.length lv f0.off b sub' ∧ b ≤ st.off) →
        CtxOk c ({ st with stack := .iif pre cs f' :: rest, storage := sub', isChild := true } : PState R) := by
      intro f' sub' hfo hkp hsub'
      refine ⟨g, (g == g), lv, f'.off, chain,
        .iif pre cs f' rest g g kr lv loP chain hsr (fun h => h) (by
          intro hgt
          obtain ⟨h1, _, bP, hbP, hbf⟩ := hfr hgt
          exact ⟨h1, hkp hgt, bP, hbP, by rw [hfo]; exact hbf⟩), fun _ => by simp, ?_⟩
      intro hgt
      obtain ⟨b, hb, hbo⟩ := hsub' hgt
      exact ⟨(hclean hgt).1, b, by rw [hfo]; exact hb, hbo⟩
    simp only [closeIif]
    -- the attribute scan
    have hJ0 : IifJ (g = true) c.length
        ({ f0 with trueOff := 0, len := trunc bits_InLineIfTag_Length (st.off - f0.off) } : IifFields)
        ({ f0 with trueOff := 0, len := trunc bits_InLineIfTag_Length (st.off - f0.off) } : IifFields) true := by
      refine ⟨rfl, rfl, rfl, rfl, ?_, ?_, fun _ _ => Or.inl rfl⟩
      · intro hgt; exact (hfr hgt).2.1.1
      · intro hgt; exact (hfr hgt).2.1.2
    have hscan : Safe (if f0.off + f0.trueOff < st.off then
          iifAttrs c st.off f0.trueOff (st.off + 2) (f0.off + f0.trueOff) false
            { f0 with trueOff := 0, len := trunc bits_InLineIfTag_Length (st.off - f0.off) }
        else iifAttrs c st.off f0.trueOff 1 (f0.off + f0.trueOff) false
            { f0 with trueOff := 0, len := trunc bits_InLineIfTag_Length (st.off - f0.off) })
        (fun sc => IifJ (g = true) c.length
          ({ f0 with trueOff := 0, len := trunc bits_InLineIfTag_Length (st.off - f0.off) } : IifFields) sc.f (!sc.repush)) := by
      split
      · exact iifAttrs_safe (g = true) c st.off hoff f0.trueOff _ _ _ _ _ (by simp only []; omega) hJ0
      · exact iifAttrs_safe (g = true) c st.off hoff f0.trueOff _ _ _ _ _ (by simp only []; omega) hJ0
    apply Safe.bind hscan
    intro sc hJ
    have hfo : sc.f.off = f0.off := hJ.off
    have hkp : g = true → IifKeep c.length sc.f := fun hgt => ⟨hJ.fr hgt, hJ.tl hgt⟩
    have hsubkeep : g = true → ∃ b, ListOk c.length lv f0.off b st.storage ∧ b ≤ st.off := by
      intro hgt; obtain ⟨_, b, hb, hbo⟩ := hclean hgt; exact ⟨b, hb, by omega⟩
    have hsubdrop : g = true → ∃ b, ListOk c.length lv f0.off b st.storage.dropLast ∧ b ≤ st.off := by
      intro hgt; obtain ⟨_, b, hb, hbo⟩ := hclean hgt; exact ⟨b, hb.dropLast, by omega⟩
    split
    · -- an attribute was found
      cases hsc : startIdScan ((if sc.f.trueOff < sc.f.falseOff then sc.f.falseOff else sc.f.trueOff) + sc.f.off)
        st.storage 0 with
      | mk id skip =>
        simp only []
        have hidle : id ≤ st.storage.length := by
          have := startIdScan_le ((if sc.f.trueOff < sc.f.falseOff then sc.f.falseOff else sc.f.trueOff) + sc.f.off)
            st.storage 0
          rw [hsc] at this; simpa using this
        split
        · split
          · exact Safe.ok _ ⟨rfl, rfl, hkeep sc.f _ hfo hkp hsubdrop⟩
          · exact Safe.ok _ ⟨rfl, rfl, hdrop⟩
        · rename_i hskip
          split
          · exact Safe.ok _ ⟨rfl, rfl, hdrop⟩
          · rename_i hout
            split
            · -- re-entry with the start id recorded
              refine Safe.ok _ ⟨rfl, rfl, hkeep _ _ ?_ ?_ hsubkeep⟩
              · split <;> exact hfo
              · intro hgt; have := hkp hgt; split <;> exact this
            · -- the inline if is final
              rename_i hrep
              refine Safe.ok _ ⟨rfl, rfl, g, kr, lv, loP, chain, hsr, (fun h => by cases h), ?_⟩
              intro hgt
              obtain ⟨e0, b, hb, hbo⟩ := hclean hgt
              obtain ⟨hcs, _, bP, hbP, hbf⟩ := hfr hgt
              refine ⟨e0, st.off, ?_, Nat.le_refl _⟩
              have hrepf : sc.repush = false := by simpa using hrep
              have hskipf : skip = false := by simpa using hskip
              simp only [hskipf, hrepf, Bool.not_false, Bool.true_and, Bool.not_eq_true', Bool.not_eq_false',
                Bool.and_eq_true, decide_eq_true_eq] at hout
              obtain ⟨hne, hrole⟩ : sc.f.trueOff ≠ sc.f.falseOff ∧ allRole sc.f id 0 st.storage = true := by
                simpa using hout
              have hbn : b ≤ c.length := wfTags_bounds _ _ _ _ _ hb.1
              have hidn : id ≤ c.length := by have := hb.2; omega
              have hlen : sc.f.off + sc.f.len ≤ c.length := by
                rw [hJ.len, hfo]
                have := trunc_le bits_InLineIfTag_Length (st.off - f0.off)
                have := hf0le hgt
                simp only []; omega
              have htE : sc.f.off + sc.f.trueOff + sc.f.trueLen ≤ c.length := by
                rcases hJ.tr hgt (by simp [hrepf]) with h0 | h1
                · rw [h0]; have := hJ.tl hgt; omega
                · exact h1
              have hfE := hJ.fr hgt
              have htag : wfTag c.length lv (Tag.iif cs st.storage
                  (if sc.f.trueOff < sc.f.falseOff then
                    { sc.f with falseStart := trunc bits_InLineIfTag_FalseTagsStartID id }
                   else { sc.f with trueStart := trunc bits_InLineIfTag_TrueTagsStartID id }) : Tag R) =
                  some (sc.f.off, sc.f.off + sc.f.len) := by
                have ht1 : trunc bits_InLineIfTag_FalseTagsStartID id = id := Nat.mod_eq_of_lt (by omega)
                have ht2 : trunc bits_InLineIfTag_TrueTagsStartID id = id := Nat.mod_eq_of_lt (by omega)
                by_cases hA : sc.f.trueOff < sc.f.falseOff
                · simp only [hA, if_true, ht1]
                  exact iif_wfTag c.length lv cs st.storage _ id f0.off b hcs hlen hb.1 hne
                    (by rw [allRole_ext sc.f { sc.f with falseStart := id } id rfl rfl rfl rfl rfl]; exact hrole)
                    hidle htE hfE (by simp [hA])
                · simp only [hA, if_false, ht2]
                  exact iif_wfTag c.length lv cs st.storage _ id f0.off b hcs hlen hb.1 hne
                    (by rw [allRole_ext sc.f { sc.f with trueStart := id } id rfl rfl rfl rfl rfl]; exact hrole)
                    hidle htE hfE (by simp [hA])
              simp only []
              refine hbP.snoc _ _ _ htag (by rw [hfo]; exact hbf) ?_ hoff ?_
              · rw [hJ.len, hfo]
                have := trunc_le bits_InLineIfTag_Length (st.off - f0.off)
                have := hf0le hgt
                simp only []; omega
              · have := hf0le hgt; have := wfTags_le _ _ _ _ _ hb.1; omega
    · split
      · exact Safe.ok _ ⟨rfl, rfl, hkeep sc.f _ hfo hkp hsubdrop⟩
      · exact Safe.ok _ ⟨rfl, rfl, hdrop⟩


theorem finishC (c : List Nat) (hn : c.length + 16 < 4294967296) (s2 : PState R)
    (hch : ChainOk c s2.loopChain) (hctx : CtxOk c s2) : Safe (finderNext c s2) (GInv c) :=
  finishG c hn s2 hch hctx

/-- `}` -/
theorem stepLineEnd_G (c : List Nat) (hn : c.length + 16 < 4294967296)
    (hidT : c.length < 2 ^ bits_InLineIfTag_TrueTagsStartID)
    (hidF : c.length < 2 ^ bits_InLineIfTag_FalseTagsStartID)
    (st : PState R) (hi : GInv c st) (hm : st.mtch = 1) : Safe (stepLineEnd c st) (GInv c) := by
  obtain ⟨storage, stack, chain0, child, off, mtch⟩ := st
  simp only [] at hm
  subst hm
  have hoff : off ≤ c.length := hi.off (by simp)
  have hchain : ChainOk c chain0 := hi.chainOk
  simp only [stepLineEnd]
  cases child with
  | false => exact stray_G c hn _ hi rfl
  | true =>
    cases stack with
    | nil => exact stray_G c hn _ hi rfl
    | cons fr rest =>
      obtain ⟨g, k, lv, lo, chain, hs, hk, hg⟩ := hi.ctx
      have hkt : k = true := hk rfl
      simp only [] at hs hg
      cases fr with
      | svar pre v soff =>
        simp only [pure, Except.pure, bind, Except.bind]
        apply finishC c hn _ hchain
        cases hs with
        | svar _ _ _ _ g' gOut kr lvP loP _ hsr hgo hfr =>
          have hgg : g = g' := by simpa using hkt
          subst hgg
          refine ⟨g, kr, lv, loP, chain, hsr, (fun h => by cases h), ?_⟩
          intro hgt
          obtain ⟨e0, hf⟩ := hg hgt
          obtain ⟨b, hb, hbo⟩ := hf.first (by simp) (by simp)
          simp only [mLen] at hbo
          obtain ⟨hv, hvid, bP, hbP, hbf⟩ := hfr hgt
          have hlob : lo ≤ b := wfTags_le _ _ _ _ _ hb.1
          have htag : wfTag c.length lv (Tag.svar storage v lo off : Tag R) = some (lo, off) := by
            simp only [wfTag, hv, hvid, wfEach_of_wfTags _ _ _ _ _ hb.1, Bool.and_true, Bool.true_and, beq_self_eq_true]
            rw [if_pos (by simp only [decide_eq_true_eq]; omega)]
          exact ⟨e0, off, hbP.snoc _ _ _ htag hbf (Nat.le_refl _) hoff (by omega), Nat.le_refl _⟩
      | iif pre cs f0 =>
        simp only []
        apply Safe.bind (closeIif_G c hn hidT hidF _ pre cs f0 rest rfl rfl hi rfl)
        intro s2 hs2
        obtain ⟨e1, e2, hctx⟩ := hs2
        exact finishC c hn s2 (by rw [e1]; exact hchain) hctx
      | loop pre f pc =>
        simp only [pure, Except.pure, bind, Except.bind]
        cases hs with
        | loop _ _ _ _ _ _ lvP loP chain' hsr ho hc hgc =>
          apply finishC c hn _ hc
          obtain ⟨k', hs'⟩ := hsr.demote hkt
          exact ⟨false, k', lvP, loP, chain', hs', (fun h => by cases h), (fun h => by cases h)⟩
      | ifT pre done cur curOff ioff =>
        simp only [pure, Except.pure, bind, Except.bind]
        apply finishC c hn _ hchain
        cases hs with
        | ifT _ _ _ _ _ _ _ _ lvP loP _ hsr hgc =>
          obtain ⟨k', hs'⟩ := hsr.demote hkt
          exact ⟨false, k', lv, loP, chain, hs', (fun h => by cases h), (fun h => by cases h)⟩


/-! ## block containers -/

theorem GInv.ctxOk {c : List Nat} {st : PState R} (hi : GInv c st) (hm : st.mtch ≠ 0) : CtxOk c st := by
  obtain ⟨g, k, lv, lo, chain, hs, hk, hg⟩ := hi.ctx
  refine ⟨g, k, lv, lo, chain, hs, hk, ?_⟩
  intro hgt
  obtain ⟨e0, hf⟩ := hg hgt
  refine ⟨e0, ?_⟩
  rcases hf with ⟨b, hb, hbo⟩ | ⟨he, _, hlo, _⟩
  · exact ⟨b, hb, by omega⟩
  · exact ⟨lo, by rw [he]; exact ListOk.nil (Nat.le_refl _) (by have := hi.off hm; omega), hlo⟩

/-- a match that changes nothing -/
theorem pass_G (c : List Nat) (hn : c.length + 16 < 4294967296) (st : PState R) (hi : GInv c st)
    (hm : st.mtch ≠ 0) : Safe (finderNext c st) (GInv c) :=
  finishG c hn st hi.chainOk (hi.ctxOk hm)

/-- `<loop …>` -/
theorem stepLoop_G (c : List Nat) (hn : c.length + 16 < 4294967296)
    (st : PState R) (hi : GInv c st) (hm : st.mtch = 7) : Safe (stepLoop c st) (GInv c) := by
  obtain ⟨g, k, lv, lo, chain, hs, hk, hg⟩ := hi.ctx
  obtain ⟨lvE, hlvE, hlvg⟩ := levels_pick hs (fun h => (hg h).1)
  have hml : mLen st.mtch = 5 := by rw [hm]; rfl
  obtain ⟨hcur1, hcur2⟩ := hi.cur
  have hcurw := hcur2 (by omega) (by omega) (by omega)
  have h5 : W1.loopPrefixLength = 5 := by decide
  have h5o : 5 ≤ st.off := by omega
  simp only [stepLoop]
  apply Safe.bind (finderNext_A c hn st (hi.off (by omega)))
  intro st1 hp1
  obtain ⟨p1, p2, p3, p4, p6⟩ := hp1
  have ho1 : st1.off ≤ c.length := p6.le
  have hstart := p6.start
  apply Safe.bind (skipW_facts c st1.off (· != W1.multiLineLastChar) ho1 st.off)
  intro gt hgt
  obtain ⟨g1, g2, _, g4, g5⟩ := hgt
  have hge : gt ≤ st1.off := g2 (by omega)
  split
  · rename_i hlt
    have hgn : gt < c.length := by omega
    have hc62 : c[gt]? = some 62 := by
      have := g5 hlt c[gt] (List.getElem?_eq_getElem hgn)
      rw [List.getElem?_eq_getElem hgn]
      simp only [show W1.multiLineLastChar = 62 by decide, bne_eq_false_iff_eq] at this
      rw [this]
    have hclean : ∀ i, st.off - 5 ≤ i → i < gt → ∀ x, c[i]? = some x → ¬ isStop x := by
      intro i hi1 hi2 x hx
      by_cases hin : i < st.off
      · exact hcurw i (by rw [hml]; omega) hin x hx
      · intro hstop
        rcases hstop with h125 | h62
        · by_cases hsk : i + mLen st1.mtch < st1.off
          · exact p6.skipped i (by omega) hsk x hx h125
          · by_cases hm2 : 2 ≤ st1.mtch
            · exact p6.word hm2 i (by omega) (by omega) x hx h125
            · have : st1.mtch = 0 ∨ st1.mtch = 1 := by omega
              rcases this with h0 | h1
              · rw [h0] at hsk; simp only [mLen] at hsk; omega
              · rw [h1] at hsk; simp only [mLen] at hsk
                have hi3 : i = st1.off - 1 := by omega
                omega
        · have := g4 i (by omega) hi2 x hx
          simp only [show W1.multiLineLastChar = 62 by decide, h62] at this
          exact absurd this (by decide)
    let tag0 : LoopFields := { off := st.off - W1.loopPrefixLength, level := trunc bits_LoopTag_Level st1.stack.length }
    have hatt0 : AttOk c.length lvE gt tag0 tag0 := by
      refine ⟨rfl, rfl, rfl, rfl, ?_, ?_, by simp [tag0, wfVar]⟩ <;> simp only [tag0, h5] <;> omega
    apply Safe.bind (parseLoopAttributes_safe c lvE gt hgn hc62 st1.loopChain (by rw [p3]; exact hi.chainOk)
      (by rw [p3]; exact hlvE) tag0 (gt + 2) (st.off - W1.loopPrefixLength + W1.loopPrefixLength) .none tag0
      (by simp only [tag0]; omega) (by rw [h5]; omega) hatt0)
    intro tag htag
    have hoff : tag.off = st.off - 5 := by rw [htag.off]; simp only [tag0, h5]
    have hco : trunc bits_LoopTag_ContentOffset (gt + W1.multiLineSuffixLength - (st.off - W1.loopPrefixLength)) ≤ gt + 1 - (st.off - 5) := by
      have := trunc_le bits_LoopTag_ContentOffset (gt + W1.multiLineSuffixLength - (st.off - W1.loopPrefixLength))
      have h1 : W1.multiLineSuffixLength = 1 := by decide
      rw [h1, h5] at this; rw [h1, h5]; exact this
    generalize trunc bits_LoopTag_ContentOffset (gt + W1.multiLineSuffixLength - (st.off - W1.loopPrefixLength)) = co at hco
    have hsafe : OpenSafe c { tag with contentOff := co } := by
      refine ⟨?_, ?_⟩
      · have := htag.value; simp only []; omega
      · intro i hi x hx
        have := htag.value
        simp only [] at hi hx
        exact hclean _ (by rw [hoff]; omega) (by omega) x hx
    have hstack := StackG.loop (c := c) st.storage { tag with contentOff := co } st.loopChain st.stack g k lv lo chain
      hs hsafe hi.chainOk (by
        intro hgt
        obtain ⟨e0, hf⟩ := hg hgt
        obtain ⟨b, hb, hbo⟩ := hf.first (by omega) (by omega)
        refine ⟨e0, ⟨?_, ?_, ?_⟩, b, hb, by simp only [hoff]; omega⟩
        · have := htag.set; rw [hlvg hgt] at this; exact this
        · have := htag.group; simp only []; omega
        · simp only [hoff]; omega)
    have hchain' : ChainOk c (refOf { tag with contentOff := co } :: st.loopChain) := by
      intro l hl
      rcases List.mem_cons.mp hl with h | h
      · subst h; exact ⟨hsafe.value, hsafe.clean⟩
      · exact hi.chainOk l h
    refine Safe.ok _ ⟨fun _ => ho1, p6.id, p6.curA, ?_, g, k, max lv (tag.level + 1), tag.off + co,
      refOf { tag with contentOff := co } :: chain, ?_, ?_, ?_⟩
    · simp only [push, p3]; exact hchain'
    · simp only [push, p1, p2, p3]; exact hstack
    · simp only [push]; rw [p4]; exact hk
    · intro hgt
      refine ⟨by simp only [push, p3, (hg hgt).1]; rfl, ?_⟩
      simp only [push]
      by_cases hfit : gt + 1 + mLen st1.mtch ≤ st1.off
      · refine Or.inl ⟨gt + 1, ListOk.nil (by simp only [hoff]; omega) (by omega), hfit⟩
      · refine Or.inr ⟨rfl, ?_, ?_, _, _, _, _, rfl⟩
        · by_cases hm2 : 2 ≤ st1.mtch
          · by_cases h8 : st1.mtch = 8
            · exact Or.inl h8
            · by_cases h10 : st1.mtch = 10
              · exact Or.inr h10
              · exfalso
                exact p6.nogt hm2 h8 h10 gt (by omega) hlt 62 hc62 rfl
          · exfalso
            have : st1.mtch = 0 ∨ st1.mtch = 1 := by omega
            rcases this with h0 | h1
            · rw [h0] at hfit; simp only [mLen] at hfit; omega
            · rw [h1] at hfit; simp only [mLen] at hfit
              have hi3 : gt = st1.off - 1 := by omega
              have := p6.close h1
              rw [← hi3, hc62] at this
              cases this
        · simp only [hoff]; omega
  · refine Safe.ok _ ⟨fun _ => ho1, p6.id, p6.curA, by rw [p3]; exact hi.chainOk, g, k, lv, lo, chain,
      by rw [p2]; exact hs, by rw [p4]; exact hk, ?_⟩
    intro hgt
    obtain ⟨e0, hf⟩ := hg hgt
    obtain ⟨b, hb, hbo⟩ := hf.first (by omega) (by omega)
    exact ⟨by rw [p3]; exact e0, Or.inl ⟨b, by rw [p1]; exact hb, by omega⟩⟩


/-- `</loop>` -/
theorem stepLoopEnd_G (c : List Nat) (hn : c.length + 16 < 4294967296)
    (st : PState R) (hi : GInv c st) (hm : st.mtch = 8) : Safe (stepLoopEnd c st) (GInv c) := by
  have hpass := pass_G c hn st hi (by omega)
  obtain ⟨storage, stack, chain0, child, off, mtch⟩ := st
  obtain ⟨g, k, lv, lo, chain, hs, hk, hg⟩ := hi.ctx
  have hoff0 := hi.off
  have hcur := hi.cur.1
  have hchain0 := hi.chainOk
  simp only [] at hs hk hg hm hoff0 hcur hchain0 hpass
  subst hm
  have hoff : off ≤ c.length := hoff0 (by omega)
  have h7 : off ≥ 7 := by simp only [mLen] at hcur; omega
  have hsuf : W1.loopSuffixLength = 7 := by decide
  simp only [stepLoopEnd]
  cases hs with
  | nil => cases chain0 <;> simpa [pure, Except.pure, bind, Except.bind] using hpass
  | ifT _ _ _ _ _ _ _ _ _ _ _ _ _ => cases chain0 <;> simpa [pure, Except.pure, bind, Except.bind] using hpass
  | svar _ _ _ _ _ _ _ _ _ _ _ _ _ => cases chain0 <;> simpa [pure, Except.pure, bind, Except.bind] using hpass
  | iif _ _ _ _ _ _ _ _ _ _ _ _ _ => cases chain0 <;> simpa [pure, Except.pure, bind, Except.bind] using hpass
  | loop pre f pc rest _ _ lvP loP chain' hsr ho hc hgc =>
    cases chain0 with
    | nil => simpa [pure, Except.pure, bind, Except.bind] using hpass
    | cons r0 rs =>
      simp only [pure, Except.pure, bind, Except.bind]
      apply finishG c hn _ hc
      simp only []
      refine ⟨g, k, lvP, loP, chain', hsr, hk, ?_⟩
      intro hgt
      obtain ⟨e0, hf⟩ := hg hgt
      obtain ⟨epc, hopen, bP, hbP, hbf⟩ := hgc hgt
      refine ⟨epc, ?_⟩
      by_cases hdrop : off - W1.loopSuffixLength < f.off + f.contentOff
      · simp only [hdrop, if_true]
        refine ⟨bP, hbP, ?_⟩
        rw [hsuf] at hdrop
        rcases hf with ⟨b, hb, hbo⟩ | ⟨_, _, hlo, _⟩
        · have hlob : f.off + f.contentOff ≤ b := wfTags_le _ _ _ _ _ hb.1
          simp only [mLen] at hbo
          omega
        · simp only [] at hlo; omega
      · simp only [hdrop, if_false]
        have hend : f.off + f.contentOff ≤ off - 7 := by rw [hsuf] at hdrop; omega
        have hsub : wfTags c.length (max lvP (f.level + 1)) (f.off + f.contentOff) (off - 7) storage = true := by
          rcases hf with ⟨b, hb, hbo⟩ | ⟨he, _, _, _⟩
          · simp only [mLen] at hbo
            exact wfTags_mono _ _ _ _ _ _ hb.1 (by omega) (by omega)
          · simp only [] at he; rw [he]; simp only [wfTags, decide_eq_true_eq]; omega
        have htag : wfTag c.length lvP (Tag.loop storage { f with endOff := off - W1.loopSuffixLength } : Tag R) =
            some (f.off, off) := by
          simp only [wfTag, hopen.set, Bool.or_true, Bool.true_and, hsuf, hsub, Bool.and_true]
          have hgr := hopen.group
          simp only [show (f.off + f.groupOff + f.groupLen ≤ c.length) from hgr, decide_true, Bool.true_and]
          rw [if_pos (by simp only [decide_eq_true_eq]; omega)]
          congr 2; omega
        exact ⟨off, hbP.snoc _ _ _ htag hbf (Nat.le_refl _) hoff (by omega), Nat.le_refl _⟩

/-- `<if case="…">` -/
theorem stepIf_G (cfg : ScanCfg R) (c : List Nat) (hn : c.length + 16 < 4294967296)
    (st : PState R) (hi : GInv c st) (hm : st.mtch = 9) : Safe (stepIf cfg c st) (GInv c) := by
  obtain ⟨g, k, lv, lo, chain, hs, hk, hg⟩ := hi.ctx
  obtain ⟨lvE, hlvE, hlvg⟩ := levels_pick hs (fun h => (hg h).1)
  have hml : mLen st.mtch = 3 := by rw [hm]; rfl
  have h3o : 3 ≤ st.off := by have := hi.cur.1; omega
  have h3 : W1.ifPrefixLength = 3 := by decide
  simp only [stepIf]
  apply Safe.bind (parseIfCase_safe c st.off)
  intro r hr
  obtain ⟨off', caseOff, caseEnd⟩ := r
  obtain ⟨hr1, hr2⟩ := hr
  simp only [] at hr1 hr2 ⊢
  refine Safe.bind (P := fun s2 : PState R => s2.loopChain = st.loopChain ∧ CtxOk c s2) ?_ ?_
  · split
    · rename_i hlt
      apply Safe.bind (exprs_L cfg c lvE st.loopChain hi.chainOk hlvE caseOff caseEnd (hr2 hlt))
      intro cs hcs
      refine Safe.ok _ ⟨rfl, g, k, lv, off', chain, ?_, hk, ?_⟩
      · simp only [push]
        exact .ifT st.storage [] cs off' (st.off - W1.ifPrefixLength) st.stack g k lv lo chain hs (by
          intro hgt
          obtain ⟨e0, hf⟩ := hg hgt
          obtain ⟨b, hb, hbo⟩ := hf.first (by omega) (by omega)
          have hw := itemsAll_wf c lvE _ cs hcs
          rw [hlvg hgt] at hw
          exact ⟨by simp [wfCases], hw, by rw [h3]; omega, by omega, b, hb, by rw [h3]; omega⟩)
      · intro hgt
        exact ⟨(hg hgt).1, off', by simp only [push]; exact ListOk.nil (Nat.le_refl _) (by omega), Nat.le_refl _⟩
    · refine Safe.ok _ ⟨rfl, g, k, lv, lo, chain, hs, hk, ?_⟩
      intro hgt
      obtain ⟨e0, hf⟩ := hg hgt
      obtain ⟨b, hb, hbo⟩ := hf.first (by omega) (by omega)
      exact ⟨e0, b, hb, by simp only []; omega⟩
  · intro s2 hs2
    exact finishG c hn s2 (by rw [hs2.1]; exact hi.chainOk) hs2.2

/-- `</if>` -/
theorem stepIfEnd_G (c : List Nat) (hn : c.length + 16 < 4294967296)
    (st : PState R) (hi : GInv c st) (hm : st.mtch = 10) : Safe (stepIfEnd c st) (GInv c) := by
  have hpass := pass_G c hn st hi (by omega)
  obtain ⟨storage, stack, chain0, child, off, mtch⟩ := st
  obtain ⟨g, k, lv, lo, chain, hs, hk, hg⟩ := hi.ctx
  have hoff0 := hi.off
  have hchain0 := hi.chainOk
  simp only [] at hs hk hg hm hoff0 hchain0 hpass
  subst hm
  have hoff : off ≤ c.length := hoff0 (by omega)
  have hsuf : W1.ifSuffixLength = 5 := by decide
  simp only [stepIfEnd]
  cases hs with
  | nil => exact hpass
  | loop _ _ _ _ _ _ _ _ _ _ _ _ _ => exact hpass
  | svar _ _ _ _ _ _ _ _ _ _ _ _ _ => exact hpass
  | iif _ _ _ _ _ _ _ _ _ _ _ _ _ => exact hpass
  | ifT pre done cur curOff0 off0 rest _ _ lvP loP _ hsr hgc =>
    apply finishG c hn _ hchain0
    simp only []
    refine ⟨g, k, lv, loP, chain, hsr, hk, ?_⟩
    intro hgt
    obtain ⟨e0, hf⟩ := hg hgt
    obtain ⟨hdone, hcurw, hoc, hcn, bP, hbP, hbf⟩ := hgc hgt
    refine ⟨e0, ?_⟩
    rcases hf with ⟨b, hb, hbo⟩ | ⟨_, _, _, _, _, _, _, hstk⟩
    · simp only [mLen] at hbo
      have hlob : lo ≤ b := wfTags_le _ _ _ _ _ hb.1
      have hsub : wfTags c.length lv lo (off - W1.ifSuffixLength) storage = true := by
        rw [hsuf]; exact wfTags_mono _ _ _ _ _ _ hb.1 (by omega) (by omega)
      have htag : wfTag c.length lv (Tag.ifT (done ++ [IfCase.mk cur storage lo (off - W1.ifSuffixLength)]) off0 off : Tag R) =
          some (off0, off) := by
        simp only [wfTag, wfCases_snoc, hdone, hcurw, hsub, Bool.and_true]
        rw [if_pos (by simp only [decide_eq_true_eq]; omega)]
      exact ⟨off, hbP.snoc _ _ _ htag hbf (Nat.le_refl _) hoff (by omega), Nat.le_refl _⟩
    · cases hstk


/-- `finder.Next()` from any offset (beyond the end: no match) -/
theorem finderNext_anyA (c : List Nat) (hn : c.length + 16 < 4294967296) (s : PState R) :
    Safe (finderNext c s) (fun s' => s'.storage = s.storage ∧ s'.stack = s.stack ∧
      s'.loopChain = s.loopChain ∧ s'.isChild = s.isChild ∧ s'.mtch ≤ 11 ∧ CurOk c s'.off s'.mtch ∧
      s.off + mLen s'.mtch ≤ s'.off ∧ (s'.mtch ≠ 0 → s'.off ≤ c.length) ∧
      (s.off ≤ c.length → s'.off ≤ c.length)) := by
  by_cases ho : s.off ≤ c.length
  · apply Safe.mono (finderNext_A c hn s ho)
    intro s' hp
    obtain ⟨p1, p2, p3, p4, p6⟩ := hp
    exact ⟨p1, p2, p3, p4, p6.id, p6.curA, p6.start, fun _ => p6.le, fun _ => p6.le⟩
  · rw [finderNext_beyond c s (by omega)]
    exact Safe.ok _ ⟨rfl, rfl, rfl, rfl, by simp, ⟨by simp [mLen], by intro h; simp at h⟩,
      by simp [mLen], fun h => absurd rfl h, fun h => absurd h ho⟩

/-- `<else>` / `<elseif case="…">` -/
theorem stepElse_G (cfg : ScanCfg R) (c : List Nat) (hn : c.length + 16 < 4294967296)
    (st : PState R) (hi : GInv c st) (hm : st.mtch = 11) : Safe (stepElse cfg c st) (GInv c) := by
  have hpass := pass_G c hn st hi (by omega)
  obtain ⟨storage, stack, chain0, child, off, mtch⟩ := st
  obtain ⟨g, k, lv, lo, chain, hs, hk, hg⟩ := hi.ctx
  have hoff0 := hi.off
  have hchain0 := hi.chainOk
  simp only [] at hs hk hg hm hoff0 hchain0 hpass
  subst hm
  have hoff : off ≤ c.length := hoff0 (by omega)
  have hpre : W1.elsePrefixLength = 5 := by decide
  simp only [stepElse]
  cases hs with
  | nil => exact hpass
  | loop _ _ _ _ _ _ _ _ _ _ _ _ _ => exact hpass
  | svar _ _ _ _ _ _ _ _ _ _ _ _ _ => exact hpass
  | iif _ _ _ _ _ _ _ _ _ _ _ _ _ => exact hpass
  | ifT pre done cur curOff0 off0 rest _ _ lvP loP _ hsr hgc =>
    obtain ⟨lvE, hlvE, hlvg⟩ := levels_pick hsr (fun h => (hg h).1)
    -- facts when clean
    have hcl : g = true → chain0 = chain ∧ wfCases c.length lv (done ++ [IfCase.mk cur storage lo (off - W1.elsePrefixLength)]) = true ∧
        off0 ≤ off ∧ ∃ bP, ListOk c.length lv loP bP pre ∧ bP ≤ off0 := by
      intro hgt
      obtain ⟨e0, hf⟩ := hg hgt
      obtain ⟨b, hb, hbo⟩ := hf.first (by simp) (by simp)
      simp only [mLen] at hbo
      obtain ⟨hdone, hcurw, hoc, hcn, bP, hbP, hbf⟩ := hgc hgt
      have hlob : lo ≤ b := wfTags_le _ _ _ _ _ hb.1
      refine ⟨e0, ?_, by omega, bP, hbP, hbf⟩
      rw [wfCases_snoc, hdone, hcurw, hpre]
      simp only [Bool.true_and]
      exact wfTags_mono _ _ _ _ _ _ hb.1 (by omega) (by omega)
    have hdropCtx : ∀ (o2 : Nat) (m2 : Nat), off ≤ o2 →
        CtxOk c ({ storage := pre, stack := rest, loopChain := chain0, isChild := child, off := o2, mtch := m2 } : PState R) := by
      intro o2 m2 ho2
      refine ⟨g, k, lv, loP, chain, hsr, hk, ?_⟩
      intro hgt
      obtain ⟨e0, _, h1, bP, hbP, hbf⟩ := hcl hgt
      exact ⟨e0, bP, hbP, by simp only []; omega⟩
    simp only []
    apply Safe.bind (elseScan_safe c (c.length + 1) off)
    intro r hr
    obtain ⟨o, isIfElse⟩ := r
    simp only [] at hr ⊢
    split
    · apply Safe.bind (parseIfCase_safe c o)
      intro r2 hr2
      obtain ⟨o', caseOff, caseEnd⟩ := r2
      obtain ⟨hr21, hr22⟩ := hr2
      simp only [] at hr21 hr22 ⊢
      apply Safe.bind (finderNext_anyA c hn _)
      intro s3 hp3
      obtain ⟨p1, p2, p3, p4, p5, p6, p7, p8, p9⟩ := hp3
      simp only [] at p1 p2 p3 p4 p7 p9
      split
      · rename_i hcond
        apply Safe.bind (exprs_L cfg c lvE s3.loopChain (by rw [p3]; exact hchain0) (by rw [p3]; exact hlvE)
          caseOff caseEnd (hr22 hcond.1))
        intro cs hcs
        refine Safe.ok _ ⟨p8, p5, p6, by simp only []; rw [p3]; exact hchain0, g, k, lv, o', chain, ?_,
          by simp only []; rw [p4]; exact hk, ?_⟩
        · simp only []
          exact .ifT pre _ cs o' off0 rest g k lv loP chain hsr (by
            intro hgt
            obtain ⟨e0, hd', h1, bP, hbP, hbf⟩ := hcl hgt
            have hw := itemsAll_wf c lvE _ cs hcs
            rw [hlvg hgt] at hw
            exact ⟨hd', hw, by omega, by omega, bP, hbP, hbf⟩)
        · intro hgt
          refine ⟨by simp only []; rw [p3]; exact (hcl hgt).1, Or.inl ⟨o', ListOk.nil (Nat.le_refl _) (by omega), p7⟩⟩
      · have := hdropCtx s3.off s3.mtch (by omega)
        apply finishG c hn _ (by simp only []; rw [p3]; exact hchain0)
        simp only [p3, p4]
        exact this
    · split
      · rename_i hlt
        apply finishG c hn _ hchain0
        simp only []
        refine ⟨g, k, lv, o + 1, chain, ?_, hk, ?_⟩
        · exact .ifT pre _ [] (o + 1) off0 rest g k lv loP chain hsr (by
            intro hgt
            obtain ⟨e0, hd', h1, bP, hbP, hbf⟩ := hcl hgt
            exact ⟨hd', by simp [wfItemVars], by omega, by omega, bP, hbP, hbf⟩)
        · intro hgt
          exact ⟨(hcl hgt).1, o + 1, ListOk.nil (Nat.le_refl _) (by omega), Nat.le_refl _⟩
      · apply finishG c hn _ hchain0
        exact hdropCtx off 11 (Nat.le_refl _)

/-- one iteration of the main loop -/
theorem step_G (cfg : ScanCfg R) (c : List Nat) (hn : c.length + 16 < 4294967296)
    (hidT : c.length < 2 ^ bits_InLineIfTag_TrueTagsStartID)
    (hidF : c.length < 2 ^ bits_InLineIfTag_FalseTagsStartID)
    (st : PState R) (hi : GInv c st) (hm : st.mtch ≠ 0) : Safe (step cfg c st) (GInv c) := by
  have hcases : st.mtch = 1 ∨ st.mtch = 2 ∨ st.mtch = 3 ∨ st.mtch = 4 ∨ st.mtch = 5 ∨ st.mtch = 6 ∨
      st.mtch = 7 ∨ st.mtch = 8 ∨ st.mtch = 9 ∨ st.mtch = 10 ∨ st.mtch = 11 := by
    have := hi.mtch; omega
  rcases hcases with h1 | h2 | h3 | h4 | h5 | h6 | h7 | h8 | h9 | h10 | h11
  · have hstep : step cfg c st = stepLineEnd c st := by simp only [step, h1]; rfl
    rw [hstep]; exact stepLineEnd_G c hn hidT hidF st hi h1
  · have hstep : step cfg c st = stepVar c st false := by simp only [step, h2]; rfl
    rw [hstep]; exact stepVar_G c hn st hi false (Or.inl h2)
  · have hstep : step cfg c st = stepVar c st true := by simp only [step, h3]; rfl
    rw [hstep]; exact stepVar_G c hn st hi true (Or.inr h3)
  · have hstep : step cfg c st = stepMath cfg c st := by simp only [step, h4]; rfl
    rw [hstep]; exact stepMath_G cfg c hn st hi h4
  · have hstep : step cfg c st = stepSvar c st := by simp only [step, h5]; rfl
    rw [hstep]; exact stepSvar_G c hn st hi h5
  · have hstep : step cfg c st = stepIif cfg c st := by simp only [step, h6]; rfl
    rw [hstep]; exact stepIif_G cfg c hn st hi h6
  · have hstep : step cfg c st = stepLoop c st := by simp only [step, h7]; rfl
    rw [hstep]; exact stepLoop_G c hn st hi h7
  · have hstep : step cfg c st = stepLoopEnd c st := by simp only [step, h8]; rfl
    rw [hstep]; exact stepLoopEnd_G c hn st hi h8
  · have hstep : step cfg c st = stepIf cfg c st := by simp only [step, h9]; rfl
    rw [hstep]; exact stepIf_G cfg c hn st hi h9
  · have hstep : step cfg c st = stepIfEnd c st := by simp only [step, h10]; rfl
    rw [hstep]; exact stepIfEnd_G c hn st hi h10
  · have hstep : step cfg c st = stepElse cfg c st := by simp only [step, h11]; rfl
    rw [hstep]; exact stepElse_G cfg c hn st hi h11

theorem parseMain_G (cfg : ScanCfg R) (c : List Nat) (hn : c.length + 16 < 4294967296)
    (hidT : c.length < 2 ^ bits_InLineIfTag_TrueTagsStartID)
    (hidF : c.length < 2 ^ bits_InLineIfTag_FalseTagsStartID) :
    ∀ (fuel : Nat) (st : PState R), GInv c st → Safe (parseMain cfg c fuel st) (GInv c) := by
  intro fuel
  induction fuel with
  | zero => intro st _; simp only [parseMain]; exact Safe.fuel
  | succ fuel ih =>
    intro st hi
    simp only [parseMain]
    split
    · rename_i hm
      apply Safe.bind (step_G cfg c hn hidT hidF st hi hm)
      intro st' hst'
      exact ih st' hst'
    · exact Safe.ok _ hi

/-- whatever is still open at the end is dropped: the list below the lowest container remains, and
it is clean -/
theorem cleanup_G (c : List Nat) : ∀ (stack : List (Frame R)) (g k : Bool) (lv lo : Nat) (chain : List LoopRef)
    (storage : List (Tag R)), StackG c stack g k lv lo chain →
    (stack = [] → ∃ b, wfTags c.length 0 0 b storage = true) →
    wfTags c.length 0 0 c.length (cleanup stack storage) = true := by
  intro stack
  induction stack with
  | nil =>
    intro g k lv lo chain storage _ hb
    obtain ⟨b, hb⟩ := hb rfl
    simp only [cleanup]
    exact wfTags_mono _ _ _ _ _ _ hb (wfTags_bounds _ _ _ _ _ hb) (Nat.le_refl _)
  | cons fr rest ih =>
    intro g k lv lo chain storage hs _
    have hbot : ∀ (g' k' : Bool) (lvP loP : Nat) (ch : List LoopRef) (pre : List (Tag R)),
        StackG c rest g' k' lvP loP ch →
        (g' = true → ∃ b, ListOk c.length lvP loP b pre) →
        wfTags c.length 0 0 c.length (cleanup rest pre) = true := by
      intro g' k' lvP loP ch pre hsr hpre
      apply ih g' k' lvP loP ch pre hsr
      intro hnil
      subst hnil
      cases hsr
      obtain ⟨b, hb⟩ := hpre rfl
      exact ⟨b, hb.1⟩
    cases hs with
    | loop pre f pc rest g k lvP loP chain hsr ho hc hgc =>
      simp only [cleanup, Frame.pre]
      exact hbot g k lvP loP chain pre hsr (fun h => by obtain ⟨_, _, b, hb, _⟩ := hgc h; exact ⟨b, hb⟩)
    | ifT pre done cur curOff off rest g k lvP loP chain hsr hgc =>
      simp only [cleanup, Frame.pre]
      exact hbot g k _ loP chain pre hsr (fun h => by obtain ⟨_, _, _, _, b, hb, _⟩ := hgc h; exact ⟨b, hb⟩)
    | svar pre v off rest g' gOut k lvP loP chain hsr hgo hgc =>
      simp only [cleanup, Frame.pre]
      exact hbot g' k _ loP chain pre hsr (fun h => by obtain ⟨_, _, b, hb, _⟩ := hgc h; exact ⟨b, hb⟩)
    | iif pre cs f rest g' gOut k lvP loP chain hsr hgo hgc =>
      simp only [cleanup, Frame.pre]
      exact hbot g' k _ loP chain pre hsr (fun h => by obtain ⟨_, _, b, hb, _⟩ := hgc h; exact ⟨b, hb⟩)

/-- **`parse_wf`** — for every content (below the 32-bit size limit; the start-id fields of the
inline-if record wide enough for the content), every number reader: the tag scanner makes no
out-of-range read and the tag tree it returns is well-formed. -/
theorem parse_wf_all (cfg : ScanCfg R) (c : List Nat) (hn : c.length + 16 < 4294967296)
    (hidT : c.length < 2 ^ bits_InLineIfTag_TrueTagsStartID)
    (hidF : c.length < 2 ^ bits_InLineIfTag_FalseTagsStartID) :
    Safe (parse cfg c) (fun tags => wf c.length tags = true) := by
  simp only [parse]
  apply Safe.bind (finderNext_A c hn ({} : PState R) (Nat.zero_le _))
  intro st0 hp
  obtain ⟨p1, p2, p3, p4, p6⟩ := hp
  have hi0 : GInv c st0 := by
    refine ⟨fun _ => p6.le, p6.id, p6.curA, (by rw [p3]; intro l hl; cases hl), true, false, 0, 0, [],
      (by rw [p2]; exact .nil), (by rw [p4]; intro h; cases h), fun _ => ⟨p3, Or.inl ⟨0, ?_, ?_⟩⟩⟩
    · rw [p1]; exact ListOk.nil (Nat.le_refl _) (Nat.zero_le _)
    · have := p6.start; simpa using this
  apply Safe.bind (parseMain_G cfg c hn hidT hidF _ st0 hi0)
  intro st' hi'
  obtain ⟨g, k, lv, lo, chain, hs, hk, hg⟩ := hi'.ctx
  refine Safe.ok _ ?_
  simp only [wf]
  apply cleanup_G c st'.stack g k lv lo chain st'.storage hs
  intro hnil
  rw [hnil] at hs
  cases hs
  obtain ⟨_, hf⟩ := hg rfl
  rcases hf with ⟨b, hb, _⟩ | ⟨_, _, _, _, _, _, _, hstk⟩
  · exact ⟨b, hb.1⟩
  · rw [hnil] at hstk; cases hstk

/-- parse + render makes no out-of-range access: every content, every value -/
theorem render_safe_all [RealLike R] (cx : RCtx R) (hg : cx.guardIndexRead = true)
    (cfg : ScanCfg R) (hn : cx.content.length + 16 < 4294967296)
    (hidT : cx.content.length < 2 ^ bits_InLineIfTag_TrueTagsStartID)
    (hidF : cx.content.length < 2 ^ bits_InLineIfTag_FalseTagsStartID) (fuel : Nat) :
    Safe ((parse cfg cx.content).bind (fun tags => renderTop cx tags fuel)) (fun _ => True) := by
  have hp := parse_wf_all cfg cx.content hn hidT hidF
  cases hpe : parse cfg cx.content with
  | error e => rw [hpe] at hp; exact hp
  | ok tags =>
    rw [hpe] at hp
    exact render_safe_of_wf cx hg tags hp fuel

end Qentem.Tmpl
