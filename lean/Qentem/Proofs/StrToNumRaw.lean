import Qentem.Proofs.StrToNumRound
/-! C09 helper lemmas: the "raw" (uncapped) binary64 pattern of a positive integer value as the
specification computes it (`specRaw`, round-half-even) and as the code computes it from a big
integer `b` and a binary exponent `s` (`codeRaw`, truncate-then-half-up); they differ by at most one
when `b·2^s` is short of the exact value by less than half a unit in the last place. -/
namespace Qentem.Round

theorem log2_eq_iff (n k : Nat) (hn : n ≠ 0) : Nat.log2 n = k ↔ 2 ^ k ≤ n ∧ n < 2 ^ (k + 1) := by
  constructor
  · intro h; subst h
    exact ⟨(Nat.le_log2 hn).1 (Nat.le_refl _), (Nat.log2_lt hn).1 (Nat.lt_succ_self _)⟩
  · intro ⟨h1, h2⟩
    have a := (Nat.le_log2 hn).2 h1
    have b := (Nat.log2_lt hn).2 h2
    omega

theorem log2_bounds (n : Nat) (hn : n ≠ 0) : 2 ^ Nat.log2 n ≤ n ∧ n < 2 ^ (Nat.log2 n + 1) :=
  (log2_eq_iff n _ hn).1 rfl

def cap (x : Nat) : Nat := if x ≥ infBits then infBits else x

theorem cap_close (a b : Nat) (h1 : a ≤ b + 1) (h2 : b ≤ a + 1) : ulpDist (cap a) (cap b) ≤ 1 := by
  unfold ulpDist cap infBits
  by_cases ha : a ≥ 0x7FF0000000000000 <;> by_cases hb : b ≥ 0x7FF0000000000000 <;> simp only [ha, hb, if_true, if_false] <;>
    first | omega | (split <;> omega)

/-- the specification's pattern for the positive integer `V`, before the overflow cap -/
def specRaw (V : Nat) : Nat :=
  (Nat.log2 V + 1022) * 2 ^ 52 + (if Nat.log2 V ≤ 52 then V * 2 ^ (52 - Nat.log2 V) else rne V (2 ^ (Nat.log2 V - 52)))

theorem nearestMag_nat (V : Nat) (hV : 0 < V) : nearestMag V 1 = cap (specRaw V) := by
  have hV0 : V ≠ 0 := by omega
  have hle := (log2_bounds V hV0).1
  unfold nearestMag
  have hne : ¬ (V = 0 ∨ (1 : Nat) = 0) := by omega
  simp only [hne, if_false]
  have hfl : floorLog2Frac V 1 = (Nat.log2 V : Int) := by
    unfold floorLog2Frac
    have h1 : Nat.log2 1 = 0 := by decide
    simp only [h1, Int.natCast_zero, Int.sub_zero]
    have h2 : (-(Nat.log2 V : Int)).toNat = 0 := by omega
    have h3 : ((Nat.log2 V : Int)).toNat = Nat.log2 V := by omega
    rw [h2, h3]
    simp [hle]
  simp only [hfl]
  have hnl : ¬ ((Nat.log2 V : Int) < -1022) := by omega
  simp only [hnl, if_false]
  have h4 : ((Nat.log2 V : Int) + 1022).toNat = Nat.log2 V + 1022 := by omega
  rw [h4]
  unfold cap specRaw
  by_cases hL : Nat.log2 V ≤ 52
  · have h5 : ((52 : Int) - (Nat.log2 V : Int)).toNat = 52 - Nat.log2 V := by omega
    have h6 : (-((52 : Int) - (Nat.log2 V : Int))).toNat = 0 := by omega
    simp only [h5, h6, hL, if_true, Nat.pow_zero, Nat.mul_one, rne_one]
  · have h5 : ((52 : Int) - (Nat.log2 V : Int)).toNat = 0 := by omega
    have h6 : (-((52 : Int) - (Nat.log2 V : Int))).toNat = Nat.log2 V - 52 := by omega
    simp only [h5, h6, hL, if_false, Nat.pow_zero, Nat.mul_one, Nat.one_mul]

/-- the code's pattern from the big integer `b` and the binary exponent `s`, before the cap -/
def codeRaw (b s : Nat) : Nat :=
  (Nat.log2 b + s + 1022) * 2 ^ 52 +
    (if Nat.log2 b ≤ 52 then b * 2 ^ (52 - Nat.log2 b) else halfUp b (2 ^ (Nat.log2 b - 53)))

theorem halfUp_scale (b J P : Nat) (hP : 0 < P) : halfUp (b * P) (J * P) = halfUp b J := by
  unfold halfUp
  rw [Nat.mul_div_mul_right _ _ hP]

theorem log2_mul_pow (b s : Nat) (hb : b ≠ 0) : Nat.log2 (b * 2 ^ s) = Nat.log2 b + s := by
  have hP : 0 < 2 ^ s := Nat.pow_pos (by decide)
  have hne : b * 2 ^ s ≠ 0 := Nat.mul_ne_zero hb (by omega)
  obtain ⟨h1, h2⟩ := log2_bounds b hb
  rw [log2_eq_iff _ _ hne]
  constructor
  · rw [Nat.pow_add]; exact Nat.mul_le_mul_right _ h1
  · rw [show Nat.log2 b + s + 1 = (Nat.log2 b + 1) + s by omega, Nat.pow_add]
    exact Nat.mul_lt_mul_of_pos_right h2 hP

theorem halfUp_ge (B V h : Nat) (hh : 0 < h) (h1 : B ≤ V) (h2 : V < B + h) : V / (2 * h) ≤ halfUp B h := by
  obtain ⟨t, r0, hB, hr0⟩ : ∃ t r0, B = h * t + r0 ∧ r0 < h := ⟨B / h, B % h, (Nat.div_add_mod B h).symm, Nat.mod_lt _ hh⟩
  obtain ⟨q, hb, ht, hhb⟩ : ∃ q hb, t = 2 * q + hb ∧ hb < 2 := ⟨t / 2, t % 2, (Nat.div_add_mod t 2).symm, Nat.mod_lt _ (by decide)⟩
  have hBt : B / h = t := by rw [hB, Nat.mul_add_div hh, Nat.div_eq_of_lt hr0]; rfl
  have hcode : halfUp B h = q + hb := by
    unfold halfUp; rw [hBt, ht]
    have : (2 * q + hb) % 2 = hb := by omega
    rw [this]; omega
  rw [hcode]
  have hlt : V < 2 * h * (q + hb + 1) := by
    rcases Nat.lt_or_ge hb 1 with h0 | h0
    · have hb0 : hb = 0 := by omega
      subst hb0
      have e0 : h * t = 2 * (h * q) := by rw [ht]; ring
      have e1 : 2 * h * (q + 0 + 1) = 2 * (h * q) + 2 * h := by ring
      rw [e1]; omega
    · have hb1 : hb = 1 := by omega
      subst hb1
      have e0 : h * t = 2 * (h * q) + h := by rw [ht]; ring
      have e1 : 2 * h * (q + 1 + 1) = 2 * (h * q) + 4 * h := by ring
      rw [e1]; omega
  have := (Nat.div_lt_iff_lt_mul (show 0 < 2 * h by omega)).2 (by rw [Nat.mul_comm]; exact hlt)
  omega

/-- the specification's pattern with truncation instead of rounding: a lower bound of both -/
def floorRaw (V : Nat) : Nat :=
  (Nat.log2 V + 1022) * 2 ^ 52 + (if Nat.log2 V ≤ 52 then V * 2 ^ (52 - Nat.log2 V) else V / 2 ^ (Nat.log2 V - 52))

/-- **Patterns are within one.** `V` is the exact integer value; the code holds `b·2^s ≤ V`, exact
when `b` has at most 53 bits, otherwise short by less than half a unit in the last place. -/
theorem raw_close (b s V : Nat) (hb : 0 < b) (h1 : b * 2 ^ s ≤ V)
    (hsmall : Nat.log2 b ≤ 52 → V = b * 2 ^ s)
    (hbig : 52 < Nat.log2 b → V < b * 2 ^ s + 2 ^ (Nat.log2 b - 53) * 2 ^ s) :
    specRaw V ≤ codeRaw b s + 1 ∧ codeRaw b s ≤ specRaw V + 1 ∧ floorRaw V ≤ codeRaw b s ∧
    ((52 < Nat.log2 b → Nat.log2 V = Nat.log2 b + s →
      (V % (2 * (2 ^ (Nat.log2 b - 53) * 2 ^ s)) + (V - b * 2 ^ s) < 2 ^ (Nat.log2 b - 53) * 2 ^ s ∨
       2 ^ (Nat.log2 b - 53) * 2 ^ s + (V - b * 2 ^ s) < V % (2 * (2 ^ (Nat.log2 b - 53) * 2 ^ s)))) →
      specRaw V = codeRaw b s) := by
  have hb0 : b ≠ 0 := by omega
  have hP : 0 < 2 ^ s := Nat.pow_pos (by decide)
  obtain ⟨hlo, hhi⟩ := log2_bounds b hb0
  by_cases hbit : Nat.log2 b ≤ 52
  · -- exact: both sides are the same number
    have hV := hsmall hbit
    have hL : Nat.log2 V = Nat.log2 b + s := by rw [hV]; exact log2_mul_pow b s hb0
    have heq : specRaw V = codeRaw b s := by
      unfold specRaw codeRaw
      rw [hL]; simp only [hbit, if_true]
      congr 1
      by_cases hLs : Nat.log2 b + s ≤ 52
      · simp only [hLs, if_true]
        rw [hV, Nat.mul_assoc, ← Nat.pow_add]
        congr 2; omega
      · simp only [hLs, if_false]
        have e : V = (b * 2 ^ (52 - Nat.log2 b)) * 2 ^ (Nat.log2 b + s - 52) := by
          rw [hV, Nat.mul_assoc, ← Nat.pow_add]; congr 2; omega
        rw [e]; exact rne_exact _ _ (Nat.pow_pos (by decide))
    have hfl : floorRaw V ≤ specRaw V := by
      unfold floorRaw specRaw
      split
      · exact Nat.le_refl _
      · exact Nat.add_le_add_left (rne_ge _ _ (Nat.pow_pos (by decide))) _
    exact ⟨by omega, by omega, by omega, fun _ => heq⟩
  · have hbit' : 52 < Nat.log2 b := by omega
    have hV2 := hbig hbit'
    obtain ⟨j, hj⟩ : ∃ j, Nat.log2 b = 53 + j := ⟨Nat.log2 b - 53, by omega⟩
    have hj' : Nat.log2 b - 53 = j := by omega
    rw [hj'] at hV2 ⊢
    -- names: J = 2^j, P = 2^s, h = J*P (half a unit), B = b*P
    have hJ : 0 < 2 ^ j := Nat.pow_pos (by decide)
    have hh : 0 < 2 ^ j * 2 ^ s := Nat.mul_pos hJ hP
    have hblo : 2 ^ 53 * 2 ^ j ≤ b := by rw [← Nat.pow_add, ← hj]; exact hlo
    have hbhi : b < 2 ^ 54 * 2 ^ j := by
      rw [← Nat.pow_add, show 54 + j = Nat.log2 b + 1 by omega]; exact hhi
    have hBlo : 2 ^ 53 * (2 ^ j * 2 ^ s) ≤ b * 2 ^ s := by
      rw [← Nat.mul_assoc]; exact Nat.mul_le_mul_right _ hblo
    have hBhi : b * 2 ^ s < 2 ^ 54 * (2 ^ j * 2 ^ s) := by
      rw [← Nat.mul_assoc]; exact Nat.mul_lt_mul_of_pos_right hbhi hP
    have hV0 : V ≠ 0 := by
      have : 0 < b * 2 ^ s := Nat.mul_pos hb hP
      omega
    have hcode : codeRaw b s = (53 + j + s + 1022) * 2 ^ 52 + halfUp (b * 2 ^ s) (2 ^ j * 2 ^ s) := by
      unfold codeRaw
      rw [hj]; simp only [show ¬ (53 + j ≤ 52) by omega, if_false, show 53 + j - 53 = j by omega]
      rw [halfUp_scale b (2 ^ j) (2 ^ s) hP]
    generalize hB : b * 2 ^ s = B at *
    generalize hH : 2 ^ j * 2 ^ s = h at *
    have hpow : ∀ a, 2 ^ (a + j + s) = 2 ^ a * h := by
      intro a; rw [Nat.pow_add, Nat.pow_add, Nat.mul_assoc, hH]
    by_cases hVb : V < 2 ^ 54 * h
    · -- same binade
      have hL : Nat.log2 V = 53 + j + s := by
        rw [log2_eq_iff _ _ hV0]
        constructor
        · rw [hpow 53]; omega
        · rw [show 53 + j + s + 1 = 54 + j + s by omega, hpow 54]; exact hVb
      have hspec : specRaw V = (53 + j + s + 1022) * 2 ^ 52 + rne V (2 * h) := by
        unfold specRaw
        rw [hL]; simp only [show ¬ (53 + j + s ≤ 52) by omega, if_false]
        rw [show 53 + j + s - 52 = 1 + j + s by omega, hpow 1, Nat.pow_one]
      obtain ⟨k1, k2⟩ := rne_vs_halfUp B V h hh h1 hV2
      have k3 := halfUp_ge B V h hh h1 hV2
      have hfloor : floorRaw V = (53 + j + s + 1022) * 2 ^ 52 + V / (2 * h) := by
        unfold floorRaw
        rw [hL]; simp only [show ¬ (53 + j + s ≤ 52) by omega, if_false]
        rw [show 53 + j + s - 52 = 1 + j + s by omega, hpow 1, Nat.pow_one]
      rw [hspec, hcode, hfloor]
      refine ⟨by omega, by omega, by omega, fun hm => ?_⟩
      rw [halfUp_eq_rne_of_margin B V h hh h1 hV2 (hm hbit' (by rw [hL, hj]))]
    · -- the exact value is already in the next binade: both give its first pattern
      have hVb' : 2 ^ 54 * h ≤ V := by omega
      have hL : Nat.log2 V = 54 + j + s := by
        rw [log2_eq_iff _ _ hV0]
        constructor
        · rw [hpow 54]; exact hVb'
        · rw [show 54 + j + s + 1 = 55 + j + s by omega, hpow 55]
          have : (2 : Nat) ^ 55 * h = 2 ^ 54 * h + 2 ^ 54 * h := by
            rw [show (2 : Nat) ^ 55 = 2 ^ 54 + 2 ^ 54 by decide]; ring
          have : h ≤ 2 ^ 54 * h := Nat.le_mul_of_pos_left _ (by decide)
          omega
      obtain ⟨d, hd⟩ : ∃ d, V = 2 ^ 54 * h + d := ⟨V - 2 ^ 54 * h, by omega⟩
      have hdh : d < h := by omega
      have hr : rne V (4 * h) = 2 ^ 52 := by
        have e : V = 4 * h * 2 ^ 52 + d := by
          rw [hd, show (2 : Nat) ^ 54 = 4 * 2 ^ 52 by decide]; ring
        rw [e, rne_decomp (2 ^ 52) d (4 * h) (by omega)]
        have : 2 * d < 4 * h := by omega
        simp [this]
      have hspec : specRaw V = (54 + j + s + 1022) * 2 ^ 52 + 2 ^ 52 := by
        unfold specRaw
        rw [hL]; simp only [show ¬ (54 + j + s ≤ 52) by omega, if_false]
        rw [show 54 + j + s - 52 = 2 + j + s by omega, hpow 2, show (2 : Nat) ^ 2 = 4 by decide, hr]
      have hBh : B / h = 2 ^ 54 - 1 := by
        apply Nat.div_eq_of_lt_le
        · -- (2^54 - 1) * h ≤ B
          have : (2 ^ 54 - 1) * h + h = 2 ^ 54 * h := by
            rw [← Nat.succ_mul]; congr 1
          omega
        · have : (2 ^ 54 - 1 + 1) * h = 2 ^ 54 * h := by congr 1
          omega
      have hhu : halfUp B h = 2 ^ 53 := by
        unfold halfUp; rw [hBh]; decide
      have hfloor : floorRaw V = (54 + j + s + 1022) * 2 ^ 52 + 2 ^ 52 := by
        unfold floorRaw
        rw [hL]; simp only [show ¬ (54 + j + s ≤ 52) by omega, if_false]
        rw [show 54 + j + s - 52 = 2 + j + s by omega, hpow 2, show (2 : Nat) ^ 2 = 4 by decide]
        have e : V = 4 * h * 2 ^ 52 + d := by
          rw [hd, show (2 : Nat) ^ 54 = 4 * 2 ^ 52 by decide]; ring
        have e2 : V / (4 * h) = 2 ^ 52 := by
          rw [e, Nat.mul_add_div (by omega), Nat.div_eq_of_lt (by omega), Nat.add_zero]
        rw [e2]
      rw [hspec, hcode, hhu, hfloor]
      have : (54 + j + s + 1022) * 2 ^ 52 = (53 + j + s + 1022) * 2 ^ 52 + 2 ^ 52 := by ring
      exact ⟨by omega, by omega, by omega, fun _ => by rw [this]; ring⟩

end Qentem.Round
