import Qentem.Proofs.ValueLedger
/-! Accounting lemmas for the subscripts and the leaf actions of the Value trace model. -/
namespace Qentem.ValueLedger
open Qentem.Value Qentem.Ledger Qentem.HashLedger

/-- `f` turns the blocks of the referenced value plus `extra` into the blocks of its result. -/
def Good (f : LDoc → LM LDoc) (extra : List Nat) : Prop :=
  ∀ v, Acc (f v) (owned v ++ extra) (fun v' => owned v')

/-- run `m` (which consumes `pre1`) while `F` stays live, then continue. -/
theorem Acc.bindF {α β : Type} {m : LM α} {f : α → LM β} {pre pre1 : List Nat} {mid : α → List Nat} {post : β → List Nat}
    (F : List Nat) (hm : Acc m pre1 mid) (hp : pre.Perm (pre1 ++ F)) (hf : ∀ a, Acc (f a) (mid a ++ F) post) :
    Acc (LM.bind m f) pre post :=
  Acc.bind ((hm.frame F).permPre hp) hf

theorem Acc_tableResize (b : Option Nat) (slots : List LSlot) (n : Nat) :
    Acc (tableResize b slots n) (ownedSlots slots ++ optId b) (fun t => ownedSlots t.2.2 ++ optId t.1) := by
  unfold tableResize
  refine Acc.bindF (ownedSlots slots ++ optId b) Acc_alloc (by perm_count) (fun nb => ?_)
  refine Acc.bindF ([nb] ++ ownedSlots slots) (Acc_freeOpt b) (by perm_count) (fun _ => Acc.pure' _ _ _ (by perm_count))

theorem Acc_tableExpandIfFull (b : Option Nat) (c : Nat) (slots : List LSlot) :
    Acc (tableExpandIfFull b c slots) (ownedSlots slots ++ optId b) (fun t => ownedSlots t.2.2 ++ optId t.1) := by
  unfold tableExpandIfFull
  split
  · exact Acc_tableResize _ _ _
  · exact Acc.pure' _ _ _ (List.Perm.refl _)

theorem Acc_arrayRealloc (b : Option Nat) (n : Nat) :
    Acc (arrayRealloc b n) (optId b) (fun g => optId g.1) := by
  unfold arrayRealloc
  refine Acc.bindF (optId b) Acc_alloc (by perm_count) (fun nb => ?_)
  refine Acc.bindF [nb] (Acc_freeOpt b) (by perm_count) (fun _ => Acc.pure' _ _ _ (by perm_count))

theorem Acc_arrayGrowIfFull (b : Option Nat) (c size : Nat) :
    Acc (arrayGrowIfFull b c size) (optId b) (fun g => optId g.1) := by
  unfold arrayGrowIfFull
  split
  · exact Acc_arrayRealloc _ _
  · exact Acc.pure' _ _ _ (List.Perm.refl _)

/-- find-or-insert: `ek` are the caller's key blocks (consumed either way), `extra` what `f` consumes. -/
theorem Acc_slotUpdL (k : List Nat) (newKey : LM Nat) (found : LM Unit) (f : LDoc → LM LDoc) (ek extra : List Nat)
    (hnew : Acc newKey ek (fun kid => [kid])) (hfound : Acc found ek (fun _ => [])) (hf : Good f extra) :
    ∀ s, Acc (slotUpdL k newKey found f s) (ownedSlots s ++ (ek ++ extra)) (fun s' => ownedSlots s') := by
  intro s
  induction s with
  | nil =>
    simp only [slotUpdL]
    refine Acc.bindF extra hnew (by perm_count) (fun kid => ?_)
    refine Acc.bindF [kid] (hf .undef) (by perm_count) (fun v => Acc.pure' _ _ _ (by perm_count))
  | cons a t ih =>
    cases a with
    | none =>
      simp only [slotUpdL]
      refine Acc.bindF [] ih (by perm_count) (fun r' => Acc.pure' _ _ _ (by perm_count))
    | some e =>
      obtain ⟨kid, k', v⟩ := e
      simp only [slotUpdL]
      split
      · refine Acc.bindF (owned v ++ extra ++ (kid :: ownedSlots t)) hfound (by perm_count) (fun _ => ?_)
        refine Acc.bindF (kid :: ownedSlots t) (hf v) (by perm_count) (fun v' => Acc.pure' _ _ _ (by perm_count))
      · refine Acc.bindF (owned v ++ [kid]) ih (by perm_count) (fun r' => Acc.pure' _ _ _ (by perm_count))

theorem Acc_callerKey (kv : KV) : Acc (callerKey kv) [] (fun ck => ck.ids) := by
  cases kv with
  | plain => exact Acc.pure' _ _ _ (by simp [CKey.ids])
  | moved => exact Acc.bind (mid := fun t => [t]) Acc_alloc (fun t => Acc.pure' _ _ _ (by simp [CKey.ids]))
  | constCopy => exact Acc.bind (mid := fun t => [t]) Acc_alloc (fun t => Acc.pure' _ _ _ (by simp [CKey.ids]))

theorem Acc_newKeyOf (ck : CKey) : Acc (newKeyOf ck) ck.ids (fun kid => [kid]) := by
  cases ck with
  | plain => exact Acc_alloc
  | moved t => exact Acc.pure' _ _ _ (by simp [CKey.ids])
  | constCopy t =>
    simp only [newKeyOf, CKey.ids]
    refine Acc.bindF [t] Acc_alloc (by perm_count) (fun kid => ?_)
    refine Acc.bindF [kid] (Acc_freeB t) (by perm_count) (fun _ => Acc.pure' _ _ _ (by perm_count))

theorem Acc_foundOf (ck : CKey) : Acc (foundOf ck) ck.ids (fun _ => []) := by
  cases ck with
  | plain => exact Acc.pure' _ _ _ (by simp [CKey.ids])
  | moved t => exact Acc_freeB t
  | constCopy t => exact Acc_freeB t

theorem Good_updKeyL (k : List Nat) (kv : KV) (f : LDoc → LM LDoc) (extra : List Nat) (hf : Good f extra) :
    Good (updKeyL k kv f) extra := by
  intro d
  unfold updKeyL
  refine Acc.bindF (owned d ++ extra) (Acc_callerKey kv) (by perm_count) (fun ck => ?_)
  refine Acc.bind (mid := fun o => ownedSlots o.2.2 ++ optId o.1 ++ (ck.ids ++ extra)) ?_ (fun o => ?_)
  · cases d with
    | obj b c s => exact Acc.pure' _ _ _ (by perm_count)
    | _ => exact Acc.bindF (ck.ids ++ extra) (Acc_dispose _) (by perm_count) (fun _ => Acc.pure' _ _ _ (by perm_count))
  refine Acc.bindF (ck.ids ++ extra) (Acc_tableExpandIfFull o.1 o.2.1 o.2.2) (by perm_count) (fun e => ?_)
  refine Acc.bindF (optId e.1) (Acc_slotUpdL k _ _ f ck.ids extra (Acc_newKeyOf ck) (Acc_foundOf ck) hf e.2.2)
    (by perm_count) (fun s' => Acc.pure' _ _ _ (by perm_count))

theorem Acc_setAtIdxL (f : LDoc → LM LDoc) (extra : List Nat) (hf : Good f extra) :
    ∀ (l : List LDoc) (i : Nat), i < l.length →
      Acc (setAtIdxL i f l) (ownedItems l ++ extra) (fun l' => ownedItems l') := by
  intro l
  induction l with
  | nil => intro i hi; simp at hi
  | cons d r ih =>
    intro i hi
    cases i with
    | zero =>
      simp only [setAtIdxL]
      exact Acc.bindF (ownedItems r) (hf d) (by perm_count) (fun d' => Acc.pure' _ _ _ (by perm_count))
    | succ i =>
      simp only [setAtIdxL]
      exact Acc.bindF (owned d) (ih i (by simpa using hi)) (by perm_count) (fun r' => Acc.pure' _ _ _ (by perm_count))

theorem Acc_freshIdx (i : Nat) (f : LDoc → LM LDoc) (extra : List Nat) (hf : Good f extra) :
    Acc (freshIdx i f) extra (fun d => owned d) := by
  unfold freshIdx
  refine Acc.bindF extra Acc_alloc (by perm_count) (fun nb => ?_)
  refine Acc.bindF [nb] (hf .undef) (by perm_count) (fun v => Acc.pure' _ _ _ (by perm_count))

theorem getElem?_split {α : Type} : ∀ {l : List α} {i : Nat} {x : α}, l[i]? = some x →
    ∃ pre post, l = pre ++ x :: post ∧ pre.length = i := by
  intro l
  induction l with
  | nil => intro i x h; simp at h
  | cons a t ih =>
    intro i x h
    cases i with
    | zero => simp at h; subst h; exact ⟨[], t, rfl, rfl⟩
    | succ i =>
      obtain ⟨pre, post, h1, h2⟩ := ih (by simpa using h)
      exact ⟨a :: pre, post, by simp [h1], by simp [h2]⟩

theorem set_split {α : Type} (pre post : List α) (x y : α) : (pre ++ x :: post).set pre.length y = pre ++ y :: post := by
  induction pre with
  | nil => rfl
  | cons a t ih => simp [ih]

theorem Good_updIdxL (i : Nat) (f : LDoc → LM LDoc) (extra : List Nat) (hf : Good f extra) :
    Good (updIdxL i f) extra := by
  intro d
  have hreset : ∀ d : LDoc, Acc (LM.bind (dispose d) (fun _ => freshIdx i f)) (owned d ++ extra) (fun d' => owned d') :=
    fun d => Acc.bindF extra (Acc_dispose d) (by perm_count) (fun _ => (Acc_freshIdx i f extra hf).permPre (by perm_count))
  cases d with
  | arr b c items =>
    simp only [updIdxL]
    split
    · rename_i hi
      exact Acc.bindF (optId b) (Acc_setAtIdxL f extra hf items i hi) (by perm_count) (fun its => Acc.pure' _ _ _ (by perm_count))
    · split
      · refine Acc.bindF (ownedItems items ++ extra) (Acc_arrayGrowIfFull b c items.length) (by perm_count) (fun g => ?_)
        refine Acc.bindF (ownedItems items ++ optId g.1) (hf .undef) (by perm_count) (fun v => Acc.pure' _ _ _ (by perm_count))
      · refine Acc.bindF (ownedItems items ++ extra) (Acc_arrayRealloc b (i + 1)) (by perm_count) (fun g => ?_)
        refine Acc.bindF (ownedItems items ++ optId g.1) (hf .undef) (by perm_count) (fun v => Acc.pure' _ _ _ (by perm_count))
  | obj b c s =>
    simp only [updIdxL]
    split
    · rename_i kid k v hs
      obtain ⟨pre, post, h1, h2⟩ := getElem?_split hs
      subst h1; subst h2
      refine Acc.bindF (ownedSlots pre ++ kid :: ownedSlots post ++ optId b) (hf v) (by perm_count) (fun v' => ?_)
      exact Acc.pure' _ _ _ (by rw [set_split]; perm_count)
    · exact hreset _
  | undef => exact hreset _
  | null => exact hreset _
  | tru => exact hreset _
  | fls => exact hreset _
  | nat _ => exact hreset _
  | int _ => exact hreset _
  | real _ => exact hreset _
  | ptr _ => exact hreset _
  | str _ _ => exact hreset _

theorem Good_updPathL (p : List LSel) (f : LDoc → LM LDoc) (extra : List Nat) (hf : Good f extra) :
    Good (updPathL p f) extra := by
  induction p with
  | nil => exact hf
  | cons sel rest ih =>
    cases sel with
    | key k kv => exact Good_updKeyL k kv _ extra ih
    | idx i => exact Good_updIdxL i _ extra ih

/-! ### leaf actions -/

theorem Good_replaceBy (x : LDoc) : Good (replaceBy x) (owned x) := by
  intro v
  exact Acc.bindF (owned x) (Acc_dispose v) (by perm_count) (fun _ => Acc.pure' _ _ _ (by perm_count))

theorem Good_replaceByCopy (x : LDoc) : Good (replaceByCopy x) [] := by
  intro v
  exact Acc.bindF [] (Acc_dispose v) (by perm_count) (fun _ => (Acc_copyL x).permPre (by perm_count))

theorem Good_pure : Good LM.pure [] := fun v => Acc.pure' _ _ _ (by perm_count)

theorem Acc_asArrL (v : LDoc) : Acc (asArrL v) (owned v) (fun a => ownedItems a.2.2 ++ optId a.1) := by
  cases v with
  | arr b c items => exact Acc.pure' _ _ _ (by perm_count)
  | _ => exact Acc.bindF [] (Acc_dispose _) (by perm_count) (fun _ => Acc.pure' _ _ _ (by perm_count))

theorem Good_pushL (x : LDoc) : Good (pushL x) (owned x) := by
  intro v
  unfold pushL
  refine Acc.bindF (owned x) (Acc_asArrL v) (by perm_count) (fun a => ?_)
  refine Acc.bindF (ownedItems a.2.2 ++ owned x) (Acc_arrayGrowIfFull a.1 a.2.1 a.2.2.length) (by perm_count)
    (fun g => Acc.pure' _ _ _ (by perm_count))

theorem Acc_mergeSlotsL_move : ∀ (src acc : List LSlot),
    Acc (mergeSlotsL false src acc) (ownedSlots acc ++ ownedSlots src) (fun s' => ownedSlots s') := by
  intro src
  induction src with
  | nil => intro acc; exact Acc.pure' _ _ _ (by perm_count)
  | cons a t ih =>
    intro acc
    cases a with
    | none => simp only [mergeSlotsL]; exact (ih acc).permPre (by perm_count)
    | some e =>
      obtain ⟨kid, k, v⟩ := e
      simp only [mergeSlotsL, Bool.false_eq_true, if_false]
      refine Acc.bindF (ownedSlots t)
        (Acc_slotUpdL k (LM.pure kid) (freeB kid) _ [kid] (owned v) (Acc.pure' _ _ _ (by perm_count)) (Acc_freeB kid)
          (fun old => Acc.bindF (owned v) (Acc_dispose old) (by perm_count) (fun _ => Acc.pure' _ _ _ (by perm_count))) acc)
        (by perm_count) (fun acc' => ih acc')

theorem Acc_mergeSlotsL_copy : ∀ (src acc : List LSlot),
    Acc (mergeSlotsL true src acc) (ownedSlots acc) (fun s' => ownedSlots s') := by
  intro src
  induction src with
  | nil => intro acc; exact Acc.pure' _ _ _ (by perm_count)
  | cons a t ih =>
    intro acc
    cases a with
    | none => simp only [mergeSlotsL]; exact ih acc
    | some e =>
      obtain ⟨kid, k, v⟩ := e
      simp only [mergeSlotsL, if_true]
      refine Acc.bindF []
        (Acc_slotUpdL k allocB (LM.pure ()) _ [] [] Acc_alloc (Acc.pure' _ _ _ (by perm_count))
          (fun old => Acc.bindF [] (Acc_dispose old) (by perm_count) (fun _ => (Acc_copyL v).permPre (by perm_count))) acc)
        (by perm_count) (fun acc' => (ih acc').permPre (by perm_count))

theorem Acc_objMergeL_move (b : Option Nat) (c : Nat) (s : List LSlot) (sb : Option Nat) (src : List LSlot) :
    Acc (objMergeL false b c s sb src) (ownedSlots s ++ optId b ++ (ownedSlots src ++ optId sb)) (fun d => owned d) := by
  unfold objMergeL
  refine Acc.bind (mid := fun t => ownedSlots t.2.2 ++ optId t.1 ++ (ownedSlots src ++ optId sb)) ?_ (fun t => ?_)
  · split
    · exact (Acc_tableResize b s _).frame _
    · exact Acc.pure' _ _ _ (by perm_count)
  refine Acc.bindF (optId t.1 ++ optId sb) (Acc_mergeSlotsL_move src t.2.2) (by perm_count) (fun s' => ?_)
  simp only [Bool.false_eq_true, if_false]
  exact Acc.bindF (ownedSlots s' ++ optId t.1) (Acc_freeOpt sb) (by perm_count) (fun _ => Acc.pure' _ _ _ (by perm_count))

theorem Acc_objMergeL_copy (b : Option Nat) (c : Nat) (s : List LSlot) (sb : Option Nat) (src : List LSlot) :
    Acc (objMergeL true b c s sb src) (ownedSlots s ++ optId b) (fun d => owned d) := by
  unfold objMergeL
  refine Acc.bind (mid := fun t => ownedSlots t.2.2 ++ optId t.1) ?_ (fun t => ?_)
  · split
    · exact Acc_tableResize b s _
    · exact Acc.pure' _ _ _ (by perm_count)
  refine Acc.bindF (optId t.1) (Acc_mergeSlotsL_copy src t.2.2) (by perm_count) (fun s' => ?_)
  simp only [if_true]
  exact Acc.bindF (ownedSlots s' ++ optId t.1) (Acc.pure' () [] (fun _ => []) (by perm_count)) (by perm_count)
    (fun _ => Acc.pure' _ _ _ (by perm_count))

theorem Good_addValueL_move (x : LDoc) : Good (addValueL false x) (owned x) := by
  intro v
  unfold addValueL
  split
  · exact (Acc_objMergeL_move _ _ _ _ _).permPre (by perm_count)
  · simp only [Bool.false_eq_true, if_false]; exact Good_pushL x v

theorem Good_addValueL_copy (x : LDoc) : Good (addValueL true x) [] := by
  intro v
  unfold addValueL
  split
  · exact (Acc_objMergeL_copy _ _ _ _ _).permPre (by perm_count)
  · simp only [if_true]
    exact Acc.bindF (owned v) (Acc_copyL x) (by perm_count) (fun x' => (Good_pushL x' v).permPre (by perm_count))

theorem Good_addObjL (x : LDoc) : Good (addObjL x) (owned x) := by
  intro v
  unfold addObjL
  split
  · exact (Acc_objMergeL_move _ _ _ _ _).permPre (by perm_count)
  · exact Good_pushL x v

theorem Acc_pushAllL : ∀ (xs : List LDoc) (v : LDoc), Acc (pushAllL xs v) (owned v ++ ownedItems xs) (fun d => owned d) := by
  intro xs
  induction xs with
  | nil => intro v; exact Acc.pure' _ _ _ (by perm_count)
  | cons x r ih =>
    intro v
    simp only [pushAllL]
    exact Acc.bindF (ownedItems r) (Good_pushL x v) (by perm_count) (fun v' => ih v')

theorem Acc_arrConcatL (sb : Option Nat) (sc : Nat) (xs : List LDoc) (v : LDoc) :
    Acc (arrConcatL sb sc xs v) (owned v ++ (ownedItems xs ++ optId sb)) (fun d => owned d) := by
  unfold arrConcatL
  refine Acc.bindF (ownedItems xs ++ optId sb) (Acc_asArrL v) (by perm_count) (fun a => ?_)
  split
  · exact Acc.bindF (ownedItems a.2.2 ++ (ownedItems xs ++ optId sb)) (Acc_freeOpt a.1) (by perm_count)
      (fun _ => Acc.pure' _ _ _ (by perm_count))
  · refine Acc.bind (mid := fun g => optId g.1 ++ (ownedItems a.2.2 ++ (ownedItems xs ++ optId sb))) ?_ (fun g => ?_)
    · split
      · exact ((Acc_arrayRealloc a.1 _).frame _).permPre (by perm_count)
      · exact Acc.pure' _ _ _ (by perm_count)
    · exact Acc.bindF (optId g.1 ++ (ownedItems a.2.2 ++ ownedItems xs)) (Acc_freeOpt sb) (by perm_count)
        (fun _ => Acc.pure' _ _ _ (by perm_count))

theorem Good_addArrL (x : LDoc) : Good (addArrL x) (owned x) := by
  intro v
  unfold addArrL
  split
  · exact (Acc_arrConcatL _ _ _ v).permPre (by perm_count)
  · exact Good_pushL x v

theorem ownedItems_dropUndefL (l : List LDoc) : ownedItems (dropUndefL l) = ownedItems l := by
  induction l with
  | nil => rfl
  | cons a t ih => cases a <;> simp [dropUndefL, ih]

theorem owned_vivArr (v : LDoc) : owned (vivArr v) = owned v := by
  cases v <;> simp [vivArr]

theorem Good_mergeL_move (x : LDoc) : Good (mergeL false x) (owned x) := by
  intro v
  have key : ∀ v1 : LDoc, Acc (mergeCoreL false x v1) (owned v1 ++ owned x) (fun d => owned d) := by
    intro v1
    unfold mergeCoreL
    split
    · rename_i b c items sb sc xs
      simp only [Bool.false_eq_true, if_false]
      refine Acc.bindF (optId sb) (Acc_pushAllL (dropUndefL xs) _) (by rw [ownedItems_dropUndefL]; perm_count) (fun r => ?_)
      exact Acc.bindF (owned r) (Acc_freeOpt sb) (by perm_count) (fun _ => Acc.pure' _ _ _ (by perm_count))
    · exact (Acc_objMergeL_move _ _ _ _ _).permPre (by perm_count)
    · simp only [Bool.false_eq_true, if_false]
      exact Acc.bindF (owned v1) (Acc_dispose x) (by perm_count) (fun _ => Acc.pure' _ _ _ (by perm_count))
  unfold mergeL
  exact (key (vivArr v)).permPre (by rw [owned_vivArr])

theorem Good_mergeL_copy (x : LDoc) : Good (mergeL true x) [] := by
  intro v
  have key : ∀ v1 : LDoc, Acc (mergeCoreL true x v1) (owned v1) (fun d => owned d) := by
    intro v1
    unfold mergeCoreL
    split
    · rename_i b c items sb sc xs
      simp only [if_true]
      exact Acc.bindF (owned (.arr b c items)) (Acc_copyItemsL (dropUndefL xs)) (by perm_count)
        (fun ys => (Acc_pushAllL ys _).permPre (by perm_count))
    · exact (Acc_objMergeL_copy _ _ _ _ _).permPre (by perm_count)
    · simp only [if_true]; exact Acc.pure' _ _ _ (by perm_count)
  unfold mergeL
  exact (key (vivArr v)).permPre (by rw [owned_vivArr]; perm_count)

theorem Acc_slotRemoveL (k : List Nat) : ∀ s, Acc (slotRemoveL k s) (ownedSlots s) (fun s' => ownedSlots s') := by
  intro s
  induction s with
  | nil => exact Acc.pure' _ _ _ (by perm_count)
  | cons a t ih =>
    cases a with
    | none => simp only [slotRemoveL]; exact Acc.bindF [] ih (by perm_count) (fun r' => Acc.pure' _ _ _ (by perm_count))
    | some e =>
      obtain ⟨kid, k', v⟩ := e
      simp only [slotRemoveL]
      split
      · refine Acc.bindF (kid :: ownedSlots t) (Acc_dispose v) (by perm_count) (fun _ => ?_)
        exact Acc.bindF (ownedSlots t) (Acc_freeB kid) (by perm_count) (fun _ => Acc.pure' _ _ _ (by perm_count))
      · exact Acc.bindF (owned v ++ [kid]) ih (by perm_count) (fun r' => Acc.pure' _ _ _ (by perm_count))

theorem Good_removeKeyL (k : List Nat) : Good (removeKeyL k) [] := by
  intro v
  cases v with
  | obj b c s =>
    simp only [removeKeyL]
    exact Acc.bindF (optId b) (Acc_slotRemoveL k s) (by perm_count) (fun s' => Acc.pure' _ _ _ (by perm_count))
  | _ => exact Acc.pure' _ _ _ (by perm_count)

theorem Good_removeIdxL (i : Nat) : Good (removeIdxL i) [] := by
  intro v
  cases v with
  | obj b c s =>
    simp only [removeIdxL]
    split
    · rename_i kid k x hs
      obtain ⟨pre, post, h1, h2⟩ := getElem?_split hs
      subst h1; subst h2
      refine Acc.bindF (ownedSlots pre ++ kid :: ownedSlots post ++ optId b) (Acc_dispose x) (by perm_count) (fun _ => ?_)
      refine Acc.bindF (ownedSlots pre ++ ownedSlots post ++ optId b) (Acc_freeB kid) (by perm_count) (fun _ => ?_)
      exact Acc.pure' _ _ _ (by rw [set_split]; perm_count)
    · exact Acc.pure' _ _ _ (by perm_count)
  | arr b c items =>
    simp only [removeIdxL]
    split
    · rename_i hi
      have := Acc_setAtIdxL (replaceBy .undef) [] (by simpa using Good_replaceBy .undef) items i hi
      exact Acc.bindF (optId b) this (by perm_count) (fun its => Acc.pure' _ _ _ (by perm_count))
    · exact Acc.pure' _ _ _ (by perm_count)
  | _ => exact Acc.pure' _ _ _ (by perm_count)

theorem Good_resetPayloadL : Good resetPayloadL [] := by
  intro v
  cases v with
  | obj b c s => exact Acc.bindF [] (Acc_dispose _) (by perm_count) (fun _ => Acc.pure' _ _ _ (by perm_count))
  | arr b c s => exact Acc.bindF [] (Acc_dispose _) (by perm_count) (fun _ => Acc.pure' _ _ _ (by perm_count))
  | str b s => exact Acc.bindF [] (Acc_dispose _) (by perm_count) (fun _ => Acc.pure' _ _ _ (by perm_count))
  | _ => exact Acc.pure' _ _ _ (by perm_count)

mutual
theorem Acc_compressL : ∀ d, Acc (compressL d) (owned d) (fun d' => owned d')
  | .arr b c items => by
    simp only [compressL]
    refine Acc.bind (mid := fun g => optId g.1 ++ ownedItems items) ?_ (fun g => ?_)
    · split
      · exact Acc.pure' _ _ _ (by perm_count)
      · split
        · exact Acc.bindF (ownedItems items) (Acc_freeOpt b) (by perm_count) (fun _ => Acc.pure' _ _ _ (by perm_count))
        · exact ((Acc_arrayRealloc b _).frame (ownedItems items)).permPre (by perm_count)
    · exact Acc.bindF (optId g.1) (Acc_compressItemsL items) (by perm_count) (fun its => Acc.pure' _ _ _ (by perm_count))
  | .obj b c slots => by
    simp only [compressL]
    refine Acc.bind (mid := fun g => optId g.1 ++ ownedSlots slots) ?_ (fun g => ?_)
    · split
      · exact Acc.bindF (ownedSlots slots) (Acc_freeOpt b) (by perm_count) (fun _ => Acc.pure' _ _ _ (by perm_count))
      · split
        · refine Acc.bindF (ownedSlots slots ++ optId b) Acc_alloc (by perm_count) (fun nb => ?_)
          exact Acc.bindF ([nb] ++ ownedSlots slots) (Acc_freeOpt b) (by perm_count) (fun _ => Acc.pure' _ _ _ (by perm_count))
        · exact Acc.pure' _ _ _ (by perm_count)
    · exact Acc.bindF (optId g.1) (Acc_compressSlotsL slots) (by perm_count) (fun sl => Acc.pure' _ _ _ (by perm_count))
  | .undef => by simp only [compressL]; exact Acc.pure' _ _ _ (by perm_count)
  | .null => by simp only [compressL]; exact Acc.pure' _ _ _ (by perm_count)
  | .tru => by simp only [compressL]; exact Acc.pure' _ _ _ (by perm_count)
  | .fls => by simp only [compressL]; exact Acc.pure' _ _ _ (by perm_count)
  | .nat _ => by simp only [compressL]; exact Acc.pure' _ _ _ (by perm_count)
  | .int _ => by simp only [compressL]; exact Acc.pure' _ _ _ (by perm_count)
  | .real _ => by simp only [compressL]; exact Acc.pure' _ _ _ (by perm_count)
  | .ptr _ => by simp only [compressL]; exact Acc.pure' _ _ _ (by perm_count)
  | .str _ _ => by simp only [compressL]; exact Acc.pure' _ _ _ (by perm_count)
theorem Acc_compressItemsL : ∀ l, Acc (compressItemsL l) (ownedItems l) (fun l' => ownedItems l')
  | [] => by simp only [compressItemsL]; exact Acc.pure' _ _ _ (by perm_count)
  | .undef :: r => by simp only [compressItemsL]; exact (Acc_compressItemsL r).permPre (by perm_count)
  | .arr b c x :: r => by
    simp only [compressItemsL]
    refine Acc.bindF (ownedItems r) (Acc_compressL (.arr b c x)) (by perm_count) (fun d' => ?_)
    exact Acc.bindF (owned d') (Acc_compressItemsL r) (by perm_count) (fun r' => Acc.pure' _ _ _ (by perm_count))
  | .obj b c x :: r => by
    simp only [compressItemsL]
    refine Acc.bindF (ownedItems r) (Acc_compressL (.obj b c x)) (by perm_count) (fun d' => ?_)
    exact Acc.bindF (owned d') (Acc_compressItemsL r) (by perm_count) (fun r' => Acc.pure' _ _ _ (by perm_count))
  | .str b s :: r => by
    simp only [compressItemsL]
    refine Acc.bindF (ownedItems r) (Acc_compressL (.str b s)) (by perm_count) (fun d' => ?_)
    exact Acc.bindF (owned d') (Acc_compressItemsL r) (by perm_count) (fun r' => Acc.pure' _ _ _ (by perm_count))
  | .null :: r => by
    simp only [compressItemsL, compressL]
    exact Acc.bindF (ownedItems r) (Acc.pure' LDoc.null [] (fun d => owned d) (by perm_count)) (by perm_count)
      (fun d' => Acc.bindF (owned d') (Acc_compressItemsL r) (by perm_count) (fun r' => Acc.pure' _ _ _ (by perm_count)))
  | .tru :: r => by
    simp only [compressItemsL, compressL]
    exact Acc.bindF (ownedItems r) (Acc.pure' LDoc.tru [] (fun d => owned d) (by perm_count)) (by perm_count)
      (fun d' => Acc.bindF (owned d') (Acc_compressItemsL r) (by perm_count) (fun r' => Acc.pure' _ _ _ (by perm_count)))
  | .fls :: r => by
    simp only [compressItemsL, compressL]
    exact Acc.bindF (ownedItems r) (Acc.pure' LDoc.fls [] (fun d => owned d) (by perm_count)) (by perm_count)
      (fun d' => Acc.bindF (owned d') (Acc_compressItemsL r) (by perm_count) (fun r' => Acc.pure' _ _ _ (by perm_count)))
  | .nat n :: r => by
    simp only [compressItemsL, compressL]
    exact Acc.bindF (ownedItems r) (Acc.pure' (LDoc.nat n) [] (fun d => owned d) (by perm_count)) (by perm_count)
      (fun d' => Acc.bindF (owned d') (Acc_compressItemsL r) (by perm_count) (fun r' => Acc.pure' _ _ _ (by perm_count)))
  | .int n :: r => by
    simp only [compressItemsL, compressL]
    exact Acc.bindF (ownedItems r) (Acc.pure' (LDoc.int n) [] (fun d => owned d) (by perm_count)) (by perm_count)
      (fun d' => Acc.bindF (owned d') (Acc_compressItemsL r) (by perm_count) (fun r' => Acc.pure' _ _ _ (by perm_count)))
  | .real n :: r => by
    simp only [compressItemsL, compressL]
    exact Acc.bindF (ownedItems r) (Acc.pure' (LDoc.real n) [] (fun d => owned d) (by perm_count)) (by perm_count)
      (fun d' => Acc.bindF (owned d') (Acc_compressItemsL r) (by perm_count) (fun r' => Acc.pure' _ _ _ (by perm_count)))
  | .ptr n :: r => by
    simp only [compressItemsL, compressL]
    exact Acc.bindF (ownedItems r) (Acc.pure' (LDoc.ptr n) [] (fun d => owned d) (by perm_count)) (by perm_count)
      (fun d' => Acc.bindF (owned d') (Acc_compressItemsL r) (by perm_count) (fun r' => Acc.pure' _ _ _ (by perm_count)))
theorem Acc_compressSlotsL : ∀ l, Acc (compressSlotsL l) (ownedSlots l) (fun l' => ownedSlots l')
  | [] => by simp only [compressSlotsL]; exact Acc.pure' _ _ _ (by perm_count)
  | none :: r => by simp only [compressSlotsL]; exact (Acc_compressSlotsL r).permPre (by perm_count)
  | some (kid, k, v) :: r => by
    simp only [compressSlotsL]
    refine Acc.bindF (kid :: ownedSlots r) (Acc_compressL v) (by perm_count) (fun v' => ?_)
    exact Acc.bindF (owned v' ++ [kid]) (Acc_compressSlotsL r) (by perm_count) (fun r' => Acc.pure' _ _ _ (by perm_count))
end

theorem Good_clearL : Good clearL [] := by
  intro v
  cases v with
  | obj b c s => exact Acc.bindF (optId b) (Acc_freeAll _) (by perm_count) (fun _ => Acc.pure' _ _ _ (by perm_count))
  | arr b c s => exact Acc.bindF (optId b) (Acc_freeAll _) (by perm_count) (fun _ => Acc.pure' _ _ _ (by perm_count))
  | _ => exact Acc.pure' _ _ _ (by perm_count)

def optOwned (r : Option LDoc) : List Nat :=
  match r with
  | some x => owned x
  | none => []

theorem Acc_reserveL (k n : Nat) : Acc (reserveL k n) [] (fun r => optOwned r) := by
  unfold reserveL
  split
  · split
    · exact Acc.pure' _ _ _ (by simp [optOwned])
    · exact Acc.bind (mid := fun b => [b]) Acc_alloc (fun b => Acc.pure' _ _ _ (by simp [optOwned]))
  · split
    · exact Acc.pure' _ _ _ (by simp [optOwned])
    · exact Acc.bind (mid := fun b => [b]) Acc_alloc (fun b => Acc.pure' _ _ _ (by simp [optOwned]))
  · exact Acc.pure' _ _ _ (by simp [optOwned])

theorem Good_compressL : Good compressL [] := fun v => (Acc_compressL v).permPre (by perm_count)

end Qentem.ValueLedger
