import Qentem.Model.ValueLedger
import Qentem.Proofs.HashLedger
/-!
Ledger accounting for the Value trace model.  `Acc m pre post`: the computation `m` consumes the blocks
`pre` and leaves the blocks `post result`, whatever else (`X`) is live — in continuation form over
`HashLedger.Exec` (from any heap whose live ids are `pre ++ X`, all below the fresh-id counter, the events
of `m` followed by a trace that runs from `post result ++ X` run without violation).
-/
namespace Qentem.ValueLedger
open Qentem.Value Qentem.Ledger Qentem.HashLedger

def Acc {α : Type} (m : LM α) (pre : List Nat) (post : α → List Nat) : Prop :=
  ∀ (n : Nat) (X : List Nat) (evs : List Ev) (L1 : List Nat) (n1 : Nat),
    Exec evs (post (m n).1 ++ X) (m n).2.2 L1 n1 → Exec ((m n).2.1 ++ evs) (pre ++ X) n L1 n1

theorem Acc.pure' {α : Type} (a : α) (pre : List Nat) (post : α → List Nat) (h : pre.Perm (post a)) :
    Acc (LM.pure a) pre post := by
  intro n X evs L1 n1 hk
  simp only [LM.pure, List.nil_append] at hk ⊢
  exact Exec.permL (List.Perm.append_right X h) hk

theorem Acc.pure {α : Type} (a : α) (P : List Nat) : Acc (LM.pure a) P (fun _ => P) :=
  Acc.pure' a P _ (List.Perm.refl _)

theorem Acc.bind {α β : Type} {m : LM α} {f : α → LM β} {pre : List Nat} {mid : α → List Nat} {post : β → List Nat}
    (hm : Acc m pre mid) (hf : ∀ a, Acc (f a) (mid a) post) : Acc (LM.bind m f) pre post := by
  intro n X evs L1 n1 hk
  simp only [LM.bind, List.append_assoc] at hk ⊢
  exact hm n X _ L1 n1 (hf (m n).1 (m n).2.2 X evs L1 n1 hk)

theorem Acc.permPre {α : Type} {m : LM α} {pre pre' : List Nat} {post : α → List Nat}
    (h : Acc m pre post) (hp : pre'.Perm pre) : Acc m pre' post := by
  intro n X evs L1 n1 hk
  exact Exec.permL (List.Perm.append_right X hp) (h n X evs L1 n1 hk)

theorem Acc.permPost {α : Type} {m : LM α} {pre : List Nat} {post post' : α → List Nat}
    (h : Acc m pre post) (hp : ∀ a, (post a).Perm (post' a)) : Acc m pre post' := by
  intro n X evs L1 n1 hk
  exact h n X evs L1 n1 (Exec.permL (List.Perm.append_right X (hp _)) hk)

theorem Acc.frame {α : Type} {m : LM α} {pre : List Nat} {post : α → List Nat} (F : List Nat)
    (h : Acc m pre post) : Acc m (pre ++ F) (fun a => post a ++ F) := by
  intro n X evs L1 n1 hk
  have := h n (F ++ X) evs L1 n1 (by simpa [List.append_assoc] using hk)
  simpa [List.append_assoc] using this

/-- frame on the left. -/
theorem Acc.frameL {α : Type} {m : LM α} {pre : List Nat} {post : α → List Nat} (F : List Nat)
    (h : Acc m pre post) : Acc m (F ++ pre) (fun a => F ++ post a) :=
  ((h.frame F).permPre List.perm_append_comm).permPost (fun _ => List.perm_append_comm)

theorem Acc_alloc : Acc allocB [] (fun id => [id]) := by
  intro n X evs L1 n1 hk
  simp only [allocB, List.nil_append, List.singleton_append, List.cons_append] at hk ⊢
  exact Exec.step_alloc hk

theorem Acc_freeAll (ids : List Nat) : Acc (freeAll ids) ids (fun _ => []) := by
  intro n X evs L1 n1 hk
  simp only [freeAll, List.nil_append] at hk ⊢
  exact Exec.step_frees ids (List.Perm.refl _) hk

theorem Acc_freeB (id : Nat) : Acc (freeB id) [id] (fun _ => []) := by
  have h : freeB id = freeAll [id] := by funext n; simp [freeAll, freeB]
  rw [h]; exact Acc_freeAll [id]

theorem Acc_freeOpt (b : Option Nat) : Acc (freeOpt b) (optId b) (fun _ => []) := by
  cases b with
  | none => exact Acc.pure () []
  | some id => exact Acc_freeB id

theorem Acc_dispose (d : LDoc) : Acc (dispose d) (owned d) (fun _ => []) := Acc_freeAll _

/-- sequencing with a unit result in the middle. -/
theorem Acc.seq {β : Type} {m : LM Unit} {f : Unit → LM β} {pre1 pre2 : List Nat} {post : β → List Nat}
    (hm : Acc m pre1 (fun _ => [])) (hf : Acc (f ()) pre2 post) : Acc (LM.bind m f) (pre1 ++ pre2) post :=
  Acc.bind (mid := fun _ => pre2) ((hm.frame pre2).permPost (fun _ => by simp)) (fun _ => hf)

theorem Acc_allocTmp : ∀ k, Acc (allocTmp k) [] (fun ts => ts)
  | 0 => Acc.pure' [] [] _ (List.Perm.refl _)
  | k + 1 => by
    simp only [allocTmp]
    refine Acc.bind (mid := fun b => [b]) Acc_alloc (fun b => ?_)
    refine Acc.bind (mid := fun r => r ++ [b]) ?_ (fun r => Acc.pure' _ _ _ (by simpa using List.perm_append_comm))
    have := (Acc_allocTmp k).frame [b]
    simpa using this

/-! ### ownership equations -/

@[simp] theorem owned_str (b : Option Nat) (s : List Nat) : owned (.str b s) = optId b := by simp [owned]
@[simp] theorem owned_arr (b : Option Nat) (c : Nat) (l : List LDoc) : owned (.arr b c l) = ownedItems l ++ optId b := by
  simp [owned]
@[simp] theorem owned_obj (b : Option Nat) (c : Nat) (l : List LSlot) : owned (.obj b c l) = ownedSlots l ++ optId b := by
  simp [owned]
@[simp] theorem owned_undef : owned .undef = [] := by simp [owned]
@[simp] theorem owned_null : owned .null = [] := by simp [owned]
@[simp] theorem owned_tru : owned .tru = [] := by simp [owned]
@[simp] theorem owned_fls : owned .fls = [] := by simp [owned]
@[simp] theorem owned_nat (n : Nat) : owned (.nat n) = [] := by simp [owned]
@[simp] theorem owned_int (i : Int) : owned (.int i) = [] := by simp [owned]
@[simp] theorem owned_real (b : Nat) : owned (.real b) = [] := by simp [owned]
@[simp] theorem owned_ptr (r : Nat) : owned (.ptr r) = [] := by simp [owned]
@[simp] theorem ownedItems_nil : ownedItems [] = [] := by simp [ownedItems]
@[simp] theorem ownedItems_cons (d : LDoc) (r : List LDoc) : ownedItems (d :: r) = owned d ++ ownedItems r := by
  simp [ownedItems]
@[simp] theorem ownedSlots_nil : ownedSlots [] = [] := by simp [ownedSlots]
@[simp] theorem ownedSlots_none (r : List LSlot) : ownedSlots (none :: r) = ownedSlots r := by simp [ownedSlots]
@[simp] theorem ownedSlots_some (kid : Nat) (k : List Nat) (v : LDoc) (r : List LSlot) :
    ownedSlots (some (kid, k, v) :: r) = owned v ++ kid :: ownedSlots r := by simp [ownedSlots]
@[simp] theorem optId_none : optId none = [] := rfl
@[simp] theorem optId_some (b : Nat) : optId (some b) = [b] := rfl

theorem ownedItems_append (a b : List LDoc) : ownedItems (a ++ b) = ownedItems a ++ ownedItems b := by
  induction a with
  | nil => simp
  | cons d r ih => simp [ih]

theorem ownedSlots_append (a b : List LSlot) : ownedSlots (a ++ b) = ownedSlots a ++ ownedSlots b := by
  induction a with
  | nil => simp
  | cons d r ih =>
    cases d with
    | none => simp [ih]
    | some e => obtain ⟨kid, k, v⟩ := e; simp [ih]

@[simp] theorem ownedItems_replicate_undef (n : Nat) : ownedItems (List.replicate n .undef) = [] := by
  induction n with
  | zero => simp
  | succ n ih => simp [List.replicate_succ, ih]

theorem ownedSlots_liveSlotsL (s : List LSlot) : ownedSlots (liveSlotsL s) = ownedSlots s := by
  induction s with
  | nil => rfl
  | cons a t ih =>
    cases a with
    | none => simp [liveSlotsL, ih]
    | some e => obtain ⟨kid, k, v⟩ := e; simp [liveSlotsL, ih]

/-- Perm goals between concatenations of owned-id lists: compare element counts. -/
macro "perm_count" : tactic =>
  `(tactic| (rw [List.perm_iff_count]; intro a_;
             (try simp [List.count_append, List.count_cons, ownedItems_append, ownedSlots_append, ownedSlots_liveSlotsL]);
             (try omega)))

/-! ### deep copy -/

mutual
theorem Acc_copyL : ∀ d, Acc (copyL d) [] (fun c => owned c)
  | .str b s => by
    simp only [copyL]
    exact Acc.bind (mid := fun b => [b]) Acc_alloc (fun b => Acc.pure' _ _ _ (by simp))
  | .arr b c items => by
    cases items with
    | nil => simp only [copyL]; exact Acc.pure' _ _ _ (by simp)
    | cons x xs =>
      simp only [copyL]
      refine Acc.bind (mid := fun b => [b]) Acc_alloc (fun nb => ?_)
      refine Acc.bind (mid := fun its => ownedItems its ++ [nb]) ?_ (fun its => Acc.pure' _ _ _ (by simp))
      have := (Acc_copyItemsL (x :: xs)).frame [nb]
      simpa using this
  | .obj b c slots => by
    cases slots with
    | nil => simp only [copyL]; exact Acc.pure' _ _ _ (by simp)
    | cons x xs =>
      simp only [copyL]
      refine Acc.bind (mid := fun b => [b]) Acc_alloc (fun nb => ?_)
      refine Acc.bind (mid := fun sl => ownedSlots sl ++ [nb]) ?_ (fun sl => Acc.pure' _ _ _ (by simp))
      have := (Acc_copySlotsL (x :: xs)).frame [nb]
      simpa using this
  | .undef => by simp only [copyL]; exact Acc.pure' _ _ _ (by simp)
  | .null => by simp only [copyL]; exact Acc.pure' _ _ _ (by simp)
  | .tru => by simp only [copyL]; exact Acc.pure' _ _ _ (by simp)
  | .fls => by simp only [copyL]; exact Acc.pure' _ _ _ (by simp)
  | .nat _ => by simp only [copyL]; exact Acc.pure' _ _ _ (by simp)
  | .int _ => by simp only [copyL]; exact Acc.pure' _ _ _ (by simp)
  | .real _ => by simp only [copyL]; exact Acc.pure' _ _ _ (by simp)
  | .ptr _ => by simp only [copyL]; exact Acc.pure' _ _ _ (by simp)
theorem Acc_copyItemsL : ∀ l, Acc (copyItemsL l) [] (fun c => ownedItems c)
  | [] => by simp only [copyItemsL]; exact Acc.pure' _ _ _ (by simp)
  | d :: r => by
    simp only [copyItemsL]
    refine Acc.bind (mid := fun d' => owned d') (Acc_copyL d) (fun d' => ?_)
    refine Acc.bind (mid := fun r' => ownedItems r' ++ owned d') ?_ (fun r' => Acc.pure' _ _ _ (by perm_count))
    have := (Acc_copyItemsL r).frame (owned d')
    simpa using this
theorem Acc_copySlotsL : ∀ l, Acc (copySlotsL l) [] (fun c => ownedSlots c)
  | [] => by simp only [copySlotsL]; exact Acc.pure' _ _ _ (by simp)
  | none :: r => by simp only [copySlotsL]; exact Acc_copySlotsL r
  | some (kid, k, v) :: r => by
    simp only [copySlotsL]
    refine Acc.bind (mid := fun b => [b]) Acc_alloc (fun nk => ?_)
    refine Acc.bind (mid := fun v' => owned v' ++ [nk]) ?_ (fun v' => ?_)
    · have := (Acc_copyL v).frame [nk]
      simpa using this
    · refine Acc.bind (mid := fun r' => ownedSlots r' ++ (owned v' ++ [nk])) ?_ (fun r' => Acc.pure' _ _ _ (by perm_count))
      have := (Acc_copySlotsL r).frame (owned v' ++ [nk])
      simpa using this
end

end Qentem.ValueLedger
