import Qentem.Proofs.BigIntHelpers
/-! Exactness of the half-word divide (`DoubleSize<_, 64>::Divide`) for every half width. -/
namespace Qentem.BigInt

theorem sub_mod_wrap {a b B : Nat} (ha : a < B) (hb : b ≤ B) :
    (a + B - b) % B = if b ≤ a then a - b else a + B - b := by
  split
  · rename_i h
    have : a + B - b = (a - b) + B := by omega
    rw [this, Nat.add_mod_right, Nat.mod_eq_of_lt (by omega)]
  · rename_i h
    exact Nat.mod_eq_of_lt (by omega)

theorem and3 {P Q R : Prop} (hp : P) (hq : Q) (hr : P → R) : P ∧ Q ∧ R := ⟨hp, hq, hr hp⟩

/-- One quotient digit: for a normalised divisor `ds = dl·X + dh` (X/2 ≤ dl < X) and `u < ds`,
`divRound` returns `q, r` with `q·ds + r = u·X`, `r < ds`. -/
theorem divRound_spec (h u dl dh ds : Nat) (hh : 0 < h) (hdl1 : 2 ^ (h - 1) ≤ dl) (hdl2 : dl < 2 ^ h)
    (hdh : dh < 2 ^ h) (hds : ds = dl * 2 ^ h + dh) (hu : u < ds) :
    (divRound h u dl dh ds).1 * ds + (divRound h u dl dh ds).2 = u * 2 ^ h ∧ (divRound h u dl dh ds).2 < ds ∧
      (divRound h u dl dh ds).1 < 2 ^ h := by
  have hX2 : 2 ^ h = 2 * 2 ^ (h - 1) := by
    have : h = (h - 1) + 1 := by omega
    conv_lhs => rw [this, Nat.pow_succ]
    omega
  have hYpos : 0 < 2 ^ (h - 1) := Nat.pow_pos (by decide)
  unfold divRound
  simp only [Nat.shiftLeft_eq]
  rw [two_pow_two_mul]
  generalize hXe : 2 ^ h = X at *
  generalize hYe : 2 ^ (h - 1) = Y at *
  have hdlpos : 0 < dl := by omega
  have hdm := Nat.div_add_mod u dl
  have hr0 : u % dl < dl := Nat.mod_lt _ hdlpos
  generalize hq0 : u / dl = q0 at *
  generalize hr0e : u % dl = r0 at *
  -- bounds
  have hr0X : r0 * X < X * X := Nat.mul_lt_mul_of_pos_right (by omega) (by omega)
  have hr0X' : r0 * X + X ≤ dl * X := by
    have : (r0 + 1) * X ≤ dl * X := Nat.mul_le_mul_right _ hr0
    rw [Nat.add_mul] at this; omega
  have hXX : X * X = 2 * (Y * X) := by rw [hX2]; ring
  have hdlX : Y * X ≤ dl * X := Nat.mul_le_mul_right _ hdl1
  have hdlXlt : dl * X + X ≤ X * X := by
    have : (dl + 1) * X ≤ X * X := Nat.mul_le_mul_right _ hdl2
    rw [Nat.add_mul] at this; omega
  have hqd : q0 * dh < X * X := by
    by_cases hqX : q0 < X
    · have h1 : q0 * dh ≤ (X - 1) * (X - 1) := Nat.mul_le_mul (by omega) (by omega)
      have h2 : (X - 1) * (X - 1) + X ≤ X * X := by
        have : X = (X - 1) + 1 := by omega
        conv_rhs => rw [this]
        ring_nf; omega
      omega
    · -- q0 = X + e with e·dl < dh
      obtain ⟨e, he⟩ : ∃ e, q0 = X + e := ⟨q0 - X, by omega⟩
      have h1 : dl * q0 = dl * X + dl * e := by rw [he, Nat.mul_add]
      have h2 : dl * e < dh := by omega
      have he1 : e ≤ 1 := by
        by_contra hcon
        have : dl * 2 ≤ dl * e := Nat.mul_le_mul_left _ (by omega)
        omega
      have h3 : q0 * dh = X * dh + e * dh := by rw [he, Nat.add_mul]
      have h4 : X * dh + X ≤ X * X := by
        have : X * (dh + 1) ≤ X * X := Nat.mul_le_mul_left _ hdh
        rw [Nat.mul_add] at this; omega
      have h5 : e * dh ≤ dh := by
        have := Nat.mul_le_mul_right dh he1
        omega
      omega
  have hds2 : X * X ≤ 2 * ds := by omega
  have hdsB : ds < X * X := by omega
  rw [Nat.mod_eq_of_lt hqd, Nat.mod_eq_of_lt hr0X]
  -- the exact identity: u·X = q0·ds + r0·X − q0·dh
  have hid : u * X + q0 * dh = q0 * ds + r0 * X := by
    rw [hds, ← hdm]; ring
  have key : ∀ q v, q * ds + v = u * X → q < X := by
    intro q v hv
    by_contra hcon
    have h1 : X * ds ≤ q * ds := Nat.mul_le_mul_right _ (by omega)
    have h2 : u * X < ds * X := Nat.mul_lt_mul_of_pos_right hu (by omega)
    rw [Nat.mul_comm X ds] at h1
    omega
  by_cases hlt : r0 * X < q0 * dh
  · rw [if_pos hlt]
    have hq0pos : 0 < q0 := by
      rcases Nat.eq_zero_or_pos q0 with h0 | h0
      · rw [h0] at hlt; simp at hlt
      · exact h0
    have hq0B : q0 < X * X := by
      have : q0 * 1 ≤ q0 * dh := Nat.mul_le_mul_left _ (by
        rcases Nat.eq_zero_or_pos dh with h0 | h0
        · rw [h0] at hlt; simp at hlt
        · exact h0)
      omega
    have hqm1 : (q0 + X * X - 1) % (X * X) = q0 - 1 := by
      have : q0 + X * X - 1 = (q0 - 1) + X * X := by omega
      rw [this, Nat.add_mod_right, Nat.mod_eq_of_lt (by omega)]
    rw [hqm1]
    by_cases hD : q0 * dh - r0 * X > ds
    · rw [if_pos hD]
      simp only []
      have hq2 : 2 ≤ q0 := by
        by_contra hcon
        have h1 : q0 = 1 := by omega
        have h2 : q0 * dh = dh := by rw [h1]; simp
        have h3 : X ≤ Y * X := Nat.le_mul_of_pos_left _ hYpos
        omega
      have hqm2 : (q0 - 1 + X * X - 1) % (X * X) = q0 - 2 := by
        have : q0 - 1 + X * X - 1 = (q0 - 2) + X * X := by omega
        rw [this, Nat.add_mod_right, Nat.mod_eq_of_lt (by omega)]
      rw [hqm2, sub_mod_wrap hqd (Nat.le_of_lt hdsB), if_pos (by omega : ds ≤ q0 * dh)]
      rw [sub_mod_wrap (by omega : q0 * dh - ds < X * X) (Nat.le_of_lt hdsB)]
      have hq2ds : (q0 - 2) * ds + 2 * ds = q0 * ds := by
        have : q0 = (q0 - 2) + 2 := by omega
        conv_rhs => rw [this, Nat.add_mul]
      split
      · rename_i hc
        rw [sub_mod_wrap hr0X (by omega)]
        split
        · rename_i hc2
          exact and3 (by omega) (by omega) (key _ _)
        · rename_i hc2; omega
      · rename_i hc
        rw [sub_mod_wrap hr0X (by omega)]
        split
        · rename_i hc2; omega
        · rename_i hc2
          exact and3 (by omega) (by omega) (key _ _)
    · rw [if_neg hD]
      simp only []
      have hq1ds : (q0 - 1) * ds + ds = q0 * ds := by
        have : q0 = (q0 - 1) + 1 := by omega
        conv_rhs => rw [this, Nat.add_mul]
        simp
      rw [sub_mod_wrap hqd (Nat.le_of_lt hdsB)]
      split
      · rename_i hc
        rw [sub_mod_wrap hr0X (by omega)]
        split
        · rename_i hc2
          first
            | omega
            | exact and3 (by omega) (by omega) (key _ _)
        · rename_i hc2
          first
            | omega
            | exact and3 (by omega) (by omega) (key _ _)
      · rename_i hc
        rw [sub_mod_wrap hr0X (by omega)]
        split
        · rename_i hc2
          first
            | omega
            | exact and3 (by omega) (by omega) (key _ _)
        · rename_i hc2
          first
            | omega
            | exact and3 (by omega) (by omega) (key _ _)
  · rw [if_neg hlt]
    simp only []
    rw [sub_mod_wrap hr0X (Nat.le_of_lt hqd), if_pos (by omega)]
    exact and3 (by omega) (by omega) (key _ _)

theorem add_mod_wrap {a b B : Nat} (ha : a < B) (hb : b < B) :
    (a + b) % B = if a + b < B then a + b else a + b - B := by
  split
  · rename_i h; exact Nat.mod_eq_of_lt h
  · rename_i h
    have : a + b = (a + b - B) + B := by omega
    rw [this, Nat.add_mod_right, Nat.mod_eq_of_lt (by omega)]; omega

/-- normalisation: `d · 2^(2h-1-log2 d)` lies in `[2^(2h-1), 2^(2h))` -/
theorem norm_bounds (h d : Nat) (hh : 0 < h) (hd0 : 0 < d) (hd : d < 2 ^ (2 * h)) :
    d * 2 ^ (2 * h - 1 - d.log2) < 2 ^ (2 * h) ∧ 2 ^ h * 2 ^ (h - 1) ≤ d * 2 ^ (2 * h - 1 - d.log2) := by
  have hL : d.log2 < 2 * h := (Nat.log2_lt (by omega)).2 hd
  have h1 := Nat.log2_self_le (by omega : d ≠ 0)
  have h2 := @Nat.lt_log2_self d
  constructor
  · have : d * 2 ^ (2 * h - 1 - d.log2) < 2 ^ (d.log2 + 1) * 2 ^ (2 * h - 1 - d.log2) :=
      Nat.mul_lt_mul_of_pos_right h2 (Nat.pow_pos (by decide))
    rw [← Nat.pow_add] at this
    have e : d.log2 + 1 + (2 * h - 1 - d.log2) = 2 * h := by omega
    rwa [e] at this
  · have : 2 ^ d.log2 * 2 ^ (2 * h - 1 - d.log2) ≤ d * 2 ^ (2 * h - 1 - d.log2) := Nat.mul_le_mul_right _ h1
    rw [← Nat.pow_add] at this
    have e : d.log2 + (2 * h - 1 - d.log2) = h + (h - 1) := by omega
    rw [e, Nat.pow_add] at this
    exact this

/-- **The half-word divide is exact for every half width** `h ≥ 1`: for `0 < d < 2^(2h)`, `hi < d`,
`lo < 2^(2h)` and the shift `2h-1-log2 d` that `BigInt::Divide` passes, the result is the quotient and
remainder of `hi·2^(2h) + lo` by `d`. -/
theorem divHand_exact (h hi lo d : Nat) (hh : 0 < h) (hd0 : 0 < d) (hd : d < 2 ^ (2 * h)) (hhi : hi < d)
    (hlo : lo < 2 ^ (2 * h)) :
    ∃ r q, divHand h hi lo d (2 * h - 1 - d.log2) = .ok (r, q) ∧ q * d + r = hi * 2 ^ (2 * h) + lo ∧ r < d ∧
      q < 2 ^ (2 * h) := by
  obtain ⟨hn1, hn2⟩ := norm_bounds h d hh hd0 hd
  have hS : 0 < 2 ^ (2 * h - 1 - d.log2) := Nat.pow_pos (by decide)
  have hX : 0 < 2 ^ h := Nat.pow_pos (by decide)
  have hB := two_pow_two_mul h
  generalize hSe : 2 ^ (2 * h - 1 - d.log2) = S at *
  have hdl1 : 2 ^ (h - 1) ≤ d * S / 2 ^ h := (Nat.le_div_iff_mul_le hX).2 (by rw [Nat.mul_comm]; exact hn2)
  have hdl2 : d * S / 2 ^ h < 2 ^ h := Nat.div_lt_of_lt_mul (by rw [← hB]; exact hn1)
  have hdh : d * S % 2 ^ h < 2 ^ h := Nat.mod_lt _ hX
  have hds : d * S = d * S / 2 ^ h * 2 ^ h + d * S % 2 ^ h := (Nat.div_add_mod' (d * S) (2 ^ h)).symm
  have hu1 : hi * S < d * S := Nat.mul_lt_mul_of_pos_right hhi hS
  have hu1B : hi * S < 2 ^ (2 * h) := Nat.lt_trans hu1 hn1
  have hne : (d == 0) = false := by simp; omega
  have hYpos : 0 < 2 ^ (h - 1) := Nat.pow_pos (by decide)
  have hdlne : (d * S / 2 ^ h == 0) = false := by
    apply beq_false_of_ne; omega
  obtain ⟨e1, r1lt, q1lt⟩ := divRound_spec h (hi * S) (d * S / 2 ^ h) (d * S % 2 ^ h) (d * S) hh hdl1 hdl2 hdh hds hu1
  generalize hR1 : divRound h (hi * S) (d * S / 2 ^ h) (d * S % 2 ^ h) (d * S) = R1 at *
  obtain ⟨q1, r1⟩ := R1
  simp only at e1 r1lt q1lt
  obtain ⟨e2, r2lt, q2lt⟩ := divRound_spec h r1 (d * S / 2 ^ h) (d * S % 2 ^ h) (d * S) hh hdl1 hdl2 hdh hds r1lt
  generalize hR2 : divRound h r1 (d * S / 2 ^ h) (d * S % 2 ^ h) (d * S) = R2 at *
  obtain ⟨q2, r2⟩ := R2
  simp only at e2 r2lt q2lt
  unfold divHand
  simp only [hne, Nat.shiftLeft_eq, Nat.shiftRight_eq_div_pow, Nat.and_two_pow_sub_one_eq_mod, hSe,
    Nat.mod_eq_of_lt hn1, Nat.mod_eq_of_lt hu1B, hdlne, Bool.false_eq_true, if_false, hR1, hR2]
  -- the two remainders are multiples of S
  have hdivS : ∀ (q r t : Nat), q * (d * S) + r = t * S * 2 ^ h → S ∣ r := by
    intro q r t he
    have h1 : (q * d) * S + r = (t * 2 ^ h) * S := by
      have e : (t * 2 ^ h) * S = t * S * 2 ^ h := by ring
      rw [e, ← he]; ring
    apply Nat.dvd_of_mod_eq_zero
    have := congrArg (· % S) h1
    simp only [Nat.mul_add_mod_self_right, Nat.mul_mod_left] at this
    exact this
  obtain ⟨a, ha⟩ := hdivS q1 r1 hi e1
  subst ha
  have e1' : q1 * d + a = hi * 2 ^ h := by
    apply Nat.eq_of_mul_eq_mul_right hS
    rw [← (by ring : q1 * (d * S) + S * a = (q1 * d + a) * S), e1]; ring
  have e2s : q2 * (d * S) + r2 = a * S * 2 ^ h := by rw [e2]; ring
  obtain ⟨b, hb⟩ := hdivS q2 r2 a e2s
  subst hb
  have e2' : q2 * d + b = a * 2 ^ h := by
    apply Nat.eq_of_mul_eq_mul_right hS
    rw [← (by ring : q2 * (d * S) + S * b = (q2 * d + b) * S), e2s]; ring
  have hbd : b < d := by
    rw [Nat.mul_comm d S] at r2lt
    exact Nat.lt_of_mul_lt_mul_left r2lt
  have hbS : S * b / S = b := Nat.mul_div_cancel_left b hS
  rw [hbS]
  have hdm := Nat.div_add_mod lo d
  have hc : lo % d < d := Nat.mod_lt _ hd0
  generalize lo % d = c at *
  generalize lo / d = l1 at *
  rw [hB] at hd hlo hn1 hu1B ⊢
  generalize hXe : 2 ^ h = X at *
  have hq1X : q1 * X < X * X := Nat.mul_lt_mul_of_pos_right q1lt hX
  have htotal : (l1 + q1 * X + q2) * d + (b + c) = hi * (X * X) + lo := by
    have h1 : (l1 + q1 * X + q2) * d = d * l1 + q1 * d * X + q2 * d := by ring
    have h2 : (q1 * d + a) * X = hi * X * X := by rw [e1']
    have h3 : (q1 * d + a) * X = q1 * d * X + a * X := by ring
    have h4 : hi * X * X = hi * (X * X) := by ring
    linarith [h1, h2, h3, h4, e2', hdm]
  have hup : hi * (X * X) + lo < d * (X * X) := by
    have : (hi + 1) * (X * X) ≤ d * (X * X) := Nat.mul_le_mul_right _ hhi
    rw [Nat.add_mul] at this
    omega
  generalize hQ : l1 + q1 * X + q2 = Q0 at *
  have hQ0 : Q0 < X * X := by
    by_contra hcon
    have : X * X * d ≤ Q0 * d := Nat.mul_le_mul_right _ (by omega)
    rw [Nat.mul_comm (X * X) d] at this
    omega
  have hQ1 : d ≤ b + c → Q0 + 1 < X * X := by
    intro hge
    by_contra hcon
    have : X * X * d ≤ (Q0 + 1) * d := Nat.mul_le_mul_right _ (by omega)
    rw [Nat.mul_comm (X * X) d, Nat.add_mul] at this
    omega
  have hQ1d : (Q0 + 1) * d = Q0 * d + d := by ring
  rw [Nat.mod_eq_of_lt hq1X, Nat.mod_eq_of_lt (by omega : l1 + q1 * X < X * X), hQ, Nat.mod_eq_of_lt hQ0,
    Nat.mod_eq_of_lt (by omega : X * X - d < X * X), add_mod_wrap (by omega : b < X * X) (by omega : c < X * X)]
  by_cases hT : b + c < X * X
  · simp only [if_pos hT]
    have hc1 : ¬ b > b + c := by omega
    simp only [if_neg hc1]
    by_cases hge : b + c ≥ d
    · simp only [if_pos hge]
      rw [Nat.mod_eq_of_lt (hQ1 hge)]
      exact ⟨_, _, rfl, by omega, by omega, hQ1 hge⟩
    · simp only [if_neg hge]
      exact ⟨_, _, rfl, by omega, by omega, hQ0⟩
  · simp only [if_neg hT]
    have hc1 : b > b + c - X * X := by omega
    simp only [if_pos hc1]
    have hge : d ≤ b + c := by omega
    have e : b + c - X * X + (X * X - d) = b + c - d := by omega
    rw [e, Nat.mod_eq_of_lt (by omega : b + c - d < X * X), Nat.mod_eq_of_lt (hQ1 hge)]
    have hc2 : ¬ b + c - d ≥ d := by omega
    simp only [if_neg hc2]
    exact ⟨_, _, rfl, by omega, by omega, hQ1 hge⟩

theorem divOK_hand (h : Nat) (hh : 0 < h) : DivOK ⟨2 * h, true⟩ := by
  intro hi lo d hd0 hd hhi hlo
  have e : (2 * h) / 2 = h := by omega
  simp only [ddiv, if_true, e]
  exact divHand_exact h hi lo d hh hd0 hd hhi hlo

end Qentem.BigInt
