import Qentem.Proofs.NumToStrDefaultGe1
/-! C10 helper, Default format for values ≥ 1 that keep a fraction: `point_layout` (the point/zero layout shared by
the Fixed and Default formatters), `formatDefault_frac_ge1` (model), `roundHalfEven_carry_down`, `generalBody_mid`
(reference), `default_frac64` (every double ≥ 1 with a fraction whose digit estimate fits the precision) and
`default_ge1_64`: **Default (`%.{p}g`) for every finite double of magnitude ≥ 1**. -/
set_option linter.unusedSimpArgs false
set_option linter.unusedVariables false
namespace Qentem.Proofs.NumToStr
open Qentem.NumToStr Qentem.Generated.NumToStr Qentem

/-! ### the layout shared by `formatStringNumberFixed` and `formatStringNumberDefault` when the run has an integer
part: insert the point, or rewrite the skipped integer positions with zeros -/

/-- `else if (index < dot_index) InsertAt('.') else { zeros …; while (zeros) storage[--index] = '0' }` -/
def pointOrZeros (site start : Nat) (s : List Nat) (index nl fl : Nat) (pi : Bool) : M (List Nat × Nat) :=
  if index < start + fl then do
    let s ← insertAt start s Ch.dot (start + fl)
    pure (s, index)
  else do
    let zeros ←
      if pi then csub site nl fl
      else pure (let rem := index - start; if fl < rem then rem - fl else 0)
    restoreZeros start zeros s index

theorem fixedFraction_point {start index nl fl diff : Nat} {s : List Nat} {pi : Bool} (h : ¬ (nl ≤ fl)) :
    fixedFraction start s index nl fl diff pi = pointOrZeros 12 start s index nl fl pi := by
  unfold fixedFraction pointOrZeros
  simp only [h, if_false]

/-- after `round_skip` at position `i` of a run with integer part (`i + 1 ≤ fl < L`): the shared layout followed by
`Reverse`/`StepBack` leaves the kept value with `fl - (i+1)` decimals, trailing fractional zeros removed -/
theorem point_layout (site : Nat) (s t' : List Nat) {b i fl k T : Nat} {pi ru : Bool} (hb : 0 < b)
    (hfl : i + 1 ≤ fl) (hflL : fl < (D b).length) (hik : i + 1 ≤ k) (hkL : k < (D b).length)
    (htl : t'.length = (D b).length) (hdrop : t'.drop k = Rl T) (hT0 : 0 < T) (hT10 : T % 10 ≠ 0)
    (hkept : keptUp b i ru = T * 10 ^ (k - (i + 1) + (if pi then 1 else 0)))
    (hpi : pi = true → k + 1 = (D b).length ∧ T = 1) :
    ∃ r, pointOrZeros site s.length (s ++ t') (s.length + k) (D b).length fl pi = .ok r ∧
      finishNumber s.length r.1 r.2 = .ok (s ++ FmtSpec.stripFraction (fixedText (keptUp b i ru) (fl - (i + 1)))) := by
  have hDTlen : (D T).length = (D b).length - k := by
    have := congrArg List.length hdrop
    simp [htl] at this; omega
  unfold pointOrZeros
  cases hpiv : pi
  · simp only [hpiv, Bool.false_eq_true, if_false, Nat.add_zero] at hkept ⊢
    by_cases hA : k < fl
    · -- the point goes between kept digits
      have h2 : s.length + k < s.length + fl := by omega
      have h3 : s.length + fl < (s ++ t').length := by rw [List.length_append, htl]; omega
      have hins : insertAt s.length (s ++ t') Ch.dot (s.length + fl) = .ok (s ++ (t'.take fl ++ 46 :: t'.drop fl)) := by
        unfold insertAt
        rw [if_neg (by omega), if_pos h3]
        simp [List.take_append, List.drop_append, Ch.dot, pure, Except.pure]
        rw [List.take_of_length_le (by omega), List.drop_of_length_le (by omega)]; simp
      refine ⟨(s ++ (t'.take fl ++ 46 :: t'.drop fl), s.length + k), by rw [if_pos h2, hins]; rfl, ?_⟩
      simp only []
      rw [finishNumber_drop s _ k (by simp [htl]; omega)]
      have hc : fl - k < (D T).length := by omega
      have e1 : (t'.take fl ++ 46 :: t'.drop fl).drop k = (Rl T).take (fl - k) ++ 46 :: (Rl T).drop (fl - k) := by
        rw [List.drop_append_of_le_length (by simp [htl]; omega), List.drop_take, ← hdrop, List.drop_drop]
        congr 3; omega
      rw [e1, Rl_take hc, Rl_drop hc]
      have hrev : ((Dk (fl - k) (T % 10 ^ (fl - k))).reverse ++ 46 :: Rl (T / 10 ^ (fl - k))).reverse =
          D (T / 10 ^ (fl - k)) ++ 46 :: Dk (fl - k) (T % 10 ^ (fl - k)) := by
        simp [Rl, List.reverse_append]
      rw [hrev]
      have hpk : fl - (i + 1) = (fl - k) + (k - (i + 1)) := by omega
      have hp0 : fl - (i + 1) ≠ 0 := by omega
      have hq : keptUp b i ru / 10 ^ (fl - (i + 1)) = T / 10 ^ (fl - k) := by
        rw [hkept]
        conv_lhs => rw [hpk, Nat.pow_add, Nat.mul_div_mul_right _ _ (Nat.pow_pos (by decide))]
      have hm : keptUp b i ru % 10 ^ (fl - (i + 1)) = T % 10 ^ (fl - k) * 10 ^ (k - (i + 1)) := by
        rw [hkept]
        conv_lhs => rw [hpk, Nat.pow_add, Nat.mul_mod_mul_right]
      have hft : fixedText (keptUp b i ru) (fl - (i + 1)) =
          D (T / 10 ^ (fl - k)) ++ 46 :: (Dk (fl - k) (T % 10 ^ (fl - k)) ++ List.replicate (k - (i + 1)) 48) := by
        unfold fixedText
        rw [if_neg hp0, hq, hm]
        have := Dk_mul_pow (fl - k) (k - (i + 1)) (T % 10 ^ (fl - k))
        rw [← hpk] at this
        rw [this]
      rw [hft]
      obtain ⟨c, hcq⟩ : ∃ c, fl - k = c + 1 := ⟨fl - k - 1, by omega⟩
      have hx : (T % 10 ^ (fl - k)) % 10 ≠ 0 := by
        rw [Nat.mod_mod_of_dvd _ (by rw [hcq, Nat.pow_succ]; exact Nat.dvd_mul_left _ _)]; exact hT10
      rw [hcq] at hx ⊢
      rw [stripFraction_exact _ _ _ _ hx]
    · -- all kept fractional digits are zero: integer zeros are restored
      have hkp : fl ≤ k := by omega
      have h2 : ¬ (s.length + k < s.length + fl) := by omega
      have hzz : (if fl < s.length + k - s.length then s.length + k - s.length - fl else 0) = k - fl := by
        rw [Nat.add_sub_cancel_left]; split <;> omega
      refine ⟨(s ++ (t'.take fl ++ List.replicate (k - fl) 48 ++ t'.drop k), s.length + fl), ?_, ?_⟩
      · rw [if_neg h2]
        simp only [pure_bind]
        rw [hzz, restoreZeros_spec s (k - fl) t' k (by omega) (by omega), show k - (k - fl) = fl by omega]
      · simp only []
        rw [finishNumber_drop s _ fl (by simp [htl]; omega)]
        have e1 : (t'.take fl ++ List.replicate (k - fl) 48 ++ t'.drop k).drop fl = List.replicate (k - fl) 48 ++ Rl T := by
          rw [List.append_assoc, List.drop_left' (by simp [htl]; omega), hdrop]
        rw [e1, ← Rl_mul_pow T _ hT0]
        have hq : keptUp b i ru / 10 ^ (fl - (i + 1)) = T * 10 ^ (k - fl) := by
          rw [hkept, show k - (i + 1) = (k - fl) + (fl - (i + 1)) by omega, Nat.pow_add, ← Nat.mul_assoc,
            Nat.mul_div_cancel _ (Nat.pow_pos (by decide))]
        have hm : keptUp b i ru % 10 ^ (fl - (i + 1)) = 0 := by
          rw [hkept, show k - (i + 1) = (k - fl) + (fl - (i + 1)) by omega, Nat.pow_add, ← Nat.mul_assoc]
          exact Nat.mul_mod_left _ _
        have hft : fixedText (keptUp b i ru) (fl - (i + 1)) =
            D (T * 10 ^ (k - fl)) ++ (if fl - (i + 1) = 0 then [] else 46 :: List.replicate (fl - (i + 1)) 48) := by
          unfold fixedText; rw [hq, hm, Dk_zero]
        rw [hft, stripFraction_int]; simp [Rl]
  · -- carry out of the top digit
    obtain ⟨hkL2, hT1⟩ := hpi hpiv
    subst hT1
    simp only [hpiv, if_true, Nat.one_mul] at hkept ⊢
    have h2 : ¬ (s.length + k < s.length + fl) := by omega
    have hcs : csub site (D b).length fl = .ok ((D b).length - fl) := by simp [csub, pure, Except.pure]; omega
    refine ⟨(s ++ (t'.take (fl - 1) ++ List.replicate ((D b).length - fl) 48 ++ t'.drop k), s.length + (fl - 1)), ?_, ?_⟩
    · rw [if_neg h2, hcs, ok_bind, restoreZeros_spec s ((D b).length - fl) t' k (by omega) (by omega),
        show k - ((D b).length - fl) = fl - 1 by omega]
    · simp only []
      rw [finishNumber_drop s _ (fl - 1) (by simp [htl]; omega)]
      have e1 : (t'.take (fl - 1) ++ List.replicate ((D b).length - fl) 48 ++ t'.drop k).drop (fl - 1) =
          List.replicate ((D b).length - fl) 48 ++ Rl 1 := by
        rw [List.append_assoc, List.drop_left' (by simp [htl]; omega), hdrop]
      rw [e1, ← Rl_mul_pow 1 _ (by decide), Nat.one_mul]
      have hq : keptUp b i ru / 10 ^ (fl - (i + 1)) = 10 ^ ((D b).length - fl) := by
        rw [hkept, show k - (i + 1) + 1 = ((D b).length - fl) + (fl - (i + 1)) by omega, Nat.pow_add,
          Nat.mul_div_cancel _ (Nat.pow_pos (by decide))]
      have hm : keptUp b i ru % 10 ^ (fl - (i + 1)) = 0 := by
        rw [hkept, show k - (i + 1) + 1 = ((D b).length - fl) + (fl - (i + 1)) by omega, Nat.pow_add]
        exact Nat.mul_mod_left _ _
      have hft : fixedText (keptUp b i ru) (fl - (i + 1)) =
          D (10 ^ ((D b).length - fl)) ++ (if fl - (i + 1) = 0 then [] else 46 :: List.replicate (fl - (i + 1)) 48) := by
        unfold fixedText; rw [hq, hm, Dk_zero]
      rw [hft, stripFraction_int]; simp [Rl]

theorem skipWhile_idem (c : Nat) (s : List Nat) (idx fuel fuel' : Nat) (h : s.length ≤ idx + fuel + 1) :
    skipWhile c fuel' s (skipWhile c fuel s idx) = skipWhile c fuel s idx := by
  obtain ⟨_, _, h3, _⟩ := skipWhile_spec c fuel s idx h
  cases fuel' with
  | zero => rfl
  | succ f => rw [skipWhile, if_neg h3]

/-- `formatStringNumberDefault` on the run of a value `≥ 1` with `fl > 0` fractional digits, when the digit estimate
does not exceed the precision.  `Ln` = number of integer digits. -/
theorem formatDefault_frac_ge1 (s : List Nat) {b P dg fl : Nat} (ru : Bool) (hb : 0 < b) (hP : 0 < P) (hdg : dg ≤ P)
    (hfl0 : 0 < fl) (hflL : fl < (D b).length) (hb10 : (D b).length ≤ P → b % 10 ≠ 0)
    (hsmall : (D b).length < 2 ^ 31) :
    (if (D b).length ≤ P then
      formatDefault s.length (s ++ Rl b) P dg fl true ru = .ok (s ++ D (b / 10 ^ fl) ++ 46 :: Dk fl (b % 10 ^ fl))
    else
      ∃ T z pi, 0 < T ∧ T % 10 ≠ 0 ∧ keptUp b ((D b).length - P - 1) ru = T * 10 ^ z ∧
        (pi = true ↔ keptUp b ((D b).length - P - 1) ru = 10 ^ P) ∧
        (pi = false → keptUp b ((D b).length - P - 1) ru < 10 ^ P) ∧
        formatDefault s.length (s ++ Rl b) P dg fl true ru =
          .ok (s ++ (if P ≤ (D b).length - fl - (if pi then 0 else 1) then
                sciText T ((D b).length - fl - (if pi then 0 else 1))
              else FmtSpec.stripFraction (fixedText (keptUp b ((D b).length - P - 1) ru) (P - ((D b).length - fl)))))) := by
  have h3 : csub 3 (s ++ Rl b).length s.length = .ok (D b).length := by simp [csub, pure, Except.pure]
  by_cases hLP : (D b).length ≤ P
  · rw [if_pos hLP]
    have hb10' := hb10 hLP
    unfold formatDefault
    rw [h3, ok_bind]
    unfold defaultRound
    rw [if_neg (by omega), pure_bind]
    simp only []
    -- no trailing zero to skip
    have hget : (s ++ Rl b)[s.length + 0]? ≠ some Ch.zero := by
      rw [getElem?_append_len, Rl_get 0 b (by omega)]
      simp [Ch.zero]; exact hb10'
    have hsk : skipWhile Ch.zero (s ++ Rl b).length (s ++ Rl b) s.length = s.length := by
      have := skipWhile_stop Ch.zero (s ++ Rl b) (s.length + 0) hget (s ++ Rl b).length
      simpa using this
    unfold defaultFraction
    rw [if_pos (by omega)]
    simp only [hsk, show ¬ ((D b).length ≤ fl) by omega, if_false, show s.length < s.length + fl by omega, if_true]
    have h4 : s.length + fl < (s ++ Rl b).length := by rw [List.length_append, Rl_length]; omega
    have hins : insertAt s.length (s ++ Rl b) Ch.dot (s.length + fl) = .ok (s ++ ((Rl b).take fl ++ 46 :: (Rl b).drop fl)) := by
      unfold insertAt
      rw [if_neg (by omega), if_pos h4]
      simp [List.take_append, List.drop_append, Ch.dot, pure, Except.pure]
      rw [List.take_of_length_le (by omega), List.drop_of_length_le (by omega)]; simp
    rw [hins, ok_bind, pure_bind]
    simp only []
    have hfin := finishNumber_drop s ((Rl b).take fl ++ 46 :: (Rl b).drop fl) 0 (by omega)
    rw [Nat.add_zero] at hfin
    rw [hfin, ok_bind]
    simp only [List.drop_zero, ne_eq, not_true_eq_false, if_false, pure, Except.pure]
    have hge : 10 ^ fl ≤ b := pow_le_of_len hfl0 hflL
    have := reverse_insert (D b) fl 46 (by omega)
    rw [show (Rl b) = (D b).reverse from rfl, this, D_take hge, D_drop hge]
    simp
  · rw [if_neg hLP]
    have hLP' : P < (D b).length := by omega
    obtain ⟨r, t', k, T, hr, hr1, hskip, hik, hkL, htl, hdrop, hT0, hT10, hkept, hpi⟩ :=
      round_skip s (i := (D b).length - P - 1) hb (by omega) ru
    rw [hr1] at hskip
    -- carry-out characterisation (from `round_finish`, same run)
    obtain ⟨r', T', z', hr', _, _, _, _, hpiff, hpilt⟩ := round_finish s (i := (D b).length - P - 1) hb (by omega) ru
    rw [hr] at hr'
    injection hr' with hrr
    subst hrr
    rw [show (D b).length - ((D b).length - P - 1 + 1) = P by omega] at hpiff hpilt
    refine ⟨T, _, r.2.2, hT0, hT10, hkept, hpiff, hpilt, ?_⟩
    unfold formatDefault
    rw [h3, ok_bind]
    unfold defaultRound
    rw [if_pos hLP', show s.length + ((D b).length - P) - 1 = s.length + ((D b).length - P - 1) by omega, hr, ok_bind]
    have hcs4 : csub 4 (D b).length fl = .ok ((D b).length - fl) := by simp [csub, pure, Except.pure]; omega
    simp only [if_true, hcs4, ok_bind, hdg, Nat.add_zero]
    have hle5 : (if r.2.2 = true then 0 else 1) ≤ (D b).length - fl := by split <;> omega
    have hcs5 : csub 5 ((D b).length - fl) (if r.2.2 = true then 0 else 1) =
        .ok ((D b).length - fl - (if r.2.2 = true then 0 else 1)) := by simp [csub, hle5, pure, Except.pure]
    rw [hcs5, ok_bind]
    rw [hr1]
    by_cases hexp : P ≤ (D b).length - fl - (if r.2.2 = true then 0 else 1)
    · -- exponent style
      rw [if_pos hexp, if_pos hexp, pure_bind]
      simp only []
      unfold defaultFraction
      simp only [ne_eq, not_true_eq_false, if_false, pure_bind]
      rw [hskip, finishNumber_drop s t' k (by omega), hdrop, ok_bind]
      have hX0 : (D b).length - fl - (if r.2.2 = true then 0 else 1) ≠ 0 := by omega
      rw [if_pos hX0, insertAt_dot, ok_bind, insertPowerOfTen_pos _ (by split <;> omega)]
      simp [sciText, Rl, List.append_assoc]
    · -- fraction layout
      rw [if_neg hexp, if_neg hexp, pure_bind]
      simp only []
      have hLn : (D b).length - fl ≤ P := by split at hexp <;> omega
      unfold defaultFraction
      rw [if_pos (by omega)]
      simp only [show ¬ ((D b).length ≤ fl) by omega, if_false]
      -- the second zero-skipping loop changes nothing
      have hsk2 : skipWhile Ch.zero (s ++ t').length (s ++ t') r.2.1 = s.length + k := hskip
      obtain ⟨r2, hr2, hfin2⟩ := point_layout 6 s t' (b := b) (i := (D b).length - P - 1) (fl := fl) (k := k) (T := T)
        (pi := r.2.2) (ru := ru) hb (by omega) hflL hik hkL htl hdrop hT0 hT10 hkept hpi
      unfold pointOrZeros at hr2
      rw [hsk2]
      -- same expression as `pointOrZeros`
      have hsame : (if s.length + k < s.length + fl then do
            let s_1 ← insertAt s.length (s ++ t') Ch.dot (s.length + fl)
            pure (s_1, s.length + k, 0)
          else do
            let zeros ←
              if r.2.2 = true then csub 6 (D b).length fl
              else pure (let rem := s.length + k - s.length; if fl < rem then rem - fl else 0)
            let r_1 ← restoreZeros s.length zeros (s ++ t') (s.length + k)
            pure (r_1.1, r_1.2, 0)) = (.ok (r2.1, r2.2, 0) : M (List Nat × Nat × Nat)) := by
        by_cases hlt : s.length + k < s.length + fl
        · rw [if_pos hlt] at hr2 ⊢
          cases hins : insertAt s.length (s ++ t') Ch.dot (s.length + fl) with
          | error e => rw [hins] at hr2; cases hr2
          | ok v => rw [hins] at hr2; injection hr2 with hr2; subst hr2; rfl
        · rw [if_neg hlt] at hr2 ⊢
          by_cases hp : r.2.2 = true
          · simp only [hp, if_true] at hr2 ⊢
            cases hzz : csub 6 (D b).length fl with
            | error e => rw [hzz] at hr2; cases hr2
            | ok zv =>
              rw [hzz] at hr2
              simp only [ok_bind] at hr2 ⊢
              rw [hr2]; rfl
          · simp only [hp, Bool.false_eq_true, if_false, pure_bind] at hr2 ⊢
            rw [hr2]; rfl
      rw [hsame, ok_bind]
      simp only []
      rw [hfin2, ok_bind]
      simp only [ne_eq, not_true_eq_false, if_false, pure, Except.pure]
      congr 4
      omega

/-- a value just below `10·A` that rounds up to `10·A` also rounds up to `A` with one digit less -/
theorem roundHalfEven_carry_down {N den A : Nat} (hd : 0 < den) (hA : 0 < A)
    (hlt : N < A * den) (h : FmtSpec.roundHalfEven (N * 10) den = 10 * A) :
    FmtSpec.roundHalfEven N den = A := by
  unfold FmtSpec.roundHalfEven at h ⊢
  simp only at h ⊢
  have hdm := Nat.div_add_mod (N * 10) den
  have hr : N * 10 % den < den := Nat.mod_lt _ hd
  have hqlt : N * 10 / den < 10 * A := by
    rw [Nat.div_lt_iff_lt_mul hd]
    calc N * 10 < A * den * 10 := Nat.mul_lt_mul_of_pos_right hlt (by decide)
      _ = 10 * A * den := by ring
  generalize hq : N * 10 / den = q at *
  generalize N * 10 % den = r at *
  have hq1 : q + 1 = 10 * A ∧ den ≤ 2 * r := by
    split at h
    · rename_i hc; refine ⟨h, ?_⟩; rcases hc with hc | hc <;> omega
    · omega
  obtain ⟨X, hXd⟩ : ∃ X, X = A * den := ⟨_, rfl⟩
  have hX : den * q = 10 * X - den := by
    have : q = 10 * A - 1 := by omega
    rw [this, Nat.mul_sub, Nat.mul_one, hXd]; congr 1; ring
  have hXge : den ≤ X := by rw [hXd]; exact Nat.le_mul_of_pos_left _ hA
  rw [← hXd] at hlt
  have hA1 : (A - 1) * den = X - den := by rw [Nat.sub_mul, Nat.one_mul, hXd]
  have hlo : (A - 1) * den ≤ N := by rw [hA1]; omega
  have hhi : N < (A - 1 + 1) * den := by rw [show A - 1 + 1 = A by omega, ← hXd]; exact hlt
  have hdiv : N / den = A - 1 := Nat.div_eq_of_lt_le hlo hhi
  have hmod : N % den = N - (X - den) := by rw [Nat.mod_def, hdiv, Nat.mul_comm, hA1]
  rw [hdiv, hmod, if_pos (Or.inl (by omega))]
  omega

theorem fixedText_pow (a q : Nat) (h : q ≤ a) :
    FmtSpec.stripFraction (fixedText (10 ^ a) q) = D (10 ^ (a - q)) := by
  have hq : 10 ^ a / 10 ^ q = 10 ^ (a - q) := Nat.pow_div h (by decide)
  have hm : 10 ^ a % 10 ^ q = 0 := by
    rw [show a = (a - q) + q by omega, Nat.pow_add]; exact Nat.mul_mod_left _ _
  unfold fixedText
  rw [hq, hm, Dk_zero, stripFraction_int]

/-- `%.{p}g` of a value `num/den ≥ 1` whose integer part has at most `P` digits, in terms of the rounded integer
`K = ⌊v·10^(P-Ln)⌉` -/
theorem generalBody_mid {num den p : Nat} (hd : 0 < den) (hge : den ≤ num)
    (hLn : (D (num / den)).length ≤ (if p = 0 then 1 else p)) :
    FmtSpec.generalBody num den p =
      (if FmtSpec.roundHalfEven (num * 10 ^ ((if p = 0 then 1 else p) - (D (num / den)).length)) den =
            10 ^ (if p = 0 then 1 else p) ∧ (D (num / den)).length = (if p = 0 then 1 else p) then
        sciText 1 (if p = 0 then 1 else p)
       else FmtSpec.stripFraction (fixedText
          (FmtSpec.roundHalfEven (num * 10 ^ ((if p = 0 then 1 else p) - (D (num / den)).length)) den)
          ((if p = 0 then 1 else p) - (D (num / den)).length))) := by
  generalize hP : (if p = 0 then 1 else p) = P at *
  generalize hn : num / den = n at *
  have hPpos : 0 < P := by rw [← hP]; split <;> omega
  have hnpos : 0 < n := by rw [← hn]; exact Nat.div_pos hge hd
  have hnd : num ≠ 0 := by omega
  have hLpos : 0 < (D n).length := List.length_pos_iff.mpr (D_ne_nil n)
  have hx0 : FmtSpec.floorLog10 num den = (((D n).length - 1 : Nat) : Int) := by
    unfold FmtSpec.floorLog10; rw [if_pos hge, hn]
  have hkk : (P : Int) - 1 - (((D n).length - 1 : Nat) : Int) = ((P - (D n).length : Nat) : Int) := by omega
  have hsr : FmtSpec.scaleRound num den ((P : Int) - 1 - (((D n).length - 1 : Nat) : Int)) =
      FmtSpec.roundHalfEven (num * 10 ^ (P - (D n).length)) den := by
    rw [hkk]; unfold FmtSpec.scaleRound
    simp only [Int.natCast_nonneg, if_true, Int.toNat_natCast]
  have hnumlt : num < 10 ^ (D n).length * den := by
    rw [← Nat.div_lt_iff_lt_mul hd, hn]
    exact (D_length_le_iff hLpos).mp (Nat.le_refl _)
  generalize hK : FmtSpec.roundHalfEven (num * 10 ^ (P - (D n).length)) den = K at *
  have hsci : FmtSpec.sciDigits num den P =
      (if K = 10 ^ P then (10 ^ (P - 1), (((D n).length - 1 : Nat) : Int) + 1) else (K, (((D n).length - 1 : Nat) : Int))) := by
    unfold FmtSpec.sciDigits
    simp only [hx0, hsr]
  unfold FmtSpec.generalBody
  simp only [hP, hnd, if_false]
  by_cases hc : K = 10 ^ P
  · by_cases hLP : (D n).length = P
    · have hcc : (K = 10 ^ P ∧ (D n).length = P) := ⟨hc, hLP⟩
      have hrange : ¬ ((-4 : Int) ≤ (FmtSpec.sciDigits num den P).2 ∧ (FmtSpec.sciDigits num den P).2 < (P : Int)) := by
        rw [hsci, if_pos hc]; simp; omega
      rw [if_neg hrange, if_pos hcc, sciBody_eq]
      simp only [hnd, if_false, hsci, hc, if_true]
      have hD : D (10 ^ (P - 1)) = D 1 ++ List.replicate (P - 1) 48 := by
        have := D_mul_pow 1 (P - 1) (by decide); rwa [Nat.one_mul] at this
      have hlen : P ≤ (D (10 ^ (P - 1))).length := by rw [hD]; simp [show D 1 = [49] by decide]; omega
      rw [padLeft_full P _ hlen]
      have hs := strip_sci 1 (P - 1) (by decide) (by decide)
      rw [Nat.one_mul] at hs
      rw [hs]
      have hX : (((D n).length - 1 : Nat) : Int) + 1 = ((P : Nat) : Int) := by omega
      rw [hX, expText_nat]
      simp [sciText, List.append_assoc]
    · have hcc : ¬ (K = 10 ^ P ∧ (D n).length = P) := fun h => hLP h.2
      have hrange : ((-4 : Int) ≤ (FmtSpec.sciDigits num den P).2 ∧ (FmtSpec.sciDigits num den P).2 < (P : Int)) := by
        rw [hsci, if_pos hc]; simp; omega
      rw [if_pos hrange, if_neg hcc, hsci, if_pos hc]
      simp only []
      have ht : ((P : Int) - 1 - ((((D n).length - 1 : Nat) : Int) + 1)).toNat = P - 1 - (D n).length := by omega
      rw [ht, fixedBody_eq_text]
      have hdown : FmtSpec.roundHalfEven (num * 10 ^ (P - 1 - (D n).length)) den = 10 ^ (P - 1) := by
        apply roundHalfEven_carry_down hd (Nat.pow_pos (by decide))
        · calc num * 10 ^ (P - 1 - (D n).length) < 10 ^ (D n).length * den * 10 ^ (P - 1 - (D n).length) :=
                Nat.mul_lt_mul_of_pos_right hnumlt (Nat.pow_pos (by decide))
            _ = 10 ^ (P - 1) * den := by
                rw [show P - 1 = (D n).length + (P - 1 - (D n).length) by omega, Nat.pow_add]
                rw [show (D n).length + (P - 1 - (D n).length) - (D n).length = P - 1 - (D n).length by omega]; ring
        · rw [Nat.mul_assoc, ← Nat.pow_succ, show (P - 1 - (D n).length).succ = P - (D n).length by omega, hK, hc,
            Nat.mul_comm, ← Nat.pow_succ]
          congr 1; omega
      rw [hdown, hc, fixedText_pow _ _ (by omega), fixedText_pow _ _ (by omega)]
      congr 2; omega
  · have hcc : ¬ (K = 10 ^ P ∧ (D n).length = P) := fun h => hc h.1
    have hrange : ((-4 : Int) ≤ (FmtSpec.sciDigits num den P).2 ∧ (FmtSpec.sciDigits num den P).2 < (P : Int)) := by
      rw [hsci, if_neg hc]; simp; omega
    rw [if_pos hrange, if_neg hcc, hsci, if_neg hc]
    simp only []
    rw [hkk, Int.toNat_natCast, fixedBody_eq_text, hK]


/-- the closed-form digit run in the Default format for a double ≥ 1 with a fraction whose digit estimate fits the
precision -/
theorem runSpec_default_frac {f e P : Nat} (hpos : 1023 ≤ e) (he0 : e ≠ 0)
    (hx : (e - 1023) * 30103 / 100000 + 1 ≤ P) (hfb : 0 < fracBits 52 1023 f e) :
    runSpec 52 1023 f e P 0 =
      (mant 52 f e / 2 ^ findFirstBit (mant 52 f e) *
          5 ^ fracLen (fracBits 52 1023 f e) (P - ((e - 1023) * 30103 / 100000 + 1)) /
          2 ^ fracShift (fracBits 52 1023 f e) (P - ((e - 1023) * 30103 / 100000 + 1)),
        (e - 1023) * 30103 / 100000 + 1,
        fracLen (fracBits 52 1023 f e) (P - ((e - 1023) * 30103 / 100000 + 1)), true,
        decide (P - ((e - 1023) * 30103 / 100000 + 1) + 1 < fracBits 52 1023 f e)) ∧
    runDrop 52 1023 f e P 0 = 0 := by
  have hfix : (decide ((0:Nat) = fmtSemiFixed) || decide ((0:Nat) = fmtFixed)) = false := by decide
  have hest : ∀ j, estDigits 52 j (e - 1023) e = (e - 1023) * 30103 / 100000 + 1 := by
    intro j; unfold estDigits; rw [if_neg he0]; simp
  have hnx : ¬ (P < (e - 1023) * 30103 / 100000 + 1) := by omega
  simp only [fracBits, hpos, if_true] at hfb
  have hnb : ¬ (52 - findFirstBit (mant 52 f e) ≤ e - 1023) := by omega
  simp only [runSpec, runDrop, fracBits, hpos, if_true, decide_true, Bool.true_and, hfix, Bool.not_false, Bool.and_true,
    hest, hnx, hnb, decide_false, Bool.or_false, Bool.false_eq_true, if_false]
  exact ⟨trivial, trivial⟩


/-- **Default format, every double ≥ 1 with a fraction whose digit estimate fits the precision**: the fraction block
produces `min(fracBits, P - estimate + 1)` fractional digits exactly, the run is rounded half-even at the `P`-th
significant digit (or not at all when it is short), and the text is `%.{p}g` — plain, with the point, or in the
`e+XX` style when the rounding carries into a new leading digit. -/
theorem default_frac64 (pre : List Nat) (bits p : Nat) (hp : p ≤ 40)
    (hfin : (bits / 2 ^ 52) % 2 ^ 11 ≠ 2 ^ 11 - 1) (hge1 : 1023 ≤ (bits / 2 ^ 52) % 2 ^ 11)
    (hx : ((bits / 2 ^ 52) % 2 ^ 11 - 1023) * 30103 / 100000 + 1 ≤ (if p = 0 then 1 else p))
    (hfb : 0 < fracBits 52 1023 (bits % 2 ^ 52) ((bits / 2 ^ 52) % 2 ^ 11)) :
    realToString f64 pre bits p 0 = .ok (pre ++ FmtSpec.format64 bits p .default) := by
  have hnz : (bits / 2 ^ 52) % 2 ^ 11 ≠ 0 ∨ bits % 2 ^ 52 ≠ 0 := Or.inl (by omega)
  have hfl : bits % 2 ^ 52 < 2 ^ 52 := Nat.mod_lt _ (by norm_num)
  have hlt : (bits / 2 ^ 52) % 2 ^ 11 < 2 ^ 11 := Nat.mod_lt _ (by norm_num)
  have hel : (bits / 2 ^ 52) % 2 ^ 11 ≤ 2 * 1023 := by omega
  have hpp : (if (0:Nat) = fmtDefault ∧ p = 0 then 1 else p) = (if p = 0 then 1 else p) := by simp [fmtDefault]
  generalize hP : (if p = 0 then 1 else p) = P at *
  have hPpos : 0 < P := by rw [← hP]; split <;> omega
  have hP40 : P ≤ 40 := by rw [← hP]; split <;> omega
  obtain ⟨num, den, hden, hdec, hex⟩ := runSpec_exact_decode (M := 52) (X := 11) (by decide) (by decide) (by decide)
    bits P 0 hfin hnz
  have hB : (2:Nat) ^ (11 - 1) - 1 = 1023 := by norm_num
  rw [hB] at hex
  have hdec64 : FmtSpec.decode64 bits = .fin (decide (bits / 2 ^ 63 % 2 = 1)) num den := hdec
  have hpow := decode64_ge_pow hdec64 hge1
  have hdenle : den ≤ num := decode64_ge1 hdec64 hge1
  obtain ⟨hrs, hrd⟩ := runSpec_default_frac (f := bits % 2 ^ 52) (P := P) hge1 (by omega) hx hfb
  have hmm := findFirstBit_mant (M := 52) (by decide) (mant_pos (M := 52) hnz) (mant_lt (e := (bits / 2 ^ 52) % 2 ^ 11) hfl)
  have hb1344 := runSpec_lt shape64 (fmt := 0) hfl hel hnz hP40
  rw [hrs] at hb1344
  simp only at hb1344
  rw [hrs, hrd] at hex
  simp only [Nat.pow_zero, Nat.mul_one] at hex
  generalize hpe : (bits / 2 ^ 52) % 2 ^ 11 - 1023 = pe at *
  have hpe1130 : pe ≤ 1130 := by omega
  obtain ⟨ht1, ht2⟩ := est_table pe hpe1130
  generalize hfbd : fracBits 52 1023 (bits % 2 ^ 52) ((bits / 2 ^ 52) % 2 ^ 11) = fb at *
  generalize hmo : mant 52 (bits % 2 ^ 52) ((bits / 2 ^ 52) % 2 ^ 11) /
      2 ^ findFirstBit (mant 52 (bits % 2 ^ 52) ((bits / 2 ^ 52) % 2 ^ 11)) = mo at *
  generalize hdgd : pe * 30103 / 100000 = dg1 at *
  -- the exact case: an odd multiple of a power of five
  have hodd : ¬ (P - (dg1 + 1) + 1 < fb) →
      (mo * 5 ^ fracLen fb (P - (dg1 + 1)) / 2 ^ fracShift fb (P - (dg1 + 1))) % 10 = 5 := by
    intro hno
    have e1 : fracLen fb (P - (dg1 + 1)) = fb := by unfold fracLen; rw [if_neg hno]
    have e2 : fracShift fb (P - (dg1 + 1)) = 0 := by unfold fracShift; rw [if_neg hno]
    rw [e1, e2, Nat.pow_zero, Nat.div_one]
    apply odd5_mod10 (odd_mul_odd hmm.2.2 (pow5_odd fb))
    obtain ⟨k, rfl⟩ := Nat.exists_eq_succ_of_ne_zero (by omega : fb ≠ 0)
    rw [Nat.pow_succ, ← Nat.mul_assoc]; exact Nat.mul_mod_left _ _
  have hfl0 : 0 < fracLen fb (P - (dg1 + 1)) := by unfold fracLen; split <;> omega
  have hflle : fracLen fb (P - (dg1 + 1)) ≤ P - (dg1 + 1) + 1 := by unfold fracLen; split <;> omega
  have hfleq : ¬ (P - (dg1 + 1) + 1 < fb) ∨ fracLen fb (P - (dg1 + 1)) = P - (dg1 + 1) + 1 := by
    unfold fracLen; by_cases h : P - (dg1 + 1) + 1 < fb
    · right; rw [if_pos h]
    · left; exact h
  generalize hfld : fracLen fb (P - (dg1 + 1)) = fl at *
  generalize hbd : mo * 5 ^ fl / 2 ^ fracShift fb (P - (dg1 + 1)) = b at *
  generalize hrud : decide (P - (dg1 + 1) + 1 < fb) = ru at *
  obtain ⟨hb, hru⟩ := hex
  -- the integer part
  generalize hn : num / den = n at *
  have hn2 : 2 ^ pe ≤ n := by
    rw [← hn, Nat.le_div_iff_mul_le hden]; exact hpow
  have hnge : 10 ^ dg1 ≤ n := le_trans ht1 hn2
  have hLn : dg1 < (D n).length := D_length_gt hnge
  have hnpos : 0 < n := lt_of_lt_of_le (Nat.pow_pos (by decide)) hnge
  have hbn : b / 10 ^ fl = n := by
    rw [hb, Nat.div_div_eq_div_mul, Nat.mul_div_mul_right _ _ (Nat.pow_pos (by decide)), hn]
  have hbge : 10 ^ fl ≤ b := by
    have h10 : 0 < 10 ^ fl := Nat.pow_pos (by decide)
    have : 1 ≤ b / 10 ^ fl := by omega
    rw [Nat.le_div_iff_mul_le h10] at this; omega
  have hLb : (D b).length = (D n).length + fl := by rw [D_length_div hbge, hbn]
  have hbpos : 0 < b := lt_of_lt_of_le (Nat.pow_pos (by decide)) hbge
  have hblen : (D b).length ≤ 1344 :=
    D_length_le _ 1344 (by decide) (lt_of_lt_of_le hb1344 (Nat.pow_le_pow_left (by decide) 1344))
  have hb10 : (D b).length ≤ P → b % 10 ≠ 0 := by
    intro hLP
    rcases hfleq with h | h
    · rw [hodd h]; decide
    · omega
  -- model side
  rw [realToString_finite64 pre bits p 0 hfin hnz, hpp, realFinite_reduce shape64 _ hfl hel hnz hP40, hrs]
  have hR : R b = Rl b := by simp [R, Rl]; omega
  unfold layout
  have e1 : ¬ ((0:Nat) = fmtSemiFixed) := by decide
  have e2 : ¬ ((0:Nat) = fmtFixed) := by decide
  simp only [e1, e2, if_false, hR]
  have hmodel := formatDefault_frac_ge1 (if bits / 2 ^ 63 % 2 = 1 then pre ++ [45] else pre) (b := b) (P := P)
    (dg := dg1 + 1) (fl := fl) ru hbpos hPpos hx hfl0 (by omega) hb10 (by omega)
  rw [format64_finite bits p _ hdec64]
  simp only []
  have hsign : ∀ body : List Nat, (if bits / 2 ^ 63 % 2 = 1 then pre ++ [45] else pre) ++ body =
      pre ++ FmtSpec.signed (decide (bits / 2 ^ 63 % 2 = 1)) body := by
    intro body
    by_cases hs : bits / 9223372036854775808 % 2 = 1 <;> simp [hs, FmtSpec.signed, FmtSpec.cMinus]
  by_cases hLP : (D b).length ≤ P
  · -- short run: nothing is rounded
    rw [if_pos hLP] at hmodel
    rw [hmodel, List.append_assoc, hsign]
    refine congrArg (fun x => Except.ok (pre ++ FmtSpec.signed _ x)) ?_
    have hnof : ¬ (P - (dg1 + 1) + 1 < fb) := by
      rcases hfleq with h | h
      · exact h
      · omega
    have hruf : ru = false := by rw [← hrud]; simp [hnof]
    have hrem : num * 10 ^ fl % den = 0 := by
      by_contra hcon
      have := hru.mpr hcon
      rw [hruf] at this; cases this
    have hexact : num * 10 ^ fl = b * den := by
      rw [hb]; exact (Nat.div_mul_cancel (Nat.dvd_of_mod_eq_zero hrem)).symm
    have hmid := generalBody_mid (p := p) hden hdenle (by rw [hP, hn]; omega)
    rw [hP, hn] at hmid
    rw [hmid, if_neg (by intro h; omega), ← fixedBody_eq_text,
      fixedBody_exact hden hexact (by omega) (by omega)]
    obtain ⟨k, hk⟩ := Nat.exists_eq_succ_of_ne_zero (by omega : fl ≠ 0)
    have hxm : (b % 10 ^ fl) % 10 ≠ 0 := by
      rw [Nat.mod_mod_of_dvd _ (by rw [hk, Nat.pow_succ]; exact Nat.dvd_mul_left _ _)]; exact hb10 hLP
    rw [hk] at hxm ⊢
    rw [stripFraction_exact _ _ _ _ hxm]
  · rw [if_neg hLP] at hmodel
    obtain ⟨T, z, pi, hT0, hT10, hk, hpiff, hpilt, hfmt⟩ := hmodel
    rw [hfmt, hsign]
    refine congrArg (fun x => Except.ok (pre ++ FmtSpec.signed _ x)) ?_
    rw [show (D b).length - fl = (D n).length by omega]
    by_cases hLnP : (D n).length ≤ P
    · have hmid := generalBody_mid (p := p) hden hdenle (by rw [hP, hn]; exact hLnP)
      rw [hP, hn] at hmid
      have hKk : FmtSpec.roundHalfEven (num * 10 ^ (P - (D n).length)) den = keptUp b ((D b).length - P - 1) ru := by
        have h1 := roundHalfEven_digits (N := num * 10 ^ fl) (den := den) (b := b) (i := (D b).length - P - 1) (ru := ru)
          hden hb hru
        have efl : fl = (P - (D n).length) + ((D b).length - P - 1 + 1) := by omega
        rw [show num * 10 ^ fl = num * 10 ^ (P - (D n).length) * 10 ^ ((D b).length - P - 1 + 1) by
          rw [Nat.mul_assoc, ← Nat.pow_add, ← efl], roundHalfEven_scale _ _ _ (Nat.pow_pos (by decide))] at h1
        unfold keptUp; exact h1
      rw [hmid, hKk]
      by_cases hcond : keptUp b ((D b).length - P - 1) ru = 10 ^ P ∧ (D n).length = P
      · have hpiv : pi = true := hpiff.mpr hcond.1
        obtain ⟨rfl, rfl⟩ := pow10_factor hT10 (by rw [← hk, hcond.1])
        rw [if_pos hcond, hpiv]
        simp only [if_true, Nat.sub_zero]
        rw [if_pos (by omega), hcond.2]
      · rw [if_neg hcond, if_neg]
        intro hc
        apply hcond
        cases hpiv : pi
        · rw [hpiv] at hc; simp at hc; omega
        · rw [hpiv] at hc; simp at hc
          exact ⟨hpiff.mp hpiv, by omega⟩
    · have hshift : keptUp n ((D n).length - P - 1) (decide (num % den ≠ 0)) = keptUp b ((D b).length - P - 1) ru := by
        rw [show (D b).length - P - 1 = ((D n).length - P - 1) + fl by omega, ← hbn]
        refine (keptUp_shift' ?_).symm
        have h1 := mod_mul_ne_zero_iff (num * 10 ^ fl) den (10 ^ fl) hden
        rw [← hb, Nat.mul_mod_mul_right] at h1
        have h10 : 0 < 10 ^ fl := Nat.pow_pos (by decide)
        simp only [decide_eq_true_eq]
        rw [hru]
        constructor
        · intro h
          apply h1.mpr
          intro h0
          rcases Nat.mul_eq_zero.mp h0 with h0 | h0 <;> omega
        · intro h
          have := h1.mp h
          intro h0; rw [h0, Nat.zero_mul] at this; exact this rfl
      have hle : keptUp n ((D n).length - P - 1) (decide (num % den ≠ 0)) ≤ 10 ^ P := by
        rw [hshift]
        cases hpi' : pi
        · exact Nat.le_of_lt (hpilt hpi')
        · exact Nat.le_of_eq (hpiff.mp hpi')
      have hbody := generalBody_sci' (p := p) hden hdenle (by rw [hP, hn]; omega) hT0 hT10
        (by rw [hP, hn, hshift]; exact hk) (by rw [hP, hn]; exact hle)
      rw [hbody, hP, hn, hshift]
      have hX : (D n).length - (if pi = true then 0 else 1) =
          (D n).length - 1 + (if keptUp b ((D b).length - P - 1) ru = 10 ^ P then 1 else 0) := by
        cases hpi' : pi
        · have : ¬ (keptUp b ((D b).length - P - 1) ru = 10 ^ P) := fun hc => by have := hpiff.mpr hc; rw [hpi'] at this; cases this
          simp [this]
        · have : keptUp b ((D b).length - P - 1) ru = 10 ^ P := hpiff.mp hpi'
          simp [this]; omega
      rw [if_pos (by split <;> omega), hX]


/-- **Default (`%.{p}g`) for every finite double of magnitude ≥ 1** (precision ≤ 40) -/
theorem default_ge1_64 (pre : List Nat) (bits p : Nat) (hp : p ≤ 40)
    (hfin : (bits / 2 ^ 52) % 2 ^ 11 ≠ 2 ^ 11 - 1) (hge1 : 1023 ≤ (bits / 2 ^ 52) % 2 ^ 11) :
    realToString f64 pre bits p 0 = .ok (pre ++ FmtSpec.format64 bits p .default) := by
  by_cases hx : (if p = 0 then 1 else p) < ((bits / 2 ^ 52) % 2 ^ 11 - 1023) * 30103 / 100000 + 1
  · exact default_extra64 pre bits p hp hfin hge1 hx
  · by_cases h0 : fracBits 52 1023 (bits % 2 ^ 52) ((bits / 2 ^ 52) % 2 ^ 11) = 0
    · obtain ⟨j, hj⟩ := intValued_of_fracBits_zero hfin hge1 h0
      by_cases hl : (D (intValue64 ((bits / 2 ^ 52) % 2 ^ 11) (bits % 2 ^ 52))).length ≤ (if p = 0 then 1 else p)
      · exact default_small_int64 pre bits p j hj hl (by omega)
      · exact default_big_int64 pre bits p j hp hj (by omega)
    · exact default_frac64 pre bits p hp hfin hge1 (by omega) (by omega)

end Qentem.Proofs.NumToStr
