import Qentem.Proofs.StrToNumTail
import Qentem.Proofs.StrToNumFrac
/-! C09 helper lemma: an integer mantissa of at most 19 digits followed by an exponent marker — the scan and the
20th-digit stage end at the marker. -/
set_option linter.unusedSimpArgs false
namespace Qentem.StrToNum
open Qentem.Round

theorem afterSign_int_marker (c : List Nat) (e : Nat) (neg : Bool) (off d1 : Nat) (xs : List Nat) (m : Nat)
    (he : e < 2 ^ 32) (h1 : isNonZeroDigit d1 = true) (hxs : AllDigits xs) (hlen : xs.length ≤ 18)
    (hm : m = 101 ∨ m = 69) (hu : unitsAt c e off (d1 :: xs ++ [m])) :
    afterSign c e neg off =
      finishReal c e neg (decVal (d1 :: xs)) (off + 1 + xs.length) (off + 1 + xs.length) off false false 0 := by
  have hu3 := (unitsAt_append c e (d1 :: xs) [m] off).1 hu
  have hd1xs : unitsAt c e off (d1 :: xs) := hu3.1
  have hP : rd c e (off + (d1 :: xs).length) = some m := hu3.2.1
  simp only [List.length_cons] at hP
  have hoff : off < e := rd_lt hd1xs.1
  have hPe := rd_lt hP
  have hmd : isDigit m = false := by rcases hm with h | h <;> subst h <;> decide
  have hmde : isDotOrE m = true := by rcases hm with h | h <;> subst h <;> decide
  have hm46 : m ≠ 46 := by omega
  have hv64 : decVal (d1 :: xs) < 2 ^ 64 := by
    rw [decVal_cons]
    have hx : decVal xs < 10 ^ xs.length := decVal_lt_pow xs hxs
    simp [isNonZeroDigit] at h1
    have h18 : 10 ^ xs.length ≤ 10 ^ 18 := Nat.pow_le_pow_right (by decide) hlen
    have : (d1 - 48) * 10 ^ xs.length ≤ 9 * 10 ^ xs.length := Nat.mul_le_mul_right _ (by omega)
    have : (9 : Nat) * 10 ^ 18 + 10 ^ 18 < 2 ^ 64 := by decide
    omega
  have hfold : xs.foldl pushDigit (d1 - 48) = decVal (d1 :: xs) := by
    rw [foldl_pushDigit xs (d1 - 48) (by rw [decVal_cons] at hv64; exact hv64), decVal_cons]
  rw [afterSign]
  simp only [hoff, if_true, hd1xs.1, h1]
  rw [windowEnd_eq e off he hoff]
  rw [iter1_digits c e _ xs (off + 1) (d1 - 48) d1 0 false (isDigit_ne_dot (isNonZeroDigit_isDigit h1)) hxs hd1xs.2
    (by split <;> omega)
    (by
      by_cases hk : (if e - off < 19 then e else off + 19) - (off + 1) = xs.length
      · exact Or.inl hk
      · exact Or.inr ⟨m, by rw [show off + 1 + xs.length = off + (xs.length + 1) by omega]; exact hP, hmd, hm46⟩)]
  simp only [thenScan, hfold]
  have hP' : rd c e (off + 1 + xs.length) = some m := by
    rw [show off + 1 + xs.length = off + (xs.length + 1) by omega]; exact hP
  have ht : twentieth c e (decVal (d1 :: xs)) (off + 1 + xs.length) false =
      some (decVal (d1 :: xs), off + 1 + xs.length, off + 1 + xs.length, true) := by
    have hlt : off + 1 + xs.length < e := rd_lt hP'
    unfold twentieth
    simp [hlt, hP', hmde]
  rw [afterScan_of_twentieth_real c e neg off false ⟨decVal (d1 :: xs), off + 1 + xs.length, false, 0, false⟩ _ _ _ ht]

end Qentem.StrToNum
