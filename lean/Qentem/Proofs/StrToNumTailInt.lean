import Qentem.Proofs.StrToNumTail
/-! C09 helper lemmas: the real tail after an **integer** scan (no dot seen, not the fraction-only path) that stopped
before the end of the integer part: `g` ignored integer digits, then the end, an exponent, or a late dot with its
fraction digits (all dropped) and possibly an exponent. The ignored digits are added to the decimal exponent. -/
set_option linter.unusedSimpArgs false
namespace Qentem.StrToNum
open Qentem.Round

/-- decimal exponent `±k` plus `g` ignored integer digits -/
def intExp (k : Nat) (kneg : Bool) (g : Nat) : Nat × Bool :=
  if !kneg then (k + g, false) else if k ≤ g then (g - k, false) else (k - g, true)

/-- `adjustExponent` on the integer path once the "extra" power is known to be `g` -/
theorem adjust_int (off d0 : Nat) (t : Tail) (g : Nat) (hne : off ≠ t.off)
    (hextra : (if !t.hasDot then (if t.expOff = 0 then sub32 t.off off else sub32 t.expOff off)
        else if t.dotOff ≠ d0 then sub32 t.dotOff off else 0) = g)
    (hk : t.exponent < 100000000) (hg : g < 2 ^ 32 - 100000000) :
    adjustExponent false off d0 0 t = intExp t.exponent t.negExp g := by
  obtain ⟨toff, thd, tdo, teo, k, kneg⟩ := t
  simp only at hne hextra hk ⊢
  have hkg : add32 k g = k + g := add32_eq k g (by omega)
  have hs0 : ∀ a, a < 2 ^ 32 → sub32 a 0 = a := fun a ha => by rw [sub32_eq a 0 (Nat.zero_le _) ha]; rfl
  have hsgk : k ≤ g → sub32 g k = g - k := fun h => sub32_eq g k h (by omega)
  have hskg : g < k → sub32 k g = k - g := fun h => sub32_eq k g (by omega) (by omega)
  unfold adjustExponent intExp
  simp only [Bool.not_false, true_and, ne_eq, hne, not_false_eq_true, if_true, hextra]
  cases kneg with
  | false =>
    simp only [Bool.not_false, if_true, hkg, Bool.false_eq_true, if_false, ge_iff_le, Nat.zero_le]
    rw [hs0 _ (by omega)]
  | true =>
    simp only [Bool.not_true, Bool.false_eq_true, if_false]
    by_cases hle : k ≤ g
    · simp only [hle, if_true, Bool.false_eq_true, if_false, ge_iff_le, Nat.zero_le, hsgk hle]
      rw [hs0 _ (by omega)]
    · simp only [hle, if_false, if_true, hskg (by omega)]
      rw [add32_eq _ 0 (by omega), Nat.add_zero]

/-- ignored digits, then an exponent -/
theorem finishReal_int_exp (c : List Nat) (e : Nat) (neg : Bool) (num off tmp start d0 P m : Nat)
    (es ks : List Nat) (hd : digitsOn c e off P) (hoP : off ≤ P) (hP0 : P ≠ 0) (hm : rd c e P = some m) (hmE : m = 101 ∨ m = 69)
    (he : e < 2 ^ 32 - 100000000)
    (hes : es = [] ∨ es = [43] ∨ es = [45]) (hks : AllDigits ks) (hk0 : ks ≠ [])
    (hu : unitsAt c e (P + 1) (es ++ ks)) (hend : endsAt c e (P + 1 + es.length + ks.length) isDigit)
    (hsmall : decVal ks < 100000000)
    (ep10 : Nat) (hep : sub32 (sub32 tmp start) (b2n (!false && false)) = ep10) :
    finishReal c e neg num off tmp start false false d0 =
      realResult neg num ep10 (intExp (decVal ks) (decide (es = [45])) (P - off)).1
        (intExp (decVal ks) (decide (es = [45])) (P - off)).2 (P + 1 + es.length + ks.length) := by
  have hlt := rd_lt hm
  rw [finishReal, tail_skip_exp c e num off false d0 P m es ks hd hoP hm hmE hes hks hk0 hu hend]
  simp only [hep, expSat_small ks hsmall, Bool.false_eq_true, if_false]
  rw [if_neg (by omega)]
  rw [adjust_int off d0 _ (P - off) (by simp; omega)
    (by simp only [Bool.not_false, if_true, hP0, if_false]; exact sub32_eq P off hoP (by omega))
    (by simpa using hsmall) (by omega)]

/-- ignored digits, a late dot, dropped fraction digits, then the numeral ends -/
theorem finishReal_int_dot_end (c : List Nat) (e : Nat) (neg : Bool) (num off tmp start d0 P Q : Nat)
    (hd : digitsOn c e off P) (hoP : off ≤ P) (hPd : P ≠ d0) (hdot : rd c e P = some 46)
    (hd2 : digitsOn c e (P + 1) Q) (hPQ : P + 1 ≤ Q) (hQe : Q ≤ e) (he : e < 2 ^ 32 - 100000000)
    (hend : endsAt c e Q contReal)
    (ep10 : Nat) (hep : sub32 (sub32 tmp start) (b2n (!false && false)) = ep10) :
    finishReal c e neg num off tmp start false false d0 = realResult neg num ep10 (P - off) false Q := by
  have hPlt := rd_lt hdot
  have htail : tailLoop c e num (e - off) off false d0 = some (.inr ⟨Q, true, P, 0, 0, false⟩) := by
    rw [tailLoop_on c e num P (e - off) off false d0 hd hoP (by omega),
      show e - off - (P - off) = e - P by omega, tailLoop_firstDot c e num P d0 hdot,
      tailLoop_on c e num Q (e - (P + 1)) (P + 1) true P hd2 hPQ (by omega),
      show e - (P + 1) - (Q - (P + 1)) = e - Q by omega, tailLoop_stop c e num Q true P hQe hend]
  rw [finishReal, htail]
  simp only [hep, Bool.false_eq_true, if_false]
  rw [if_neg (by omega)]
  rw [adjust_int off d0 _ (P - off) (by simp; omega)
    (by simp only [Bool.not_true, Bool.false_eq_true, if_false, ne_eq, hPd, not_false_eq_true, if_true]
        exact sub32_eq P off hoP (by omega))
    (by simp) (by omega)]
  simp [intExp]

/-- ignored digits, a late dot, dropped fraction digits, then an exponent -/
theorem finishReal_int_dot_exp (c : List Nat) (e : Nat) (neg : Bool) (num off tmp start d0 P Q m : Nat)
    (es ks : List Nat)
    (hd : digitsOn c e off P) (hoP : off ≤ P) (hPd : P ≠ d0) (hdot : rd c e P = some 46)
    (hd2 : digitsOn c e (P + 1) Q) (hPQ : P + 1 ≤ Q) (hm : rd c e Q = some m) (hmE : m = 101 ∨ m = 69)
    (he : e < 2 ^ 32 - 100000000)
    (hes : es = [] ∨ es = [43] ∨ es = [45]) (hks : AllDigits ks) (hk0 : ks ≠ [])
    (hu : unitsAt c e (Q + 1) (es ++ ks)) (hend : endsAt c e (Q + 1 + es.length + ks.length) isDigit)
    (hsmall : decVal ks < 100000000)
    (ep10 : Nat) (hep : sub32 (sub32 tmp start) (b2n (!false && false)) = ep10) :
    finishReal c e neg num off tmp start false false d0 =
      realResult neg num ep10 (intExp (decVal ks) (decide (es = [45])) (P - off)).1
        (intExp (decVal ks) (decide (es = [45])) (P - off)).2 (Q + 1 + es.length + ks.length) := by
  have hPlt := rd_lt hdot
  have hQlt := rd_lt hm
  have htail : tailLoop c e num (e - off) off false d0 =
      some (.inr ⟨Q + 1 + es.length + ks.length, true, P, Q, expSat ks, decide (es = [45])⟩) := by
    rw [tailLoop_on c e num P (e - off) off false d0 hd hoP (by omega),
      show e - off - (P - off) = e - P by omega, tailLoop_firstDot c e num P d0 hdot]
    exact tail_skip_exp c e num (P + 1) true P Q m es ks hd2 hPQ hm hmE hes hks hk0 hu hend
  rw [finishReal, htail]
  simp only [hep, expSat_small ks hsmall, Bool.false_eq_true, if_false]
  rw [if_neg (by omega)]
  rw [adjust_int off d0 _ (P - off) (by simp; omega)
    (by simp only [Bool.not_true, Bool.false_eq_true, if_false, ne_eq, hPd, not_false_eq_true, if_true]
        exact sub32_eq P off hoP (by omega))
    (by simpa using hsmall) (by omega)]

/-- ignored digits, a late dot, dropped fraction digits, then an exponent out of range -/
theorem finishReal_int_dot_exp_sat (c : List Nat) (e : Nat) (neg : Bool) (num off tmp start d0 P Q m : Nat)
    (es ks : List Nat)
    (hd : digitsOn c e off P) (hoP : off ≤ P) (hdot : rd c e P = some 46)
    (hd2 : digitsOn c e (P + 1) Q) (hPQ : P + 1 ≤ Q) (hm : rd c e Q = some m) (hmE : m = 101 ∨ m = 69)
    (hes : es = [] ∨ es = [43] ∨ es = [45]) (hks : AllDigits ks) (hk0 : ks ≠ [])
    (hu : unitsAt c e (Q + 1) (es ++ ks)) (hend : endsAt c e (Q + 1 + es.length + ks.length) isDigit)
    (hnum : num ≠ 0) (hbig : 100000000 ≤ decVal ks) :
    finishReal c e neg num off tmp start false false d0 = some ⟨.notANumber, num, Q + 1 + es.length + ks.length⟩ := by
  have hPlt := rd_lt hdot
  have htail : tailLoop c e num (e - off) off false d0 =
      some (.inr ⟨Q + 1 + es.length + ks.length, true, P, Q, expSat ks, decide (es = [45])⟩) := by
    rw [tailLoop_on c e num P (e - off) off false d0 hd hoP (by omega),
      show e - off - (P - off) = e - P by omega, tailLoop_firstDot c e num P d0 hdot]
    exact tail_skip_exp c e num (P + 1) true P Q m es ks hd2 hPQ hm hmE hes hks hk0 hu hend
  rw [finishReal, htail]
  simp only []
  rw [if_pos ⟨expSat_big ks hbig, hnum⟩]

end Qentem.StrToNum
